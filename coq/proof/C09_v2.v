(* C09_v2.v — round trip and well-formedness of the v2 batch builder/reader models. *)
From Coq Require Import ZArith List Bool Lia ZifyBool.
From Verif Require Import Bits C09Bytes C09_Crc C09_Varint C09_RecordV2 C09_Valid C09_varint.
Import ListNotations.
Open Scope Z_scope.
Ltac Zify.zify_post_hook ::= Z.to_euclidean_division_equations.

Ltac u31 := unfold int64, int32, int16, valid_rec in *; unfold INT64_MIN, INT64_MAX, TWO31 in *.

(* ---- record pieces ------------------------------------------------------------------------ *)
Lemma int64_of_small x : 0 <= x < TWO31 -> int64 x.
Proof. unfold int64, INT64_MIN, INT64_MAX, TWO31. lia. Qed.

Lemma dec_obytes_enc o rest : olen o < TWO31 ->
  dec_obytes (enc_obytes o ++ rest) = Some (o, rest).
Proof.
  intros H. unfold dec_obytes, enc_obytes. destruct o as [b|].
  - rewrite <- app_assoc. rewrite varint_dec_enc
      by (cbn [olen] in H; pose proof (blen_nonneg b); u31; lia).
    cbn [bind]. pose proof (blen_nonneg b). replace (0 <=? blen b) with true by lia.
    rewrite take_app by reflexivity. reflexivity.
  - rewrite varint_dec_enc by (unfold int64, INT64_MIN, INT64_MAX; lia). reflexivity.
Qed.

Lemma enc_obytes_len o : olen o < TWO31 -> 1 <= blen (enc_obytes o) <= 10 + olen o.
Proof.
  intros H. unfold enc_obytes. destruct o as [b|]; cbn [olen] in *; u31.
  - rewrite blen_app. pose proof (blen_nonneg b).
    assert (int64 (blen b)) as Hi by (u31; lia).
    pose proof (varint_enc_len_bounds (blen b) Hi). lia.
  - assert (int64 (-1)) as Hi by (u31; lia).
    pose proof (varint_enc_len_bounds (-1) Hi). lia.
Qed.

Lemma size_obytes_len o : size_obytes o = blen (enc_obytes o).
Proof.
  unfold size_obytes, enc_obytes. destruct o as [b|].
  - rewrite blen_app, varint_size_len. reflexivity.
  - reflexivity.
Qed.

Definition hdr_ok (h : hdr) : Prop := blen (fst h) < TWO31 /\ olen (snd h) < TWO31.

Lemma enc_hdr_len h : hdr_ok h -> 2 <= blen (enc_hdr h) <= 20 + blen (fst h) + olen (snd h).
Proof.
  intros [H1 H2]. unfold enc_hdr. rewrite !blen_app.
  pose proof (blen_nonneg (fst h)).
  pose proof (enc_obytes_len (snd h) H2).
  assert (int64 (blen (fst h))) as Hi by (u31; lia).
  pose proof (varint_enc_len_bounds (blen (fst h)) Hi). u31. lia.
Qed.

Lemma size_hdr_len h : size_hdr h = blen (enc_hdr h).
Proof.
  unfold size_hdr, enc_hdr. rewrite !blen_app, varint_size_len, size_obytes_len. lia.
Qed.

Lemma dec_headers_enc hs : forall fuel rest, Forall hdr_ok hs -> (List.length hs <= fuel)%nat ->
  dec_headers fuel (Z.of_nat (List.length hs)) (concat (map enc_hdr hs) ++ rest) = Some (hs, rest).
Proof.
  induction hs as [|h hs IH]; intros fuel rest Hok Hf.
  - destruct fuel; reflexivity.
  - destruct fuel as [|fuel]; [cbn in Hf; lia|].
    inversion Hok as [|h' hs' [Hk Hv] Hoks]; subst.
    cbn [dec_headers]. replace (Z.of_nat (List.length (h :: hs)) =? 0) with false
      by (cbn [List.length]; lia).
    cbn [map concat]. unfold enc_hdr at 1. rewrite <- !app_assoc.
    pose proof (blen_nonneg (fst h)).
    rewrite varint_dec_enc by (u31; lia).
    cbn [bind]. replace (blen (fst h) <? 0) with false by lia.
    rewrite take_app by reflexivity. cbn [bind].
    rewrite dec_obytes_enc by exact Hv. cbn [bind].
    replace (Z.of_nat (List.length (h :: hs)) - 1) with (Z.of_nat (List.length hs))
      by (cbn [List.length]; lia).
    rewrite IH by (try assumption; cbn [List.length] in Hf; lia).
    cbn [bind]. destruct h; reflexivity.
Qed.

Lemma concat_hdrs_len hs : Forall hdr_ok hs ->
  Z.of_nat (List.length hs) <= blen (concat (map enc_hdr hs)).
Proof.
  induction 1 as [|h hs Hh _ IH]; [cbn; lia|].
  cbn [map concat List.length]. rewrite blen_app. pose proof (enc_hdr_len h Hh). lia.
Qed.

Lemma fold_hdr_sizes hs :
  fold_right (fun h a => size_hdr h + a) 0 hs = blen (concat (map enc_hdr hs)).
Proof.
  induction hs as [|h hs IH]; [reflexivity|].
  cbn [fold_right map concat]. rewrite blen_app, IH, size_hdr_len. reflexivity.
Qed.

(* precomputed size = encoded size, for every record (no range condition needed) *)
Theorem size_of_body_len delta off r : size_of_body delta off r = blen (enc_body delta off r).
Proof.
  unfold size_of_body, enc_body, size_of_kvh, enc_headers.
  rewrite !blen_app, !varint_size_len, !size_obytes_len, fold_hdr_sizes.
  change (blen [0]) with 1. lia.
Qed.

(* ---- what valid_rec gives ---------------------------------------------------------------- *)
Lemma olen_nonneg o : 0 <= olen o.
Proof. destruct o; cbn [olen]; [apply blen_nonneg|lia]. Qed.

Definition hdrs_tot (hs : list hdr) : Z := fold_right (fun h a => hdr_bytes h + a) 0 hs.

Lemma hdr_bytes_pos h : 1 <= hdr_bytes h.
Proof. unfold hdr_bytes. pose proof (blen_nonneg (fst h)). pose proof (olen_nonneg (snd h)). lia. Qed.

Lemma hdrs_len_le hs : Z.of_nat (List.length hs) <= hdrs_tot hs.
Proof.
  induction hs as [|h hs IH]; [cbn; lia|].
  unfold hdrs_tot in *. cbn [fold_right List.length]. pose proof (hdr_bytes_pos h). lia.
Qed.

Lemma hdrs_ok hs : hdrs_tot hs < TWO31 -> Forall hdr_ok hs.
Proof.
  induction hs as [|h hs IH]; intros Hlt; [constructor|].
  unfold hdrs_tot in *. cbn [fold_right] in Hlt.
  pose proof (hdrs_len_le hs) as Hl. unfold hdrs_tot in Hl.
  pose proof (blen_nonneg (fst h)). pose proof (olen_nonneg (snd h)).
  assert (hdr_bytes h = blen (fst h) + olen (snd h) + 1) by reflexivity.
  constructor; [unfold hdr_ok; lia|apply IH; lia].
Qed.

Lemma hdrs_enc_bound hs : hdrs_tot hs < TWO31 -> blen (concat (map enc_hdr hs)) <= 20 * hdrs_tot hs.
Proof.
  induction hs as [|h hs IH]; intros Hlt; [cbn; lia|].
  pose proof (hdrs_ok _ Hlt) as Hok. inversion Hok as [|h' hs' Hh Hhs]; subst.
  unfold hdrs_tot in *. cbn [fold_right map concat] in *.
  pose proof (hdrs_len_le hs) as Hl. unfold hdrs_tot in Hl.
  pose proof (hdr_bytes_pos h).
  rewrite blen_app. pose proof (enc_hdr_len h Hh).
  pose proof (blen_nonneg (fst h)). pose proof (olen_nonneg (snd h)).
  assert (hdr_bytes h = blen (fst h) + olen (snd h) + 1) by reflexivity.
  specialize (IH ltac:(lia)). lia.
Qed.

Lemma valid_rec_parts r : valid_rec r ->
  olen (r_key r) < TWO31 /\ olen (r_value r) < TWO31 /\ Forall hdr_ok (r_headers r) /\
  Z.of_nat (List.length (r_headers r)) < TWO31 /\
  blen (concat (map enc_hdr (r_headers r))) <= 20 * TWO31.
Proof.
  intros (Hts & Hoff & Hb). unfold rec_bytes in Hb.
  pose proof (olen_nonneg (r_key r)). pose proof (olen_nonneg (r_value r)).
  fold (hdrs_tot (r_headers r)) in Hb.
  pose proof (hdrs_len_le (r_headers r)).
  assert (Hlt : hdrs_tot (r_headers r) < TWO31) by lia.
  pose proof (hdrs_ok _ Hlt). pose proof (hdrs_enc_bound _ Hlt).
  repeat split; try lia. assumption.
Qed.

Lemma enc_body_len_bound delta off r : valid_rec r -> int64 delta -> int64 off ->
  1 <= blen (enc_body delta off r) < 64 * TWO31.
Proof.
  intros Hv Hd Ho. destruct (valid_rec_parts r Hv) as (Hk & Hvl & Hh & Hn & Hc).
  unfold enc_body, enc_headers. rewrite !blen_app. change (blen [0]) with 1.
  pose proof (varint_enc_len_bounds delta Hd). pose proof (varint_enc_len_bounds off Ho).
  pose proof (enc_obytes_len _ Hk). pose proof (enc_obytes_len _ Hvl).
  assert (Hi : int64 (Z.of_nat (List.length (r_headers r)))) by (u31; lia).
  pose proof (varint_enc_len_bounds _ Hi).
  pose proof (blen_nonneg (concat (map enc_hdr (r_headers r)))).
  u31. lia.
Qed.

(* ---- one framed record --------------------------------------------------------------------- *)
Definition out_rec (h : bheader) (first : Z) (r : record) : orecord :=
  let lat := negb (Z.land (h_attrs h) TS_TYPE_MASK =? 0) in
  mkORec (h_base h + r_offset r)
         (if lat then h_max h else h_first h + (r_ts r - first))
         (if lat then 1 else 0) (r_key r) (r_value r) (r_headers r).

Lemma read_msg_frame h first r rest : valid_rec r -> 0 <= first <= INT64_MAX ->
  read_msg h (frame first r ++ rest) = Some (out_rec h first r, rest).
Proof.
  intros Hv Hf. pose proof Hv as (Hts & Hoff & Hb).
  destruct (valid_rec_parts r Hv) as (Hk & Hvl & Hh & Hn & Hc).
  assert (Hd : int64 (r_ts r - first)) by (u31; lia).
  assert (Ho : int64 (r_offset r)) by (u31; lia).
  pose proof (enc_body_len_bound _ _ r Hv Hd Ho) as Hlen.
  unfold read_msg, frame. cbv zeta. rewrite <- app_assoc.
  rewrite varint_dec_enc by (u31; lia). cbn [bind].
  set (body := enc_body (r_ts r - first) (r_offset r) r) in *.
  assert (Hbody : body ++ rest = 0 :: varint_enc (r_ts r - first) ++ varint_enc (r_offset r)
            ++ enc_obytes (r_key r) ++ enc_obytes (r_value r)
            ++ varint_enc (Z.of_nat (List.length (r_headers r)))
            ++ concat (map enc_hdr (r_headers r)) ++ rest).
  { subst body. unfold enc_body, enc_headers. rewrite <- !app_assoc. reflexivity. }
  rewrite Hbody at 1.
  change (varint_dec (0 :: ?l)) with (Some (0, l)). cbn [bind].
  rewrite varint_dec_enc by exact Hd. cbn [bind].
  rewrite varint_dec_enc by exact Ho. cbn [bind].
  rewrite dec_obytes_enc by exact Hk. cbn [bind].
  rewrite dec_obytes_enc by exact Hvl. cbn [bind].
  rewrite varint_dec_enc by (u31; lia). cbn [bind].
  replace (Z.of_nat (List.length (r_headers r)) <? 0) with false by lia.
  rewrite dec_headers_enc; [| exact Hh |].
  2:{ rewrite app_length. pose proof (concat_hdrs_len _ Hh). unfold blen in *. lia. }
  cbn [bind]. rewrite blen_app.
  replace (blen body + blen rest - blen rest =? blen body) with true by lia.
  reflexivity.
Qed.

(* ---- the record region ----------------------------------------------------------------------- *)
Lemma frame_nonempty first r : (1 <= List.length (frame first r))%nat.
Proof.
  unfold frame. cbv zeta. rewrite app_length. unfold enc_body. cbn [app List.length]. lia.
Qed.

Lemma read_msgs_frames h first : forall acc fuel,
  Forall valid_rec acc -> 0 <= first <= INT64_MAX -> (List.length acc <= fuel)%nat ->
  read_msgs fuel h (Z.of_nat (List.length acc)) (concat (map (frame first) acc))
  = Some (map (out_rec h first) acc).
Proof.
  induction acc as [|r acc IH]; intros fuel Hv Hf Hfuel.
  - destruct fuel; reflexivity.
  - destruct fuel as [|fuel]; [cbn in Hfuel; lia|].
    inversion Hv as [|r' acc' Hr Hacc]; subst.
    cbn [read_msgs]. replace (Z.of_nat (List.length (r :: acc)) <=? 0) with false
      by (cbn [List.length]; lia).
    cbn [map concat]. rewrite read_msg_frame by assumption. cbn [bind].
    replace (Z.of_nat (List.length (r :: acc)) - 1) with (Z.of_nat (List.length acc))
      by (cbn [List.length]; lia).
    rewrite IH by (try assumption; cbn [List.length] in Hfuel; lia).
    reflexivity.
Qed.

Lemma frames_length first acc : (List.length acc <= List.length (concat (map (frame first) acc)))%nat.
Proof.
  induction acc as [|r acc IH]; [cbn; lia|].
  cbn [map concat List.length]. rewrite app_length. pose proof (frame_nonempty first r). lia.
Qed.

(* ---- header ------------------------------------------------------------------------------------ *)
Lemma take_s_be (n : nat) v r : (0 < n)%nat ->
  - (256 ^ Z.of_nat n / 2) <= v < 256 ^ Z.of_nat n / 2 ->
  take_s (Z.of_nat n) (be n v ++ r) = Some (v, r).
Proof.
  intros Hn Hv. unfold take_s. rewrite take_be. cbn [bind fst snd].
  rewrite signed_be_be by assumption. reflexivity.
Qed.
Lemma take_u_be (n : nat) v r : 0 <= v < 256 ^ Z.of_nat n ->
  take_u (Z.of_nat n) (be n v ++ r) = Some (v, r).
Proof.
  intros Hv. unfold take_u. rewrite take_be. cbn [bind fst snd].
  rewrite unsigned_be_small by assumption. reflexivity.
Qed.

Definition int8 (v : Z) : Prop := -128 <= v <= 127.

Lemma take_s8 v r : int64 v -> take_s 8 (be 8 v ++ r) = Some (v, r).
Proof. intros H. apply (take_s_be 8); [lia|]. u31. change (256 ^ Z.of_nat 8) with 18446744073709551616. lia. Qed.
Lemma take_s4 v r : int32 v -> take_s 4 (be 4 v ++ r) = Some (v, r).
Proof. intros H. apply (take_s_be 4); [lia|]. u31. change (256 ^ Z.of_nat 4) with 4294967296. lia. Qed.
Lemma take_s2 v r : int16 v -> take_s 2 (be 2 v ++ r) = Some (v, r).
Proof. intros H. apply (take_s_be 2); [lia|]. u31. change (256 ^ Z.of_nat 2) with 65536. lia. Qed.
Lemma take_s1 v r : int8 v -> take_s 1 (be 1 v ++ r) = Some (v, r).
Proof. intros H. apply (take_s_be 1); [lia|]. unfold int8 in H. change (256 ^ Z.of_nat 1) with 256. lia. Qed.
Lemma take_u4 v r : 0 <= v < 4294967296 -> take_u 4 (be 4 v ++ r) = Some (v, r).
Proof. intros H. apply (take_u_be 4). change (256 ^ Z.of_nat 4) with 4294967296. lia. Qed.

Lemma read_header_assemble base epoch magic attrs last first mx pid pepoch bseq num payload :
  let region := crc_region attrs last first mx pid pepoch bseq num payload in
  int64 base -> int32 (blen region + 9) -> int32 epoch -> int8 magic -> int16 attrs ->
  int32 last -> int64 first -> int64 mx -> int64 pid -> int16 pepoch -> int32 bseq -> int32 num ->
  read_header (assemble base epoch magic region)
  = Some (mkH base (blen region + 9) epoch magic (crc32c region) attrs last first mx pid pepoch
              bseq num, payload).
Proof.
  intros region H1 H2 H3 H4 H5 H6 H7 H8 H9 H10 H11 H12.
  unfold assemble, read_header.
  rewrite take_s8 by assumption. cbn [bind].
  rewrite take_s4 by assumption. cbn [bind].
  rewrite take_s4 by assumption. cbn [bind].
  rewrite take_s1 by assumption. cbn [bind].
  rewrite take_u4 by apply crc32c_range. cbn [bind].
  unfold region at 1. unfold crc_region.
  rewrite take_s2 by assumption. cbn [bind].
  rewrite take_s4 by assumption. cbn [bind].
  rewrite take_s8 by assumption. cbn [bind].
  rewrite take_s8 by assumption. cbn [bind].
  rewrite take_s8 by assumption. cbn [bind].
  rewrite take_s2 by assumption. cbn [bind].
  rewrite take_s4 by assumption. cbn [bind].
  rewrite take_s4 by assumption. cbn [bind].
  reflexivity.
Qed.

Lemma crc_region_len attrs last first mx pid pepoch bseq num payload :
  blen (crc_region attrs last first mx pid pepoch bseq num payload) = 40 + blen payload.
Proof. unfold crc_region. rewrite !blen_app, !be_blen. lia. Qed.

Lemma assemble_len base epoch magic region : blen (assemble base epoch magic region) = 21 + blen region.
Proof. unfold assemble. rewrite !blen_app, !be_blen. lia. Qed.

(* ---- builder state vs the accepted records --------------------------------------------------- *)
Record repr (st : bstate) (acc : list record) : Prop := mkRepr {
  rp_buf : b_buf st = region_of acc;
  rp_pos : b_pos st = HEADER_SIZE + blen (b_buf st);
  rp_first : b_first st = first_ts acc;
  rp_max : b_max st = max_ts acc;
  rp_last : b_last st = last_off acc;
  rp_num : b_num st = Z.of_nat (List.length acc) }.

Lemma repr_init : repr b_init [].
Proof. constructor; reflexivity. Qed.


Lemma resize_exact n l : blen l = n -> resize n l = l.
Proof.
  intros H. unfold resize, blen in *. replace (Z.to_nat n) with (List.length l) by lia.
  rewrite firstn_all, Nat.sub_diag. cbn. apply app_nil_r.
Qed.

Lemma region_snoc acc r : region_of (acc ++ [r]) = region_of acc ++ frame (first_of acc r) r.
Proof.
  destruct acc as [|r0 acc]; cbn [region_of app first_of].
  - cbn [map concat]. apply app_nil_r.
  - change (r0 :: acc ++ [r]) with ((r0 :: acc) ++ [r]).
    rewrite map_app, concat_app. cbn [map concat]. rewrite app_nil_r. reflexivity.
Qed.

Lemma max_ts_snoc acc r :
  max_ts (acc ++ [r]) = Some (match max_ts acc with Some m => Z.max m (r_ts r) | None => r_ts r end).
Proof.
  destruct acc as [|r0 acc]; cbn [max_ts app]; [reflexivity|].
  rewrite fold_left_app. reflexivity.
Qed.

Lemma last_off_snoc acc r : last_off (acc ++ [r]) = r_offset r.
Proof. unfold last_off. rewrite rev_unit. reflexivity. Qed.

Lemma s32_small x : 0 <= x < TWO31 -> s32 x = x.
Proof. unfold s32, TWO31. intros H. rewrite Z.mod_small by lia. lia. Qed.

Lemma frame_len first r : blen (frame first r)
  = blen (enc_body (r_ts r - first) (r_offset r) r) + varint_size (blen (enc_body (r_ts r - first) (r_offset r) r)).
Proof. unfold frame. cbv zeta. rewrite blen_app, varint_size_len. lia. Qed.

Lemma append_spec i c st acc r : repr st acc -> Forall valid_rec acc -> valid_rec r ->
  let fr := frame (first_of acc r) r in
  exists st',
    append i c st r = (st', if refuses i c acc r then None
                            else Some (mkMeta (r_offset r) (blen fr) (r_ts r)))
    /\ repr st' (if refuses i c acc r then acc else acc ++ [r]).
Proof.
  intros [Hbuf Hpos Hfirst Hmax Hlast Hnum] Hacc Hr fr.
  pose proof Hr as (Hts & Hoff & Hb).
  destruct st as [buf pos fst mx last num]. cbn [b_buf b_pos b_first b_max b_last b_num] in *.
  subst buf pos fst mx last num.
  unfold refuses. fold fr. unfold append.
  cbn [b_buf b_pos b_first b_max b_last b_num].
  destruct i.
  - (* Python *)
    destruct acc as [|r0 acc].
    + cbn [first_ts is_unset nonempty andb negb region_of max_ts].
      rewrite andb_false_r. cbn [b_buf b_pos b_first b_max b_last b_num].
      eexists. split.
      * f_equal. f_equal. f_equal.
        subst fr. cbn [first_of]. rewrite frame_len, Z.sub_diag. lia.
      * subst fr. cbn [first_of app]. constructor; cbn [b_buf b_pos b_first b_max b_last b_num].
        -- cbn [region_of map concat app]. unfold frame. rewrite Z.sub_diag, app_nil_r. reflexivity.
        -- reflexivity.
        -- reflexivity.
        -- cbn [max_ts fold_left]. rewrite Z.max_id. reflexivity.
        -- reflexivity.
        -- reflexivity.
    + cbn [first_ts is_unset nonempty andb negb].
      rewrite andb_true_r. cbn [first_of] in fr.
      assert (Hsz : blen (enc_body (r_ts r - r_ts r0) (r_offset r) r)
                    + varint_size (blen (enc_body (r_ts r - r_ts r0) (r_offset r) r))
                    + (HEADER_SIZE + blen (region_of (r0 :: acc)))
                    = HEADER_SIZE + blen (region_of (r0 :: acc)) + blen fr).
      { subst fr. rewrite frame_len. lia. }
      rewrite Hsz.
      destruct (c_batch_size c <? HEADER_SIZE + blen (region_of (r0 :: acc)) + blen fr) eqn:E.
      * eexists. split; [reflexivity|]. constructor; reflexivity.
      * eexists. split.
        -- f_equal. f_equal. f_equal. subst fr. rewrite frame_len. lia.
        -- constructor; cbn [b_buf b_pos b_first b_max b_last b_num].
           ++ rewrite region_snoc. reflexivity.
           ++ reflexivity.
           ++ reflexivity.
           ++ rewrite max_ts_snoc. reflexivity.
           ++ rewrite last_off_snoc. reflexivity.
           ++ rewrite app_length. cbn [List.length]. lia.
  - (* compiled *)
    assert (Hun : is_unset Cy (first_ts acc) = negb (nonempty acc)).
    { destruct acc as [|r0 acc]; [reflexivity|]. cbn [first_ts is_unset nonempty negb].
      inversion Hacc as [|r0' acc' (H0 & _) _]; subst. lia. }
    rewrite Hun.
    assert (Hd : (if negb (nonempty acc) then 0
                  else r_ts r - match first_ts acc with Some t => t | None => 0 end)
                 = r_ts r - first_of acc r).
    { destruct acc; cbn [nonempty negb first_ts first_of]; lia. }
    rewrite Hd. rewrite size_of_body_len.
    set (body := enc_body (r_ts r - first_of acc r) (r_offset r) r) in *.
    assert (Hfr : fr = varint_enc (blen body) ++ body) by reflexivity.
    assert (Hsz : HEADER_SIZE + blen (region_of acc) + (blen body + varint_size (blen body))
                  = HEADER_SIZE + blen (region_of acc) + blen fr).
    { rewrite Hfr, blen_app, varint_size_len. lia. }
    rewrite Hsz.
    destruct (negb (r_offset r =? 0) && (c_batch_size c <=? HEADER_SIZE + blen (region_of acc) + blen fr)) eqn:E.
    + eexists. split; [reflexivity|]. constructor; reflexivity.
    + rewrite resize_exact.
      2:{ rewrite blen_app, <- Hfr. unfold HEADER_SIZE. lia. }
      eexists. split.
      * f_equal. f_equal. f_equal. rewrite Hfr, blen_app, varint_size_len. lia.
      * constructor; cbn [b_buf b_pos b_first b_max b_last b_num].
        -- rewrite region_snoc, <- Hfr. reflexivity.
        -- rewrite blen_app, <- Hfr. rewrite <- Hsz. rewrite Hfr, blen_app, varint_size_len. lia.
        -- destruct acc; reflexivity.
        -- rewrite max_ts_snoc. destruct acc as [|r0 acc]; cbn [nonempty negb].
           ++ cbn [max_ts]. rewrite Z.ltb_irrefl. reflexivity.
           ++ destruct (max_ts (r0 :: acc)) as [m|] eqn:Em; [|discriminate Em].
              f_equal. destruct (m <? r_ts r) eqn:E2; lia.
        -- rewrite last_off_snoc. apply s32_small. exact Hoff.
        -- rewrite app_length. cbn [List.length]. lia.
Qed.

(* ---- any sequence of appends ----------------------------------------------------------------- *)

Lemma appends_run i c : forall rs st acc,
  repr st acc -> Forall valid_rec acc -> Forall valid_rec rs ->
  exists st', appends i c st rs = (st', fst (run_spec i c acc rs))
    /\ repr st' (snd (run_spec i c acc rs))
    /\ Forall valid_rec (snd (run_spec i c acc rs))
    /\ snd (run_spec i c acc rs) = acc ++ accepted rs (fst (run_spec i c acc rs)).
Proof.
  induction rs as [|r rs IH]; intros st acc Hrep Hacc Hrs.
  - exists st. cbn. rewrite app_nil_r. auto.
  - inversion Hrs as [|r' rs' Hr Hrs']; subst.
    destruct (append_spec i c st acc r Hrep Hacc Hr) as (st1 & Happ & Hrep1).
    cbn zeta in Happ. cbn [appends run_spec]. rewrite Happ.
    destruct (refuses i c acc r) eqn:E.
    + destruct (IH st1 acc Hrep1 Hacc Hrs') as (st2 & H2 & Hrep2 & Hv2 & Hacc2).
      rewrite H2. destruct (run_spec i c acc rs) as [ms a] eqn:Er. cbn [fst snd] in *.
      exists st2. refine (conj _ (conj Hrep2 (conj Hv2 _))); [reflexivity|].
      cbn [accepted]. exact Hacc2.
    + assert (Hacc1 : Forall valid_rec (acc ++ [r])).
      { apply Forall_app. split; [assumption|constructor; [assumption|constructor]]. }
      destruct (IH st1 (acc ++ [r]) Hrep1 Hacc1 Hrs') as (st2 & H2 & Hrep2 & Hv2 & Hacc2).
      rewrite H2. destruct (run_spec i c (acc ++ [r]) rs) as [ms a] eqn:Er. cbn [fst snd] in *.
      exists st2. refine (conj _ (conj Hrep2 (conj Hv2 _))); [reflexivity|].
      cbn [accepted]. rewrite Hacc2, <- app_assoc. reflexivity.
Qed.

(* ---- summaries of valid records are in range ----------------------------------------------------- *)
Lemma first_ts_range acc t : Forall valid_rec acc -> first_ts acc = Some t -> 0 <= t <= INT64_MAX.
Proof.
  intros H E. destruct acc as [|r acc]; [discriminate|]. inversion E; subst.
  inversion H as [|r' a' (H0 & _) _]; subst. exact H0.
Qed.

Lemma fold_max_range rs : forall m, Forall valid_rec rs -> 0 <= m <= INT64_MAX ->
  0 <= fold_left (fun m x => Z.max m (r_ts x)) rs m <= INT64_MAX.
Proof.
  induction rs as [|r rs IH]; intros m H Hm; [exact Hm|].
  inversion H as [|r' a' (H0 & _) Hrs]; subst. cbn [fold_left]. apply IH; [assumption|lia].
Qed.

Lemma max_ts_range acc t : Forall valid_rec acc -> max_ts acc = Some t -> 0 <= t <= INT64_MAX.
Proof.
  intros H E. destruct acc as [|r acc]; [discriminate|]. inversion E; subst.
  inversion H as [|r' a' (H0 & _) Hrs]; subst. apply fold_max_range; assumption.
Qed.

Lemma last_off_range acc : Forall valid_rec acc -> 0 <= last_off acc < TWO31.
Proof.
  intros H. unfold last_off. destruct (rev acc) as [|r l] eqn:E; [unfold TWO31; lia|].
  assert (In r acc) by (apply in_rev; rewrite E; left; reflexivity).
  rewrite Forall_forall in H. destruct (H r ltac:(assumption)) as (_ & Ho & _). exact Ho.
Qed.

(* ---- attribute bits ---------------------------------------------------------------------------------- *)
Lemma attrs_bits codec (use txn : bool) (l k : Z) : 0 <= codec <= 4 -> l = 0 \/ l = 8 -> k = 0 \/ k = 32 ->
  let a := Z.lor (Z.lor (Z.lor (if use then Z.land codec CODEC_MASK else 0) (if txn then TXN_MASK else 0)) l) k in
  Z.land a CODEC_MASK = (if use then codec else 0)
  /\ (Z.land a TS_TYPE_MASK =? 0) = (l =? 0)
  /\ (Z.land a TXN_MASK =? 0) = negb txn
  /\ (Z.land a CONTROL_MASK =? 0) = (k =? 0)
  /\ 0 <= a < 64.
Proof.
  intros Hc Hl Hk.
  assert (Hcases : codec = 0 \/ codec = 1 \/ codec = 2 \/ codec = 3 \/ codec = 4) by lia.
  destruct Hcases as [->|[->|[->|[->| ->]]]]; destruct Hl as [-> | ->]; destruct Hk as [-> | ->];
    destruct use, txn; cbv; repeat split; congruence.
Qed.

(* ---- build, on a represented state --------------------------------------------------------------------- *)

Section WithCodec0.
  Variable compress : Z -> bytes -> bytes.
  Notation uses_codec := (uses_codec compress).

  Lemma land_codec c : 0 <= c_codec c <= 4 -> Z.land (c_codec c) CODEC_MASK = c_codec c.
  Proof.
    intros H. assert (Hc : c_codec c = 0 \/ c_codec c = 1 \/ c_codec c = 2 \/ c_codec c = 3 \/ c_codec c = 4) by lia.
    destruct Hc as [->|[->|[->|[->| ->]]]]; reflexivity.
  Qed.

  Lemma build_repr i c st acc : repr st acc -> 0 <= c_codec c <= 4 ->
    let data := region_of acc in
    let use := uses_codec i c data in
    build compress i c st =
    assemble 0 (-1) (c_magic c)
      (crc_region (attributes c use) (last_off acc) (hdr_first i acc) (hdr_max i acc)
                  (c_pid c) (c_pepoch c) (c_bseq c) (Z.of_nat (List.length acc))
                  (if use then compress (c_codec c) data else data)).
  Proof.
    intros [Hbuf Hpos Hfirst Hmax Hlast Hnum] Hc. cbv zeta.
    unfold build, uses_codec, hdr_first, hdr_max. rewrite land_codec by exact Hc.
    rewrite Hbuf, Hfirst, Hmax, Hlast, Hnum.
    destruct i; destruct (first_ts acc); reflexivity.
  Qed.

  Lemma skipn_assemble base epoch magic region : skipn 21 (assemble base epoch magic region) = region.
  Proof.
    unfold assemble.
    replace (be 8 base ++ be 4 (blen region + 9) ++ be 4 epoch ++ be 1 magic ++ be 4 (crc32c region) ++ region)
      with ((be 8 base ++ be 4 (blen region + 9) ++ be 4 epoch ++ be 1 magic ++ be 4 (crc32c region)) ++ region)
      by (rewrite <- !app_assoc; reflexivity).
    replace 21%nat with (List.length (be 8 base ++ be 4 (blen region + 9) ++ be 4 epoch ++ be 1 magic ++ be 4 (crc32c region)))
      by (rewrite !app_length, !be_length; reflexivity).
    apply skipn_app_exact.
  Qed.

  Lemma slice_8_12_assemble base epoch magic region :
    slice 8 12 (assemble base epoch magic region) = be 4 (blen region + 9).
  Proof.
    unfold assemble.
    pose proof (slice_app_mid (be 8 base) (be 4 (blen region + 9))
                  (be 4 epoch ++ be 1 magic ++ be 4 (crc32c region) ++ region)) as H.
    rewrite !be_blen in H. exact H.
  Qed.

End WithCodec0.

  (* the produced bytes: header fields, size, Length field *)
  Lemma build_header compress i c st acc :
    repr st acc -> Forall valid_rec acc -> valid_cfg c ->
    Z.of_nat (List.length acc) < TWO31 ->
    let b := build compress i c st in
    blen b < TWO31 ->
    let use := uses_codec compress i c (region_of acc) in
    let payload := if use then compress (c_codec c) (region_of acc) else region_of acc in
    let h := mkH 0 (blen b - 12) (-1) 2 (crc32c (skipn 21 b)) (attributes c use) (last_off acc)
                 (hdr_first i acc) (hdr_max i acc) (c_pid c) (c_pepoch c) (c_bseq c)
                 (Z.of_nat (List.length acc)) in
    read_header b = Some (h, payload)
    /\ blen b = 61 + blen payload /\ signed_be (slice 8 12 b) = blen b - 12
    /\ int64 (hdr_first i acc) /\ int64 (hdr_max i acc).
  Proof.
    intros Hrep Hacc (Hmagic & Hcodec & Hpid & Hpep & Hbseq) Hnum b Hlen use payload h.
    assert (Hnum32 : int32 (Z.of_nat (List.length acc))) by (clear - Hnum; u31; lia).
    assert (Hm1 : int32 (-1)) by (u31; lia).
    assert (H064 : int64 0) by (u31; lia).
    assert (Hi82 : int8 2) by (unfold int8; lia).
    pose proof (build_repr compress i c st acc Hrep Hcodec) as Hb. cbv zeta in Hb.
    fold use in Hb. fold payload in Hb. fold b in Hb.
    pose proof (crc_region_len (attributes c use) (last_off acc) (hdr_first i acc) (hdr_max i acc)
                  (c_pid c) (c_pepoch c) (c_bseq c) (Z.of_nat (List.length acc)) payload) as Hrl.
    assert (Hbl : blen b = 61 + blen payload) by (rewrite Hb, assemble_len, Hrl; lia).
    pose proof (blen_nonneg payload) as Hpl.
    destruct (attrs_bits (c_codec c) use (c_txn c) 0 0 Hcodec (or_introl eq_refl) (or_introl eq_refl))
      as (_ & _ & _ & _ & Ha5).
    cbv zeta in Ha5. rewrite !Z.lor_0_r in Ha5. fold (attributes c use) in Ha5.
    pose proof (last_off_range acc Hacc) as Hlo.
    assert (Hlo32 : int32 (last_off acc)) by (clear - Hlo; u31; lia).
    assert (Ha16 : int16 (attributes c use)) by (clear - Ha5; u31; lia).
    assert (Hlen32 : int32 (blen (crc_region (attributes c use) (last_off acc) (hdr_first i acc) (hdr_max i acc)
                  (c_pid c) (c_pepoch c) (c_bseq c) (Z.of_nat (List.length acc)) payload) + 9))
      by (clear - Hrl Hbl Hlen Hpl; u31; lia).
    assert (Hf : int64 (hdr_first i acc)).
    { unfold hdr_first. destruct (first_ts acc) as [t|] eqn:E.
      - pose proof (first_ts_range acc t Hacc E). u31. lia.
      - destruct i; cbn; u31; lia. }
    assert (Hm : int64 (hdr_max i acc)).
    { unfold hdr_max. destruct (max_ts acc) as [t|] eqn:E.
      - pose proof (max_ts_range acc t Hacc E). u31. lia.
      - destruct i; cbn; u31; lia. }
    assert (Hh : read_header b = Some (h, payload)).
    { rewrite Hb at 1.
      pose proof (read_header_assemble 0 (-1) (c_magic c) (attributes c use) (last_off acc)
                    (hdr_first i acc) (hdr_max i acc) (c_pid c) (c_pepoch c) (c_bseq c)
                    (Z.of_nat (List.length acc)) payload) as RH.
      cbv zeta in RH. rewrite Hmagic in RH |- *. rewrite RH; [clear RH | assumption ..].
      assert (Hsk : skipn 21 b = crc_region (attributes c use) (last_off acc) (hdr_first i acc)
                (hdr_max i acc) (c_pid c) (c_pepoch c) (c_bseq c) (Z.of_nat (List.length acc)) payload)
        by (rewrite Hb at 1; apply skipn_assemble).
      subst h. rewrite Hsk, Hrl. replace (blen b - 12) with (40 + blen payload + 9) by lia.
      reflexivity. }
    split; [exact Hh|]. split; [exact Hbl|]. split; [|split; assumption].
    rewrite Hb at 1. rewrite slice_8_12_assemble.
    rewrite signed_be_be; [rewrite Hrl; lia | lia |].
    rewrite Hrl. change (256 ^ Z.of_nat 4) with 4294967296. u31. lia.
  Qed.


Section WithCodec.
  Variable compress : Z -> bytes -> bytes.
  Variable decompress : Z -> bytes -> option bytes.
  Hypothesis codec_ok : forall c x, decompress c (compress c x) = Some x.
  Notation uses_codec := (uses_codec compress).

  (* what a consumer reads from the batch after the broker's stamping *)
  Lemma build_read i c s st acc :
    repr st acc -> Forall valid_rec acc -> valid_cfg c -> valid_stamp s ->
    Z.of_nat (List.length acc) < TWO31 ->
    let b := build compress i c st in
    blen b < TWO31 ->
    exists h', read_batch decompress (stamp s b) = Some (h', map (expect s) acc).
  Proof.
    intros Hrep Hacc Hc (Hbase & Hepoch & Hlat) Hnum b Hlen.
    destruct (build_header compress i c st acc Hrep Hacc Hc Hnum Hlen) as (Hh & Hbl & _ & Hf & Hm).
    fold b in Hh, Hbl.
    destruct Hc as (Hmagic & Hcodec & Hpid & Hpep & Hbseq).
    set (use := uses_codec i c (region_of acc)) in *.
    set (payload := if use then compress (c_codec c) (region_of acc) else region_of acc) in *.
    pose proof (blen_nonneg payload) as Hpl.
    assert (Hbase64 : int64 (s_base s)) by (clear - Hbase; u31; lia).
    assert (Hnum32 : int32 (Z.of_nat (List.length acc))) by (clear - Hnum; u31; lia).
    assert (Hi82 : int8 2) by (unfold int8; lia).
    pose proof (last_off_range acc Hacc) as Hlo.
    assert (Hlo32 : int32 (last_off acc)) by (clear - Hlo; u31; lia).
    (* the stamped batch *)
    unfold stamp. rewrite Hh. cbn [h_attrs h_last h_first h_max h_pid h_pepoch h_bseq h_num h_magic].
    set (L := match s_lat s with Some _ => TS_TYPE_MASK | None => 0 end).
    set (K := if s_control s then CONTROL_MASK else 0).
    assert (HL : L = 0 \/ L = 8) by (subst L; destruct (s_lat s); [right|left]; reflexivity).
    assert (HK : K = 0 \/ K = 32) by (subst K; destruct (s_control s); [right|left]; reflexivity).
    destruct (attrs_bits (c_codec c) use (c_txn c) L K Hcodec HL HK) as (Hb1 & Hb2 & _ & _ & Hb5).
    cbv zeta in Hb1, Hb2, Hb5. fold (attributes c use) in Hb1, Hb2, Hb5.
    set (a' := Z.lor (Z.lor (attributes c use) L) K) in *.
    set (mx := match s_lat s with Some t => t | None => hdr_max i acc end).
    assert (Hmx : int64 mx).
    { subst mx. destruct (s_lat s); [u31; lia|exact Hm]. }
    pose proof (crc_region_len a' (last_off acc) (hdr_first i acc) mx
                  (c_pid c) (c_pepoch c) (c_bseq c) (Z.of_nat (List.length acc)) payload) as Hrl'.
    unfold read_batch.
    pose proof (read_header_assemble (s_base s) (s_epoch s) 2 a' (last_off acc)
                  (hdr_first i acc) mx (c_pid c) (c_pepoch c) (c_bseq c)
                  (Z.of_nat (List.length acc)) payload) as RH.
    assert (Ha16' : int16 a') by (clear - Hb5; u31; lia).
    assert (Hlen32' : int32 (blen (crc_region a' (last_off acc) (hdr_first i acc) mx
                  (c_pid c) (c_pepoch c) (c_bseq c) (Z.of_nat (List.length acc)) payload) + 9))
      by (clear - Hrl' Hbl Hlen Hpl; u31; lia).
    cbv zeta in RH. rewrite RH; [clear RH | assumption ..].
    cbn [bind h_attrs h_num]. rewrite Hb1.
    assert (Hdata : (if (if use then c_codec c else 0) =? 0 then Some payload
                     else decompress (if use then c_codec c else 0) payload) = Some (region_of acc)).
    { subst payload. destruct use eqn:Eu.
      - assert (c_codec c <> 0).
        { subst use. unfold uses_codec in Eu. destruct (c_codec c =? 0) eqn:E0; [discriminate|lia]. }
        replace (c_codec c =? 0) with false by lia. apply codec_ok.
      - reflexivity. }
    rewrite Hdata. cbn [bind].
    set (h' := mkH (s_base s) _ _ _ _ _ _ _ _ _ _ _ _).
    assert (Hrd : read_msgs (S (List.length (region_of acc))) h' (Z.of_nat (List.length acc)) (region_of acc)
                  = Some (map (expect s) acc)).
    { destruct acc as [|r0 acc'] eqn:Eacc; [reflexivity|]. rewrite <- Eacc in *.
      assert (Hfirst : first_ts acc = Some (r_ts r0)) by (rewrite Eacc; reflexivity).
      pose proof (first_ts_range acc _ Hacc Hfirst) as Hfr.
      replace (region_of acc) with (concat (map (frame (r_ts r0)) acc)) by (rewrite Eacc; reflexivity).
      rewrite read_msgs_frames; try assumption.
      2:{ pose proof (frames_length (r_ts r0) acc). lia. }
      f_equal. apply map_ext. intros r. unfold out_rec, expect. subst h'. cbn [h_attrs h_base h_max h_first].
      rewrite Hb2. unfold hdr_first. rewrite ?Hfirst. cbn [first_ts]. subst L mx.
      destruct (s_lat s); cbn [Z.eqb negb]; f_equal; lia. }
    rewrite Hrd. cbn [bind]. eexists. reflexivity.
  Qed.
End WithCodec.

(* ---- the public statements ---------------------------------------------------------------------- *)
Lemma accepted_length rs : forall ms, (List.length (accepted rs ms) <= List.length rs)%nat.
Proof.
  induction rs as [|r rs IH]; intros ms; [cbn; lia|].
  destruct ms as [|[m|] ms]; cbn [accepted List.length]; [lia| |]; specialize (IH ms); lia.
Qed.

Lemma appends_init i c rs : Forall valid_rec rs ->
  let st := fst (appends i c b_init rs) in
  let ms := snd (appends i c b_init rs) in
  ms = fst (run_spec i c [] rs) /\ repr st (accepted rs ms) /\ Forall valid_rec (accepted rs ms).
Proof.
  intros Hrs.
  destruct (appends_run i c rs b_init [] repr_init (Forall_nil _) Hrs) as (st' & Happ & Hrep & Hv & Hacc).
  cbv zeta. rewrite Happ. cbn [fst snd]. cbn [app] in Hacc. rewrite <- Hacc. auto.
Qed.

Theorem v2_roundtrip (compress : Z -> bytes -> bytes) (decompress : Z -> bytes -> option bytes) :
  (forall c x, decompress c (compress c x) = Some x) ->
  forall i c s rs,
    valid_cfg c -> valid_stamp s -> Forall valid_rec rs -> Z.of_nat (List.length rs) < TWO31 ->
    let st := fst (appends i c b_init rs) in
    let ms := snd (appends i c b_init rs) in
    blen (build compress i c st) < TWO31 ->
    exists h, read_batch decompress (stamp s (build compress i c st))
              = Some (h, map (expect s) (accepted rs ms)).
Proof.
  intros Hcodec i c s rs Hc Hs Hrs Hn st ms Hlen.
  destruct (appends_init i c rs Hrs) as (_ & Hrep & Hv). fold st ms in Hrep, Hv.
  pose proof (accepted_length rs ms) as Hal.
  exact (build_read compress decompress Hcodec i c s st (accepted rs ms) Hrep Hv Hc Hs
              ltac:(lia) Hlen).
Qed.

(* the bytes of a built batch: size, Length field, every header field, CRC, payload *)
Theorem v2_wellformed (compress : Z -> bytes -> bytes) :
  forall i c rs,
    valid_cfg c -> Forall valid_rec rs -> Z.of_nat (List.length rs) < TWO31 ->
    let st := fst (appends i c b_init rs) in
    let acc := accepted rs (snd (appends i c b_init rs)) in
    let b := build compress i c st in
    blen b < TWO31 ->
    let use := uses_codec compress i c (region_of acc) in
    let payload := if use then compress (c_codec c) (region_of acc) else region_of acc in
    61 <= blen b /\ signed_be (slice 8 12 b) = blen b - 12 /\
    read_header b =
      Some (mkH 0 (blen b - 12) (-1) 2 (crc32c (skipn 21 b)) (attributes c use) (last_off acc)
                (hdr_first i acc) (hdr_max i acc) (c_pid c) (c_pepoch c) (c_bseq c)
                (Z.of_nat (List.length acc)), payload)
    /\ validate_crc b = true.
Proof.
  intros i c rs Hc Hrs Hn st acc b Hlen use payload.
  destruct (appends_init i c rs Hrs) as (_ & Hrep & Hv). fold st acc in Hrep, Hv.
  pose proof (accepted_length rs (snd (appends i c b_init rs))) as Hal. fold acc in Hal.
  destruct (build_header compress i c st acc Hrep Hv Hc ltac:(lia) Hlen) as (Hh & H61 & Hl & _).
  fold b use in Hh, H61. fold payload in Hh, H61. fold b in Hl.
  pose proof (blen_nonneg payload).
  repeat split; try assumption; try lia.
  unfold validate_crc. rewrite Hh. cbn [h_crc]. apply Z.eqb_refl.
Qed.

(* attribute bits of a built batch: codec bits as used, transactional bit as configured,
   timestamp-type and control bits clear (those are the broker's) *)
Theorem v2_attribute_bits c use : valid_cfg c ->
  let a := attributes c use in
  Z.land a CODEC_MASK = (if use then c_codec c else 0)
  /\ (Z.land a TXN_MASK =? 0) = negb (c_txn c)
  /\ Z.land a TS_TYPE_MASK = 0 /\ Z.land a CONTROL_MASK = 0 /\ 0 <= a < 32.
Proof.
  intros (_ & Hcodec & _) a.
  destruct (attrs_bits (c_codec c) use (c_txn c) 0 0 Hcodec (or_introl eq_refl) (or_introl eq_refl))
    as (H1 & H2 & H3 & H4 & H5).
  cbv zeta in *. rewrite !Z.lor_0_r in *. fold (attributes c use) in *. fold a in H1, H2, H3, H4, H5.
  split; [exact H1|]. split; [exact H3|].
  split; [apply Z.eqb_eq; exact H2|]. split; [apply Z.eqb_eq; exact H4|].
  subst a. unfold attributes.
  assert (Hc : c_codec c = 0 \/ c_codec c = 1 \/ c_codec c = 2 \/ c_codec c = 3 \/ c_codec c = 4) by lia.
  destruct Hc as [->|[->|[->|[->| ->]]]]; destruct use, (c_txn c); cbv; split; congruence.
Qed.

(* size(), the results of append() and the limit predicate, against the bytes produced *)
Theorem v2_size_accounting (compress : Z -> bytes -> bytes) :
  forall i c rs, Forall valid_rec rs ->
    let st := fst (appends i c b_init rs) in
    let ms := snd (appends i c b_init rs) in
    let acc := accepted rs ms in
    ms = fst (run_spec i c [] rs)
    /\ size i st = HEADER_SIZE + blen (region_of acc)
    /\ (0 <= c_codec c <= 4 -> uses_codec compress i c (region_of acc) = false ->
        blen (build compress i c st) = size i st).
Proof.
  intros i c rs Hrs st ms acc.
  destruct (appends_init i c rs Hrs) as (Hms & Hrep & Hv). fold st ms in Hms, Hrep, Hv. fold acc in Hrep, Hv.
  split; [exact Hms|].
  assert (Hsize : size i st = HEADER_SIZE + blen (region_of acc)).
  { destruct Hrep as [Hbuf Hpos _ _ _ _]. unfold size. destruct i; rewrite ?Hpos, Hbuf; reflexivity. }
  split; [exact Hsize|].
  intros Hcodec Huse. rewrite (build_repr compress i c st acc Hrep Hcodec).
  rewrite Huse. rewrite assemble_len, crc_region_len, Hsize. unfold HEADER_SIZE. lia.
Qed.
