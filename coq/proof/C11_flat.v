(* C11_flat.v — inlining nested structures ([flat] / [vflat]) does not change the bytes:
   two schemas with the same [flat] put the same bytes on the wire. *)
From Coq Require Import ZArith List Bool Lia.
From Verif Require Import Wire C11Tables WireRun C11_roundtrip.
Import ListNotations.
Open Scope Z_scope.

Fixpoint vflat_fields (fs : list ty) (l : list val) : list val :=
  match fs, l with
  | f :: fs', x :: l' => vflat f x ++ vflat_fields fs' l'
  | _, _ => []
  end.

Lemma vflat_schema fs : forall l, vflat (TSchema fs) (VTup l) = vflat_fields fs l.
Proof.
  induction fs as [|f fs IH]; intros l; [destruct l; reflexivity|].
  destruct l as [|x l]; [reflexivity|].
  cbn [vflat_fields]. rewrite <- IH. reflexivity.
Qed.

Lemma enc_fields_app : forall a va b vb, length va = length a ->
  enc_fields (a ++ b) (va ++ vb) = enc_fields a va ++ enc_fields b vb.
Proof.
  induction a as [|t a IH]; intros va b vb H.
  - destruct va; [reflexivity|discriminate].
  - destruct va as [|v va]; [discriminate|]. cbn [app enc_fields].
    rewrite IH by (cbn in H; lia). rewrite app_assoc. reflexivity.
Qed.

Lemma flat_map_map {A B C} (g : A -> B) (f : B -> list C) l :
  flat_map f (map g l) = flat_map (fun x => f (g x)) l.
Proof. induction l; cbn; [reflexivity|]. f_equal. assumption. Qed.

Lemma flat_map_ext_in {A B} (f g : A -> list B) l :
  (forall x, In x l -> f x = g x) -> flat_map f l = flat_map g l.
Proof.
  induction l as [|a l IH]; intros H; cbn; [reflexivity|].
  rewrite (H a) by (left; reflexivity). f_equal. apply IH. intros x Hx. apply H. right. exact Hx.
Qed.

Definition flat_ok (t : ty) : Prop := forall v, wt t v = true ->
  length (vflat t v) = length (flat t) /\ enc_fields (flat t) (vflat t v) = enc t v.

Lemma flat_ok_prim t : (forall v, vflat t v = [v]) -> flat t = [t] -> flat_ok t.
Proof.
  intros Hv Hf v _. rewrite Hv, Hf. split; [reflexivity|]. cbn. apply app_nil_r.
Qed.

Lemma blen_map {A B} (g : A -> B) l : blen (map g l) = blen l.
Proof. unfold blen. rewrite map_length. reflexivity. Qed.

Lemma array_elems t l :
  flat_ok t -> forallb (wt t) l = true ->
  flat_map (enc (TSchema (flat t))) (map (fun x => VTup (vflat t x)) l) = flat_map (enc t) l.
Proof.
  intros Ht Hall. rewrite flat_map_map. apply flat_map_ext_in. intros x Hx.
  rewrite enc_schema. apply Ht. exact (proj1 (forallb_forall _ _) Hall x Hx).
Qed.

Lemma enc_array_some t l : enc (TArray t) (VArr (Some l)) = be 4 (blen l) ++ flat_map (enc t) l.
Proof. reflexivity. Qed.
Lemma enc_carray_some t l :
  enc (TCompactArray t) (VArr (Some l)) = enc_uvarint (blen l + 1) ++ flat_map (enc t) l.
Proof. reflexivity. Qed.

Theorem flat_same_bytes : forall t v, wt t v = true ->
  enc (TSchema (flat t)) (VTup (vflat t v)) = enc t v.
Proof.
  intros t v H. rewrite enc_schema. revert v H. change (forall v, wt t v = true -> enc_fields (flat t) (vflat t v) = enc t v).
  assert (Hall : flat_ok t); [|intros v H; exact (proj2 (Hall v H))].
  induction t using ty_ind'; try (apply flat_ok_prim; [intros []; reflexivity|reflexivity]).
  - (* Array *)
    intros v Hwt. destruct v as [| | | | |o|]; try discriminate. destruct o as [l|].
    + cbn [wt] in Hwt. apply andb_prop in Hwt as [_ Hall].
      cbn [vflat flat length]. split; [reflexivity|].
      cbn [enc_fields]. rewrite app_nil_r. rewrite !enc_array_some.
      rewrite blen_map, array_elems by assumption. reflexivity.
    + split; [reflexivity|]. cbn. reflexivity.
  - (* CompactArray *)
    intros v Hwt. destruct v as [| | | | |o|]; try discriminate. destruct o as [l|].
    + cbn [wt] in Hwt. apply andb_prop in Hwt as [_ Hall].
      cbn [vflat flat length]. split; [reflexivity|].
      cbn [enc_fields]. rewrite app_nil_r. rewrite !enc_carray_some.
      rewrite blen_map, array_elems by assumption. reflexivity.
    + split; [reflexivity|]. cbn. reflexivity.
  - (* Schema *)
    intros v Hwt. destruct v as [| | | | | |l]; try discriminate.
    rewrite wt_schema in Hwt. rewrite vflat_schema, enc_schema. cbn [flat].
    revert l Hwt. induction H as [|f fs Hf Hfs IH]; intros l Hwt.
    + destruct l; [split; reflexivity|discriminate].
    + destruct l as [|x l]; [discriminate|].
      cbn [wt_fields] in Hwt. apply andb_prop in Hwt as [Hx Hl].
      destruct (Hf x Hx) as [Hlen Henc]. destruct (IH l Hl) as [Hlen' Henc'].
      cbn [flat_map vflat_fields enc_fields]. split.
      * rewrite !app_length. lia.
      * rewrite enc_fields_app by assumption. rewrite Henc, Henc'. reflexivity.
Qed.

(* consequence used by c11_layout_conforms: equal layouts, equal bytes *)
Corollary layout_eq_same_bytes : forall s t v,
  layout_eqb s t = true -> wt t v = true ->
  enc (TSchema (flat s)) (VTup (vflat t v)) = enc t v.
Proof.
  intros s t v Hl Hwt. rewrite <- (flat_same_bytes t v Hwt).
  unfold layout_eqb in Hl.
  assert (Heq : forall a b, ty_eqb a b = true -> a = b).
  { fix IH 1. intros a b. destruct a, b; cbn; try discriminate; try reflexivity.
    - intros H. f_equal. apply IH. exact H.
    - intros H. f_equal. apply IH. exact H.
    - revert fs0. induction fs as [|x xs IHxs]; intros [|y ys] H; try discriminate; [reflexivity|].
      apply andb_prop in H as [H1 H2]. specialize (IHxs ys H2). inversion IHxs; subst.
      f_equal. f_equal. apply IH. exact H1. }
  rewrite (Heq _ _ Hl). reflexivity.
Qed.
