(* Basic lemmas for the quiet-period model (model/C06_Converge.v): lists of members, names, sums. *)
From Coq Require Import ZArith List Bool Arith Lia.
From Verif Require Import DispatchActs HeartbeatDispatch JoinRetryDispatch JoinDispatch SyncDispatch CommitDispatch
  C06_Converge.
Import ListNotations.
Local Open Scope nat_scope.

Ltac btrue :=
  repeat match goal with
         | H : _ && _ = true |- _ => apply andb_true_iff in H; destruct H
         | H : negb _ = true |- _ => apply negb_true_iff in H
         | H : negb _ = false |- _ => apply negb_false_iff in H
         end.

Lemma memb_In : forall x l, memb x l = true <-> In x l.
Proof.
  intros x l. unfold memb. rewrite existsb_exists. split.
  - intros [y [Hy E]]. apply Nat.eqb_eq in E. subst. exact Hy.
  - intros H. exists x. split; [exact H | apply Nat.eqb_refl].
Qed.

Lemma memb_false_In : forall x l, memb x l = false <-> ~ In x l.
Proof.
  intros x l. rewrite <- memb_In. destruct (memb x l).
  - split; intros H; [discriminate | exfalso; apply H; reflexivity].
  - split; intros H; [intro; discriminate | reflexivity].
Qed.

Lemma nodupb_NoDup : forall l, nodupb l = true <-> NoDup l.
Proof.
  induction l as [|x r IH]; simpl.
  - split; [constructor | reflexivity].
  - rewrite andb_true_iff, negb_true_iff, memb_false_In, IH. split.
    + intros [A B]. constructor; assumption.
    + intros H. inversion H; subst. split; assumption.
Qed.

(* ---- getm / updm ---- *)
Lemma getm_In : forall i ms m, getm i ms = Some m -> In m ms /\ m_name m = i.
Proof.
  intros i ms m H. unfold getm in H. apply find_some in H. destruct H as [A B].
  apply Nat.eqb_eq in B. split; assumption.
Qed.

Lemma getm_unique : forall i ms m, NoDup (map m_name ms) -> getm i ms = Some m ->
  forall m2, In m2 ms -> m_name m2 = i -> m2 = m.
Proof.
  intros i ms. induction ms as [|a r IH]; intros m ND H m2 Hin Hn.
  - inversion Hin.
  - simpl in ND. inversion ND as [|? ? Hnot ND']; subst. unfold getm in H. simpl in H.
    destruct (m_name a =? m_name m2) eqn:E.
    + inversion H; subst. destruct Hin as [->|Hin]; [reflexivity|].
      exfalso. apply Hnot. apply Nat.eqb_eq in E. rewrite E. apply in_map. exact Hin.
    + destruct Hin as [->|Hin]; [rewrite Nat.eqb_refl in E; discriminate|].
      apply (IH m ND' H m2 Hin eq_refl).
Qed.

Lemma updm_names : forall i f ms, (forall m, m_name (f m) = m_name m) ->
  map m_name (updm i f ms) = map m_name ms.
Proof.
  intros i f ms Hf. unfold updm. rewrite map_map. apply map_ext. intros m.
  destruct (m_name m =? i); [apply Hf | reflexivity].
Qed.

Lemma updm_length : forall i f ms, length (updm i f ms) = length ms.
Proof. intros. unfold updm. apply map_length. Qed.

(* pointwise description of the members after a step of [i] *)
Lemma in_updm : forall i f ms m', In m' (updm i f ms) ->
  exists m, In m ms /\ ((m_name m = i /\ m' = f m) \/ (m_name m <> i /\ m' = m)).
Proof.
  intros i f ms m' H. unfold updm in H. apply in_map_iff in H. destruct H as [m [E Hin]].
  exists m. split; [exact Hin|]. destruct (m_name m =? i) eqn:En.
  - left. apply Nat.eqb_eq in En. split; [exact En | symmetry; exact E].
  - right. apply Nat.eqb_neq in En. split; [exact En | symmetry; exact E].
Qed.

Lemma forallb_updm : forall (P : member -> bool) i f ms m,
  NoDup (map m_name ms) -> getm i ms = Some m ->
  forallb P ms = true -> P (f m) = true -> forallb P (updm i f ms) = true.
Proof.
  intros P i f ms m ND G HP Hf. apply forallb_forall. intros m' Hin.
  apply in_updm in Hin. destruct Hin as [m0 [Hin0 [[En ->]|[En ->]]]].
  - rewrite (getm_unique i ms m ND G m0 Hin0 En). exact Hf.
  - rewrite forallb_forall in HP. apply HP. exact Hin0.
Qed.

Lemma getm_updm_same : forall i f ms m, (forall m, m_name (f m) = m_name m) ->
  getm i ms = Some m -> getm i (updm i f ms) = Some (f m).
Proof.
  intros i f ms. induction ms as [|a r IH]; intros m Hf H; [discriminate|].
  unfold getm, updm in *. simpl in *. destruct (m_name a =? i) eqn:E.
  - inversion H; subst. rewrite Hf, E. reflexivity.
  - rewrite E. apply IH; assumption.
Qed.

(* ---- sums ---- *)
Lemma sum_app : forall a b, sum (a ++ b) = sum a + sum b.
Proof. induction a; intros; simpl; [reflexivity | rewrite IHa; lia]. Qed.

Lemma sum_map_le : forall {A} (f g : A -> nat) l, (forall x, In x l -> f x <= g x) -> sum (map f l) <= sum (map g l).
Proof.
  intros A f g l. induction l as [|a r IH]; intros H; simpl; [lia|].
  pose proof (H a (or_introl eq_refl)). assert (sum (map f r) <= sum (map g r)) by (apply IH; intros; apply H; right; assumption). lia.
Qed.

Lemma sum_map_bound : forall {A} (f : A -> nat) l k, (forall x, In x l -> f x <= k) -> sum (map f l) <= k * length l.
Proof.
  intros A f l k. induction l as [|a r IH]; intros H; simpl; [lia|].
  pose proof (H a (or_introl eq_refl)). assert (sum (map f r) <= k * length r) by (apply IH; intros; apply H; right; assumption). lia.
Qed.

(* sum over the members after a step of [i]: the others pointwise, [i] with a gain of [k] *)
Lemma sum_map_updm : forall (F F' : member -> nat) i (g : member -> member) ms m k,
  NoDup (map m_name ms) -> getm i ms = Some m ->
  (forall m0, In m0 ms -> m_name m0 <> i -> F' (g m0) <= F m0) ->
  F' (g m) + k <= F m ->
  sum (map F' (map g ms)) + k <= sum (map F ms).
Proof.
  intros F F' i g ms. induction ms as [|a r IH]; intros m k ND G Ho Hi; [discriminate|].
  simpl in ND. inversion ND as [|? ? Hnot ND']; subst. unfold getm in G. simpl in G. simpl.
  destruct (m_name a =? i) eqn:E.
  - assert (Ea : a = m) by congruence. apply Nat.eqb_eq in E. rewrite Ea in *.
    assert (sum (map F' (map g r)) <= sum (map F r)).
    { rewrite map_map. apply sum_map_le. intros x Hx. apply Ho; [right; exact Hx|].
      intro En. apply Hnot. rewrite E, <- En. apply in_map. exact Hx. }
    lia.
  - apply Nat.eqb_neq in E. pose proof (Ho a (or_introl eq_refl) E).
    assert (sum (map F' (map g r)) + k <= sum (map F r)).
    { apply (IH m k ND' G); [|exact Hi]. intros m0 H0 Hn. apply Ho; [right; exact H0 | exact Hn]. }
    lia.
Qed.

(* ---- the record setters ---- *)
Lemma member_eta : forall m, m = mkM (m_name m) (m_live m) (m_id m) (m_gen m) (m_ph m) (m_rejoin m) (m_ck m) (m_hb m)
  (m_focus m) (m_inbox m) (m_hbin m) (m_cmin m).
Proof. destruct m; reflexivity. Qed.
