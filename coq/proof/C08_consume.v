(* C08_consume.v — what the translated PartitionRecords._consume_aborted_up_to computes.
   gen/ConsumeAborted.v is regenerated from /repo on every run; this file is re-checked
   against it. *)
From Coq Require Import ZArith List Bool Lia ZifyBool Sorted.
From Verif Require Import Imp ImpLemmas ConsumeAborted.
Import ListNotations.
Open Scope Z_scope.

(* specification: pop the maximal prefix of entries whose first offset is <= o *)
Fixpoint q_drop (o : Z) (q : list (Z * Z)) : list (Z * Z) :=
  match q with
  | [] => []
  | e :: q' => if snd e <=? o then q_drop o q' else q
  end.
Fixpoint q_take (o : Z) (q : list (Z * Z)) : list Z :=
  match q with
  | [] => []
  | e :: q' => if snd e <=? o then fst e :: q_take o q' else []
  end.

Import ConsumeAborted.

Lemma body_step : forall o q0 pid fo e q vout,
  L2_body o q0 (mk pid fo (e :: q) vout) =
  if snd e <=? o then (mk (fst e) (snd e) q (vout ++ [fst e]), FNext)
  else (mk (fst e) (snd e) (e :: q) vout, FBreak).
Proof.
  intros. unfold L2_body.
  cbn [v_q v_out v_first_offset v_producer_id set_producer_id set_first_offset set_out set_q].
  replace (py_index_ok (e :: q) 0) with true
    by (symmetry; apply py_index_ok_true; rewrite zlen_cons; pose proof (zlen_nonneg q); lia).
  cbn [py_index Z.leb Z.compare Z.to_nat nth is_nil negb tl].
  destruct (snd e <=? o); reflexivity.
Qed.

Lemma consume_loop : forall o q0 q s fuel,
  v_q s = q -> (List.length q < fuel)%nat ->
  exists s', while_fuel fuel (L1_cond o q0) (L2_body o q0) s = (s', FNext)
             /\ v_q s' = q_drop o q /\ v_out s' = v_out s ++ q_take o q.
Proof.
  intros o q0 q. induction q as [|e q IH]; intros s fuel Hq Hf.
  - destruct fuel as [|fuel]; [cbn in Hf; lia|].
    exists s. cbn [while_fuel]. unfold L1_cond. rewrite Hq. cbn.
    rewrite app_nil_r. auto.
  - destruct fuel as [|fuel]; [cbn in Hf; lia|].
    destruct s as [pid fo vq vout]. cbn [v_q] in Hq. subst vq.
    cbn [while_fuel]. unfold L1_cond at 1. cbn [v_q is_nil negb].
    rewrite body_step. cbn [q_drop q_take v_out].
    destruct (snd e <=? o) eqn:E; cbn [snd fst].
    + destruct (IH (mk (fst e) (snd e) q (vout ++ [fst e])) fuel eq_refl) as (s' & W & Q & O).
      { cbn in Hf. lia. }
      exists s'. rewrite W. cbn [v_out] in O. rewrite O, <- app_assoc. cbn. auto.
    + eexists. split; [reflexivity|]. cbn. rewrite app_nil_r. auto.
Qed.

(* the translated function, for every queue and offset: no exception, no fuel exhaustion *)
Lemma consume_spec : forall o q,
  ConsumeAborted.post o q = (q_drop o q, q_take o q) /\ ConsumeAborted.py o q = Ok tt.
Proof.
  intros o q. unfold post, py, run, body.
  destruct (consume_loop o q q (init o q) (S (List.length q)) eq_refl) as (s' & W & Q & O).
  { lia. }
  rewrite W. cbn [fst snd finish]. rewrite Q, O. cbn. auto.
Qed.

(* membership form, all that the filter proof needs *)
Lemma q_take_in : forall o q p,
  In p (q_take o q) -> exists e, In e q /\ fst e = p /\ snd e <= o.
Proof.
  induction q as [|e q IH]; intros p H; cbn in H; [contradiction|].
  destruct (snd e <=? o) eqn:E; [|contradiction].
  destruct H as [H|H].
  - exists e. cbn. repeat split; auto; lia.
  - destruct (IH p H) as (e' & I & F & S). exists e'. cbn. auto.
Qed.

Lemma q_drop_in : forall o q e, In e (q_drop o q) -> In e q.
Proof.
  induction q as [|x q IH]; intros e H; cbn in H; [contradiction|].
  destruct (snd x <=? o); [right; auto|exact H].
Qed.

(* on a queue sorted by first offset the split is exact *)
Definition le_first (a b : Z * Z) : Prop := snd a <= snd b.
Definition q_sorted (q : list (Z * Z)) : Prop := StronglySorted le_first q.

Lemma q_sorted_tail : forall e q, q_sorted (e :: q) -> q_sorted q.
Proof. intros e q H. inversion H; assumption. Qed.

Lemma q_sorted_head : forall e q x, q_sorted (e :: q) -> In x q -> snd e <= snd x.
Proof.
  intros e q x H I. inversion H as [|? ? _ F]; subst. rewrite Forall_forall in F. exact (F _ I).
Qed.

Lemma q_take_sorted : forall o q p,
  q_sorted q -> (In p (q_take o q) <-> exists e, In e q /\ fst e = p /\ snd e <= o).
Proof.
  intros o q p. induction q as [|x q IH]; intros Hs.
  - cbn. split; [contradiction|]. intros (e & [] & _).
  - split; [apply q_take_in|].
    intros (e & I & F & S). cbn.
    assert (snd x <= o).
    { destruct I as [->|I]; [lia|]. pose proof (q_sorted_head _ _ _ Hs I). lia. }
    replace (snd x <=? o) with true by lia.
    destruct I as [->|I]; [left; auto|].
    right. apply IH; [eapply q_sorted_tail; eauto|]. exists e. auto.
Qed.

Lemma q_drop_sorted : forall o q e,
  q_sorted q -> (In e (q_drop o q) <-> In e q /\ o < snd e).
Proof.
  intros o q e. induction q as [|x q IH]; intros Hs.
  - cbn. tauto.
  - cbn [q_drop]. destruct (snd x <=? o) eqn:E.
    + rewrite IH by (eapply q_sorted_tail; eauto). cbn. split.
      * intros (I & L). auto.
      * intros ([->|I] & L); [lia|auto].
    + split.
      * intros I. split; [exact I|]. destruct I as [->|I]; [lia|].
        pose proof (q_sorted_head _ _ _ Hs I). lia.
      * tauto.
Qed.

Lemma q_drop_keeps_sorted : forall o q, q_sorted q -> q_sorted (q_drop o q).
Proof.
  induction q as [|x q IH]; intros Hs; cbn; [exact Hs|].
  destruct (snd x <=? o); [apply IH; eapply q_sorted_tail; eauto|exact Hs].
Qed.
