(* C03_tpstate.v — the position-keeping methods of TopicPartitionState as translated from source
   (gen/TpStateGen.v): invariant, when their assertions hold, and that the consumer model of
   model/C03_Fetcher.v moves its `pos` / `paused` components exactly as these methods do. *)
From Coq Require Import ZArith List Bool Lia.
From Verif Require Import C03_TpState TpStateGen C03_Fetcher.
Import ListNotations.
Open Scope Z_scope.
Import TpStateGen.

(* AWAITING_RESET <-> no position; CONSUMING <-> a position and no pending reset strategy *)
Definition tps_inv (t : tps) : Prop :=
  (t_status t = AWAITING_RESET /\ t_position t = None) \/
  (t_status t = CONSUMING /\ (exists p, t_position t = Some p) /\ t_reset t = None).

Lemma tps_init_inv : tps_inv tps_init.
Proof. left. split; reflexivity. Qed.

Lemma await_reset_inv t k t' : await_reset_py t k = Some t' -> tps_inv t'.
Proof. unfold await_reset_py. intros H; inversion H; subst. left. split; reflexivity. Qed.
Lemma seek_inv t o t' : seek_py t o = Some t' -> tps_inv t'.
Proof. unfold seek_py. intros H; inversion H; subst. right. cbn. repeat split; eauto. Qed.
Lemma reset_to_inv t o t' : reset_to_py t o = Some t' -> tps_inv t'.
Proof.
  unfold reset_to_py. destruct (t_status t =? 0); [|discriminate]. intros H; inversion H; subst.
  right. cbn. repeat split; eauto.
Qed.
Lemma consumed_to_inv t o t' : tps_inv t -> consumed_to_py t o = Some t' -> tps_inv t'.
Proof.
  unfold consumed_to_py. intros I. destruct (t_status t =? 1) eqn:E; [|discriminate].
  intros H; inversion H; subst. apply Z.eqb_eq in E. right. cbn.
  destruct I as [[Hs _]|[_ [_ Hr]]]; [unfold AWAITING_RESET in Hs; lia|]. repeat split; eauto.
Qed.
Lemma pause_inv t t' : tps_inv t -> pause_py t = Some t' -> tps_inv t'.
Proof. unfold pause_py. intros I H; inversion H; subst. exact I. Qed.
Lemma resume_inv t t' : tps_inv t -> resume_py t = Some t' -> tps_inv t'.
Proof. unfold resume_py. intros I H; inversion H; subst. exact I. Qed.

(* the assertions: reset_to needs "no position", consumed_to needs "a position" *)
Lemma reset_to_defined t o : tps_inv t -> (reset_to_py t o <> None <-> t_position t = None).
Proof.
  unfold reset_to_py. intros [[Hs Hp]|[Hs [[p Hp] _]]]; rewrite Hs; cbn; rewrite Hp; split; try discriminate; congruence.
Qed.
Lemma consumed_to_defined t o : tps_inv t -> (consumed_to_py t o <> None <-> t_position t <> None).
Proof.
  unfold consumed_to_py. intros [[Hs Hp]|[Hs [[p Hp] _]]]; rewrite Hs; cbn; rewrite Hp; split; try discriminate; congruence.
Qed.

(* ---- the consumer model moves pos / paused as the translated methods do ------------------------------------ *)
Definition tp_rel (s : st) (t : tps) : Prop := t_position t = pos s /\ t_paused t = paused s.

(* the method an event of the model stands for ([strategy]: the reset strategy passed to await_reset) *)
Definition tp_method (strategy : Z) (e : ev) (t : tps) : option (option tps) :=
  match e with
  | Seek o => Some (seek_py t o)
  | SeekReset => Some (await_reset_py t strategy)
  | ResetTo o => Some (reset_to_py t o)
  | Pause => Some (pause_py t)
  | Resume => Some (resume_py t)
  | _ => None
  end.

Theorem tp_methods_simulated none L strategy s e s' t r :
  tps_inv t -> tp_rel s t -> step none L s e = Some s' -> tp_method strategy e t = Some r ->
  exists t', r = Some t' /\ tps_inv t' /\ tp_rel s' t'.
Proof.
  intros I [Rp Rq] Hs Hm. destruct e; cbn in Hm; try discriminate; inversion Hm; subst r; clear Hm; cbn in Hs.
  - (* Seek *) inversion Hs; subst. eexists. split; [reflexivity|]. split; [eapply seek_inv; reflexivity|].
    split; cbn; [reflexivity|exact Rq].
  - (* SeekReset *) inversion Hs; subst. eexists. split; [reflexivity|]. split; [eapply await_reset_inv; reflexivity|].
    split; cbn; [reflexivity|exact Rq].
  - (* ResetTo *) destruct (pos s) eqn:Ep; [discriminate|]. inversion Hs; subst.
    assert (D : reset_to_py t o <> None) by (apply reset_to_defined; [exact I|congruence]).
    destruct (reset_to_py t o) as [t'|] eqn:E; [|congruence].
    exists t'. split; [reflexivity|]. split; [eapply reset_to_inv; eauto|].
    unfold reset_to_py in E. destruct (t_status t =? 0); [|discriminate]. inversion E; subst.
    split; cbn; [reflexivity|exact Rq].
  - (* Pause *) inversion Hs; subst. eexists. split; [reflexivity|]. split; [eapply pause_inv; eauto; reflexivity|].
    split; cbn; [exact Rp|]. destruct (t_paused t); reflexivity.
  - (* Resume *) inversion Hs; subst. eexists. split; [reflexivity|]. split; [eapply resume_inv; eauto; reflexivity|].
    split; cbn; [exact Rp|]. destruct (t_paused t); reflexivity.
Qed.

(* the out-of-range reply with a reset policy is await_reset: the model drops its position there *)
Lemma oor_reply_is_await_reset L s o bs s' t strategy :
  tp_rel s t -> opt_eqb (pos s) o = true -> has_buf (buf s) = false ->
  step false L s (FetchResp o OFFSET_OUT_OF_RANGE bs) = Some s' ->
  exists t', await_reset_py t strategy = Some t' /\ tps_inv t' /\ tp_rel s' t'.
Proof.
  intros [Rp Rq] Ho Hb Hs. cbn in Hs. destruct (remove1 o (inflight s)); [|discriminate].
  rewrite Ho, Hb in Hs. cbn in Hs. inversion Hs; subst.
  eexists. split; [reflexivity|]. split; [eapply await_reset_inv; reflexivity|]. split; cbn; [reflexivity|exact Rq].
Qed.
