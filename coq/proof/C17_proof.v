(* C17_proof.v — the translated murmur2 / DefaultPartitioner.__call__ against the Java spec *)
From Coq Require Import ZArith List Bool Lia ZifyBool.
From Verif Require Import Imp ImpLemmas Bits Murmur2 Partitioner Murmur2Java C17_arith.
Import ListNotations.
Open Scope Z_scope.
Ltac Zify.zify_post_hook ::= Z.to_euclidean_division_equations.

(* ---- block iteration, by index ---------------------------------------------------- *)
Fixpoint blocks (mix : Z -> Z -> Z -> Z -> Z -> Z) (n : nat) (l : list Z) (h : Z) : Z :=
  match n, l with
  | Datatypes.S n', b0 :: b1 :: b2 :: b3 :: rest => blocks mix n' rest (mix h b0 b1 b2 b3)
  | _, _ => h
  end.

Lemma blocks_snoc mix k : forall l h, (4 * (k + 1) <= length l)%nat ->
  blocks mix (Datatypes.S k) l h =
  mix (blocks mix k l h) (nth (4 * k) l 0) (nth (4 * k + 1) l 0) (nth (4 * k + 2) l 0)
      (nth (4 * k + 3) l 0).
Proof.
  induction k as [|k IH]; intros l h Hl.
  - destruct l as [|b0 [|b1 [|b2 [|b3 rest]]]]; cbn [length] in Hl; try lia. reflexivity.
  - destruct l as [|b0 [|b1 [|b2 [|b3 rest]]]]; cbn [length] in Hl; try lia.
    change (blocks mix (Datatypes.S (Datatypes.S k)) (b0 :: b1 :: b2 :: b3 :: rest) h)
      with (blocks mix (Datatypes.S k) rest (mix h b0 b1 b2 b3)).
    rewrite IH by lia.
    change (blocks mix (Datatypes.S k) (b0 :: b1 :: b2 :: b3 :: rest) h)
      with (blocks mix k rest (mix h b0 b1 b2 b3)).
    replace (4 * Datatypes.S k)%nat with (Datatypes.S (Datatypes.S (Datatypes.S (Datatypes.S (4 * k))))) by lia.
    reflexivity.
Qed.

(* jloop = blocks, then tail, then final *)
Lemma jloop_blocks : forall (n : nat) l h, (length l < 4 * (n + 1))%nat ->
  jloop l h = jfinal (jtail (blocks jmix (length l / 4) l h) (skipn (4 * (length l / 4)) l)).
Proof.
  induction n as [|n IH]; intros l h Hl.
  - destruct l as [|b0 [|b1 [|b2 [|b3 rest]]]]; cbn [length] in Hl; try lia; reflexivity.
  - destruct l as [|b0 [|b1 [|b2 [|b3 rest]]]]; try reflexivity.
    cbn [length] in Hl.
    change (jloop (b0 :: b1 :: b2 :: b3 :: rest) h) with (jloop rest (jmix h b0 b1 b2 b3)).
    rewrite IH by lia.
    replace (length (b0 :: b1 :: b2 :: b3 :: rest) / 4)%nat with (Datatypes.S (length rest / 4)).
    2:{ cbn [length]. replace (Datatypes.S (Datatypes.S (Datatypes.S (Datatypes.S (length rest)))))
          with (1 * 4 + length rest)%nat by lia.
        rewrite Nat.div_add_l by lia. lia. }
    replace (4 * Datatypes.S (length rest / 4))%nat
      with (Datatypes.S (Datatypes.S (Datatypes.S (Datatypes.S (4 * (length rest / 4)))))) by lia.
    reflexivity.
Qed.

Lemma blocks_u_j n : forall l hj, wfb l ->
  blocks umix n l (u32 hj) = u32 (blocks jmix n (map to_signed_byte l) hj).
Proof.
  induction n as [|n IH]; intros l hj Hl; [destruct l; reflexivity|].
  destruct l as [|b0 [|b1 [|b2 [|b3 rest]]]]; try reflexivity.
  unfold wfb in Hl.
  pose proof (Forall_inv Hl) as H0. pose proof (Forall_inv_tail Hl) as Hl1.
  pose proof (Forall_inv Hl1) as H1. pose proof (Forall_inv_tail Hl1) as Hl2.
  pose proof (Forall_inv Hl2) as H2. pose proof (Forall_inv_tail Hl2) as Hl3.
  pose proof (Forall_inv Hl3) as H3. pose proof (Forall_inv_tail Hl3) as Hl4.
  cbn [map blocks]. rewrite mix_eq by assumption. apply IH. exact Hl4.
Qed.

(* ---- the generated loop ---------------------------------------------------------- *)
Import Murmur2.

Definition LoopInv (data : list Z) (h0 : Z) (k : nat) (s : st) : Prop :=
  v_h s = blocks umix k data h0 /\ v_m s = PM /\ v_r s = 24 /\ v_length s = zlen data.

Lemma nth_py_index (data : list Z) i : 0 <= i -> py_index 0 data i = nth (Z.to_nat i) data 0.
Proof. apply py_index_nonneg. Qed.

Definition tail_h (data : list Z) (h : Z) : Z :=
  let len := zlen data in
  let base := Z.land len (Z.lnot 3) in
  let e := len mod 4 in
  let h := if 3 <=? e then utail3 h (py_index 0 data (base + 2)) else h in
  let h := if 2 <=? e then utail2 h (py_index 0 data (base + 1)) else h in
  if 1 <=? e then utail1 h (py_index 0 data base) else h.

Lemma land_lnot3 x : 0 <= x -> Z.land x (Z.lnot 3) = 4 * (x / 4).
Proof.
  intros Hx. rewrite <- Z.ldiff_land. change 3 with (Z.ones 2).
  rewrite Z.ldiff_ones_r by lia.
  rewrite Z.shiftr_div_pow2, Z.shiftl_mul_pow2 by lia. change (2 ^ 2) with 4. lia.
Qed.

Ltac unf := cbv beta zeta delta [set_length set_seed set_m set_r set_h set_length4 set_i
   set_extra_bytes set_i4 set_k v_length v_seed v_m v_r v_h v_length4 v_i v_extra_bytes
   v_i4 v_k] iota.

Lemma L1_body_spec data h0 k s :
  4 * (Z.of_nat k + 1) <= zlen data -> LoopInv data h0 k s ->
  exists s', L1_body data (0 + Z.of_nat k) s = (s', FNext) /\ LoopInv data h0 (Datatypes.S k) s'.
Proof.
  intros Hb (Ih & Im & Ir & Il).
  destruct s as [sl ss sm sr sh sl4 si se si4 sk].
  cbn [v_h v_m v_r v_length] in Ih, Im, Ir, Il. subst sm sr sl.
  unfold L1_body. unf.
  rewrite !py_index_ok_true by lia.
  change (0 <=? 24) with true. cbv iota.
  eexists. split; [reflexivity|].
  unfold LoopInv. cbn [v_h v_m v_r v_length]. repeat split; try reflexivity.
  rewrite blocks_snoc by (unfold zlen in Hb; lia).
  rewrite <- Ih.
  rewrite !nth_py_index by lia.
  replace (Z.to_nat ((0 + Z.of_nat k) * 4 + 0)) with (4 * k)%nat by lia.
  replace (Z.to_nat ((0 + Z.of_nat k) * 4 + 1)) with (4 * k + 1)%nat by lia.
  replace (Z.to_nat ((0 + Z.of_nat k) * 4 + 2)) with (4 * k + 2)%nat by lia.
  replace (Z.to_nat ((0 + Z.of_nat k) * 4 + 3)) with (4 * k + 3)%nat by lia.
  reflexivity.
Qed.

Lemma L2_after_spec data s :
  v_m s = PM -> v_length s = zlen data ->
  finish 0 (L2_after data s) = Ok (ufinal (tail_h data (v_h s))).
Proof.
  intros Im Il.
  destruct s as [sl ss sm sr sh sl4 si se si4 sk].
  cbn [v_h v_m v_length] in Im, Il |- *. subst sm sl.
  pose proof (zlen_nonneg data) as Hlen.
  unfold L2_after. unf.
  unfold tail_h. cbv zeta.
  rewrite land_lnot3 by lia.
  assert (He : 0 <= zlen data mod 4 < 4) by lia.
  assert (Hq : zlen data = 4 * (zlen data / 4) + zlen data mod 4) by lia.
  destruct (3 <=? zlen data mod 4) eqn:E3.
  { rewrite !py_index_ok_true by lia. cbn [seq_flow fst snd]. unf. rewrite ?land_lnot3 by lia.
    replace (2 <=? zlen data mod 4) with true by lia.
    rewrite !py_index_ok_true by lia. cbn [seq_flow fst snd]. unf. rewrite ?land_lnot3 by lia.
    replace (1 <=? zlen data mod 4) with true by lia.
    rewrite !py_index_ok_true by lia. cbn [seq_flow fst snd finish]. reflexivity. }
  cbn [seq_flow fst snd]. unf. rewrite ?land_lnot3 by lia.
  destruct (2 <=? zlen data mod 4) eqn:E2.
  { rewrite !py_index_ok_true by lia. cbn [seq_flow fst snd]. unf. rewrite ?land_lnot3 by lia.
    replace (1 <=? zlen data mod 4) with true by lia.
    rewrite !py_index_ok_true by lia. cbn [seq_flow fst snd finish]. reflexivity. }
  cbn [seq_flow fst snd]. unf. rewrite ?land_lnot3 by lia.
  destruct (1 <=? zlen data mod 4) eqn:E1.
  { rewrite !py_index_ok_true by lia. cbn [seq_flow fst snd finish]. reflexivity. }
  cbn [seq_flow fst snd finish]. reflexivity.
Qed.

Theorem murmur2_py_structural data :
  Murmur2.py data =
  Ok (ufinal (tail_h data (blocks umix (Z.to_nat (zlen data / 4)) data
                                   (Z.lxor 2538058380 (zlen data))))).
Proof.
  unfold Murmur2.py, Murmur2.run, Murmur2.body, Murmur2.init. unf.
  pose proof (zlen_nonneg data) as Hlen.
  set (h0 := Z.lxor 2538058380 (zlen data)).
  match goal with |- context [for_range ?n 0 ?b ?s] =>
    destruct (for_range_inv (LoopInv data h0) b n 0 s) as (s' & E & (Ih & Im & Ir & Il))
  end.
  - unfold LoopInv. cbn [v_h v_m v_r v_length blocks]. repeat split; reflexivity.
  - intros k s Hk Hinv. apply L1_body_spec; [|exact Hinv].
    assert (Z.of_nat k < zlen data / 4) by lia. lia.
  - rewrite E. rewrite seq_flow_next.
    rewrite L2_after_spec by assumption. rewrite Ih. reflexivity.
Qed.

(* ---- tail: index-based (Python) vs list-based (Java) --------------------------------- *)
Lemma skipn_nth_py (data : list Z) (q : nat) j :
  (0 <= j) -> py_index 0 data (Z.of_nat q + j) = nth (Z.to_nat j) (skipn q data) 0.
Proof.
  intros Hj. rewrite py_index_nonneg by lia.
  replace (Z.to_nat (Z.of_nat q + j)) with (q + Z.to_nat j)%nat by lia.
  revert data. induction q as [|q IH]; intros data; [reflexivity|].
  destruct data as [|x data]; [destruct (Z.to_nat j); reflexivity|].
  cbn [skipn Nat.add nth]. apply IH.
Qed.

Lemma skipn_nth_py0 (data : list Z) (q : nat) :
  py_index 0 data (Z.of_nat q) = nth 0 (skipn q data) 0.
Proof. rewrite <- (Z.add_0_r (Z.of_nat q)). rewrite skipn_nth_py by lia. reflexivity. Qed.

Lemma tail_eq data hj : wfb data ->
  tail_h data (u32 hj) =
  u32 (jtail hj (skipn (4 * (length data / 4)) (map to_signed_byte data))).
Proof.
  intros Hwf. unfold tail_h. cbv zeta.
  pose proof (zlen_nonneg data) as Hlen.
  rewrite land_lnot3 by lia.
  set (q := (4 * (length data / 4))%nat).
  assert (Hq : 4 * (zlen data / 4) = Z.of_nat q).
  { subst q. unfold zlen. rewrite Nat2Z.inj_mul, Nat2Z.inj_div. reflexivity. }
  rewrite Hq.
  rewrite !skipn_nth_py by lia.
  rewrite (skipn_nth_py0 data q).
  rewrite skipn_map.
  assert (Hl : Z.of_nat (length (skipn q data)) = zlen data mod 4).
  { rewrite skipn_length. unfold zlen in *. lia. }
  assert (Hw : wfb (skipn q data)).
  { unfold wfb in *. rewrite <- (firstn_skipn q data) in Hwf.
    apply Forall_app in Hwf. tauto. }
  destruct (skipn q data) as [|b0 [|b1 [|b2 [|b3 r]]]]; cbn [length] in Hl.
  - replace (zlen data mod 4) with 0 by lia. reflexivity.
  - replace (zlen data mod 4) with 1 by lia. cbn [map jtail nth Z.to_nat Z.leb Z.compare].
    change (3 <=? 1) with false. change (2 <=? 1) with false. change (1 <=? 1) with true. cbv iota.
    apply tail1_eq. exact (Forall_inv Hw).
  - replace (zlen data mod 4) with 2 by lia. cbn [map jtail].
    change (3 <=? 2) with false. change (2 <=? 2) with true. change (1 <=? 2) with true. cbv iota.
    change (Z.to_nat 1) with 1%nat. change (Z.to_nat 0) with 0%nat. cbn [nth].
    pose proof (Forall_inv Hw) as H0. pose proof (Forall_inv (Forall_inv_tail Hw)) as H1.
    rewrite tail2_eq by assumption. apply tail1_eq. assumption.
  - replace (zlen data mod 4) with 3 by lia. cbn [map jtail].
    change (3 <=? 3) with true. change (2 <=? 3) with true. change (1 <=? 3) with true. cbv iota.
    change (Z.to_nat 2) with 2%nat. change (Z.to_nat 1) with 1%nat. change (Z.to_nat 0) with 0%nat.
    cbn [nth].
    pose proof (Forall_inv Hw) as H0. pose proof (Forall_inv (Forall_inv_tail Hw)) as H1.
    pose proof (Forall_inv (Forall_inv_tail (Forall_inv_tail Hw))) as H2.
    rewrite tail3_eq by assumption. rewrite tail2_eq by assumption. apply tail1_eq. assumption.
  - exfalso. lia.
Qed.

Theorem murmur2_eq_java data :
  wfb data -> zlen data < 2147483648 ->
  Murmur2.py data = Ok (u32 (murmur2_java (map to_signed_byte data))).
Proof.
  intros Hwf Hlt. rewrite murmur2_py_structural. f_equal.
  unfold murmur2_java. rewrite map_length.
  rewrite (jloop_blocks (length data)) by (rewrite map_length; lia).
  rewrite map_length.
  rewrite <- final_eq. f_equal.
  rewrite <- tail_eq by exact Hwf. f_equal.
  assert (Hh : Z.lxor 2538058380 (zlen data) = u32 (jxor J_SEED (s32 (Z.of_nat (length data))))).
  { rewrite u32_jxor, u32_s32. change (u32 J_SEED) with 2538058380.
    pose proof (zlen_nonneg data). rewrite u32_small by (unfold zlen in *; lia). reflexivity. }
  rewrite Hh. rewrite blocks_u_j by exact Hwf.
  unfold zlen. change 4 with (Z.of_nat 4). rewrite <- Nat2Z.inj_div, Nat2Z.id. reflexivity.
Qed.

(* ---- DefaultPartitioner.__call__ --------------------------------------------------------- *)
Theorem partition_keyed key all avail pick :
  wfb key -> zlen key < 2147483648 -> all <> [] ->
  Partitioner.py (Some key) all avail pick =
  Ok (nth (Z.to_nat (java_partition (map to_signed_byte key) (zlen all))) all 0).
Proof.
  intros Hwf Hlt Hne.
  unfold Partitioner.py, Partitioner.run, Partitioner.body, Partitioner.init.
  rewrite murmur2_eq_java by assumption.
  cbv beta zeta delta [Partitioner.set_idx Partitioner.v_idx] iota.
  assert (Hn : 0 < zlen all) by (destruct all; [congruence|rewrite zlen_cons; pose proof (zlen_nonneg all); lia]).
  replace (zlen all =? 0) with false by lia. cbn [negb].
  set (idx := Z.land (u32 _) 2147483647 mod zlen all).
  assert (Hidx : 0 <= idx < zlen all) by (subst idx; apply Z.mod_pos_bound; lia).
  rewrite py_index_ok_true by lia. cbn [finish snd].
  rewrite py_index_nonneg by lia. do 3 f_equal.
  subst idx. unfold java_partition. f_equal.
  rewrite !land_ones31. unfold u32. lia.
Qed.

Theorem partition_unkeyed_available all avail pick :
  avail <> [] ->
  exists v, Partitioner.py None all avail pick = Ok v /\ In v avail.
Proof.
  intros Hne.
  unfold Partitioner.py, Partitioner.run, Partitioner.body, Partitioner.init.
  destruct avail as [|a av]; [congruence|].
  cbn [is_nil negb]. cbn [seq_flow finish snd fst].
  eexists. split; [reflexivity|].
  assert (Hn : 0 < zlen (a :: av)) by (rewrite zlen_cons; pose proof (zlen_nonneg av); lia).
  rewrite py_index_nonneg by (apply Z.mod_pos_bound; lia).
  apply nth_In. pose proof (Z.mod_pos_bound pick (zlen (a :: av)) Hn). unfold zlen in *. lia.
Qed.

(* when nothing is available an unkeyed record goes to some partition of the topic *)
Theorem partition_unkeyed_fallback all pick :
  all <> [] ->
  exists v, Partitioner.py None all [] pick = Ok v /\ In v all.
Proof.
  intros Hne.
  unfold Partitioner.py, Partitioner.run, Partitioner.body, Partitioner.init.
  destruct all as [|a av]; [congruence|].
  cbn [is_nil negb]. cbn [seq_flow finish snd fst].
  eexists. split; [reflexivity|].
  assert (Hn : 0 < zlen (a :: av)) by (rewrite zlen_cons; pose proof (zlen_nonneg av); lia).
  rewrite py_index_nonneg by (apply Z.mod_pos_bound; lia).
  apply nth_In. pose proof (Z.mod_pos_bound pick (zlen (a :: av)) Hn). unfold zlen in *. lia.
Qed.

(* with the partition list sorted by id (0..n-1), as the Java client has it, the chosen partition
   ID is the Java value itself *)
Theorem partition_id_sorted key n avail pick :
  wfb key -> zlen key < 2147483648 -> (0 < n)%nat ->
  Partitioner.py (Some key) (map Z.of_nat (seq 0 n)) avail pick =
  Ok (java_partition (map to_signed_byte key) (Z.of_nat n)).
Proof.
  intros Hwf Hlt Hn.
  assert (Hne : map Z.of_nat (seq 0 n) <> []) by (destruct n; [lia|discriminate]).
  rewrite partition_keyed by assumption. f_equal.
  assert (Hz : zlen (map Z.of_nat (seq 0 n)) = Z.of_nat n) by (unfold zlen; rewrite map_length, seq_length; reflexivity).
  rewrite Hz.
  set (j := java_partition _ _).
  assert (Hj : 0 <= j < Z.of_nat n) by (subst j; unfold java_partition; apply Z.mod_pos_bound; lia).
  rewrite (nth_indep _ 0 (Z.of_nat 0)) by (rewrite map_length, seq_length; lia).
  rewrite map_nth. rewrite seq_nth by lia. lia.
Qed.
