(* Proofs about the dispatch chains translated from group_coordinator.py (coq/gen/*Dispatch.v).
   The chains are nested conditionals on one integer: statements over a finite list of codes are
   proved by computation (forallb ... = true lifted with forallb_forall); statements over every
   integer by case analysis on the comparisons. *)
From Coq Require Import ZArith List Bool Lia.
From Verif Require Import DispatchActs C06_Codes C06_JoinScript
  HeartbeatDispatch JoinRetryDispatch JoinDispatch SyncDispatch CommitDispatch.
Import ListNotations.
Open Scope Z_scope.

Lemma forall_in_by_compute (P : Z -> bool) (l : list Z) :
  forallb P l = true -> forall c, In c l -> P c = true.
Proof. intros H c Hc. rewrite forallb_forall in H. exact (H c Hc). Qed.

Lemma heartbeat_recoverable : forall c, In c kafka_heartbeat_codes -> recovers (heartbeatDispatch c) = true.
Proof. apply forall_in_by_compute. vm_compute. reflexivity. Qed.

(* REBALANCE_IN_PROGRESS on a heartbeat: rejoin, but keep the member id and the coordinator *)
Lemma heartbeat_rebalance_rejoins_only :
  has ARequestRejoin (heartbeatDispatch 27) = true /\
  has AResetGeneration (heartbeatDispatch 27) = false /\
  has ACoordinatorDead (heartbeatDispatch 27) = false.
Proof. repeat split; vm_compute; reflexivity. Qed.

Lemma heartbeat_actions :
  (forall c, In c [15; 16] -> has ACoordinatorDead (heartbeatDispatch c) = true) /\
  (forall c, In c [22; 25] -> has AResetGeneration (heartbeatDispatch c) = true).
Proof. split; apply forall_in_by_compute; vm_compute; reflexivity. Qed.

Lemma join_recoverable : forall c, In c kafka_join_codes -> recovers (joinDispatch c) = true.
Proof. apply forall_in_by_compute. vm_compute. reflexivity. Qed.

Lemma join_member_id_required : joinRetryDispatch MEMBER_ID_REQUIRED = [ASetMemberId; ARetryJoin].
Proof. vm_compute. reflexivity. Qed.

Lemma join_retry_only_member_id_required : forall c, c <> MEMBER_ID_REQUIRED -> joinRetryDispatch c = [].
Proof.
  intros c Hc. unfold joinRetryDispatch, MEMBER_ID_REQUIRED in *.
  destruct (Z.eqb_spec c 79) as [E|E]; [contradiction|reflexivity].
Qed.

Lemma join_fatal_reported : forall c, In c kafka_join_fatal_codes -> joinDispatch c = [ARaiseSame].
Proof.
  intros c Hc. unfold kafka_join_fatal_codes in Hc. simpl in Hc.
  destruct Hc as [<-|[<-|[<-|[<-|[]]]]]; vm_compute; reflexivity.
Qed.

Lemma sync_recoverable : forall c, In c kafka_sync_codes -> recovers (syncDispatch c) = true.
Proof. apply forall_in_by_compute. vm_compute. reflexivity. Qed.

(* every SyncGroup error whatsoever - any integer but 0 - requests a rejoin first *)
Lemma sync_error_requests_rejoin : forall c, c <> 0 -> exists rest, syncDispatch c = ARequestRejoin :: rest.
Proof.
  intros c Hc. unfold syncDispatch.
  destruct (Z.eqb_spec c 0) as [E|E]; [contradiction|]. eexists. reflexivity.
Qed.

Lemma commit_not_fatal : forall c, In c kafka_commit_codes ->
  (negb (fatal (commitDispatch c)) && has AErrored (commitDispatch c)) = true.
Proof. apply forall_in_by_compute. vm_compute. reflexivity. Qed.

Lemma commit_actions :
  (forall c, In c kafka_commit_codes -> fatal (commitDispatch c) = false /\ has AErrored (commitDispatch c) = true) /\
  (forall c, In c [15; 16] -> has ACoordinatorDead (commitDispatch c) = true) /\
  (forall c, In c [22; 25] -> has AResetGeneration (commitDispatch c) = true) /\
  has ARequestRejoin (commitDispatch 27) = true.
Proof.
  split; [|split; [|split]].
  - intros c Hc. pose proof (commit_not_fatal c Hc) as H.
    apply andb_true_iff in H. destruct H as [H1 H2]. apply negb_true_iff in H1. split; assumption.
  - apply forall_in_by_compute. vm_compute. reflexivity.
  - apply forall_in_by_compute. vm_compute. reflexivity.
  - vm_compute. reflexivity.
Qed.

(* the hand model of perform_group_join (C06_JoinScript) classifies join errors as the translated
   chains do *)
Definition code_of (e : jerr) : list Z :=
  match e with
  | MemberIdRequired _ => [79]
  | LoadInProgress => [14]
  | UnknownMember => [25]
  | CoordinatorGone => [15; 16]
  | FatalJoin => kafka_join_fatal_codes
  | UnexpectedJoin => [42; 22; 27; -1]     (* representatives of "no branch names it" *)
  end.

Definition model_class (e : jerr) : jclass :=
  match e with
  | MemberIdRequired _ => JRetryWithId
  | FatalJoin | UnexpectedJoin => JRaised
  | _ => JRetryLater
  end.

Lemma join_model_agrees_with_source : forall e c,
  In c (code_of e) -> classify_join joinRetryDispatch joinDispatch c = model_class e.
Proof.
  intros e c Hc. destruct e; simpl in Hc;
    repeat match goal with H : _ \/ _ |- _ => destruct H as [<-|H] | H : False |- _ => destruct H end;
    vm_compute; reflexivity.
Qed.

Lemma join_model_outcome : forall asg mid e,
  match e with MemberIdRequired _ => True | _ =>
    snd (join_script asg mid [JoinErr e]) = match model_class e with JRaised => Raised | _ => RetryLater end
  end.
Proof. intros asg mid e. destruct e; simpl; auto. Qed.
