(* C12_proof.v — proofs about model/C12_Conn.v (connection LTS) and gen/NextCorr.v *)
From Coq Require Import ZArith List Bool Lia ZifyBool Arith.
From Verif Require Import Imp NextCorr C12_Conn.
Import ListNotations.
Open Scope Z_scope.
Ltac Zify.zify_post_hook ::= Z.to_euclidean_division_equations.

(* ================================================================== correlation counter (translated) *)
Lemma nextcorr_post c : NextCorr.post c = (c + 1) mod 2147483648.
Proof. reflexivity. Qed.

Lemma nextcorr_py c : NextCorr.py c = Ok (NextCorr.post c).
Proof. reflexivity. Qed.

Lemma nextcorr_range c : 0 <= NextCorr.post c < 2147483648.
Proof. rewrite nextcorr_post. apply Z.mod_pos_bound. lia. Qed.

Fixpoint iter_corr (k : nat) (c : Z) : Z :=
  match k with O => c | S k' => NextCorr.post (iter_corr k' c) end.

Lemma iter_corr_closed k c : 0 <= c < 2147483648 -> iter_corr k c = (c + Z.of_nat k) mod 2147483648.
Proof.
  intros Hc. induction k as [|k IH].
  - cbn [iter_corr]. rewrite Z.add_0_r, Z.mod_small by lia. reflexivity.
  - cbn [iter_corr]. rewrite IH, nextcorr_post. rewrite Nat2Z.inj_succ.
    rewrite Zplus_mod_idemp_l. f_equal. lia.
Qed.

Lemma iter_corr_distinct c j k :
  0 <= c < 2147483648 -> (j < k)%nat -> Z.of_nat k - Z.of_nat j < 2147483648 ->
  iter_corr j c <> iter_corr k c.
Proof.
  intros Hc Hjk Hd. rewrite !iter_corr_closed by assumption. intros E.
  assert (Hm : (Z.of_nat k - Z.of_nat j) mod 2147483648 = 0).
  { replace (Z.of_nat k - Z.of_nat j) with ((c + Z.of_nat k) - (c + Z.of_nat j)) by lia.
    rewrite Zminus_mod, E, Z.sub_diag. reflexivity. }
  rewrite Z.mod_small in Hm by lia. lia.
Qed.

(* ================================================================== framing *)
Lemma extract_frame_app b f rest c :
  extract b = Frame f rest -> extract (b ++ c) = Frame f (rest ++ c).
Proof.
  unfold extract.
  destruct b as [|a0 [|a1 [|a2 [|a3 r]]]]; try discriminate.
  cbn [app]. set (size := be32s a0 a1 a2 a3).
  destruct (size <? 0) eqn:Eneg; [discriminate|].
  destruct (Z.of_nat (length r) <? size) eqn:Elt; [discriminate|].
  intros E. inversion E; subst. clear E.
  rewrite app_length.
  replace (Z.of_nat (length r + length c) <? size) with false by lia.
  assert (Hn : (Z.to_nat size <= length r)%nat) by lia.
  rewrite firstn_app, skipn_app.
  replace (Z.to_nat size - length r)%nat with O by lia.
  cbn [firstn skipn]. rewrite app_nil_r. reflexivity.
Qed.

Lemma extract_bad_app b c : extract b = BadSize -> extract (b ++ c) = BadSize.
Proof.
  unfold extract.
  destruct b as [|a0 [|a1 [|a2 [|a3 r]]]]; try discriminate.
  cbn [app]. destruct (be32s a0 a1 a2 a3 <? 0); [reflexivity|].
  destruct (Z.of_nat (length r) <? be32s a0 a1 a2 a3); discriminate.
Qed.

Lemma extract_frame_len b f rest : extract b = Frame f rest -> (length rest + 4 <= length b)%nat.
Proof.
  unfold extract.
  destruct b as [|a0 [|a1 [|a2 [|a3 r]]]]; try discriminate.
  destruct (be32s a0 a1 a2 a3 <? 0); [discriminate|].
  destruct (Z.of_nat (length r) <? be32s a0 a1 a2 a3); [discriminate|].
  intros E. inversion E. cbn [length]. rewrite skipn_length. lia.
Qed.

(* ================================================================== close / handle basics *)
Section Basics.
  Variable decodes : Z -> bytes -> bool.
  Notation handle := (handle decodes).
  Notation drain := (drain decodes).
  Notation feed := (feed decodes).
  Notation step := (step decodes).
  Notation run := (run decodes).

  Definition with_rbuf (s : state) (b : bytes) : state :=
    mkS (reqs s) b (open s) (corr s) (nsent s) (log s).

  Lemma close_open c s : open (close c s) = false.
  Proof. unfold close. destruct (open s) eqn:E; [reflexivity|exact E]. Qed.

  Lemma close_rbuf_indep c s b : open s = true -> close c (with_rbuf s b) = close c s.
  Proof. unfold close, with_rbuf. cbn. intros ->. reflexivity. Qed.

  (* handle never looks at rbuf, and either keeps it (connection still open) or closes *)
  Lemma handle_rbuf s b f :
    open s = true ->
    handle (with_rbuf s b) f =
      (if open (handle s f) then with_rbuf (handle s f) b else handle s f).
  Proof.
    destruct s as [q rb op cr ns lg]. cbn [open]. intros ->.
    unfold C12_Conn.handle, with_rbuf, close, pop. cbn [reqs rbuf open corr nsent log].
    destruct q as [|e tl]; [reflexivity|].
    destruct (e_corr e) as [c|].
    - destruct (parse_header (e_flex e) f) as [[rc body]|]; [|reflexivity].
      destruct (negb (e_quirk e && negb (c =? 0) && (rc =? 0)) && negb (rc =? c)); [reflexivity|].
      destruct (e_done e); [reflexivity|].
      destruct (decodes (e_api e) body); reflexivity.
    - destruct (e_done e); reflexivity.
  Qed.

  Lemma handle_rbuf_len s f : (length (rbuf (handle s f)) <= length (rbuf s))%nat.
  Proof.
    destruct s as [q rb op cr ns lg].
    unfold C12_Conn.handle, close, pop. cbn [reqs rbuf open corr nsent log].
    destruct q as [|e tl]; [destruct op; cbn; lia|].
    destruct (e_corr e) as [c|].
    - destruct (parse_header (e_flex e) f) as [[rc body]|]; [|destruct op; cbn; lia].
      destruct (negb (e_quirk e && negb (c =? 0) && (rc =? 0)) && negb (rc =? c)); [destruct op; cbn; lia|].
      destruct (e_done e); [cbn; lia|].
      destruct (decodes (e_api e) body); [cbn; lia|destruct op; cbn; lia].
    - destruct (e_done e); cbn; lia.
  Qed.

  (* ================================================================ chunking *)
  Definition drained (s : state) : Prop := open s = false \/ extract (rbuf s) = NeedMore.

  Lemma drain_fuel : forall n m s,
    (length (rbuf s) < n)%nat -> (length (rbuf s) < m)%nat -> drain n s = drain m s.
  Proof.
    induction n as [|n IH]; intros m s Hn Hm; [lia|].
    destruct m as [|m]; [lia|].
    cbn [C12_Conn.drain]. destruct (open s) eqn:Ho; [|reflexivity].
    destruct (extract (rbuf s)) as [| |f rest] eqn:Ex; try reflexivity.
    apply extract_frame_len in Ex.
    apply IH.
    - eapply Nat.le_lt_trans; [apply handle_rbuf_len|]. cbn. lia.
    - eapply Nat.le_lt_trans; [apply handle_rbuf_len|]. cbn. lia.
  Qed.

  Lemma drain_closed n s : open s = false -> drain n s = s.
  Proof. intros Ho. destruct n; cbn [C12_Conn.drain]; [reflexivity|]. rewrite Ho. reflexivity. Qed.

  Lemma drain_drained : forall n s, (length (rbuf s) < n)%nat -> drained (drain n s).
  Proof.
    induction n as [|n IH]; intros s Hn; [lia|].
    cbn [C12_Conn.drain]. destruct (open s) eqn:Ho; [|left; exact Ho].
    destruct (extract (rbuf s)) as [| |f rest] eqn:Ex.
    - right. exact Ex.
    - left. apply close_open.
    - apply IH. apply extract_frame_len in Ex.
      eapply Nat.le_lt_trans; [apply handle_rbuf_len|]. cbn. lia.
  Qed.

  Lemma drain_of_drained n s : drained s -> drain n s = s.
  Proof.
    intros [Ho|Ex]; [apply drain_closed; exact Ho|].
    destruct n; cbn [C12_Conn.drain]; [reflexivity|].
    destruct (open s); [|reflexivity]. rewrite Ex. reflexivity.
  Qed.

  Lemma append_closed c s : open s = false -> append c s = s.
  Proof. unfold append. intros ->. reflexivity. Qed.

  Lemma append_open c s : open s = true -> append c s = with_rbuf s (rbuf s ++ c).
  Proof. unfold append, with_rbuf. intros ->. reflexivity. Qed.

  Lemma with_rbuf_self s : with_rbuf s (rbuf s) = s.
  Proof. destruct s; reflexivity. Qed.

  Lemma with_rbuf_twice s a b : with_rbuf (with_rbuf s a) b = with_rbuf s b.
  Proof. reflexivity. Qed.

  (* the key lemma: draining, appending and draining again = appending first *)
  Lemma handle_append q rest c cr ns lg f :
    handle (mkS q (rest ++ c) true cr ns lg) f = append c (handle (mkS q rest true cr ns lg) f).
  Proof.
    pose proof (handle_rbuf (mkS q rest true cr ns lg) (rest ++ c) f eq_refl) as H1.
    pose proof (handle_rbuf (mkS q rest true cr ns lg) rest f eq_refl) as H2.
    unfold with_rbuf in H1, H2. cbn [reqs rbuf open corr nsent log] in H1, H2.
    rewrite H1. clear H1.
    destruct (open (handle (mkS q rest true cr ns lg) f)) eqn:Hoh.
    - rewrite (append_open c _ Hoh). unfold with_rbuf.
      assert (Hr : rbuf (handle (mkS q rest true cr ns lg) f) = rest).
      { apply (f_equal rbuf) in H2. cbn [rbuf] in H2. exact H2. }
      rewrite Hr, Hoh. reflexivity.
    - rewrite append_closed by exact Hoh. reflexivity.
  Qed.

  Lemma drain_append : forall n s c k m,
    (length (rbuf s) < n)%nat ->
    (length (rbuf (append c (drain n s))) < k)%nat ->
    (length (rbuf (append c s)) < m)%nat ->
    drain k (append c (drain n s)) = drain m (append c s).
  Proof.
    induction n as [|n IH]; intros s c k m Hn Hk Hm; [lia|].
    destruct s as [q rb op cr ns lg].
    cbn [C12_Conn.drain open rbuf reqs corr nsent log] in *.
    destruct op.
    2:{ rewrite append_closed in * by reflexivity. rewrite !drain_closed by reflexivity. reflexivity. }
    destruct (extract rb) as [| |f rest] eqn:Ex.
    - apply drain_fuel; assumption.
    - rewrite append_closed by apply close_open.
      rewrite drain_closed by apply close_open.
      unfold append in Hm |- *. cbn [open rbuf reqs corr nsent log] in Hm |- *.
      destruct m as [|m]; [lia|]. cbn [C12_Conn.drain open rbuf].
      rewrite (extract_bad_app _ c Ex). reflexivity.
    - pose proof (extract_frame_len _ _ _ Ex) as Hlen.
      unfold append at 2. unfold append in Hm. cbn [open rbuf reqs corr nsent log] in Hm |- *.
      destruct m as [|m]; [lia|]. cbn [C12_Conn.drain open rbuf reqs corr nsent log].
      rewrite (extract_frame_app _ _ _ c Ex).
      rewrite handle_append.
      apply IH.
      + eapply Nat.le_lt_trans; [apply handle_rbuf_len|]. cbn. lia.
      + exact Hk.
      + rewrite <- handle_append. eapply Nat.le_lt_trans; [apply handle_rbuf_len|]. cbn.
        rewrite app_length in *. lia.
  Qed.

  Lemma append_append a b s : append b (append a s) = append (a ++ b) s.
  Proof.
    destruct s as [q rb op cr ns lg]. unfold append. cbn [open rbuf reqs corr nsent log].
    destruct op; cbn [open rbuf reqs corr nsent log]; [|reflexivity].
    rewrite app_assoc. reflexivity.
  Qed.

  Lemma feed_feed a b s : feed b (feed a s) = feed (a ++ b) s.
  Proof.
    unfold C12_Conn.feed. rewrite <- append_append.
    apply drain_append; lia.
  Qed.

  Lemma feed_drained c s : drained (feed c s).
  Proof. unfold C12_Conn.feed. apply drain_drained. lia. Qed.

  Lemma feed_nil s : drained s -> feed [] s = s.
  Proof.
    intros Hd. unfold C12_Conn.feed.
    assert (E : append [] s = s).
    { destruct s as [q rb op cr ns lg]. unfold append. cbn [open rbuf reqs corr nsent log].
      destruct op; [|reflexivity]. rewrite app_nil_r. reflexivity. }
    rewrite E. apply drain_of_drained. exact Hd.
  Qed.

  Theorem chunking_irrelevant : forall cs s,
    drained s -> run s (map Feed cs) = run s [Feed (concat cs)].
  Proof.
    induction cs as [|c cs IH]; intros s Hd.
    - cbn. symmetry. apply feed_nil. exact Hd.
    - cbn [map concat C12_Conn.run fold_left C12_Conn.step].
      change (fold_left step (map Feed cs) (feed c s)) with (run (feed c s) (map Feed cs)).
      rewrite IH by apply feed_drained.
      cbn. apply feed_feed.
  Qed.
End Basics.

(* ================================================================== the bookkeeping invariant *)
Definition delivered (l : logent) : bool :=
  match l_why l with Resp _ | RawResp _ => true | _ => false end.
Definition ids_l (lg : list logent) : list nat := map l_id lg.
Definition q0 (s : state) : nat := (nsent s - length (reqs s))%nat.

(* a response handed to a waiter carries the waiter's correlation id — or, for a
   FindCoordinatorResponse_v0 waiter, the id 0 (the "Kafka 0.8.2 quirk" of _handle_frame) *)
Definition resp_ok (l : logent) : Prop :=
  forall f, l_why l = Resp f ->
  exists flex rc body, parse_header flex f = Some (rc, body) /\
                       (l_corr l = Some rc \/ (l_quirk l = true /\ l_corr l <> Some 0 /\ rc = 0)).

(* log is newest first: delivered ids decrease towards the past *)
Fixpoint dsorted (lg : list logent) : Prop :=
  match lg with
  | [] => True
  | x :: r => (delivered x = true ->
               forall y, In y r -> delivered y = true -> (l_id y < l_id x)%nat) /\ dsorted r
  end.

Record Inv (s : state) : Prop := mkInv {
  J1 : map e_id (reqs s) = seq (q0 s) (length (reqs s));
  J1b : (length (reqs s) <= nsent s)%nat;
  J3 : forall l, In l (log s) -> (l_id l < nsent s)%nat;
  J4 : forall e, In e (reqs s) -> e_done e = false -> ~ In (e_id e) (ids_l (log s));
  J11 : forall e, In e (reqs s) -> e_done e = true -> In (e_id e) (ids_l (log s));
  J5 : NoDup (ids_l (log s));
  J6 : forall l, In l (log s) -> delivered l = true -> (l_id l < q0 s)%nat;
  J7 : dsorted (log s);
  J8 : forall l, In l (log s) -> resp_ok l;
  J9 : open s = false -> reqs s = [] /\ rbuf s = [];
  J10 : forall id, (id < nsent s)%nat -> In id (ids_l (log s)) \/ (q0 s <= id)%nat
}.

Lemma inv_init c : Inv (init c).
Proof.
  constructor; cbn; try (intros; contradiction); try lia; try discriminate;
    try reflexivity; try constructor; try exact I.
Qed.

Lemma in_reqs_range s e : Inv s -> In e (reqs s) -> (q0 s <= e_id e < nsent s)%nat.
Proof.
  intros I Hin. pose proof (J1 s I) as H1. pose proof (J1b s I) as H2.
  assert (Hi : In (e_id e) (map e_id (reqs s))) by (apply in_map; exact Hin).
  rewrite H1 in Hi. apply in_seq in Hi. unfold q0 in *. lia.
Qed.

Lemma in_range_reqs s id : Inv s -> (q0 s <= id < nsent s)%nat -> exists e, In e (reqs s) /\ e_id e = id.
Proof.
  intros I Hr. pose proof (J1 s I) as H1. pose proof (J1b s I) as H2.
  assert (Hi : In id (seq (q0 s) (length (reqs s)))) by (apply in_seq; unfold q0 in *; lia).
  rewrite <- H1 in Hi. apply in_map_iff in Hi. destruct Hi as (e & He & Hin). exists e. auto.
Qed.

Lemma inv_with_rbuf q rb rb' cr ns lg :
  Inv (mkS q rb true cr ns lg) -> Inv (mkS q rb' true cr ns lg).
Proof. intros [ ]. constructor; cbn in *; try assumption. discriminate. Qed.

(* head of the queue *)
Lemma head_id e tl rb op cr ns lg :
  Inv (mkS (e :: tl) rb op cr ns lg) ->
  e_id e = (ns - S (length tl))%nat /\ map e_id tl = seq (S (ns - S (length tl))) (length tl) /\
  (S (length tl) <= ns)%nat /\ op = true.
Proof.
  intros I. pose proof (J1 _ I) as H1. pose proof (J1b _ I) as H2. pose proof (J9 _ I) as H9.
  unfold q0 in H1. cbn in *. inversion H1. repeat split; try assumption.
  destruct op; [reflexivity|]. destruct (H9 eq_refl). discriminate.
Qed.

(* P1: pop an entry whose future is done *)
Lemma inv_pop_done e tl rb op cr ns lg :
  Inv (mkS (e :: tl) rb op cr ns lg) -> e_done e = true -> Inv (mkS tl rb op cr ns lg).
Proof.
  intros I Hd. destruct (head_id _ _ _ _ _ _ _ I) as (Hid & Htl & Hle & Hop).
  destruct I as [i1 i1b i3 i4 i11 i5 i6 i7 i8 i9 i10]. unfold q0 in *. cbn in *.
  constructor; unfold q0; cbn.
  - replace (ns - length tl)%nat with (S (ns - S (length tl))) by lia. exact Htl.
  - lia.
  - exact i3.
  - intros e' Hin. apply i4. right. exact Hin.
  - intros e' Hin. apply i11. right. exact Hin.
  - exact i5.
  - intros l Hl Hdl. specialize (i6 l Hl Hdl). lia.
  - exact i7.
  - exact i8.
  - subst op. discriminate.
  - intros id Hid'. destruct (i10 id Hid') as [H|H]; [left; exact H|].
    destruct (Nat.eq_dec id (ns - S (length tl))) as [->|Hne].
    + left. rewrite <- Hid. apply i11; [left; reflexivity|exact Hd].
    + right. lia.
Qed.

(* P2: pop the head and hand it a frame *)
Lemma inv_pop_deliver e tl rb op cr ns lg w :
  Inv (mkS (e :: tl) rb op cr ns lg) -> e_done e = false ->
  resp_ok (log_of e w) ->
  Inv (mkS tl rb op cr ns (log_of e w :: lg)).
Proof.
  intros I Hd Hok. destruct (head_id _ _ _ _ _ _ _ I) as (Hid & Htl & Hle & Hop).
  destruct I as [i1 i1b i3 i4 i11 i5 i6 i7 i8 i9 i10]. unfold q0 in *. cbn in *.
  assert (Hfresh : ~ In (e_id e) (ids_l lg)) by (apply i4; [left; reflexivity|exact Hd]).
  assert (Htlid : forall e', In e' tl -> (ns - S (length tl) < e_id e' < ns)%nat).
  { intros e' Hin. assert (Hi : In (e_id e') (map e_id tl)) by (apply in_map; exact Hin).
    rewrite Htl in Hi. apply in_seq in Hi. lia. }
  constructor; unfold q0; cbn.
  - replace (ns - length tl)%nat with (S (ns - S (length tl))) by lia. exact Htl.
  - lia.
  - intros l [<-|Hl]; [cbn; lia|apply i3; exact Hl].
  - intros e' Hin Hnd [Heq|Hin']; [specialize (Htlid e' Hin); lia|].
    exact (i4 e' (or_intror Hin) Hnd Hin').
  - intros e' Hin Hdn. right. apply i11; [right; exact Hin|exact Hdn].
  - constructor; assumption.
  - intros l [<-|Hl] Hdl; [cbn; lia|]. specialize (i6 l Hl Hdl). lia.
  - split; [|exact i7]. intros _ y Hy Hdy. cbn. specialize (i6 y Hy Hdy). lia.
  - intros l [<-|Hl]; [exact Hok|apply i8; exact Hl].
  - subst op. discriminate.
  - intros id Hid'. destruct (i10 id Hid') as [H|H]; [left; right; exact H|].
    destruct (Nat.eq_dec id (ns - S (length tl))) as [->|Hne].
    + left. left. exact Hid.
    + right. lia.
Qed.

(* P3: the future of a pending entry is resolved without a frame (timeout, cancellation,
   correlation error) *)
Definition mark (id : nat) (e : entry) : entry := if Nat.eqb (e_id e) id then set_done e else e.

Lemma mark_id id e : e_id (mark id e) = e_id e.
Proof. unfold mark. destruct (Nat.eqb (e_id e) id); reflexivity. Qed.

Lemma map_mark_ids id q : map e_id (map (mark id) q) = map e_id q.
Proof. rewrite map_map. apply map_ext. intros e. apply mark_id. Qed.

Lemma inv_mark e q rb op cr ns lg w :
  Inv (mkS q rb op cr ns lg) -> In e q -> e_done e = false ->
  delivered (log_of e w) = false ->
  Inv (mkS (map (mark (e_id e)) q) rb op cr ns (log_of e w :: lg)).
Proof.
  intros I Hin Hnd Hw.
  pose proof (in_reqs_range _ e I Hin) as Hrange.
  destruct I as [i1 i1b i3 i4 i11 i5 i6 i7 i8 i9 i10]. unfold q0 in *. cbn in *.
  assert (Hfresh : ~ In (e_id e) (ids_l lg)) by (apply i4; assumption).
  constructor; unfold q0; cbn; rewrite ?map_length, ?map_mark_ids.
  - exact i1.
  - exact i1b.
  - intros l [<-|Hl]; [cbn; lia|apply i3; exact Hl].
  - intros e'' Hin'' Hnd''. apply in_map_iff in Hin''. destruct Hin'' as (e' & <- & Hin').
    unfold mark in *. destruct (Nat.eqb (e_id e') (e_id e)) eqn:E.
    + cbn in Hnd''. discriminate.
    + apply Nat.eqb_neq in E. intros [Heq|Hin'']; [congruence|].
      exact (i4 e' Hin' Hnd'' Hin'').
  - intros e'' Hin'' Hdn. apply in_map_iff in Hin''. destruct Hin'' as (e' & <- & Hin').
    unfold mark in *. destruct (Nat.eqb (e_id e') (e_id e)) eqn:E.
    + apply Nat.eqb_eq in E. left. cbn. symmetry. exact E.
    + right. apply i11; assumption.
  - constructor; assumption.
  - intros l [<-|Hl] Hdl; [rewrite Hw in Hdl; discriminate|apply i6; assumption].
  - split; [|exact i7]. intros Hdl. rewrite Hw in Hdl. discriminate.
  - intros l [<-|Hl]; [|apply i8; exact Hl].
    intros f Hf. unfold delivered in Hw. cbn in Hw, Hf. rewrite Hf in Hw. discriminate.
  - intros Ho. destruct (i9 Ho) as [-> ->]. split; reflexivity.
  - intros id Hid. destruct (i10 id Hid) as [H|H]; [left; right; exact H|right; exact H].
Qed.

(* the entries of the queue have pairwise different ids *)
Lemma mark_other id tl : (forall e', In e' tl -> e_id e' <> id) -> map (mark id) tl = tl.
Proof.
  induction tl as [|a tl IH]; intros H; [reflexivity|]. cbn [map].
  rewrite IH by (intros e' Hin; apply H; right; exact Hin).
  unfold mark. destruct (Nat.eqb (e_id a) id) eqn:E; [|reflexivity].
  apply Nat.eqb_eq in E. exfalso. exact (H a (or_introl eq_refl) E).
Qed.

Lemma inv_mark_head e tl rb op cr ns lg w :
  Inv (mkS (e :: tl) rb op cr ns lg) -> e_done e = false ->
  delivered (log_of e w) = false ->
  Inv (mkS (set_done e :: tl) rb op cr ns (log_of e w :: lg)).
Proof.
  intros I Hnd Hw.
  destruct (head_id _ _ _ _ _ _ _ I) as (Hid & Htl & Hle & Hop).
  pose proof (inv_mark e (e :: tl) rb op cr ns lg w I (or_introl eq_refl) Hnd Hw) as I'.
  cbn [map] in I'. unfold mark at 1 in I'. rewrite Nat.eqb_refl in I'.
  rewrite mark_other in I'; [exact I'|].
  intros e' Hin. assert (Hi : In (e_id e') (map e_id tl)) by (apply in_map; exact Hin).
  rewrite Htl in Hi. apply in_seq in Hi. lia.
Qed.

Lemma NoDup_app_intro {A} (a b : list A) :
  NoDup a -> NoDup b -> (forall x, In x a -> ~ In x b) -> NoDup (a ++ b).
Proof.
  induction a as [|x a IH]; intros Ha Hb Hd; [exact Hb|].
  inversion Ha; subst. cbn. constructor.
  - intros Hin. apply in_app_or in Hin. destruct Hin as [Hin|Hin]; [contradiction|].
    exact (Hd x (or_introl eq_refl) Hin).
  - apply IH; [assumption|assumption|]. intros y Hy. apply Hd. right. exact Hy.
Qed.

(* P4: close *)
Lemma fold_fail c q : forall lg,
  fold_left (fail_entry c) q lg =
  rev (map (fun e => log_of e (ConnErr c)) (filter (fun e => negb (e_done e)) q)) ++ lg.
Proof.
  induction q as [|e q IH]; intros lg; [reflexivity|].
  cbn [fold_left filter]. rewrite IH. unfold fail_entry.
  destruct (e_done e); cbn [negb]; [reflexivity|].
  cbn [map rev]. rewrite <- app_assoc. reflexivity.
Qed.

Lemma dsorted_app_nondeliv a lg :
  (forall x, In x a -> delivered x = false) -> dsorted lg -> dsorted (a ++ lg).
Proof.
  induction a as [|x a IH]; intros Ha Hs; [exact Hs|]. cbn. split.
  - intros Hd. rewrite (Ha x (or_introl eq_refl)) in Hd. discriminate.
  - apply IH; [|exact Hs]. intros y Hy. apply Ha. right. exact Hy.
Qed.

Lemma inv_close c s : Inv s -> Inv (close c s).
Proof.
  intros I. unfold close. destruct (open s) eqn:Ho; [|exact I].
  rewrite fold_fail.
  set (A := rev (map (fun e => log_of e (ConnErr c)) (filter (fun e => negb (e_done e)) (reqs s)))).
  assert (HA : forall x, In x A -> exists e, In e (reqs s) /\ e_done e = false /\ x = log_of e (ConnErr c)).
  { intros x Hx. unfold A in Hx. apply in_rev, in_map_iff in Hx. destruct Hx as (e & <- & He).
    apply filter_In in He. destruct He as [He Hn]. exists e. repeat split; [exact He|].
    destruct (e_done e); [discriminate|reflexivity]. }
  assert (HidsA : ids_l A = rev (map e_id (filter (fun e => negb (e_done e)) (reqs s)))).
  { unfold A, ids_l. rewrite map_rev, map_map. reflexivity. }
  pose proof I as [i1 i1b i3 i4 i11 i5 i6 i7 i8 i9 i10].
  constructor; unfold q0; cbn.
  - reflexivity.
  - lia.
  - intros l Hl. apply in_app_or in Hl. destruct Hl as [Hl|Hl]; [|apply i3; exact Hl].
    destruct (HA l Hl) as (e & He & _ & ->). cbn. apply (in_reqs_range s e I He).
  - intros e [].
  - intros e [].
  - unfold ids_l. rewrite map_app. fold (ids_l A). fold (ids_l (log s)).
    apply NoDup_app_intro.
    + rewrite HidsA. apply NoDup_rev.
      assert (Hnd : NoDup (map e_id (reqs s))) by (rewrite i1; apply seq_NoDup).
      clear - Hnd. induction (reqs s) as [|e q IH]; [constructor|].
      cbn in *. inversion Hnd; subst. destruct (negb (e_done e)); cbn.
      * constructor; [|apply IH; assumption]. intros Hin. apply H1.
        apply in_map_iff in Hin. destruct Hin as (e' & <- & He'). apply filter_In in He'.
        apply in_map. apply He'.
      * apply IH; assumption.
    + exact i5.
    + intros x Hx Hx'. unfold ids_l in Hx. apply in_map_iff in Hx. destruct Hx as (l & <- & Hl).
      destruct (HA l Hl) as (e & He & Hn & ->). cbn in Hx'. exact (i4 e He Hn Hx').
  - intros l Hl Hdl. apply in_app_or in Hl. destruct Hl as [Hl|Hl].
    + destruct (HA l Hl) as (e & _ & _ & ->). discriminate.
    + specialize (i6 l Hl Hdl). unfold q0 in i6. lia.
  - apply dsorted_app_nondeliv; [|exact i7].
    intros x Hx. destruct (HA x Hx) as (e & _ & _ & ->). reflexivity.
  - intros l Hl. apply in_app_or in Hl. destruct Hl as [Hl|Hl]; [|apply i8; exact Hl].
    destruct (HA l Hl) as (e & _ & _ & ->). intros f Hf. discriminate.
  - intros _. split; reflexivity.
  - intros id Hid. left. unfold ids_l. rewrite map_app. apply in_or_app.
    destruct (i10 id Hid) as [H|H]; [right; exact H|].
    destruct (in_range_reqs s id I (conj H Hid)) as (e & He & <-).
    destruct (e_done e) eqn:Ed.
    + right. apply i11; assumption.
    + left. fold (ids_l A). rewrite HidsA. apply -> in_rev. apply in_map. apply filter_In.
      split; [exact He|]. rewrite Ed. reflexivity.
Qed.

Section InvSteps.
  Variable decodes : Z -> bytes -> bool.

  Lemma set_done_done e : e_done e = true -> set_done e = e.
  Proof. destruct e. cbn. intros ->. reflexivity. Qed.

  Lemma inv_handle s f : Inv s -> open s = true -> Inv (handle decodes s f).
  Proof.
    destruct s as [q rb op cr ns lg]. cbn [open]. intros I ->.
    unfold handle. cbn [reqs rbuf open corr nsent log].
    destruct q as [|e tl]; [apply inv_close; exact I|].
    destruct (e_corr e) as [c|] eqn:Ec.
    - destruct (parse_header (e_flex e) f) as [[rc body]|] eqn:Eh; [|apply inv_close; exact I].
      destruct (negb (e_quirk e && negb (c =? 0) && (rc =? 0)) && negb (rc =? c)) eqn:Em.
      + apply inv_close. destruct (e_done e) eqn:Ed.
        * rewrite set_done_done by exact Ed. exact I.
        * apply inv_mark_head; [exact I|exact Ed|reflexivity].
      + destruct (e_done e) eqn:Ed; [unfold pop; cbn; eapply inv_pop_done; eassumption|].
        destruct (decodes (e_api e) body); [|apply inv_close; exact I].
        unfold pop. cbn. apply inv_pop_deliver; [exact I|exact Ed|].
        intros f' Hf. cbn in Hf. inversion Hf; subst f'. exists (e_flex e), rc, body.
        split; [exact Eh|]. cbn. rewrite Ec.
        destruct (rc =? c) eqn:Erc.
        * left. f_equal. lia.
        * right.
          destruct (e_quirk e); cbn in Em; [|discriminate].
          destruct (c =? 0) eqn:Ec0; cbn in Em; [discriminate|].
          destruct (rc =? 0) eqn:Er0; cbn in Em; [|discriminate].
          repeat split; [|lia]. intros X. inversion X. lia.
    - destruct (e_done e) eqn:Ed; unfold pop; cbn.
      + eapply inv_pop_done; eassumption.
      + apply inv_pop_deliver; [exact I|exact Ed|]. intros f' Hf. discriminate.
  Qed.

  Lemma inv_drain : forall n s, Inv s -> Inv (drain decodes n s).
  Proof.
    induction n as [|n IH]; intros s I; [exact I|].
    cbn [drain]. destruct (open s) eqn:Ho; [|exact I].
    destruct (extract (rbuf s)) as [| |f rest]; [exact I|apply inv_close; exact I|].
    apply IH. destruct s as [q rb op cr ns lg]. cbn [open rbuf reqs corr nsent log] in *. subst op.
    apply inv_handle; [|reflexivity]. eapply inv_with_rbuf. exact I.
  Qed.

  Lemma inv_feed c s : Inv s -> Inv (feed decodes c s).
  Proof.
    intros I. unfold feed. apply inv_drain. unfold append.
    destruct s as [q rb op cr ns lg]. cbn [open rbuf reqs corr nsent log].
    destruct op; [|exact I]. eapply inv_with_rbuf. exact I.
  Qed.

  Lemma inv_finish id w s :
    Inv s -> (forall e, delivered (log_of e w) = false) -> Inv (finish_waiter id w s).
  Proof.
    intros I Hw. unfold finish_waiter.
    destruct (find (fun e => Nat.eqb (e_id e) id && negb (e_done e)) (reqs s)) as [e|] eqn:Ef; [|exact I].
    apply find_some in Ef. destruct Ef as [Hin Hc]. apply andb_true_iff in Hc. destruct Hc as [Hid Hnd].
    apply Nat.eqb_eq in Hid. subst id.
    assert (Hnd' : e_done e = false) by (destruct (e_done e); [discriminate|reflexivity]).
    destruct s as [q rb op cr ns lg]. cbn [open rbuf reqs corr nsent log] in *.
    exact (inv_mark e q rb op cr ns lg w I Hin Hnd' (Hw e)).
  Qed.

  Lemma inv_send_open q rb cr cr' ns lg ec api flex quirk :
    Inv (mkS q rb true cr ns lg) ->
    Inv (mkS (q ++ [mkE ns ec api flex quirk false]) rb true cr' (S ns) lg).
  Proof.
    intros I. pose proof I as [i1 i1b i3 i4 i11 i5 i6 i7 i8 i9 i10]. unfold q0 in *. cbn in *.
    constructor; unfold q0; cbn [reqs rbuf open corr nsent log]; rewrite ?app_length; cbn [length];
      rewrite ?Nat.add_1_r.
    - rewrite map_app. cbn [map e_id].
      rewrite seq_S. replace (S ns - S (length q))%nat with (ns - length q)%nat by lia.
      rewrite i1. f_equal. f_equal. lia.
    - lia.
    - intros l Hl. specialize (i3 l Hl). lia.
    - intros e Hin Hnd Hl. apply in_app_or in Hin. destruct Hin as [Hin|[<-|[]]].
      + exact (i4 e Hin Hnd Hl).
      + cbn in Hl. unfold ids_l in Hl. apply in_map_iff in Hl. destruct Hl as (l & Hid & Hl).
        specialize (i3 l Hl). lia.
    - intros e Hin Hdn. apply in_app_or in Hin. destruct Hin as [Hin|[<-|[]]].
      + apply i11; assumption.
      + discriminate.
    - exact i5.
    - intros l Hl Hdl. specialize (i6 l Hl Hdl). lia.
    - exact i7.
    - exact i8.
    - discriminate.
    - intros id Hid. destruct (Nat.eq_dec id ns) as [->|Hne]; [right; lia|].
      destruct (i10 id ltac:(lia)) as [H|H]; [left; exact H|right; lia].
  Qed.

  Lemma inv_send_closed q rb cr ns lg quirk :
    Inv (mkS q rb false cr ns lg) ->
    Inv (mkS q rb false cr (S ns) (mkL ns None quirk (ConnErr CNoConn) :: lg)).
  Proof.
    intros I. pose proof I as [i1 i1b i3 i4 i11 i5 i6 i7 i8 i9 i10]. unfold q0 in *. cbn in *.
    destruct (i9 eq_refl) as [-> ->]. cbn in *.
    assert (Hfresh : ~ In ns (ids_l lg)).
    { intros Hl. unfold ids_l in Hl. apply in_map_iff in Hl. destruct Hl as (l & Hid & Hl).
      specialize (i3 l Hl). lia. }
    constructor; unfold q0; cbn.
    - reflexivity.
    - lia.
    - intros l [<-|Hl]; [cbn; lia|specialize (i3 l Hl); lia].
    - intros e [].
    - intros e [].
    - constructor; assumption.
    - intros l [<-|Hl] Hdl; [discriminate|]. specialize (i6 l Hl Hdl). lia.
    - split; [intros; discriminate|exact i7].
    - intros l [<-|Hl]; [intros f Hf; discriminate|apply i8; exact Hl].
    - intros _. split; reflexivity.
    - intros id Hid. left. destruct (Nat.eq_dec id ns) as [->|Hne]; [left; reflexivity|].
      right. destruct (i10 id ltac:(lia)) as [H|H]; [exact H|lia].
  Qed.

  Lemma inv_corr q rb op cr cr' ns lg : Inv (mkS q rb op cr ns lg) -> Inv (mkS q rb op cr' ns lg).
  Proof. intros [ ]. constructor; assumption. Qed.

  Lemma inv_step s ev : Inv s -> Inv (step decodes s ev).
  Proof.
    intros I. destruct ev as [api flex quirk| | |c|id vc|id| | |]; cbn [step].
    - destruct s as [q rb op cr ns lg]. cbn [open rbuf reqs corr nsent log].
      destruct op; [eapply inv_send_open|apply inv_send_closed]; exact I.
    - destruct s as [q rb op cr ns lg]. cbn [open rbuf reqs corr nsent log].
      destruct op; [eapply inv_corr|]; exact I.
    - destruct s as [q rb op cr ns lg]. cbn [open rbuf reqs corr nsent log].
      destruct op; [eapply inv_send_open|apply inv_send_closed]; exact I.
    - apply inv_feed. exact I.
    - destruct (find _ (reqs s)); [|exact I].
      destruct vc; [apply inv_close|]; apply inv_finish; try exact I; reflexivity.
    - apply inv_finish; [exact I|reflexivity].
    - apply inv_close. exact I.
    - apply inv_close. exact I.
    - apply inv_close. exact I.
  Qed.

  Lemma inv_run evs : forall s, Inv s -> Inv (run decodes s evs).
  Proof.
    induction evs as [|ev evs IH]; intros s I; [exact I|].
    cbn. apply IH. apply inv_step. exact I.
  Qed.

  Lemma inv_reachable c0 evs : Inv (run decodes (init c0) evs).
  Proof. apply inv_run, inv_init. Qed.

  (* a reachable state is drained: every complete frame has been handled *)
  Lemma step_drained s ev : drained s -> drained (step decodes s ev).
  Proof.
    intros Hd. destruct ev as [api flex quirk| | |c|id vc|id| | |]; cbn [step];
      try (left; apply close_open).
    - destruct (open s) eqn:Ho; [|left; reflexivity].
      destruct Hd as [Hd|Hd]; [congruence|]. right. exact Hd.
    - destruct (open s) eqn:Ho; [|left; exact Ho].
      destruct Hd as [Hd|Hd]; [congruence|]. right. exact Hd.
    - destruct (open s) eqn:Ho; [|left; reflexivity].
      destruct Hd as [Hd|Hd]; [congruence|]. right. exact Hd.
    - apply feed_drained.
    - unfold finish_waiter. destruct (find _ (reqs s)); [|exact Hd].
      destruct vc; [left; apply close_open|exact Hd].
    - unfold finish_waiter. destruct (find _ (reqs s)); exact Hd.
  Qed.

  Lemma run_drained evs : forall s, drained s -> drained (run decodes s evs).
  Proof.
    induction evs as [|ev evs IH]; intros s Hd; [exact Hd|]. cbn. apply IH, step_drained, Hd.
  Qed.

  Lemma init_drained c : drained (init c).
  Proof. right. reflexivity. Qed.

  (* ---------------------------------------------------------------- consequences *)
  Lemma outcome_some s id : In id (ids_l (log s)) -> outcome s id <> None.
  Proof.
    unfold outcome, ids_l. intros Hin. apply in_map_iff in Hin. destruct Hin as (l & Hid & Hl).
    destruct (find (fun l0 => Nat.eqb (l_id l0) id) (log s)) eqn:Ef; [discriminate|].
    exfalso. pose proof (find_none _ _ Ef l Hl) as Hn. cbn in Hn. rewrite Hid, Nat.eqb_refl in Hn. discriminate.
  Qed.

  (* closed  ==>  nothing queued, nobody pending *)
  Lemma closed_all_resolved s :
    Inv s -> open s = false ->
    reqs s = [] /\ forall id, (id < nsent s)%nat -> outcome s id <> None.
  Proof.
    intros I Ho. destruct (J9 s I Ho) as [Hq Hb]. split; [exact Hq|].
    intros id Hid. apply outcome_some. destruct (J10 s I id Hid) as [H|H]; [exact H|].
    unfold q0 in H. rewrite Hq in H. cbn in H. lia.
  Qed.

  (* the events that close *)
  Lemma closing_events s :
    open (step decodes s Eof) = false /\ open (step decodes s Reset) = false /\
    open (step decodes s Close) = false.
  Proof. repeat split; apply close_open. Qed.

  Lemma closed_stays_closed s ev : open s = false -> open (step decodes s ev) = false.
  Proof.
    intros Ho. destruct ev as [api flex quirk| | |c|id vc|id| | |]; cbn [step]; rewrite ?Ho; try reflexivity;
      try apply close_open; try exact Ho.
    - unfold feed. rewrite append_closed by exact Ho. rewrite drain_closed by exact Ho. exact Ho.
    - destruct (find _ (reqs s)); [|exact Ho]. destruct vc; [apply close_open|].
      unfold finish_waiter. destruct (find _ (reqs s)); exact Ho.
    - unfold finish_waiter. destruct (find _ (reqs s)); exact Ho.
  Qed.

  (* what _handle_frame does with a bad frame (connection open) *)
  Lemma handle_unsolicited s f : reqs s = [] -> open (handle decodes s f) = false.
  Proof. intros Hq. unfold handle. rewrite Hq. apply close_open. Qed.

  Lemma handle_bad_header s e tl c f :
    reqs s = e :: tl -> e_corr e = Some c -> parse_header (e_flex e) f = None ->
    open (handle decodes s f) = false.
  Proof. intros Hq Hc Hh. unfold handle. rewrite Hq, Hc, Hh. apply close_open. Qed.

  Lemma handle_mismatch s e tl c f rc body :
    open s = true ->
    reqs s = e :: tl -> e_corr e = Some c -> parse_header (e_flex e) f = Some (rc, body) ->
    rc <> c -> (e_quirk e = false \/ c = 0 \/ rc <> 0) ->
    open (handle decodes s f) = false /\
    (e_done e = false -> In (log_of e CorrErr) (log (handle decodes s f))) /\
    (forall l, In l (log (handle decodes s f)) -> In l (log s) \/ delivered l = false).
  Proof.
    intros Ho Hq Hc Hh Hne Hnq. unfold handle. rewrite Hq, Hc, Hh.
    assert (Em : negb (e_quirk e && negb (c =? 0) && (rc =? 0)) && negb (rc =? c) = true).
    { replace (rc =? c) with false by lia. cbn [negb]. rewrite andb_true_r.
      destruct Hnq as [->|[->|Hr]]; [reflexivity| |].
      - cbn. rewrite andb_false_r. reflexivity.
      - replace (rc =? 0) with false by lia. rewrite andb_false_r. reflexivity. }
    rewrite Em. split; [apply close_open|]. split.
    - intros Hd. unfold close. cbn [open reqs log corr nsent]. rewrite Ho, Hd.
      rewrite fold_fail. apply in_or_app. right. left. reflexivity.
    - intros l. unfold close. cbn [open reqs log corr nsent]. rewrite Ho. rewrite fold_fail.
      intros Hin. apply in_app_or in Hin. destruct Hin as [Hin|Hin].
      + apply in_rev, in_map_iff in Hin. destruct Hin as (e' & <- & _). right. reflexivity.
      + destruct (e_done e); [left; exact Hin|]. destruct Hin as [<-|Hin]; [right; reflexivity|left; exact Hin].
  Qed.

  Lemma handle_bad_body s e tl c f rc body :
    reqs s = e :: tl -> e_corr e = Some c -> parse_header (e_flex e) f = Some (rc, body) ->
    rc = c -> e_done e = false -> decodes (e_api e) body = false ->
    open (handle decodes s f) = false.
  Proof.
    intros Hq Hc Hh -> Hd Hb. unfold handle. rewrite Hq, Hc, Hh, Hd, Hb.
    rewrite Z.eqb_refl. cbn [negb]. rewrite andb_false_r. apply close_open.
  Qed.

  Lemma drain_bad_size n s : open s = true -> extract (rbuf s) = BadSize ->
    open (drain decodes (S n) s) = false.
  Proof. intros Ho Ex. cbn [drain]. rewrite Ho, Ex. apply close_open. Qed.

  (* the counter stays in range *)
  Lemma corr_range_step s ev :
    0 <= corr s < 2147483648 -> 0 <= corr (step decodes s ev) < 2147483648.
  Proof.
    intros Hc.
    assert (Hclose : forall c s', corr (close c s') = corr s').
    { intros c s'. unfold close. destruct (open s'); reflexivity. }
    assert (Hhandle : forall s' f, corr (handle decodes s' f) = corr s').
    { intros s' f. unfold handle. destruct (reqs s') as [|e tl]; [apply Hclose|].
      destruct (e_corr e) as [c|].
      - destruct (parse_header (e_flex e) f) as [[rc body]|]; [|apply Hclose].
        destruct (negb (e_quirk e && negb (c =? 0) && (rc =? 0)) && negb (rc =? c)); [rewrite Hclose; reflexivity|].
        destruct (e_done e); [reflexivity|]. destruct (decodes (e_api e) body); [reflexivity|apply Hclose].
      - destruct (e_done e); reflexivity. }
    assert (Hdrain : forall n s', corr (drain decodes n s') = corr s').
    { induction n as [|n IH]; intros s'; [reflexivity|]. cbn [drain].
      destruct (open s'); [|reflexivity]. destruct (extract (rbuf s')); [reflexivity|apply Hclose|].
      rewrite IH, Hhandle. reflexivity. }
    assert (Hfin : forall id w s', corr (finish_waiter id w s') = corr s').
    { intros id w s'. unfold finish_waiter. destruct (find _ (reqs s')); reflexivity. }
    destruct ev as [api flex quirk| | |c|id vc|id| | |]; cbn [step]; rewrite ?Hclose; try exact Hc.
    - destruct (open s); cbn; [apply nextcorr_range|exact Hc].
    - destruct (open s); cbn; [apply nextcorr_range|exact Hc].
    - destruct (open s); cbn; exact Hc.
    - unfold feed. rewrite Hdrain. unfold append. destruct (open s); exact Hc.
    - destruct (find _ (reqs s)); [|exact Hc]. destruct vc; rewrite ?Hclose, Hfin; exact Hc.
    - rewrite Hfin. exact Hc.
  Qed.
End InvSteps.

(* ================================================================== packaged statements *)
Section Final.
  Variable decodes : Z -> bytes -> bool.

  Lemma corr_range_run evs : forall s,
    0 <= corr s < 2147483648 -> 0 <= corr (run decodes s evs) < 2147483648.
  Proof.
    induction evs as [|ev evs IH]; intros s Hc; [exact Hc|]. cbn. apply IH, corr_range_step, Hc.
  Qed.

  Lemma chunking_reachable c0 pre cs :
    run decodes (init c0) (pre ++ map Feed cs) = run decodes (init c0) (pre ++ [Feed (concat cs)]).
  Proof.
    unfold run. rewrite !fold_left_app.
    apply (chunking_irrelevant decodes cs). apply run_drained, init_drained.
  Qed.

  Lemma close_log c s l :
    In l (log (close c s)) -> In l (log s) \/ (l_why l = ConnErr c /\ exists e, In e (reqs s) /\ e_done e = false /\ l_id l = e_id e).
  Proof.
    unfold close. destruct (open s); [|left; assumption]. cbn [log]. rewrite fold_fail.
    intros Hin. apply in_app_or in Hin. destruct Hin as [Hin|Hin]; [|left; exact Hin].
    apply in_rev, in_map_iff in Hin. destruct Hin as (e & <- & He). apply filter_In in He.
    right. split; [reflexivity|]. exists e. destruct He as [He Hn]. repeat split; [exact He|].
    destruct (e_done e); [discriminate|reflexivity].
  Qed.

  Lemma send_assigns s api flex quirk :
    open s = true ->
    let s' := step decodes s (Send api flex quirk) in
    corr s' = NextCorr.post (corr s) /\
    reqs s' = reqs s ++ [mkE (nsent s) (Some (NextCorr.post (corr s))) api flex quirk false] /\
    NextCorr.py (corr s) = Ok (NextCorr.post (corr s)).
  Proof. intros Ho. cbn [step]. rewrite Ho. cbn. repeat split. Qed.

  Lemma exact_delivery c0 evs :
    let s := run decodes (init c0) evs in
    (forall l, In l (log s) -> resp_ok l) /\ dsorted (log s) /\ NoDup (ids_l (log s)).
  Proof.
    cbn zeta. pose proof (inv_reachable decodes c0 evs) as I.
    split; [apply (J8 _ I)|]. split; [apply (J7 _ I)|apply (J5 _ I)].
  Qed.

  Lemma failure_fails_all c0 evs :
    let s := run decodes (init c0) evs in
    open s = false -> reqs s = [] /\ forall id, (id < nsent s)%nat -> outcome s id <> None.
  Proof.
    cbn zeta. pose proof (inv_reachable decodes c0 evs) as I. intros Ho.
    apply closed_all_resolved; assumption.
  Qed.
End Final.

(* the strict statement (no quirk) and its refutation *)
Definition exact_delivery_strict : Prop :=
  forall decodes c0 evs l f,
    In l (log (run decodes (init c0) evs)) -> l_why l = Resp f ->
    exists flex rc body, parse_header flex f = Some (rc, body) /\ l_corr l = Some rc.

Definition quirk_trace : list event :=
  [Send 0 false true; Feed [0; 0; 0; 6;  0; 0; 0; 0;  0; 0]].

Lemma quirk_witness :
  log (run (fun _ _ => true) (init 4) quirk_trace) = [mkL 0 (Some 5) true (Resp [0; 0; 0; 0; 0; 0])]
  /\ open (run (fun _ _ => true) (init 4) quirk_trace) = true.
Proof. vm_compute. split; reflexivity. Qed.

Lemma exact_delivery_strict_refuted : ~ exact_delivery_strict.
Proof.
  intros H.
  destruct (H (fun _ _ => true) 4 quirk_trace (mkL 0 (Some 5) true (Resp [0; 0; 0; 0; 0; 0])) [0; 0; 0; 0; 0; 0])
    as (flex & rc & body & Hp & Hc).
  - destruct quirk_witness as [-> _]. left. reflexivity.
  - reflexivity.
  - cbn in Hc. destruct flex; vm_compute in Hp; inversion Hp; subst; discriminate.
Qed.

(* ================================================================== outstanding correlation ids are distinct *)
From Coq Require Import Sorted.
Definition corrs (q : list entry) : list Z :=
  flat_map (fun e => match e_corr e with Some c => [c] | None => [] end) q.

Definition suffix {A} (l' l : list A) : Prop := exists p, l = p ++ l'.

Lemma suffix_refl {A} (l : list A) : suffix l l.
Proof. exists []. reflexivity. Qed.

Lemma suffix_nil {A} (l : list A) : suffix [] l.
Proof. exists l. rewrite app_nil_r. reflexivity. Qed.

Lemma suffix_trans {A} (a b c : list A) : suffix a b -> suffix b c -> suffix a c.
Proof. intros [p ->] [q ->]. exists (q ++ p). rewrite app_assoc. reflexivity. Qed.

Lemma corrs_tail e tl : suffix (corrs tl) (corrs (e :: tl)).
Proof. unfold corrs. cbn [flat_map]. eexists. reflexivity. Qed.

Lemma corrs_map_done (g : entry -> entry) q :
  (forall e, e_corr (g e) = e_corr e) -> corrs (map g q) = corrs q.
Proof.
  intros Hg. unfold corrs. induction q as [|e q IH]; [reflexivity|].
  cbn [map flat_map]. rewrite Hg, IH. reflexivity.
Qed.

Section CorrDistinct.
  Variable decodes : Z -> bytes -> bool.

  Lemma close_corrs c s : corrs (reqs (close c s)) = [] \/ close c s = s.
  Proof. unfold close. destruct (open s); [left; reflexivity|right; reflexivity]. Qed.

  Lemma handle_corrs s f :
    suffix (corrs (reqs (handle decodes s f))) (corrs (reqs s)) /\ corr (handle decodes s f) = corr s.
  Proof.
    destruct s as [q rb op cr ns lg]. unfold handle, close, pop. cbn [reqs rbuf open corr nsent log].
    destruct q as [|e tl].
    - destruct op; split; try reflexivity; apply suffix_nil.
    - destruct (e_corr e) as [c|] eqn:Ec.
      + destruct (parse_header (e_flex e) f) as [[rc body]|].
        * destruct (negb (e_quirk e && negb (c =? 0) && (rc =? 0)) && negb (rc =? c)).
          { destruct op; cbn; split; try reflexivity; [apply suffix_nil|].
            unfold corrs. cbn [flat_map e_corr set_done]. rewrite Ec. apply suffix_refl. }
          destruct (e_done e); [split; [apply corrs_tail|reflexivity]|].
          destruct (decodes (e_api e) body); [split; [apply corrs_tail|reflexivity]|].
          destruct op; cbn; split; try reflexivity; [apply suffix_nil|apply suffix_refl].
        * destruct op; cbn; split; try reflexivity; [apply suffix_nil|apply suffix_refl].
      + destruct (e_done e); split; try reflexivity; apply corrs_tail.
  Qed.

  Lemma drain_corrs : forall n s,
    suffix (corrs (reqs (drain decodes n s))) (corrs (reqs s)) /\ corr (drain decodes n s) = corr s.
  Proof.
    induction n as [|n IH]; intros s; [split; [apply suffix_refl|reflexivity]|].
    cbn [drain]. destruct (open s) eqn:Ho; [|split; [apply suffix_refl|reflexivity]].
    destruct (extract (rbuf s)) as [| |f rest]; [split; [apply suffix_refl|reflexivity]| |].
    - unfold close. rewrite Ho. cbn. split; [apply suffix_nil|reflexivity].
    - destruct (IH (handle decodes (mkS (reqs s) rest true (corr s) (nsent s) (log s)) f)) as [H1 H2].
      destruct (handle_corrs (mkS (reqs s) rest true (corr s) (nsent s) (log s)) f) as [H3 H4].
      cbn [reqs corr] in H3, H4. split; [eapply suffix_trans; eassumption|congruence].
  Qed.

  Lemma finish_corrs id w s :
    corrs (reqs (finish_waiter id w s)) = corrs (reqs s) /\ corr (finish_waiter id w s) = corr s.
  Proof.
    unfold finish_waiter. destruct (find _ (reqs s)); [|split; reflexivity].
    cbn [reqs corr]. split; [|reflexivity]. apply corrs_map_done.
    intros e'. destruct (Nat.eqb (e_id e') id); reflexivity.
  Qed.

  Lemma close_suffix c s : suffix (corrs (reqs (close c s))) (corrs (reqs s)) /\ corr (close c s) = corr s.
  Proof.
    unfold close. destruct (open s); cbn; split; try reflexivity; [apply suffix_nil|apply suffix_refl].
  Qed.

  (* events other than an effective Send / SendNoResp: the outstanding ids shrink to a suffix *)
  Lemma step_corrs_other s ev :
    (forall a f q, ev <> Send a f q) -> ev <> SendNoResp ->
    suffix (corrs (reqs (step decodes s ev))) (corrs (reqs s)) /\ corr (step decodes s ev) = corr s.
  Proof.
    intros Hs Hn. destruct ev as [api flex quirk| | |c|id vc|id| | |]; cbn [step];
      try (apply close_suffix).
    - exfalso. exact (Hs _ _ _ eq_refl).
    - exfalso. exact (Hn eq_refl).
    - destruct (open s); cbn [reqs corr]; split; try reflexivity; [|apply suffix_refl].
      unfold corrs. rewrite flat_map_app. cbn. rewrite app_nil_r. apply suffix_refl.
    - unfold feed. destruct (drain_corrs (S (length (rbuf (append c s)))) (append c s)) as [H1 H2].
      assert (Ha : reqs (append c s) = reqs s /\ corr (append c s) = corr s).
      { unfold append. destruct (open s); split; reflexivity. }
      destruct Ha as [Ha1 Ha2]. rewrite Ha1 in H1. rewrite Ha2 in H2. split; assumption.
    - destruct (find _ (reqs s)); [|split; [apply suffix_refl|reflexivity]].
      destruct (finish_corrs id TimedOut s) as [H1 H2].
      destruct vc.
      + destruct (close_suffix CNone (finish_waiter id TimedOut s)) as [H3 H4].
        rewrite H1 in H3. split; [exact H3|congruence].
      + rewrite H1. split; [apply suffix_refl|exact H2].
    - destruct (finish_corrs id Cancelled s) as [H1 H2]. rewrite H1. split; [apply suffix_refl|exact H2].
  Qed.

  (* ghost ages: the i-th outstanding id was handed out a_i calls of _next_correlation_id ago *)
  Definition aged (q : list Z) (c k : Z) : Prop :=
    exists ages : list Z,
      Forall2 (fun ci a => ci = (c - a) mod 2147483648) q ages /\
      StronglySorted Z.gt ages /\ Forall (fun a => 0 <= a < k) ages.

  Lemma aged_suffix q' q c k : suffix q' q -> aged q c k -> aged q' c k.
  Proof.
    intros [p ->] (ages & H2 & Hs & Hb).
    apply Forall2_app_inv_l in H2. destruct H2 as (a1 & a2 & Hp & Hq & ->).
    exists a2. split; [exact Hq|]. split.
    - clear - Hs. induction a1 as [|x a1 IH]; [exact Hs|]. apply IH. inversion Hs; assumption.
    - apply Forall_app in Hb. apply Hb.
  Qed.

  Lemma aged_mono q c k k' : k <= k' -> aged q c k -> aged q c k'.
  Proof.
    intros Hk (ages & H2 & Hs & Hb). exists ages. repeat split; try assumption.
    eapply Forall_impl; [|exact Hb]. cbn. intros a Ha. lia.
  Qed.

  Lemma aged_incr q c k :
    0 <= c < 2147483648 -> aged q c k -> aged q (NextCorr.post c) (k + 1).
  Proof.
    intros Hc (ages & H2 & Hs & Hb). exists (map (fun a => a + 1) ages). split; [|split].
    - clear Hs Hb. induction H2 as [|ci a q ages Hh _ IH]; [constructor|].
      cbn [map]. constructor; [|exact IH]. subst ci. rewrite nextcorr_post.
      rewrite Zminus_mod_idemp_l. f_equal. lia.
    - clear H2 Hb. induction Hs as [|a ages _ IH Hall]; [constructor|].
      cbn [map]. constructor; [exact IH|]. rewrite Forall_map. eapply Forall_impl; [|exact Hall].
      cbn. intros b Hb. lia.
    - rewrite Forall_map. eapply Forall_impl; [|exact Hb]. cbn. intros a Ha. lia.
  Qed.

  Lemma sorted_snoc l x : StronglySorted Z.gt l -> Forall (fun a => a > x) l -> StronglySorted Z.gt (l ++ [x]).
  Proof.
    induction 1 as [|a l Hs IH Hall]; intros Hx; [repeat constructor|].
    inversion Hx; subst. cbn. constructor; [apply IH; assumption|].
    apply Forall_app. split; [exact Hall|]. constructor; [assumption|constructor].
  Qed.

  Lemma aged_send q c k :
    0 <= c < 2147483648 -> 0 <= k -> aged q c k ->
    aged (q ++ [NextCorr.post c]) (NextCorr.post c) (k + 1).
  Proof.
    intros Hc Hk (ages & H2 & Hs & Hb).
    exists (map (fun a => a + 1) ages ++ [0]). split; [|split].
    - apply Forall2_app.
      + clear Hs Hb. induction H2 as [|ci a q ages Hh _ IH]; [constructor|].
        cbn [map]. constructor; [|exact IH]. subst ci. rewrite nextcorr_post.
        rewrite Zminus_mod_idemp_l. f_equal. lia.
      + constructor; [|constructor]. rewrite Z.sub_0_r. pose proof (nextcorr_range c).
        rewrite Z.mod_small by lia. reflexivity.
    - apply sorted_snoc.
      + clear H2 Hb. induction Hs as [|a ages _ IH Hall]; [constructor|].
        cbn [map]. constructor; [exact IH|]. rewrite Forall_map. eapply Forall_impl; [|exact Hall].
        cbn. intros b Hb. lia.
      + rewrite Forall_map. eapply Forall_impl; [|exact Hb]. cbn. intros a Ha. lia.
    - apply Forall_app. split.
      + rewrite Forall_map. eapply Forall_impl; [|exact Hb]. cbn. intros a Ha. lia.
      + constructor; [lia|constructor].
  Qed.

  Lemma aged_step s ev k :
    0 <= corr s < 2147483648 -> 0 <= k ->
    aged (corrs (reqs s)) (corr s) k ->
    aged (corrs (reqs (step decodes s ev))) (corr (step decodes s ev)) (k + 1).
  Proof.
    intros Hc Hk Ha.
    destruct ev as [api flex quirk| | |c|id vc|id| | |].
    1:{ cbn [step]. destruct (open s); cbn [reqs corr].
        - unfold corrs. rewrite flat_map_app. cbn [flat_map e_corr]. rewrite app_nil_r.
          apply aged_send; assumption.
        - eapply aged_mono; [|exact Ha]. lia. }
    1:{ cbn [step]. destruct (open s); cbn [reqs corr].
        - apply aged_incr; assumption.
        - eapply aged_mono; [|exact Ha]. lia. }
    all: match goal with |- aged (corrs (reqs (step decodes _ ?e))) _ _ =>
           destruct (step_corrs_other s e) as [H1 H2]; [intros; discriminate|discriminate|] end;
         rewrite H2; (eapply aged_mono; [|eapply aged_suffix; eassumption]); lia.
  Qed.

  Lemma aged_run evs : forall s k,
    0 <= corr s < 2147483648 -> 0 <= k ->
    aged (corrs (reqs s)) (corr s) k ->
    aged (corrs (reqs (run decodes s evs))) (corr (run decodes s evs)) (k + Z.of_nat (length evs)).
  Proof.
    induction evs as [|ev evs IH]; intros s k Hc Hk Ha.
    - cbn. rewrite Z.add_0_r. exact Ha.
    - cbn [run fold_left length]. rewrite Nat2Z.inj_succ.
      replace (k + Z.succ (Z.of_nat (length evs))) with ((k + 1) + Z.of_nat (length evs)) by lia.
      apply IH; [apply corr_range_step; exact Hc|lia|apply aged_step; assumption].
  Qed.

  Lemma aged_nodup q c k : k <= 2147483648 -> aged q c k -> NoDup q.
  Proof.
    intros Hk (ages & H2 & Hs & Hb). revert Hs Hb.
    induction H2 as [|ci a q ages Hh H2 IH]; intros Hs Hb; [constructor|].
    inversion Hs as [|? ? Hs' Hgt]; subst. inversion Hb as [|? ? Ha Hb']; subst.
    constructor; [|apply IH; assumption].
    intros Hin.
    (* some later id equals ci: its age b satisfies 0 <= b < a < k <= 2^31 *)
    assert (Hex : exists b, In b ages /\ (c - a) mod 2147483648 = (c - b) mod 2147483648).
    { clear - H2 Hin. induction H2 as [|cj b q ages Hj _ IH]; [contradiction|].
      destruct Hin as [<-|Hin].
      - exists b. split; [left; reflexivity|exact Hj].
      - destruct (IH Hin) as (b' & Hb' & E). exists b'. split; [right; exact Hb'|exact E]. }
    destruct Hex as (b & Hbin & E).
    rewrite Forall_forall in Hgt, Hb'. specialize (Hgt b Hbin). specialize (Hb' b Hbin).
    assert (Hm : (a - b) mod 2147483648 = 0).
    { replace (a - b) with ((c - b) - (c - a)) by lia. rewrite Zminus_mod, E, Z.sub_diag. reflexivity. }
    rewrite Z.mod_small in Hm by lia. lia.
  Qed.

  Theorem outstanding_distinct c0 evs :
    0 <= c0 < 2147483648 -> Z.of_nat (length evs) <= 2147483648 ->
    NoDup (corrs (reqs (run decodes (init c0) evs))).
  Proof.
    intros Hc Hl. apply (aged_nodup _ (corr (run decodes (init c0) evs)) (0 + Z.of_nat (length evs))); [lia|].
    apply aged_run; [exact Hc|lia|]. exists []. repeat constructor.
  Qed.
End CorrDistinct.
