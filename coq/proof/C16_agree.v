(* The hand-written per-handler error classification of model/C16_TxnApi.v agrees with the dispatch
   chains translated from sender.py (gen/Txn*Dispatch.v), for every error code of the model. *)
From Coq Require Import ZArith List Bool.
From Verif Require Import DispatchActs TxnAddPartitionsDispatch TxnAddOffsetsDispatch
  TxnOffsetCommitDispatch TxnEndDispatch C16_dispatch.
From Verif Require C16_TxnApi.
Import ListNotations.
Open Scope Z_scope.

Definition class_of_action (a : C16_TxnApi.action) : tclass * bool :=
  match a with
  | C16_TxnApi.ASuccess => (TSuccess, false)
  | C16_TxnApi.ARetry d => (TRetry, d)
  | C16_TxnApi.AAbortable _ => (TAbortable, false)
  | C16_TxnApi.AFatal _ => (TFatal, false)
  | C16_TxnApi.AFailBatch _ => (TFatal, false)
  end.

Definition of_chain (l : list act) : tclass * bool := (classify l, has ACoordinatorDead l).

Lemma model_agrees_with_source : forall c : C16_TxnApi.code,
  (forall b, class_of_action (C16_TxnApi.cl_add_partitions c) = of_chain (txnAddPartitionsDispatch (C16_TxnApi.code_num c) b)) /\
  class_of_action (C16_TxnApi.cl_add_offsets c) = of_chain (txnAddOffsetsDispatch (C16_TxnApi.code_num c)) /\
  class_of_action (C16_TxnApi.cl_txn_offset_commit c) = of_chain (txnOffsetCommitDispatch (C16_TxnApi.code_num c)) /\
  class_of_action (C16_TxnApi.cl_end_txn c) = of_chain (txnEndDispatch (C16_TxnApi.code_num c)).
Proof. intros c. destruct c; repeat split; try (intros []); vm_compute; reflexivity. Qed.
