(* C11_roundtrip.v — decode (encode v ++ r) = (v, r) for every wire type, by induction on
   the type (nested induction principle for arrays / schemas). *)
From Coq Require Import ZArith List Bool Lia ZifyBool.
From Verif Require Import Bits Wire.
Import ListNotations.
Open Scope Z_scope.
Ltac Zify.zify_post_hook ::= Z.to_euclidean_division_equations.

(* ------------------------------------------------------------------ lists *)
Lemma take_app h r : take (length h) (h ++ r) = Some (h, r).
Proof. induction h as [|b h IH]; cbn; [reflexivity|]. rewrite IH. reflexivity. Qed.

Lemma take_app_n n h r : length h = n -> take n (h ++ r) = Some (h, r).
Proof. intros <-. apply take_app. Qed.

Lemma firstn_app_len {A} (h r : list A) : firstn (length h) (h ++ r) = h.
Proof. induction h; cbn; [reflexivity|]. f_equal. assumption. Qed.

Lemma skipn_app_len {A} (h r : list A) : skipn (length h) (h ++ r) = r.
Proof. induction h; cbn; [reflexivity|]. assumption. Qed.

Lemma to_nat_blen {A} (l : list A) : Z.to_nat (blen l) = length l.
Proof. unfold blen. apply Nat2Z.id. Qed.

Lemma blen_app {A} (a b : list A) : blen (a ++ b) = blen a + blen b.
Proof. unfold blen. rewrite app_length. lia. Qed.

Lemma blen_nonneg {A} (a : list A) : 0 <= blen a.
Proof. unfold blen. lia. Qed.

Lemma split_at_app h r : split_at (blen h) (h ++ r) = Some (h, r).
Proof.
  unfold split_at. rewrite blen_app. pose proof (blen_nonneg r).
  replace (blen h + blen r <? blen h) with false by lia.
  rewrite to_nat_blen. apply take_app.
Qed.

(* ------------------------------------------------------------------ fixed-width integers *)
Lemma be_length n z : length (be n z) = n.
Proof. induction n; cbn; [reflexivity|]. f_equal. assumption. Qed.

Lemma pow256_pos n : 0 < 256 ^ Z.of_nat n.
Proof. apply Z.pow_pos_nonneg; lia. Qed.

Lemma ube_be n : forall acc z,
  ube_acc acc (be n z) = acc * 256 ^ Z.of_nat n + z mod 256 ^ Z.of_nat n.
Proof.
  induction n as [|n IH]; intros acc z.
  - cbn. rewrite Z.mod_1_r. lia.
  - cbn [be ube_acc]. rewrite IH.
    rewrite Nat2Z.inj_succ, Z.pow_succ_r by lia.
    set (P := 256 ^ Z.of_nat n). assert (HP : 0 < P) by apply pow256_pos.
    rewrite (Z.mul_comm 256 P).
    rewrite (Z.rem_mul_r z P 256) by lia.
    ring.
Qed.

Lemma dec_uint_be n z r :
  0 <= z < 256 ^ Z.of_nat n -> dec_uint n (be n z ++ r) = Some (z, r).
Proof.
  intros Hz. unfold dec_uint. rewrite (take_app_n n) by apply be_length.
  rewrite ube_be. rewrite Z.mod_small by exact Hz. repeat f_equal; try lia.
Qed.

Lemma pow256_half n : (0 < n)%nat -> 256 ^ Z.of_nat n = 2 * 2 ^ (8 * Z.of_nat n - 1).
Proof.
  intros Hn. change 256 with (2 ^ 8). rewrite <- Z.pow_mul_r by lia.
  replace (8 * Z.of_nat n) with (Z.succ (8 * Z.of_nat n - 1)) at 1 by lia.
  rewrite Z.pow_succ_r by lia. reflexivity.
Qed.

Lemma dec_sint_be n z r :
  (0 < n)%nat ->
  - 2 ^ (8 * Z.of_nat n - 1) <= z < 2 ^ (8 * Z.of_nat n - 1) ->
  dec_sint n (be n z ++ r) = Some (z, r).
Proof.
  intros Hn Hz. unfold dec_sint, dec_uint.
  rewrite (take_app_n n) by apply be_length. rewrite ube_be.
  rewrite (pow256_half n Hn).
  set (H := 2 ^ (8 * Z.of_nat n - 1)) in *.
  assert (HH : 0 < H) by (apply Z.pow_pos_nonneg; lia).
  replace (0 * (2 * H) + z mod (2 * H)) with (z mod (2 * H)) by lia.
  destruct (Z.lt_ge_cases z 0) as [Hneg|Hpos].
  - rewrite <- (Z.mod_add z 1 (2 * H)) by lia.
    rewrite Z.mod_small by lia.
    destruct (z + 1 * (2 * H) <? H) eqn:E; [lia|]. f_equal. f_equal. lia.
  - rewrite Z.mod_small by lia.
    destruct (z <? H) eqn:E; [reflexivity|lia].
Qed.

(* the instances used by the codec, with literal bounds *)
Lemma dec_i8 z r : -128 <= z < 128 -> dec_sint 1 (be 1 z ++ r) = Some (z, r).
Proof. intros. apply dec_sint_be; [lia|]. cbn. lia. Qed.
Lemma dec_i16 z r : -32768 <= z < 32768 -> dec_sint 2 (be 2 z ++ r) = Some (z, r).
Proof. intros. apply dec_sint_be; [lia|]. cbn. lia. Qed.
Lemma dec_i32 z r : -2147483648 <= z < 2147483648 -> dec_sint 4 (be 4 z ++ r) = Some (z, r).
Proof. intros. apply dec_sint_be; [lia|]. cbn. lia. Qed.
Lemma dec_i64 z r : -9223372036854775808 <= z < 9223372036854775808 ->
  dec_sint 8 (be 8 z ++ r) = Some (z, r).
Proof. intros. apply dec_sint_be; [lia|]. cbn. lia. Qed.
Lemma dec_u8 z r : 0 <= z < 256 -> dec_uint 1 (be 1 z ++ r) = Some (z, r).
Proof. intros. apply dec_uint_be. cbn. lia. Qed.
Lemma dec_u32 z r : 0 <= z < 4294967296 -> dec_uint 4 (be 4 z ++ r) = Some (z, r).
Proof. intros. apply dec_uint_be. cbn. lia. Qed.
Lemma dec_u64 z r : 0 <= z < 18446744073709551616 -> dec_uint 8 (be 8 z ++ r) = Some (z, r).
Proof. intros. apply dec_uint_be. cbn. lia. Qed.

(* ------------------------------------------------------------------ bytes of a varint *)
Lemma low7_land128 x : 0 <= x < 128 -> Z.land x 128 = 0.
Proof. intros. apply (land_low_high x 1 7); lia. Qed.

Lemma low7_lor128 x : 0 <= x < 128 -> Z.lor x 128 = x + 128.
Proof. intros. apply (lor_low_high x 1 7); lia. Qed.

Lemma cont_land128 x : 0 <= x < 128 -> Z.land (x + 128) 128 = 128.
Proof.
  intros. rewrite <- low7_lor128 by assumption.
  rewrite Z.land_lor_distr_l, low7_land128 by assumption. reflexivity.
Qed.

Lemma cont_land127 x : 0 <= x < 128 -> Z.land (x + 128) 127 = x.
Proof. intros. rewrite land_127. lia. Qed.

(* (v & (ones k << 7)) == 0  iff  v < 128, for v below 2^(k+7) *)
Lemma high_mask_zero k v :
  0 <= k -> 0 <= v < 2 ^ (k + 7) ->
  (Z.land v (Z.ones k * 128) =? 0) = (v <? 128).
Proof.
  intros Hk Hv.
  assert (Hq : 0 <= v / 128 < 2 ^ k).
  { rewrite Z.pow_add_r in Hv by lia. change (2 ^ 7) with 128 in Hv. lia. }
  assert (Hx : 0 <= v mod 128 < 128) by lia.
  assert (Hvdm : v = v mod 128 + v / 128 * 128) by lia.
  set (x := v mod 128) in *. set (q := v / 128) in *.
  assert (Hland : Z.land v (Z.ones k * 128) = q * 128).
  { rewrite Hvdm. change 128 with (2 ^ 7).
    rewrite <- (lor_low_high x q 7) by (cbn; lia).
    rewrite Z.land_lor_distr_l.
    rewrite (land_low_high x (Z.ones k) 7) by (cbn; lia).
    rewrite Z.lor_0_l.
    rewrite <- !Z.shiftl_mul_pow2 by lia. rewrite <- Z.shiftl_land.
    rewrite Z.land_ones by lia. rewrite Z.mod_small by lia. reflexivity. }
  rewrite Hland.
  destruct (v <? 128) eqn:E; lia.
Qed.

Lemma mask32_zero v : 0 <= v < 4294967296 -> (Z.land v 4294967168 =? 0) = (v <? 128).
Proof. intros. apply (high_mask_zero 25 v); cbn; lia. Qed.

Lemma mask64_zero v : 0 <= v < 18446744073709551616 ->
  (Z.land v 18446744073709551488 =? 0) = (v <? 128).
Proof. intros. apply (high_mask_zero 57 v); cbn; lia. Qed.

(* ------------------------------------------------------------------ UnsignedVarInt32 *)
Lemma uv_last value i v r :
  0 <= i -> 0 <= value < 2 ^ i -> 0 <= v < 128 ->
  uv_dec value i (v :: r) = Some (value + v * 2 ^ i, r).
Proof.
  intros Hi Hval Hv. cbn [uv_dec]. rewrite low7_land128 by assumption. cbn [Z.eqb].
  rewrite Z.shiftl_mul_pow2 by assumption. rewrite lor_low_high by assumption. reflexivity.
Qed.

Lemma uv_roundtrip_gen : forall f i v value r,
  i = 28 - 7 * Z.of_nat f -> 0 <= i ->
  0 <= value < 2 ^ i -> 0 <= v < 2 ^ (32 - i) ->
  uv_dec value i (uv_enc f v ++ r) = Some (value + v * 2 ^ i, r).
Proof.
  induction f as [|f IH]; intros i v value r Hi Hi0 Hval Hv.
  - cbn [uv_enc app]. apply uv_last; try assumption.
    replace i with 28 in * by lia. cbn in Hv. lia.
  - assert (Hv32 : 0 <= v < 4294967296).
    { split; [lia|]. eapply Z.lt_le_trans; [apply Hv|].
      change 4294967296 with (2 ^ 32). apply Z.pow_le_mono_r; lia. }
    cbn [uv_enc]. rewrite mask32_zero by assumption.
    destruct (v <? 128) eqn:Hsmall.
    + cbn [app]. apply uv_last; try assumption. lia.
    + rewrite land_127, Z.shiftr_div_pow2 by lia. change (2 ^ 7) with 128.
      rewrite low7_lor128 by lia.
      cbn [app uv_dec].
      rewrite cont_land128, cont_land127 by lia. cbn [Z.eqb].
      assert (Hi' : i + 7 = 28 - 7 * Z.of_nat f) by lia.
      destruct (i + 7 >? 28) eqn:Hgt; [lia|].
      rewrite Z.shiftl_mul_pow2 by assumption.
      rewrite lor_low_high by (try assumption; lia).
      assert (HP7 : 2 ^ (i + 7) = 2 ^ i * 128).
      { rewrite Z.pow_add_r by lia. reflexivity. }
      assert (HQ : 2 ^ (32 - i) = 2 ^ (32 - (i + 7)) * 128).
      { replace (32 - i) with ((32 - (i + 7)) + 7) by lia. rewrite Z.pow_add_r by lia. reflexivity. }
      set (P := 2 ^ i) in *.
      assert (HP : 0 < P) by (apply Z.pow_pos_nonneg; lia).
      rewrite IH; try lia.
      * f_equal. f_equal. rewrite HP7.
        rewrite (Z.div_mod v 128) at 3 by lia. ring.
      * rewrite HP7. split; [nia|]. nia.
Qed.

Lemma dec_uvarint_enc x r :
  0 <= x < 4294967296 -> dec_uvarint (enc_uvarint x ++ r) = Some (x, r).
Proof.
  intros Hx. unfold dec_uvarint, enc_uvarint.
  rewrite land_ones32, Z.mod_small by lia.
  rewrite (uv_roundtrip_gen 4 0 x 0 r); cbn; try lia.
  f_equal. f_equal. lia.
Qed.

(* ------------------------------------------------------------------ VarInt32 / VarInt64 (restricted range) *)
Lemma unzigzag_even v : 0 <= v -> unzigzag (2 * v) = v.
Proof.
  intros Hv. unfold unzigzag.
  rewrite Z.shiftr_div_pow2 by lia. change (2 ^ 1) with 2.
  change 1 with (Z.ones 1). rewrite Z.land_ones by lia. change (2 ^ 1) with 2.
  replace ((2 * v) mod 2) with 0 by lia. replace (2 * v / 2) with v by lia.
  cbn. apply Z.lxor_0_r.
Qed.

Lemma dec_varint32_enc v r :
  0 <= v < 2147483648 -> dec_varint32 (enc_varint32 v ++ r) = Some (v, r).
Proof.
  intros Hv. unfold dec_varint32, enc_varint32.
  rewrite land_ones32, Z.mod_small by lia.
  rewrite Z.shiftl_mul_pow2, Z.shiftr_div_pow2 by lia.
  replace (v / 2 ^ 31) with 0 by (change (2 ^ 31) with 2147483648; lia).
  rewrite Z.lxor_0_r. change (2 ^ 1) with 2.
  rewrite dec_uvarint_enc by lia.
  rewrite (Z.mul_comm v 2), unzigzag_even by lia. reflexivity.
Qed.

Lemma dec_varint64_enc v r :
  0 <= v < 64 -> dec_varint64 (enc_varint64 v ++ r) = Some (v, r).
Proof.
  intros Hv. unfold dec_varint64, enc_varint64.
  change 18446744073709551615 with (Z.ones 64). rewrite Z.land_ones by lia.
  rewrite Z.mod_small by (cbn; lia).
  rewrite Z.shiftl_mul_pow2, Z.shiftr_div_pow2 by lia.
  replace (v / 2 ^ 63) with 0 by (change (2 ^ 63) with 9223372036854775808; lia).
  rewrite Z.lxor_0_r. change (2 ^ 1) with 2.
  cbn [v64_enc]. rewrite mask64_zero by lia.
  replace (v * 2 <? 128) with true by lia.
  cbn [app v64_dec]. rewrite low7_land128 by lia. cbn [Z.eqb].
  rewrite Z.shiftl_0_r, Z.lor_0_l.
  rewrite (Z.mul_comm v 2), unzigzag_even by lia. reflexivity.
Qed.

(* ------------------------------------------------------------------ blobs *)
Lemma dec_blob_enc w maxlen o r :
  (0 < w)%nat -> maxlen < 2 ^ (8 * Z.of_nat w - 1) ->
  wt_blob maxlen o = true ->
  dec_blob w (enc_blob w o ++ r) = Some (o, r).
Proof.
  intros Hw Hmax Hwt. unfold dec_blob, enc_blob.
  assert (Hhalf : 0 < 2 ^ (8 * Z.of_nat w - 1)) by (apply Z.pow_pos_nonneg; lia).
  destruct o as [l|].
  - unfold wt_blob in Hwt. apply andb_prop in Hwt as [_ Hlen].
    rewrite <- app_assoc. rewrite dec_sint_be; [|assumption|unfold blen in *; lia].
    replace (blen l <? 0) with false by (unfold blen; lia).
    rewrite split_at_app. reflexivity.
  - rewrite dec_sint_be; [|assumption|lia]. reflexivity.
Qed.

Lemma dec_cblob_enc o r :
  wt_blob 4294967294 o = true -> dec_cblob (enc_cblob o ++ r) = Some (o, r).
Proof.
  intros Hwt. unfold dec_cblob, enc_cblob. destruct o as [l|].
  - unfold wt_blob in Hwt. apply andb_prop in Hwt as [_ Hlen].
    rewrite <- app_assoc. rewrite dec_uvarint_enc by (unfold blen in *; lia).
    replace (blen l + 1 - 1) with (blen l) by lia.
    replace (blen l <? 0) with false by (unfold blen; lia).
    rewrite split_at_app. reflexivity.
  - rewrite dec_uvarint_enc by lia. reflexivity.
Qed.

(* ------------------------------------------------------------------ tagged fields *)
Lemma dec_tagged_loop_enc : forall l prev r,
  -1 <= prev -> wt_tagged prev l = true ->
  dec_tagged_loop (length l) prev
    (flat_map (fun kv => enc_uvarint (fst kv) ++ enc_uvarint (blen (snd kv)) ++ snd kv) l ++ r)
  = Some (l, r).
Proof.
  induction l as [|[k b] l IH]; intros prev r Hprev Hwt.
  - reflexivity.
  - cbn [wt_tagged] in Hwt.
    apply andb_prop in Hwt as [Hwt Hrest]. apply andb_prop in Hwt as [Hwt Hblen].
    apply andb_prop in Hwt as [Hwt _]. apply andb_prop in Hwt as [Hk1 Hk2].
    cbn [flat_map length dec_tagged_loop fst snd].
    rewrite <- !app_assoc.
    rewrite dec_uvarint_enc by lia.
    replace (k <=? prev) with false by lia.
    rewrite dec_uvarint_enc by (unfold blen in *; lia).
    rewrite blen_app. pose proof (blen_nonneg (flat_map
      (fun kv : Z * list Z => enc_uvarint (fst kv) ++ enc_uvarint (blen (snd kv)) ++ snd kv) l ++ r)).
    rewrite Z.min_l by lia. rewrite !to_nat_blen.
    rewrite firstn_app_len, skipn_app_len.
    rewrite IH by (try assumption; lia). reflexivity.
Qed.

Lemma uv_enc_nonempty f v : (1 <= length (uv_enc f v))%nat.
Proof. destruct f; cbn; [lia|]. destruct (_ =? _); cbn; lia. Qed.

Lemma tagged_fields_length (l : list (Z * list Z)) :
  (length l <= length (flat_map (fun kv => enc_uvarint (fst kv) ++ enc_uvarint (blen (snd kv)) ++ snd kv) l))%nat.
Proof.
  induction l as [|kv l IH]; cbn [flat_map length]; [lia|].
  rewrite !app_length. unfold enc_uvarint at 1.
  pose proof (uv_enc_nonempty 4 (Z.land (fst kv) 4294967295)). lia.
Qed.

Lemma sort_tags_asc : forall l prev, wt_tagged prev l = true -> sort_tags l = l.
Proof.
  induction l as [|[k b] l IH]; intros prev H; [reflexivity|].
  cbn [wt_tagged] in H. apply andb_prop in H as [H Hrest].
  cbn [sort_tags]. rewrite (IH k Hrest).
  destruct l as [|[k' b'] l']; [reflexivity|].
  cbn [wt_tagged] in Hrest.
  apply andb_prop in Hrest as [Hr _]. apply andb_prop in Hr as [Hr _].
  apply andb_prop in Hr as [Hr _]. apply andb_prop in Hr as [Hkk _].
  cbn [ins_tag fst]. replace (k <=? k') with true by lia. reflexivity.
Qed.

Lemma dec_tagged_enc l r :
  (blen l <? 4294967296) && wt_tagged (-1) l = true ->
  dec_tagged (enc_tagged l ++ r) = Some (l, r).
Proof.
  intros Hwt. apply andb_prop in Hwt as [Hlen Hwt].
  unfold dec_tagged, enc_tagged. rewrite (sort_tags_asc l (-1) Hwt). rewrite <- app_assoc.
  rewrite dec_uvarint_enc by (unfold blen in *; lia).
  pose proof (tagged_fields_length l) as Hfl.
  match goal with |- (if ?c then _ else _) = _ => destruct c eqn:E end.
  { exfalso. rewrite blen_app in E. unfold blen in E, Hfl. lia. }
  rewrite to_nat_blen.
  apply dec_tagged_loop_enc; [lia|assumption].
Qed.

(* ------------------------------------------------------------------ schema helpers *)
Fixpoint enc_fields (fs : list ty) (l : list val) : list Z :=
  match fs, l with
  | f :: fs', x :: l' => enc f x ++ enc_fields fs' l'
  | _, _ => []
  end.

Fixpoint dec_fields (fs : list ty) (bs : list Z) : option (list val * list Z) :=
  match fs with
  | [] => Some ([], bs)
  | f :: fs' => match dec f bs with
                | Some (v, r) => match dec_fields fs' r with
                                 | Some (l, r') => Some (v :: l, r')
                                 | None => None
                                 end
                | None => None
                end
  end.

Fixpoint wt_fields (fs : list ty) (l : list val) : bool :=
  match fs, l with
  | [], [] => true
  | f :: fs', x :: l' => wt f x && wt_fields fs' l'
  | _, _ => false
  end.

Lemma enc_schema fs : forall l, enc (TSchema fs) (VTup l) = enc_fields fs l.
Proof.
  induction fs as [|f fs IH]; intros l; [destruct l; reflexivity|].
  destruct l as [|x l]; [reflexivity|].
  cbn [enc_fields]. rewrite <- IH. reflexivity.
Qed.

Lemma dec_schema_aux fs : forall bs,
  (fix go (fs : list ty) (bs : list Z) {struct fs} : option (list val * list Z) :=
     match fs with
     | [] => Some ([], bs)
     | f :: fs' => match dec f bs with
                   | Some (v, r) => match go fs' r with
                                    | Some (l, r') => Some (v :: l, r')
                                    | None => None
                                    end
                   | None => None
                   end
     end) fs bs = dec_fields fs bs.
Proof.
  induction fs as [|f fs IH]; intros bs; [reflexivity|].
  cbn [dec_fields]. destruct (dec f bs) as [[v r]|]; [|reflexivity].
  rewrite IH. reflexivity.
Qed.

Lemma dec_schema fs bs : dec (TSchema fs) bs = omap VTup (dec_fields fs bs).
Proof. rewrite <- dec_schema_aux. reflexivity. Qed.

Lemma wt_schema fs : forall l, wt (TSchema fs) (VTup l) = wt_fields fs l.
Proof.
  induction fs as [|f fs IH]; intros l; [destruct l; reflexivity|].
  destruct l as [|x l]; [reflexivity|].
  cbn [wt_fields]. rewrite <- IH. reflexivity.
Qed.

(* ------------------------------------------------------------------ arrays *)
Definition rt (t : ty) : Prop :=
  forall v r, wt t v = true -> dec t (enc t v ++ r) = Some (v, r).

Lemma rep_roundtrip t : rt t -> forall l r,
  forallb (wt t) l = true ->
  rep (dec t) (length l) (flat_map (enc t) l ++ r) = Some (l, r).
Proof.
  intros Ht. induction l as [|x l IH]; intros r Hwt; [reflexivity|].
  cbn [forallb] in Hwt. apply andb_prop in Hwt as [Hx Hl].
  cbn [flat_map length rep]. rewrite <- app_assoc.
  rewrite Ht by assumption. rewrite IH by assumption. reflexivity.
Qed.

Lemma rep_app d : forall n m bs,
  rep d (n + m) bs = match rep d n bs with
                     | Some (l1, r1) => match rep d m r1 with
                                        | Some (l2, r2) => Some (l1 ++ l2, r2)
                                        | None => None
                                        end
                     | None => None
                     end.
Proof.
  induction n as [|n IH]; intros m bs.
  - cbn. destruct (rep d m bs) as [[l r]|]; reflexivity.
  - cbn [Nat.add rep]. destruct (d bs) as [[v r]|]; [|reflexivity].
    rewrite IH. destruct (rep d n r) as [[l1 r1]|]; [|reflexivity].
    destruct (rep d m r1) as [[l2 r2]|]; reflexivity.
Qed.

Lemma rep_pos_eq d : forall p bs, rep_pos d p bs = rep d (Pos.to_nat p) bs.
Proof.
  induction p as [p IH|p IH|]; intros bs.
  - rewrite Pos2Nat.inj_xI. replace (2 * Pos.to_nat p)%nat with (Pos.to_nat p + Pos.to_nat p)%nat by lia.
    cbn [rep_pos rep]. destruct (d bs) as [[v r0]|]; [|reflexivity].
    rewrite rep_app, !IH. destruct (rep d (Pos.to_nat p) r0) as [[l1 r1]|]; [|reflexivity].
    rewrite IH. destruct (rep d (Pos.to_nat p) r1) as [[l2 r2]|]; reflexivity.
  - rewrite Pos2Nat.inj_xO. replace (2 * Pos.to_nat p)%nat with (Pos.to_nat p + Pos.to_nat p)%nat by lia.
    cbn [rep_pos]. rewrite rep_app, !IH. destruct (rep d (Pos.to_nat p) bs) as [[l1 r1]|]; [|reflexivity].
    rewrite IH. reflexivity.
  - change (Pos.to_nat 1) with 1%nat. cbn [rep_pos rep]. destruct (d bs) as [[v r]|]; reflexivity.
Qed.

Lemma rep_z_eq d n bs : rep_z d n bs = rep d (Z.to_nat n) bs.
Proof. destruct n; cbn [rep_z Z.to_nat]; try reflexivity. apply rep_pos_eq. Qed.

Lemma fields_roundtrip fs : Forall rt fs -> forall l r,
  wt_fields fs l = true ->
  dec_fields fs (enc_fields fs l ++ r) = Some (l, r).
Proof.
  induction 1 as [|f fs Hf Hfs IH]; intros l r Hwt.
  - destruct l; [reflexivity|discriminate].
  - destruct l as [|x l]; [discriminate|].
    cbn [wt_fields] in Hwt. apply andb_prop in Hwt as [Hx Hl].
    cbn [enc_fields dec_fields]. rewrite <- app_assoc.
    rewrite Hf by assumption. rewrite IH by assumption. reflexivity.
Qed.

(* ------------------------------------------------------------------ induction principle *)
Lemma ty_ind' (P : ty -> Prop) :
  P TInt8 -> P TInt16 -> P TInt32 -> P TInt64 -> P TUInt32 -> P TBool -> P TFloat64 ->
  P TString -> P TBytes -> P TUVarInt -> P TVarInt32 -> P TVarInt64 ->
  P TCompactString -> P TCompactBytes -> P TTagged ->
  (forall t, P t -> P (TArray t)) ->
  (forall t, P t -> P (TCompactArray t)) ->
  (forall fs, Forall P fs -> P (TSchema fs)) ->
  forall t, P t.
Proof.
  intros. revert t. fix IH 1. destruct t; try assumption.
  - apply H14. apply IH.
  - apply H15. apply IH.
  - apply H16. induction fs as [|f fs IHfs]; constructor; [apply IH|exact IHfs].
Qed.

Ltac range H :=
  unfold in_range in H; apply andb_prop in H as [?Hlo ?Hhi].

(* ------------------------------------------------------------------ the theorem *)
Theorem roundtrip : forall t v r, wt t v = true -> dec t (enc t v ++ r) = Some (v, r).
Proof.
  intros t. change (rt t). induction t using ty_ind'; intros v r Hwt.
  - destruct v; try discriminate. cbn in Hwt. range Hwt. cbn [enc dec]. rewrite dec_i8 by lia. reflexivity.
  - destruct v; try discriminate. cbn in Hwt. range Hwt. cbn [enc dec]. rewrite dec_i16 by lia. reflexivity.
  - destruct v; try discriminate. cbn in Hwt. range Hwt. cbn [enc dec]. rewrite dec_i32 by lia. reflexivity.
  - destruct v; try discriminate. cbn in Hwt. range Hwt. cbn [enc dec]. rewrite dec_i64 by lia. reflexivity.
  - destruct v; try discriminate. cbn in Hwt. range Hwt. cbn [enc dec]. rewrite dec_u32 by lia. reflexivity.
  - destruct v; try discriminate. cbn [enc dec].
    destruct b; reflexivity.
  - destruct v; try discriminate. cbn in Hwt. range Hwt. cbn [enc dec]. rewrite dec_u64 by lia. reflexivity.
  - destruct v; try discriminate. cbn [wt] in Hwt. cbn [enc dec].
    rewrite (dec_blob_enc 2 32767) by (try assumption; cbn; lia). reflexivity.
  - destruct v; try discriminate. cbn [wt] in Hwt. cbn [enc dec].
    rewrite (dec_blob_enc 4 2147483647) by (try assumption; cbn; lia). reflexivity.
  - destruct v; try discriminate. cbn in Hwt. range Hwt. cbn [enc dec]. rewrite dec_uvarint_enc by lia. reflexivity.
  - destruct v; try discriminate. cbn in Hwt. range Hwt. cbn [enc dec]. rewrite dec_varint32_enc by lia. reflexivity.
  - destruct v; try discriminate. cbn in Hwt. range Hwt. cbn [enc dec]. rewrite dec_varint64_enc by lia. reflexivity.
  - destruct v; try discriminate. cbn [wt] in Hwt. cbn [enc dec]. rewrite dec_cblob_enc by assumption. reflexivity.
  - destruct v; try discriminate. cbn [wt] in Hwt. cbn [enc dec]. rewrite dec_cblob_enc by assumption. reflexivity.
  - destruct v; try discriminate. cbn [wt] in Hwt. cbn [enc dec]. rewrite dec_tagged_enc by assumption. reflexivity.
  - (* Array *)
    destruct v as [| | | | |o|]; try discriminate. destruct o as [l|].
    + cbn [wt] in Hwt. apply andb_prop in Hwt as [Hlen Hall].
      cbn [enc dec]. rewrite <- app_assoc. rewrite dec_i32 by (unfold blen in *; lia).
      replace (blen l =? -1) with false by (unfold blen; lia).
      rewrite rep_z_eq, to_nat_blen. rewrite rep_roundtrip by assumption. reflexivity.
    + cbn [enc dec]. rewrite dec_i32 by lia. reflexivity.
  - (* CompactArray *)
    destruct v as [| | | | |o|]; try discriminate. destruct o as [l|].
    + cbn [wt] in Hwt. apply andb_prop in Hwt as [Hlen Hall].
      cbn [enc dec]. rewrite <- app_assoc. rewrite dec_uvarint_enc by (unfold blen in *; lia).
      replace (blen l + 1 - 1) with (blen l) by lia.
      replace (blen l =? -1) with false by (unfold blen; lia).
      rewrite rep_z_eq, to_nat_blen. rewrite rep_roundtrip by assumption. reflexivity.
    + cbn [enc dec]. rewrite dec_uvarint_enc by lia. reflexivity.
  - (* Schema *)
    destruct v as [| | | | | |l]; try discriminate.
    rewrite wt_schema in Hwt. rewrite enc_schema, dec_schema.
    rewrite fields_roundtrip by assumption. reflexivity.
Qed.
