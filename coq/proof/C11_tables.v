(* C11_tables.v — the finite checks over gen/Schemas.v, by computation. *)
From Coq Require Import ZArith List Bool String.
From Verif Require Import Wire WireTables KafkaSpec C11Negotiate C11Tables Schemas C11_roundtrip C11_negotiate.
Import ListNotations.
Open Scope Z_scope.

Definition schemas : list (string * ty) := all_schemas requests responses aux_structs.

Lemma all_covered : forallb (fun e => covered (snd e)) schemas = true.
Proof. vm_compute. reflexivity. Qed.

Lemma all_req_layout : forallb (fun r => req_layout_ok r || is_known (rq_name r)) requests = true.
Proof. vm_compute. reflexivity. Qed.

Lemma all_resp_layout : forallb (fun r => resp_layout_ok r || is_known (rs_name r)) responses = true.
Proof. vm_compute. reflexivity. Qed.

Lemma all_aux_layout : forallb aux_layout_ok aux_structs && headers_present aux_structs = true.
Proof. vm_compute. reflexivity. Qed.

Lemma all_pairing : forallb (pairing_ok responses) requests = true.
Proof. vm_compute. reflexivity. Qed.

Lemma all_names :
  forallb req_name_ok requests && forallb resp_name_ok responses &&
  nodup_zz (map (fun r => (rq_key r, rq_ver r)) requests) &&
  nodup_zz (map (fun r => (rs_key r, rs_ver r)) responses) = true.
Proof. vm_compute. reflexivity. Qed.

Lemma all_builders : forallb (builder_ok requests) builders = true.
Proof. vm_compute. reflexivity. Qed.

(* ------------------------------------------------------------------ lifted statements *)
Lemma structs_wellformed : forall n t, In (n, t) schemas -> covered t = true.
Proof.
  intros n t H. exact (proj1 (forallb_forall _ _) all_covered (n, t) H).
Qed.

Lemma structs_roundtrip : forall n t, In (n, t) schemas ->
  forall v r, wt t v = true -> dec t (enc t v ++ r) = Some (v, r).
Proof. intros n t _. apply roundtrip. Qed.

Lemma layout_requests : forall r, In r requests ->
  req_layout_ok r = true \/ In (rq_name r) known_layout_deviations.
Proof.
  intros r H. pose proof (proj1 (forallb_forall _ _) all_req_layout r H) as Hr.
  apply orb_prop in Hr as [Hr|Hr]; [left; exact Hr|right].
  unfold is_known in Hr. apply existsb_exists in Hr as (x & Hx & Heq).
  apply String.eqb_eq in Heq. subst. exact Hx.
Qed.

Lemma layout_responses : forall r, In r responses ->
  resp_layout_ok r = true \/ In (rs_name r) known_layout_deviations.
Proof.
  intros r H. pose proof (proj1 (forallb_forall _ _) all_resp_layout r H) as Hr.
  apply orb_prop in Hr as [Hr|Hr]; [left; exact Hr|right].
  unfold is_known in Hr. apply existsb_exists in Hr as (x & Hx & Heq).
  apply String.eqb_eq in Heq. subst. exact Hx.
Qed.

Lemma layout_aux : forall e, In e aux_structs -> aux_layout_ok e = true.
Proof.
  intros e H. pose proof all_aux_layout as Ha. apply andb_prop in Ha as [Ha _].
  exact (proj1 (forallb_forall _ _) Ha e H).
Qed.

Lemma pairing : forall r, In r requests -> pairing_ok responses r = true.
Proof. intros r H. exact (proj1 (forallb_forall _ _) all_pairing r H). Qed.

Lemma names_requests : forall r, In r requests -> rq_name_ver r = rq_ver r /\ 0 <= rq_ver r.
Proof.
  intros r H. pose proof all_names as Ha.
  apply andb_prop in Ha as [Ha _]. apply andb_prop in Ha as [Ha _]. apply andb_prop in Ha as [Ha _].
  pose proof (proj1 (forallb_forall _ _) Ha r H) as Hr. unfold req_name_ok in Hr.
  apply andb_prop in Hr as [H1 H2]. split; [apply Z.eqb_eq; exact H1|apply Z.leb_le; exact H2].
Qed.

Lemma names_responses : forall r, In r responses -> rs_name_ver r = rs_ver r /\ 0 <= rs_ver r.
Proof.
  intros r H. pose proof all_names as Ha.
  apply andb_prop in Ha as [Ha _]. apply andb_prop in Ha as [Ha _]. apply andb_prop in Ha as [_ Ha].
  pose proof (proj1 (forallb_forall _ _) Ha r H) as Hr. unfold resp_name_ok in Hr.
  apply andb_prop in Hr as [H1 H2]. split; [apply Z.eqb_eq; exact H1|apply Z.leb_le; exact H2].
Qed.

Lemma versions_unique :
  nodup_zz (map (fun r => (rq_key r, rq_ver r)) requests) = true /\
  nodup_zz (map (fun r => (rs_key r, rs_ver r)) responses) = true.
Proof.
  pose proof all_names as Ha.
  apply andb_prop in Ha as [Ha H2]. apply andb_prop in Ha as [_ H1]. split; assumption.
Qed.

Lemma class_lists_sorted : forall b, In b builders -> builder_ok requests b = true.
Proof. intros b H. exact (proj1 (forallb_forall _ _) all_builders b H). Qed.

Lemma builder_sorted : forall b, In b builders -> sorted_lt (map snd (bd_classes b)) = true.
Proof.
  intros b H. pose proof (class_lists_sorted b H) as Hb. unfold builder_ok in Hb.
  apply andb_prop in Hb as [Hb _]. apply andb_prop in Hb as [Hb _]. exact Hb.
Qed.

(* prepare on the generated class lists *)
Lemma builders_prepare_highest : forall b lo hi, In b builders ->
  match prepare (map snd (bd_classes b)) (bd_allow_unknown b) (Some (lo, hi)) with
  | Chosen i v => nth_error (map snd (bd_classes b)) i = Some v /\ lo <= v <= hi /\
                  (forall w, In w (map snd (bd_classes b)) -> lo <= w <= hi -> w <= v)
  | ErrNotImplemented => forall w, In w (map snd (bd_classes b)) -> ~ (lo <= w <= hi)
  | _ => False
  end.
Proof. intros b lo hi H. apply prepare_highest. apply builder_sorted. exact H. Qed.

(* ------------------------------------------------------------------ VarInt32 / VarInt64 *)
Lemma varint32_refuted :
  wt TInt32 (VInt (-1)) = true /\ dec TVarInt32 (enc TVarInt32 (VInt (-1))) = Some (VInt (-2147483648), []).
Proof. vm_compute. split; reflexivity. Qed.

Lemma varint64_refuted :
  wt TInt64 (VInt 300) = true /\ dec TVarInt64 (enc TVarInt64 (VInt 300)) = Some (VInt 278, []).
Proof. vm_compute. split; reflexivity. Qed.
