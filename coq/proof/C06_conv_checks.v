(* The per-member facts behind the invariant and the variant of model/C06_Converge.v, each checked for every
   value of the finite view [av] by evaluation. *)
From Coq Require Import ZArith List Bool Arith Lia.
From Verif Require Import DispatchActs HeartbeatDispatch JoinRetryDispatch JoinDispatch SyncDispatch CommitDispatch
  C06_Converge C06_conv_lib C06_conv_refl C06_conv_abs.
Import ListNotations.
Local Open Scope nat_scope.

Definition nib (i : ibk) : bool := match i with INone => true | _ => false end.
Definition inv_a (a : av) : bool := wf_a a && coh_a a.
(* [a'] is fine and the member's part of the variant behaves: [dk] = entries it stops being bound to,
   [real] = the step is not a no-op *)
Definition good (a a' : av) (dk : nat) (real : bool) : bool :=
  a_live a' && inv_a a' && (tw_a a' + dk <=? tw_a a) && (if real then mp_a a' <? mp_a a else mp_a a' <=? mp_a a).

(* ---- bounds ---- *)
(* the part of [wf_a] that reads no atom: prunes the enumeration *)
Definition pre_wf : fin_t := fun live ph ib rejoin ck hb hbin cmin st =>
  live
  && (match ph, ib with
      | PIdle, INone | PJoined, INone | PSyncSent, INone | PSyncSent, IS _ | PJoinSent, IJ _ => true
      | PJoinSent, INone => ck_ok ck
      | _, _ => false end)
  && (ph_eqb ph PIdle || (is_none cmin && negb hb && is_none hbin))
  && (hb || is_none hbin)
  && (negb (ck_stale ck) || (opt_in hbin [16%Z] && opt_in cmin [16%Z])).
Definition chk_bounds (a : av) : bool := negb (wf_a a) || ((mp_a a <=? 1023) && (tw_a a <=? 2)).
Definition chk_pre_wf (a : av) : bool := negb (wf_a a) || fin_of pre_wf a.

(* ---- steps that leave the coordinator alone ---- *)
Definition pre_idle (extra : bool -> ckst -> bool -> option Z -> option Z -> bool) : fin_t :=
  fun live ph ib rejoin ck hb hbin cmin st =>
    pre_wf live ph ib rejoin ck hb hbin cmin st && ph_eqb ph PIdle && nib ib && extra rejoin ck hb hbin cmin.

Definition chk_find (a : av) : bool :=
  negb (inv_a a && negb (ck_known (a_ck a))) || good a (a_set_ck CkOk a) 0 true.
Definition pre_find : fin_t := fun live ph ib rejoin ck hb hbin cmin st =>
  pre_wf live ph ib rejoin ck hb hbin cmin st && negb (ck_known ck).

Definition is_zero (s : idsrc) : bool := match s with SZero => true | _ => false end.
(* entries the member stops being bound to: its id (if in the table) and the id of its JoinGroup exchange *)
Definition dk_of (a : av) (lost_id lost_focus : bool) : nat :=
  (if lost_id && negb (a_idz a) && a_id_e a then 1 else 0)
  + (if lost_focus && ph_eqb (a_ph a) PJoinSent && a_f_e a && negb (a_f_id a) then 1 else 0).

Definition pre_hbsend : fin_t := pre_idle (fun rejoin ck hb hbin cmin => hb && is_none hbin && ck_known ck).
Definition chk_hbsend (a : av) : bool :=
  negb (inv_a a) || good a (a_set_hbin (Some (hb_code_a a)) a) 0 (negb (hb_silent_a a (hb_code_a a))).

Definition pre_hbrecv : fin_t := pre_idle (fun rejoin ck hb hbin cmin => hb && negb (is_none hbin)).
Definition chk_hbrecv (a : av) : bool :=
  negb (inv_a a) ||
  match a_hbin a with
  | Some code => let a' := a_recv_hb code a in
                 good a a' (dk_of a (is_zero (src_of false (heartbeatDispatch code))) false) (negb (hb_silent_a a code))
  | None => true end.

Definition pre_cmsend : fin_t := pre_idle (fun rejoin ck hb hbin cmin => is_none cmin && ck_known ck).
Definition chk_cmsend (a : av) : bool :=
  negb (inv_a a && a_can_commit a) || good a (a_set_cmin (Some (cm_code_a a)) a) 0 (negb (cm_silent_a a (cm_code_a a))).

Definition pre_cmrecv : fin_t := pre_idle (fun rejoin ck hb hbin cmin => negb (is_none cmin)).
Definition chk_cmrecv (a : av) : bool :=
  negb (inv_a a) ||
  match a_cmin a with
  | Some code => let a' := a_recv_cm code a in
                 good a a' (dk_of a (is_zero (src_of false (commitDispatch code))) false) (negb (cm_silent_a a code))
  | None => true end.

Definition pre_recvjoin : fin_t := fun live ph ib rejoin ck hb hbin cmin st =>
  pre_wf live ph ib rejoin ck hb hbin cmin st && ph_eqb ph PJoinSent && match ib with IJ _ => true | _ => false end.
Definition join_src (code : Z) : idsrc :=
  if has ARetryJoin (joinRetryDispatch code) then src_of true (joinRetryDispatch code)
  else if has ASuccess (joinDispatch code) then SFocus else src_of true (joinDispatch code).
Definition chk_recvjoin (a : av) : bool :=
  negb (inv_a a) ||
  match a_ib a with
  | IJ code =>
      let a' := a_recv_join code a in
      let id_kept := match join_src code with SSame => true | SFocus => a_f_id a | SZero => a_idz a end in
      let focus_kept := match join_src code with SSame => a_f_id a | SFocus => true | SZero => false end in
      good a a' (dk_of a (negb id_kept) (negb focus_kept)) true
  | _ => true end.

Definition pre_recvsync : fin_t := fun live ph ib rejoin ck hb hbin cmin st =>
  pre_wf live ph ib rejoin ck hb hbin cmin st && ph_eqb ph PSyncSent && match ib with IS _ => true | _ => false end.
Definition chk_recvsync (a : av) : bool :=
  negb (inv_a a) ||
  match a_ib a with
  | IS code => let a' := a_recv_sync code a in
               good a a' (dk_of a (negb (has ASuccess (syncDispatch code)) && is_zero (src_of false (syncDispatch code))) false) true
  | _ => true end.

(* ---- sends ---- *)
(* JoinGroup sent: heartbeat task stopped; the exchange is about the id with view [f*]; reply / parked *)
Definition a_enter_join (ib : ibk) (fz f_e f_p f_jp f_sp f_id gz g_eq g_le : bool) (a : av) : av :=
  mkA (a_live a) PJoinSent (a_rejoin a) (a_ck a) false ib None (a_cmin a) (a_st a) (a_G0 a)
      (a_idz a) (a_id_e a) (a_id_p a) (a_id_jp a) (a_id_sp a) (a_genz a) (a_gen_eq a) (a_gen_le a)
      fz f_e f_p f_jp f_sp f_id gz g_eq g_le.
Definition pre_sendjoin : fin_t := fun live ph ib rejoin ck hb hbin cmin st =>
  pre_wf live ph ib rejoin ck hb hbin cmin st && ph_eqb ph PIdle && nib ib && is_none cmin && ck_known ck && rejoin.
(* to the wrong node *)
Definition a_join_stale (a : av) : av :=
  a_enter_join (IJ 16) (a_idz a) (a_id_e a) (a_id_p a) (a_id_jp a) (a_id_sp a) true true (a_G0 a) true a.
Definition chk_join_stale (a : av) : bool :=
  negb (inv_a a && ck_stale (a_ck a)) || good a (a_join_stale a) 0 true.
(* empty member id, v4+: MEMBER_ID_REQUIRED with a fresh pending id *)
Definition a_join_79 (a : av) : av := a_enter_join (IJ 79) false false true false false false true (a_G0 a) true a.
Definition chk_join_79 (a : av) : bool :=
  negb (inv_a a && negb (ck_stale (a_ck a)) && a_idz a) || good a (a_join_79 a) 0 true.
(* unknown member id *)
Definition a_join_25 (a : av) : av :=
  a_enter_join (IJ 25) (a_idz a) (a_id_e a) (a_id_p a) (a_id_jp a) (a_id_sp a) true true (a_G0 a) true a.
Definition chk_join_25 (a : av) : bool :=
  negb (inv_a a && negb (ck_stale (a_ck a)) && negb (a_idz a) && negb (a_id_e a) && negb (a_id_p a))
  || good a (a_join_25 a) 0 true.
(* accepted for the id x (= m_id, or fresh with m_id = 0): its entry now exists with the join flag set *)
Definition a_join_parked (a : av) : av :=
  let own := negb (a_idz a) in
  mkA (a_live a) PJoinSent (a_rejoin a) (a_ck a) false INone None (a_cmin a) (a_st a) (a_G0 a)
      (a_idz a) own false own (a_id_sp a) (a_genz a) (a_gen_eq a) (a_gen_le a)
      false true false true (a_id_sp a) own true (a_G0 a) true.
Definition join_ok_pre (a : av) : bool :=
  inv_a a && negb (ck_stale (a_ck a)) && (a_idz a || a_id_e a || a_id_p a).
(* ... in PreparingRebalance, not the last one *)
Definition chk_join_parked (a : av) : bool :=
  negb (join_ok_pre a && cstate_eqb (a_st a) CPreparing) || good a (a_join_parked a) 0 true.
(* ... known non-leader in Stable / known in CompletingRebalance: answered at once with the current generation *)
Definition a_join_immediate (a : av) : av :=
  a_enter_join (IJ 0) false true false false (a_id_sp a) true false true true a.
Definition chk_join_immediate (a : av) : bool :=
  negb (join_ok_pre a && a_id_e a && negb (a_idz a) && negb (a_G0 a) && negb (a_id_jp a)
        && (cstate_eqb (a_st a) CStable || cstate_eqb (a_st a) CCompleting))
  || good a (a_join_immediate a) 0 true.

Definition pre_sendsync : fin_t := fun live ph ib rejoin ck hb hbin cmin st =>
  pre_wf live ph ib rejoin ck hb hbin cmin st && ph_eqb ph PJoined && nib ib && ck_known ck.
Definition a_send_sync (ib : ibk) (sp : bool) (a : av) : av :=
  mkA (a_live a) PSyncSent false (a_ck a) (a_hb a) ib (a_hbin a) (a_cmin a) (a_st a) (a_G0 a)
      (a_idz a) (a_id_e a) (a_id_p a) (a_id_jp a) sp (a_genz a) (a_gen_eq a) (a_gen_le a)
      (a_fz a) (a_f_e a) (a_f_p a) (a_f_jp a) (a_f_sp a) (a_f_id a) (a_gz a) (a_g_eq a) (a_g_le a).
Definition sync_reply (a : av) : option Z :=      (* None: parked *)
  if ck_stale (a_ck a) then Some 16%Z
  else let v := validate_a (a_idz a) (a_id_e a) (a_gen_eq a) in
       if negb (v =? 0)%Z then Some v
       else match a_st a with CPreparing => Some 27%Z | CStable => Some 0%Z | CEmpty => Some 25%Z | CCompleting => None end.
Definition chk_sendsync (a : av) : bool :=
  negb (inv_a a) ||
  match sync_reply a with
  | Some code => good a (a_send_sync (IS code) (a_id_sp a) a) 0 true
  | None => good a (a_send_sync INone true a) 0 true          (* follower: parked *)
  end.

(* ---- what a change of the coordinator does to the view of any member ---- *)
(* _prepare_rebalance: parked SyncGroups answered REBALANCE_IN_PROGRESS, sync flags cleared *)
Definition T_prep (a : av) : av :=
  mkA (a_live a) (a_ph a) (a_rejoin a) (a_ck a) (a_hb a) (if a_waiting_sync a then IS 27 else a_ib a) (a_hbin a) (a_cmin a)
      CPreparing (a_G0 a) (a_idz a) (a_id_e a) (a_id_p a) (a_id_jp a) false (a_genz a) (a_gen_eq a) (a_gen_le a)
      (a_fz a) (a_f_e a) (a_f_p a) (a_f_jp a) false (a_f_id a) (a_gz a) (a_g_eq a) (a_g_le a).
(* _complete_join: generation + 1, join flags cleared, parked JoinGroups answered *)
Definition T_barrier (a : av) : av :=
  let w := a_waiting_join a in
  mkA (a_live a) (a_ph a) (a_rejoin a) (a_ck a) (a_hb a) (if w then IJ 0 else a_ib a) (a_hbin a) (a_cmin a)
      CCompleting false (a_idz a) (a_id_e a) (a_id_p a) false (a_id_sp a) (a_genz a) false true
      (a_fz a) (a_f_e a) (a_f_p a) false (a_f_sp a) (a_f_id a)
      (if w then false else a_gz a) (if w then true else false) true.
(* the leader's SyncGroup: Stable, parked SyncGroups answered *)
Definition T_syncdone (a : av) : av :=
  mkA (a_live a) (a_ph a) (a_rejoin a) (a_ck a) (a_hb a) (if a_waiting_sync a then IS 0 else a_ib a) (a_hbin a) (a_cmin a)
      CStable (a_G0 a) (a_idz a) (a_id_e a) (a_id_p a) (a_id_jp a) false (a_genz a) (a_gen_eq a) (a_gen_le a)
      (a_fz a) (a_f_e a) (a_f_p a) (a_f_jp a) false (a_f_id a) (a_gz a) (a_g_eq a) (a_g_le a).
(* the table became empty ([bump]: the generation was incremented) *)
Definition T_empty (bump : bool) (a : av) : av :=
  mkA (a_live a) (a_ph a) (a_rejoin a) (a_ck a) (a_hb a) (a_ib a) (a_hbin a) (a_cmin a)
      CEmpty (if bump then false else a_G0 a) (a_idz a) (a_id_e a) (a_id_p a) (a_id_jp a) (a_id_sp a)
      (a_genz a) (if bump then false else a_gen_eq a) (if bump then true else a_gen_le a)
      (a_fz a) (a_f_e a) (a_f_p a) (a_f_jp a) (a_f_sp a) (a_f_id a)
      (a_gz a) (if bump then false else a_g_eq a) (if bump then true else a_g_le a).

Definition pre_any : fin_t := pre_wf.
Definition keeps (a a' : av) : bool := a_live a' && inv_a a' && (tw_a a' <=? tw_a a).
(* any member, _prepare_rebalance from Stable / CompletingRebalance / Empty *)
Definition chk_T_prep (a : av) : bool :=
  negb (inv_a a && negb (cstate_eqb (a_st a) CPreparing)) || keeps a (T_prep a).
(* any member, _complete_join in PreparingRebalance: every entry has its join flag set, so a member whose id is in
   the table without waiting on it sees the flag set *)
Definition chk_T_barrier (a : av) : bool :=
  negb (inv_a a && cstate_eqb (a_st a) CPreparing && (negb (a_id_e a) || a_id_jp a) && (negb (a_f_e a) || a_f_jp a))
  || keeps a (T_barrier a).
Definition chk_T_syncdone (a : av) : bool :=
  negb (inv_a a && cstate_eqb (a_st a) CCompleting) || keeps a (T_syncdone a).
(* any member once the table is empty: its ids are not in it *)
Definition chk_T_empty (a : av) : bool :=
  negb (inv_a a && negb (a_id_e a) && negb (a_f_e a)) || (keeps a (T_empty true a) && keeps a (T_empty false a)).


(* ---- the requester in the steps that change the coordinator's state ---- *)
(* a JoinGroup that starts a rebalance (new id; known id in Stable - the model does this for the leader only; first
   member): afterwards the coordinator is in PreparingRebalance with this member parked: one trigger fewer *)
Definition chk_join_trigger (a : av) : bool :=
  negb (join_ok_pre a && negb (cstate_eqb (a_st a) CPreparing) && (negb (a_id_e a) || cstate_eqb (a_st a) CStable))
  || (let a' := T_prep (a_join_parked a) in inv_a a' && (tw_a a' + 1 <=? tw_a a)).
(* the leader's SyncGroup in CompletingRebalance *)
Definition chk_sync_leader (a : av) : bool :=
  negb (inv_a a && cstate_eqb (a_st a) CCompleting && negb (ck_stale (a_ck a))
        && (validate_a (a_idz a) (a_id_e a) (a_gen_eq a) =? 0)%Z)
  || keeps a (T_syncdone (a_send_sync INone (a_id_sp a) a)).

(* ---- all of it, by evaluation ---- *)
Time Lemma ok_bounds : forall_av pre_wf chk_bounds = true. Proof. vm_compute. reflexivity. Qed.
Time Lemma ok_find : forall_av pre_find chk_find = true. Proof. vm_compute. reflexivity. Qed.
Time Lemma ok_hbsend : forall_av pre_hbsend chk_hbsend = true. Proof. vm_compute. reflexivity. Qed.
Time Lemma ok_hbrecv : forall_av pre_hbrecv chk_hbrecv = true. Proof. vm_compute. reflexivity. Qed.
Time Lemma ok_cmsend : forall_av pre_cmsend chk_cmsend = true. Proof. vm_compute. reflexivity. Qed.
Time Lemma ok_cmrecv : forall_av pre_cmrecv chk_cmrecv = true. Proof. vm_compute. reflexivity. Qed.
Time Lemma ok_recvjoin : forall_av pre_recvjoin chk_recvjoin = true. Proof. vm_compute. reflexivity. Qed.
Time Lemma ok_recvsync : forall_av pre_recvsync chk_recvsync = true. Proof. vm_compute. reflexivity. Qed.
Time Lemma ok_join_stale : forall_av pre_sendjoin chk_join_stale = true. Proof. vm_compute. reflexivity. Qed.
Time Lemma ok_join_79 : forall_av pre_sendjoin chk_join_79 = true. Proof. vm_compute. reflexivity. Qed.
Time Lemma ok_join_25 : forall_av pre_sendjoin chk_join_25 = true. Proof. vm_compute. reflexivity. Qed.
Time Lemma ok_join_parked : forall_av pre_sendjoin chk_join_parked = true. Proof. vm_compute. reflexivity. Qed.
Time Lemma ok_join_immediate : forall_av pre_sendjoin chk_join_immediate = true. Proof. vm_compute. reflexivity. Qed.
Time Lemma ok_sendsync : forall_av pre_sendsync chk_sendsync = true. Proof. vm_compute. reflexivity. Qed.
Time Lemma ok_T_prep : forall_av pre_any chk_T_prep = true. Proof. vm_compute. reflexivity. Qed.
Time Lemma ok_T_barrier : forall_av pre_any chk_T_barrier = true. Proof. vm_compute. reflexivity. Qed.
Time Lemma ok_T_syncdone : forall_av pre_any chk_T_syncdone = true. Proof. vm_compute. reflexivity. Qed.
Time Lemma ok_T_empty : forall_av pre_any chk_T_empty = true. Proof. vm_compute. reflexivity. Qed.
Time Lemma ok_join_trigger : forall_av pre_sendjoin chk_join_trigger = true. Proof. vm_compute. reflexivity. Qed.
Time Lemma ok_sync_leader : forall_av pre_sendsync chk_sync_leader = true. Proof. vm_compute. reflexivity. Qed.
Time Lemma ok_pre_wf : forall_av pre_wf (fun a => true) = true. Proof. vm_compute. reflexivity. Qed.
