(* C10_cy_proof.v — the repaired compiled readers never read out of bounds, never run out of
   fuel and never fail with an internal error: every run ends in SDone or an ordinary exception. *)
From Coq Require Import ZArith List Bool Lia ZifyBool.
From Verif Require Import C10_Base C10_DecodeSafeCy C10_wp.
Import ListNotations.
Open Scope Z_scope.
Ltac Zify.zify_post_hook ::= Z.to_euclidean_division_equations.

Local Notation fx := fx_repaired.

Ltac step lem :=
  eapply wp_bind_mono; [apply lem; try assumption; try lia | cbv beta].
Ltac mono lem :=
  eapply wp_mono; [apply lem; try assumption; try lia | cbv beta].
Ltac pairstep lem v p H :=
  step lem; intros [v p] H; cbn [snd fst] in H; cbv beta iota zeta.

(* ------------------------------------------------------------------ varint *)
Lemma cy_varint_loop_wp sp buf : forall n pos shift value,
  0 <= pos -> shift <= 63 -> 63 - shift < 7 * Z.of_nat n ->
  wp (cy_varint_loop fx n sp buf pos shift value) (fun r => pos < snd r <= zlen buf).
Proof.
  induction n; intros pos shift value Hp Hs Hf.
  - lia.
  - cbn [cy_varint_loop fx_varint fx_repaired].
    destruct (pos <? zlen buf) eqn:E; cbn [negb andb]; [|exact I].
    step rd_wp. intros l _. cbv zeta.
    destruct (128 <=? be_u l).
    + destruct (63 <? shift + 7) eqn:E2; [exact I|].
      mono IHn. intros r Hr. lia.
    + cbn [wp snd]. lia.
Qed.

Lemma cy_varint_wp sp buf pos :
  0 <= pos -> wp (cy_varint fx sp buf pos) (fun r => pos < snd r <= zlen buf).
Proof. intros. unfold cy_varint. apply cy_varint_loop_wp; simpl; lia. Qed.

Lemma cy_chk_wp len pos size :
  wp (cy_chk fx len pos size) (fun _ => 0 <= size <= len - pos).
Proof.
  unfold cy_chk. cbn [fx_bounds fx_repaired].
  destruct ((size <? 0) || (len - pos <? size)) eqn:E; [exact I|]. cbn [wp]. lia.
Qed.

Lemma cy_vi_wp sp buf p :
  0 <= p -> wp (cy_vi fx sp buf p) (fun r => p < snd r <= zlen buf).
Proof.
  intros. unfold cy_vi. step cy_chk_wp. intros _ _. apply cy_varint_wp; lia.
Qed.

Lemma cy_opt_bytes_wp sp buf p n :
  small buf -> 0 <= p <= zlen buf ->
  wp (cy_opt_bytes fx sp buf p n) (fun r => p <= snd r <= zlen buf).
Proof.
  intros Hs Hp. unfold cy_opt_bytes. destruct (0 <=? n) eqn:E.
  - step cy_chk_wp. intros _ H. step bytes_from_wp. intros k _. cbn [wp snd]. lia.
  - cbn [wp snd]. lia.
Qed.

(* ------------------------------------------------------------------ v2 records *)
Lemma cy_headers_wp sp buf : small buf -> forall fuel p hc acc,
  0 <= p <= zlen buf -> zlen buf - p < Z.of_nat fuel ->
  wp (cy_headers fx fuel sp buf p hc acc) (fun r => p <= snd r <= zlen buf).
Proof.
  intros Hs. induction fuel; intros p hc acc Hp Hf.
  - lia.
  - cbn [cy_headers]. destruct (hc <=? 0); [cbn [wp snd]; lia|].
    pairstep cy_varint_wp klen p1 H1.
    destruct (klen <? 0); [exact I|].
    step cy_chk_wp. intros _ H2.
    step bytes_from_wp. intros hk _. cbv zeta.
    pairstep cy_varint_wp vlen p2 H3.
    pairstep cy_opt_bytes_wp hval p3 H4.
    destruct (utf8_ok hk); [|exact I].
    mono IHfuel. intros r Hr. lia.
Qed.

Lemma cy_read_msg_wp h sp buf pos :
  small buf -> 0 <= pos <= zlen buf ->
  wp (cy_read_msg fx h sp buf pos) (fun r => pos < snd r <= zlen buf).
Proof.
  intros Hs Hp. unfold cy_read_msg.
  pairstep cy_vi_wp rlen p1 H1.
  pairstep cy_vi_wp attrs p2 H2.
  pairstep cy_vi_wp tsd p3 H3.
  pairstep cy_vi_wp offd p4 H4.
  pairstep cy_vi_wp klen p5 H5.
  pairstep cy_opt_bytes_wp rkey p6 H6.
  pairstep cy_vi_wp vlen p7 H7.
  pairstep cy_opt_bytes_wp rval p8 H8.
  pairstep cy_vi_wp hc p9 H9.
  destruct (hc <? 0); [exact I|].
  step cy_headers_wp. { unfold zlen in *; lia. }
  intros [hs p10] H10; cbn [snd] in H10; cbv beta iota zeta.
  destruct (negb (p10 - p1 =? rlen)); [exact I|]. cbn [wp snd]. lia.
Qed.

Lemma cy_v2_iter_ok h sp buf : small buf -> forall fuel pos idx acc,
  0 <= pos <= zlen buf -> zlen buf - pos < Z.of_nat fuel ->
  ok_status (snd (cy_v2_iter fx fuel h sp buf pos idx acc)).
Proof.
  intros Hs. induction fuel; intros pos idx acc Hp Hf.
  - lia.
  - cbn [cy_v2_iter]. destruct (h_num_records h <=? idx).
    + destruct (pos =? zlen buf); exact I.
    + pose proof (cy_read_msg_wp h sp buf pos Hs Hp) as W.
      destruct (cy_read_msg fx h sp buf pos) as [[r p]|e]; cbn [wp snd] in W.
      * apply IHfuel; lia.
      * exact W.
Qed.

(* ------------------------------------------------------------------ v2 batch *)
Definition v2_crc_field (buf : list Z) : Z := be_u (sub buf 17 4).
Definition v2_crc_content (buf : list Z) : list Z := sub buf 21 (zlen buf - 21).

Lemma cy_v2_read_header_wp (f : fixes) buf :
  fx_hdr f = true ->
  wp (cy_v2_read_header f buf) (fun h => 61 <= zlen buf /\ h_crc h = v2_crc_field buf).
Proof.
  intros Hf. unfold cy_v2_read_header. rewrite Hf. cbn [andb].
  destruct (zlen buf <? 61) eqn:E; [exact I|].
  step rd_i_wp. intros ? _. step rd_i_wp. intros ? _. step rd_i_wp. intros ? _.
  step rd_u_wp. intros crc Hcrc.
  step rd_i_wp. intros ? _. step rd_i_wp. intros ? _. step rd_i_wp. intros ? _.
  step rd_i_wp. intros ? _. step rd_i_wp. intros ? _. step rd_i_wp. intros ? _.
  step rd_i_wp. intros ? _. step rd_i_wp. intros ? _.
  cbn [wp h_crc]. split; [lia|exact Hcrc].
Qed.

(* for any flags: a header that was read came from a buffer of at least 61 bytes *)
Lemma cy_v2_read_header_inv (f : fixes) buf h :
  cy_v2_read_header f buf = Ok h -> 61 <= zlen buf /\ h_crc h = v2_crc_field buf.
Proof.
  unfold cy_v2_read_header. intros H.
  destruct (fx_hdr f && (zlen buf <? 61)); [discriminate|].
  unfold rd_i, rd_u, rd in H.
  repeat match type of H with
  | context [if ?c then _ else _] => destruct c eqn:?; cbn [bind] in H; [|discriminate]
  end.
  injection H as <-. cbn [h_crc]. split; [lia|reflexivity].
Qed.

Lemma cy_v2_validate_eq crc32c h buf :
  61 <= zlen buf ->
  cy_v2_validate crc32c h buf = Ok (h_crc h =? crc32c (v2_crc_content buf)).
Proof.
  intros. unfold cy_v2_validate, v2_crc_content.
  replace (zlen buf - 21 <? 0) with false by lia.
  unfold rd. replace ((0 <=? 21) && (21 + (zlen buf - 21) <=? zlen buf)) with true by lia.
  reflexivity.
Qed.

(* every output of the (abstract) codec is smaller than the largest possible allocation *)
Definition dec_small (dec : Z -> list Z -> dres) : Prop :=
  forall c p out, dec c p = DOk out -> small out.

Lemma cy_v2_uncompress_wp dec h buf :
  dec_small dec -> small buf -> 61 <= zlen buf ->
  wp (cy_v2_uncompress dec h buf) (fun r => small (snd (fst r)) /\ 0 <= snd r <= zlen (snd (fst r))).
Proof.
  intros dec_small Hs Hl. unfold cy_v2_uncompress.
  destruct (h_attrs h mod 8 =? 0); [cbn [wp fst snd]; split; [assumption|lia]|].
  destruct (4 <? h_attrs h mod 8); [exact I|].
  step rd_wp. intros payload _.
  destruct (dec (h_attrs h mod 8) payload) eqn:E; [|exact I].
  cbn [wp fst snd]. split; [eapply dec_small; eassumption|]. pose proof (zlen_nonneg out). lia.
Qed.

Theorem cy_v2_run_ok crc32c dec validate buf :
  dec_small dec -> small buf -> ok_status (snd (cy_v2_run crc32c dec fx validate buf)).
Proof.
  intros dec_small Hs. unfold cy_v2_run.
  pose proof (cy_v2_read_header_wp fx buf eq_refl) as W.
  destruct (cy_v2_read_header fx buf) as [h|e]; cbn [wp] in W; [|exact W].
  destruct W as [Hl _].
  assert (V : exists b, (if validate then cy_v2_validate crc32c h buf else Ok true) = Ok b).
  { destruct validate; [rewrite cy_v2_validate_eq by assumption|]; eauto. }
  destruct V as [b ->]. destruct b; [|exact I].
  pose proof (cy_v2_uncompress_wp dec h buf dec_small Hs Hl) as U.
  destruct (cy_v2_uncompress dec h buf) as [[[sp b] pos]|e]; cbn [wp fst snd] in U; [|exact U].
  destruct U as [Hb Hpos].
  apply cy_v2_iter_ok; [assumption|lia|unfold zlen in *; lia].
Qed.

(* ------------------------------------------------------------------ legacy *)
Lemma cy_l_opt_bytes_wp sp buf p n :
  small buf -> 0 <= p <= zlen buf ->
  wp (cy_l_opt_bytes fx sp buf p n) (fun r => p <= snd r <= zlen buf).
Proof.
  intros Hs Hp. unfold cy_l_opt_bytes. destruct (n =? -1).
  - cbn [wp snd]. lia.
  - step cy_chk_wp. intros _ H. step bytes_from_wp. intros k _. cbn [wp snd]. lia.
Qed.

Lemma cy_l_read_record_wp sp buf pos :
  small buf -> 0 <= pos ->
  wp (cy_l_read_record fx sp buf pos) (fun r => pos + 26 <= snd r <= zlen buf).
Proof.
  intros Hs Hp. unfold cy_l_read_record. cbv zeta.
  step cy_chk_wp. intros _ H0.
  step rd_i_wp. intros offset _. step rd_u_wp. intros crc _.
  step rd_i_wp. intros magic _. step rd_i_wp. intros attrs _.
  eapply wp_bind_mono with (P := fun tp => pos + 18 <= snd tp /\ snd tp + 8 <= zlen buf).
  { destruct (magic =? 1).
    - step cy_chk_wp. intros _ H1. step rd_i_wp. intros ts _. cbn [wp snd]. lia.
    - cbn [wp snd]. lia. }
  intros [ts p] [Ha Hb]; cbn [snd] in Ha, Hb; cbv beta iota zeta.
  step rd_i_wp. intros ksz _.
  pairstep cy_l_opt_bytes_wp rkey p1 H1.
  cbn [fx_vlen fx_repaired].
  step cy_chk_wp. intros _ H2.
  step rd_i_wp. intros vsz _.
  pairstep cy_l_opt_bytes_wp rval p2 H3.
  cbn [wp snd]. lia.
Qed.

Lemma cy_last_loop_wp buf : forall fuel pos length,
  0 <= pos -> Z.max 0 (zlen buf - pos) < Z.of_nat fuel ->
  wp (cy_last_loop fx fuel buf pos length)
     (fun r => (r = (pos, length)) \/
               (exists q, 0 <= q /\ q + 12 <= zlen buf /\ 0 <= snd r /\ fst r = q + 12 + snd r)).
Proof.
  induction fuel; intros pos length Hp Hf.
  - lia.
  - cbn [cy_last_loop fx_lastoff fx_repaired andb].
    destruct (pos <? zlen buf) eqn:E; [|cbn [wp]; left; reflexivity].
    destruct (zlen buf - pos <? 12) eqn:E2; [exact I|].
    step rd_i_wp. intros len1 _.
    destruct (len1 <? 0) eqn:E3; [exact I|].
    mono IHfuel.
    intros r [->|[q Hq]]; right.
    + exists pos. cbn [fst snd]. lia.
    + exists q. exact Hq.
Qed.

Lemma cy_last_offset_wp buf : wp (cy_last_offset fx buf) (fun _ => True).
Proof.
  unfold cy_last_offset. pose proof (zlen_nonneg buf).
  step cy_last_loop_wp. { unfold zlen in *; lia. }
  intros [pos length] Hr; cbv beta iota zeta. cbn [fx_lastoff fx_repaired andb].
  destruct ((zlen buf <? pos) || (pos =? 0)) eqn:E; [exact I|].
  destruct Hr as [Hr|[q Hq]]; cbn [fst snd] in *.
  - injection Hr as -> ->. lia.
  - apply rd_i_wp; lia.
Qed.

Lemma cy_l_inner_ok main abs buf : small buf -> forall fuel pos acc,
  0 <= pos <= zlen buf -> zlen buf - pos < Z.of_nat fuel ->
  ok_status (snd (cy_l_inner fx fuel main abs buf pos acc)).
Proof.
  intros Hs. induction fuel; intros pos acc Hp Hf.
  - lia.
  - cbn [cy_l_inner]. destruct (pos <? zlen buf) eqn:E; [|exact I].
    pose proof (cy_l_read_record_wp 1 buf pos Hs ltac:(lia)) as W.
    destruct (cy_l_read_record fx 1 buf pos) as [[m p]|e]; cbn [wp snd] in W; [|exact W].
    destruct (negb (m_attrs m mod 8 =? 0)); [exact I|].
    cbv zeta. apply IHfuel; lia.
Qed.

Lemma cy_l_iter_ok dec magic main : dec_small dec -> ok_status (snd (cy_l_iter dec fx magic main)).
Proof.
  intros dec_small. unfold cy_l_iter. cbv zeta.
  destruct (m_attrs main mod 8 =? 0); [exact I|].
  destruct (m_value main) as [value|]; [|exact I].
  destruct (3 <? m_attrs main mod 8); [exact I|].
  destruct ((m_attrs main mod 8 =? 3) && (magic =? 0)); [exact I|].
  destruct (dec (m_attrs main mod 8) value) as [out|e] eqn:E; [|exact I].
  assert (Hs : small out) by (eapply dec_small; eassumption).
  assert (A : wp (if 0 <? magic
                  then bind (cy_last_offset fx out) (fun lo => Ok (Some lo))
                  else Ok None) (fun _ => True)).
  { destruct (0 <? magic); [|exact I]. step cy_last_offset_wp. intros lo _. exact I. }
  destruct (if 0 <? magic then _ else _) as [abs|e]; cbn [wp] in A; [|exact A].
  pose proof (zlen_nonneg out).
  destruct abs as [lo|].
  - destruct (lo =? -1); [exact I|].
    apply cy_l_inner_ok; [assumption|lia|unfold zlen in *; lia].
  - apply cy_l_inner_ok; [assumption|lia|unfold zlen in *; lia].
Qed.

Definition l_crc_field (buf : list Z) : Z := be_u (sub buf 12 4).
Definition l_crc_content (buf : list Z) : list Z := sub buf 16 (zlen buf - 16).

Lemma cy_l_validate_eq crc32 m buf :
  26 <= zlen buf ->
  cy_l_validate crc32 m buf = Ok (m_crc m =? crc32 (l_crc_content buf)).
Proof.
  intros. unfold cy_l_validate, l_crc_content.
  replace (zlen buf - 16 <? 0) with false by lia.
  unfold rd. replace ((0 <=? 16) && (16 + (zlen buf - 16) <=? zlen buf)) with true by lia.
  reflexivity.
Qed.

Theorem cy_l_run_ok crc32 dec validate magic buf :
  dec_small dec -> small buf -> ok_status (snd (cy_l_run crc32 dec fx validate magic buf)).
Proof.
  intros dec_small Hs. unfold cy_l_run.
  pose proof (cy_l_read_record_wp 0 buf 0 Hs ltac:(lia)) as W.
  destruct (cy_l_read_record fx 0 buf 0) as [[main p]|e]; cbn [wp snd] in W; [|exact W].
  assert (V : exists b, (if validate then cy_l_validate crc32 main buf else Ok true) = Ok b).
  { destruct validate; [rewrite cy_l_validate_eq by lia|]; eauto. }
  destruct V as [b ->]. destruct b; [|exact I].
  apply cy_l_iter_ok. assumption.
Qed.

(* ------------------------------------------------------------------ MemoryRecords driver *)
Lemma rebase_ok base total st : ok_status st -> ok_status (rebase base total st).
Proof.
  intros H. destruct st as [|f]; [exact I|]. destruct f; cbn in H; try contradiction. exact I.
Qed.

Theorem cy_mr_loop_ok crc32c crc32 dec validate buf : dec_small dec -> small buf -> forall fuel pos acc,
  0 <= pos <= zlen buf -> zlen buf - pos < Z.of_nat fuel ->
  ok_status (snd (cy_mr_loop crc32c crc32 dec fx fuel validate buf pos acc)).
Proof.
  intros dec_small Hs. induction fuel; intros pos acc Hp Hf.
  - lia.
  - cbn [cy_mr_loop]. cbv zeta.
    destruct (zlen buf - pos <? 12) eqn:E1; [exact I|].
    pose proof (rd_i_wp S_MR 0 buf (pos + 8) 4 ltac:(lia) ltac:(lia)) as W.
    destruct (rd_i S_MR 0 buf (pos + 8) 4) as [length|e]; cbn [wp] in W; [|exact W].
    destruct (zlen buf - pos <? 12 + length) eqn:E2; [exact I|].
    destruct (length <? 14) eqn:E3; [exact I|].
    pose proof (rd_i_wp S_MR 0 buf (pos + 16) 1 ltac:(lia) ltac:(lia)) as W2.
    destruct (rd_i S_MR 0 buf (pos + 16) 1) as [magic|e]; cbn [wp] in W2; [|exact W2].
    assert (Hsl : small (sub buf pos (12 + length))) by (apply small_sub; assumption).
    assert (R : ok_status (snd (if magic <? 2
                                then cy_l_run crc32 dec fx validate magic (sub buf pos (12 + length))
                                else cy_v2_run crc32c dec fx validate (sub buf pos (12 + length))))).
    { destruct (magic <? 2); [apply cy_l_run_ok|apply cy_v2_run_ok]; assumption. }
    destruct (if magic <? 2 then _ else _) as [recs st]. cbn [snd] in R.
    destruct st as [|f].
    + apply IHfuel; lia.
    + cbn [snd]. apply rebase_ok. exact R.
Qed.

Theorem cy_decode_ok crc32c crc32 dec validate buf :
  dec_small dec -> small buf -> ok_status (snd (cy_decode crc32c crc32 dec fx validate buf)).
Proof.
  intros dec_small Hs. unfold cy_decode. pose proof (zlen_nonneg buf).
  apply cy_mr_loop_ok; [assumption|assumption|lia|unfold zlen in *; lia].
Qed.

