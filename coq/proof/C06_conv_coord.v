(* Per-step facts, part 2: the coordinator operations - well-formedness of the result and what each does to the
   view of a member. *)
From Coq Require Import ZArith List Bool Arith Lia.
From Verif Require Import DispatchActs HeartbeatDispatch JoinRetryDispatch JoinDispatch SyncDispatch CommitDispatch
  C06_Converge C06_conv_lib C06_conv_refl C06_conv_abs C06_conv_checks C06_conv_step C06_conv_cases.
Import ListNotations.
Local Open Scope nat_scope.

(* ---- the view transformers commute with absm ---- *)
Lemma bcast_fields : forall evs m, m_live (bcast evs m) = m_live m /\ m_id (bcast evs m) = m_id m /\ m_ph (bcast evs m) = m_ph m
  /\ m_focus (bcast evs m) = m_focus m /\ m_name (bcast evs m) = m_name m /\ m_gen (bcast evs m) = m_gen m.
Proof.
  intros evs. induction evs as [|e r IH]; intros m; [repeat split; reflexivity|]. unfold bcast in *. cbn [fold_left].
  destruct (IH (bcast1 m e)) as (A & B & C & D & E & F). rewrite A, B, C, D, E, F.
  destruct e; cbn [bcast1]; [destruct (waiting_sync m) | destruct (waiting_join m) | destruct (waiting_sync m)]; repeat split; reflexivity.
Qed.

Lemma waiting_abs : forall c m, a_waiting_join (absm c m) = waiting_join m /\ a_waiting_sync (absm c m) = waiting_sync m.
Proof.
  intros c m. unfold a_waiting_join, a_waiting_sync, waiting_join, waiting_sync, absm, ib_of. pcbn.
  destruct (m_inbox m) as [[? ?|?]|]; split; reflexivity.
Qed.

(* the coordinator after _prepare_rebalance, as seen by a member: same table up to the cleared sync flags *)
Lemma absm_T_prep : forall c c' m, c_st c' = CPreparing -> c_gen c' = c_gen c -> c_pend c' = c_pend c ->
  c_ents c' = clear_sp (c_ents c) ->
  absm c' (bcast [EvPrepare] m) = T_prep (absm c m).
Proof.
  intros c c' m Hst Hg Hp He. destruct (waiting_abs c m) as [_ Ws].
  unfold T_prep. rewrite Ws. unfold bcast. cbn [fold_left bcast1].
  assert (Hj : forall x, ent_jp c' x = ent_jp c x) by (intros x; rewrite !ent_jp_flag, He; apply (flag_clear x (c_ents c))).
  assert (Hs : forall x, ent_sp c' x = false) by (intros x; rewrite ent_sp_flag, He; apply (flag_clear x (c_ents c))).
  unfold absm. rewrite Hst, Hg, Hp, He, ids_clear_sp.
  destruct (waiting_sync m) eqn:W.
  - unfold waiting_sync in W. apply andb_true_iff in W. destruct W as [W1 W2].
    assert (P : m_ph m = PSyncSent) by (destruct (m_ph m); try discriminate; reflexivity).
    assert (I : m_inbox m = None) by (destruct (m_inbox m); [discriminate | reflexivity]).
    unfold focus_of, rgen_of, ib_of. pcbn. rewrite P, I. cbn [ph_eqb]. rewrite !Hj, !Hs. reflexivity.
  - unfold focus_of, rgen_of, ib_of. pcbn. rewrite !Hj, !Hs. reflexivity.
Qed.

Lemma absm_T_syncdone : forall c c' m, c_st c' = CStable -> c_gen c' = c_gen c -> c_pend c' = c_pend c ->
  c_ents c' = clear_sp (c_ents c) ->
  absm c' (bcast [EvSyncDone] m) = T_syncdone (absm c m).
Proof.
  intros c c' m Hst Hg Hp He. destruct (waiting_abs c m) as [_ Ws].
  unfold T_syncdone. rewrite Ws. unfold bcast. cbn [fold_left bcast1].
  assert (Hj : forall x, ent_jp c' x = ent_jp c x) by (intros x; rewrite !ent_jp_flag, He; apply (flag_clear x (c_ents c))).
  assert (Hs : forall x, ent_sp c' x = false) by (intros x; rewrite ent_sp_flag, He; apply (flag_clear x (c_ents c))).
  unfold absm. rewrite Hst, Hg, Hp, He, ids_clear_sp.
  destruct (waiting_sync m) eqn:W.
  - unfold waiting_sync in W. apply andb_true_iff in W. destruct W as [W1 W2].
    assert (P : m_ph m = PSyncSent) by (destruct (m_ph m); try discriminate; reflexivity).
    assert (I : m_inbox m = None) by (destruct (m_inbox m); [discriminate | reflexivity]).
    unfold focus_of, rgen_of, ib_of. pcbn. rewrite P, I. cbn [ph_eqb]. rewrite !Hj, !Hs. reflexivity.
  - unfold focus_of, rgen_of, ib_of. pcbn. rewrite !Hj, !Hs. reflexivity.
Qed.

(* _complete_join: generation + 1; needs m_gen <= c_gen and the reply generation <= c_gen *)
Lemma absm_T_barrier : forall c c' m, c_st c' = CCompleting -> c_gen c' = S (c_gen c) -> c_pend c' = c_pend c ->
  c_ents c' = clear_jp (c_ents c) -> m_gen m <= c_gen c -> rgen_of m <= c_gen c ->
  absm c' (bcast [EvJoinDone (S (c_gen c))] m) = T_barrier (absm c m).
Proof.
  intros c c' m Hst Hg Hp He Hgen Hrg. destruct (waiting_abs c m) as [Wj _].
  unfold T_barrier. rewrite Wj. unfold bcast. cbn [fold_left bcast1].
  assert (Hj : forall x, ent_jp c' x = false) by (intros x; rewrite ent_jp_flag, He; apply (flag_clear x (c_ents c))).
  assert (Hs : forall x, ent_sp c' x = ent_sp c x) by (intros x; rewrite !ent_sp_flag, He; apply (flag_clear x (c_ents c))).
  assert (G1 : (m_gen m =? S (c_gen c)) = false) by (apply Nat.eqb_neq; lia).
  assert (G2 : (m_gen m <=? S (c_gen c)) = true) by (apply Nat.leb_le; lia).
  unfold absm. rewrite Hst, Hg, Hp, He, ids_clear_jp.
  destruct (waiting_join m) eqn:W.
  - unfold waiting_join in W. apply andb_true_iff in W. destruct W as [W1 W2].
    assert (P : m_ph m = PJoinSent) by (destruct (m_ph m); try discriminate; reflexivity).
    unfold focus_of, rgen_of, ib_of. pcbn. rewrite P. cbn [ph_eqb]. rewrite !Hj, !Hs, G1, G2, Nat.eqb_refl.
    replace (S (c_gen c) <=? S (c_gen c)) with true by (symmetry; apply Nat.leb_refl). reflexivity.
  - assert (R1 : (rgen_of m =? S (c_gen c)) = false) by (apply Nat.eqb_neq; lia).
    assert (R2 : (rgen_of m <=? S (c_gen c)) = true) by (apply Nat.leb_le; lia).
    unfold focus_of, ib_of. pcbn. rewrite !Hj, !Hs, G1, G2, R1, R2. reflexivity.
Qed.

(* ---- well-formedness of the coordinator after each operation ---- *)
Lemma forallb_clear_jp : forall es, forallb (fun e => negb (e_jp e)) (clear_jp es) = true.
Proof. induction es; [reflexivity | exact IHes]. Qed.
Lemma forallb_clear_sp : forall es, forallb (fun e => negb (e_sp e)) (clear_sp es) = true.
Proof. induction es; [reflexivity | exact IHes]. Qed.
Lemma forallb_jp_clear_sp : forall es, forallb (fun e => negb (e_jp e)) (clear_sp es) = forallb (fun e => negb (e_jp e)) es.
Proof. induction es as [|e r IH]; [reflexivity|]. cbn [clear_sp map forallb e_jp]. unfold clear_sp in IH. rewrite IH. reflexivity. Qed.
Lemma forallb_sp_clear_jp : forall es, forallb (fun e => negb (e_sp e)) (clear_jp es) = forallb (fun e => negb (e_sp e)) es.
Proof. induction es as [|e r IH]; [reflexivity|]. cbn [clear_jp map forallb e_sp]. unfold clear_jp in IH. rewrite IH. reflexivity. Qed.
Lemma all_joined_clear_sp : forall es, all_joined (clear_sp es) = all_joined es.
Proof. unfold all_joined. induction es as [|e r IH]; [reflexivity|]. cbn [clear_sp map forallb e_jp]. unfold clear_sp in IH. rewrite IH. reflexivity. Qed.
Lemma hd_clear_sp : forall es, is_none (hd_error (clear_sp es)) = is_none (hd_error es).
Proof. destruct es; reflexivity. Qed.
Lemma hd_clear_jp : forall es, is_none (hd_error (clear_jp es)) = is_none (hd_error es).
Proof. destruct es; reflexivity. Qed.

Lemma min_id_in : forall es, es <> [] -> In (min_id es) (ids es).
Proof.
  intros es H. unfold min_id. destruct (ids es) as [|x r] eqn:E; [destruct es; [congruence | discriminate]|].
  clear E H. revert x. induction r as [|y r IH]; intros x; [left; reflexivity|]. cbn [fold_left].
  destruct (IH (Nat.min x y)) as [E|E].
  - destruct (Nat.min_spec x y) as [[_ M]|[_ M]]; rewrite M in E |- *; [left | right; left]; exact E.
  - right. right. exact E.
Qed.

(* the id part of well-formedness *)
Definition tbl_ok (es : list entry) (pend : list nat) : Prop :=
  nodupb (ids es) = true /\ memb 0 (ids es) = false /\ memb 0 pend = false
  /\ forallb (fun x => negb (memb x (ids es))) pend = true.
Lemma tbl_of_wf : forall c, wf_c_facts c -> tbl_ok (c_ents c) (c_pend c).
Proof. intros c W. repeat split; [exact (wc_nodup c W) | exact (wc_0e c W) | exact (wc_0p c W) | exact (wc_pend c W)]. Qed.

Lemma wfc_prepare : forall G es pend ldr, tbl_ok es pend -> es <> [] -> all_joined es = false ->
  wf_c (mkC G CPreparing (clear_sp es) pend ldr) = true.
Proof.
  intros G es pend ldr (T1 & T2 & T3 & T4) Hne Hnj. apply wf_c_of_parts. constructor; cbn [c_gen c_st c_ents c_pend c_leader cstate_eqb negb orb].
  - rewrite ids_clear_sp. exact T1.
  - rewrite ids_clear_sp. exact T2.
  - exact T3.
  - rewrite ids_clear_sp. exact T4.
  - rewrite hd_clear_sp. destruct es; [congruence | reflexivity].
  - reflexivity.
  - reflexivity.
  - apply forallb_clear_sp.
  - rewrite all_joined_clear_sp, Hnj. reflexivity.
  - reflexivity.
  - unfold ent_sp. cbn [c_ents]. apply (find_ent_flag e_sp). apply forallb_clear_sp.
Qed.

Lemma wfc_complete : forall G es pend ldr, tbl_ok es pend -> es <> [] -> forallb (fun e => negb (e_sp e)) es = true ->
  wf_c (mkC (S G) CCompleting (clear_jp es) pend (if memb ldr (ids es) then ldr else min_id es)) = true.
Proof.
  intros G es pend ldr (T1 & T2 & T3 & T4) Hne Hsp. apply wf_c_of_parts. constructor; cbn [c_gen c_st c_ents c_pend c_leader cstate_eqb negb orb].
  - rewrite ids_clear_jp. exact T1.
  - rewrite ids_clear_jp. exact T2.
  - exact T3.
  - rewrite ids_clear_jp. exact T4.
  - rewrite hd_clear_jp. destruct es; [congruence | reflexivity].
  - reflexivity.
  - apply forallb_clear_jp.
  - reflexivity.
  - reflexivity.
  - rewrite ids_clear_jp. cbn [Nat.eqb andb negb]. rewrite andb_true_r.
    destruct (memb ldr (ids es)) eqn:E; [exact E|]. apply memb_In. apply min_id_in. exact Hne.
  - unfold ent_sp. cbn [c_ents]. apply (find_ent_flag e_sp). rewrite forallb_sp_clear_jp. exact Hsp.
Qed.

(* the leader's SyncGroup *)
Lemma wfc_syncdone : forall c, wf_c_facts c -> c_st c = CCompleting ->
  wf_c (mkC (c_gen c) CStable (clear_sp (c_ents c)) (c_pend c) (c_leader c)) = true.
Proof.
  intros c W Hst. apply wf_c_of_parts. pose proof (wc_leader c W) as Hl. pose proof (wc_jp c W) as Hj. pose proof (wc_nonempty c W) as Hn.
  rewrite Hst in Hl, Hj, Hn. cbn [cstate_eqb orb] in Hj, Hn.
  constructor; cbn [c_gen c_st c_ents c_pend c_leader cstate_eqb negb orb].
  - rewrite ids_clear_sp. exact (wc_nodup c W).
  - rewrite ids_clear_sp. exact (wc_0e c W).
  - exact (wc_0p c W).
  - rewrite ids_clear_sp. exact (wc_pend c W).
  - rewrite hd_clear_sp. exact Hn.
  - reflexivity.
  - rewrite forallb_jp_clear_sp. exact Hj.
  - apply forallb_clear_sp.
  - reflexivity.
  - rewrite ids_clear_sp. exact Hl.
  - unfold ent_sp. cbn [c_ents]. apply (find_ent_flag e_sp). apply forallb_clear_sp.
Qed.

(* ---- the table after a JoinGroup for the id x has been accepted ---- *)
Definition ents1 (es : list entry) (x : nat) : list entry :=
  if negb (memb x (ids es)) then es ++ [mkE x true false] else set_jp x true es.

Lemma ids_ents1 : forall es x, ids (ents1 es x) = if memb x (ids es) then ids es else ids es ++ [x].
Proof. intros es x. unfold ents1. destruct (memb x (ids es)); cbn [negb]; [apply ids_set_jp | rewrite ids_app; reflexivity]. Qed.
Lemma memb_ents1 : forall es x y, memb y (ids (ents1 es x)) = memb y (ids es) || (y =? x).
Proof.
  intros es x y. rewrite ids_ents1. destruct (memb x (ids es)) eqn:E.
  - destruct (Nat.eqb_spec y x) as [->|]; [rewrite E; reflexivity | rewrite orb_false_r; reflexivity].
  - rewrite memb_app. unfold memb at 2. cbn [existsb]. rewrite orb_false_r. reflexivity.
Qed.
Lemma flags_ents1 : forall es x y,
  flag_of e_jp y (ents1 es x) = (if y =? x then true else flag_of e_jp y es)
  /\ flag_of e_sp y (ents1 es x) = flag_of e_sp y es.
Proof.
  intros es x y. unfold ents1. destruct (memb x (ids es)) eqn:E; cbn [negb].
  - destruct (flag_set_jp x true y es) as [A B]. rewrite A, B. split; [|reflexivity].
    destruct (Nat.eqb_spec y x) as [->|]; [rewrite E; reflexivity | reflexivity].
  - rewrite !flag_app_new by exact E. cbn [e_id e_jp e_sp]. split; [reflexivity|].
    destruct (Nat.eqb_spec y x) as [->|]; [|reflexivity]. unfold flag_of. rewrite (find_ent_none x es E). reflexivity.
Qed.
Lemma nodupb_snoc : forall l x, nodupb l = true -> memb x l = false -> nodupb (l ++ [x]) = true.
Proof.
  induction l as [|a r IH]; intros x H Hx; [reflexivity|]. cbn [app nodupb] in *. apply andb_true_iff in H. destruct H as [H1 H2].
  unfold memb in Hx. cbn [existsb] in Hx. apply orb_false_iff in Hx. destruct Hx as [Hx1 Hx2].
  rewrite (IH x H2 Hx2), andb_true_r. rewrite memb_app. apply negb_true_iff in H1. rewrite H1. unfold memb. cbn [existsb].
  rewrite Nat.eqb_sym, Hx1. reflexivity.
Qed.

Lemma tbl_ents1 : forall es pend x, tbl_ok es pend -> x <> 0 -> tbl_ok (ents1 es x) (remove_id x pend).
Proof.
  intros es pend x (T1 & T2 & T3 & T4) Hx. unfold tbl_ok. rewrite ids_ents1. repeat split.
  - destruct (memb x (ids es)) eqn:E; [exact T1|]. apply nodupb_snoc; assumption.
  - destruct (memb x (ids es)); [exact T2|]. rewrite memb_app, T2. unfold memb. cbn [existsb]. destruct (Nat.eqb_spec 0 x); [congruence | reflexivity].
  - destruct (Nat.eq_dec 0 x) as [E|E]; [congruence|]. rewrite (memb_remove_other 0 x pend E). exact T3.
  - apply forallb_forall. intros p Hp. unfold remove_id in Hp. apply filter_In in Hp. destruct Hp as [Hp Hne].
    rewrite forallb_forall in T4. specialize (T4 p Hp). apply negb_true_iff in Hne. apply Nat.eqb_neq in Hne.
    destruct (memb x (ids es)); [exact T4|]. rewrite memb_app. apply negb_true_iff in T4. rewrite T4. unfold memb. cbn [existsb].
    destruct (Nat.eqb_spec p x); [congruence | reflexivity].
Qed.
Lemma ents1_nonempty : forall es x, ents1 es x <> [].
Proof.
  intros es x. unfold ents1. destruct (negb (memb x (ids es))) eqn:E.
  - destruct es; discriminate.
  - apply negb_false_iff in E. destruct es; [discriminate|]. unfold set_jp. discriminate.
Qed.
Lemma sp_ents1 : forall es x, forallb (fun e => negb (e_sp e)) es = true -> forallb (fun e => negb (e_sp e)) (ents1 es x) = true.
Proof.
  intros es x H. unfold ents1. destruct (negb (memb x (ids es))).
  - rewrite forallb_app, H. reflexivity.
  - unfold set_jp. rewrite forallb_forall in H |- *. intros e He. apply in_map_iff in He. destruct He as [e0 [<- H0]].
    destruct (e_id e0 =? x); [cbn [e_sp]|]; apply H; exact H0.
Qed.
