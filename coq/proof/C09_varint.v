(* C09_varint.v — the translated varint functions of aiokafka/record/util.py
   (gen/VarintEnc.v, VarintSize.v, VarintDec.v) against the specification of
   model/C09_Varint.v, and the round-trip / size laws of the specification. *)
From Coq Require Import ZArith List Bool Lia ZifyBool.
From Verif Require Import Imp ImpLemmas Bits C09Bytes C09_Varint VarintEnc VarintSize VarintDec.
Import ListNotations.
Open Scope Z_scope.
Ltac Zify.zify_post_hook ::= Z.to_euclidean_division_equations.

(* ---- bit operations on small ranges ---------------------------------------------------- *)
Lemma byte_cases (P : Z -> bool) :
  forallb P (map Z.of_nat (seq 0 256)) = true -> forall b, 0 <= b < 256 -> P b = true.
Proof.
  intros H b Hb. rewrite forallb_forall in H. apply H.
  apply in_map_iff. exists (Z.to_nat b). split; [lia|]. apply in_seq. lia.
Qed.

Lemma land129 b : 0 <= b < 256 -> (Z.land b 129 =? 0) = (b <? 128) && Z.even b.
Proof.
  intros Hb.
  apply (byte_cases (fun b => Bool.eqb (Z.land b 129 =? 0) ((b <? 128) && Z.even b))) in Hb;
    [|vm_compute; reflexivity].
  apply eqb_prop in Hb. exact Hb.
Qed.

Lemma land128 b : 0 <= b < 256 -> (Z.land b 128 =? 0) = (b <? 128).
Proof.
  intros Hb.
  apply (byte_cases (fun b => Bool.eqb (Z.land b 128 =? 0) (b <? 128))) in Hb;
    [|vm_compute; reflexivity].
  apply eqb_prop in Hb. exact Hb.
Qed.

Lemma lor128 r : 0 <= r < 128 -> Z.lor 128 r = 128 + r.
Proof.
  intros H. rewrite Z.lor_comm. change 128 with (1 * 2 ^ 7).
  rewrite lor_low_high by lia. lia.
Qed.

Lemma lor128_land x : Z.lor 128 (Z.land x 127) = 128 + x mod 128.
Proof. rewrite land_127. apply lor128. lia. Qed.

Lemma shiftr7 x : Z.shiftr x 7 = x / 128.
Proof. rewrite shiftr_div by lia. reflexivity. Qed.
Lemma shiftr14 x : Z.shiftr x 14 = x / 16384.
Proof. rewrite shiftr_div by lia. reflexivity. Qed.
Lemma shiftr21 x : Z.shiftr x 21 = x / 2097152.
Proof. rewrite shiftr_div by lia. reflexivity. Qed.
Lemma shiftr28 x : Z.shiftr x 28 = x / 268435456.
Proof. rewrite shiftr_div by lia. reflexivity. Qed.

(* ---- zig-zag ------------------------------------------------------------------------- *)
Lemma zigzag_bits v : int64 v -> Z.lxor (Z.shiftl v 1) (Z.shiftr v 63) = zigzag v.
Proof.
  unfold int64, INT64_MIN, INT64_MAX, zigzag. intros H.
  rewrite shiftl_mul, shiftr_div by lia. change (2 ^ 1) with 2. change (2 ^ 63) with 9223372036854775808.
  destruct (v <? 0) eqn:E.
  - replace (v / 9223372036854775808) with (-1) by lia.
    rewrite Z.lxor_m1_r. unfold Z.lnot. lia.
  - replace (v / 9223372036854775808) with 0 by lia. rewrite Z.lxor_0_r. lia.
Qed.

Lemma zigzag_range v : int64 v -> 0 <= zigzag v < TWO64.
Proof. unfold int64, INT64_MIN, INT64_MAX, zigzag, TWO64. intros H. destruct (v <? 0) eqn:E; lia. Qed.

Lemma unzigzag_zigzag v : unzigzag (zigzag v) = v.
Proof.
  unfold unzigzag, zigzag. destruct (v <? 0) eqn:E.
  - replace (Z.even (-2 * v - 1)) with false; [lia|].
    symmetry. rewrite <- Z.negb_odd. replace (-2 * v - 1) with (1 + 2 * (- v - 1)) by lia.
    rewrite Z.odd_add_mul_2. reflexivity.
  - replace (Z.even (2 * v)) with true; [lia|]. symmetry. rewrite Z.even_mul. reflexivity.
Qed.

Lemma unzigzag_bits u : 0 <= u -> Z.lxor (Z.shiftr u 1) (- Z.land u 1) = unzigzag u.
Proof.
  intros Hu. unfold unzigzag. rewrite shiftr_div by lia. change (2 ^ 1) with 2.
  change 1 with (Z.ones 1) at 1. rewrite Z.land_ones by lia. change (2 ^ 1) with 2.
  rewrite Zeven_mod.
  destruct (Zeq_bool (u mod 2) 0) eqn:E.
  - apply Zeq_bool_eq in E. rewrite E. cbn [Z.opp]. apply Z.lxor_0_r.
  - apply Zeq_bool_neq in E. replace (u mod 2) with 1 by lia.
    change (-(1)) with (-1). rewrite Z.lxor_m1_r. unfold Z.lnot. lia.
Qed.

(* ---- the specification: unfolding, size, round trip ---------------------------------------- *)
Lemma leb_enc_small f u : u < 128 -> leb_enc (S f) u = [u].
Proof. intros H. cbn [leb_enc]. replace (u <? 128) with true by lia. reflexivity. Qed.
Lemma leb_enc_big f u : 128 <= u -> leb_enc (S f) u = (128 + u mod 128) :: leb_enc f (u / 128).
Proof. intros H. cbn [leb_enc]. replace (u <? 128) with false by lia. reflexivity. Qed.

Lemma leb_size_len f : forall u, leb_size f u = blen (leb_enc f u).
Proof.
  induction f as [|f IH]; intros u; [reflexivity|].
  cbn [leb_size leb_enc]. destruct (u <? 128); [reflexivity|].
  rewrite blen_cons, IH. reflexivity.
Qed.

Theorem varint_size_len v : varint_size v = blen (varint_enc v).
Proof. apply leb_size_len. Qed.

Lemma leb_enc_wfb f : forall u, 0 <= u -> wfb (leb_enc f u).
Proof.
  induction f as [|f IH]; intros u Hu; [constructor|].
  cbn [leb_enc]. destruct (u <? 128) eqn:E.
  - constructor; [unfold wfbyte; lia|constructor].
  - constructor; [unfold wfbyte; lia|]. apply IH. lia.
Qed.

Lemma varint_enc_wfb v : wfb (varint_enc v).
Proof. apply leb_enc_wfb. unfold zigzag. destruct (v <? 0) eqn:E; lia. Qed.

Lemma leb_enc_nonempty f u : 0 <= u < 128 ^ Z.of_nat f -> (0 < f)%nat -> 1 <= blen (leb_enc f u).
Proof.
  intros Hu Hf. destruct f as [|f]; [lia|]. cbn [leb_enc].
  destruct (u <? 128); rewrite blen_cons; pose proof (blen_nonneg (leb_enc f (u / 128)));
    change (blen []) with 0; lia.
Qed.

Lemma leb_enc_len_le f : forall u, blen (leb_enc f u) <= Z.of_nat f.
Proof.
  induction f as [|f IH]; intros u; [cbn; lia|].
  cbn [leb_enc]. destruct (u <? 128).
  - rewrite blen_cons. change (blen []) with 0. lia.
  - rewrite blen_cons. specialize (IH (u / 128)). lia.
Qed.

Lemma pow128_succ n : 128 ^ Z.of_nat (S n) = 128 * 128 ^ Z.of_nat n.
Proof. rewrite Nat2Z.inj_succ, Z.pow_succ_r by lia. reflexivity. Qed.

(* decoding an encoding: u fits in f groups *)
Lemma leb_dec_enc f : forall u rest mul acc fuel,
  0 <= u < 128 ^ Z.of_nat f -> (f <= fuel)%nat -> (0 < f)%nat ->
  leb_dec fuel (leb_enc f u ++ rest) mul acc = Some (acc + u * mul, rest).
Proof.
  induction f as [|f IH]; intros u rest mul acc fuel Hu Hf Hpos; [lia|].
  destruct fuel as [|fuel]; [lia|].
  cbn [leb_enc]. destruct (u <? 128) eqn:E.
  - cbn [app leb_dec]. rewrite E. rewrite Z.mod_small by lia. reflexivity.
  - cbn [app leb_dec]. replace (128 + u mod 128 <? 128) with false by lia.
    rewrite pow128_succ in Hu.
    destruct f as [|f'].
    { change (128 ^ Z.of_nat 0) with 1 in Hu. lia. }
    rewrite IH by lia. f_equal. f_equal.
    replace ((128 + u mod 128) mod 128) with (u mod 128) by lia. lia.
Qed.

Theorem varint_dec_enc v rest : int64 v -> varint_dec (varint_enc v ++ rest) = Some (v, rest).
Proof.
  intros H. unfold varint_dec, varint_enc.
  pose proof (zigzag_range v H) as Hr.
  rewrite (leb_dec_enc 10) by (try lia; unfold TWO64 in Hr; change (128 ^ Z.of_nat 10) with 1180591620717411303424; lia).
  rewrite Z.add_0_l, Z.mul_1_r, unzigzag_zigzag. reflexivity.
Qed.

Lemma varint_enc_len_bounds v : int64 v -> 1 <= blen (varint_enc v) <= 10.
Proof.
  intros H. pose proof (zigzag_range v H) as Hr. unfold varint_enc. split.
  - apply leb_enc_nonempty; [|lia]. unfold TWO64 in Hr.
    change (128 ^ Z.of_nat 10) with 1180591620717411303424. lia.
  - apply (leb_enc_len_le 10).
Qed.

(* ---- translated size_of_varint_py ------------------------------------------------------- *)
Theorem size_py_spec v : int64 v -> VarintSize.py v = Ok (varint_size v).
Proof.
  intros H. pose proof (zigzag_range v H) as Hr.
  unfold VarintSize.py, VarintSize.run, VarintSize.body, VarintSize.init.
  cbv beta zeta delta [VarintSize.set_value VarintSize.v_value] iota.
  rewrite zigzag_bits by exact H. unfold varint_size.
  set (u := zigzag v) in *. unfold TWO64 in Hr.
  cbn [leb_size].
  repeat match goal with
  | |- context [seq_flow (if (?a <=? ?b) then _ else _) _] =>
      destruct (a <=? b) eqn:?; cbn [seq_flow fst snd finish];
      [ repeat match goal with |- context [if (?x <? 128) then _ else _] =>
          destruct (x <? 128) eqn:?; try lia end; f_equal; lia | ]
  end.
  cbn [finish snd].
  repeat match goal with |- context [if (?x <? 128) then _ else _] =>
          destruct (x <? 128) eqn:?; try lia end.
  f_equal; lia.
Qed.

(* ---- translated encode_varint_py ---------------------------------------------------------- *)
Import VarintEnc.

Lemma enc_loop n : forall fuel p q r i out,
  0 <= r < 128 -> 0 <= q < 128 ^ Z.of_nat n -> (n < fuel)%nat ->
  exists r' i' out',
    while_fuel fuel (L1_cond p) (L2_body p) (mk q r i out) = (mk 0 r' i' out', FNext)
    /\ out' ++ [r'] = out ++ leb_enc (S n) (q * 128 + r).
Proof.
  induction n as [|n IH]; intros fuel p q r i out Hr Hq Hf.
  - destruct fuel as [|fuel]; [lia|]. change (128 ^ Z.of_nat 0) with 1 in Hq.
    assert (q = 0) by lia. subst q. cbn [while_fuel].
    unfold L1_cond at 1. cbn [v_value]. cbn [Z.eqb negb].
    exists r, i, out. split; [reflexivity|].
    rewrite leb_enc_small by lia. replace (0 * 128 + r) with r by lia. reflexivity.
  - destruct fuel as [|fuel]; [lia|]. cbn [while_fuel].
    unfold L1_cond at 1. cbn [v_value].
    destruct (q =? 0) eqn:E.
    + cbn [negb]. assert (q = 0) by lia. subst q.
      exists r, i, out. split; [reflexivity|].
      rewrite leb_enc_small by lia. replace (0 * 128 + r) with r by lia. reflexivity.
    + cbn [negb]. unfold L2_body at 1.
      cbv beta zeta delta [set_out set_bits set_value set_i v_out v_bits v_value v_i] iota.
      cbn [snd fst].
      rewrite pow128_succ in Hq.
      destruct (IH fuel p (Z.shiftr q 7) (Z.land q 127) (i + 1) (out ++ [Z.lor 128 r]))
        as (r' & i' & out' & Hw & Ho).
      * rewrite land_127. lia.
      * rewrite shiftr7. lia.
      * lia.
      * exists r', i', out'. split; [exact Hw|].
        rewrite Ho. rewrite <- app_assoc. f_equal. cbn [app].
        rewrite lor128 by lia. rewrite shiftr7, land_127.
        rewrite (leb_enc_big (S n)) by lia.
        f_equal; [lia|]. f_equal. lia.
Qed.

Ltac norm := rewrite ?lor128_land, ?shiftr7, ?shiftr14, ?shiftr21, ?shiftr28, ?land_127.

Theorem enc_py_spec v : int64 v -> VarintEnc.post v = varint_enc v.
Proof.
  intros H. pose proof (zigzag_range v H) as Hr.
  unfold VarintEnc.post, VarintEnc.run, VarintEnc.body, VarintEnc.init.
  cbv beta zeta delta [set_out set_bits set_value set_i v_out v_bits v_value v_i] iota.
  rewrite zigzag_bits by exact H. unfold varint_enc.
  set (u := zigzag v) in *. unfold TWO64 in Hr.
  destruct (u <=? 127) eqn:E1.
  { cbn [seq_flow fst snd app]. norm. rewrite leb_enc_small by lia. reflexivity. }
  cbn [seq_flow fst snd].
  destruct (u <=? 16383) eqn:E2.
  { cbn [seq_flow fst snd app]. norm. rewrite leb_enc_big by lia. rewrite leb_enc_small by lia.
    reflexivity. }
  cbn [seq_flow fst snd].
  destruct (u <=? 2097151) eqn:E3.
  { cbn [seq_flow fst snd app]. norm. do 2 (rewrite leb_enc_big by lia). rewrite leb_enc_small by lia.
    repeat (f_equal; try lia). }
  cbn [seq_flow fst snd].
  destruct (u <=? 268435455) eqn:E4.
  { cbn [seq_flow fst snd app]. norm. do 3 (rewrite leb_enc_big by lia). rewrite leb_enc_small by lia.
    repeat (f_equal; try lia). }
  cbn [seq_flow fst snd].
  destruct (u <=? 34359738367) eqn:E5.
  { cbn [seq_flow fst snd app]. norm. do 4 (rewrite leb_enc_big by lia). rewrite leb_enc_small by lia.
    repeat (f_equal; try lia). }
  destruct (enc_loop 9 80 v (u / 128) (u mod 128) 0 []) as (r' & i' & out' & Hw & Ho);
    [lia | change (128 ^ Z.of_nat 9) with 9223372036854775808; lia | lia |].
  norm. rewrite Hw. cbn [seq_flow fst snd]. cbn [v_out v_bits].
  rewrite Ho. cbn [app]. f_equal. lia.
Qed.

(* the value returned by encode_varint_py: the number of bytes written for up to 5 bytes —
   for longer encodings the general loop returns one less (the value is not used by the
   builders, which measure the buffer) *)
Theorem enc_py_returns v : int64 v -> zigzag v <= 34359738367 ->
  VarintEnc.py v = Ok (blen (varint_enc v)).
Proof.
  intros H Hs. pose proof (zigzag_range v H) as Hr.
  unfold VarintEnc.py, VarintEnc.run, VarintEnc.body, VarintEnc.init.
  cbv beta zeta delta [set_out set_bits set_value set_i v_out v_bits v_value v_i] iota.
  rewrite zigzag_bits by exact H. unfold varint_enc.
  set (u := zigzag v) in *.
  destruct (u <=? 127) eqn:E1.
  { cbn [seq_flow fst snd finish]. rewrite leb_enc_small by lia. reflexivity. }
  cbn [seq_flow fst snd].
  destruct (u <=? 16383) eqn:E2.
  { cbn [seq_flow fst snd finish]. rewrite leb_enc_big by lia. rewrite leb_enc_small by lia.
    reflexivity. }
  cbn [seq_flow fst snd].
  destruct (u <=? 2097151) eqn:E3.
  { cbn [seq_flow fst snd finish]. do 2 (rewrite leb_enc_big by lia). rewrite leb_enc_small by lia.
    reflexivity. }
  cbn [seq_flow fst snd].
  destruct (u <=? 268435455) eqn:E4.
  { cbn [seq_flow fst snd finish]. do 3 (rewrite leb_enc_big by lia). rewrite leb_enc_small by lia.
    reflexivity. }
  cbn [seq_flow fst snd].
  destruct (u <=? 34359738367) eqn:E5; [|lia].
  cbn [seq_flow fst snd finish]. do 4 (rewrite leb_enc_big by lia). rewrite leb_enc_small by lia.
  reflexivity.
Qed.

(* ---- translated decode_varint_py ---------------------------------------------------------- *)
Import VarintDec.

Lemma index_mid_ok (pre : list Z) x r : py_index_ok (pre ++ x :: r) (blen pre) = true.
Proof.
  apply py_index_ok_true. unfold zlen, blen. rewrite app_length. cbn [List.length]. lia.
Qed.
Lemma index_mid (pre : list Z) x r : py_index 0 (pre ++ x :: r) (blen pre) = x.
Proof.
  rewrite py_index_nonneg by apply blen_nonneg. unfold blen. rewrite Nat2Z.id.
  rewrite app_nth2 by lia. rewrite Nat.sub_diag. reflexivity.
Qed.

Lemma while_step_ret {S R} (cond : S -> bool) (body : S -> S * flow R) f s s' r :
  cond s = true -> body s = (s', FRet r) -> while_fuel (Datatypes.S f) cond body s = (s', FRet r).
Proof. intros Hc Hb. cbn [while_fuel]. rewrite Hc, Hb. reflexivity. Qed.
Lemma while_step_next {S R} (cond : S -> bool) (body : S -> S * flow R) f s s' :
  cond s = true -> body s = (s', FNext) ->
  while_fuel (Datatypes.S f) cond body s = while_fuel f cond body s'.
Proof. intros Hc Hb. cbn [while_fuel]. rewrite Hc, Hb. reflexivity. Qed.

Ltac unfdec := cbv beta zeta delta [VarintDec.set_result VarintDec.set_pos VarintDec.set_shift
  VarintDec.set_b VarintDec.v_result VarintDec.v_pos VarintDec.v_shift VarintDec.v_b] iota.

Lemma dec_loop f : forall w pre0 rest acc shift fuel b0 p_pos,
  0 <= w < 128 ^ Z.of_nat f -> (0 < f)%nat -> (f <= fuel)%nat ->
  0 <= shift -> shift + 7 * Z.of_nat f <= 70 -> 0 <= acc < 2 ^ shift ->
  let buffer := pre0 ++ leb_enc f w ++ rest in
  exists s',
    while_fuel fuel (VarintDec.L1_cond buffer p_pos) (VarintDec.L2_body buffer p_pos)
               (VarintDec.mk acc (blen pre0) shift b0)
    = (s', FRet (unzigzag (acc + w * 2 ^ shift), blen pre0 + blen (leb_enc f w))).
Proof.
  induction f as [|f IH]; intros w pre0 rest acc shift fuel b0 p_pos Hw Hf Hfuel Hs Hs70 Hacc buffer; [lia|].
  destruct fuel as [|fuel]; [lia|].
  assert (HM : 0 < 2 ^ shift) by (apply Z.pow_pos_nonneg; lia).
  subst buffer. cbn [leb_enc]. destruct (w <? 128) eqn:E.
  - (* last group *)
    eexists. apply while_step_ret; [reflexivity|].
    unfold VarintDec.L2_body. unfdec.
    cbn [app]. rewrite index_mid_ok, index_mid.
    replace (0 <=? shift) with true by lia.
    rewrite land128 by lia. rewrite E. cbn [negb seq_flow fst snd].
    rewrite land_127, shiftl_mul by lia. rewrite Z.mod_small by lia.
    rewrite lor_low_high by lia.
    rewrite unzigzag_bits by nia.
    rewrite blen_cons. change (blen []) with 0. rewrite Z.add_0_r. reflexivity.
  - (* continuation *)
    rewrite pow128_succ in Hw.
    destruct f as [|f'].
    { change (128 ^ Z.of_nat 0) with 1 in Hw. lia. }
    specialize (IH (w / 128) (pre0 ++ [128 + w mod 128]) rest (acc + w mod 128 * 2 ^ shift)
                   (shift + 7) fuel (128 + w mod 128) p_pos).
    cbv zeta in IH. rewrite <- app_assoc in IH. cbn [app] in IH.
    rewrite blen_app in IH. change (blen [128 + w mod 128]) with 1 in IH.
    destruct IH as (s' & Hs'); try lia.
    { rewrite Z.pow_add_r by lia. change (2 ^ 7) with 128. nia. }
    exists s'.
    erewrite while_step_next; [| reflexivity |].
    2:{ unfold VarintDec.L2_body. unfdec.
        cbn [app]. rewrite index_mid_ok, index_mid.
        replace (0 <=? shift) with true by lia.
        rewrite land128 by lia.
        replace (128 + w mod 128 <? 128) with false by lia. cbn [negb seq_flow fst snd].
        replace (64 <=? shift + 7) with false by lia.
        rewrite land_127, shiftl_mul by lia.
        replace ((128 + w mod 128) mod 128) with (w mod 128) by lia.
        rewrite lor_low_high by lia. reflexivity. }
    cbn [app]. rewrite Hs'. f_equal. f_equal. f_equal.
    + f_equal. rewrite Z.pow_add_r by lia. change (2 ^ 7) with 128. nia.
    + rewrite blen_cons. lia.
Qed.

Theorem dec_py_spec v pre rest : int64 v ->
  VarintDec.py (pre ++ varint_enc v ++ rest) (blen pre)
  = Ok (v, blen pre + blen (varint_enc v)).
Proof.
  intros H. pose proof (zigzag_range v H) as Hr. unfold TWO64 in Hr.
  unfold varint_enc. set (u := zigzag v) in *.
  assert (Hv : v = unzigzag u) by (subst u; symmetry; apply unzigzag_zigzag).
  unfold VarintDec.py, VarintDec.run, VarintDec.body, VarintDec.init. unfdec.
  destruct (u <? 128) eqn:E.
  - rewrite leb_enc_small by lia. cbn [app].
    rewrite index_mid_ok, index_mid.
    rewrite land129 by lia. rewrite E. cbn [andb].
    destruct (Z.even u) eqn:Ev.
    + cbn [negb seq_flow fst snd finish]. rewrite Hv. unfold unzigzag. rewrite Ev.
      rewrite shiftr_div by lia. change (2 ^ 1) with 2.
      rewrite blen_cons. reflexivity.
    + cbn [negb seq_flow fst snd]. unfdec. rewrite land128 by lia. rewrite E.
      cbn [negb seq_flow fst snd finish]. rewrite Hv. unfold unzigzag. rewrite Ev.
      rewrite shiftr_div by lia. change (2 ^ 1) with 2.
      change (Z.lnot 0) with (-1). rewrite Z.lxor_m1_r. unfold Z.lnot.
      rewrite blen_cons. f_equal. f_equal.
      rewrite <- Z.negb_odd in Ev. apply negb_false_iff in Ev.
      rewrite Zodd_mod in Ev. apply Zeq_bool_eq in Ev. lia.
  - rewrite leb_enc_big by lia. cbn [app].
    rewrite index_mid_ok, index_mid.
    rewrite land129 by lia.
    replace (128 + u mod 128 <? 128) with false by lia. cbn [andb negb seq_flow fst snd]. unfdec.
    rewrite land128 by lia.
    replace (128 + u mod 128 <? 128) with false by lia. cbn [andb negb seq_flow fst snd]. unfdec.
    rewrite land_127. replace ((128 + u mod 128) mod 128) with (u mod 128) by lia.
    pose proof (dec_loop 9 (u / 128) (pre ++ [128 + u mod 128]) rest (u mod 128) 7 11 0 (blen pre)) as L.
    cbv zeta in L. rewrite <- app_assoc in L. cbn [app] in L.
    rewrite blen_app in L. change (blen [128 + u mod 128]) with 1 in L.
    destruct L as (s' & Hs'); try lia.
    rewrite Hs'. cbn [finish snd]. rewrite Hv. f_equal. f_equal.
    + f_equal. change (2 ^ 7) with 128. lia.
    + rewrite blen_cons. lia.
Qed.
