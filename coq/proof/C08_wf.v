(* C08_wf.v — what every constructed log satisfies (invariant of [build]) and the facts the
   filter proofs use: batches sorted and disjoint, every transactional batch belongs to
   exactly one transaction of its producer, markers sit where their transaction ends. *)
From Coq Require Import ZArith List Bool Lia ZifyBool Sorted.
From Verif Require Import Imp C08_Log.
Import ListNotations.
Open Scope Z_scope.
Ltac Zify.zify_post_hook ::= Z.to_euclidean_division_equations.

(* ------------------------------------------------------------------------------------------ *)
(** * Shape of batches *)

(* record offsets strictly increasing inside [lo, hi] *)
Fixpoint recs_ok (lo hi : Z) (rs : list rec) : Prop :=
  match rs with
  | [] => True
  | r :: rs' => lo <= r_off r <= hi /\ recs_ok (r_off r + 1) hi rs'
  end.

Definition batch_ok (b : batch) : Prop :=
  0 <= b_base b <= b_last b /\
  recs_ok (b_base b) (b_last b) (b_recs b) /\
  (b_ctl b = true -> b_last b = b_base b /\ exists tag, b_recs b = [mkrec (b_base b) tag]).

(* newest first; every batch ends below the fence, the rest below its base *)
Fixpoint rbs_ok (fence : Z) (l : list batch) : Prop :=
  match l with
  | [] => 0 <= fence
  | b :: l' => batch_ok b /\ b_last b < fence /\ rbs_ok (b_base b) l'
  end.

Record inv (s : lstate) : Prop := mkinv {
  i_bs : rbs_ok (leo s) (rbs s);
  i_open_range : forall p fo, In (p, fo) (opn s) -> 0 <= fo < leo s;
  i_open_nodup : NoDup (map fst (opn s));
  i_done_range : forall t, In t (dne s) -> 0 <= t_first t < t_last t /\ t_last t < leo s;
  i_done_marker : forall t, In t (dne s) ->
      In (marker_batch (t_last t) (t_pid t) (t_commit t)) (rbs s);
  i_done_disj : forall t1 t2, In t1 (dne s) -> In t2 (dne s) -> t_pid t1 = t_pid t2 ->
      t1 = t2 \/ t_last t1 < t_first t2 \/ t_last t2 < t_first t1;
  i_open_after : forall t fo, In t (dne s) -> In (t_pid t, fo) (opn s) -> t_last t < fo;
  i_cover : forall b, In b (rbs s) -> is_data_txn b = true ->
      (exists t, In t (dne s) /\ spans t b = true) \/
      (exists fo, In (b_pid b, fo) (opn s) /\ fo <= b_base b);
  i_ctl : forall b, In b (rbs s) -> b_ctl b = true ->
      (forall t, In t (dne s) -> t_pid t = b_pid b -> t_first t <= b_base b ->
                 t_last t <= b_base b) /\
      (forall fo, In (b_pid b, fo) (opn s) -> b_base b < fo)
}.

(* ------------------------------------------------------------------------------------------ *)
(** * Small facts *)

Lemma rbs_ok_fence : forall l fence, rbs_ok fence l -> 0 <= fence.
Proof.
  induction l as [|b l IH]; cbn; intros fence H; [exact H|].
  destruct H as ((B & _) & L & R). specialize (IH _ R). lia.
Qed.

Lemma rbs_ok_mono : forall l f1 f2, rbs_ok f1 l -> f1 <= f2 -> rbs_ok f2 l.
Proof. destruct l; cbn; intros; [lia|intuition lia]. Qed.

Lemma rbs_ok_in : forall l fence b, rbs_ok fence l -> In b l -> batch_ok b /\ b_last b < fence.
Proof.
  induction l as [|x l IH]; cbn; intros fence b H I; [contradiction|].
  destruct H as (B & L & R). destruct I as [->|I]; [auto|].
  destruct (IH _ _ R I) as (B' & L'). destruct B as ((? & ?) & _). split; [auto|lia].
Qed.

Lemma find_open_some : forall p o fo, find_open p o = Some fo -> In (p, fo) o.
Proof.
  unfold find_open. intros p o fo H.
  destruct (find (fun e => fst e =? p) o) as [e|] eqn:E; [|discriminate].
  injection H as <-. apply find_some in E. destruct E as (I & Q). destruct e as [a b].
  cbn in *. assert (a = p) by lia. subst. exact I.
Qed.

Lemma find_open_none : forall p o fo, find_open p o = None -> ~ In (p, fo) o.
Proof.
  unfold find_open. intros p o fo H I.
  destruct (find (fun e => fst e =? p) o) as [e|] eqn:E; [discriminate|].
  pose proof (find_none _ _ E _ I) as N. cbn in N. lia.
Qed.

Lemma remove_open_in : forall p o q fo, In (q, fo) (remove_open p o) <-> In (q, fo) o /\ q <> p.
Proof.
  intros. unfold remove_open. rewrite filter_In. cbn. split; intros (A & B); split; auto; lia.
Qed.

Lemma remove_open_nodup : forall p o, NoDup (map fst o) -> NoDup (map fst (remove_open p o)).
Proof.
  induction o as [|e o IH]; cbn; intros H; [constructor|].
  inversion H as [|x l N D]; subst.
  destruct (negb (fst e =? p)); cbn; [|auto].
  constructor; [|auto]. intros I. apply N.
  apply in_map_iff in I. destruct I as (e' & F & I). apply in_map_iff. exists e'. split; auto.
  unfold remove_open in I. apply filter_In in I. tauto.
Qed.

Lemma nodup_fst_unique : forall (o : list (Z * Z)) p a b,
  NoDup (map fst o) -> In (p, a) o -> In (p, b) o -> a = b.
Proof.
  induction o as [|e o IH]; cbn; intros p a b N Ia Ib; [contradiction|].
  inversion N as [|x l Nx D]; subst.
  destruct Ia as [->|Ia], Ib as [E|Ib].
  - congruence.
  - exfalso. apply Nx. cbn. apply in_map_iff. exists (p, b). auto.
  - exfalso. apply Nx. subst e. cbn. apply in_map_iff. exists (p, a). auto.
  - eauto.
Qed.

Lemma deltas_recs_ok : forall ks lo n o,
  deltas_ok lo n ks = true -> 0 <= lo ->
  recs_ok (o + lo) (o + n - 1) (map (fun k => mkrec (o + fst k) (snd k)) ks).
Proof.
  induction ks as [|k ks IH]; cbn; intros lo n o H L; [exact I|].
  apply andb_prop in H. destruct H as (H1 & H2). apply andb_prop in H1. destruct H1 as (H0 & H1).
  split; [lia|]. replace (o + fst k + 1) with (o + (fst k + 1)) by lia. apply IH; [auto|lia].
Qed.

(* ------------------------------------------------------------------------------------------ *)
(** * The invariant holds for every constructed log *)

Lemma inv_empty : inv empty_log.
Proof.
  constructor; cbn; try (intros; contradiction); try lia. constructor.
Qed.

Lemma spans_data_batch_later : forall t o p tx n ks,
  t_last t < o -> spans t (data_batch o p tx n ks) = false.
Proof. intros. unfold spans, data_batch. cbn. lia. Qed.

Lemma inv_step : forall s o, inv s -> valid_op o = true -> inv (apply_op s o).
Proof.
  intros s o H V. destruct H as [Hbs Hor Hnd Hdr Hdm Hdd Hoa Hcov Hctl].
  pose proof (rbs_ok_fence _ _ Hbs) as Hleo.
  destruct o as [p tx n kept | p c].
  - (* data batch *)
    cbn in V. apply andb_prop in V. destruct V as (Vn & Vk).
    assert (Hn : 1 <= n) by lia.
    set (opn' := if tx then match find_open p (opn s) with
                            | Some _ => opn s | None => (p, leo s) :: opn s end
                 else opn s).
    assert (Hsub : forall e, In e (opn s) -> In e opn').
    { intros e I. unfold opn'. destruct tx; [|exact I].
      destruct (find_open p (opn s)); [exact I|right; exact I]. }
    assert (Hnew : forall q fo, In (q, fo) opn' ->
                   In (q, fo) (opn s) \/ (q = p /\ fo = leo s /\ tx = true /\
                                          find_open p (opn s) = None)).
    { intros q fo I. unfold opn' in I. destruct tx; [|auto].
      destruct (find_open p (opn s)) eqn:E; [auto|].
      destruct I as [I|I]; [injection I as <- <-; right; auto|auto]. }
    assert (Hbs' : rbs_ok (leo s + n)
                     match kept with None => rbs s
                                | Some ks => data_batch (leo s) p tx n ks :: rbs s end).
    { destruct kept as [ks|].
      - cbn [rbs_ok]. split; [|split].
        + unfold batch_ok, data_batch. cbn. split; [lia|]. split; [|discriminate].
          pose proof (deltas_recs_ok ks 0 n (leo s) Vk ltac:(lia)) as R.
          replace (leo s + 0) with (leo s) in R by lia. exact R.
        + unfold data_batch. cbn. lia.
        + unfold data_batch. cbn. exact Hbs.
      - eapply rbs_ok_mono; [exact Hbs|lia]. }
    constructor; cbn [apply_op leo rbs opn dne]; fold opn'.
    + exact Hbs'.
    + intros q fo I. destruct (Hnew _ _ I) as [I'|(-> & -> & _)]; [|lia].
      specialize (Hor _ _ I'). lia.
    + unfold opn'. destruct tx; [|exact Hnd].
      destruct (find_open p (opn s)) eqn:E; [exact Hnd|].
      cbn. constructor; [|exact Hnd]. intros I. apply in_map_iff in I.
      destruct I as ((q & fo) & F & I). cbn in F. subst q.
      exact (find_open_none _ _ fo E I).
    + intros t I. specialize (Hdr _ I). lia.
    + intros t I. specialize (Hdm _ I). destruct kept; [right|]; exact Hdm.
    + exact Hdd.
    + intros t fo I J. destruct (Hnew _ _ J) as [J'|(_ & -> & _)]; [eauto|].
      specialize (Hdr _ I). lia.
    + intros b I D.
      assert (Iold : In b (rbs s) -> (exists t, In t (dne s) /\ spans t b = true) \/
                                     (exists fo, In (b_pid b, fo) opn' /\ fo <= b_base b)).
      { intros I'. destruct (Hcov _ I' D) as [?|(fo & J & L)]; [left; auto|].
        right. exists fo. split; [apply Hsub; exact J|exact L]. }
      destruct kept as [ks|]; [|auto]. destruct I as [<-|I]; [|auto].
      right. unfold is_data_txn, data_batch in D. cbn in D.
      assert (tx = true) by (destruct tx; cbn in D; congruence). subst tx.
      unfold opn'. cbn [b_pid b_base data_batch].
      destruct (find_open p (opn s)) as [fo|] eqn:E.
      * exists fo. split; [apply find_open_some; exact E|].
        specialize (Hor _ _ (find_open_some _ _ _ E)). lia.
      * exists (leo s). split; [left; reflexivity|lia].
    + intros b I C.
      assert (Iold : In b (rbs s)).
      { destruct kept as [ks|]; [|exact I]. destruct I as [<-|I]; [|exact I].
        unfold data_batch in C. cbn in C. discriminate. }
      destruct (Hctl _ Iold C) as (A & B). split; [exact A|].
      intros fo J. destruct (Hnew _ _ J) as [J'|(_ & -> & _)]; [auto|].
      destruct (rbs_ok_in _ _ _ Hbs Iold) as ((? & ?) & ?). lia.
  - (* marker *)
    set (b := marker_batch (leo s) p c).
    assert (Bok : batch_ok b).
    { unfold batch_ok, b, marker_batch. cbn. split; [lia|]. split; [lia|].
      intros _. split; [reflexivity|eexists; reflexivity]. }
    assert (Hbs' : rbs_ok (leo s + 1) (b :: rbs s)).
    { cbn [rbs_ok]. split; [exact Bok|]. split; [unfold b, marker_batch; cbn; lia|].
      unfold b, marker_batch. cbn. exact Hbs. }
    cbn [apply_op]. fold b.
    destruct (find_open p (opn s)) as [fo|] eqn:E.
    + (* ends the open transaction of p *)
      pose proof (find_open_some _ _ _ E) as Io.
      pose proof (Hor _ _ Io) as Rfo.
      constructor; cbn [leo rbs opn dne].
      * exact Hbs'.
      * intros q fo' I. apply remove_open_in in I. destruct I as (I & _).
        specialize (Hor _ _ I). lia.
      * apply remove_open_nodup. exact Hnd.
      * intros t [<-|I]; cbn; [lia|]. specialize (Hdr _ I). lia.
      * intros t [<-|I]; cbn; [left; reflexivity|right; auto].
      * intros t1 t2 [<-|I1] [<-|I2] P; cbn in *; auto.
        -- right. right. subst p. exact (Hoa _ _ I2 Io).
        -- right. left. rewrite <- P in Io. exact (Hoa _ _ I1 Io).
      * intros t fo' [<-|I] J; cbn in *.
        -- apply remove_open_in in J. destruct J as (_ & N). congruence.
        -- apply remove_open_in in J. destruct J as (J & _). eauto.
      * intros b0 [<-|I] D.
        -- unfold is_data_txn, b, marker_batch in D. cbn in D. discriminate.
        -- destruct (Hcov _ I D) as [(t & It & S)|(fo' & J & L)].
           ++ left. exists t. split; [right; exact It|exact S].
           ++ destruct (Z.eq_dec (b_pid b0) p) as [Ep|Np].
              ** left. exists (mktxn p fo (leo s) c). split; [left; reflexivity|].
                 rewrite Ep in J. pose proof (nodup_fst_unique _ _ _ _ Hnd J Io). subst fo'.
                 destruct (rbs_ok_in _ _ _ Hbs I) as ((? & ?) & ?).
                 unfold spans. cbn. lia.
              ** right. exists fo'. split; [|exact L]. apply remove_open_in. auto.
      * intros b0 [<-|I] C.
        -- unfold b, marker_batch. cbn. split.
           ++ intros t [<-|It] P F; cbn in *; [lia|]. specialize (Hdr _ It). lia.
           ++ intros fo' J. apply remove_open_in in J. destruct J as (_ & N). congruence.
        -- destruct (Hctl _ I C) as (A & B). split.
           ++ intros t [<-|It] P F; cbn in *; [|auto].
              subst p. specialize (B _ Io). lia.
           ++ intros fo' J. apply remove_open_in in J. destruct J as (J & _). auto.
    + (* solitary marker *)
      constructor; cbn [leo rbs opn dne].
      * exact Hbs'.
      * intros q fo' I. specialize (Hor _ _ I). lia.
      * exact Hnd.
      * intros t I. specialize (Hdr _ I). lia.
      * intros t I. right. auto.
      * exact Hdd.
      * exact Hoa.
      * intros b0 [<-|I] D.
        -- unfold is_data_txn, b, marker_batch in D. cbn in D. discriminate.
        -- auto.
      * intros b0 [<-|I] C.
        -- unfold b, marker_batch. cbn. split.
           ++ intros t It P F. specialize (Hdr _ It). lia.
           ++ intros fo' J. exfalso. exact (find_open_none _ _ fo' E J).
        -- auto.
Qed.

Lemma inv_fold : forall ops s, inv s -> forallb valid_op ops = true -> inv (fold_left apply_op ops s).
Proof.
  induction ops as [|o ops IH]; cbn; intros s H V; [exact H|].
  apply andb_prop in V. destruct V as (V1 & V2). apply IH; [apply inv_step; auto|exact V2].
Qed.

Theorem build_inv : forall ops, forallb valid_op ops = true -> inv (build ops).
Proof. intros. apply inv_fold; [apply inv_empty|assumption]. Qed.

(* ------------------------------------------------------------------------------------------ *)
(** * Consequences used by the filter proofs *)

Definition before (a b : batch) : Prop := b_last a < b_base b.

Lemma rbs_ok_sorted : forall l fence, rbs_ok fence l ->
  StronglySorted before (rev l) /\ Forall (fun b => b_last b < fence) (rev l).
Proof.
  induction l as [|b l IH]; cbn [rev rbs_ok]; intros fence H.
  - split; constructor.
  - destruct H as (B & L & R). destruct (IH _ R) as (S & F). split.
    + clear IH. revert S F. generalize (rev l) as m. induction m as [|x m IHm]; intros S F.
      * cbn. constructor; constructor.
      * cbn. inversion S as [|? ? Sm Fx]; subst. inversion F as [|? ? Hx Fm]; subst. constructor.
        -- apply IHm; auto.
        -- apply Forall_app. split; [auto|]. constructor; [|constructor]. exact Hx.
    + apply Forall_app. split.
      * eapply Forall_impl; [|exact F]. cbn. intros a Ha. destruct B as ((? & ?) & _). lia.
      * constructor; [exact L|constructor].
Qed.

Section Facts.
  Variable s : lstate.
  Hypothesis H : inv s.

  Lemma batches_sorted : StronglySorted before (batches s).
  Proof. exact (proj1 (rbs_ok_sorted _ _ (i_bs s H))). Qed.

  Lemma batches_in : forall b, In b (batches s) <-> In b (rbs s).
  Proof. intros. unfold batches. symmetry. apply in_rev. Qed.

  Lemma batch_in_ok : forall b, In b (batches s) -> batch_ok b /\ b_last b < leo s.
  Proof. intros b I. apply batches_in in I. exact (rbs_ok_in _ _ _ (i_bs s H) I). Qed.

  (* two batches of the log with the same base offset are the same batch *)
  Lemma same_base_same_batch : forall a b,
    In a (batches s) -> In b (batches s) -> b_base a = b_base b -> a = b.
  Proof.
    pose proof batches_sorted as S. intros a b.
    assert (G : forall l, StronglySorted before l -> (forall x, In x l -> b_base x <= b_last x) ->
                In a l -> In b l -> b_base a = b_base b -> a = b).
    { induction l as [|x l IH]; intros Sl Ok Ia Ib E; [contradiction|].
      inversion Sl as [|y m Sm Fm]; subst.
      rewrite Forall_forall in Fm.
      assert (Ok' : forall x0, In x0 l -> b_base x0 <= b_last x0) by (intros; apply Ok; right; auto).
      destruct Ia as [<-|Ia], Ib as [<-|Ib]; auto.
      - specialize (Fm _ Ib). unfold before in Fm. specialize (Ok x (or_introl eq_refl)). lia.
      - specialize (Fm _ Ia). unfold before in Fm. specialize (Ok x (or_introl eq_refl)). lia. }
    intros Ia Ib. apply (G (batches s)); auto.
    intros x Ix. destruct (batch_in_ok _ Ix) as (((? & ?) & _) & _). lia.
  Qed.

  (* at most one finished transaction of a producer contains a given offset *)
  Lemma spans_unique : forall t1 t2 b,
    In t1 (dne s) -> In t2 (dne s) -> spans t1 b = true -> spans t2 b = true -> t1 = t2.
  Proof.
    intros t1 t2 b I1 I2 S1 S2. unfold spans in *.
    destruct (i_done_disj s H t1 t2 I1 I2) as [E|[L|L]]; [lia|exact E|lia|lia].
  Qed.

  (* a finished transaction is identified by (producer id, first offset) *)
  Lemma txn_key_unique : forall t1 t2,
    In t1 (dne s) -> In t2 (dne s) -> t_pid t1 = t_pid t2 -> t_first t1 = t_first t2 -> t1 = t2.
  Proof.
    intros t1 t2 I1 I2 P F.
    destruct (i_done_disj s H t1 t2 I1 I2 P) as [E|[L|L]]; [exact E| |].
    - pose proof (i_done_range s H _ I1). lia.
    - pose proof (i_done_range s H _ I2). lia.
  Qed.

  Lemma lso_le_open : forall p fo, In (p, fo) (opn s) -> lso s <= fo.
  Proof.
    unfold lso. intros p fo I. apply (in_map snd) in I. cbn in I.
    revert I. generalize (map snd (opn s)). induction l as [|x l IH]; cbn; [contradiction|].
    intros [->|I]; [lia|]. specialize (IH I). lia.
  Qed.

  Lemma lso_le_leo : lso s <= leo s.
  Proof. unfold lso. induction (map snd (opn s)); cbn; lia. Qed.

  (* below the last stable offset no batch belongs to an open transaction *)
  Lemma below_lso_not_open : forall b, In b (batches s) -> b_last b < lso s -> in_open s b = false.
  Proof.
    intros b I L. unfold in_open. destruct (is_data_txn b); [cbn|reflexivity].
    apply not_true_is_false. intros E. apply existsb_exists in E.
    destruct E as ((p & fo) & J & C). cbn in C.
    assert (p = b_pid b) by lia. subst p. pose proof (lso_le_open _ _ J).
    destruct (batch_in_ok _ I) as (((? & ?) & _) & _). lia.
  Qed.

  (* every transactional data batch is in exactly one of the three states *)
  Lemma txn_trichotomy : forall b, In b (batches s) -> is_data_txn b = true ->
    (committed s b = true /\ aborted s b = false /\ in_open s b = false) \/
    (committed s b = false /\ aborted s b = true /\ in_open s b = false) \/
    (committed s b = false /\ aborted s b = false /\ in_open s b = true).
  Proof.
    intros b I D. unfold committed, aborted, in_open. rewrite D. cbn [andb].
    assert (NoBoth : forall t fo, In t (dne s) -> spans t b = true ->
                     In (b_pid b, fo) (opn s) -> fo <= b_base b -> False).
    { intros t fo It S J L. unfold spans in S.
      assert (P : t_pid t = b_pid b) by lia. rewrite <- P in J.
      pose proof (i_open_after s H _ _ It J). pose proof (i_done_range s H _ It). lia. }
    destruct (i_cover s H b (proj1 (batches_in b) I) D) as [(t & It & S)|(fo & J & L)].
    - assert (Op : existsb (fun e => (fst e =? b_pid b) && (snd e <=? b_base b)) (opn s) = false).
      { apply not_true_is_false. intros E. apply existsb_exists in E.
        destruct E as ((p & fo) & J & C). cbn in C. assert (p = b_pid b) by lia. subst p.
        apply (NoBoth t fo It S J). lia. }
      rewrite Op. destruct (t_commit t) eqn:C.
      + left. split; [|split; [|reflexivity]].
        * apply existsb_exists. exists t. split; [exact It|]. rewrite S, C. reflexivity.
        * apply not_true_is_false. intros E. apply existsb_exists in E.
          destruct E as (t' & It' & C'). apply andb_prop in C'. destruct C' as (S' & N').
          rewrite (spans_unique t' t b It' It S' S) in N'. rewrite C in N'. discriminate.
      + right. left. split; [|split; [|reflexivity]].
        * apply not_true_is_false. intros E. apply existsb_exists in E.
          destruct E as (t' & It' & C'). apply andb_prop in C'. destruct C' as (S' & N').
          rewrite (spans_unique t' t b It' It S' S) in N'. rewrite C in N'. discriminate.
        * apply existsb_exists. exists t. split; [exact It|]. rewrite S, C. reflexivity.
    - right. right.
      assert (No : forall c, existsb (fun t => spans t b && c t) (dne s) = false).
      { intros c. apply not_true_is_false. intros E. apply existsb_exists in E.
        destruct E as (t & It & C). apply andb_prop in C. destruct C as (S & _).
        exact (NoBoth t fo It S J L). }
      rewrite (No (fun t => t_commit t)), (No (fun t => negb (t_commit t))).
      split; [reflexivity|split; [reflexivity|]].
      apply existsb_exists. exists (b_pid b, fo). split; [exact J|]. cbn. lia.
  Qed.

  (* below the LSO: committed = not aborted *)
  Lemma below_lso_committed : forall b, In b (batches s) -> b_last b < lso s ->
    is_data_txn b = true -> committed s b = negb (aborted s b).
  Proof.
    intros b I L D. pose proof (below_lso_not_open b I L) as O.
    destruct (txn_trichotomy b I D) as [(A & B & C)|[(A & B & C)|(A & B & C)]];
      rewrite ?A, ?B in *; try reflexivity. congruence.
  Qed.
End Facts.
