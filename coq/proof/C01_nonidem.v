(* C01_nonidem.v — without idempotence duplicates are whole re-sent batches, in order *)
From Coq Require Import ZArith List Bool Lia.
From Verif Require Import Imp Producer C01_proof.
Import ListNotations.

Lemma stut_snoc : forall bs ks b k, length bs = length ks ->
  stut (bs ++ [b]) (ks ++ [k]) = stut bs ks ++ repeat b k.
Proof.
  induction bs as [|x bs IH]; intros ks b k Hl; destruct ks as [|y ks]; cbn in Hl; try discriminate.
  - cbn. rewrite app_nil_r. reflexivity.
  - cbn [app stut]. rewrite IH by lia. rewrite app_assoc. reflexivity.
Qed.

Lemma repeat_snoc {A} (a : A) n : repeat a (S n) = repeat a n ++ [a].
Proof. cbn [repeat]. apply repeat_cons. Qed.

Record NInv (s : nst) : Prop := {
  n_stut : exists ks, length ks = length (ndr s) /\ nlog s = stut (ndr s) ks;
  n_pend : forall b l, npend s = Some (b, l) -> exists pre, ndr s = pre ++ [b];
  n_recs : exists rest, naccepted s = concat (ndr s) ++ rest /\
           rest = concat (nuq s)
}.

Lemma ninv_init : NInv ninit.
Proof.
  constructor; cbn.
  - exists []. split; reflexivity.
  - intros; discriminate.
  - exists []. split; reflexivity.
Qed.

Lemma nstep_inv s e s' : NInv s -> nstep s e = Some s' -> NInv s'.
Proof.
  intros [(ks & Hk & Hs) Hp (rest & Hr & Hq)] H.
  destruct s as [q pd lg dr ac]. cbn [nuq npend nlog ndr naccepted] in *.
  destruct e; cbn [nstep nuq npend nlog ndr naccepted] in H.
  - assert (G : forall q', concat q' = concat q ++ [r] ->
              NInv (mkN q' pd lg dr (ac ++ [r]))).
    { intros q' Hc. constructor; cbn.
      - exists ks. tauto.
      - exact Hp.
      - exists (rest ++ [r]). split; [rewrite Hr, app_assoc; reflexivity|]. rewrite Hc, Hq. reflexivity. }
    destruct newb.
    + injection H as <-. apply G. rewrite concat_app. cbn. reflexivity.
    + destruct (snoc_last q r) as [q'|] eqn:E; [|discriminate]. injection H as <-.
      apply G. destruct (snoc_last_spec _ _ _ E) as (Hc & _). exact Hc.
  - destruct pd as [[b l]|].
    + destruct l; try discriminate. injection H as <-. constructor; cbn.
      * exists ks. tauto.
      * intros b' l' Hb'. injection Hb' as <- <-. eapply Hp. reflexivity.
      * exists rest. tauto.
    + destruct q as [|b q']; [discriminate|]. injection H as <-. constructor; cbn.
      * exists (ks ++ [O]). split; [rewrite !app_length; cbn; lia|].
        rewrite stut_snoc by lia. cbn. rewrite app_nil_r. exact Hs.
      * intros b' l' Hb'. injection Hb' as <- <-. exists dr. reflexivity.
      * exists (concat q'). split; [|reflexivity].
        rewrite Hr, Hq. cbn [concat]. rewrite concat_app. cbn. rewrite app_nil_r, app_assoc. reflexivity.
  - destruct pd as [[b l]|]; [|discriminate]. destruct l; try discriminate. injection H as <-.
    destruct (Hp b Sent eq_refl) as (pre & Hpre).
    constructor; cbn.
    + (* the last repeat count grows by one *)
      assert (Hks : exists ks0 k, ks = ks0 ++ [k]).
      { destruct (exists_last (l:=ks)) as (ks0 & k & ->).
        - intros ->. rewrite Hpre, app_length in Hk. cbn in Hk. lia.
        - eauto. }
      destruct Hks as (ks0 & k & ->).
      exists (ks0 ++ [S k]). split; [rewrite !app_length in *; cbn in *; lia|].
      rewrite Hs, Hpre.
      assert (Hl0 : length pre = length ks0).
      { rewrite Hpre, !app_length in Hk. cbn in Hk. lia. }
      rewrite !stut_snoc by assumption. rewrite repeat_snoc, app_assoc. reflexivity.
    + intros b' l' Hb'. injection Hb' as <- <-. exists pre. exact Hpre.
    + exists rest. tauto.
  - destruct pd as [[b l]|]; [|discriminate]. destruct l; try discriminate. injection H as <-.
    constructor; cbn; [exists ks; tauto|intros; discriminate|exists rest; tauto].
  - destruct pd as [[b l]|]; [|discriminate].
    assert (H' : s' = mkN q (Some (b, InQueue)) lg dr ac) by (destruct l; try discriminate; injection H as <-; reflexivity).
    subst s'. constructor; cbn.
    + exists ks; tauto.
    + intros b' l' Hb'. injection Hb' as <- <-. eapply Hp. reflexivity.
    + exists rest; tauto.
  - destruct pd as [[b l]|]; [|discriminate]. injection H as <-.
    constructor; cbn; [exists ks; tauto|intros; discriminate|exists rest; tauto].
  - destruct pd; [discriminate|]. destruct q; [|discriminate]. injection H as <-.
    constructor; cbn; [exists ks; tauto|exact Hp|exists rest; tauto].
Qed.

Lemma nrun_inv : forall tr s s', NInv s -> nrun s tr = Some s' -> NInv s'.
Proof.
  induction tr as [|e tr IH]; intros s s' I H; cbn [nrun] in H.
  - injection H as <-. exact I.
  - destruct (nstep s e) as [s1|] eqn:E; [|discriminate].
    eapply IH; [eapply nstep_inv; eassumption|exact H].
Qed.

(* Without idempotence: the log is the drained batches in drain order, each repeated as a
   whole block some number of times (possibly zero for the one still unacknowledged); the
   batches themselves partition a prefix of the accepted records in acceptance order. *)
Theorem nonidem_log tr s' :
  nrun ninit tr = Some s' ->
  (exists ks, length ks = length (ndr s') /\ nlog s' = stut (ndr s') ks) /\
  (exists rest, naccepted s' = concat (ndr s') ++ rest).
Proof.
  intros H. destruct (nrun_inv tr ninit s' ninv_init H) as [Hs _ (rest & Hr & _)].
  split; [exact Hs|exists rest; exact Hr].
Qed.
