(* Progress: in a state that satisfies the invariant and is not converged, a real (non no-op) quiet step is enabled,
   at the latest after one no-op (a silent reply still on the wire is consumed first). *)
From Coq Require Import ZArith List Bool Arith Lia.
From Verif Require Import DispatchActs HeartbeatDispatch JoinRetryDispatch JoinDispatch SyncDispatch CommitDispatch
  C06_Converge C06_conv_lib C06_conv_refl C06_conv_abs C06_conv_checks C06_conv_step C06_conv_cases C06_conv_coord C06_conv_epoch C06_conv_final.
Import ListNotations.
Local Open Scope nat_scope.

(* a member that cannot move by itself: parked at the coordinator, or settled while the coordinator is Stable *)
Definition blocked_a (a : av) : bool :=
  negb (a_live a) || a_waiting_join a || a_waiting_sync a
  || (settled_a a && (cstate_eqb (a_st a) CStable || cstate_eqb (a_st a) CEmpty)).

(* what the member can do next, read off the view *)
Inductive move := MFind | MSendJoin | MRecv | MSendSync | MHbSend | MHbRecv | MCmSend | MCmRecv.
Definition enabled_a (a : av) (mv : move) : bool :=
  a_live a &&
  match mv with
  | MFind => negb (ck_known (a_ck a))
  | MSendJoin => ph_eqb (a_ph a) PIdle && nib (a_ib a) && is_none (a_cmin a) && ck_known (a_ck a) && a_rejoin a
  | MRecv => match a_ph a, a_ib a with PJoinSent, IJ _ | PSyncSent, IS _ => true | _, _ => false end
  | MSendSync => ph_eqb (a_ph a) PJoined && nib (a_ib a) && ck_known (a_ck a)
  | MHbSend => a_hb a && is_none (a_hbin a) && ck_known (a_ck a)
  | MHbRecv => negb (is_none (a_hbin a))
  | MCmSend => ph_eqb (a_ph a) PIdle && nib (a_ib a) && is_none (a_cmin a) && ck_known (a_ck a) && a_can_commit a
  | MCmRecv => negb (is_none (a_cmin a))
  end.
Definition real_a (a : av) (mv : move) : bool :=
  match mv with
  | MHbSend => negb (hb_silent_a a (hb_code_a a))
  | MHbRecv => match a_hbin a with Some c => negb (hb_silent_a a c) | None => false end
  | MCmSend => negb (cm_silent_a a (cm_code_a a))
  | MCmRecv => match a_cmin a with Some c => negb (cm_silent_a a c) | None => false end
  | _ => true
  end.
(* the view after a silent heartbeat / commit reply has been consumed *)
Definition after_noop (a : av) (mv : move) : av :=
  match mv with
  | MHbRecv => match a_hbin a with Some c => a_recv_hb c a | None => a end
  | MCmRecv => match a_cmin a with Some c => a_recv_cm c a | None => a end
  | _ => a end.
Definition moves : list move := [MFind; MSendJoin; MRecv; MSendSync; MHbSend; MHbRecv; MCmSend; MCmRecv].
Definition can_move (a : av) : bool :=
  existsb (fun mv => enabled_a a mv && real_a a mv) moves
  || existsb (fun m0 => enabled_a a m0 && negb (real_a a m0) && match m0 with MHbRecv | MCmRecv => true | _ => false end
                        && existsb (fun mv => enabled_a (after_noop a m0) mv && real_a (after_noop a m0) mv) moves) moves.
Definition chk_progress (a : av) : bool := negb (inv_a a) || blocked_a a || can_move a.

Time Lemma ok_progress : forall_av pre_wf chk_progress = true.
Proof. vm_compute. reflexivity. Qed.

(* ---- an unused id exists ---- *)
Lemma le_max_list : forall l x, In x l -> x <= fold_right Nat.max 0 l.
Proof. induction l as [|a r IH]; intros x H; [inversion H|]. cbn [fold_right]. destruct H as [->|H]; [lia | specialize (IH x H); lia]. Qed.
Lemma fresh_exists : forall s, fresh s (S (max_id s)) = true.
Proof.
  intros [c ms]. unfold fresh, max_id. cbn [s_c s_ms]. set (M := fold_right Nat.max 0 (all_ids (mkS c ms))).
  assert (H : forall x, In x (all_ids (mkS c ms)) -> x <> S M) by (intros x Hx E; pose proof (le_max_list _ x Hx); fold M in H; lia).
  unfold all_ids in H. cbn [s_c s_ms] in H.
  assert (A : memb (S M) (ids (c_ents c)) = false).
  { apply memb_false_In. intros Hin. apply (H (S M)); [apply in_or_app; left; exact Hin | reflexivity]. }
  assert (B : memb (S M) (c_pend c) = false).
  { apply memb_false_In. intros Hin. apply (H (S M)); [apply in_or_app; right; apply in_or_app; left; exact Hin | reflexivity]. }
  rewrite A, B. cbn [Nat.eqb negb andb]. apply forallb_forall. intros m Hm.
  assert (Hi : m_id m <> S M).
  { apply H. apply in_or_app; right. apply in_or_app; right. apply in_flat_map. exists m. split; [exact Hm | left; reflexivity]. }
  assert (Hf : m_focus m <> S M).
  { apply H. apply in_or_app; right. apply in_or_app; right. apply in_flat_map. exists m. split; [exact Hm | right; left; reflexivity]. }
  apply Nat.eqb_neq in Hi, Hf. rewrite Hi, Hf. reflexivity.
Qed.

(* ---- from a move of the view to a step of the model ---- *)
Definition label_of (i : nat) (s : state) (mv : move) : label :=
  match mv with
  | MFind => LFind i | MSendJoin => LSendJoin i true (S (max_id s)) | MRecv => LRecv i | MSendSync => LSendSync i
  | MHbSend => LHbSend i | MHbRecv => LHbRecv i | MCmSend => LCmSend i | MCmRecv => LCmRecv i
  end.

Lemma is_some_dec : forall {A} (o : option A), negb (is_none o) = true -> exists x, o = Some x.
Proof. intros A o H. destruct o as [x|]; [exists x; reflexivity | discriminate]. Qed.
Lemma nib_inbox : forall m, nib (ib_of m) = true -> m_inbox m = None.
Proof. intros m H. unfold ib_of in H. destruct (m_inbox m) as [[? ?|?]|]; [discriminate | discriminate | reflexivity]. Qed.

Lemma move_step : forall c ms i m mv, getm i ms = Some m -> enabled_a (absm c m) mv = true ->
  exists s', step (mkS c ms) (label_of i (mkS c ms) mv) = Some s'
             /\ noop_b (mkS c ms) (label_of i (mkS c ms) mv) = negb (real_a (absm c m) mv).
Proof.
  intros c ms i m mv G E. unfold enabled_a in E. apply andb_true_iff in E. destruct E as [L E].
  assert (La : m_live m = true) by exact L.
  destruct mv; cbn [label_of step noop_b real_a s_c s_ms]; unfold with_m; cbn [s_c s_ms]; rewrite G.
  - (* Find *) assert (K : negb (ck_known (m_ck m)) = true) by exact E. rewrite La, K. cbn [andb negb]. eexists. split; reflexivity.
  - (* SendJoin *) unfold absm, ib_of in E. pcbn_in E. split_guard E.
    rewrite La, E, Gd, Gd0. assert (I : m_inbox m = None) by (apply nib_inbox; exact Gd2). rewrite I, Gd1.
    rewrite (fresh_exists (mkS c ms)). rewrite orb_true_r. cbn [is_none andb negb].
    destruct (ck_stale (m_ck m)); [eexists; split; reflexivity|]. destruct (cjoin c (m_id m) true (S (max_id (mkS c ms)))) as [[c' o] evs].
    eexists. split; reflexivity.
  - (* Recv *) unfold absm, ib_of in E. pcbn_in E. rewrite La. destruct (m_ph m); try discriminate; destruct (m_inbox m) as [[? ?|?]|]; try discriminate;
      eexists; split; reflexivity.
  - (* SendSync *) unfold absm, ib_of in E. pcbn_in E. split_guard E. assert (I : m_inbox m = None) by (apply nib_inbox; exact Gd0).
    rewrite La, E, I, Gd. cbn [is_none andb]. destruct (ck_stale (m_ck m)); [eexists; split; reflexivity|].
    destruct (csync c (m_id m) (m_gen m)) as [[c' o] evs]. eexists. split; reflexivity.
  - (* HbSend *) unfold absm in E. pcbn_in E. split_guard E. rewrite La, E, Gd, Gd0. cbn [andb]. eexists. split; [reflexivity|].
    rewrite (hb_code_abs c m), negb_involutive. reflexivity.
  - (* HbRecv *) assert (H : negb (is_none (m_hbin m)) = true) by exact E. destruct (is_some_dec _ H) as [code Hc]. rewrite La, Hc.
    eexists. split; [reflexivity|]. assert (Ha : a_hbin (absm c m) = Some code) by exact Hc. rewrite Ha, negb_involutive. reflexivity.
  - (* CmSend *) unfold absm, ib_of, a_can_commit in E. pcbn_in E. split_guard E. assert (I : m_inbox m = None) by (apply nib_inbox; exact Gd2).
    unfold can_commit. rewrite La, E, I, Gd, Gd0, Gd1. cbn [is_none andb]. eexists. split; [reflexivity|]. rewrite (cm_code_abs c m), negb_involutive. reflexivity.
  - (* CmRecv *) assert (H : negb (is_none (m_cmin m)) = true) by exact E. destruct (is_some_dec _ H) as [code Hc]. rewrite La, Hc.
    eexists. split; [reflexivity|]. assert (Ha : a_cmin (absm c m) = Some code) by exact Hc. rewrite Ha, negb_involutive. reflexivity.
Qed.

Definition progress_at (s : state) : Prop :=
  exists l s', step s l = Some s' /\
    (noop_b s l = false \/ (exists l2 s2, step s' l2 = Some s2 /\ noop_b s' l2 = false)).

Lemma existsb_moves : forall (p : move -> bool), existsb p moves = true -> exists mv, p mv = true.
Proof. intros p H. apply existsb_exists in H. destruct H as [mv [_ H]]. exists mv. exact H. Qed.

Lemma member_can_move : forall c ms i m, inv_facts c ms -> getm i ms = Some m -> m_live m = true ->
  blocked_a (absm c m) = false -> progress_at (mkS c ms).
Proof.
  intros c ms i m Hinv G L Hb. get_facts Hinv G. pose proof (wf_c_zfacts c Hwc) as Z.
  pose proof (use_check pre_wf chk_progress c m ok_progress Hwc L Hwm (wf_pre_m _ _ L Hwm)) as H.
  unfold chk_progress in H. rewrite Hia, Hb in H. cbn [negb orb] in H. unfold can_move in H. apply orb_true_iff in H. destruct H as [H|H].
  - destruct (existsb_moves _ H) as [mv Hm]. apply andb_true_iff in Hm. destruct Hm as [He Hr].
    destruct (move_step c ms i m mv G He) as [s' [Hs Hn]]. exists (label_of i (mkS c ms) mv), s'. split; [exact Hs|]. left. rewrite Hn, Hr. reflexivity.
  - destruct (existsb_moves _ H) as [m0 Hm]. apply andb_true_iff in Hm. destruct Hm as [Hm H2]. apply andb_true_iff in Hm. destruct Hm as [Hm Hk].
    apply andb_true_iff in Hm. destruct Hm as [He Hnr]. destruct (existsb_moves _ H2) as [mv Hmv]. apply andb_true_iff in Hmv. destruct Hmv as [He2 Hr2].
    destruct (move_step c ms i m m0 G He) as [s' [Hs Hn]]. exists (label_of i (mkS c ms) m0), s'. split; [exact Hs|]. right.
    destruct m0; try discriminate.
    + (* a silent heartbeat reply first *)
      unfold enabled_a in He. apply andb_true_iff in He. destruct He as [_ He]. destruct (is_some_dec _ He) as [code Hc].
      assert (Hc' : m_hbin m = Some code) by exact Hc.
      cbn [label_of step s_c s_ms] in Hs. rewrite G, L, Hc' in Hs. inversion Hs; subst s'.
      assert (G' : getm i (updm i (recv_hb code) ms) = Some (recv_hb code m)).
      { apply getm_updm_same; [|exact G]. intros m1. apply (recv_hb_fields code m1). }
      assert (EA : absm c (recv_hb code m) = after_noop (absm c m) MHbRecv).
      { cbn [after_noop]. rewrite Hc. apply absm_recv_hb. exact Z. }
      rewrite <- EA in He2, Hr2.
      destruct (move_step c (updm i (recv_hb code) ms) i (recv_hb code m) mv G' He2) as [s2 [Hs2 Hn2]].
      eexists. exists s2. split; [exact Hs2|]. rewrite Hn2, Hr2. reflexivity.
    + (* a silent commit reply first *)
      unfold enabled_a in He. apply andb_true_iff in He. destruct He as [_ He]. destruct (is_some_dec _ He) as [code Hc].
      assert (Hc' : m_cmin m = Some code) by exact Hc.
      cbn [label_of step s_c s_ms] in Hs. rewrite G, L, Hc' in Hs. inversion Hs; subst s'.
      assert (G' : getm i (updm i (recv_cm code) ms) = Some (recv_cm code m)).
      { apply getm_updm_same; [|exact G]. intros m1. apply (recv_cm_fields code m1). }
      assert (EA : absm c (recv_cm code m) = after_noop (absm c m) MCmRecv).
      { cbn [after_noop]. rewrite Hc. apply absm_recv_cm. exact Z. }
      rewrite <- EA in He2, Hr2.
      destruct (move_step c (updm i (recv_cm code) ms) i (recv_cm code m) mv G' He2) as [s2 [Hs2 Hn2]].
      eexists. exists s2. split; [exact Hs2|]. rewrite Hn2, Hr2. reflexivity.
Qed.

(* ---- everybody blocked: an orphan id can be expired ---- *)
Lemma find_ent_in : forall es e, NoDup (ids es) -> In e es -> find_ent (e_id e) es = Some e.
Proof.
  induction es as [|a r IH]; intros e ND Hin; [inversion Hin|]. cbn [ids map] in ND. inversion ND as [|? ? Hnot ND']; subst.
  unfold find_ent. cbn [find]. destruct Hin as [->|Hin]; [rewrite Nat.eqb_refl; reflexivity|].
  destruct (Nat.eqb_spec (e_id a) (e_id e)) as [E|E]; [|apply IH; assumption].
  exfalso. apply Hnot. rewrite E. apply in_map. exact Hin.
Qed.

Lemma expire_enabled : forall c ms e, wf_c c = true -> In e (c_ents c) -> orphan ms e = true -> e_jp e = false -> e_sp e = false ->
  exists s', step (mkS c ms) (LExpire (e_id e) false) = Some s'.
Proof.
  intros c ms e Hc Hin Ho Hj Hs. cbn [step s_c s_ms].
  rewrite (find_ent_in (c_ents c) e (proj1 (nodupb_NoDup _) (wc_nodup c (wf_c_parts c Hc))) Hin), Ho, Hj, Hs. cbn [negb andb orb].
  destruct (cexpire c (e_id e) false) as [c' evs]. eexists. reflexivity.
Qed.

Lemma blocked_cases : forall a, blocked_a a = true -> a_live a = true ->
  a_waiting_join a = true \/ a_waiting_sync a = true \/ (settled_a a = true /\ (a_st a = CStable \/ a_st a = CEmpty)).
Proof.
  intros a H L. unfold blocked_a in H. rewrite L in H. cbn [negb orb] in H.
  apply orb_true_iff in H. destruct H as [H|H]; [apply orb_true_iff in H; destruct H as [H|H]; auto|].
  apply andb_true_iff in H. destruct H as [H1 H2]. right. right. split; [exact H1|].
  apply orb_true_iff in H2. destruct H2 as [E|E]; destruct (a_st a); try discriminate; auto.
Qed.

Lemma coh_waiting_join : forall c m, coh c m = true -> m_live m = true -> m_ph m = PJoinSent -> m_inbox m = None ->
  ent_jp c (m_focus m) = true.
Proof.
  intros c m C L P I. unfold coh, coh_a, a_waiting_join, a_waiting_sync, absm, focus_of in C. pcbn_in C. unfold ib_of in C. rewrite L, P, I in C.
  cbn [negb orb ph_eqb andb] in C. destruct (ent_jp c (m_focus m)); [reflexivity | discriminate].
Qed.
Lemma coh_waiting_sync : forall c m, coh c m = true -> m_live m = true -> m_ph m = PSyncSent -> m_inbox m = None ->
  ent_sp c (m_id m) = true.
Proof.
  intros c m C L P I. unfold coh, coh_a, a_waiting_join, a_waiting_sync, absm, focus_of in C. pcbn_in C. unfold ib_of in C. rewrite L, P, I in C.
  cbn [negb orb ph_eqb andb] in C. destruct (ent_sp c (m_id m)); [reflexivity | cbn [andb] in C; discriminate].
Qed.
Lemma wf_waiting_join : forall c m, wf_m c m = true -> m_live m = true -> m_ph m = PJoinSent -> m_inbox m = None ->
  m_focus m = m_id m \/ m_id m = 0.
Proof.
  intros c m W L P I. unfold wf_m, wf_a, absm, focus_of in W. pcbn_in W. unfold ib_of in W. rewrite L, P, I in W. cbn [negb orb ph_eqb] in W.
  destruct (Nat.eqb_spec (m_focus m) (m_id m)) as [E|E]; [left; exact E|]. destruct (Nat.eqb_spec (m_id m) 0) as [E2|E2]; [right; exact E2|].
  exfalso. cbn [orb] in W. rewrite !andb_false_r in W. cbn [andb] in W. discriminate.
Qed.

(* a live, blocked member bound to the id of an entry whose flags are both clear while the coordinator is not Stable: impossible *)
Lemma blocked_not_bound : forall c ms m e, inv_facts c ms -> In m ms -> m_live m = true -> blocked_a (absm c m) = true ->
  In e (c_ents c) -> e_jp e = false -> e_sp e = false -> (c_st c = CPreparing \/ c_st c = CCompleting) ->
  bound m (e_id e) = false.
Proof.
  intros c ms m e Hinv Hin L Hb He Hj Hs Hst. destruct (bound m (e_id e)) eqn:B; [|reflexivity]. exfalso.
  pose proof (iv_wfc _ _ Hinv) as Hwc. pose proof (wf_c_parts c Hwc) as W.
  pose proof (find_ent_in (c_ents c) e (proj1 (nodupb_NoDup _) (wc_nodup c W)) He) as Hf.
  assert (Hx : e_id e <> 0).
  { intros E. assert (memb 0 (ids (c_ents c)) = true); [|rewrite (wc_0e c W) in H; discriminate]. apply memb_In. rewrite <- E. apply in_map. exact He. }
  apply (bound_has_id m (e_id e) Hx) in B. destruct B as [_ [_ Hh]].
  pose proof (iv_wfm _ _ Hinv m Hin) as Wm. pose proof (iv_coh _ _ Hinv m Hin) as Cm.
  destruct (blocked_cases _ Hb L) as [Wj|[Ws|[_ Hs2]]].
  - destruct (waiting_abs c m) as [Ej _]. rewrite Ej in Wj. unfold waiting_join in Wj. apply andb_true_iff in Wj. destruct Wj as [P I].
    assert (P' : m_ph m = PJoinSent) by (destruct (m_ph m); try discriminate; reflexivity).
    assert (I' : m_inbox m = None) by (destruct (m_inbox m); [discriminate | reflexivity]).
    assert (Ef : focus_of m = m_focus m) by (unfold focus_of; rewrite P; reflexivity).
    pose proof (coh_waiting_join c m Cm L P' I') as Cj.
    assert (Efe : m_focus m = e_id e).
    { destruct Hh as [Hh|Hh]; [|congruence]. destruct (wf_waiting_join c m Wm L P' I') as [E|E]; congruence. }
    rewrite Efe in Cj. unfold ent_jp in Cj. rewrite Hf, Hj in Cj. discriminate.
  - destruct (waiting_abs c m) as [_ Es]. rewrite Es in Ws. unfold waiting_sync in Ws. apply andb_true_iff in Ws. destruct Ws as [P I].
    assert (P' : m_ph m = PSyncSent) by (destruct (m_ph m); try discriminate; reflexivity).
    assert (I' : m_inbox m = None) by (destruct (m_inbox m); [discriminate | reflexivity]).
    pose proof (coh_waiting_sync c m Cm L P' I') as Csp.
    assert (Eid : m_id m = e_id e).
    { destruct Hh as [Hh|Hh]; [exact Hh|]. unfold focus_of in Hh. rewrite P' in Hh. cbn in Hh. congruence. }
    rewrite Eid in Csp. unfold ent_sp in Csp. rewrite Hf, Hs in Csp. discriminate.
  - assert (Est : a_st (absm c m) = c_st c) by reflexivity. rewrite Est in Hs2. destruct Hst as [E|E], Hs2 as [E2|E2]; congruence.
Qed.

Lemma forallb_false_ex : forall {A} (p : A -> bool) l, forallb p l = false -> exists x, In x l /\ p x = false.
Proof.
  intros A p l. induction l as [|a r IH]; intros H; [discriminate|]. cbn [forallb] in H. destruct (p a) eqn:E.
  - destruct (IH H) as [x [Hx Hp]]. exists x. split; [right; exact Hx | exact Hp].
  - exists a. split; [left; reflexivity | exact E].
Qed.
Lemma getm_of_in : forall ms m, NoDup (map m_name ms) -> In m ms -> getm (m_name m) ms = Some m.
Proof.
  induction ms as [|a r IH]; intros m ND Hin; [inversion Hin|]. cbn [map] in ND. inversion ND as [|? ? Hnot ND']; subst.
  unfold getm. cbn [find]. destruct Hin as [->|Hin]; [rewrite Nat.eqb_refl; reflexivity|].
  destruct (Nat.eqb_spec (m_name a) (m_name m)) as [E|E]; [|apply IH; assumption].
  exfalso. apply Hnot. rewrite E. apply in_map. exact Hin.
Qed.
Lemma all_joined_false_ex : forall es, all_joined es = false -> exists e, In e es /\ e_jp e = false.
Proof. intros es H. unfold all_joined in H. apply forallb_false_ex in H. exact H. Qed.

Lemma stuck_expire : forall c ms, inv_facts c ms -> forallb (fun m => blocked_a (absm c m)) ms = true ->
  converged_b (mkS c ms) = false -> exists x s', step (mkS c ms) (LExpire x false) = Some s'.
Proof.
  intros c ms Hinv Hab Hnc. pose proof (iv_wfc _ _ Hinv) as Hwc. pose proof (wf_c_parts c Hwc) as W.
  rewrite forallb_forall in Hab.
  assert (Horph : forall e, In e (c_ents c) -> e_jp e = false -> e_sp e = false -> (c_st c = CPreparing \/ c_st c = CCompleting) -> orphan ms e = true).
  { intros e He Hj Hs Hst. unfold orphan. apply negb_true_iff. destruct (existsb (fun m => bound m (e_id e)) ms) eqn:Ex; [|reflexivity]. exfalso.
    apply existsb_exists in Ex. destruct Ex as [m [Hin B]].
    assert (L : m_live m = true) by (unfold bound in B; apply andb_true_iff in B; apply B).
    rewrite (blocked_not_bound c ms m e Hinv Hin L (Hab m Hin) He Hj Hs Hst) in B. discriminate. }
  destruct (c_st c) eqn:Hst.
  - (* Empty: no entries, nobody alive can be settled: converged *)
    exfalso. pose proof (wc_empty c W) as He. rewrite Hst in He. cbn in He. assert (Ee : c_ents c = []) by (destruct (c_ents c); [reflexivity | discriminate]).
    unfold converged_b in Hnc. cbn [s_c s_ms] in Hnc. rewrite Hst, Ee in Hnc. cbn [cstate_eqb orb forallb andb] in Hnc. rewrite andb_true_r in Hnc.
    apply forallb_false_ex in Hnc. destruct Hnc as [m [Hin Hs]]. destruct (m_live m) eqn:L.
    + destruct (blocked_cases _ (Hab m Hin) L) as [Wj|[Ws|[S _]]].
      * destruct (waiting_abs c m) as [Ej _]. rewrite Ej in Wj. unfold waiting_join in Wj. apply andb_true_iff in Wj. destruct Wj as [P I].
        pose proof (coh_waiting_join c m (iv_coh _ _ Hinv m Hin) L (ph_of_eqb _ _ P) (none_of_is_none _ I)) as Cj.
        unfold ent_jp in Cj. rewrite Ee in Cj. discriminate.
      * destruct (waiting_abs c m) as [_ Es]. rewrite Es in Ws. unfold waiting_sync in Ws. apply andb_true_iff in Ws. destruct Ws as [P I].
        pose proof (coh_waiting_sync c m (iv_coh _ _ Hinv m Hin) L (ph_of_eqb _ _ P) (none_of_is_none _ I)) as Cs.
        unfold ent_sp in Cs. rewrite Ee in Cs. discriminate.
      * unfold settled in Hs. congruence.
    + destruct (dead_trivial c m L) as (_ & _ & _ & _ & S). congruence.
  - (* Preparing: an entry that has not joined is an orphan *)
    pose proof (wc_notall c W) as Hn. rewrite Hst in Hn. cbn [cstate_eqb negb orb] in Hn. apply negb_true_iff in Hn.
    destruct (all_joined_false_ex _ Hn) as [e [He Hj]].
    pose proof (wc_sp c W) as Hsp. rewrite Hst in Hsp. cbn [cstate_eqb orb] in Hsp. rewrite forallb_forall in Hsp.
    assert (Hs : e_sp e = false) by (apply negb_true_iff; apply Hsp; exact He).
    destruct (expire_enabled c ms e Hwc He (Horph e He Hj Hs (or_introl eq_refl)) Hj Hs) as [s' E]. exists (e_id e), s'. exact E.
  - (* Completing: the leader's entry is an orphan *)
    pose proof (wc_leader c W) as Hl. rewrite Hst in Hl. apply andb_true_iff in Hl. destruct Hl as [Hl _]. apply memb_In in Hl.
    unfold ids in Hl. apply in_map_iff in Hl. destruct Hl as [e [Ee He]].
    pose proof (wc_jp c W) as Hjp. rewrite Hst in Hjp. cbn [cstate_eqb orb] in Hjp. rewrite forallb_forall in Hjp.
    assert (Hj : e_jp e = false) by (apply negb_true_iff; apply Hjp; exact He).
    assert (Hs : e_sp e = false).
    { pose proof (wc_lsp c W) as H. unfold ent_sp in H. rewrite <- Ee in H.
      rewrite (find_ent_in (c_ents c) e (proj1 (nodupb_NoDup _) (wc_nodup c W)) He) in H. exact H. }
    destruct (expire_enabled c ms e Hwc He (Horph e He Hj Hs (or_intror eq_refl)) Hj Hs) as [s' E]. exists (e_id e), s'. exact E.
  - (* Stable: everybody alive is settled, so some entry is an orphan *)
    pose proof (wc_jp c W) as Hjp. rewrite Hst in Hjp. cbn [cstate_eqb orb] in Hjp. rewrite forallb_forall in Hjp.
    pose proof (wc_sp c W) as Hsp. rewrite Hst in Hsp. cbn [cstate_eqb orb] in Hsp. rewrite forallb_forall in Hsp.
    assert (Hset : forallb (settled c) ms = true).
    { apply forallb_forall. intros m Hin. destruct (m_live m) eqn:L; [|apply (dead_trivial c m L)].
      destruct (blocked_cases _ (Hab m Hin) L) as [Wj|[Ws|[S _]]]; [| |exact S]; exfalso.
      - destruct (waiting_abs c m) as [Ej _]. rewrite Ej in Wj. unfold waiting_join in Wj. apply andb_true_iff in Wj. destruct Wj as [P I].
        pose proof (coh_waiting_join c m (iv_coh _ _ Hinv m Hin) L (ph_of_eqb _ _ P) (none_of_is_none _ I)) as Cj.
        unfold ent_jp in Cj. destruct (find_ent (m_focus m) (c_ents c)) as [e|] eqn:F; [|discriminate].
        unfold find_ent in F. apply find_some in F. destruct F as [He _]. specialize (Hjp e He). rewrite Cj in Hjp. discriminate.
      - destruct (waiting_abs c m) as [_ Es]. rewrite Es in Ws. unfold waiting_sync in Ws. apply andb_true_iff in Ws. destruct Ws as [P I].
        pose proof (coh_waiting_sync c m (iv_coh _ _ Hinv m Hin) L (ph_of_eqb _ _ P) (none_of_is_none _ I)) as Cs.
        unfold ent_sp in Cs. destruct (find_ent (m_id m) (c_ents c)) as [e|] eqn:F; [|discriminate].
        unfold find_ent in F. apply find_some in F. destruct F as [He _]. specialize (Hsp e He). rewrite Cs in Hsp. discriminate. }
    unfold converged_b in Hnc. cbn [s_c s_ms] in Hnc. rewrite Hst, Hset in Hnc. cbn [cstate_eqb orb andb] in Hnc.
    apply forallb_false_ex in Hnc. destruct Hnc as [e [He Hb]].
    assert (Hj : e_jp e = false) by (apply negb_true_iff; apply Hjp; exact He).
    assert (Hs : e_sp e = false) by (apply negb_true_iff; apply Hsp; exact He).
    rewrite Hj, Hs in Hb. cbn [negb andb] in Hb. rewrite !andb_true_r in Hb. apply negb_false_iff in Hb.
    destruct (expire_enabled c ms e Hwc He Hb Hj Hs) as [s' E]. exists (e_id e), s'. exact E.
Qed.

Theorem progress_all : forall s, inv_b s = true -> converged_b s = false -> progress_at s.
Proof.
  intros [c ms] Hi Hc. pose proof (inv_unpack c ms Hi) as Hinv.
  destruct (forallb (fun m => blocked_a (absm c m)) ms) eqn:Ab.
  - destruct (stuck_expire c ms Hinv Ab Hc) as [x [s' E]]. exists (LExpire x false), s'. split; [exact E | left; reflexivity].
  - destruct (forallb_false_ex _ _ Ab) as [m [Hin Hb]].
    assert (L : m_live m = true).
    { unfold blocked_a in Hb. destruct (a_live (absm c m)) eqn:E; [exact E | discriminate]. }
    apply (member_can_move c ms (m_name m) m Hinv (getm_of_in ms m (iv_names _ _ Hinv) Hin) L Hb).
Qed.
