(* C10_wp.v — "weakest precondition" style reasoning for the C10 models.
   [wp m Q]: the computation m either returns a value satisfying Q or raises a Python
   exception; it does NOT read out of bounds, run out of fuel or fail with an internal error. *)
From Coq Require Import ZArith List Bool Lia ZifyBool.
From Verif Require Import C10_Base.
Import ListNotations.
Open Scope Z_scope.
Ltac Zify.zify_post_hook ::= Z.to_euclidean_division_equations.

Definition okf (f : failure) : Prop := match f with FRaise _ => True | _ => False end.

Definition wp {A} (m : res A) (Q : A -> Prop) : Prop :=
  match m with Ok a => Q a | Fail f => okf f end.

(* a final status is acceptable: finished, or an ordinary Python exception *)
Definition ok_status (st : status) : Prop :=
  match st with SDone => True | SFail f => okf f end.

Lemma wp_ok {A} (a : A) (Q : A -> Prop) : Q a -> wp (Ok a) Q.
Proof. auto. Qed.
Lemma wp_raise {A} e (Q : A -> Prop) : wp (raise e) Q.
Proof. exact I. Qed.
Lemma wp_bind {A B} (m : res A) (k : A -> res B) (Q : B -> Prop) :
  wp m (fun a => wp (k a) Q) -> wp (bind m k) Q.
Proof. destruct m; simpl; auto. Qed.
Lemma wp_mono {A} (m : res A) (P Q : A -> Prop) :
  wp m P -> (forall a, P a -> Q a) -> wp m Q.
Proof. destruct m; simpl; auto. Qed.
Lemma wp_bind_mono {A B} (m : res A) (k : A -> res B) (P : A -> Prop) (Q : B -> Prop) :
  wp m P -> (forall a, P a -> wp (k a) Q) -> wp (bind m k) Q.
Proof. intros H1 H2. apply wp_bind. eapply wp_mono; eauto. Qed.
Lemma wp_true {A} (m : res A) (P : A -> Prop) : wp m P -> wp m (fun _ => True).
Proof. intro H. eapply wp_mono; eauto. Qed.
(* inversion: what a successful run tells *)
Lemma wp_inv {A} (m : res A) (Q : A -> Prop) a : wp m Q -> m = Ok a -> Q a.
Proof. intros H ->. exact H. Qed.
Lemma wp_fail {A} (m : res A) (Q : A -> Prop) f : wp m Q -> m = Fail f -> okf f.
Proof. intros H ->. exact H. Qed.

(* ------------------------------------------------------------------ lists *)
Lemma zlen_nonneg {A} (l : list A) : 0 <= zlen l.
Proof. unfold zlen. lia. Qed.

Lemma zlen_sub_le (l : list Z) p n : zlen (sub l p n) <= zlen l.
Proof.
  unfold sub, zlen. rewrite firstn_length, skipn_length. lia.
Qed.

Lemma zlen_sub (l : list Z) p n : 0 <= p -> 0 <= n -> p + n <= zlen l -> zlen (sub l p n) = n.
Proof.
  unfold sub, zlen. intros. rewrite firstn_length, skipn_length. lia.
Qed.

Lemma zlen_length {A} (l : list A) : zlen l = Z.of_nat (List.length l).
Proof. reflexivity. Qed.

(* ------------------------------------------------------------------ primitives *)
Lemma rd_wp site sp buf pos n :
  0 <= pos -> pos + n <= zlen buf -> wp (rd site sp buf pos n) (fun l => l = sub buf pos n).
Proof.
  intros. unfold rd.
  replace ((0 <=? pos) && (pos + n <=? zlen buf)) with true by lia. reflexivity.
Qed.

Lemma rd_u_wp site sp buf pos n :
  0 <= pos -> pos + n <= zlen buf -> wp (rd_u site sp buf pos n) (fun v => v = be_u (sub buf pos n)).
Proof.
  intros. unfold rd_u. eapply wp_bind_mono; [apply rd_wp; assumption|].
  intros a ->. reflexivity.
Qed.

Lemma rd_i_wp site sp buf pos n :
  0 <= pos -> pos + n <= zlen buf -> wp (rd_i site sp buf pos n) (fun _ => True).
Proof.
  intros. unfold rd_i. eapply wp_bind_mono; [apply rd_wp; assumption|].
  intros a _. exact I.
Qed.

Definition small (buf : list Z) : Prop := zlen buf < ALLOC_MAX.

Lemma small_sub buf p n : small buf -> small (sub buf p n).
Proof. unfold small. intro H. pose proof (zlen_sub_le buf p n). lia. Qed.

Lemma bytes_from_wp site sp buf pos size :
  small buf -> 0 <= pos -> 0 <= size -> pos + size <= zlen buf ->
  wp (bytes_from site sp buf pos size) (fun _ => True).
Proof.
  unfold small, bytes_from, ALLOC_MAX, PY_SSIZE_T_MAX. intros Hs Hp Hn Hb.
  pose proof (zlen_nonneg buf).
  replace (size <? 0) with false by lia.
  replace (2 ^ 63 - 1 - 33 <? size) with false by lia.
  replace (2 ^ 47 <=? size) with false by lia.
  eapply wp_true. apply rd_wp; lia.
Qed.

(* ------------------------------------------------------------------ Python primitives never misbehave *)
Lemma py_unpack_from_wp l off size : wp (py_unpack_from l off size) (fun _ => True).
Proof.
  unfold py_unpack_from.
  destruct (off <? 0); [destruct (0 <? off + size); [exact I|destruct (off + zlen l <? 0); exact I]|].
  destruct (zlen l - off <? size); exact I.
Qed.

Lemma py_unpack_from_pos l off size :
  0 <= off -> wp (py_unpack_from l off size) (fun _ => off + size <= zlen l).
Proof.
  intros. unfold py_unpack_from.
  replace (off <? 0) with false by lia.
  destruct (zlen l - off <? size) eqn:E; [exact I|]. simpl. lia.
Qed.

Lemma py_getitem_wp l i : 0 <= i -> wp (py_getitem l i) (fun _ => i < zlen l).
Proof.
  intros. unfold py_getitem.
  destruct ((- zlen l <=? i) && (i <? zlen l)) eqn:E; [|exact I]. simpl. lia.
Qed.

(* py_slice length *)
Lemma py_norm_range n i : 0 <= n -> 0 <= py_norm n i <= n.
Proof. unfold py_norm. intros. destruct (i <? 0) eqn:E; lia. Qed.

Lemma zlen_py_slice l a b :
  zlen (py_slice l a b) = Z.max 0 (py_norm (zlen l) b - py_norm (zlen l) a).
Proof.
  unfold py_slice.
  pose proof (zlen_nonneg l).
  pose proof (py_norm_range (zlen l) a H). pose proof (py_norm_range (zlen l) b H).
  destruct (py_norm (zlen l) a <? py_norm (zlen l) b) eqn:E.
  - rewrite zlen_sub by lia. lia.
  - change (zlen (@nil Z)) with 0. lia.
Qed.

Lemma zlen_py_slice_le l a b : zlen (py_slice l a b) <= zlen l.
Proof.
  rewrite zlen_py_slice.
  pose proof (zlen_nonneg l).
  pose proof (py_norm_range (zlen l) a H). pose proof (py_norm_range (zlen l) b H). lia.
Qed.
