(* C11_negotiate.v — proofs about the model of Request.prepare and the builders' guards. *)
From Coq Require Import ZArith List Bool Lia ZifyBool.
From Verif Require Import Wire KafkaSpec C11Negotiate.
Import ListNotations.
Open Scope Z_scope.

(* ------------------------------------------------------------------ lists *)
Lemma find_split {A} (f : A -> bool) : forall l x,
  find f l = Some x ->
  exists l1 l2, l = l1 ++ x :: l2 /\ f x = true /\ forall y, In y l1 -> f y = false.
Proof.
  induction l as [|a l IH]; intros x H; [discriminate|].
  cbn in H. destruct (f a) eqn:Fa.
  - inversion H; subst. exists [], l. repeat split; [assumption|intros y []].
  - destruct (IH x H) as (l1 & l2 & -> & Fx & Hl1).
    exists (a :: l1), l2. repeat split; [assumption|].
    intros y [<-|Hy]; [assumption|apply Hl1; assumption].
Qed.

Lemma find_none_all {A} (f : A -> bool) l : find f l = None -> forall y, In y l -> f y = false.
Proof. intros H y Hy. apply (find_none f l H y Hy). Qed.

Lemma index_from_snd n l : map snd (index_from n l) = l.
Proof. revert n. induction l as [|v l IH]; intros n; cbn; [reflexivity|]. f_equal. apply IH. Qed.

Lemma index_from_nth : forall l n i v,
  In (i, v) (index_from n l) -> (n <= i)%nat /\ nth_error l (i - n) = Some v.
Proof.
  induction l as [|a l IH]; intros n i v H; [destruct H|].
  cbn in H. destruct H as [H|H].
  - inversion H; subst. split; [lia|]. replace (i - i)%nat with 0%nat by lia. reflexivity.
  - destruct (IH (S n) i v H) as [Hle Hn]. split; [lia|].
    replace (i - n)%nat with (S (i - S n)) by lia. exact Hn.
Qed.

Lemma sorted_head_lt : forall l x, sorted_lt (x :: l) = true -> forall w, In w l -> x < w.
Proof.
  induction l as [|a l IH]; intros x H w Hw; [destruct Hw|].
  cbn [sorted_lt] in H. apply andb_prop in H as [Hxa Hs].
  destruct Hw as [<-|Hw]; [lia|].
  assert (a < w) by (apply IH; assumption). lia.
Qed.

Lemma sorted_tail x l : sorted_lt (x :: l) = true -> sorted_lt l = true.
Proof. destruct l; [reflexivity|]. cbn [sorted_lt]. intros H. apply andb_prop in H as [_ H]. exact H. Qed.

Lemma sorted_app_lt : forall a v b, sorted_lt (a ++ v :: b) = true -> forall w, In w a -> w < v.
Proof.
  induction a as [|x a IH]; intros v b H w Hw; [destruct Hw|].
  destruct Hw as [->|Hw].
  - apply (sorted_head_lt (a ++ v :: b) w H). apply in_or_app. right. left. reflexivity.
  - apply (IH v b); [|assumption]. exact (sorted_tail _ _ H).
Qed.

(* ------------------------------------------------------------------ prepare *)
(* the class chosen is a member of the list and its version lies in the advertised range —
   without any assumption on the order of the list *)
Lemma pick_in_range vers lo hi i v :
  prepare_pick vers lo hi = Some (i, v) ->
  nth_error vers i = Some v /\ lo <= v <= hi.
Proof.
  unfold prepare_pick. intros H. apply find_some in H as [Hin Hr].
  apply in_rev in Hin. apply index_from_nth in Hin as [_ Hn].
  rewrite Nat.sub_0_r in Hn. split; [exact Hn|]. unfold in_rng in Hr. cbn in Hr. lia.
Qed.

(* for a list sorted by version, it is the greatest supported version in the range *)
Lemma pick_highest vers lo hi i v :
  sorted_lt vers = true ->
  prepare_pick vers lo hi = Some (i, v) ->
  forall w, In w vers -> lo <= w <= hi -> w <= v.
Proof.
  unfold prepare_pick. intros Hs H w Hw Hr.
  apply find_split in H as (l1 & l2 & Hrev & _ & Hl1).
  assert (Hidx : index_from 0 vers = rev l2 ++ (i, v) :: rev l1).
  { rewrite <- (rev_involutive (index_from 0 vers)), Hrev, rev_app_distr. cbn. rewrite <- app_assoc. reflexivity. }
  assert (Hv : vers = map snd (rev l2) ++ v :: map snd (rev l1)).
  { rewrite <- (index_from_snd 0 vers), Hidx, map_app. reflexivity. }
  rewrite Hv in Hw. apply in_app_or in Hw as [Hw|[<-|Hw]].
  - rewrite Hv in Hs. pose proof (sorted_app_lt _ _ _ Hs w Hw). lia.
  - lia.
  - apply in_map_iff in Hw as ([j u] & <- & Hju). apply in_rev in Hju.
    specialize (Hl1 _ Hju). unfold in_rng in Hl1. cbn in *. lia.
Qed.

(* no class at all is chosen exactly when no supported version lies in the range *)
Lemma pick_none vers lo hi :
  prepare_pick vers lo hi = None <-> (forall w, In w vers -> ~ (lo <= w <= hi)).
Proof.
  unfold prepare_pick. split.
  - intros H w Hw Hr. rewrite <- (index_from_snd 0 vers) in Hw.
    apply in_map_iff in Hw as ([j u] & <- & Hju).
    pose proof (find_none_all _ _ H (j, u)) as Hf. rewrite <- in_rev in Hf.
    specialize (Hf Hju). unfold in_rng in Hf. cbn in *. lia.
  - intros H. destruct (find _ _) as [[i v]|] eqn:E; [|reflexivity].
    exfalso. apply find_some in E as [Hin Hr]. apply in_rev in Hin.
    apply (H v).
    + rewrite <- (index_from_snd 0 vers). apply in_map_iff. exists (i, v). split; [reflexivity|assumption].
    + unfold in_rng in Hr. cbn in Hr. lia.
Qed.

Theorem prepare_highest : forall vers allow lo hi,
  sorted_lt vers = true ->
  match prepare vers allow (Some (lo, hi)) with
  | Chosen i v => nth_error vers i = Some v /\ lo <= v <= hi /\
                  (forall w, In w vers -> lo <= w <= hi -> w <= v)
  | ErrNotImplemented => forall w, In w vers -> ~ (lo <= w <= hi)
  | _ => False
  end.
Proof.
  intros vers allow lo hi Hs. unfold prepare.
  destruct (prepare_pick vers lo hi) as [[i v]|] eqn:E.
  - destruct (pick_in_range _ _ _ _ _ E) as [Hn Hr]. repeat split; try assumption; try lia.
    exact (pick_highest _ _ _ _ _ Hs E).
  - apply pick_none. exact E.
Qed.

(* never outside the advertised range, sorted or not *)
Theorem prepare_in_range : forall vers allow lo hi i v,
  prepare vers allow (Some (lo, hi)) = Chosen i v -> nth_error vers i = Some v /\ lo <= v <= hi.
Proof.
  intros vers allow lo hi i v. unfold prepare.
  destruct (prepare_pick vers lo hi) as [[j u]|] eqn:E; [|discriminate].
  intros H. inversion H; subst. exact (pick_in_range _ _ _ _ _ E).
Qed.

(* api key unknown to the broker: only a builder with ALLOW_UNKNOWN_API_VERSION goes on,
   with its first class *)
Theorem prepare_unknown : forall vers allow,
  prepare vers allow None =
    if allow then match vers with v :: _ => Chosen 0 v | [] => ErrIndex end else ErrIncompatible.
Proof. reflexivity. Qed.

(* ------------------------------------------------------------------ guards *)
Theorem meaning_guard : forall key ver present p,
  0 <= ver -> listed p = true -> applies key p = true -> present p = true ->
  expressible key ver p = false ->
  guard key ver present = false.
Proof.
  intros key ver present p Hver Hl Ha Hp He.
  destruct p; try discriminate Hl; cbn in Ha, He; unfold guard;
    repeat match goal with
           | |- context [key =? ?k] => destruct (key =? k) eqn:?; try lia
           end;
    rewrite ?Hp; cbn;
    repeat match goal with
           | |- context [if ?c then _ else _] => destruct c eqn:?; try lia; try reflexivity
           end; try lia.
Qed.

(* an IncompatibleBrokerVersion from a guard is never spurious: some parameter that the
   version cannot express is present *)
Theorem guard_not_spurious : forall key ver present,
  guard key ver present = false ->
  exists p, applies key p = true /\ present p = true /\ expressible key ver p = false.
Proof.
  intros key ver present. unfold guard.
  destruct (key =? 0) eqn:K0.
  { intros H. exists PTransactionalId. cbn. destruct (present PTransactionalId); lia. }
  destruct (key =? 1) eqn:K1.
  { destruct (ver =? 4) eqn:?; [discriminate|]. destruct (5 <=? ver) eqn:?; [discriminate|].
    intros H. exists PIsolationLevel. cbn. rewrite K1. destruct (present PIsolationLevel); lia. }
  destruct (key =? 2) eqn:K2.
  { destruct (ver <? 2) eqn:?; [|discriminate].
    destruct (present PIsolationLevel) eqn:PI.
    - intros _. exists PIsolationLevel. cbn. rewrite K1, K2. lia.
    - destruct (ver =? 0) eqn:?; [|discriminate].
      intros H. exists PTimestampSearch. cbn. destruct (present PTimestampSearch); lia. }
  destruct (key =? 10) eqn:K10.
  { intros H. exists PCoordinatorType. cbn. destruct (present PCoordinatorType); lia. }
  destruct (key =? 15) eqn:K15.
  { intros H. exists PAuthorizedOps. cbn. destruct (present PAuthorizedOps); lia. }
  destruct (key =? 9) eqn:K9.
  { intros H. exists PPartitionsOmitted. cbn. destruct (present PPartitionsOmitted); lia. }
  destruct (key =? 19) eqn:K19.
  { intros H. exists PValidateOnly. cbn. destruct (present PValidateOnly); lia. }
  destruct (key =? 32) eqn:K32.
  { intros H. exists PIncludeSynonyms. cbn. destruct (present PIncludeSynonyms); lia. }
  destruct (key =? 21) eqn:K21.
  { intros H. exists PTags. cbn. destruct (present PTags); lia. }
  discriminate.
Qed.

(* the same statement for the outcome of prepare followed by build *)
Theorem negotiate_guarded : forall key vers allow adv present i v p,
  negotiate key vers allow adv present = Chosen i v -> 0 <= v ->
  listed p = true -> applies key p = true -> present p = true ->
  expressible key v p = true.
Proof.
  intros key vers allow adv present i v p H Hv Hl Ha Hp. unfold negotiate in H.
  destruct (prepare vers allow adv) as [j u| | |] eqn:E; try discriminate.
  destruct (guard key u present) eqn:G; [|discriminate].
  inversion H; subst.
  destruct (expressible key v p) eqn:X; [reflexivity|].
  rewrite (meaning_guard key v present p Hv Hl Ha Hp X) in G. discriminate.
Qed.

(* Beyond the property's list: parameters the builders drop silently.  The extended
   statement (every parameter of [all_params]) is false of the model; witnesses below. *)
Definition only (q : param) : param -> bool := param_eqb q.

Theorem unlisted_params_dropped :
  (* MetadataRequest(topics, allow_auto_topic_creation=False) on Metadata v1 *)
  (applies 3 PNoAutoTopicCreation = true /\ expressible 3 1 PNoAutoTopicCreation = false /\
   guard 3 1 (only PNoAutoTopicCreation) = true) /\
  (* JoinGroupRequest(..., group_instance_id="x", ...) on JoinGroup v2 *)
  (applies 11 PGroupInstanceId = true /\ expressible 11 2 PGroupInstanceId = false /\
   guard 11 2 (only PGroupInstanceId) = true) /\
  (* SyncGroupRequest(..., group_instance_id="x", ...) on SyncGroup v1 *)
  (applies 14 PGroupInstanceId = true /\ expressible 14 1 PGroupInstanceId = false /\
   guard 14 1 (only PGroupInstanceId) = true) /\
  (* FetchRequest(..., rack_id="r") on Fetch v10 (documented as intentional in fetch.py) *)
  (applies 1 PRackId = true /\ expressible 1 10 PRackId = false /\ guard 1 10 (only PRackId) = true) /\
  (* DescribeAclsRequest(..., resource_pattern_type_filter=PREFIXED, ...) on DescribeAcls v0 *)
  (applies 29 PPatternType = true /\ expressible 29 0 PPatternType = false /\
   guard 29 0 (only PPatternType) = true).
Proof. vm_compute. repeat split. Qed.

Lemma expressible_agrees : expressible_agrees_with_spec = true.
Proof. vm_compute. reflexivity. Qed.
