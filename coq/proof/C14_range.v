(* C14 — range assignor: validity and per-topic balance of [range_assign]. *)
From Coq Require Import Arith List Bool Lia PeanoNat ZArith ZifyBool.
From Verif Require Import C14_Assignors C14_lists.
Import ListNotations.
Ltac Zify.zify_post_hook ::= Z.to_euclidean_division_equations.

(* ---------------------------------------------------------------- slice arithmetic *)
Lemma range_start_succ : forall n k i,
  range_start n k (S i) = range_start n k i + range_len n k i.
Proof.
  intros. unfold range_start, range_len. rewrite Nat.mul_succ_r.
  destruct (Nat.leb_spec (i + 1) (n mod k)); lia.
Qed.

Lemma range_start_0 : forall n k, range_start n k 0 = 0.
Proof. intros. unfold range_start. rewrite Nat.mul_0_r. reflexivity. Qed.

Lemma range_start_k : forall n k, k > 0 -> range_start n k k = n.
Proof.
  intros. unfold range_start.
  pose proof (Nat.div_mod n k ltac:(lia)). pose proof (Nat.mod_upper_bound n k ltac:(lia)).
  rewrite Nat.min_r by lia. rewrite (Nat.mul_comm (n / k) k). lia.
Qed.

Lemma range_start_mono : forall n k i j, i <= j -> range_start n k i <= range_start n k j.
Proof.
  intros n k i j H. induction H; auto. rewrite range_start_succ. lia.
Qed.

Lemma range_len_bounds : forall n k i, n / k <= range_len n k i <= n / k + 1.
Proof. intros. unfold range_len. destruct (i + 1 <=? n mod k); lia. Qed.

Lemma range_slice_seq : forall n k i, k > 0 -> i < k ->
  range_slice n k i = seq (range_start n k i) (range_len n k i).
Proof.
  intros. unfold range_slice. apply firstn_skipn_seq.
  rewrite <- range_start_succ. rewrite <- (range_start_k n k) at 2 by lia.
  apply range_start_mono. lia.
Qed.

Lemma range_slice_In : forall n k i p, k > 0 -> i < k ->
  (In p (range_slice n k i) <-> range_start n k i <= p < range_start n k (S i)).
Proof.
  intros. rewrite range_slice_seq, in_seq, range_start_succ by auto. reflexivity.
Qed.

Lemma range_cover : forall n k p, k > 0 -> p < n ->
  exists i, i < k /\ range_start n k i <= p < range_start n k (S i).
Proof.
  intros n k p Hk Hp.
  assert (G : forall j, p < range_start n k j ->
                        exists i, i < j /\ range_start n k i <= p < range_start n k (S i)).
  { induction j; intros Hj.
    - rewrite range_start_0 in Hj. lia.
    - destruct (Nat.lt_ge_cases p (range_start n k j)) as [Hlt|Hge].
      + destruct (IHj Hlt) as [i [Hi Hr]]. exists i. split; auto.
      + exists j. split; auto. }
  apply G. rewrite range_start_k; auto.
Qed.

Lemma range_slices_disjoint : forall n k i j p, k > 0 -> i < k -> j < k -> i <> j ->
  In p (range_slice n k i) -> In p (range_slice n k j) -> False.
Proof.
  intros n k i j p Hk Hi Hj Hne H1 H2.
  apply range_slice_In in H1, H2; auto.
  destruct (Nat.lt_ge_cases i j).
  - pose proof (range_start_mono n k (S i) j ltac:(lia)). lia.
  - pose proof (range_start_mono n k (S j) i ltac:(lia)). lia.
Qed.

(* ---------------------------------------------------------------- last_index *)
Lemma last_index_from_notin : forall m l i acc, ~ In m l -> last_index_from m l i acc = acc.
Proof.
  induction l as [|x r IH]; simpl; intros i acc H; auto.
  rewrite IH by tauto. destruct (Nat.eqb_spec x m); auto. subst. tauto.
Qed.

Lemma last_index_from_some : forall m l i acc j,
  last_index_from m l i acc = Some j ->
  acc = Some j \/ (i <= j /\ j < i + length l /\ nth (j - i) l 0 = m).
Proof.
  induction l as [|x r IH]; simpl; intros i acc j H; auto.
  apply IH in H. destruct H as [H|[H1 [H2 H3]]].
  - destruct (Nat.eqb_spec x m).
    + inversion H; subst. right. rewrite Nat.sub_diag. split; [lia|split; [lia|reflexivity]].
    + auto.
  - right. split; [lia|split; [lia|]].
    replace (j - i) with (S (j - S i)) by lia. exact H3.
Qed.

Lemma last_index_from_nth : forall l k i acc, NoDup l -> k < length l ->
  last_index_from (nth k l 0) l i acc = Some (i + k).
Proof.
  induction l as [|x r IH]; simpl; intros k i acc Hn Hk; [lia|].
  inversion Hn; subst. destruct k.
  - rewrite Nat.eqb_refl. rewrite last_index_from_notin by auto. f_equal; lia.
  - rewrite IH by (auto; lia). f_equal; lia.
Qed.

Lemma last_index_some : forall m l i, last_index m l = Some i -> i < length l /\ nth i l 0 = m.
Proof.
  unfold last_index. intros m l i H. apply last_index_from_some in H.
  destruct H as [H|[_ [H1 H2]]]; [discriminate|]. rewrite Nat.sub_0_r in H2. split; [lia|auto].
Qed.

Lemma last_index_nth : forall l k, NoDup l -> k < length l -> last_index (nth k l 0) l = Some k.
Proof. intros. unfold last_index. rewrite last_index_from_nth; auto. Qed.

(* ---------------------------------------------------------------- consumers_for_topic *)
Lemma filter_eqb_nodup : forall t s, NoDup s ->
  filter (Nat.eqb t) s = [] \/ filter (Nat.eqb t) s = [t].
Proof.
  induction s as [|x s IH]; simpl; intros Hn; auto.
  inversion Hn; subst. destruct (Nat.eqb_spec t x) as [->|Hne]; auto.
  right. f_equal.
  assert (forall l, ~ In x l -> filter (Nat.eqb x) l = []) as F.
  { induction l as [|y l IHl]; simpl; intros Hl; auto.
    destruct (Nat.eqb_spec x y); [subst; tauto|]. apply IHl. tauto. }
  apply F; auto.
Qed.

Lemma cft_In : forall ms t m, In m (consumers_for_topic ms t) <-> subscribed ms m t.
Proof.
  intros. unfold consumers_for_topic, subscribed. rewrite sort_In, in_flat_map. split.
  - intros [[m' s] [Hin H]]. apply in_map_iff in H. destruct H as [t' [E Ht]]. subst.
    apply filter_In in Ht. destruct Ht as [Ht E]. apply Nat.eqb_eq in E. subst. eauto.
  - intros [s [Hin Ht]]. exists (m, s). split; auto. apply in_map_iff. exists t. split; auto.
    apply filter_In. split; auto. apply Nat.eqb_refl.
Qed.

Lemma cft_NoDup : forall ms t, ids_nodup ms -> subs_nodup ms -> NoDup (consumers_for_topic ms t).
Proof.
  intros ms t Hi Hs. unfold consumers_for_topic. apply sort_NoDup. apply NoDup_flat_map.
  - eapply NoDup_map_inv; eauto.
  - intros [m s] Hin. destruct (filter_eqb_nodup t s (Hs _ _ Hin)) as [E|E]; rewrite E; simpl.
    + constructor.
    + constructor; [simpl; tauto | constructor].
  - intros [m s] [m' s'] x Ha Hb Hne H1 H2.
    apply in_map_iff in H1, H2. destruct H1 as [? [<- _]], H2 as [? [E _]]. subst.
    apply Hne. eapply (NoDup_map_eq _ _ fst); eauto.
Qed.

(* ---------------------------------------------------------------- range_assign as a grid *)
Definition range_P (ppt : layout) (ms : members_t) (m : member) (t : topic) : option (list nat) :=
  match lookup_parts ppt t with
  | None => None
  | Some n =>
    let cs := consumers_for_topic ms t in
    match last_index m cs with
    | None => None
    | Some i => Some (range_slice n (length cs) i)
    end
  end.

Lemma range_assign_grid : forall ppt ms,
  range_assign ppt ms = grid_assign (range_P ppt ms) (all_topics ms) ms.
Proof.
  intros. unfold range_assign, grid_assign. apply map_ext. intros e. f_equal.
  unfold range_member, grid_member. apply flat_map_ext. intros t. unfold range_P.
  destruct (lookup_parts ppt t); auto.
  destruct (last_index (fst e) (consumers_for_topic ms t)); auto.
Qed.

Lemma range_P_some : forall ppt ms m t ps, range_P ppt ms m t = Some ps ->
  exists n i, lookup_parts ppt t = Some n /\
              let cs := consumers_for_topic ms t in
              i < length cs /\ nth i cs 0 = m /\ ps = range_slice n (length cs) i.
Proof.
  unfold range_P. intros ppt ms m t ps H.
  destruct (lookup_parts ppt t) as [n|]; [|discriminate].
  destruct (last_index m (consumers_for_topic ms t)) as [i|] eqn:E; [|discriminate].
  inversion H; subst. apply last_index_some in E. destruct E. exists n, i. auto.
Qed.

Theorem range_valid : forall ppt ms, ids_nodup ms -> subs_nodup ms ->
  valid ppt ms (triples_of (range_assign ppt ms)).
Proof.
  intros ppt ms Hi Hs. rewrite range_assign_grid. split; [|split].
  - apply grid_NoDup; auto using all_topics_NoDup.
    + intros m t ps H. apply range_P_some in H. destruct H as [n [i [_ [Hlt [_ ->]]]]].
      rewrite range_slice_seq by lia. apply seq_NoDup.
    + intros m m' t ps ps' p Hne H H'.
      apply range_P_some in H, H'.
      destruct H as [n [i [L [Hlt [Hn ->]]]]], H' as [n' [i' [L' [Hlt' [Hn' ->]]]]].
      rewrite L in L'. inversion L'; subst n'.
      apply range_slices_disjoint; try lia. intros ->. congruence.
  - intros m [t p] H. apply grid_In in H. simpl in *.
    destruct H as [Hm [Ht [ps [HP Hp]]]]. apply range_P_some in HP.
    destruct HP as [n [i [L [Hlt [Hn ->]]]]]. split.
    + apply cft_In. rewrite <- Hn. apply nth_In; auto.
    + exists n. split; auto. simpl. apply range_slice_In in Hp; try lia.
      pose proof (range_start_mono n (length (consumers_for_topic ms t)) (S i) _ Hlt) as Hmn.
      rewrite range_start_k in Hmn by lia. lia.
  - intros [t p] [[n [L Hp]] [m0 Hsub]]. simpl in *.
    pose proof (proj2 (cft_In ms t m0) Hsub) as Hin0.
    set (cs := consumers_for_topic ms t) in *.
    assert (Hk : length cs > 0) by (destruct cs; simpl in *; [tauto|lia]).
    destruct (range_cover n (length cs) p Hk Hp) as [i [Hi' Hr]].
    exists (nth i cs 0). apply grid_In. simpl.
    assert (Hsub' : subscribed ms (nth i cs 0) t) by (apply cft_In; apply nth_In; auto).
    split; [|split].
    + destruct Hsub' as [s [Hin _]]. apply in_map_iff. exists (nth i cs 0, s). auto.
    + apply all_topics_In. eauto.
    + exists (range_slice n (length cs) i). split.
      * unfold range_P. rewrite L. fold cs. rewrite last_index_nth; auto.
        apply cft_NoDup; auto.
      * apply range_slice_In; auto.
Qed.

(* ---------------------------------------------------------------- per-topic loads of a grid *)
Lemma load_topic_app : forall tr1 tr2 m t,
  load_topic (tr1 ++ tr2) m t = load_topic tr1 m t ++ load_topic tr2 m t.
Proof. intros. unfold load_topic. rewrite filter_app, map_app. reflexivity. Qed.

Lemma load_topic_cons : forall (x : nat * (nat * nat)) (tr : list (nat * (nat * nat))) (m t : nat),
  load_topic (x :: tr) m t =
  if Nat.eqb (fst x) m && Nat.eqb (fst (snd x)) t then snd (snd x) :: load_topic tr m t
  else load_topic tr m t.
Proof.
  intros. unfold load_topic. simpl.
  destruct (Nat.eqb (fst x) m && Nat.eqb (fst (snd x)) t); reflexivity.
Qed.

Lemma load_topic_none : forall (tr : list (nat * (nat * nat))) (m t : nat),
  (forall x, In x tr -> fst x <> m \/ fst (snd x) <> t) -> load_topic tr m t = [].
Proof.
  induction tr as [|x tr IH]; intros m t H; auto.
  rewrite load_topic_cons.
  assert (E : Nat.eqb (fst x) m && Nat.eqb (fst (snd x)) t = false).
  { apply andb_false_iff. destruct (H x (or_introl eq_refl)); [left|right]; apply Nat.eqb_neq; auto. }
  rewrite E. apply IH. intros; apply H; simpl; auto.
Qed.

Lemma load_topic_all : forall m t ps,
  load_topic (map (fun p => (m, (t, p))) ps) m t = ps.
Proof.
  induction ps as [|p ps IH]; simpl; auto.
  rewrite load_topic_cons. simpl. rewrite !Nat.eqb_refl. simpl. f_equal. exact IH.
Qed.

Lemma grid_member_load_topic : forall P topics m t, NoDup topics -> In t topics ->
  load_topic (triples_of_massign m (grid_member P topics m)) m t =
  match P m t with Some ps => ps | None => [] end.
Proof.
  intros P topics m t. unfold triples_of_massign, grid_member.
  induction topics as [|t' topics IH]; simpl; intros Hn Hin; [tauto|].
  inversion Hn as [|? ? Hnotin Hn']; subst. rewrite flat_map_app, load_topic_app.
  destruct Hin as [->|Hin].
  - rewrite (load_topic_none (flat_map _ (flat_map _ topics))).
    + rewrite app_nil_r. destruct (P m t); simpl; auto. rewrite app_nil_r. apply load_topic_all.
    + intros [m' [t'' p]] Hx. apply in_flat_map in Hx. destruct Hx as [[t3 ps] [Ha Hb]].
      apply in_flat_map in Ha. destruct Ha as [t4 [Hc Hd]].
      destruct (P m t4); simpl in Hd; [|tauto]. destruct Hd as [Hd|[]]. inversion Hd; subst.
      apply in_map_iff in Hb. destruct Hb as [p' [E _]]. inversion E; subst. simpl.
      right. intros ->. auto.
  - rewrite IH by auto. rewrite load_topic_none; auto.
    intros [m' [t'' p]] Hx. destruct (P m t'); simpl in Hx; [|tauto].
    rewrite app_nil_r in Hx. apply in_map_iff in Hx. destruct Hx as [p' [E _]].
    inversion E; subst. simpl. right. intros ->. auto.
Qed.

Lemma grid_load_topic : forall P topics ms m t,
  NoDup (map fst ms) -> NoDup topics -> In m (map fst ms) -> In t topics ->
  load_topic (triples_of (grid_assign P topics ms)) m t =
  match P m t with Some ps => ps | None => [] end.
Proof.
  intros P topics ms m t Hm Ht. unfold triples_of, grid_assign.
  induction ms as [|e ms IH]; simpl; intros Hin Hint; [tauto|].
  inversion Hm; subst. rewrite load_topic_app.
  assert (Hother : forall m' l, m' <> m ->
            load_topic (triples_of_massign m' l) m t = []).
  { intros m' l Hne. apply load_topic_none. intros [m2 x] Hx.
    unfold triples_of_massign in Hx. apply in_flat_map in Hx. destruct Hx as [[t2 ps] [_ Hx]].
    apply in_map_iff in Hx. destruct Hx as [p [E _]]. inversion E; subst. simpl. auto. }
  destruct Hin as [E|Hin].
  - subst. rewrite grid_member_load_topic by auto.
    rewrite load_topic_none; [apply app_nil_r|].
    intros [m2 x] Hx. apply in_flat_map in Hx. destruct Hx as [[m3 a] [H5 H6]].
    apply in_map_iff in H5. destruct H5 as [e' [E He']]. inversion E; subst.
    unfold triples_of_massign in H6. apply in_flat_map in H6. destruct H6 as [[t2 ps] [_ Hx]].
    apply in_map_iff in Hx. destruct Hx as [p [E2 _]]. inversion E2; subst. simpl.
    left. intros E3. apply H1. rewrite <- E3. apply in_map; auto.
  - rewrite Hother.
    + simpl. apply IH; auto.
    + intros E. apply H1. rewrite E. auto.
Qed.

Theorem range_balanced : forall ppt ms t n, ids_nodup ms -> subs_nodup ms ->
  lookup_parts ppt t = Some n ->
  let tr := triples_of (range_assign ppt ms) in
  let k := length (consumers_for_topic ms t) in
  forall m, subscribed ms m t ->
    exists i, i < k /\ nth i (consumers_for_topic ms t) 0 = m /\
              load_topic tr m t = seq (range_start n k i) (range_len n k i) /\
              n / k <= range_len n k i <= n / k + 1.
Proof.
  intros ppt ms t n Hi Hs L tr k m Hsub. subst tr.
  rewrite range_assign_grid.
  assert (Hin : In m (consumers_for_topic ms t)) by (apply cft_In; auto).
  destruct (In_nth _ _ 0 Hin) as [i [Hlt Hnth]].
  exists i. split; auto. split; auto. split; [|apply range_len_bounds].
  rewrite grid_load_topic; auto using all_topics_NoDup.
  - unfold range_P. rewrite L. rewrite <- Hnth.
    rewrite last_index_nth by (auto using cft_NoDup).
    subst k. apply range_slice_seq; lia.
  - destruct Hsub as [s [Hs' _]]. apply in_map_iff. exists (m, s). auto.
  - apply all_topics_In. eauto.
Qed.

Corollary range_within_one_per_topic : forall ppt ms t n, ids_nodup ms -> subs_nodup ms ->
  lookup_parts ppt t = Some n ->
  let tr := triples_of (range_assign ppt ms) in
  forall m1 m2, subscribed ms m1 t -> subscribed ms m2 t ->
    length (load_topic tr m1 t) <= length (load_topic tr m2 t) + 1.
Proof.
  intros ppt ms t n Hi Hs L tr m1 m2 H1 H2.
  destruct (range_balanced ppt ms t n Hi Hs L m1 H1) as [i1 [_ [_ [E1 B1]]]].
  destruct (range_balanced ppt ms t n Hi Hs L m2 H2) as [i2 [_ [_ [E2 B2]]]].
  subst tr. rewrite E1, E2, !seq_length. lia.
Qed.
