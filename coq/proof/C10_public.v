(* C10_public.v — the statements exported by props/C10.v, derived from the main lemmas. *)
From Coq Require Import ZArith List Bool String.
From Verif Require Import C10_Base C10_DecodeSafeCy C10_DecodeSafePy C10_wp C10_cy_proof C10_py_proof
                          C10_crc_proof C10_refute.
Import ListNotations.
Open Scope Z_scope.
Open Scope string_scope.

(* the full statement for a given state of the code: every run of the driver
   (MemoryRecords -> batches -> [validate_crc] -> records) over ANY byte list ends with all records
   delivered or an ordinary Python exception — no out-of-bounds read, no non-termination, no
   SystemError / MemoryError / OverflowError from C-API internals *)
Definition C10_cy_safe (fx : fixes) : Prop :=
  forall crc32c crc32 dec validate buf, dec_small dec -> small buf ->
    ok_status (snd (cy_decode crc32c crc32 dec fx validate buf)).
Definition C10_py_safe (fx : fixes) : Prop :=
  forall crc32c crc32 dec validate buf,
    ok_status (snd (py_decode crc32c crc32 dec fx validate buf)).

Lemma cy_no_oob : forall crc32c crc32 dec validate buf, dec_small dec -> small buf ->
  forall site space pos n len,
    snd (cy_decode crc32c crc32 dec fx_repaired validate buf) <> SFail (FOOB site space pos n len).
Proof.
  intros until buf. intros Hd Hs site space pos n len E.
  pose proof (cy_decode_ok crc32c crc32 dec validate buf Hd Hs) as H. rewrite E in H. exact H.
Qed.

Lemma cy_terminates : forall crc32c crc32 dec validate buf, dec_small dec -> small buf ->
  forall site, snd (cy_decode crc32c crc32 dec fx_repaired validate buf) <> SFail (FFuel site).
Proof.
  intros until buf. intros Hd Hs site E.
  pose proof (cy_decode_ok crc32c crc32 dec validate buf Hd Hs) as H. rewrite E in H. exact H.
Qed.

Lemma cy_clean : forall crc32c crc32 dec validate buf, dec_small dec -> small buf ->
  forall site e, snd (cy_decode crc32c crc32 dec fx_repaired validate buf) <> SFail (FInternal site e).
Proof.
  intros until buf. intros Hd Hs site e E.
  pose proof (cy_decode_ok crc32c crc32 dec validate buf Hd Hs) as H. rewrite E in H. exact H.
Qed.

Lemma py_terminates : forall crc32c crc32 dec validate buf site,
  snd (py_decode crc32c crc32 dec fx_repaired validate buf) <> SFail (FFuel site).
Proof.
  intros until site. intros E.
  pose proof (py_decode_ok crc32c crc32 dec validate buf) as H. rewrite E in H. exact H.
Qed.

Lemma py_clean : forall crc32c crc32 dec validate buf,
  (forall site e, snd (py_decode crc32c crc32 dec fx_repaired validate buf) <> SFail (FInternal site e))
  /\ (forall site sp p n l, snd (py_decode crc32c crc32 dec fx_repaired validate buf) <> SFail (FOOB site sp p n l)).
Proof.
  intros. pose proof (py_decode_ok crc32c crc32 dec validate buf) as H.
  split; intros; intro E; rewrite E in H; exact H.
Qed.

Lemma py_batches_safe : forall crc32c crc32 dec validate magic buf,
  ok_status (snd (py_v2_run crc32c dec validate buf))
  /\ ok_status (snd (py_l_run crc32 dec fx_repaired validate magic buf)).
Proof. intros. split; [apply py_v2_run_ok|apply py_l_run_ok]. Qed.

Lemma crc_detects :
  (forall crc32c dec f buf h,
     cy_v2_read_header f buf = Ok h -> v2_crc_field buf <> crc32c (v2_crc_content buf) ->
     cy_v2_run crc32c dec f true buf = ([], SFail (FRaise Corrupt)))
  /\ (forall crc32 dec f magic buf m p,
     cy_l_read_record f 0 buf 0 = Ok (m, p) -> l_crc_field buf <> crc32 (l_crc_content buf) ->
     cy_l_run crc32 dec f true magic buf = ([], SFail (FRaise Corrupt)))
  /\ (forall crc32c dec buf h,
     py_v2_new buf = Ok h -> v2_crc_field buf <> crc32c (v2_crc_content buf) ->
     py_v2_run crc32c dec true buf = ([], SFail (FRaise Corrupt)))
  /\ (forall crc32 dec f magic buf h,
     py_l_new magic buf = Ok h -> l_crc_field buf <> crc32 (l_crc_content buf) ->
     py_l_run crc32 dec f true magic buf = ([], SFail (FRaise Corrupt))).
Proof.
  split; [exact cy_v2_crc_detects|]. split; [exact cy_l_crc_detects|].
  split; [exact py_v2_crc_detects|exact py_l_crc_detects].
Qed.

Lemma cy_no_oob_current_refuted :
  exists crc32c crc32, exists d1 d2 d3 : Z -> list Z -> dres, exists b1 b2 b3 b4,
    snd (cy_decode crc32c crc32 d1 fx_current false b1) = SFail (FOOB "default_records._read_header" 0 23 4 26)
    /\ snd (cy_decode crc32c crc32 d1 fx_current false b2) = SFail (FOOB "cutil.decode_varint64" 0 62 1 62)
    /\ snd (cy_decode crc32c crc32 d1 fx_current false b3) = SFail (FOOB "legacy_records._read_record" 0 26 4 26)
    /\ snd (cy_decode crc32c crc32 d2 fx_current false b4) = SFail (FOOB "legacy_records._read_last_offset" 1 8 4 5)
    /\ snd (cy_decode crc32c crc32 d3 fx_current false b4) = SFail (FOOB "legacy_records._read_last_offset" 1 (-12) 8 0).
Proof.
  exists C, C2, D0, D5, DE, w_hdr, w_varint, w_vlen, w_wrap.
  rewrite w_hdr_cur, w_varint_cur, w_vlen_cur, w_last5_cur, w_last0_cur. repeat split.
Qed.

Lemma cy_terminates_current_refuted :
  exists crc32c crc32 dec buf,
    snd (cy_decode crc32c crc32 dec fx_current false buf) = SFail (FFuel "legacy_records._read_last_offset").
Proof. exists C, C2, DH, w_wrap. rewrite w_hang_cy_cur. reflexivity. Qed.

Lemma cy_clean_current_refuted :
  exists crc32c crc32 dec b1 b2 b3,
    snd (cy_decode crc32c crc32 dec fx_current false b1) = SFail (FInternal "legacy_records._read_record" "SystemError")
    /\ snd (cy_decode crc32c crc32 dec fx_current false b2) = SFail (FInternal "default_records._read_msg" "OverflowError")
    /\ snd (cy_decode crc32c crc32 dec fx_current false b3) = SFail (FInternal "default_records._read_msg" "MemoryError").
Proof.
  exists C, C2, D0, w_neg, w_ovf, w_mem. rewrite w_neg_cur, w_ovf_cur, w_mem_cur. repeat split.
Qed.

Lemma py_terminates_current_refuted :
  exists crc32c crc32 dec buf,
    snd (py_decode crc32c crc32 dec fx_current false buf) = SFail (FFuel "legacy_records.py._read_all_headers").
Proof. exists C, C2, DH, w_wrap. rewrite w_hang_py_cur. reflexivity. Qed.

Lemma current_unsafe : ~ C10_cy_safe fx_current /\ ~ C10_py_safe fx_current.
Proof.
  split; intro H.
  - specialize (H C C2 D0 false w_hdr).
    assert (Hd : dec_small D0) by (intros c p out E; discriminate).
    assert (Hs : small w_hdr) by (vm_compute; reflexivity).
    specialize (H Hd Hs). rewrite w_hdr_cur in H. exact H.
  - specialize (H C C2 DH false w_wrap). rewrite w_hang_py_cur in H. exact H.
Qed.
