(* C09_legacy.v — round trip of the legacy (v0 / v1) builder and reader models. *)
From Coq Require Import ZArith List Bool Lia ZifyBool.
From Verif Require Import Bits C09Bytes C09_Crc C09_Varint C09_RecordV2 C09_Legacy C09_MemRecords C09_Valid
  C09_split C09_v2.
Import ListNotations.
Open Scope Z_scope.
Ltac Zify.zify_post_hook ::= Z.to_euclidean_division_equations.

Ltac ul := unfold valid_lrec, valid_lcfg, int64, int32, int16 in *; unfold INT64_MIN, INT64_MAX, TWO31 in *.

(* ---- the builder ------------------------------------------------------------------------------------- *)
Lemma lappend_spec c buf r :
  lappend c buf r = (buf, None) \/
  exists m, lappend c buf r = (buf ++ lmsg_of c r, Some m).
Proof.
  unfold lappend. destruct (negb (r_offset r =? 0) && _); [left; reflexivity|right].
  eexists. reflexivity.
Qed.

Lemma lappends_spec c : forall rs buf,
  fst (lappends c buf rs) = buf ++ concat (map (lmsg_of c) (laccepted rs (snd (lappends c buf rs)))).
Proof.
  induction rs as [|r rs IH]; intros buf.
  - cbn. rewrite app_nil_r. reflexivity.
  - cbn [lappends]. destruct (lappend_spec c buf r) as [E|(m & E)]; rewrite E.
    + specialize (IH buf). destruct (lappends c buf rs) as [b2 ms]. cbn [fst snd laccepted] in *. exact IH.
    + specialize (IH (buf ++ lmsg_of c r)). destruct (lappends c (buf ++ lmsg_of c r) rs) as [b2 ms].
      cbn [fst snd laccepted map concat] in *. rewrite IH, <- app_assoc. reflexivity.
Qed.

Lemma laccepted_valid rs : forall ms, Forall valid_lrec rs -> Forall valid_lrec (laccepted rs ms).
Proof.
  induction rs as [|r rs IH]; intros ms H; [constructor|].
  inversion H; subst. destruct ms as [|[m|] ms]; cbn [laccepted]; [constructor| |]; auto.
Qed.

(* ---- one message ---------------------------------------------------------------------------------------- *)
Lemma enc_len_bytes_len o : blen (enc_len_bytes o) = 4 + olen o.
Proof. destruct o; cbn [enc_len_bytes olen]; rewrite ?blen_app, be_blen; change (Z.of_nat 4) with 4; lia. Qed.

Lemma msg_tail_len magic attrs ts k v : magic = 0 \/ magic = 1 ->
  blen (msg_tail magic attrs ts k v) = (if magic =? 0 then 10 else 18) + olen k + olen v.
Proof.
  intros [-> | ->]; unfold msg_tail; cbn [Z.eqb]; rewrite ?blen_app, !enc_len_bytes_len, ?be_blen;
    change (blen []) with 0; change (Z.of_nat 1) with 1; change (Z.of_nat 8) with 8; lia.
Qed.

Lemma dec_len_bytes_enc o rest : olen o < TWO31 ->
  dec_len_bytes (enc_len_bytes o ++ rest) = Some (o, rest).
Proof.
  intros H. unfold dec_len_bytes, enc_len_bytes. destruct o as [b|]; cbn [olen] in H.
  - pose proof (blen_nonneg b). rewrite <- app_assoc. rewrite take_s4 by (ul; lia). cbn [bind].
    replace (blen b =? -1) with false by lia. rewrite take_app by reflexivity. reflexivity.
  - rewrite take_s4 by (ul; lia). reflexivity.
Qed.

Definition lmsg_w (magic off ts : Z) (k v : obytes) (attrs : Z) : lmsg :=
  mkLMsg off (blen (msg_tail magic attrs ts k v) + 4) (crc32 (msg_tail magic attrs ts k v)) magic attrs
         (if magic =? 0 then None else Some ts) k v.

Lemma parse_encode_msg i magic off ts k v attrs rest :
  magic = 0 \/ magic = 1 -> int64 off -> int64 ts -> -128 <= attrs <= 127 ->
  olen k + olen v < TWO31 - 64 ->
  parse_msg i magic (encode_msg magic off ts k v attrs ++ rest)
  = Some (lmsg_w magic off ts k v attrs, rest).
Proof.
  intros Hm Hoff Hts Hat Hkv.
  pose proof (olen_nonneg k). pose proof (olen_nonneg v).
  pose proof (msg_tail_len magic attrs ts k v Hm) as Hlen.
  unfold parse_msg, encode_msg. cbv zeta. rewrite <- !app_assoc.
  rewrite take_s8 by assumption. cbn [bind].
  rewrite take_s4 by (destruct Hm as [-> | ->]; cbn [Z.eqb] in Hlen; ul; lia). cbn [bind].
  rewrite take_u4 by apply crc32_range. cbn [bind].
  set (tail := msg_tail magic attrs ts k v) in *.
  assert (Htail : tail ++ rest = be 1 magic ++ be 1 attrs ++ (if magic =? 0 then [] else be 8 ts)
                   ++ enc_len_bytes k ++ enc_len_bytes v ++ rest).
  { subst tail. unfold msg_tail. rewrite <- !app_assoc. reflexivity. }
  rewrite Htail.
  rewrite take_s1 by (unfold int8; destruct Hm; lia). cbn [bind].
  rewrite take_s1 by (unfold int8; lia). cbn [bind].
  assert (Hv1 : (match i with Py => negb (magic =? 0) | Cy => magic =? 1 end) = negb (magic =? 0)).
  { destruct i; [reflexivity|]. destruct Hm as [-> | ->]; reflexivity. }
  rewrite Hv1.
  assert (Hrest : forall l8, (match i with
                    | Py => skipn (Z.to_nat (LOG_OVERHEAD + (blen tail + 4)))
                              (be 8 off ++ be 4 (blen tail + 4) ++ be 4 (crc32 tail) ++ be 1 magic ++ be 1 attrs
                               ++ (if magic =? 0 then [] else be 8 ts) ++ enc_len_bytes k ++ enc_len_bytes v ++ rest)
                    | Cy => l8 end) = match i with Py => rest | Cy => l8 end).
  { intros l8. destruct i; [|reflexivity].
    rewrite <- Htail.
    replace (be 8 off ++ be 4 (blen tail + 4) ++ be 4 (crc32 tail) ++ tail ++ rest)
      with ((be 8 off ++ be 4 (blen tail + 4) ++ be 4 (crc32 tail) ++ tail) ++ rest)
      by (rewrite <- !app_assoc; reflexivity).
    replace (Z.to_nat (LOG_OVERHEAD + (blen tail + 4)))
      with (List.length (be 8 off ++ be 4 (blen tail + 4) ++ be 4 (crc32 tail) ++ tail)).
    - apply skipn_app_exact.
    - rewrite !app_length, !be_length. unfold LOG_OVERHEAD, blen. lia. }
  destruct Hm as [-> | ->]; cbn [Z.eqb negb app bind].
  - rewrite dec_len_bytes_enc by (ul; lia). cbn [bind].
    rewrite dec_len_bytes_enc by (ul; lia). cbn [bind].
    cbn [Z.eqb app] in Hrest. rewrite Hrest. unfold lmsg_w. cbn [Z.eqb]. destruct i; reflexivity.
  - rewrite take_s8 by assumption. cbn [bind].
    rewrite dec_len_bytes_enc by (ul; lia). cbn [bind].
    rewrite dec_len_bytes_enc by (ul; lia). cbn [bind].
    cbn [Z.eqb app] in Hrest. rewrite Hrest. unfold lmsg_w. cbn [Z.eqb]. destruct i; reflexivity.
Qed.

Lemma lmsg_ts_int64 c r : valid_lrec r -> int64 (lmsg_ts c r).
Proof. intros (H & _). unfold lmsg_ts. destruct (lc_magic c =? 0); ul; lia. Qed.

Lemma lread_plain i c r : valid_lcfg c -> valid_lrec r ->
  lread no_decompress i (lc_magic c) (lmsg_of c r) = Some [lexpect c r].
Proof.
  intros (Hm & _) Hr. pose proof Hr as (Hts & Hoff & Hkv).
  unfold lread, lmsg_of.
  rewrite <- (app_nil_r (encode_msg _ _ _ _ _ _)).
  rewrite parse_encode_msg; try assumption; try lia; [| ul; lia | apply lmsg_ts_int64; exact Hr].
  cbn [bind]. unfold lmsg_w. cbn [g_attrs g_ts g_offset g_key g_value g_crc].
  change (Z.land 0 CODEC_MASK) with 0. change (Z.land 0 TS_TYPE_MASK) with 0. cbn [Z.eqb negb].
  unfold lexpect, lmsg_crc, lmsg_ts.
  destruct Hm as [-> | ->]; cbn [Z.eqb]; destruct i; cbn [out_ts]; try reflexivity.
  replace (r_ts r =? -1) with false by lia. reflexivity.
Qed.

Lemma lvalidate_msg magic off ts k v attrs :
  lvalidate_crc (encode_msg magic off ts k v attrs) = true.
Proof.
  unfold lvalidate_crc, encode_msg. cbv zeta.
  set (tail := msg_tail magic attrs ts k v).
  replace (skipn 12 (be 8 off ++ be 4 (blen tail + 4) ++ be 4 (crc32 tail) ++ tail))
    with (be 4 (crc32 tail) ++ tail).
  2:{ replace (be 8 off ++ be 4 (blen tail + 4) ++ be 4 (crc32 tail) ++ tail)
        with ((be 8 off ++ be 4 (blen tail + 4)) ++ be 4 (crc32 tail) ++ tail) by (rewrite <- app_assoc; reflexivity).
      replace 12%nat with (List.length (be 8 off ++ be 4 (blen tail + 4))) by (rewrite app_length, !be_length; reflexivity).
      rewrite skipn_app_exact. reflexivity. }
  replace (skipn 16 (be 8 off ++ be 4 (blen tail + 4) ++ be 4 (crc32 tail) ++ tail)) with tail.
  2:{ replace (be 8 off ++ be 4 (blen tail + 4) ++ be 4 (crc32 tail) ++ tail)
        with ((be 8 off ++ be 4 (blen tail + 4) ++ be 4 (crc32 tail)) ++ tail) by (rewrite <- !app_assoc; reflexivity).
      replace 16%nat with (List.length (be 8 off ++ be 4 (blen tail + 4) ++ be 4 (crc32 tail)))
        by (rewrite !app_length, !be_length; reflexivity).
      rewrite skipn_app_exact. reflexivity. }
  rewrite take_u4 by apply crc32_range. apply Z.eqb_refl.
Qed.

(* a message is a well-formed batch for the splitter, and carries its magic at byte 16 *)
Lemma lmsg_wf c r : valid_lcfg c -> valid_lrec r ->
  wf_batch (lmsg_of c r) /\ nth 16 (lmsg_of c r) 0 = lc_magic c.
Proof.
  intros (Hm & _) (Hts & Hoff & Hkv).
  pose proof (olen_nonneg (r_key r)). pose proof (olen_nonneg (r_value r)).
  pose proof (msg_tail_len (lc_magic c) 0 (lmsg_ts c r) (r_key r) (r_value r) Hm) as Hlen.
  unfold lmsg_of, encode_msg. cbv zeta.
  set (tail := msg_tail (lc_magic c) 0 (lmsg_ts c r) (r_key r) (r_value r)) in *.
  assert (Hb : blen (be 8 (r_offset r) ++ be 4 (blen tail + 4) ++ be 4 (crc32 tail) ++ tail) = 16 + blen tail)
    by (rewrite !blen_app, !be_blen; lia).
  split; [split|].
  - rewrite Hb. destruct Hm as [E | E]; rewrite E in Hlen; cbn [Z.eqb] in Hlen; lia.
  - pose proof (slice_app_mid (be 8 (r_offset r)) (be 4 (blen tail + 4)) (be 4 (crc32 tail) ++ tail)) as Hs.
    rewrite !be_blen in Hs. change (Z.of_nat 8 + Z.of_nat 4) with 12 in Hs. change (Z.of_nat 8) with 8 in Hs.
    rewrite Hs, Hb. rewrite signed_be_be; [lia | lia |].
    change (256 ^ Z.of_nat 4) with 4294967296.
    destruct Hm as [E | E]; rewrite E in Hlen; cbn [Z.eqb] in Hlen; ul; lia.
  - replace (be 8 (r_offset r) ++ be 4 (blen tail + 4) ++ be 4 (crc32 tail) ++ tail)
      with ((be 8 (r_offset r) ++ be 4 (blen tail + 4) ++ be 4 (crc32 tail)) ++ tail) by (rewrite <- !app_assoc; reflexivity).
    rewrite app_nth2 by (rewrite !app_length, !be_length; lia).
    rewrite !app_length, !be_length. cbn [Nat.add Nat.sub].
    subst tail. unfold msg_tail. destruct Hm as [-> | ->]; reflexivity.
Qed.

Theorem legacy_roundtrip i c rs :
  valid_lcfg c -> lc_codec c = 0 -> Forall valid_lrec rs ->
  let buf := fst (lappends c [] rs) in
  let acc := laccepted rs (snd (lappends c [] rs)) in
  lbuild no_compress c buf = Some buf
  /\ split i buf = (map (fun r => (lc_magic c, lmsg_of c r)) acc, Some [])
  /\ Forall (fun r => lread no_decompress i (lc_magic c) (lmsg_of c r) = Some [lexpect c r]
                      /\ lvalidate_crc (lmsg_of c r) = true) acc.
Proof.
  intros Hc Hcodec Hrs buf acc.
  pose proof (laccepted_valid rs (snd (lappends c [] rs)) Hrs) as Hacc. fold acc in Hacc.
  assert (Hbuf : buf = concat (map (lmsg_of c) acc)).
  { subst buf acc. rewrite lappends_spec. reflexivity. }
  split; [unfold lbuild; rewrite Hcodec; reflexivity|]. split.
  - rewrite Hbuf. rewrite <- (app_nil_r (concat _)).
    rewrite split_concat.
    + f_equal. rewrite map_map. apply map_ext_in. intros r Hin.
      rewrite Forall_forall in Hacc. destruct (lmsg_wf c r Hc (Hacc r Hin)) as (_ & Hn).
      unfold tag. rewrite Hn. f_equal.
      destruct Hc as ([-> | ->] & _); destruct i; reflexivity.
    + rewrite Forall_forall. intros b Hb. apply in_map_iff in Hb. destruct Hb as (r & <- & Hin).
      rewrite Forall_forall in Hacc. apply (lmsg_wf c r Hc (Hacc r Hin)).
    + left. cbn. lia.
  - rewrite Forall_forall in *. intros r Hin. split.
    + apply lread_plain; auto.
    + apply lvalidate_msg.
Qed.

(* ---- size accounting of the legacy builder ----------------------------------------------------------- *)
Lemma lmsg_len c r : valid_lcfg c -> blen (lmsg_of c r) = msg_size (lc_magic c) (r_key r) (r_value r).
Proof.
  intros (Hm & _). unfold lmsg_of, encode_msg, msg_size, LOG_OVERHEAD, record_overhead. cbv zeta.
  rewrite !blen_app, !be_blen, msg_tail_len by exact Hm.
  destruct Hm as [-> | ->]; cbn [Z.eqb]; lia.
Qed.

(* append() is refused exactly when offset != 0 and the bytes so far plus this message reach
   batch_size; an accepted append adds exactly the message; size() is the number of bytes *)
Theorem legacy_size_accounting c buf r : valid_lcfg c ->
  let after := blen buf + blen (lmsg_of c r) in
  let refuse := negb (r_offset r =? 0) && (lc_batch_size c <=? after) in
  lappend c buf r =
    (if refuse then buf else buf ++ lmsg_of c r,
     if refuse then None
     else Some (mkLMeta (r_offset r) (lmsg_crc c r) (blen (lmsg_of c r)) (lmsg_ts c r))).
Proof.
  intros Hc after refuse. subst after refuse. rewrite lmsg_len by exact Hc.
  unfold lappend. fold (lmsg_ts c r).
  destruct (negb (r_offset r =? 0) && (lc_batch_size c <=? blen buf + msg_size (lc_magic c) (r_key r) (r_value r)));
    [reflexivity|].
  f_equal. f_equal. f_equal.
  (* the CRC reported in the metadata is the one written at bytes 12..16 *)
  fold (lmsg_of c r). unfold lmsg_of, encode_msg. cbv zeta.
  set (tail := msg_tail (lc_magic c) 0 (lmsg_ts c r) (r_key r) (r_value r)).
  pose proof (slice_app_mid (be 8 (r_offset r) ++ be 4 (blen tail + 4)) (be 4 (crc32 tail)) tail) as Hs.
  rewrite blen_app, !be_blen in Hs. rewrite <- !app_assoc in Hs.
  change (Z.of_nat 8 + Z.of_nat 4) with 12 in Hs. change (12 + Z.of_nat 4) with 16 in Hs.
  rewrite Hs. rewrite unsigned_be_small; [reflexivity|].
  change (256 ^ Z.of_nat 4) with 4294967296. apply crc32_range.
Qed.
