(* C03_main.v — invariants of the fetcher model, refinement to the API-level specification
   automaton, exactness of the specification, and the derived clauses of C03. *)
From Coq Require Import ZArith List Bool Lia ZifyBool.
From Verif Require Import C03_Fetcher C03_lists.
Import ListNotations.
Open Scope Z_scope.

Lemma opt_eqb_true a b : opt_eqb a b = true <-> a = Some b.
Proof. destruct a as [x|]; simpl; split; intros H; try discriminate; [f_equal; lia|inversion H; lia]. Qed.

Lemma res_eqb_true a b : res_eqb a b = true <-> a = b.
Proof.
  destruct a, b; simpl; split; intros H; try discriminate; try reflexivity;
    [f_equal; lia|inversion H; lia].
Qed.

Lemma last_or_cons d x l : last_or d (x :: l) = last_or x l.
Proof. reflexivity. Qed.

Lemma last_or_indep l : forall d d', l <> [] -> last_or d l = last_or d' l.
Proof. destruct l; intros; [congruence|reflexivity]. Qed.

(* where the position is after the records [out] were yielded starting from [cur] *)
Definition adv (cur : Z) (out : list Z) : Z :=
  match out with [] => cur | _ => last_or cur out + 1 end.

Lemma adv_cons cur r out : adv cur (r :: out) = adv (r + 1) out.
Proof. destruct out; reflexivity. Qed.

Section WithLog.
Variable L : list batch.
Hypothesis WF : wf_log L = true.

Lemma Vsorted : ssorted 0 (visible L).
Proof. apply (wf_visible_sorted L 0 WF). Qed.

Lemma vb_split a b c : a <= b <= c -> vis_between L a c = vis_between L a b ++ vis_between L b c.
Proof. apply (between_split _ 0); apply Vsorted. Qed.

Lemma vb_first a b r t : vis_between L a b = r :: t ->
  a <= r < b /\ vis_between L a (r + 1) = [r] /\ vis_between L (r + 1) b = t.
Proof. apply (between_first _ 0); apply Vsorted. Qed.

Lemma vb_In a b x : In x (vis_between L a b) <-> In x (visible L) /\ a <= x < b.
Proof. apply between_In. Qed.

(* handing out a prefix of a truthful slice *)
Lemma slice_prefix : forall out rest cur fin,
  vis_between L cur fin = out ++ rest -> cur <= fin ->
  cur <= adv cur out <= fin /\ vis_between L cur (adv cur out) = out /\
  vis_between L (adv cur out) fin = rest.
Proof.
  induction out as [|r out IH]; intros rest cur fin E Hle.
  - simpl in *. split; [lia|]. split; [apply between_empty_range; lia|exact E].
  - simpl app in E. destruct (vb_first _ _ _ _ E) as (Hr & H1 & Ht).
    destruct (IH rest (r + 1) fin Ht ltac:(lia)) as (Ha & Hb & Hc).
    rewrite adv_cons. split; [lia|]. split; [|exact Hc].
    rewrite (vb_split cur (r + 1) (adv (r + 1) out)) by lia. rewrite H1, Hb. reflexivity.
Qed.

Lemma firstn_skipn_len {A} (l : list A) n : (n <= length l)%nat -> length (firstn n l) = n.
Proof. intros. rewrite firstn_length. lia. Qed.

(* ---- the buffer invariant: buffered data is always a truthful slice of the log ----------- *)
Definition buf_ok (s : st) : Prop :=
  match buf s with
  | Recs rem cur fin => rem = vis_between L cur fin /\ cur <= fin
  | _ => True
  end.

Lemma init_buf_ok : buf_ok init.
Proof. exact I. Qed.

Lemma hand_one_buf_ok s r s' : buf_ok s -> hand_one s = Some (r, s') -> buf_ok s'.
Proof.
  unfold hand_one, buf_ok. destruct (buf s) as [|rem cur fin|c] eqn:EB; try discriminate.
  intros (Hrem & Hle). destruct (stale s cur).
  - intros H; inversion H; subst; simpl. exact I.
  - destruct rem as [|x rem'].
    + intros H; inversion H; subst; simpl. exact I.
    + intros H; inversion H; subst; simpl. symmetry in Hrem.
      destruct (vb_first _ _ _ _ Hrem) as (Hr & _ & Ht). split; [symmetry; exact Ht|lia].
Qed.

Lemma hand_many_buf_ok s mx r s' : buf_ok s -> hand_many s mx = Some (r, s') -> buf_ok s'.
Proof.
  unfold hand_many, buf_ok. destruct (buf s) as [|rem cur fin|c] eqn:EB; try discriminate.
  intros (Hrem & Hle). destruct (stale s cur).
  - intros H; inversion H; subst; simpl. exact I.
  - destruct mx as [m|].
    + destruct ((1 <=? m) && (m <=? Z.of_nat (length rem))) eqn:E.
      * intros H; inversion H; subst r s'; clear H. simpl.
        pose proof (firstn_skipn (Z.to_nat m) rem) as FS. symmetry in Hrem.
        rewrite <- FS in Hrem. destruct (slice_prefix _ _ _ _ Hrem Hle) as (Ha & Hb & Hc).
        assert (firstn (Z.to_nat m) rem <> []) as NE.
        { intros Z0. apply (f_equal (@length Z)) in Z0. rewrite firstn_skipn_len in Z0 by lia.
          simpl in Z0. lia. }
        unfold adv in *. destruct (firstn (Z.to_nat m) rem) eqn:EF; [congruence|].
        split; [symmetry; exact Hc|lia].
      * intros H; inversion H; subst; simpl. exact I.
    + intros H; inversion H; subst; simpl. exact I.
Qed.

Lemma step_buf_ok none s e s' : buf_ok s -> step none L s e = Some s' -> buf_ok s'.
Proof.
  intros B. destruct e; simpl.
  - (* FetchSent *) destruct (buf s) eqn:EB; try discriminate.
    destruct (opt_eqb (pos s) o && negb (paused s)); [|discriminate].
    intros H; inversion H; subst. unfold buf_ok in *; simpl. exact I.
  - (* FetchResp *)
    destruct (remove1 o (inflight s)) as [fl|]; [|discriminate].
    destruct (negb (opt_eqb (pos s) o)).
    { intros H; inversion H; subst. exact B. }
    destruct (has_buf (buf s)) eqn:HB.
    { intros H; inversion H; subst. exact B. }
    destruct (code =? 0).
    { destruct bs as [|b bs].
      - intros H; inversion H; subst. exact B.
      - destruct (valid_resp L o (b :: bs)) eqn:V; [|discriminate].
        intros H; inversion H; subst. unfold buf_ok; simpl.
        destruct (unpack_valid L 0 o (b :: bs) WF V ltac:(discriminate)) as (E1 & E2 & _).
        simpl in E1, E2. split; [exact E1|lia]. }
    destruct (code =? OFFSET_OUT_OF_RANGE).
    { destruct none.
      - destruct (buf s); try discriminate. intros H; inversion H; subst. exact I.
      - intros H; inversion H; subst. exact B. }
    destruct (code =? TOPIC_AUTHORIZATION_FAILED).
    { destruct (buf s); try discriminate. intros H; inversion H; subst. exact I. }
    intros H; inversion H; subst. exact B.
  - (* FetchFail *)
    destruct (remove1 o (inflight s)); [|discriminate]. intros H; inversion H; subst. exact B.
  - (* HandOne *)
    destruct (hand_one s) as [[r s1]|] eqn:EH; [|discriminate].
    destruct (res_eqb r res); [|discriminate]. intros H; inversion H; subst.
    eapply hand_one_buf_ok; eauto.
  - (* HandMany *)
    destruct (hand_many s mx) as [[r s1]|] eqn:EH; [|discriminate].
    destruct (zlist_eqb r res); [|discriminate]. intros H; inversion H; subst.
    eapply hand_many_buf_ok; eauto.
  - (* SetErr *)
    destruct (buf s); try discriminate. destruct (pos s); try discriminate.
    intros H; inversion H; subst. exact I.
  - (* RaiseErr *)
    destruct (buf s) as [| | c]; try discriminate. destruct (c =? code); [|discriminate].
    intros H; inversion H; subst. exact I.
  - intros H; inversion H; subst. exact I.
  - intros H; inversion H; subst. exact I.
  - destruct (pos s); [discriminate|]. intros H; inversion H; subst. exact B.
  - intros H; inversion H; subst. exact B.
  - intros H; inversion H; subst. exact B.
  - destruct (opt_eqb (pos s) p); [|discriminate]. intros H; inversion H; subst. exact B.
Qed.

Lemma run_buf_ok none tr : forall s s', buf_ok s -> run none L s tr = Some s' -> buf_ok s'.
Proof.
  induction tr as [|e tr IH]; simpl; intros s s' B H; [inversion H; subst; exact B|].
  destruct (step none L s e) as [s1|] eqn:E; [|discriminate].
  eapply IH; [eapply step_buf_ok; eauto|exact H].
Qed.

(* ---- the specification automaton is exact -------------------------------------------------- *)
Definition seg_ok (x : Z * Z * list Z) : Prop :=
  let '(a, e, ds) := x in a <= e /\ ds = vis_between L a e.

Definition sp_ok (s : sp) : Prop :=
  Forall seg_ok (s_hist s) /\
  (forall p, s_pos s = Some p -> exists a, s_start s = Some a /\ a <= p /\ s_seg s = vis_between L a p).

Lemma sinit_ok : sp_ok sinit.
Proof. split; [constructor|intros p H; discriminate]. Qed.

Lemma sclose_ok s : sp_ok s -> Forall seg_ok (sclose s).
Proof.
  intros (H1 & H2). unfold sclose. destruct (s_start s) as [a|] eqn:Ea; [|exact H1].
  destruct (s_pos s) as [p|] eqn:Ep; [|exact H1].
  apply Forall_app. split; [exact H1|]. constructor; [|constructor].
  destruct (H2 p eq_refl) as (a' & Ha & Hle & Hs). inversion Ha; subst a'. split; assumption.
Qed.

Lemma sstep_ok s e s' : sp_ok s -> sstep L s e = Some s' -> sp_ok s'.
Proof.
  intros OK. pose proof (sclose_ok s OK) as CL. destruct OK as (H1 & H2). destruct e; simpl.
  - (* SDeliver *)
    destruct (s_pos s) as [p|] eqn:Ep; [|discriminate].
    destruct (negb (s_paused s) && zlist_eqb (vis_between L p (r + 1)) [r]) eqn:E; [|discriminate].
    apply andb_true_iff in E. destruct E as (_ & E). apply zlist_eqb_eq in E.
    intros H; inversion H; subst s'; clear H. split; [exact H1|]. simpl. intros q Hq. inversion Hq; subst q.
    destruct (H2 p eq_refl) as (a & Ha & Hle & Hs). exists a. split; [exact Ha|].
    assert (p <= r) as Hpr.
    { assert (In r (vis_between L p (r + 1))) as I by (rewrite E; left; reflexivity).
      apply vb_In in I. lia. }
    split; [lia|]. rewrite (vb_split a p (r + 1)) by lia. rewrite Hs, E. reflexivity.
  - (* SSkip *)
    destruct (s_pos s) as [q|] eqn:Ep; [|discriminate].
    destruct (negb (s_paused s) && (q <=? p) && zlist_eqb (vis_between L q p) []) eqn:E; [|discriminate].
    rewrite !andb_true_iff in E. destruct E as ((_ & Hqp) & E). apply zlist_eqb_eq in E.
    intros H; inversion H; subst s'; clear H. split; [exact H1|]. simpl. intros q' Hq. inversion Hq; subst q'.
    destruct (H2 q eq_refl) as (a & Ha & Hle & Hs). exists a. split; [exact Ha|]. split; [lia|].
    rewrite (vb_split a q p) by lia. rewrite Hs, E, app_nil_r. reflexivity.
  - (* SSeek *)
    intros H; inversion H; subst s'; clear H. split; [exact CL|]. simpl. intros q Hq. inversion Hq; subst q.
    exists o. split; [reflexivity|]. split; [lia|]. symmetry. apply between_empty_range. lia.
  - (* SLose *)
    intros H; inversion H; subst s'; clear H. split; [exact CL|]. simpl. intros q Hq. discriminate.
  - (* SReset *)
    destruct (s_pos s) eqn:Ep; [discriminate|].
    intros H; inversion H; subst s'; clear H. split; [exact H1|]. simpl. intros q Hq. inversion Hq; subst q.
    exists o. split; [reflexivity|]. split; [lia|]. symmetry. apply between_empty_range. lia.
  - intros H; inversion H; subst s'; clear H. split; [exact H1|exact H2].
  - intros H; inversion H; subst s'; clear H. split; [exact H1|exact H2].
  - destruct (opt_eqb (s_pos s) p); [|discriminate]. intros H; inversion H; subst s'. split; assumption.
Qed.

Lemma srun_ok tr : forall s s', sp_ok s -> srun L s tr = Some s' -> sp_ok s'.
Proof.
  induction tr as [|e tr IH]; simpl; intros s s' OK H; [inversion H; subst; exact OK|].
  destruct (sstep L s e) as [s1|] eqn:E; [|discriminate].
  eapply IH; [eapply sstep_ok; eauto|exact H].
Qed.

Lemma srun_app t1 : forall s t2,
  srun L s (t1 ++ t2) = match srun L s t1 with Some s1 => srun L s1 t2 | None => None end.
Proof.
  induction t1 as [|e t1 IH]; simpl; intros s t2; [reflexivity|].
  destruct (sstep L s e); [apply IH|reflexivity].
Qed.

(* the application-level automaton (implicit skips) preserves the same invariant *)
Lemma astep_ok s e s' : sp_ok s -> astep L s e = Some s' -> sp_ok s'.
Proof.
  intros OK. destruct e as [r|o| |o| | |p].
  1: exact (sstep_ok s (SDeliver r) s' OK).
  1: exact (sstep_ok s (SSeek o) s' OK).
  1: exact (sstep_ok s SLose s' OK).
  1: exact (sstep_ok s (SReset o) s' OK).
  1: exact (sstep_ok s SPause s' OK).
  1: exact (sstep_ok s SResume s' OK).
  simpl. destruct (s_pos s) as [q|] eqn:Ep; [|discriminate].
  destruct ((q <=? p) && zlist_eqb (vis_between L q p) []) eqn:E; [|discriminate].
  rewrite andb_true_iff in E. destruct E as (Hqp & E). apply zlist_eqb_eq in E.
  destruct OK as (H1 & H2).
  intros H; inversion H; subst s'; clear H. split; [exact H1|]. simpl. intros q' Hq. inversion Hq; subst q'.
  destruct (H2 q Ep) as (a & Ha & Hle & Hs). exists a. split; [exact Ha|]. split; [lia|].
  rewrite (vb_split a q p) by lia. rewrite Hs, E, app_nil_r. reflexivity.
Qed.

Lemma arun_ok tr : forall s s', sp_ok s -> arun L s tr = Some s' -> sp_ok s'.
Proof.
  induction tr as [|e tr IH]; simpl; intros s s' OK H; [inversion H; subst; exact OK|].
  destruct (astep L s e) as [s1|] eqn:E; [|discriminate].
  eapply IH; [eapply astep_ok; eauto|exact H].
Qed.

(* ---- refinement: every step of the fetcher model is a run of the specification ------------ *)
Lemma deliver_run : forall out rest cur fin s0,
  vis_between L cur fin = out ++ rest -> cur <= fin ->
  s_pos s0 = Some cur -> s_paused s0 = false ->
  srun L s0 (map SDeliver out) =
    Some (mkSp (Some (adv cur out)) false (s_start s0) (s_seg s0 ++ out) (s_hist s0)).
Proof.
  induction out as [|r out IH]; intros rest cur fin s0 E Hle Hp Hpa.
  - simpl. rewrite app_nil_r. destruct s0; simpl in *; subst. reflexivity.
  - simpl app in E. destruct (vb_first _ _ _ _ E) as (Hr & H1 & Ht).
    simpl. rewrite Hp, Hpa, H1. simpl. replace (r =? r) with true by lia. simpl.
    erewrite IH; [|exact Ht|lia|reflexivity|reflexivity]. simpl.
    change (last_or r out + 1) with (adv cur (r :: out)).
    rewrite adv_cons, <- app_assoc. reflexivity.
Qed.

Lemma stale_false s cur : stale s cur = false -> paused s = false /\ pos s = Some cur.
Proof.
  unfold stale. intros H. apply orb_false_iff in H. destruct H as (H1 & H2).
  split; [exact H1|]. apply opt_eqb_true. destruct (opt_eqb (pos s) cur); [reflexivity|discriminate].
Qed.

Lemma abs_st_eta s : abs_st s = mkSp (pos s) (paused s) (start s) (seg s) (hist s).
Proof. reflexivity. Qed.

Lemma step_sim none s e s' : buf_ok s -> step none L s e = Some s' ->
  srun L (abs_st s) (abs_ev none s e) = Some (abs_st s').
Proof.
  intros B. destruct e; simpl.
  - (* FetchSent *) destruct (buf s); try discriminate.
    destruct (opt_eqb (pos s) o && negb (paused s)); [|discriminate].
    intros H; inversion H; subst. reflexivity.
  - (* FetchResp *)
    destruct (remove1 o (inflight s)) as [fl|]; [|discriminate].
    destruct (opt_eqb (pos s) o) eqn:EO; simpl.
    2:{ intros H; inversion H; subst. reflexivity. }
    destruct (has_buf (buf s)) eqn:HB; simpl.
    { intros H; inversion H; subst. reflexivity. }
    destruct (code =? 0) eqn:E0; simpl.
    { destruct bs as [|b bs].
      - intros H; inversion H; subst. reflexivity.
      - destruct (valid_resp L o (b :: bs)); [|discriminate]. intros H; inversion H; subst. reflexivity. }
    destruct (code =? OFFSET_OUT_OF_RANGE) eqn:E1; simpl.
    { destruct none; simpl.
      - destruct (buf s); try discriminate. intros H; inversion H; subst. reflexivity.
      - intros H; inversion H; subst. reflexivity. }
    destruct (code =? TOPIC_AUTHORIZATION_FAILED).
    { destruct (buf s); try discriminate. intros H; inversion H; subst. reflexivity. }
    intros H; inversion H; subst. reflexivity.
  - (* FetchFail *)
    destruct (remove1 o (inflight s)); [|discriminate]. intros H; inversion H; subst. reflexivity.
  - (* HandOne *)
    unfold hand_one. unfold buf_ok in B.
    destruct (buf s) as [|rem cur fin|c] eqn:EB; try discriminate.
    destruct B as (Hrem & Hle). destruct (stale s cur) eqn:ES.
    + destruct (res_eqb None res); [|discriminate]. intros H; inversion H; subst. reflexivity.
    + destruct (stale_false _ _ ES) as (Hpa & Hpos). destruct rem as [|r rem'].
      * destruct (res_eqb None res); [|discriminate]. intros H; inversion H; subst s'; clear H.
        simpl. rewrite Hpos, Hpa. simpl. rewrite <- Hrem. simpl.
        replace (cur <=? fin) with true by lia. simpl. rewrite abs_st_eta. simpl. try rewrite Hpa. reflexivity.
      * destruct (res_eqb (Some r) res); [|discriminate]. intros H; inversion H; subst s'; clear H.
        symmetry in Hrem. destruct (vb_first _ _ _ _ Hrem) as (Hr & H1 & Ht).
        simpl. rewrite Hpos, Hpa, H1. simpl. replace (r =? r) with true by lia. simpl.
        rewrite abs_st_eta. simpl. try rewrite Hpa. reflexivity.
  - (* HandMany *)
    unfold hand_many. unfold buf_ok in B.
    destruct (buf s) as [|rem cur fin|c] eqn:EB; try discriminate.
    destruct B as (Hrem & Hle). destruct (stale s cur) eqn:ES.
    + destruct (zlist_eqb [] res); [|discriminate]. intros H; inversion H; subst. reflexivity.
    + destruct (stale_false _ _ ES) as (Hpa & Hpos). symmetry in Hrem.
      assert (forall st0, st0 = mkSt (Some fin) NoBuf (paused s) (inflight s) (start s) (seg s ++ rem) (hist s) ->
              srun L (abs_st s) (map SDeliver rem ++ [SSkip fin]) = Some (abs_st st0)) as FULL.
      { intros st0 ->. rewrite srun_app.
        rewrite (deliver_run rem [] cur fin (abs_st s)); try assumption; [|rewrite app_nil_r; exact Hrem].
        pose proof (slice_prefix rem [] cur fin ltac:(rewrite app_nil_r; exact Hrem) Hle) as (Ha & Hb & Hc).
        simpl. rewrite Hc. simpl. replace (adv cur rem <=? fin) with true by lia. simpl.
        rewrite abs_st_eta. simpl. try rewrite Hpa. reflexivity. }
      destruct mx as [m|].
      * destruct ((1 <=? m) && (m <=? Z.of_nat (length rem))) eqn:E.
        -- destruct (zlist_eqb (firstn (Z.to_nat m) rem) res); [|discriminate].
           intros H; inversion H; subst s'; clear H.
           pose proof (firstn_skipn (Z.to_nat m) rem) as FS. rewrite <- FS in Hrem.
           rewrite (deliver_run _ _ cur fin (abs_st s) Hrem Hle); try assumption.
           rewrite abs_st_eta. simpl. try rewrite Hpa. f_equal. f_equal. f_equal.
           assert (firstn (Z.to_nat m) rem <> []) as NE.
           { intros Z0. apply (f_equal (@length Z)) in Z0. rewrite firstn_skipn_len in Z0 by lia.
             simpl in Z0. lia. }
           unfold adv. destruct (firstn (Z.to_nat m) rem); [congruence|reflexivity].
        -- destruct (zlist_eqb rem res); [|discriminate]. intros H; inversion H; subst s'. apply FULL. reflexivity.
      * destruct (zlist_eqb rem res); [|discriminate]. intros H; inversion H; subst s'. apply FULL. reflexivity.
  - (* SetErr *)
    destruct (buf s); try discriminate. destruct (pos s) eqn:EP; try discriminate.
    intros H; inversion H; subst. unfold abs_st; simpl. rewrite EP. reflexivity.
  - (* RaiseErr *)
    destruct (buf s) as [| | c]; try discriminate. destruct (c =? code); [|discriminate].
    intros H; inversion H; subst. reflexivity.
  - intros H; inversion H; subst. reflexivity.
  - intros H; inversion H; subst. reflexivity.
  - unfold abs_st at 1. simpl. destruct (pos s); [discriminate|]. intros H; inversion H; subst. reflexivity.
  - intros H; inversion H; subst. reflexivity.
  - intros H; inversion H; subst. reflexivity.
  - destruct (opt_eqb (pos s) p); [|discriminate]. intros H; inversion H; subst. reflexivity.
Qed.

Theorem run_refines none tr : forall s s', buf_ok s -> run none L s tr = Some s' ->
  srun L (abs_st s) (abs_trace none L s tr) = Some (abs_st s').
Proof.
  induction tr as [|e tr IH]; simpl; intros s s' B H; [inversion H; subst; reflexivity|].
  destruct (step none L s e) as [s1|] eqn:E; [|discriminate].
  rewrite srun_app, (step_sim _ _ _ _ B E). apply IH; [eapply step_buf_ok; eauto|exact H].
Qed.

Lemma reachable_ok none tr s : run none L init tr = Some s -> buf_ok s /\ sp_ok (abs_st s).
Proof.
  intros H. split; [eapply run_buf_ok; [exact init_buf_ok|exact H]|].
  eapply srun_ok; [exact sinit_ok|]. apply (run_refines none tr init s init_buf_ok H).
Qed.

(* ---- the clauses --------------------------------------------------------------------------- *)
Theorem exact_runs none tr s : run none L init tr = Some s -> Forall seg_ok (segments s).
Proof. intros H. destruct (reachable_ok _ _ _ H) as (_ & OK). apply (sclose_ok _ OK). Qed.

Theorem spec_exact_runs tr s : srun L sinit tr = Some s -> Forall seg_ok (sclose s).
Proof. intros H. apply sclose_ok. eapply srun_ok; [exact sinit_ok|exact H]. Qed.

Theorem app_exact_runs tr s : arun L sinit tr = Some s -> Forall seg_ok (sclose s).
Proof. intros H. apply sclose_ok. eapply arun_ok; [exact sinit_ok|exact H]. Qed.

(* nothing visible between the start of the current run and the position is undelivered *)
Theorem position_not_ahead none tr s p : run none L init tr = Some s -> pos s = Some p ->
  exists a, start s = Some a /\ a <= p /\
    forall r, In r (visible L) -> a <= r < p -> In r (seg s).
Proof.
  intros H Hp. destruct (reachable_ok _ _ _ H) as (_ & (_ & OK)).
  destruct (OK p Hp) as (a & Ha & Hle & Hs). exists a. split; [exact Ha|]. split; [exact Hle|].
  intros r I R. simpl in Hs. rewrite Hs. apply vb_In. split; assumption.
Qed.

Theorem hand_many_position none tr s mx res s' : run none L init tr = Some s ->
  step none L s (HandMany mx res) = Some s' -> res <> [] ->
  exists p, pos s' = Some p /\ last_or 0 res + 1 <= p.
Proof.
  intros H. destruct (reachable_ok _ _ _ H) as (B & _). unfold buf_ok in B. simpl. unfold hand_many.
  destruct (buf s) as [|rem cur fin|c]; try discriminate. destruct B as (Hrem & Hle).
  destruct (stale s cur).
  - destruct res; [congruence|discriminate].
  - assert (zlist_eqb rem res = true -> res <> [] -> last_or 0 res + 1 <= fin) as FULL.
    { intros E NE. apply zlist_eqb_eq in E. subst res.
      assert (In (last_or 0 rem) rem) as I.
      { clear -NE. destruct rem as [|x rem]; [congruence|]. clear NE. simpl.
        revert x. induction rem as [|y rem IH]; intros x; simpl; [left; reflexivity|].
        right. apply IH. }
      rewrite Hrem in I at 2. apply vb_In in I. lia. }
    destruct mx as [m|].
    + destruct ((1 <=? m) && (m <=? Z.of_nat (length rem))) eqn:E.
      * destruct (zlist_eqb (firstn (Z.to_nat m) rem) res) eqn:EZ; [|discriminate].
        intros Hs NE. inversion Hs; subst s'; simpl. apply zlist_eqb_eq in EZ. rewrite EZ.
        eexists. split; [reflexivity|]. rewrite (last_or_indep res cur 0 NE). lia.
      * destruct (zlist_eqb rem res) eqn:EZ; [|discriminate].
        intros Hs NE. inversion Hs; subst s'; simpl. eexists. split; [reflexivity|]. apply FULL; [reflexivity|exact NE].
    + destruct (zlist_eqb rem res) eqn:EZ; [|discriminate].
      intros Hs NE. inversion Hs; subst s'; simpl. eexists. split; [reflexivity|]. apply FULL; [reflexivity|exact NE].
Qed.

(* after Seek o, as long as no other seek / reset completes, the run of deliveries is the visible
   records from o: the very next record is the first visible record at or after o *)
Definition no_reposition (e : ev) : bool :=
  match e with Seek _ | ResetTo _ => false | _ => true end.

Lemma step_keeps_start none o s e s' : no_reposition e = true ->
  (pos s = None \/ start s = Some o) -> step none L s e = Some s' ->
  (pos s' = None \/ start s' = Some o).
Proof.
  intros NR J. destruct e; simpl in *; try discriminate.
  - destruct (buf s); try discriminate. destruct (opt_eqb (pos s) o0 && negb (paused s)); [|discriminate].
    intros H; inversion H; subst; exact J.
  - destruct (remove1 o0 (inflight s)); [|discriminate].
    destruct (negb (opt_eqb (pos s) o0)). { intros H; inversion H; subst; exact J. }
    destruct (has_buf (buf s)). { intros H; inversion H; subst; exact J. }
    destruct (code =? 0).
    { destruct bs. { intros H; inversion H; subst; exact J. }
      destruct (valid_resp L o0 (b :: bs)); [|discriminate]. intros H; inversion H; subst; exact J. }
    destruct (code =? OFFSET_OUT_OF_RANGE).
    { destruct none.
      - destruct (buf s); try discriminate. intros H; inversion H; subst; exact J.
      - intros H; inversion H; subst. left. reflexivity. }
    destruct (code =? TOPIC_AUTHORIZATION_FAILED).
    { destruct (buf s); try discriminate. intros H; inversion H; subst; exact J. }
    intros H; inversion H; subst; exact J.
  - destruct (remove1 o0 (inflight s)); [|discriminate]. intros H; inversion H; subst; exact J.
  - unfold hand_one. destruct (buf s) as [|rem cur fin|c]; try discriminate. destruct (stale s cur) eqn:ES.
    + destruct (res_eqb None res); [|discriminate]. intros H; inversion H; subst; exact J.
    + destruct (stale_false _ _ ES) as (_ & Hp). destruct J as [J|J]; [congruence|].
      destruct rem.
      * destruct (res_eqb None res); [|discriminate]. intros H; inversion H; subst. right. exact J.
      * destruct (res_eqb (Some z) res); [|discriminate]. intros H; inversion H; subst. right. exact J.
  - unfold hand_many. destruct (buf s) as [|rem cur fin|c]; try discriminate. destruct (stale s cur) eqn:ES.
    + destruct (zlist_eqb [] res); [|discriminate]. intros H; inversion H; subst; exact J.
    + destruct (stale_false _ _ ES) as (_ & Hp). destruct J as [J|J]; [congruence|].
      destruct mx as [m|]; [destruct ((1 <=? m) && (m <=? Z.of_nat (length rem)))|].
      * destruct (zlist_eqb (firstn (Z.to_nat m) rem) res); [|discriminate].
        intros H; inversion H; subst. right. exact J.
      * destruct (zlist_eqb rem res); [|discriminate]. intros H; inversion H; subst. right. exact J.
      * destruct (zlist_eqb rem res); [|discriminate]. intros H; inversion H; subst. right. exact J.
  - destruct (buf s); try discriminate. destruct (pos s); try discriminate.
    intros H; inversion H; subst; exact J.
  - destruct (buf s) as [| | c]; try discriminate. destruct (c =? code); [|discriminate].
    intros H; inversion H; subst; exact J.
  - intros H; inversion H; subst. left. reflexivity.
  - intros H; inversion H; subst; exact J.
  - intros H; inversion H; subst; exact J.
  - destruct (opt_eqb (pos s) p); [|discriminate]. intros H; inversion H; subst; exact J.
Qed.

Lemma run_keeps_start none o tr : forall s s', forallb no_reposition tr = true ->
  (pos s = None \/ start s = Some o) -> run none L s tr = Some s' ->
  (pos s' = None \/ start s' = Some o).
Proof.
  induction tr as [|e tr IH]; simpl; intros s s' NR J H; [inversion H; subst; exact J|].
  apply andb_true_iff in NR. destruct NR as (N1 & N2).
  destruct (step none L s e) as [s1|] eqn:E; [|discriminate].
  eapply IH; [exact N2| |exact H]. eapply step_keeps_start; eauto.
Qed.

Lemma run_app none t1 : forall s t2,
  run none L s (t1 ++ t2) = match run none L s t1 with Some s1 => run none L s1 t2 | None => None end.
Proof.
  induction t1 as [|e t1 IH]; simpl; intros s t2; [reflexivity|].
  destruct (step none L s e); [apply IH|reflexivity].
Qed.

Theorem seek_next_records none tr o tr2 s p :
  run none L init (tr ++ Seek o :: tr2) = Some s -> forallb no_reposition tr2 = true ->
  pos s = Some p -> o <= p /\ seg s = vis_between L o p.
Proof.
  intros H NR Hp. pose proof H as H0. rewrite run_app in H.
  destruct (run none L init tr) as [s0|] eqn:E0; [|discriminate]. simpl in H.
  assert (pos s = None \/ start s = Some o) as J.
  { eapply (run_keeps_start none o tr2); [exact NR| |exact H]. right. reflexivity. }
  destruct J as [J|J]; [congruence|].
  destruct (reachable_ok _ _ _ H0) as (_ & (_ & OK)). destruct (OK p Hp) as (a & Ha & Hle & Hs).
  simpl in Ha, Hs. rewrite J in Ha. inversion Ha; subst a. split; assumption.
Qed.

(* a fault-free round strictly advances the position while a batch at or after it exists *)
Theorem round_progress none k s p :
  pos s = Some p -> buf s = NoBuf -> paused s = false -> (1 <= k)%nat ->
  (exists b, In b L /\ p <= b_last b) ->
  exists s' p', round none L k s = Some s' /\ pos s' = Some p' /\ p < p' /\ buf s' = NoBuf /\
                paused s' = false /\ seg s' = seg s ++ vis_between L p p' /\ start s' = start s /\
                (exists b, In b L /\ p' = b_next b) /\
                (length (from_off p' L) < length (from_off p L))%nat.
Proof.
  intros Hp Hb Hpa Hk (b & Ib & Hbl). unfold round. rewrite Hp. simpl. rewrite Hb, Hp, Hpa. simpl.
  replace (p =? p) with true by lia. simpl. replace (p =? p) with true by lia. simpl.
  assert (from_off p L <> []) as NE.
  { unfold from_off. intros Z0. assert (In b (filter (fun b => p <=? b_last b) L)) as I.
    { apply filter_In. split; [exact Ib|lia]. } rewrite Z0 in I. exact I. }
  destruct (from_off p L) as [|b0 F] eqn:EF; [congruence|]. destruct k as [|k]; [lia|].
  change (firstn (S k) (b0 :: F)) with (b0 :: firstn k F).
  assert (valid_resp L p (b0 :: firstn k F) = true) as V.
  { unfold valid_resp. rewrite EF. change (b0 :: firstn k F) with (firstn (S k) (b0 :: F)). apply prefix_b_firstn. }
  rewrite V. destruct (unpack_valid L 0 p _ WF V ltac:(discriminate)) as (E1 & E2 & E3 & (z & Iz & Ez)).
  set (u := unpack p (b0 :: firstn k F)) in *. clearbody u.
  unfold drain_result, hand_many, stale. simpl.
  replace (p =? p) with true by lia. simpl. rewrite zlist_eqb_refl.
  eexists. exists (snd u). split; [reflexivity|]. simpl. repeat split; auto.
  - rewrite E1. reflexivity.
  - exists z. split; assumption.
  - (* the measure: the batch z (ending at snd u - 1 >= p) leaves the tail *)
    change (S (length F)) with (length (b0 :: F)). rewrite <- EF. unfold from_off. clear -Iz Ez E2.
    induction L as [|a L' IH]; [contradiction|]. simpl.
    destruct Iz as [->|Iz].
    + unfold b_next in Ez. replace (snd u <=? b_last z) with false by lia.
      replace (p <=? b_last z) with true by lia. simpl.
      apply Nat.lt_succ_r. clear -E2. induction L' as [|c L'' IH]; simpl; [lia|].
      destruct (snd u <=? b_last c) eqn:G1, (p <=? b_last c) eqn:G2; simpl; lia.
    + specialize (IH Iz). destruct (snd u <=? b_last a) eqn:G1, (p <=? b_last a) eqn:G3; simpl; lia.
Qed.

(* every visible record sits in a batch that ends at or after it *)
Lemma visible_in_batch : forall (A : list batch) lo r, wf_from lo A = true -> In r (visible A) ->
  exists b, In b A /\ r <= b_last b.
Proof.
  induction A as [|a A IH]; intros lo r H I; [contradiction|].
  simpl in H. rewrite !andb_true_iff in H. destruct H as (((H1 & H2) & H3) & H4).
  change (visible (a :: A)) with (b_vis a ++ visible A) in I. apply in_app_or in I. destruct I as [I|I].
  - destruct (incr_in_sorted _ _ _ H3) as (_ & S2). exists a. split; [left; reflexivity|apply S2; exact I].
  - destruct (IH _ _ H4 I) as (b & Ib & Hb). exists b. split; [right; exact Ib|exact Hb].
Qed.

Lemma past_all_batches p : from_off p L = [] -> forall r, In r (visible L) -> r < p.
Proof.
  intros E r I. destruct (visible_in_batch L 0 r WF I) as (b & Ib & Hb).
  destruct (Z_lt_le_dec r p) as [Hlt|Hge]; [exact Hlt|exfalso].
  assert (In b (from_off p L)) as J by (apply filter_In; split; [exact Ib|lia]).
  rewrite E in J. exact J.
Qed.

(* fault-free rounds reach the end of the log, delivering everything visible on the way *)
Theorem rounds_reach_end none k : (1 <= k)%nat -> forall m s p,
  length (from_off p L) = m -> pos s = Some p -> buf s = NoBuf -> paused s = false ->
  exists n s' p', (n <= m)%nat /\ rounds none L k n s = Some s' /\ pos s' = Some p' /\ p <= p' /\
    from_off p' L = [] /\ buf s' = NoBuf /\ start s' = start s /\
    seg s' = seg s ++ filter (fun r => p <=? r) (visible L).
Proof.
  intros Hk m. induction m as [m IH] using lt_wf_ind. intros s p Hm Hp Hb Hpa.
  destruct (from_off p L) as [|b F] eqn:EF.
  - exists O, s, p. simpl in Hm. split; [lia|]. split; [reflexivity|]. split; [exact Hp|]. split; [lia|].
    split; [exact EF|]. split; [exact Hb|]. split; [reflexivity|].
    assert (filter (fun r => p <=? r) (visible L) = []) as F0.
    { pose proof (past_all_batches p EF) as PA. revert PA. generalize (visible L) as l.
      induction l as [|y l IHl]; intros PA; [reflexivity|].
      simpl. replace (p <=? y) with false by (specialize (PA y (or_introl eq_refl)); lia).
      apply IHl. intros r I. apply PA. right. exact I. }
    rewrite F0, app_nil_r. reflexivity.
  - assert (exists b0, In b0 L /\ p <= b_last b0) as EX.
    { exists b. assert (In b (from_off p L)) as J by (rewrite EF; left; reflexivity).
      apply filter_In in J. split; [tauto|lia]. }
    destruct (round_progress none k s p Hp Hb Hpa Hk EX)
      as (s1 & p1 & R & Hp1 & Hlt & Hb1 & Hpa1 & Hs1 & Hst1 & _ & Hme).
    rewrite <- Hm in IH. rewrite EF in Hme.
    destruct (IH (length (from_off p1 L)) Hme s1 p1 eq_refl Hp1 Hb1 Hpa1)
      as (n & s' & p' & Hn & Rn & Hp' & Hle & Hend & Hb' & Hst' & Hs').
    exists (S n), s', p'. split; [rewrite <- Hm; simpl in *; lia|]. simpl. rewrite R.
    split; [exact Rn|]. split; [exact Hp'|]. split; [lia|]. split; [exact Hend|]. split; [exact Hb'|].
    split; [congruence|]. rewrite Hs', Hs1, <- app_assoc. f_equal.
    assert (forall q, q <= p' -> filter (fun r => q <=? r) (visible L) = vis_between L q p') as FV.
    { intros q Hq. unfold vis_between, between. apply filter_ext_in. intros r I.
      pose proof (past_all_batches p' Hend r I). lia. }
    rewrite (FV p ltac:(lia)), (FV p1 Hle). symmetry. apply vb_split. lia.
Qed.

End WithLog.

(* ---- clauses that need no log hypothesis --------------------------------------------------- *)
Theorem hand_one_position none L s r s' :
  step none L s (HandOne (Some r)) = Some s' -> pos s' = Some (r + 1) /\ paused s = false.
Proof.
  simpl. unfold hand_one. destruct (buf s) as [|rem cur fin|c]; try discriminate.
  destruct (stale s cur) eqn:ES; [discriminate|]. destruct (stale_false _ _ ES) as (Hpa & _).
  destruct rem as [|x rem]; [discriminate|].
  destruct (res_eqb (Some x) (Some r)) eqn:E; [|discriminate]. simpl in E.
  intros H; inversion H; subst; simpl. split; [f_equal; lia|exact Hpa].
Qed.

Theorem seek_then_position none L s o s1 p s2 :
  step none L s (Seek o) = Some s1 -> step none L s1 (Position p) = Some s2 -> p = o.
Proof.
  simpl. intros H; inversion H; subst; simpl. destruct (o =? p) eqn:E; [|discriminate]. lia.
Qed.

Theorem seek_drops_buffer none L s o s1 :
  step none L s (Seek o) = Some s1 -> pos s1 = Some o /\ buf s1 = NoBuf /\ start s1 = Some o /\ seg s1 = [].
Proof. simpl. intros H; inversion H; subst; simpl. repeat split. Qed.

(* a reply to a fetch for another offset than the current position changes nothing
   (but the bookkeeping of requests in flight) *)
Theorem seek_wins none L s o o' code bs s' :
  pos s = Some o -> o' <> o -> step none L s (FetchResp o' code bs) = Some s' ->
  pos s' = pos s /\ buf s' = buf s /\ paused s' = paused s /\ start s' = start s /\ seg s' = seg s /\
  hist s' = hist s.
Proof.
  intros Hp Hne. simpl. destruct (remove1 o' (inflight s)); [|discriminate]. rewrite Hp. simpl.
  replace (o =? o') with false by lia. simpl. intros H; inversion H; subst; simpl. repeat split.
Qed.

(* ... and the same when there is no valid position at all (reset pending) *)
Theorem reset_pending_wins none L s o' code bs s' :
  pos s = None -> step none L s (FetchResp o' code bs) = Some s' ->
  pos s' = None /\ buf s' = buf s /\ seg s' = seg s /\ hist s' = hist s.
Proof.
  intros Hp. simpl. destruct (remove1 o' (inflight s)); [|discriminate]. rewrite Hp. simpl.
  intros H; inversion H; subst; simpl. repeat split.
Qed.

Theorem paused_silent_one none L s res s' :
  paused s = true -> step none L s (HandOne res) = Some s' ->
  res = None /\ pos s' = pos s /\ seg s' = seg s /\ buf s' = NoBuf.
Proof.
  intros Hpa. simpl. unfold hand_one, stale. rewrite Hpa. simpl.
  destruct (buf s); try discriminate. destruct res; simpl; [discriminate|].
  intros H; inversion H; subst; simpl. repeat split.
Qed.

Theorem paused_silent_many none L s mx res s' :
  paused s = true -> step none L s (HandMany mx res) = Some s' ->
  res = [] /\ pos s' = pos s /\ seg s' = seg s /\ buf s' = NoBuf.
Proof.
  intros Hpa. simpl. unfold hand_many, stale. rewrite Hpa. simpl.
  destruct (buf s); try discriminate. destruct res; simpl; [|discriminate].
  intros H; inversion H; subst; simpl. repeat split.
Qed.

Theorem paused_not_fetched none L s o : paused s = true -> step none L s (FetchSent o) = None.
Proof.
  intros Hpa. simpl. destruct (buf s); try reflexivity. rewrite Hpa.
  destruct (opt_eqb (pos s) o); reflexivity.
Qed.

Theorem buffered_not_fetched none L s o : buf s <> NoBuf -> step none L s (FetchSent o) = None.
Proof. intros H. simpl. destruct (buf s); [congruence|reflexivity|reflexivity]. Qed.

(* the spec: nothing is delivered while paused *)
Theorem spec_paused_silent L s r : s_paused s = true -> sstep L s (SDeliver r) = None.
Proof. intros H. simpl. destruct (s_pos s); [|reflexivity]. rewrite H. reflexivity. Qed.

(* ---- the scans: the `partitions` argument ------------------------------------------------- *)
Theorem scan_one_filter filt : forall order results visits err ret,
  scan_one filt order results = (visits, err, ret) ->
  (forall p r, In (p, r) visits -> in_filter filt p = true) /\
  (forall p, err = Some p -> in_filter filt p = true) /\
  (forall p r, ret = Some (p, r) -> in_filter filt p = true /\ In (p, Some r) visits).
Proof.
  induction order as [|[p e] order IH]; simpl; intros results visits err ret H.
  - inversion H; subst. repeat split; try contradiction; try discriminate.
  - destruct (in_filter filt p) eqn:EF; simpl in H.
    2:{ eapply IH; eauto. }
    destruct e.
    { inversion H; subst. repeat split; try contradiction; try discriminate.
      intros q Hq. inversion Hq; subst. exact EF. }
    destruct results as [|[r|] results].
    + inversion H; subst. repeat split; try contradiction; try discriminate.
    + inversion H; subst. repeat split; try discriminate.
      * intros q r0 [I|[]]. inversion I; subst. exact EF.
      * inversion H0; subst. exact EF.
      * inversion H0; subst. left. reflexivity.
    + destruct (scan_one filt order results) as [[v e'] r'] eqn:ES. simpl in H. inversion H; subst.
      destruct (IH _ _ _ _ ES) as (A1 & A2 & A3). repeat split.
      * intros q r0 [I|I]; [inversion I; subst; exact EF|eauto].
      * exact A2.
      * eapply A3; eauto.
      * right. eapply A3; eauto.
Qed.

Theorem scan_many_filter filt : forall order mx results drained visits err,
  scan_many filt order mx results drained = (visits, err) ->
  (forall p m rs, In (p, m, rs) visits -> in_filter filt p = true) /\
  (forall p, err = Some p -> in_filter filt p = true).
Proof.
  induction order as [|[p e] order IH]; simpl; intros mx results drained visits err H.
  - inversion H; subst. split; [contradiction|discriminate].
  - destruct (in_filter filt p) eqn:EF; simpl in H.
    2:{ eapply IH; eauto. }
    destruct e.
    { destruct drained; inversion H; subst; (split; [contradiction|]); try discriminate.
      intros q Hq. inversion Hq; subst. exact EF. }
    destruct results as [|rs results].
    + inversion H; subst. split; [contradiction|discriminate].
    + match type of H with (if ?c then _ else _) = _ => destruct c end.
      * inversion H; subst. split; [|discriminate]. intros q m r0 [I|[]]. inversion I; subst. exact EF.
      * match type of H with context [scan_many ?a ?b ?c ?d ?e] =>
          destruct (scan_many a b c d e) as [v e'] eqn:ES end.
        simpl in H. inversion H; subst. destruct (IH _ _ _ _ _ ES) as (A1 & A2). split.
        -- intros q m r0 [I|I]; [inversion I; subst; exact EF|eauto].
        -- exact A2.
Qed.
