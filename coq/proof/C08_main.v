(* C08_main.v — the C08 theorems over constructed logs: exactness at both isolation levels,
   no markers, position, cut invariance; the broker's index satisfies the index hypothesis. *)
From Coq Require Import ZArith List Bool Lia ZifyBool Sorted.
From Verif Require Import Imp ConsumeAborted C08_Log C08_consume C08_wf C08_unpack.
Import ListNotations.
Open Scope Z_scope.
Ltac Zify.zify_post_hook ::= Z.to_euclidean_division_equations.

Definition dummy_batch : batch := mkbatch 0 0 0 false false [].
Definition end_of (f : Z) (resp : list batch) : Z :=
  match resp with [] => f | _ => b_next (last resp dummy_batch) end.

(* ------------------------------------------------------------------------------------------ *)
(** * One fetch *)

Lemma resp_in_batches : forall s bnd f k, inv s ->
  forall b, In b (response s bnd f k) -> In b (batches s).
Proof.
  intros s bnd f k H. destruct (response_split s bnd f k H) as (pre & post & E & _).
  intros b I. rewrite E. apply in_or_app. right. apply in_or_app. auto.
Qed.

Lemma resp_sorted : forall s bnd f k, inv s -> StronglySorted before (response s bnd f k).
Proof.
  intros s bnd f k H. destruct (response_split s bnd f k H) as (pre & post & E & _).
  pose proof (batches_sorted s H) as S.
  rewrite E in S. apply ss_app_r in S. apply ss_app_l in S. exact S.
Qed.

Lemma fetch_exact : forall s, inv s -> forall i f k idx,
  index_req s i f (response s (bound s i) f k) idx ->
  delivered (unpack i f idx (response s (bound s i) f k)) =
    view_of s i f (bound s i) (response s (bound s i) f k) /\
  raised (unpack i f idx (response s (bound s i) f k)) = false.
Proof.
  intros s Hinv i f k idx Hidx.
  destruct (response_split s (bound s i) f k Hinv) as (pre & post & E & P & R). destruct i.
  - apply ru_exact_sorted; [exact Hinv| |apply resp_sorted; exact Hinv].
    intros b I. split; [eapply resp_in_batches; eauto|]. exact (R b I).
  - exact (rc_exact_split s Hinv f idx pre _ post E P R Hidx).
Qed.

Section OneFetch.
  Variable s : lstate.
  Hypothesis Hinv : inv s.
  Variables (i : iso) (f : Z) (k : nat) (idx : list (Z * Z)).
  Local Notation resp := (response s (bound s i) f k).
  Hypothesis Hidx : index_req s i f resp idx.

  Lemma resp_facts : exists pre post,
    batches s = pre ++ resp ++ post /\ (forall b, In b pre -> b_last b < f) /\
    (forall b, In b resp -> f <= b_last b /\ b_last b < bound s i).
  Proof. exact (response_split s (bound s i) f k Hinv). Qed.

  Lemma fetch_position : position (unpack i f idx resp) = end_of f resp.
  Proof.
    unfold unpack, end_of. rewrite loop_position; [reflexivity|]. exact (proj2 (fetch_exact s Hinv i f k idx Hidx)).
  Qed.

  Lemma last_in : forall (l : list batch) d, l <> [] -> In (last l d) l.
  Proof.
    induction l as [|x l IH]; intros d N; [congruence|]. destruct l as [|y l]; [left; reflexivity|].
    right. apply IH. discriminate.
  Qed.

  Lemma sorted_last_max : forall l d b, StronglySorted before l ->
    (forall x, In x l -> b_base x <= b_last x) -> In b l -> b_last b <= b_last (last l d).
  Proof.
    induction l as [|x l IH]; intros d b S Ok I; [contradiction|].
    inversion S as [|? ? Sl Fx]; subst. rewrite Forall_forall in Fx.
    destruct l as [|y l].
    - destruct I as [->|[]]. cbn. lia.
    - assert (Il : In (last (y :: l) d) (y :: l)) by (apply last_in; discriminate).
      change (last (x :: y :: l) d) with (last (y :: l) d).
      destruct I as [<-|I].
      + specialize (Fx _ Il). unfold before in Fx. specialize (Ok _ (or_intror Il)). lia.
      + apply IH; auto. intros; apply Ok; right; assumption.
  Qed.

  (* the position ends past every batch of the answer; a non-empty answer makes progress *)
  Lemma fetch_past_everything : forall b, In b resp ->
    b_last b < position (unpack i f idx resp) /\ f < position (unpack i f idx resp).
  Proof.
    intros b I. rewrite fetch_position. unfold end_of.
    destruct resp as [|x l] eqn:E; [contradiction|]. rewrite <- E in *.
    assert (Ok : forall x, In x resp -> b_base x <= b_last x).
    { intros y Iy. destruct (batch_in_ok s Hinv y (resp_in_batches s _ f k Hinv y Iy)) as (((? & ?) & _) & _). lia. }
    pose proof (sorted_last_max resp dummy_batch b (resp_sorted s _ f k Hinv) Ok I) as M.
    destruct resp_facts as (_ & _ & _ & _ & R). destruct (R b I) as (Lf & _).
    unfold b_next. rewrite E in *. lia.
  Qed.

  (* what was delivered = the visible records of the whole log between f and the new position *)
  Lemma view_of_app : forall lo hi l1 l2,
    view_of s i lo hi (l1 ++ l2) = view_of s i lo hi l1 ++ view_of s i lo hi l2.
  Proof. intros. unfold view_of. apply flat_map_app. Qed.

  Lemma view_of_nil : forall lo hi l,
    (forall b r, In b l -> In r (b_recs b) -> ((lo <=? r_off r) && (r_off r <? hi)) = false) ->
    view_of s i lo hi l = [].
  Proof.
    induction l as [|b l IH]; intros Hn; [reflexivity|]. cbn [view_of flat_map].
    fold (view_of s i lo hi l). rewrite IH by (intros; eapply Hn; [right|]; eassumption).
    rewrite app_nil_r. destruct (deliverable s i b); [|reflexivity].
    apply filter_none. intros r Ir. exact (Hn b r (or_introl eq_refl) Ir).
  Qed.

  Lemma view_of_ext : forall lo hi lo' hi' l,
    (forall b r, In b l -> In r (b_recs b) ->
       ((lo <=? r_off r) && (r_off r <? hi)) = ((lo' <=? r_off r) && (r_off r <? hi'))) ->
    view_of s i lo hi l = view_of s i lo' hi' l.
  Proof.
    induction l as [|b l IH]; intros Hn; [reflexivity|]. cbn [view_of flat_map].
    fold (view_of s i lo hi l) (view_of s i lo' hi' l).
    rewrite IH by (intros; eapply Hn; [right|]; eassumption). f_equal.
    destruct (deliverable s i b); [|reflexivity].
    apply filter_ext_in. intros r Ir. exact (Hn b r (or_introl eq_refl) Ir).
  Qed.

  Lemma fetch_is_view :
    delivered (unpack i f idx resp) = view s i f (position (unpack i f idx resp)).
  Proof.
    rewrite (proj1 (fetch_exact s Hinv i f k idx Hidx)), fetch_position. unfold view.
    destruct resp_facts as (pre & post & E & P & R).
    pose proof (batches_sorted s Hinv) as S. rewrite E in S.
    assert (Hrec : forall b r, In b (batches s) -> In r (b_recs b) -> b_base b <= r_off r <= b_last b).
    { intros b r Ib Ir. destruct (batch_in_ok s Hinv b Ib) as ((_ & Rb & _) & _).
      exact (recs_ok_in _ _ _ _ Rb Ir). }
    assert (Ipre : forall b, In b pre -> In b (batches s)) by (intros; rewrite E; apply in_or_app; auto).
    assert (Ipost : forall b, In b post -> In b (batches s)).
    { intros; rewrite E; apply in_or_app; right; apply in_or_app; auto. }
    rewrite E, !filter_app, !view_of_app.
    rewrite (view_of_nil f (end_of f resp) (filter _ pre)).
    2:{ intros b r Ib Ir. apply filter_In in Ib. destruct Ib as (Ib & _).
        specialize (P _ Ib). pose proof (Hrec b r (Ipre _ Ib) Ir). lia. }
    rewrite (view_of_nil f (end_of f resp) (filter _ post)).
    2:{ intros b r Ib Ir. apply filter_In in Ib. destruct Ib as (Ib & _).
        pose proof (Hrec b r (Ipost _ Ib) Ir). unfold end_of.
        destruct resp as [|x l] eqn:Er; [lia|]. rewrite <- Er in *.
        assert (Il : In (last resp dummy_batch) resp) by (apply last_in; rewrite Er; discriminate).
        apply ss_app_r in S. pose proof (ss_app_cross _ _ _ _ _ S Il Ib) as Bf.
        unfold before in Bf. unfold b_next. rewrite Er in *. lia. }
    cbn [app]. rewrite app_nil_r.
    rewrite (filter_all _ resp) by (intros b Ib; destruct (R b Ib); lia).
    symmetry. apply view_of_ext. intros b r Ib Ir.
    pose proof (Hrec b r (resp_in_batches s _ f k Hinv b Ib) Ir). destruct (R b Ib) as (_ & Lb).
    pose proof (proj1 (fetch_past_everything b Ib)) as Pb. rewrite fetch_position in Pb. lia.
  Qed.

  Lemma fetch_monotone : f <= position (unpack i f idx resp).
  Proof.
    destruct resp as [|x l] eqn:E.
    - rewrite <- E in *. rewrite fetch_position, E. cbn. lia.
    - rewrite <- E in *. assert (I : In x resp) by (rewrite E; left; reflexivity).
      pose proof (proj2 (fetch_past_everything x I)). lia.
  Qed.
End OneFetch.

(* ------------------------------------------------------------------------------------------ *)
(** * Views compose, so sequences of fetches do *)

Lemma filter_range_compose : forall rs lo hi f n m, recs_ok lo hi rs -> f <= n <= m ->
  filter (fun r => (f <=? r_off r) && (r_off r <? n)) rs ++
  filter (fun r => (n <=? r_off r) && (r_off r <? m)) rs =
  filter (fun r => (f <=? r_off r) && (r_off r <? m)) rs.
Proof.
  induction rs as [|r rs IH]; intros lo hi f n m H L; [reflexivity|].
  destruct H as (B & R). destruct (Z_lt_le_dec (r_off r) n) as [Lt|Ge].
  - cbn [filter]. replace ((n <=? r_off r) && (r_off r <? m)) with false by lia.
    replace ((f <=? r_off r) && (r_off r <? m)) with ((f <=? r_off r) && (r_off r <? n)) by lia.
    destruct ((f <=? r_off r) && (r_off r <? n)); cbn [app]; [f_equal|]; eapply IH; eauto.
  - rewrite (filter_none (fun x => (f <=? r_off x) && (r_off x <? n))).
    2:{ intros x [<-|Ix]; [lia|]. pose proof (recs_ok_in _ _ _ _ R Ix). lia. }
    cbn [app]. apply filter_ext_in. intros x Ix.
    assert (r_off r <= r_off x).
    { destruct Ix as [<-|Ix]; [lia|]. pose proof (recs_ok_in _ _ _ _ R Ix). lia. }
    lia.
Qed.

Lemma view_of_compose : forall s i f n m l,
  StronglySorted before l -> (forall b, In b l -> batch_ok b) -> f <= n <= m ->
  view_of s i f n l ++ view_of s i n m l = view_of s i f m l.
Proof.
  intros s i f n m. induction l as [|b l IH]; intros S Ok L; [reflexivity|].
  inversion S as [|? ? Sl Fb]; subst. rewrite Forall_forall in Fb.
  destruct (Ok b (or_introl eq_refl)) as ((B0 & B1) & Rb & _).
  assert (Ok' : forall x, In x l -> batch_ok x) by (intros; apply Ok; right; assumption).
  cbn [view_of flat_map]. fold (view_of s i f n l) (view_of s i n m l) (view_of s i f m l).
  destruct (Z_lt_le_dec (b_last b) n) as [Lt|Ge].
  - (* b lies entirely below n *)
    rewrite <- (IH Sl Ok' L).
    assert (E1 : (if deliverable s i b then filter (fun r => (n <=? r_off r) && (r_off r <? m)) (b_recs b) else []) = []).
    { destruct (deliverable s i b); [|reflexivity]. apply filter_none. intros r Ir.
      pose proof (recs_ok_in _ _ _ _ Rb Ir). lia. }
    assert (E2 : (if deliverable s i b then filter (fun r => (f <=? r_off r) && (r_off r <? m)) (b_recs b) else []) =
                 (if deliverable s i b then filter (fun r => (f <=? r_off r) && (r_off r <? n)) (b_recs b) else [])).
    { destruct (deliverable s i b); [|reflexivity]. apply filter_ext_in. intros r Ir.
      pose proof (recs_ok_in _ _ _ _ Rb Ir). lia. }
    rewrite E1, E2. cbn [app]. rewrite <- app_assoc. reflexivity.
  - (* b reaches n: nothing after b is below n *)
    assert (Hl : forall x r, In x l -> In r (b_recs x) -> n <= r_off r).
    { intros x r Ix Ir. specialize (Fb _ Ix). unfold before in Fb.
      destruct (Ok' x Ix) as (_ & Rx & _). pose proof (recs_ok_in _ _ _ _ Rx Ir). lia. }
    rewrite (view_of_nil s i f n l) by (intros x r Ix Ir; pose proof (Hl x r Ix Ir); lia).
    rewrite (view_of_ext s i n m f m l) by (intros x r Ix Ir; pose proof (Hl x r Ix Ir); lia).
    rewrite app_nil_r, app_assoc. f_equal.
    destruct (deliverable s i b); [|reflexivity]. eapply filter_range_compose; eauto.
Qed.

Lemma view_compose : forall s i f n m, inv s -> f <= n <= m ->
  view s i f n ++ view s i n m = view s i f m.
Proof.
  intros s i f n m H L. unfold view. apply view_of_compose; [|intros b Ib|exact L].
  - apply ss_filter. exact (batches_sorted s H).
  - apply filter_In in Ib. exact (proj1 (batch_in_ok s H b (proj1 Ib))).
Qed.

Lemma view_empty : forall s i f, view s i f f = [].
Proof. intros. unfold view. apply view_of_nil. intros. lia. Qed.

Lemma fetch_seq_view : forall s i cuts f, inv s -> cuts_ok s i f cuts ->
  raised (fetch_seq s i f cuts) = false /\
  delivered (fetch_seq s i f cuts) = view s i f (position (fetch_seq s i f cuts)) /\
  f <= position (fetch_seq s i f cuts).
Proof.
  intros s i cuts. induction cuts as [|(k, idx) cuts IH]; intros f H C.
  - cbn. rewrite view_empty. repeat split; lia.
  - cbn [cuts_ok] in C. destruct C as (Ci & Cr).
    cbn [fetch_seq].
    pose proof (fetch_exact s H i f k idx Ci) as (_ & Rz).
    pose proof (fetch_is_view s H i f k idx Ci) as Vz.
    pose proof (fetch_monotone s H i f k idx Ci) as Mz.
    rewrite Rz. destruct (IH _ H Cr) as (R' & V' & M').
    set (x := unpack i f idx (response s (bound s i) f k)) in *.
    set (y := fetch_seq s i (position x) cuts) in *.
    change (raised (delivered x ++ delivered y, position y, raised y)) with (raised y).
    change (delivered (delivered x ++ delivered y, position y, raised y))
      with (delivered x ++ delivered y).
    change (position (delivered x ++ delivered y, position y, raised y)) with (position y).
    split; [exact R'|]. split; [|lia]. rewrite Vz, V'. apply view_compose; [exact H|lia].
Qed.

(* ------------------------------------------------------------------------------------------ *)
(** * The broker's index *)

Lemma sorted_base_lt : forall l a b, StronglySorted before l -> In a l -> In b l ->
  (forall x, In x l -> b_base x <= b_last x) -> b_base a < b_base b -> b_last a < b_base b.
Proof.
  induction l as [|x l IH]; intros a b S Ia Ib Ok L; [contradiction|].
  inversion S as [|? ? Sl Fx]; subst. rewrite Forall_forall in Fx.
  destruct Ia as [<-|Ia], Ib as [<-|Ib].
  - lia.
  - exact (Fx _ Ib).
  - specialize (Fx _ Ia). unfold before in Fx. pose proof (Ok a (or_intror Ia)).
    pose proof (Ok x (or_introl eq_refl)). lia.
  - apply (IH a b); auto. intros; apply Ok; right; assumption.
Qed.

Lemma kafka_index_ok : forall s bnd f k u, inv s ->
  (forall b, In b (response s bnd f k) -> b_base b < u) ->
  index_ok s f (response s bnd f k) (kafka_index s f u).
Proof.
  intros s bnd f k u H Hu. unfold index_ok, kafka_index. split.
  - intros e Ie. apply in_map_iff in Ie. destruct Ie as (t & <- & It).
    apply filter_In in It. destruct It as (It & C). apply in_rev in It.
    exists t. repeat split; auto; [destruct (t_commit t); [discriminate|reflexivity]|lia].
  - intros t b It C Ib D Sp. apply in_map_iff. exists t. split; [reflexivity|].
    apply filter_In. split; [apply in_rev; rewrite rev_involutive; exact It|].
    destruct (response_split s bnd f k H) as (pre & post & E & _ & R).
    destruct (R b Ib) as (Lf & _).
    assert (Ilog : In b (batches s)).
    { rewrite E. apply in_or_app. right. apply in_or_app. auto. }
    pose proof (marker_in_log s H t It) as Im.
    assert (Lm : b_last b < t_last t).
    { change (t_last t) with (b_base (marker_batch (t_last t) (t_pid t) (t_commit t))).
      apply (sorted_base_lt (batches s)); auto.
      - exact (batches_sorted s H).
      - intros x Ix. destruct (batch_in_ok s H x Ix) as (((? & ?) & _) & _). lia.
      - unfold spans in Sp. cbn. lia. }
    specialize (Hu b Ib). unfold spans in Sp. rewrite C. cbn [negb andb]. lia.
Qed.

Lemma index_ok_ext : forall s f resp idx idx',
  (forall e, In e idx <-> In e idx') -> index_ok s f resp idx -> index_ok s f resp idx'.
Proof.
  intros s f resp idx idx' E (A & B). split.
  - intros e I. apply A. apply E. exact I.
  - intros t b It C Ib D Sp. apply E. eauto.
Qed.

(* membership in a view *)
Lemma view_of_in : forall s i lo hi l r,
  In r (view_of s i lo hi l) <->
  exists b, In b l /\ deliverable s i b = true /\ In r (b_recs b) /\ lo <= r_off r < hi.
Proof.
  intros. unfold view_of. rewrite in_flat_map. split.
  - intros (b & Ib & Ir). exists b. destruct (deliverable s i b); [|contradiction].
    apply filter_In in Ir. repeat split; try tauto; lia.
  - intros (b & Ib & D & Ir & L). exists b. split; [exact Ib|]. rewrite D.
    apply filter_In. split; [exact Ir|lia].
Qed.

(* ------------------------------------------------------------------------------------------ *)
(** * Further consequences *)

(* the offset ranges of the batches of a log are disjoint *)
Lemma overlap_same_batch : forall s a b o, inv s -> In a (batches s) -> In b (batches s) ->
  b_base a <= o <= b_last a -> b_base b <= o <= b_last b -> a = b.
Proof.
  intros s a b o H Ia Ib Ra Rb.
  assert (Ok : forall x, In x (batches s) -> b_base x <= b_last x).
  { intros x Ix. destruct (batch_in_ok s H x Ix) as (((? & ?) & _) & _). lia. }
  destruct (Z.lt_trichotomy (b_base a) (b_base b)) as [L|[E|L]].
  - pose proof (sorted_base_lt _ a b (batches_sorted s H) Ia Ib Ok L). lia.
  - exact (same_base_same_batch s H a b Ia Ib E).
  - pose proof (sorted_base_lt _ b a (batches_sorted s H) Ib Ia Ok L). lia.
Qed.

(* no delivered record sits at the offset of a control batch of the log *)
Lemma no_marker_offsets : forall s, inv s -> forall i f k idx r c,
  In r (delivered (unpack i f idx (response s (bound s i) f k))) ->
  In c (batches s) -> b_ctl c = true -> r_off r <> b_base c.
Proof.
  intros s H i f k idx r c Ir Ic Cc E.
  destruct (loop_no_markers _ _ _ _ _ _ Ir) as (b & Ib & Cb & Irb).
  pose proof (resp_in_batches s _ f k H b Ib) as Ilog.
  destruct (batch_in_ok s H b Ilog) as ((_ & Rb & _) & _).
  pose proof (recs_ok_in _ _ _ _ Rb Irb) as Ro.
  destruct (batch_in_ok s H c Ic) as (((? & ?) & _) & _).
  assert (b = c) by (apply (overlap_same_batch s b c (r_off r) H); auto; lia).
  congruence.
Qed.

(* a fetch with k >= 1 below the bound is not empty while a batch remains *)
Lemma response_nonempty : forall s bnd f k b,
  In b (batches s) -> f <= b_last b < bnd -> (1 <= k)%nat -> response s bnd f k <> [].
Proof.
  intros s bnd f k b Ib R K. unfold response.
  assert (I : In b (filter (fun b => (f <=? b_last b) && (b_last b <? bnd)) (batches s))).
  { apply filter_In. split; [exact Ib|lia]. }
  destruct (filter _ (batches s)) as [|x l]; [contradiction|].
  destruct k; [lia|]. cbn. discriminate.
Qed.

(* one answer holding everything up to the bound delivers the whole view *)
Lemma view_skip_below : forall s i f hi l,
  (forall b, In b l -> batch_ok b) ->
  view_of s i f hi l = view_of s i f hi (filter (fun b => f <=? b_last b) l).
Proof.
  intros s i f hi. induction l as [|b l IH]; intros Ok; [reflexivity|].
  cbn [filter view_of flat_map]. fold (view_of s i f hi l).
  rewrite IH by (intros; apply Ok; right; assumption).
  destruct (f <=? b_last b) eqn:E; [reflexivity|].
  destruct (deliverable s i b); [|reflexivity].
  rewrite filter_none; [reflexivity|]. intros r Ir.
  destruct (Ok b (or_introl eq_refl)) as (_ & Rb & _). pose proof (recs_ok_in _ _ _ _ Rb Ir). lia.
Qed.

Lemma filter_filter {A} (p q : A -> bool) : forall l,
  filter p (filter q l) = filter (fun x => p x && q x) l.
Proof.
  induction l as [|x l IH]; [reflexivity|]. cbn. destruct (q x); cbn.
  - rewrite andb_true_r. destruct (p x); cbn; rewrite IH; reflexivity.
  - rewrite andb_false_r. exact IH.
Qed.

Lemma filter_len {A} (p : A -> bool) : forall l, (List.length (filter p l) <= List.length l)%nat.
Proof. induction l as [|x l IH]; cbn; [lia|]. destruct (p x); cbn; lia. Qed.

Lemma one_fetch_complete : forall s, inv s -> forall i f k idx,
  (List.length (batches s) <= k)%nat ->
  index_req s i f (response s (bound s i) f k) idx ->
  delivered (unpack i f idx (response s (bound s i) f k)) = view s i f (bound s i).
Proof.
  intros s H i f k idx K Hidx. rewrite (proj1 (fetch_exact s H i f k idx Hidx)).
  unfold view, response. rewrite firstn_all2.
  2:{ pose proof (filter_len (fun b => (f <=? b_last b) && (b_last b <? bound s i)) (batches s)). lia. }
  symmetry.
  rewrite (view_skip_below s i f (bound s i) (filter (fun b => b_last b <? bound s i) (batches s))).
  2:{ intros b Ib. apply filter_In in Ib. exact (proj1 (batch_in_ok s H b (proj1 Ib))). }
  rewrite filter_filter. reflexivity.
Qed.

(* past the last batch below the bound the view does not grow *)
Lemma view_beyond : forall s i f p, inv s ->
  (forall b, In b (batches s) -> b_last b < bound s i -> b_last b < p) ->
  view s i f p = view s i f (bound s i).
Proof.
  intros s i f p H Hp. unfold view. apply view_of_ext. intros b r Ib Ir.
  apply filter_In in Ib. destruct Ib as (Ib & Lb).
  destruct (batch_in_ok s H b Ib) as ((_ & Rb & _) & _). pose proof (recs_ok_in _ _ _ _ Rb Ir).
  specialize (Hp b Ib ltac:(lia)). lia.
Qed.

(* ------------------------------------------------------------------------------------------ *)
(** * The statements of props/C08.v *)

Lemma rc_exact : forall ops f k idx,
  forallb valid_op ops = true ->
  index_ok (build ops) f (response (build ops) (lso (build ops)) f k) idx ->
  raised (unpack RC f idx (response (build ops) (lso (build ops)) f k)) = false /\
  delivered (unpack RC f idx (response (build ops) (lso (build ops)) f k)) =
    view_of (build ops) RC f (lso (build ops)) (response (build ops) (lso (build ops)) f k) /\
  (forall r, In r (delivered (unpack RC f idx (response (build ops) (lso (build ops)) f k))) <->
     exists b, In b (response (build ops) (lso (build ops)) f k) /\ b_ctl b = false /\
               (b_txn b = false \/ committed (build ops) b = true) /\
               In r (b_recs b) /\ f <= r_off r) /\
  (forall r, In r (delivered (unpack RC f idx (response (build ops) (lso (build ops)) f k))) ->
     r_off r < lso (build ops)).
Proof.
  intros ops f k idx V. set (s := build ops). intros Hidx. pose proof (build_inv ops V) as H.
  fold s in H. destruct (fetch_exact s H RC f k idx Hidx) as (D & R). cbn [bound] in D, R.
  split; [exact R|]. split; [exact D|]. split.
  - intros r. rewrite D, view_of_in. split.
    + intros (b & Ib & Dl & Ir & L). exists b. unfold deliverable in Dl.
      destruct (b_ctl b); [discriminate|]. destruct (b_txn b); cbn in Dl; intuition.
    + intros (b & Ib & C & T & Ir & L). exists b.
      destruct (response_split s (lso s) f k H) as (_ & _ & _ & _ & R').
      destruct (batch_in_ok s H b (resp_in_batches s _ f k H b Ib)) as ((_ & Rb & _) & _).
      pose proof (recs_ok_in _ _ _ _ Rb Ir). destruct (R' b Ib).
      repeat split; auto; [|lia]. unfold deliverable. rewrite C. cbn.
      destruct T as [-> | ->]; [reflexivity|apply orb_true_r].
  - intros r Ir. rewrite D in Ir. apply view_of_in in Ir. destruct Ir as (_ & _ & _ & _ & L). lia.
Qed.

Lemma ru_exact : forall ops f k idx,
  forallb valid_op ops = true ->
  raised (unpack RU f idx (response (build ops) (hw (build ops)) f k)) = false /\
  delivered (unpack RU f idx (response (build ops) (hw (build ops)) f k)) =
    view_of (build ops) RU f (hw (build ops)) (response (build ops) (hw (build ops)) f k) /\
  (forall r, In r (delivered (unpack RU f idx (response (build ops) (hw (build ops)) f k))) <->
     exists b, In b (response (build ops) (hw (build ops)) f k) /\ b_ctl b = false /\
               In r (b_recs b) /\ f <= r_off r) /\
  (forall r, In r (delivered (unpack RU f idx (response (build ops) (hw (build ops)) f k))) ->
     r_off r < hw (build ops)).
Proof.
  intros ops f k idx V. set (s := build ops). pose proof (build_inv ops V) as H. fold s in H.
  destruct (fetch_exact s H RU f k idx I) as (D & R). cbn [bound] in D, R.
  split; [exact R|]. split; [exact D|]. split.
  - intros r. rewrite D, view_of_in. split.
    + intros (b & Ib & Dl & Ir & L). exists b. unfold deliverable in Dl.
      destruct (b_ctl b); [discriminate|]. intuition.
    + intros (b & Ib & C & Ir & L). exists b.
      destruct (response_split s (hw s) f k H) as (_ & _ & _ & _ & R').
      destruct (batch_in_ok s H b (resp_in_batches s _ f k H b Ib)) as ((_ & Rb & _) & _).
      pose proof (recs_ok_in _ _ _ _ Rb Ir). destruct (R' b Ib).
      repeat split; auto; [|lia]. unfold deliverable. rewrite C. reflexivity.
  - intros r Ir. rewrite D in Ir. apply view_of_in in Ir. destruct Ir as (_ & _ & _ & _ & L). lia.
Qed.

Lemma no_markers_any : forall i f idx bs r,
  In r (delivered (unpack i f idx bs)) ->
  exists b, In b bs /\ b_ctl b = false /\ In r (b_recs b).
Proof. intros i f idx bs r. unfold unpack. apply loop_no_markers. Qed.

Lemma no_marker_offsets_built : forall ops i f k idx r c,
  forallb valid_op ops = true ->
  In r (delivered (unpack i f idx (response (build ops) (bound (build ops) i) f k))) ->
  In c (batches (build ops)) -> b_ctl c = true -> r_off r <> b_base c.
Proof. intros ops i f k idx r c V. apply no_marker_offsets. apply build_inv. exact V. Qed.

Lemma position_any : forall i f idx bs,
  bs <> [] -> raised (unpack i f idx bs) = false ->
  position (unpack i f idx bs) = b_next (last bs dummy_batch).
Proof.
  intros i f idx bs N R. unfold unpack in *. rewrite loop_position by exact R.
  destruct bs; [congruence|reflexivity].
Qed.

Lemma position_advances : forall ops i f k idx,
  forallb valid_op ops = true ->
  index_req (build ops) i f (response (build ops) (bound (build ops) i) f k) idx ->
  (response (build ops) (bound (build ops) i) f k <> [] ->
     position (unpack i f idx (response (build ops) (bound (build ops) i) f k)) =
       b_next (last (response (build ops) (bound (build ops) i) f k) dummy_batch) /\
     f < position (unpack i f idx (response (build ops) (bound (build ops) i) f k)) /\
     (forall b, In b (response (build ops) (bound (build ops) i) f k) ->
        b_last b < position (unpack i f idx (response (build ops) (bound (build ops) i) f k)))) /\
  (response (build ops) (bound (build ops) i) f k = [] ->
     position (unpack i f idx (response (build ops) (bound (build ops) i) f k)) = f) /\
  (forall b, In b (batches (build ops)) -> f <= b_last b < bound (build ops) i -> (1 <= k)%nat ->
     response (build ops) (bound (build ops) i) f k <> []).
Proof.
  intros ops i f k idx V. set (s := build ops). intros Hidx.
  pose proof (build_inv ops V) as H. fold s in H.
  pose proof (fetch_position s H i f k idx Hidx) as P.
  split; [|split].
  - intros N. split; [|split].
    + rewrite P. unfold end_of. destruct (response s (bound s i) f k); [congruence|reflexivity].
    + destruct (response s (bound s i) f k) as [|b l] eqn:E; [congruence|]. rewrite <- E in *.
      assert (Ib : In b (response s (bound s i) f k)) by (rewrite E; left; reflexivity).
      exact (proj2 (fetch_past_everything s H i f k idx Hidx b Ib)).
    + intros b Ib. exact (proj1 (fetch_past_everything s H i f k idx Hidx b Ib)).
  - intros E. rewrite P, E. reflexivity.
  - intros b Ib R K. exact (response_nonempty s (bound s i) f k b Ib R K).
Qed.

Lemma cut_invariance : forall ops i f cuts,
  forallb valid_op ops = true ->
  cuts_ok (build ops) i f cuts ->
  raised (fetch_seq (build ops) i f cuts) = false /\
  delivered (fetch_seq (build ops) i f cuts) =
    view (build ops) i f (position (fetch_seq (build ops) i f cuts)) /\
  f <= position (fetch_seq (build ops) i f cuts).
Proof. intros ops i f cuts V C. apply fetch_seq_view; [apply build_inv; exact V|exact C]. Qed.

Lemma cuts_equal_one_big_response : forall ops i f cuts k idx,
  forallb valid_op ops = true ->
  cuts_ok (build ops) i f cuts ->
  (forall b, In b (batches (build ops)) -> b_last b < bound (build ops) i ->
     b_last b < position (fetch_seq (build ops) i f cuts)) ->
  (List.length (batches (build ops)) <= k)%nat ->
  index_req (build ops) i f (response (build ops) (bound (build ops) i) f k) idx ->
  delivered (fetch_seq (build ops) i f cuts) =
    delivered (unpack i f idx (response (build ops) (bound (build ops) i) f k)) /\
  delivered (fetch_seq (build ops) i f cuts) = view (build ops) i f (bound (build ops) i).
Proof.
  intros ops i f cuts k idx V. set (s := build ops). intros C Hp K Hidx.
  pose proof (build_inv ops V) as H. fold s in H.
  destruct (fetch_seq_view s i cuts f H C) as (_ & D & _).
  rewrite (one_fetch_complete s H i f k idx K Hidx), D.
  split; apply view_beyond; assumption.
Qed.

Lemma kafka_index_admissible : forall ops bnd f k u idx,
  forallb valid_op ops = true ->
  (forall b, In b (response (build ops) bnd f k) -> b_base b < u) ->
  (forall e, In e (kafka_index (build ops) f u) <-> In e idx) ->
  index_ok (build ops) f (response (build ops) bnd f k) idx.
Proof.
  intros ops bnd f k u idx V Hu E. eapply index_ok_ext; [exact E|].
  apply kafka_index_ok; [apply build_inv; exact V|exact Hu].
Qed.

Lemma txn_trichotomy_built : forall ops b,
  forallb valid_op ops = true ->
  In b (batches (build ops)) -> is_data_txn b = true ->
  ((committed (build ops) b = true /\ aborted (build ops) b = false /\ in_open (build ops) b = false) \/
   (committed (build ops) b = false /\ aborted (build ops) b = true /\ in_open (build ops) b = false) \/
   (committed (build ops) b = false /\ aborted (build ops) b = false /\ in_open (build ops) b = true)) /\
  (b_last b < lso (build ops) -> in_open (build ops) b = false).
Proof.
  intros ops b V Ib D. pose proof (build_inv ops V) as H. split.
  - exact (txn_trichotomy _ H b Ib D).
  - intros L. exact (below_lso_not_open _ H b Ib L).
Qed.
