(* C15 — sticky assignor keeps assignments that need not move (StickyCtl level). *)
From Coq Require Import Arith List Bool Lia PeanoNat ZArith.
From Verif Require Import C14_Assignors C14_lists C14_Sticky C14_checkers C14_sticky C14_rr.
Import ListNotations.

Lemma filter_true : forall (A : Type) (f : A -> bool) (l : list A),
  (forall x, In x l -> f x = true) -> filter f l = l.
Proof.
  induction l as [|a l IH]; simpl; intros H; auto.
  rewrite (H a) by auto. f_equal. apply IH. auto.
Qed.

Lemma valid_drop_id : forall ppt ms st, ids_nodup ms -> valid ppt ms st -> drop ppt ms st = st.
Proof.
  intros ppt ms st Hi [_ [Hv _]]. unfold drop. apply filter_true.
  intros [m x] Hin. simpl. apply potential_b_spec; auto.
Qed.

(* ------------------------------------------------------------------ unchanged input *)
(* No conflicting claims ([prev] empty), previous assignment valid for the (unchanged)
   members / subscriptions / partitions and KIP-54 balanced: every accepted run of the
   executor's skeleton has an empty op log and returns the previous assignment. *)
Theorem ctl_unchanged_fixpoint : forall ppt ms st0 assigns reassigns obs r,
  ids_nodup ms -> valid ppt ms st0 -> kip54_balanced ms st0 ->
  ctl_run ppt ms [] st0 assigns reassigns obs = Some r ->
  cr_final r = st0 /\ assigns = [] /\ reassigns = [].
Proof.
  intros ppt ms st0 assigns reassigns obs r Hi Hv Hk H.
  destruct (ctl_run_inv _ _ _ _ _ _ _ _ H) as [st3 [mv [E2 [Ec [E3 [Ee [Eb [Er Ef]]]]]]]].
  rewrite (valid_drop_id _ _ _ Hi Hv) in E2.
  pose proof Hv as [Hn [Hsub Hcomp]].
  assert (Ea : assigns = []).
  { destruct assigns as [|[x c] rest]; auto. exfalso. simpl in E2.
    destruct (owner st0 x) eqn:Eo; [discriminate|].
    destruct (opt_nat_eqb (least_loaded st0 (potentials ppt ms x)) c) eqn:El; [|discriminate].
    apply opt_nat_eqb_eq in El. apply least_loaded_In in El.
    assert (Ha : assignable ppt ms x).
    { apply potentials_nonempty; auto. intros E. rewrite E in El. destruct El. }
    destruct (Hcomp x Ha) as [m Hm]. apply owner_none_iff in Eo. apply Eo.
    apply in_map_iff. exists (m, x). auto. }
  subst assigns. simpl in E2. inversion E2 as [E2']. rewrite <- E2' in *.
  assert (Eb' : reassigns = []).
  { destruct reassigns as [|[[x c'] q] rest]; auto. exfalso.
    rewrite ctl_reassigns_cons in E3.
    destruct (ctl_reassign ppt ms [] (scope ppt ms st0) (st0, []) (x, c', q)) eqn:E; [|discriminate].
    unfold ctl_reassign in E.
    destruct (is_balanced_b ppt ms st0 (scope ppt ms st0)); [discriminate|].
    destruct (negb (movable_b ppt ms x)); [discriminate|].
    destruct (owner st0 x) as [c|] eqn:Eo; [|discriminate].
    match type of E with (if ?g then _ else _) = _ => destruct g eqn:G; [|discriminate] end.
    apply andb_true_iff in G. destruct G as [G _]. apply andb_true_iff in G. destruct G as [G _].
    simpl in G. apply andb_true_iff in G. destruct G as [G _].
    unfold gen_trigger in G. apply existsb_exists in G. destruct G as [o [Ho Hlt]].
    apply Nat.ltb_lt in Hlt. apply potentials_In in Ho. destruct Ho as [Hoid Hop].
    apply potential_b_spec in Hop; auto. destruct Hop as [Hos _].
    pose proof (Hk c x o (owner_some_In _ _ _ Eo) Hoid Hos). lia. }
  subst reassigns. simpl in E3. inversion E3; subst st3.
  split; auto. rewrite Ef. destruct obs; auto.
Qed.

(* ------------------------------------------------------------------ members left *)
Lemma less_loaded_le : forall st a b, less_loaded st a b = true -> load st a <= load st b.
Proof.
  unfold less_loaded. intros st a b H. apply orb_true_iff in H. destruct H as [H|H].
  - apply Nat.ltb_lt in H. lia.
  - apply andb_true_iff in H. destruct H as [H _]. apply Nat.eqb_eq in H. lia.
Qed.

Lemma less_loaded_false : forall st a b, less_loaded st a b = false -> load st b <= load st a.
Proof.
  unfold less_loaded. intros st a b H. apply orb_false_iff in H. destruct H as [H _].
  apply Nat.ltb_ge in H. auto.
Qed.

Lemma least_loaded_min : forall st cs c, least_loaded st cs = Some c ->
  forall b, In b cs -> load st c <= load st b.
Proof.
  induction cs as [|a r IH]; simpl; intros c H b Hb; [tauto|].
  destruct (least_loaded st r) as [b0|] eqn:E.
  - destruct (less_loaded st b0 a) eqn:L; inversion H; subst.
    + destruct Hb as [->|Hb]; [apply less_loaded_le; auto | apply IH; auto].
    + apply less_loaded_false in L. destruct Hb as [->|Hb]; auto.
      pose proof (IH b0 eq_refl b Hb). lia.
  - inversion H; subst. destruct Hb as [->|Hb]; auto.
    destruct r; simpl in *; [tauto|]. destruct (least_loaded st r); [destruct (less_loaded st n0 n)|]; discriminate.
Qed.

Lemma load_app : forall (a b : list (nat * (nat * nat))) m, load (a ++ b) m = load a m + load b m.
Proof. intros. unfold load. rewrite filter_app, app_length. reflexivity. Qed.

Lemma pairs_within_one_intro : forall st cs,
  (forall a b, In a cs -> In b cs -> load st a <= load st b + 1) -> pairs_within_one st cs = true.
Proof.
  intros st cs H. unfold pairs_within_one. apply forallb_forall. intros a Ha.
  apply forallb_forall. intros b Hb. apply Nat.leb_le. auto.
Qed.

Lemma pairs_within_one_elim : forall st cs a b,
  pairs_within_one st cs = true -> In a cs -> In b cs -> load st a <= load st b + 1.
Proof.
  intros st cs a b H Ha Hb. unfold pairs_within_one in H. rewrite forallb_forall in H.
  specialize (H a Ha). rewrite forallb_forall in H. apply Nat.leb_le. auto.
Qed.

(* identical subscriptions: a partition that anybody may consume, everybody may consume *)
Lemma identical_all_potential : forall ppt ms c0 c x, ids_nodup ms -> identical_subs ms ->
  potential_b ppt ms c0 x = true -> In c (map fst ms) -> potential_b ppt ms c x = true.
Proof.
  intros ppt ms c0 c x Hi Hid H0 Hc.
  apply potential_b_spec in H0; auto. destruct H0 as [[s0 [Hin0 Ht0]] Hp].
  apply potential_b_spec; auto. split; auto.
  apply in_map_iff in Hc. destruct Hc as [[c' s] [E Hin]]. simpl in E. subst c'.
  exists s. split; auto. eapply Hid; eauto.
Qed.

Lemma ctl_assign_within_one : forall ppt ms st a st', ids_nodup ms -> identical_subs ms ->
  pairs_within_one st (map fst ms) = true ->
  ctl_assign ppt ms st a = Some st' ->
  pairs_within_one st' (map fst ms) = true /\ incl st st'.
Proof.
  intros ppt ms st [x c] st' Hi Hid Hw H. unfold ctl_assign in H.
  destruct (owner st x); [discriminate|].
  destruct (opt_nat_eqb (least_loaded st (potentials ppt ms x)) c) eqn:E; [|discriminate].
  inversion H; subst. clear H. apply opt_nat_eqb_eq in E.
  pose proof (least_loaded_In _ _ _ E) as Hc. apply potentials_In in Hc. destruct Hc as [Hcid Hcp].
  assert (Hall : potentials ppt ms x = map fst ms).
  { unfold potentials. apply filter_true. intros m Hm. eapply identical_all_potential; eauto. }
  rewrite Hall in E. pose proof (least_loaded_min _ _ _ E) as Hmin.
  split; [|apply incl_appl, incl_refl].
  apply pairs_within_one_intro. intros a b Ha Hb. rewrite !load_app.
  pose proof (pairs_within_one_elim _ _ a b Hw Ha Hb).
  unfold load at 2 4. simpl.
  destruct (Nat.eqb_spec c a) as [Ea|Ea]; destruct (Nat.eqb_spec c b) as [Eb|Eb]; simpl; try lia.
  pose proof (Hmin b Hb). subst. lia.
Qed.

Lemma ctl_assigns_within_one : forall ppt ms l st st', ids_nodup ms -> identical_subs ms ->
  pairs_within_one st (map fst ms) = true ->
  ctl_assigns ppt ms st l = Some st' ->
  pairs_within_one st' (map fst ms) = true /\ incl st st'.
Proof.
  induction l as [|a r IH]; simpl; intros st st' Hi Hid Hw H.
  - inversion H; subst. split; auto. apply incl_refl.
  - destruct (ctl_assign ppt ms st a) as [st1|] eqn:E; [|discriminate].
    destruct (ctl_assign_within_one _ _ _ _ _ Hi Hid Hw E) as [Hw1 I1].
    destruct (IH _ _ Hi Hid Hw1 H) as [Hw2 I2]. split; auto.
    eapply incl_tran; eauto.
Qed.

(* All members subscribe to the same topics; what the surviving members validly hold
   (the state after Drop) is within one of each other — which it is when it is what is left of a
   within-one assignment after some members departed.  Then every accepted run of the
   skeleton hands out the orphaned partitions without a single Move: nothing a survivor
   held goes anywhere else. *)
Theorem ctl_minus_no_survivor_moves : forall ppt ms prev st0 assigns reassigns obs r,
  ids_nodup ms -> identical_subs ms ->
  pairs_within_one (drop ppt ms st0) (map fst ms) = true ->
  ctl_run ppt ms prev st0 assigns reassigns obs = Some r ->
  reassigns = [] /\ incl (drop ppt ms st0) (cr_final r).
Proof.
  intros ppt ms prev st0 assigns reassigns obs r Hi Hid Hw H.
  destruct (ctl_run_inv _ _ _ _ _ _ _ _ H) as [st3 [mv [E2 [Ec [E3 [Ee [Eb [Er Ef]]]]]]]].
  destruct (ctl_assigns_within_one _ _ _ _ _ Hi Hid Hw E2) as [Hw2 I2].
  assert (Hbal : is_balanced_b ppt ms (cr_prebalance r) (scope ppt ms (cr_prebalance r)) = true).
  { unfold is_balanced_b. apply orb_true_iff. left. apply pairs_within_one_intro.
    intros a b Ha Hb. apply (pairs_within_one_elim _ _ a b Hw2).
    - unfold scope in Ha. apply filter_In in Ha. tauto.
    - unfold scope in Hb. apply filter_In in Hb. tauto. }
  assert (Er' : reassigns = []).
  { destruct reassigns as [|[[x c'] q] rest]; auto. exfalso.
    rewrite ctl_reassigns_cons in E3. unfold ctl_reassign in E3. rewrite Hbal in E3. discriminate. }
  subst reassigns. simpl in E3. inversion E3 as [[E3a E3b]].
  split; auto. rewrite Ef. destruct obs; auto. rewrite <- E3a. auto.
Qed.

Lemma incl_moved_among_nil : forall keep (old new : list (nat * (nat * nat))),
  NoDup (map snd new) -> incl old new -> moved_among keep old new = [].
Proof.
  intros keep old new Hn Hi. unfold moved_among.
  induction old as [|[m x] old IH]; simpl; auto.
  rewrite IH by (intros e He; apply Hi; simpl; auto).
  rewrite (owner_In_nodup new x m Hn) by (apply Hi; simpl; auto).
  rewrite Nat.eqb_refl. destruct (mem_nat m keep); reflexivity.
Qed.

(* the same, in the vocabulary of the property: no partition moves between two members of
   [keep] (whatever [keep] is — in particular the surviving members) *)
Theorem ctl_minus_moved_nil : forall ppt ms prev st0 assigns reassigns obs r keep,
  ids_nodup ms -> identical_subs ms -> NoDup (map snd st0) ->
  pairs_within_one (drop ppt ms st0) (map fst ms) = true ->
  ctl_run ppt ms prev st0 assigns reassigns obs = Some r ->
  moved_among keep (drop ppt ms st0) (cr_final r) = [].
Proof.
  intros ppt ms prev st0 assigns reassigns obs r keep Hi Hid Hn Hw H.
  destruct (ctl_minus_no_survivor_moves _ _ _ _ _ _ _ _ Hi Hid Hw H) as [Er Hincl].
  apply incl_moved_among_nil; auto.
  destruct (ctl_run_inv _ _ _ _ _ _ _ _ H) as [st3 [mv [E2 [Ec [E3 [Ee [Eb [Er' Ef]]]]]]]].
  subst reassigns. simpl in E3. inversion E3 as [[E3a E3b]].
  assert (I : abs_inv ppt ms (drop ppt ms st0, None))
    by (split; simpl; [apply drop_sound; auto | discriminate]).
  pose proof (proj1 (abs_run_inv _ _ _ _ _ I (ctl_assigns_abs _ _ _ _ _ None E2))) as [Hn2 _].
  simpl in Hn2. rewrite Ef. destruct obs; [|rewrite <- E3a]; auto.
Qed.

(* ------------------------------------------------------------------ consistent user data *)
(* When no partition is claimed twice, _init_current_assignments takes the claims verbatim
   and records no "previous" owner. *)
Definition claimed_triples (claims : list (nat * Z * list (nat * nat))) : list (nat * (nat * nat)) :=
  flat_map (fun cl => map (pair (fst (fst cl))) (snd cl)) claims.
Definition claim_entries (claims : list (nat * Z * list (nat * nat)))
  : list ((nat * nat) * list (Z * nat)) :=
  flat_map (fun cl => map (fun x => (x, [(snd (fst cl), fst (fst cl))])) (snd cl)) claims.

Lemma NoDup_app_l : forall (A : Type) (l l' : list A), NoDup (l ++ l') -> NoDup l.
Proof.
  induction l as [|a l IH]; simpl; intros l' H; [constructor|].
  inversion H; subst. constructor; [rewrite in_app_iff in *; tauto | eapply IH; eauto].
Qed.
Lemma NoDup_app_r : forall (A : Type) (l l' : list A), NoDup (l ++ l') -> NoDup l'.
Proof.
  induction l as [|a l IH]; simpl; intros l' H; auto. inversion H; subst. auto.
Qed.

Lemma claim_put_fresh : forall acc x g c, ~ In x (map fst acc) ->
  claim_put acc x g c = acc ++ [(x, [(g, c)])].
Proof.
  induction acc as [|[y gens] r IH]; simpl; intros x g c H; auto.
  destruct (tp_eqb y x) eqn:E.
  - apply tp_eqb_eq in E. subst. tauto.
  - rewrite IH by tauto. reflexivity.
Qed.

Lemma claim_fold_fresh : forall xs acc g c,
  NoDup (map fst acc ++ xs) ->
  fold_left (fun acc' x => claim_put acc' x g c) xs acc = acc ++ map (fun x => (x, [(g, c)])) xs.
Proof.
  induction xs as [|x xs IH]; simpl; intros acc g c Hn.
  - rewrite app_nil_r. reflexivity.
  - assert (Hx : ~ In x (map fst acc)).
    { intros Hin. apply NoDup_remove_2 in Hn. apply Hn. apply in_app_iff. auto. }
    rewrite claim_put_fresh by auto. rewrite IH.
    + rewrite <- app_assoc. reflexivity.
    + rewrite map_app. simpl. rewrite <- app_assoc. simpl.
      apply NoDup_remove_1 in Hn as Hn1.
      apply NoDup_remove_2 in Hn as Hn2.
      (* move x from the middle to between acc and xs *)
      assert (G : forall (l1 l2 : list (nat * nat)), NoDup (l1 ++ l2) -> ~ In x (l1 ++ l2) ->
                  NoDup (l1 ++ x :: l2)).
      { induction l1 as [|a l1 IHl]; simpl; intros l2 Hnd Hnot.
        - constructor; auto.
        - inversion Hnd; subst. constructor.
          + rewrite in_app_iff in *. simpl. intros [Hi|[Hi|Hi]]; subst; tauto.
          + apply IHl; auto. }
      apply G; auto.
Qed.

Lemma claim_table_fresh : forall claims acc,
  NoDup (map fst acc ++ flat_map snd claims) ->
  fold_left (fun acc cl => let '(c, g, xs) := cl in
                           fold_left (fun acc' x => claim_put acc' x g c) xs acc) claims acc
  = acc ++ claim_entries claims.
Proof.
  induction claims as [|[[c g] xs] r IH]; simpl; intros acc Hn.
  - rewrite app_nil_r. reflexivity.
  - rewrite claim_fold_fresh.
    + rewrite IH.
      * unfold claim_entries. simpl. rewrite <- app_assoc. reflexivity.
      * rewrite map_app, map_map. simpl. rewrite map_id, <- app_assoc. exact Hn.
    + rewrite app_assoc in Hn. apply NoDup_app_l in Hn. exact Hn.
Qed.

Theorem init_current_consistent : forall claims,
  NoDup (flat_map snd claims) ->
  init_current claims = (claimed_triples claims, []).
Proof.
  intros claims Hn. unfold init_current, claim_table.
  rewrite (claim_table_fresh claims []) by exact Hn. simpl.
  unfold claim_entries, claimed_triples. f_equal.
  - induction claims as [|[[c g] xs] r IH]; simpl; auto.
    rewrite flat_map_app. f_equal.
    + clear. induction xs as [|x xs IHx]; simpl; auto. f_equal. exact IHx.
    + apply IH. simpl in Hn. apply NoDup_app_r in Hn. exact Hn.
  - induction claims as [|[[c g] xs] r IH]; simpl; auto.
    rewrite flat_map_app. rewrite IH by (simpl in Hn; apply NoDup_app_r in Hn; exact Hn).
    rewrite app_nil_r. clear. induction xs as [|x xs IHx]; simpl; auto.
    unfold gens_without. simpl. rewrite Z.eqb_refl. simpl. exact IHx.
Qed.
