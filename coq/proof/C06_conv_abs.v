(* The member-level operations of model/C06_Converge.v on the finite view [av], and the proofs that [absm]
   commutes with them. *)
From Coq Require Import ZArith List Bool Arith Lia.
From Verif Require Import DispatchActs HeartbeatDispatch JoinRetryDispatch JoinDispatch SyncDispatch CommitDispatch
  C06_Converge C06_conv_lib C06_conv_refl.
Import ListNotations.
Local Open Scope nat_scope.

(* ---- field updates of the view ---- *)
Definition a_core (live : bool) (ph : phase) (rejoin : bool) (ck : ckst) (hb : bool) (ib : ibk) (hbin cmin : option Z) (a : av) : av :=
  mkA live ph rejoin ck hb ib hbin cmin (a_st a) (a_G0 a) (a_idz a) (a_id_e a) (a_id_p a) (a_id_jp a) (a_id_sp a)
      (a_genz a) (a_gen_eq a) (a_gen_le a) (a_fz a) (a_f_e a) (a_f_p a) (a_f_jp a) (a_f_sp a) (a_f_id a)
      (a_gz a) (a_g_eq a) (a_g_le a).
Definition a_set_live b a := a_core b (a_ph a) (a_rejoin a) (a_ck a) (a_hb a) (a_ib a) (a_hbin a) (a_cmin a) a.
Definition a_set_rejoin b a := a_core (a_live a) (a_ph a) b (a_ck a) (a_hb a) (a_ib a) (a_hbin a) (a_cmin a) a.
Definition a_set_ck k a := a_core (a_live a) (a_ph a) (a_rejoin a) k (a_hb a) (a_ib a) (a_hbin a) (a_cmin a) a.
Definition a_set_hb b a := a_core (a_live a) (a_ph a) (a_rejoin a) (a_ck a) b (a_ib a) (a_hbin a) (a_cmin a) a.
Definition a_set_hbin o a := a_core (a_live a) (a_ph a) (a_rejoin a) (a_ck a) (a_hb a) (a_ib a) o (a_cmin a) a.
Definition a_set_cmin o a := a_core (a_live a) (a_ph a) (a_rejoin a) (a_ck a) (a_hb a) (a_ib a) (a_hbin a) o a.
(* m_id := z e p jp sp-view; the relation "focus = m_id" becomes [fid] *)
Definition a_set_idv (z e p jp sp fid : bool) (a : av) : av :=
  mkA (a_live a) (a_ph a) (a_rejoin a) (a_ck a) (a_hb a) (a_ib a) (a_hbin a) (a_cmin a) (a_st a) (a_G0 a)
      z e p jp sp (a_genz a) (a_gen_eq a) (a_gen_le a) (a_fz a) (a_f_e a) (a_f_p a) (a_f_jp a) (a_f_sp a) fid
      (a_gz a) (a_g_eq a) (a_g_le a).
Definition a_set_genv (z eq le : bool) (a : av) : av :=
  mkA (a_live a) (a_ph a) (a_rejoin a) (a_ck a) (a_hb a) (a_ib a) (a_hbin a) (a_cmin a) (a_st a) (a_G0 a)
      (a_idz a) (a_id_e a) (a_id_p a) (a_id_jp a) (a_id_sp a) z eq le (a_fz a) (a_f_e a) (a_f_p a) (a_f_jp a) (a_f_sp a) (a_f_id a)
      (a_gz a) (a_g_eq a) (a_g_le a).
(* leaving PJoinSent with an empty inbox: the focus and the reply generation become the canonical 0 *)
Definition a_leave_join (ph : phase) (a : av) : av :=
  mkA (a_live a) ph (a_rejoin a) (a_ck a) (a_hb a) INone (a_hbin a) (a_cmin a) (a_st a) (a_G0 a)
      (a_idz a) (a_id_e a) (a_id_p a) (a_id_jp a) (a_id_sp a) (a_genz a) (a_gen_eq a) (a_gen_le a)
      true false false false false (a_idz a) true (a_G0 a) true.

(* reset_generation *)
Definition a_reset (a : av) : av :=
  a_set_rejoin true (a_set_genv true (a_G0 a) true (a_set_idv true false false false false (a_fz a) a)).
(* member_id := the id of the exchange *)
Definition a_adopt (a : av) : av := a_set_idv (a_fz a) (a_f_e a) (a_f_p a) (a_f_jp a) (a_f_sp a) true a.

(* [jr]: the chain belongs to a JoinGroup reply (the reply's member id is the focus); otherwise it is 0 *)
Definition areact1 (jr : bool) (a : av) (x : act) : av :=
  match x with
  | ACoordinatorDead => a_set_ck CkNone a
  | ARequestRejoin => a_set_rejoin true a
  | AResetGeneration => a_reset a
  | ASetMemberId => if jr then a_adopt a else a_set_idv true false false false false (a_fz a) a
  | ARaiseSame | ARaiseCode _ | ARaiseUnexpected | ARaiseOther => a_set_live false a
  | _ => a
  end.
Definition areact (jr : bool) (acts : list act) (a : av) : av := fold_left (areact1 jr) acts a.

Definition a_recv_hb (code : Z) (a : av) : av :=
  let a1 := areact false (heartbeatDispatch code) (a_set_hbin None a) in
  if a_idz a1 then a_set_hb false a1 else a1.
Definition a_recv_cm (code : Z) (a : av) : av := areact false (commitDispatch code) (a_set_cmin None a).
(* inbox := None (phase unchanged): the reply generation becomes the canonical 0 *)
Definition a_clear_ib (a : av) : av :=
  mkA (a_live a) (a_ph a) (a_rejoin a) (a_ck a) (a_hb a) INone (a_hbin a) (a_cmin a) (a_st a) (a_G0 a)
      (a_idz a) (a_id_e a) (a_id_p a) (a_id_jp a) (a_id_sp a) (a_genz a) (a_gen_eq a) (a_gen_le a)
      (a_fz a) (a_f_e a) (a_f_p a) (a_f_jp a) (a_f_sp a) (a_f_id a) true (a_G0 a) true.
Definition a_recv_join (code : Z) (a : av) : av :=
  if has ARetryJoin (joinRetryDispatch code) then
    a_leave_join PIdle (areact true (joinRetryDispatch code) (a_clear_ib a))
  else if has ASuccess (joinDispatch code) then
    a_leave_join PJoined (a_set_genv (a_gz a) (a_g_eq a) (a_g_le a) (a_adopt (a_clear_ib a)))
  else a_leave_join PIdle (areact true (joinDispatch code) (a_clear_ib a)).
Definition a_recv_sync (code : Z) (a : av) : av :=
  if has ASuccess (syncDispatch code) then a_set_hb true (a_leave_join PIdle (a_clear_ib a))
  else a_leave_join PIdle (areact false (syncDispatch code) (a_clear_ib a)).

(* ---- the coordinator facts about the id 0 ---- *)
Definition zfacts (c : coord) : Prop :=
  memb 0 (ids (c_ents c)) = false /\ memb 0 (c_pend c) = false /\ ent_jp c 0 = false /\ ent_sp c 0 = false.

Lemma find_ent_none : forall x es, memb x (ids es) = false -> find_ent x es = None.
Proof.
  intros x es. induction es as [|e r IH]; simpl; intros H; [reflexivity|].
  unfold memb in H. simpl in H. apply orb_false_iff in H. destruct H as [H1 H2].
  unfold find_ent. simpl. rewrite Nat.eqb_sym, H1. apply IH. exact H2.
Qed.

Record wf_c_facts (c : coord) : Prop := {
  wc_nodup : nodupb (ids (c_ents c)) = true;
  wc_0e : memb 0 (ids (c_ents c)) = false;
  wc_0p : memb 0 (c_pend c) = false;
  wc_pend : forallb (fun x => negb (memb x (ids (c_ents c)))) (c_pend c) = true;
  wc_nonempty : cstate_eqb (c_st c) CEmpty || negb (is_none (hd_error (c_ents c))) = true;
  wc_empty : negb (cstate_eqb (c_st c) CEmpty) || is_none (hd_error (c_ents c)) = true;
  wc_jp : cstate_eqb (c_st c) CPreparing || forallb (fun e => negb (e_jp e)) (c_ents c) = true;
  wc_sp : cstate_eqb (c_st c) CCompleting || forallb (fun e => negb (e_sp e)) (c_ents c) = true;
  wc_notall : negb (cstate_eqb (c_st c) CPreparing) || negb (all_joined (c_ents c)) = true;
  wc_leader : match c_st c with CCompleting | CStable => memb (c_leader c) (ids (c_ents c)) && negb (c_gen c =? 0) | _ => true end = true;
  wc_lsp : ent_sp c (c_leader c) = false }.
Lemma wf_c_parts : forall c, wf_c c = true -> wf_c_facts c.
Proof.
  intros c H. unfold wf_c in H.
  apply andb_true_iff in H; destruct H as [H A11]. apply andb_true_iff in H; destruct H as [H A10].
  apply andb_true_iff in H; destruct H as [H A9]. apply andb_true_iff in H; destruct H as [H A8].
  apply andb_true_iff in H; destruct H as [H A7]. apply andb_true_iff in H; destruct H as [H A6].
  apply andb_true_iff in H; destruct H as [H A5]. apply andb_true_iff in H; destruct H as [H A4].
  apply andb_true_iff in H; destruct H as [H A3]. apply andb_true_iff in H; destruct H as [A1 A2].
  apply negb_true_iff in A2, A3, A11. constructor; assumption.
Qed.
Lemma wf_c_of_parts : forall c, wf_c_facts c -> wf_c c = true.
Proof.
  intros c [A1 A2 A3 A4 A5 A6 A7 A8 A9 A10 A11]. unfold wf_c.
  rewrite A1, A2, A3, A4, A5, A6, A7, A8, A9, A10, A11. reflexivity.
Qed.

(* the part of the coordinator's well-formedness that the views rely on (also holds between _prepare_rebalance and
   _complete_join, where "not completely joined" may fail) *)
Record wf_cw (c : coord) : Prop := {
  ww_nodup : nodupb (ids (c_ents c)) = true;
  ww_0e : memb 0 (ids (c_ents c)) = false;
  ww_0p : memb 0 (c_pend c) = false;
  ww_pend : forallb (fun x => negb (memb x (ids (c_ents c)))) (c_pend c) = true;
  ww_empty : negb (cstate_eqb (c_st c) CEmpty) || is_none (hd_error (c_ents c)) = true;
  ww_jp : cstate_eqb (c_st c) CPreparing || forallb (fun e => negb (e_jp e)) (c_ents c) = true;
  ww_sp : cstate_eqb (c_st c) CCompleting || forallb (fun e => negb (e_sp e)) (c_ents c) = true;
  ww_gen : match c_st c with CCompleting | CStable => negb (c_gen c =? 0) | _ => true end = true }.
Lemma wf_cw_of_wf : forall c, wf_c c = true -> wf_cw c.
Proof.
  intros c H. pose proof (wf_c_parts c H) as W. constructor;
    [exact (wc_nodup c W) | exact (wc_0e c W) | exact (wc_0p c W) | exact (wc_pend c W) | exact (wc_empty c W)
    | exact (wc_jp c W) | exact (wc_sp c W)|].
  pose proof (wc_leader c W) as Hl. destruct (c_st c); try reflexivity; apply andb_true_iff in Hl; destruct Hl as [_ Hl]; exact Hl.
Qed.
Lemma wcw_zfacts : forall c, wf_cw c -> zfacts c.
Proof.
  intros c W. unfold zfacts. repeat split; [exact (ww_0e c W) | exact (ww_0p c W) | |].
  - unfold ent_jp. rewrite (find_ent_none 0 _ (ww_0e c W)). reflexivity.
  - unfold ent_sp. rewrite (find_ent_none 0 _ (ww_0e c W)). reflexivity.
Qed.

Lemma wf_c_zfacts : forall c, wf_c c = true -> zfacts c.
Proof.
  intros c H. destruct (wf_c_parts c H). unfold zfacts. repeat split; try assumption.
  - unfold ent_jp. rewrite (find_ent_none 0 _ wc_0e0). reflexivity.
  - unfold ent_sp. rewrite (find_ent_none 0 _ wc_0e0). reflexivity.
Qed.


(* controlled reduction: projections of the two records, the setters and the small helper functions only *)
Ltac pcbn :=
  cbn [m_name m_live m_ph m_rejoin m_ck m_hb m_hbin m_cmin m_id m_gen m_focus m_inbox
       set_live set_id set_gen set_ph set_rejoin set_ck set_hb set_focus set_inbox set_hbin set_cmin
       focus_of rgen_of ib_of
       a_live a_ph a_rejoin a_ck a_hb a_ib a_hbin a_cmin a_st a_G0 a_idz a_id_e a_id_p a_id_jp a_id_sp a_genz a_gen_eq a_gen_le
       a_fz a_f_e a_f_p a_f_jp a_f_sp a_f_id a_gz a_g_eq a_g_le].
Ltac pcbn_in H :=
  cbn [m_name m_live m_ph m_rejoin m_ck m_hb m_hbin m_cmin m_id m_gen m_focus m_inbox
       set_live set_id set_gen set_ph set_rejoin set_ck set_hb set_focus set_inbox set_hbin set_cmin
       focus_of rgen_of ib_of
       a_live a_ph a_rejoin a_ck a_hb a_ib a_hbin a_cmin a_st a_G0 a_idz a_id_e a_id_p a_id_jp a_id_sp a_genz a_gen_eq a_gen_le
       a_fz a_f_e a_f_p a_f_jp a_f_sp a_f_id a_gz a_g_eq a_g_le] in H.

(* ---- commutation of [absm] with the member-level operations ---- *)
Section Commute.
  Variable c : coord.
  Hypothesis Z : zfacts c.

  Lemma absm_set_ck : forall k m, absm c (set_ck k m) = a_set_ck k (absm c m).
  Proof. reflexivity. Qed.
  Lemma absm_set_rejoin : forall b m, absm c (set_rejoin b m) = a_set_rejoin b (absm c m).
  Proof. reflexivity. Qed.
  Lemma absm_set_live : forall b m, absm c (set_live b m) = a_set_live b (absm c m).
  Proof. reflexivity. Qed.
  Lemma absm_set_hb : forall b m, absm c (set_hb b m) = a_set_hb b (absm c m).
  Proof. reflexivity. Qed.
  Lemma absm_set_hbin : forall o m, absm c (set_hbin o m) = a_set_hbin o (absm c m).
  Proof. reflexivity. Qed.
  Lemma absm_set_cmin : forall o m, absm c (set_cmin o m) = a_set_cmin o (absm c m).
  Proof. reflexivity. Qed.

  Lemma absm_reset : forall m,
    absm c (set_rejoin true (set_gen 0 (set_id 0 m))) = a_reset (absm c m).
  Proof.
    intros m. destruct Z as (Z1 & Z2 & Z3 & Z4). unfold absm, a_reset, a_set_rejoin, a_set_genv, a_set_idv, a_core. pcbn.
    rewrite Z1, Z2, Z3, Z4. rewrite (Nat.eqb_sym 0 (c_gen c)). reflexivity.
  Qed.

  Lemma absm_adopt : forall m, m_ph m = PJoinSent -> absm c (set_id (m_focus m) m) = a_adopt (absm c m).
  Proof.
    intros m P. unfold absm, a_adopt, a_set_idv, focus_of. pcbn. rewrite P. cbn [ph_eqb]. rewrite Nat.eqb_refl. reflexivity.
  Qed.

  Lemma absm_set_id0 : forall m, absm c (set_id 0 m) = a_set_idv true false false false false (a_fz (absm c m)) (absm c m).
  Proof.
    intros m. destruct Z as (Z1 & Z2 & Z3 & Z4). unfold absm, a_set_idv. pcbn. rewrite Z1, Z2, Z3, Z4. reflexivity.
  Qed.

  Lemma react1_ph : forall rid m x, m_ph (react1 rid m x) = m_ph m /\ m_focus (react1 rid m x) = m_focus m.
  Proof. intros rid m x. destruct x; split; reflexivity. Qed.

  Lemma absm_react1 : forall jr rid m x,
    (jr = true -> m_ph m = PJoinSent /\ rid = m_focus m) -> (jr = false -> rid = 0) ->
    absm c (react1 rid m x) = areact1 jr (absm c m) x.
  Proof.
    intros jr rid m x Hj Hn. destruct x; cbn [react1 areact1]; try reflexivity.
    - apply absm_reset.
    - destruct jr.
      + destruct (Hj eq_refl) as [P ->]. apply absm_adopt. exact P.
      + rewrite (Hn eq_refl). apply absm_set_id0.
  Qed.

  Lemma absm_react : forall jr rid acts m,
    (jr = true -> m_ph m = PJoinSent /\ rid = m_focus m) -> (jr = false -> rid = 0) ->
    absm c (react rid acts m) = areact jr acts (absm c m).
  Proof.
    intros jr rid acts. induction acts as [|x r IH]; intros m Hj Hn; [reflexivity|].
    unfold react, areact in *. cbn [fold_left]. rewrite IH.
    - rewrite (absm_react1 jr rid m x Hj Hn). reflexivity.
    - intros E. destruct (Hj E) as [P F]. destruct (react1_ph rid m x) as [A B]. rewrite A, B. split; assumption.
    - exact Hn.
  Qed.

  Lemma absm_recv_hb : forall code m, absm c (recv_hb code m) = a_recv_hb code (absm c m).
  Proof.
    intros code m. unfold recv_hb, a_recv_hb.
    rewrite <- absm_set_hbin. rewrite <- (absm_react false 0); [|intros; discriminate | reflexivity].
    set (m1 := react 0 (heartbeatDispatch code) (set_hbin None m)).
    change (a_idz (absm c m1)) with (m_id m1 =? 0). destruct (m_id m1 =? 0); reflexivity.
  Qed.

  Lemma absm_recv_cm : forall code m, absm c (recv_cm code m) = a_recv_cm code (absm c m).
  Proof.
    intros code m. unfold recv_cm, a_recv_cm. rewrite <- absm_set_cmin.
    rewrite <- (absm_react false 0); [reflexivity | intros; discriminate | reflexivity].
  Qed.
  Lemma absm_clear_ib : forall m, absm c (set_inbox None m) = a_clear_ib (absm c m).
  Proof.
    intros m. unfold absm, a_clear_ib, focus_of. pcbn. rewrite (Nat.eqb_sym 0 (c_gen c)). reflexivity.
  Qed.

  Lemma react1_inbox : forall rid m x, m_inbox (react1 rid m x) = m_inbox m.
  Proof. intros rid m x. destruct x; reflexivity. Qed.
  Lemma react_inbox : forall rid acts m, m_inbox (react rid acts m) = m_inbox m.
  Proof.
    intros rid acts. induction acts as [|x r IH]; intros m; [reflexivity|]. unfold react in *. cbn [fold_left].
    rewrite IH. apply react1_inbox.
  Qed.

  (* leaving the JoinGroup / SyncGroup exchange: the phase changes, the inbox is already empty *)
  Lemma absm_leave : forall ph m, ph <> PJoinSent -> m_inbox m = None ->
    absm c (set_ph ph m) = a_leave_join ph (absm c m).
  Proof.
    intros ph m Hp Hi. destruct Z as (Z1 & Z2 & Z3 & Z4). unfold absm, a_leave_join, focus_of, rgen_of, ib_of. pcbn. rewrite Hi.
    destruct ph; try congruence; cbn [ph_eqb]; rewrite Z1, Z2, Z3, Z4, (Nat.eqb_sym 0 (m_id m)), (Nat.eqb_sym 0 (c_gen c)); reflexivity.
  Qed.

  Lemma absm_recv_join : forall code g m, m_ph m = PJoinSent -> m_inbox m = Some (RpJoin code g) ->
    absm c (recv_join code g m) = a_recv_join code (absm c m).
  Proof.
    intros code g m P I. unfold recv_join, a_recv_join.
    destruct (has ARetryJoin (joinRetryDispatch code)).
    - rewrite absm_leave; [|discriminate | rewrite react_inbox; reflexivity].
      rewrite (absm_react true (m_focus m)); [rewrite absm_clear_ib; reflexivity | intros _; split; [exact P | reflexivity] | intros; discriminate].
    - destruct (has ASuccess (joinDispatch code)).
      + rewrite absm_leave; [|discriminate | reflexivity]. f_equal.
        rewrite <- absm_clear_ib.
        assert (E : absm c (set_id (m_focus m) (set_inbox None m)) = a_adopt (absm c (set_inbox None m))).
        { apply (absm_adopt (set_inbox None m)). exact P. }
        rewrite <- E. unfold absm, a_set_genv, focus_of, rgen_of, ib_of. pcbn. rewrite I. reflexivity.
      + rewrite absm_leave; [|discriminate | rewrite react_inbox; reflexivity].
        rewrite (absm_react true (m_focus m)); [rewrite absm_clear_ib; reflexivity | intros _; split; [exact P | reflexivity] | intros; discriminate].
  Qed.

  Lemma absm_recv_sync : forall code m, m_ph m = PSyncSent ->
    absm c (recv_sync code m) = a_recv_sync code (absm c m).
  Proof.
    intros code m P. unfold recv_sync, a_recv_sync. destruct (has ASuccess (syncDispatch code)).
    - rewrite absm_set_hb. rewrite absm_leave; [|discriminate | reflexivity]. rewrite absm_clear_ib. reflexivity.
    - rewrite absm_leave; [|discriminate | rewrite react_inbox; reflexivity].
      rewrite (absm_react false 0); [rewrite absm_clear_ib; reflexivity | intros; discriminate | reflexivity].
  Qed.
End Commute.

(* ---- every view of a live, well-formed member against a well-formed coordinator is consistent ---- *)
Lemma cons_gen_nat : forall G g, cons_gen (G =? 0) (g =? 0) (g =? G) (g <=? G) = true.
Proof.
  intros G g. unfold cons_gen.
  destruct (Nat.eqb_spec G 0), (Nat.eqb_spec g 0), (Nat.eqb_spec g G), (Nat.leb_spec g G); simpl; try reflexivity; lia.
Qed.

Lemma pend_not_ent_w : forall c x, wf_cw c -> memb x (ids (c_ents c)) = true -> memb x (c_pend c) = false.
Proof.
  intros c x W He. destruct (memb x (c_pend c)) eqn:Ep; [|reflexivity]. exfalso.
  apply memb_In in Ep. pose proof (ww_pend c W) as Hp. rewrite forallb_forall in Hp. specialize (Hp x Ep). rewrite He in Hp. discriminate.
Qed.
Lemma pend_not_ent : forall c x, wf_c c = true -> memb x (ids (c_ents c)) = true -> memb x (c_pend c) = false.
Proof. intros c x H. apply pend_not_ent_w. apply wf_cw_of_wf. exact H. Qed.

Lemma cons_id_nat : forall c x, wf_cw c ->
  cons_id (x =? 0) (memb x (ids (c_ents c))) (memb x (c_pend c)) (ent_jp c x) (ent_sp c x) = true.
Proof.
  intros c x H. destruct (wcw_zfacts c H) as (Z1 & Z2 & Z3 & Z4). unfold cons_id.
  destruct (Nat.eqb_spec x 0) as [->|Hx].
  - rewrite Z1, Z2, Z3, Z4. reflexivity.
  - destruct (memb x (ids (c_ents c))) eqn:He.
    + rewrite (pend_not_ent_w c x H He). reflexivity.
    + unfold ent_jp, ent_sp. rewrite (find_ent_none x _ He). simpl. destruct (memb x (c_pend c)); reflexivity.
Qed.

Lemma find_ent_flag : forall (fl : entry -> bool) x es, forallb (fun e => negb (fl e)) es = true ->
  match find_ent x es with Some e => fl e | None => false end = false.
Proof.
  intros fl x es H. destruct (find_ent x es) as [e|] eqn:F; [|reflexivity].
  unfold find_ent in F. apply find_some in F. destruct F as [Hin _]. rewrite forallb_forall in H.
  specialize (H e Hin). apply negb_true_iff in H. exact H.
Qed.

Lemma cons_st_nat : forall c x, wf_cw c ->
  cons_st (c_st c) (c_gen c =? 0) (memb x (ids (c_ents c))) (ent_jp c x) (ent_sp c x) = true.
Proof.
  intros c x W. pose proof (ww_empty c W) as We. pose proof (ww_jp c W) as Wj. pose proof (ww_sp c W) as Ws. pose proof (ww_gen c W) as Wg.
  unfold cons_st, ent_jp, ent_sp.
  apply andb_true_iff; split; [apply andb_true_iff; split; [apply andb_true_iff; split|]|].
  - destruct (cstate_eqb (c_st c) CEmpty); [|reflexivity]. cbn [negb orb] in *.
    destruct (c_ents c); [reflexivity | discriminate].
  - apply orb_true_iff in Wj. destruct Wj as [E|E]; [rewrite E; reflexivity|].
    rewrite (find_ent_flag e_jp x _ E). apply orb_true_r.
  - apply orb_true_iff in Ws. destruct Ws as [E|E]; [rewrite E; reflexivity|].
    rewrite (find_ent_flag e_sp x _ E). apply orb_true_r.
  - destruct (c_st c); try reflexivity; exact Wg.
Qed.

Lemma eqb_refl_b : forall b, Bool.eqb b b = true.
Proof. destruct b; reflexivity. Qed.

Lemma cons_absm_w : forall c m, wf_cw c -> m_live m = true -> wf_m c m = true -> cons_a (absm c m) = true.
Proof.
  intros c m Hc L W. destruct (wcw_zfacts c Hc) as (Z1 & Z2 & Z3 & Z4).
  unfold cons_a.
  apply andb_true_iff; split; [apply andb_true_iff; split; [apply andb_true_iff; split; [apply andb_true_iff; split;
    [apply andb_true_iff; split; [apply andb_true_iff; split; [apply andb_true_iff; split; [apply andb_true_iff; split|]|]|]|]|]|]|].
  - unfold absm. pcbn. apply cons_id_nat. exact Hc.
  - unfold absm. pcbn. apply cons_st_nat. exact Hc.
  - unfold absm. pcbn. apply cons_st_nat. exact Hc.
  - unfold absm. pcbn. apply cons_gen_nat.
  - unfold absm, cons_focus, focus_of. pcbn. destruct (m_ph m); cbn [ph_eqb];
      try (rewrite Z1, Z2, Z3, Z4, (Nat.eqb_sym 0 (m_id m)); simpl; apply eqb_refl_b).
    apply andb_true_iff; split; [apply andb_true_iff; split|].
    + apply cons_id_nat. exact Hc.
    + destruct (Nat.eqb_spec (m_focus m) (m_id m)) as [->|]; [|reflexivity]. simpl. rewrite !eqb_refl_b. reflexivity.
    + destruct (Nat.eqb_spec (m_focus m) 0) as [->|]; [|reflexivity]. destruct (Nat.eqb_spec (m_id m) 0) as [->|]; reflexivity.
  - unfold absm, cons_g, rgen_of, ib_of. pcbn. destruct (m_inbox m) as [[code g|code]|]; cbn.
    + apply cons_gen_nat.
    + destruct (c_gen c); reflexivity.
    + destruct (c_gen c); reflexivity.
  - unfold wf_m, wf_a in W. unfold absm in *. pcbn_in W. pcbn. rewrite L in W. cbn [negb orb] in W.
    repeat (apply andb_true_iff in W; destruct W as [W ?]).
    unfold ib_of in *. destruct (m_ph m), (m_inbox m) as [[code g|code]|]; try discriminate; try reflexivity; cbn [ib_ok].
    + repeat (apply andb_true_iff in W; destruct W as [W ?]). exact W.
    + repeat (apply andb_true_iff in W; destruct W as [W ?]). exact W.
  - unfold wf_m, wf_a in W. unfold absm in *. pcbn_in W. pcbn. rewrite L in W. cbn [negb orb] in W.
    repeat (apply andb_true_iff in W; destruct W as [W ?]). assumption.
  - unfold wf_m, wf_a in W. unfold absm in *. pcbn_in W. pcbn. rewrite L in W. cbn [negb orb] in W.
    repeat (apply andb_true_iff in W; destruct W as [W ?]). assumption.
Qed.

(* ---- where the member id comes from after a chain: unchanged, 0, or the id of the JoinGroup exchange ---- *)
Inductive idsrc := SSame | SZero | SFocus.
Definition src1 (jr : bool) (s : idsrc) (x : act) : idsrc :=
  match x with AResetGeneration => SZero | ASetMemberId => if jr then SFocus else SZero | _ => s end.
Definition src_of (jr : bool) (acts : list act) : idsrc := fold_left (src1 jr) acts SSame.
Definition idval (m : member) (rid : nat) (s : idsrc) : nat :=
  match s with SSame => m_id m | SZero => 0 | SFocus => rid end.

Lemma react_id_gen : forall jr rid acts m0 m s0, (jr = false -> rid = 0) ->
  m_id m0 = idval m rid s0 -> m_id (fold_left (react1 rid) acts m0) = idval m rid (fold_left (src1 jr) acts s0).
Proof.
  intros jr rid acts. induction acts as [|x r IH]; intros m0 m s0 Hj H; [exact H|].
  cbn [fold_left]. apply IH; [exact Hj|].
  destruct x; cbn [react1 src1]; try exact H; try reflexivity.
  destruct jr; [reflexivity | rewrite (Hj eq_refl); reflexivity].
Qed.
Lemma react_id : forall jr rid acts m, (jr = false -> rid = 0) ->
  m_id (react rid acts m) = idval m rid (src_of jr acts).
Proof. intros. unfold react, src_of. apply react_id_gen; [assumption | reflexivity]. Qed.

Lemma react1_keeps : forall rid m x, m_ph (react1 rid m x) = m_ph m /\ m_focus (react1 rid m x) = m_focus m
  /\ m_name (react1 rid m x) = m_name m /\ m_hb (react1 rid m x) = m_hb m /\ m_inbox (react1 rid m x) = m_inbox m
  /\ m_hbin (react1 rid m x) = m_hbin m /\ m_cmin (react1 rid m x) = m_cmin m.
Proof. intros rid m x. destruct x; repeat split; reflexivity. Qed.
Lemma react_keeps : forall rid acts m, m_ph (react rid acts m) = m_ph m /\ m_focus (react rid acts m) = m_focus m
  /\ m_name (react rid acts m) = m_name m /\ m_hb (react rid acts m) = m_hb m /\ m_inbox (react rid acts m) = m_inbox m
  /\ m_hbin (react rid acts m) = m_hbin m /\ m_cmin (react rid acts m) = m_cmin m.
Proof.
  intros rid acts. induction acts as [|x r IH]; intros m; [repeat split; reflexivity|].
  unfold react in *. cbn [fold_left]. destruct (IH (react1 rid m x)) as (A & B & C & D & E & F & G).
  destruct (react1_keeps rid m x) as (A' & B' & C' & D' & E' & F' & G').
  rewrite A, B, C, D, E, F, G. repeat split; assumption.
Qed.
Lemma cons_absm : forall c m, wf_c c = true -> m_live m = true -> wf_m c m = true -> cons_a (absm c m) = true.
Proof. intros c m H. apply cons_absm_w. apply wf_cw_of_wf. exact H. Qed.
