(* Proofs about the Produce-response dispatch translated from sender.py (gen/ProduceDispatch.v):
   SendProduceReqHandler.handle_response + _can_retry, with the `retriable` / `invalid_metadata`
   class attributes read from aiokafka/errors.py. *)
From Coq Require Import ZArith List Bool Lia.
From Verif Require Import DispatchActs ProduceDispatch.
Import ListNotations.
Open Scope Z_scope.

(* retriable broker conditions of a Produce request (Kafka protocol: NOT_LEADER_OR_FOLLOWER,
   LEADER_NOT_AVAILABLE, UNKNOWN_TOPIC_OR_PARTITION, REQUEST_TIMED_OUT, NOT_ENOUGH_REPLICAS,
   NOT_ENOUGH_REPLICAS_AFTER_APPEND, KAFKA_STORAGE_ERROR) - the fault codes of C01/C02's quantifier *)
Definition kafka_produce_retriable : list Z := [3; 5; 6; 7; 19; 20; 56].
Definition leader_errors : list Z := [3; 5; 6].
Definition DUPLICATE_SEQUENCE_NUMBER : Z := 46.

Definition outcome (a : act) : bool :=
  match a with ASuccess | ADone | AFail | AReenqueue => true | _ => false end.
Definition n_outcomes (l : list act) : nat := length (filter outcome l).

Lemma forall_in_by_compute (P : Z -> bool) (l : list Z) :
  forallb P l = true -> forall c, In c l -> P c = true.
Proof. intros H c Hc. rewrite forallb_forall in H. exact (H c Hc). Qed.

(* with idempotence a retriable reply never fails the batch, expired or not: it is re-enqueued *)
Lemma retriable_never_fails_idempotent : forall c expired, In c kafka_produce_retriable ->
  has AFail (produceDispatch c true expired) = false /\ has AReenqueue (produceDispatch c true expired) = true.
Proof.
  intros c expired Hc.
  assert (H : (negb (has AFail (produceDispatch c true true)) && has AReenqueue (produceDispatch c true true)
               && negb (has AFail (produceDispatch c true false)) && has AReenqueue (produceDispatch c true false)) = true).
  { revert c Hc. apply forall_in_by_compute. vm_compute. reflexivity. }
  repeat (apply andb_true_iff in H; destruct H as [H ?]).
  destruct expired; split;
    repeat match goal with X : negb _ = true |- _ => apply negb_true_iff in X end; assumption.
Qed.

(* without idempotence the same holds until the batch has expired *)
Lemma retriable_retried_until_expiry : forall c idem, In c kafka_produce_retriable ->
  has AReenqueue (produceDispatch c idem false) = true.
Proof.
  intros c idem Hc. destruct idem; revert c Hc; apply forall_in_by_compute; vm_compute; reflexivity.
Qed.

(* leadership errors also start a metadata refresh (needed to find the new leader) *)
Lemma leader_errors_refresh_metadata : forall c idem, In c leader_errors ->
  has AMetadataUpdate (produceDispatch c idem false) = true.
Proof.
  intros c idem Hc. destruct idem; revert c Hc; apply forall_in_by_compute; vm_compute; reflexivity.
Qed.

Lemma duplicate_sequence_is_success : forall idem expired,
  produceDispatch DUPLICATE_SEQUENCE_NUMBER idem expired = [ADone].
Proof. intros [] []; vm_compute; reflexivity. Qed.

(* for EVERY integer code and both flags: the reply has exactly one outcome for the batch - it is
   resolved, failed or re-enqueued; never dropped, never two of them *)
Lemma exactly_one_outcome : forall c idem expired, n_outcomes (produceDispatch c idem expired) = 1%nat.
Proof.
  intros c idem expired. unfold produceDispatch, canRetry.
  destruct (c =? 0); [reflexivity|].
  destruct (c =? 46); [reflexivity|].
  destruct (negb idem && expired); cbn [negb].
  - destruct (c =? 47); [reflexivity|]. destruct (c =? 29); reflexivity.
  - destruct (retriable c); cbn [negb].
    + destruct (invalid_metadata c); reflexivity.
    + destruct (c =? 47); [reflexivity|]. destruct (c =? 29); reflexivity.
Qed.

(* a failure happens only for a non-retriable code, or for an expired batch of a non-idempotent producer *)
Lemma failure_only_if : forall c idem expired,
  has AFail (produceDispatch c idem expired) = true -> retriable c = false \/ (idem = false /\ expired = true).
Proof.
  intros c idem expired. unfold produceDispatch, canRetry.
  destruct (c =? 0); [discriminate|].
  destruct (c =? 46); [discriminate|].
  destruct idem, expired; cbn [negb andb]; destruct (retriable c); cbn [negb]; auto;
    destruct (invalid_metadata c); cbn; discriminate.
Qed.
