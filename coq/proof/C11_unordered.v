(* C11_unordered.v — TaggedFields dicts in arbitrary iteration order: a value in the wider
   domain [wtu] encodes to the same bytes as its sorted form [vnorm v], which is canonical
   ([wt]); hence decode (encode v ++ r) = (vnorm v, r). *)
From Coq Require Import ZArith List Bool Lia ZifyBool.
From Verif Require Import Bits Wire C11_roundtrip.
Import ListNotations.
Open Scope Z_scope.

(* ------------------------------------------------------------------ insertion sort on tags *)
Definition keys (l : list (Z * list Z)) : list Z := map fst l.

Lemma ins_keys kv l x : In x (keys (ins_tag kv l)) -> x = fst kv \/ In x (keys l).
Proof.
  induction l as [|y l IH]; cbn [ins_tag keys map].
  - intros [H|[]]; left; symmetry; exact H.
  - destruct (fst kv <=? fst y).
    + cbn [map]. intros [H|H]; [left; symmetry; exact H|right; exact H].
    + cbn [map]. intros [H|H]; [right; left; exact H|].
      destruct (IH H) as [H'|H']; [left; exact H'|right; right; exact H'].
Qed.

Lemma sort_keys l x : In x (keys (sort_tags l)) -> In x (keys l).
Proof.
  induction l as [|y l IH]; cbn [sort_tags]; [intros []|].
  intros H. apply ins_keys in H as [H|H]; [left; symmetry; exact H|right; apply IH; exact H].
Qed.

Lemma ins_length kv l : length (ins_tag kv l) = S (length l).
Proof. induction l as [|y l IH]; cbn [ins_tag]; [reflexivity|]. destruct (_ <=? _); cbn; [reflexivity|]. rewrite IH. reflexivity. Qed.

Lemma sort_length l : length (sort_tags l) = length l.
Proof. induction l as [|y l IH]; cbn [sort_tags]; [reflexivity|]. rewrite ins_length, IH. reflexivity. Qed.

Lemma ins_wt : forall l prev k b,
  wt_tagged prev l = true -> prev < k < 4294967296 ->
  wf_bytes b = true -> blen b < 4294967296 -> ~ In k (keys l) ->
  wt_tagged prev (ins_tag (k, b) l) = true.
Proof.
  induction l as [|[k' b'] l IH]; intros prev k b Hl Hk Hb Hlen Hnot.
  - cbn [ins_tag wt_tagged]. rewrite Hb. replace (prev <? k) with true by lia.
    replace (k <? 4294967296) with true by lia. replace (blen b <? 4294967296) with true by lia. reflexivity.
  - cbn [wt_tagged] in Hl. apply andb_prop in Hl as [Hl Hrest]. apply andb_prop in Hl as [Hl Hblen'].
    apply andb_prop in Hl as [Hl Hb']. apply andb_prop in Hl as [Hk1 Hk2].
    assert (k <> k') by (intros ->; apply Hnot; left; reflexivity).
    cbn [ins_tag fst]. destruct (k <=? k') eqn:E.
    + cbn [wt_tagged]. rewrite Hb, Hb', Hrest, Hblen', Hk2.
      replace (prev <? k) with true by lia. replace (k <? 4294967296) with true by lia.
      replace (blen b <? 4294967296) with true by lia. replace (k <? k') with true by lia. reflexivity.
    + cbn [wt_tagged]. rewrite Hk1, Hk2, Hb', Hblen'. cbn [andb].
      apply IH; try assumption; try lia. intros Hin. apply Hnot. right. exact Hin.
Qed.

Lemma sort_wt : forall l, wtu_tagged l = true -> wt_tagged (-1) (sort_tags l) = true.
Proof.
  induction l as [|[k b] l IH]; intros H; [reflexivity|].
  cbn [wtu_tagged] in H. apply andb_prop in H as [H Hrest]. apply andb_prop in H as [H Hnd].
  apply andb_prop in H as [H Hblen]. apply andb_prop in H as [Hk Hb].
  unfold in_range in Hk. apply andb_prop in Hk as [Hk1 Hk2].
  cbn [sort_tags]. apply ins_wt; try (apply IH; exact Hrest); try assumption; try lia.
  intros Hin. apply sort_keys in Hin. unfold keys in Hin. apply in_map_iff in Hin as ([k' b'] & Hf & Hin).
  cbn in Hf. subst k'. apply negb_true_iff in Hnd.
  assert (existsb (fun kv : Z * list Z => fst kv =? k) l = true); [|congruence].
  apply existsb_exists. exists (k, b'). split; [exact Hin|cbn; lia].
Qed.

Lemma enc_tagged_sort l : wt_tagged (-1) (sort_tags l) = true -> enc_tagged (sort_tags l) = enc_tagged l.
Proof.
  intros H. unfold enc_tagged. rewrite (sort_tags_asc _ _ H). unfold blen. rewrite sort_length. reflexivity.
Qed.

(* ------------------------------------------------------------------ lifting through the types *)
Fixpoint wtu_fields (fs : list ty) (l : list val) : bool :=
  match fs, l with
  | [], [] => true
  | f :: fs', x :: l' => wtu f x && wtu_fields fs' l'
  | _, _ => false
  end.

Lemma wtu_schema fs : forall l, wtu (TSchema fs) (VTup l) = wtu_fields fs l.
Proof.
  induction fs as [|f fs IH]; intros l; [destruct l; reflexivity|].
  destruct l as [|x l]; [reflexivity|]. cbn [wtu_fields]. rewrite <- IH. reflexivity.
Qed.

Definition norm_ok (t : ty) : Prop :=
  forall v, wtu t v = true -> enc t (vnorm v) = enc t v /\ wt t (vnorm v) = true.

(* for the types whose values contain no dict, [wtu] is [wt] and [vnorm] changes nothing *)
Ltac prim_case :=
  let v := fresh "v" in let H := fresh "H" in
  intros v H; destruct v as [| | | | |[?|]|]; try discriminate H; split; [reflexivity|exact H].

Lemma array_norm t l :
  norm_ok t -> forallb (wtu t) l = true ->
  flat_map (enc t) (map vnorm l) = flat_map (enc t) l /\ forallb (wt t) (map vnorm l) = true.
Proof.
  intros Ht. induction l as [|x l IH]; intros H; [split; reflexivity|].
  cbn [forallb] in H. apply andb_prop in H as [Hx Hl].
  destruct (Ht x Hx) as [He Hw]. destruct (IH Hl) as [He' Hw'].
  cbn [map flat_map forallb]. rewrite He, He', Hw, Hw'. split; reflexivity.
Qed.

Lemma blen_map' {A B} (g : A -> B) l : blen (map g l) = blen l.
Proof. unfold blen. rewrite map_length. reflexivity. Qed.

Theorem norm_all : forall t, norm_ok t.
Proof.
  induction t using ty_ind'; try prim_case.
  - (* TaggedFields *)
    intros v H. destruct v as [| | | |l| |]; try discriminate H.
    cbn [wtu] in H. apply andb_prop in H as [Hlen Hu].
    pose proof (sort_wt l Hu) as Hs. cbn [vnorm enc wt]. split.
    + apply enc_tagged_sort. exact Hs.
    + unfold blen in *. rewrite sort_length. rewrite Hlen, Hs. reflexivity.
  - (* Array *)
    intros v H. destruct v as [| | | | |[l|]|]; try discriminate H; [|split; reflexivity].
    cbn [wtu] in H. apply andb_prop in H as [Hlen Hall].
    destruct (array_norm t l IHt Hall) as [He Hw].
    cbn [vnorm enc wt]. rewrite blen_map', He, Hw, Hlen. split; reflexivity.
  - (* CompactArray *)
    intros v H. destruct v as [| | | | |[l|]|]; try discriminate H; [|split; reflexivity].
    cbn [wtu] in H. apply andb_prop in H as [Hlen Hall].
    destruct (array_norm t l IHt Hall) as [He Hw].
    cbn [vnorm enc wt]. rewrite blen_map', He, Hw, Hlen. split; reflexivity.
  - (* Schema *)
    intros v Hv. destruct v as [| | | | | |l]; try discriminate Hv.
    rewrite wtu_schema in Hv. cbn [vnorm]. rewrite !enc_schema, wt_schema.
    revert l Hv. induction H as [|f fs Hf Hfs IH]; intros l Hv.
    + destruct l; [split; reflexivity|discriminate].
    + destruct l as [|x l]; [discriminate|].
      cbn [wtu_fields] in Hv. apply andb_prop in Hv as [Hx Hl].
      destruct (Hf x Hx) as [He Hw]. destruct (IH l Hl) as [He' Hw'].
      cbn [map enc_fields wt_fields]. rewrite He, He', Hw, Hw'. split; reflexivity.
Qed.

(* round trip up to the order of dict items *)
Theorem roundtrip_unordered : forall t v r,
  wtu t v = true -> dec t (enc t v ++ r) = Some (vnorm v, r).
Proof.
  intros t v r H. destruct (norm_all t v H) as [He Hw].
  rewrite <- He. apply roundtrip. exact Hw.
Qed.

(* canonical values are their own normal form *)
Lemma sort_tags_idem_wt l : wt_tagged (-1) l = true -> sort_tags l = l.
Proof. apply sort_tags_asc. Qed.
