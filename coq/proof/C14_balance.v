(* C14 — sticky balance: when the reassignment loop of an accepted StickyCtl run stops
   (`_is_balanced()` holds, or a whole pass finds no trigger), the state is balanced in the
   KIP-54 sense. *)
From Coq Require Import Arith List Bool Lia PeanoNat.
From Verif Require Import C14_Assignors C14_lists C14_Sticky C14_checkers C14_sticky.
Import ListNotations.

Definition owned (st : list (nat * (nat * nat))) (c : nat) : list (nat * nat) :=
  map snd (filter (fun e => Nat.eqb (fst e) c) st).

Lemma owned_length : forall st c, length (owned st c) = load st c.
Proof. intros. unfold owned, load. apply map_length. Qed.

Lemma owned_In : forall st c x, In x (owned st c) <-> In (c, x) st.
Proof.
  intros. unfold owned. rewrite in_map_iff. split.
  - intros [[m y] [E H]]. simpl in E. subst. apply filter_In in H. destruct H as [H E].
    simpl in E. apply Nat.eqb_eq in E. subst. auto.
  - intros H. exists (c, x). split; auto. apply filter_In. split; auto. simpl. apply Nat.eqb_refl.
Qed.

Lemma owned_NoDup : forall st c, NoDup (map snd st) -> NoDup (owned st c).
Proof. intros. unfold owned. apply NoDup_map_filter. auto. Qed.

Lemma potential_parts_length : forall ppt ms c, length (potential_parts ppt ms c) = npot ppt ms c.
Proof.
  intros. unfold potential_parts, npot. induction (subs_of ms c) as [|t r IH]; simpl; auto.
  rewrite app_length, IH. f_equal. destruct (lookup_parts ppt t); simpl; auto.
  rewrite map_length, seq_length. reflexivity.
Qed.

Lemma potential_parts_In : forall ppt ms c x,
  potential_b ppt ms c x = true -> In x (potential_parts ppt ms c).
Proof.
  intros ppt ms c [t p] H. unfold potential_b in H.
  apply andb_true_iff in H. destruct H as [H Hp]. apply andb_true_iff in H. destruct H as [_ Hs].
  apply mem_nat_In in Hs. simpl in Hs. apply has_partition_b_spec in Hp.
  destruct Hp as [n [L Hlt]]. simpl in *.
  unfold potential_parts. apply in_flat_map. exists t. split; auto. rewrite L.
  apply in_map_iff. exists p. split; auto. apply in_seq. lia.
Qed.

(* a consumer that lacks one of its potential partitions holds fewer than all of them *)
Lemma missing_one : forall ppt ms st c x,
  sound ppt ms st -> potential_b ppt ms c x = true -> ~ In (c, x) st ->
  load st c < npot ppt ms c.
Proof.
  intros ppt ms st c x [Hn Hp] Hx Hnot.
  assert (Hnd : NoDup (x :: owned st c)).
  { constructor; [rewrite owned_In; auto | apply owned_NoDup; auto]. }
  assert (Hincl : incl (x :: owned st c) (potential_parts ppt ms c)).
  { intros y [->|Hy]; [apply potential_parts_In; auto|].
    apply owned_In in Hy. apply potential_parts_In. apply (Hp (c, y)); auto. }
  pose proof (NoDup_incl_length Hnd Hincl) as L. simpl in L.
  rewrite owned_length, potential_parts_length in L. lia.
Qed.

(* every potential consumer of a movable partition takes part in the reassignment *)
Lemma potential_of_movable_in_scope : forall ppt ms st c x,
  sound ppt ms st -> movable_b ppt ms x = true -> potential_b ppt ms c x = true ->
  In c (scope ppt ms st).
Proof.
  intros ppt ms st c x Hs Hm Hc. unfold scope. apply filter_In. split.
  - unfold potential_b, is_member_b in Hc. apply andb_true_iff in Hc. destruct Hc as [Hc _].
    apply andb_true_iff in Hc. destruct Hc as [Hc _]. apply mem_nat_In; auto.
  - unfold can_participate. apply orb_true_iff.
    assert (D : In (c, x) st \/ ~ In (c, x) st).
    { destruct (owner st x) as [c'|] eqn:Eo.
      - destruct (Nat.eq_dec c' c) as [->|Hne].
        + left. apply owner_some_In; auto.
        + right. intros Hin. apply Hne. destruct Hs as [Hn _].
          rewrite (owner_In_nodup _ _ _ Hn Hin) in Eo. inversion Eo; auto.
      - right. intros Hin. apply owner_none_iff in Eo. apply Eo.
        apply in_map_iff. exists (c, x). auto. }
    destruct D as [Hin|Hnot].
    + right. apply existsb_exists. exists (c, x). split; auto. simpl. rewrite Nat.eqb_refl. auto.
    + left. apply Nat.ltb_lt. eapply missing_one; eauto.
Qed.

Lemma two_distinct_length : forall (l : list nat) a b,
  In a l -> In b l -> a <> b -> 2 <= length l.
Proof.
  intros l a b Ha Hb Hne. destruct l as [|x [|y r]]; simpl in *; try tauto; try lia.
Qed.

Lemma member_potential : forall ppt ms o x, ids_nodup ms ->
  In o (map fst ms) -> subscribed ms o (fst x) -> has_partition_b ppt x = true ->
  potential_b ppt ms o x = true.
Proof.
  intros. apply potential_b_spec; auto. split; auto. apply has_partition_b_spec; auto.
Qed.

Lemma pairs_within_one_spec : forall st cs a b,
  pairs_within_one st cs = true -> In a cs -> In b cs -> load st a <= load st b + 1.
Proof.
  intros st cs a b H Ha Hb. unfold pairs_within_one in H. rewrite forallb_forall in H.
  specialize (H a Ha). rewrite forallb_forall in H. apply Nat.leb_le. auto.
Qed.

Theorem end_ok_kip54 : forall ppt ms prev st2 st3,
  ids_nodup ms -> sound ppt ms st2 -> sound ppt ms st3 ->
  end_ok ppt ms prev (scope ppt ms st2) st3 = true ->
  kip54_balanced ms st3.
Proof.
  intros ppt ms prev st2 st3 Hi Hs2 Hs3 He m x o Hin Ho Hsub.
  destruct (Nat.eq_dec m o) as [->|Hne]; [lia|].
  pose proof Hs3 as [Hn3 Hp3].
  pose proof (Hp3 _ Hin) as Hm. simpl in Hm.
  assert (Hpx : has_partition_b ppt x = true).
  { unfold potential_b in Hm. apply andb_true_iff in Hm. tauto. }
  assert (Hop : potential_b ppt ms o x = true) by (apply member_potential; auto).
  assert (Hmov : movable_b ppt ms x = true).
  { unfold movable_b. apply Nat.leb_le. apply (two_distinct_length _ m o); auto.
    - apply potentials_In. split; auto.
      unfold potential_b, is_member_b in Hm. apply andb_true_iff in Hm. destruct Hm as [Hm _].
      apply andb_true_iff in Hm. destruct Hm as [Hm _]. apply mem_nat_In; auto.
    - apply potentials_In. split; auto. }
  assert (Hmsc : In m (scope ppt ms st2)) by (eapply potential_of_movable_in_scope; eauto).
  assert (Hosc : In o (scope ppt ms st2)) by (eapply potential_of_movable_in_scope; eauto).
  unfold end_ok in He. apply orb_true_iff in He. destruct He as [He|He].
  - (* _is_balanced() *)
    unfold is_balanced_b in He. apply orb_true_iff in He. destruct He as [He|He].
    + pose proof (pairs_within_one_spec _ _ m o He Hmsc Hosc). lia.
    + rewrite forallb_forall in He. specialize (He o Hosc).
      apply orb_true_iff in He. destruct He as [He|He].
      * apply Nat.eqb_eq in He.
        assert (Hnot : ~ In (o, x) st3).
        { intros Hox. apply Hne. pose proof (NoDup_map_eq _ _ snd st3 _ _ Hn3 Hin Hox eq_refl) as E.
          inversion E; auto. }
        pose proof (missing_one _ _ _ _ _ Hs3 Hop Hnot). lia.
      * rewrite forallb_forall in He. specialize (He x (potential_parts_In _ _ _ _ Hop)).
        unfold owns_b in He. rewrite (owner_In_nodup _ _ _ Hn3 Hin) in He.
        apply orb_true_iff in He. destruct He as [He|He].
        -- apply Nat.eqb_eq in He. congruence.
        -- apply negb_true_iff, Nat.ltb_ge in He. lia.
  - (* a whole pass without a trigger *)
    unfold no_trigger_b in He. rewrite forallb_forall in He. specialize (He (m, x) Hin).
    simpl in He. rewrite Hmov in He. simpl in He.
    apply andb_true_iff in He. destruct He as [_ He]. apply negb_true_iff in He.
    unfold gen_trigger in He.
    assert (G : forall l, existsb (fun o0 => load st3 o0 + 1 <? load st3 m) l = false ->
                          In o l -> ~ (load st3 o + 1 < load st3 m)).
    { induction l as [|a l IH]; simpl; intros E Hl; [tauto|].
      apply orb_false_iff in E. destruct E as [E1 E2]. destruct Hl as [->|Hl]; auto.
      apply Nat.ltb_ge in E1. lia. }
    assert (Hpo : In o (potentials ppt ms x)) by (apply potentials_In; auto).
    specialize (G _ He Hpo). lia.
Qed.

(* c14_sticky_balanced_partial *)
Theorem ctl_run_balanced : forall ppt ms prev st0 assigns reassigns obs r,
  ids_nodup ms -> NoDup (map snd st0) ->
  ctl_run ppt ms prev st0 assigns reassigns obs = Some r ->
  kip54_balanced ms (cr_balanced r) /\
  (cr_reverted r = false -> kip54_balanced ms (cr_final r)).
Proof.
  intros ppt ms prev st0 assigns reassigns obs r Hi Hn H.
  destruct (ctl_run_inv _ _ _ _ _ _ _ _ H) as [st3 [mv [E2 [Ec [E3 [Ee [Eb [Er Ef]]]]]]]].
  assert (I : abs_inv ppt ms (drop ppt ms st0, None))
    by (split; simpl; [apply drop_sound; auto | discriminate]).
  assert (Hs2 : sound ppt ms (cr_prebalance r))
    by apply (proj1 (abs_run_inv _ _ _ _ _ I (ctl_assigns_abs _ _ _ _ _ None E2))).
  pose proof (ctl_reassigns_abs _ _ _ _ _ _ _ _ _ None Hs2 E3) as A3.
  assert (Hs3 : sound ppt ms st3).
  { assert (I2 : abs_inv ppt ms (cr_prebalance r, None)) by (split; simpl; auto; discriminate).
    apply (proj1 (abs_run_inv _ _ _ _ _ I2 A3)). }
  assert (B : kip54_balanced ms st3) by (apply (end_ok_kip54 ppt ms prev (cr_prebalance r) st3); auto).
  rewrite Eb. split; auto. intros E. rewrite Ef, <- Er, E. auto.
Qed.
