(* Proofs about the error-dispatch chains of the transactional request handlers, translated from
   sender.py on every run (gen/Txn*Dispatch.v).  Classes of errors (Kafka protocol / C16, C07):
   retriable (coordinator moved or loading, concurrent transactions, ...), abortable (topic / group
   authorization), fatal (fencing, transactional-id authorization, invalid state/mapping, unknown). *)
From Coq Require Import ZArith List Bool Lia.
From Verif Require Import DispatchActs TxnInitPidDispatch TxnAddPartitionsDispatch TxnAddOffsetsDispatch
  TxnOffsetCommitDispatch TxnEndDispatch.
Import ListNotations.
Open Scope Z_scope.

Inductive tclass := TSuccess | TRetry | TAbortable | TFatal | TIgnored.

(* the class of what a chain does with a code *)
Definition classify (l : list act) : tclass :=
  if fatal l then TFatal
  else if has AAbortable l || has AErrored l then TAbortable
  else if has ARetryAfterBackoff l then TRetry
  else if has ASuccess l then TSuccess
  else TIgnored.

Definition tclass_eqb (a b : tclass) : bool :=
  match a, b with
  | TSuccess, TSuccess | TRetry, TRetry | TAbortable, TAbortable | TFatal, TFatal | TIgnored, TIgnored => true
  | _, _ => false
  end.

(* retriable coordinator conditions per request *)
Definition retriable_coord : list Z := [14; 15; 16; 51].       (* LOAD_IN_PROGRESS, NOT_AVAILABLE, NOT_COORDINATOR, CONCURRENT_TRANSACTIONS *)
Definition retriable_add_partitions : list Z := [14; 15; 16; 51; 3].
Definition retriable_offset_commit : list Z := [14; 15; 16; 3; 7].
Definition FENCED : Z := 47.                 (* INVALID_PRODUCER_EPOCH *)
Definition TXN_ID_AUTH : Z := 53.            (* TRANSACTIONAL_ID_AUTHORIZATION_FAILED *)
Definition TOPIC_AUTH : Z := 29.
Definition GROUP_AUTH : Z := 30.

Lemma forall_in_by_compute (P : Z -> bool) (l : list Z) :
  forallb P l = true -> forall c, In c l -> P c = true.
Proof. intros H c Hc. rewrite forallb_forall in H. exact (H c Hc). Qed.

(* retriable errors are retried after a backoff by every handler, never fatal, never abortable *)
Lemma retriable_are_retried :
  (forall c, In c retriable_coord -> tclass_eqb (classify (txnInitPidDispatch c)) TRetry = true) /\
  (forall c b, In c retriable_add_partitions -> tclass_eqb (classify (txnAddPartitionsDispatch c b)) TRetry = true) /\
  (forall c, In c retriable_coord -> tclass_eqb (classify (txnAddOffsetsDispatch c)) TRetry = true) /\
  (forall c, In c retriable_offset_commit -> tclass_eqb (classify (txnOffsetCommitDispatch c)) TRetry = true) /\
  (forall c, In c retriable_coord -> tclass_eqb (classify (txnEndDispatch c)) TRetry = true).
Proof.
  repeat split; try (apply forall_in_by_compute; vm_compute; reflexivity).
  intros c b. destruct b; revert c; apply forall_in_by_compute; vm_compute; reflexivity.
Qed.

(* a coordinator that moved is rediscovered *)
Lemma coordinator_errors_rediscover : forall c, In c [15; 16] ->
  has ACoordinatorDead (txnInitPidDispatch c) = true /\
  (forall b, has ACoordinatorDead (txnAddPartitionsDispatch c b) = true) /\
  has ACoordinatorDead (txnAddOffsetsDispatch c) = true /\
  has ACoordinatorDead (txnOffsetCommitDispatch c) = true /\
  has ACoordinatorDead (txnEndDispatch c) = true.
Proof.
  intros c Hc. simpl in Hc. destruct Hc as [<-|[<-|[]]]; repeat split; try (intros []); vm_compute; reflexivity.
Qed.

(* fencing and transactional-id authorization are fatal wherever they can arrive *)
Lemma fatal_classes :
  (forall b, classify (txnAddPartitionsDispatch FENCED b) = TFatal) /\
  classify (txnAddOffsetsDispatch FENCED) = TFatal /\
  classify (txnOffsetCommitDispatch FENCED) = TFatal /\
  classify (txnEndDispatch FENCED) = TFatal /\
  classify (txnInitPidDispatch TXN_ID_AUTH) = TFatal /\
  (forall b, classify (txnAddPartitionsDispatch TXN_ID_AUTH b) = TFatal) /\
  classify (txnAddOffsetsDispatch TXN_ID_AUTH) = TFatal /\
  classify (txnOffsetCommitDispatch TXN_ID_AUTH) = TFatal /\
  classify (txnEndDispatch TXN_ID_AUTH) = TFatal.
Proof. repeat split; try (intros []); vm_compute; reflexivity. Qed.

(* topic / group authorization failures are abortable: recorded, not raised out of the sender *)
Lemma abortable_classes :
  (forall b, classify (txnAddPartitionsDispatch TOPIC_AUTH b) = TAbortable) /\
  classify (txnAddOffsetsDispatch GROUP_AUTH) = TAbortable /\
  classify (txnOffsetCommitDispatch GROUP_AUTH) = TAbortable.
Proof. repeat split; try (intros []); vm_compute; reflexivity. Qed.

(* for EVERY integer code: a code that no branch names is fatal (never silently ignored or retried) *)
Lemma unnamed_codes_fatal_end : forall c, ~ In c txnEndDispatch_named_codes -> classify (txnEndDispatch c) = TFatal.
Proof.
  intros c Hn. unfold txnEndDispatch_named_codes in Hn. unfold txnEndDispatch.
  repeat match goal with
         | |- context [?x =? ?k] => destruct (Z.eqb_spec x k) as [->|?]; [exfalso; apply Hn; simpl; tauto|]
         end.
  reflexivity.
Qed.

Lemma unnamed_codes_fatal_add_offsets : forall c, ~ In c txnAddOffsetsDispatch_named_codes ->
  classify (txnAddOffsetsDispatch c) = TFatal.
Proof.
  intros c Hn. unfold txnAddOffsetsDispatch_named_codes in Hn. unfold txnAddOffsetsDispatch.
  repeat match goal with
         | |- context [?x =? ?k] => destruct (Z.eqb_spec x k) as [->|?]; [exfalso; apply Hn; simpl; tauto|]
         end.
  reflexivity.
Qed.

Lemma unnamed_codes_fatal_offset_commit : forall c, ~ In c txnOffsetCommitDispatch_named_codes ->
  classify (txnOffsetCommitDispatch c) = TFatal.
Proof.
  intros c Hn. unfold txnOffsetCommitDispatch_named_codes in Hn. unfold txnOffsetCommitDispatch.
  repeat match goal with
         | |- context [?x =? ?k] => destruct (Z.eqb_spec x k) as [->|?]; [exfalso; apply Hn; simpl; tauto|]
         end.
  reflexivity.
Qed.

Lemma unnamed_codes_fatal_add_partitions : forall c b, ~ In c txnAddPartitionsDispatch_named_codes ->
  classify (txnAddPartitionsDispatch c b) = TFatal.
Proof.
  intros c b Hn. unfold txnAddPartitionsDispatch_named_codes in Hn. unfold txnAddPartitionsDispatch.
  repeat match goal with
         | |- context [?x =? ?k] => destruct (Z.eqb_spec x k) as [->|?]; [exfalso; apply Hn; simpl; tauto|]
         end.
  reflexivity.
Qed.

Lemma unnamed_codes_fatal_init : forall c, ~ In c txnInitPidDispatch_named_codes -> classify (txnInitPidDispatch c) = TFatal.
Proof.
  intros c Hn. unfold txnInitPidDispatch_named_codes in Hn. unfold txnInitPidDispatch.
  repeat match goal with
         | |- context [?x =? ?k] => destruct (Z.eqb_spec x k) as [->|?]; [exfalso; apply Hn; simpl; tauto|]
         end.
  reflexivity.
Qed.
