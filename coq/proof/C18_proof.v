(* C18_proof.v — lemmas and proofs about model/C18_Scram.v *)
From Coq Require Import ZArith String List Bool Lia ZifyBool.
From Verif Require Import Imp Bits C18_Scram.
Import ListNotations.
Open Scope Z_scope.
Ltac Zify.zify_post_hook ::= Z.to_euclidean_division_equations.

Definition wfbyte (b : Z) : Prop := 0 <= b < 256.
Definition wfb (l : bytes) : Prop := Forall wfbyte l.
(* the base64 alphabet including the padding character *)
Definition b64char (b : Z) : Prop :=
  48 <= b <= 57 \/ 65 <= b <= 90 \/ 97 <= b <= 122 \/ b = 43 \/ b = 47 \/ b = 61.
Definition ascii (b : Z) : Prop := 0 <= b <= 127.

(* ------------------------------------------------------------------ list_eqb, prefixes *)
Lemma list_eqb_eq a b : list_eqb a b = true <-> a = b.
Proof.
  revert b. induction a as [|x a IH]; destruct b as [|y b]; cbn; try (split; congruence).
  rewrite andb_true_iff, IH, Z.eqb_eq. split; [intros [-> ->]; reflexivity|intros E; inversion E; auto].
Qed.

Lemma list_eqb_refl a : list_eqb a a = true.
Proof. apply list_eqb_eq. reflexivity. Qed.

Lemma list_eqb_neq a b : list_eqb a b = false <-> a <> b.
Proof.
  split.
  - intros E ->. rewrite list_eqb_refl in E. discriminate.
  - intros N. destruct (list_eqb a b) eqn:E; [|reflexivity]. apply list_eqb_eq in E. contradiction.
Qed.

Lemma is_prefix_spec p s : is_prefix p s = true <-> exists t, s = p ++ t.
Proof.
  revert s. induction p as [|x p IH]; intros s; cbn.
  - split; [intros _; exists s; reflexivity|reflexivity].
  - destruct s as [|y s].
    + split; [discriminate|intros [t E]; discriminate].
    + rewrite andb_true_iff, IH, Z.eqb_eq. split.
      * intros [-> [t ->]]. exists t. reflexivity.
      * intros [t E]. inversion E. split; [reflexivity|exists t; reflexivity].
Qed.

Lemma is_prefix_app p t : is_prefix p (p ++ t) = true.
Proof. apply is_prefix_spec. exists t. reflexivity. Qed.

Lemma strip_prefix_app p s : strip_prefix p (p ++ s) = Some s.
Proof. induction p as [|x p IH]; cbn; [reflexivity|]. rewrite Z.eqb_refl. exact IH. Qed.

(* ------------------------------------------------------------------ splitting *)
Lemma split1_app c a b : ~ In c a -> split1 c (a ++ c :: b) = Some (a, b).
Proof.
  induction a as [|x a IH]; intros N; cbn.
  - rewrite Z.eqb_refl. reflexivity.
  - destruct (x =? c) eqn:E.
    + apply Z.eqb_eq in E. exfalso. apply N. left. exact E.
    + rewrite IH; [reflexivity|]. intros I. apply N. right. exact I.
Qed.

Lemma split_on_nonnil c s : split_on c s <> [].
Proof.
  induction s as [|b s IH]; cbn; [discriminate|].
  destruct (b =? c); [discriminate|]. destruct (split_on c s); [contradiction|discriminate].
Qed.

Lemma split_on_none c a : ~ In c a -> split_on c a = [a].
Proof.
  induction a as [|x a IH]; intros N; cbn; [reflexivity|].
  destruct (x =? c) eqn:E.
  - apply Z.eqb_eq in E. exfalso. apply N. left. exact E.
  - rewrite IH; [reflexivity|]. intros I. apply N. right. exact I.
Qed.

Lemma split_on_app c a b : ~ In c a -> split_on c (a ++ c :: b) = a :: split_on c b.
Proof.
  induction a as [|x a IH]; intros N; cbn.
  - rewrite Z.eqb_refl. reflexivity.
  - destruct (x =? c) eqn:E.
    + apply Z.eqb_eq in E. exfalso. apply N. left. exact E.
    + rewrite IH; [reflexivity|]. intros I. apply N. right. exact I.
Qed.

(* ------------------------------------------------------------------ user name escaping *)
Lemma escape_user_cons b u :
  escape_user (b :: u) =
  (if b =? 61 then esc_eq else if b =? 44 then esc_comma else [b]) ++ escape_user u.
Proof.
  unfold escape_user, replace1. cbn [flat_map]. rewrite flat_map_app. f_equal.
  destruct (b =? 61) eqn:E61; [reflexivity|].
  cbn. destruct (b =? 44); reflexivity.
Qed.

Lemma unescape_escape u : unescape (escape_user u) = Some u.
Proof.
  induction u as [|b u IH]; [reflexivity|].
  rewrite escape_user_cons.
  destruct (b =? 61) eqn:E61.
  - apply Z.eqb_eq in E61. subst b. cbn. rewrite IH. reflexivity.
  - destruct (b =? 44) eqn:E44.
    + apply Z.eqb_eq in E44. subst b. cbn. rewrite IH. reflexivity.
    + cbn [app unescape]. rewrite E44, E61, IH. reflexivity.
Qed.

Lemma escape_no_comma u : ~ In 44 (escape_user u).
Proof.
  induction u as [|b u IH]; [intros []|].
  rewrite escape_user_cons. intros I. apply in_app_or in I. destruct I as [I|I]; [|exact (IH I)].
  destruct (b =? 61) eqn:E61.
  - cbn in I. lia.
  - destruct (b =? 44) eqn:E44; cbn in I; lia.
Qed.

Lemma escape_nonnil u : u <> [] -> escape_user u <> [].
Proof.
  destruct u as [|b u]; [contradiction|]. intros _. rewrite escape_user_cons.
  destruct (b =? 61); [discriminate|]. destruct (b =? 44); discriminate.
Qed.

(* every '=' of the escaped name starts "=2C" or "=3D": the third clause of well-formedness,
   stated without the parser *)
Fixpoint eq_escaped (s : bytes) : Prop :=
  match s with
  | [] => True
  | b :: r =>
      (b = 61 -> exists r', r = 50 :: 67 :: r' \/ r = 51 :: 68 :: r') /\ eq_escaped r
  end.

Lemma escape_eq_escaped u : eq_escaped (escape_user u).
Proof.
  induction u as [|b u IH]; [exact I|].
  rewrite escape_user_cons.
  destruct (b =? 61) eqn:E61.
  - cbn. repeat split; try lia; try exact IH. intros _. exists (escape_user u). right. reflexivity.
  - destruct (b =? 44) eqn:E44.
    + cbn. repeat split; try lia; try exact IH. intros _. exists (escape_user u). left. reflexivity.
    + cbn. split; [lia|exact IH].
Qed.

Lemma first_wellformed user cnonce :
  user <> [] -> cnonce <> [] -> forallb printable cnonce = true ->
  rfc_parse_client_first (client_first user cnonce) = Some (client_first_bare user cnonce, user, cnonce).
Proof.
  intros Hu Hn Hp. unfold rfc_parse_client_first, client_first.
  rewrite strip_prefix_app. unfold client_first_bare. rewrite strip_prefix_app.
  change (s_comma_r_eq ++ cnonce) with (44 :: (s_r_eq ++ cnonce)).
  rewrite split1_app by apply escape_no_comma.
  pose proof (unescape_escape user) as Hue.
  destruct (escape_user user) eqn:E; [exfalso; exact (escape_nonnil user Hu E)|].
  rewrite Hue, strip_prefix_app.
  destruct cnonce as [|n0 n']; [contradiction|]. rewrite Hp. reflexivity.
Qed.

(* ------------------------------------------------------------------ UTF-8 *)
Lemma utf8_ok_ascii l : Forall ascii l -> utf8_ok l = true.
Proof.
  induction 1 as [|b l Hb _ IH]; [reflexivity|].
  cbn [utf8_ok]. unfold in_range at 1.
  replace ((0 <=? b) && (b <=? 127)) with true by (unfold ascii in Hb; lia). exact IH.
Qed.

(* ------------------------------------------------------------------ decimal numbers *)
Definition foldv (l : bytes) (acc : Z) : Z := fold_left (fun a d => 10 * a + (d - 48)) l acc.
Definition digitp (b : Z) : Prop := 48 <= b <= 57.

Lemma dec_digits_digit fuel : forall n acc, 0 <= n -> Forall digitp acc -> Forall digitp (dec_digits fuel n acc).
Proof.
  induction fuel as [|f IH]; intros n acc Hn Ha; cbn [dec_digits]; [exact Ha|].
  destruct (n <? 10) eqn:E.
  - constructor; [unfold digitp; lia|exact Ha].
  - apply IH; [lia|]. constructor; [unfold digitp; lia|exact Ha].
Qed.

Lemma dec_digits_nonnil fuel n acc : dec_digits (S fuel) n acc <> [].
Proof.
  revert n acc. induction fuel as [|f IH]; intros n acc; cbn [dec_digits].
  - destruct (n <? 10); discriminate.
  - destruct (n <? 10); [discriminate|]. apply IH.
Qed.

Lemma foldv_dec_digits fuel : forall n acc,
  0 <= n < 10 ^ Z.of_nat fuel -> foldv (dec_digits fuel n acc) 0 = foldv acc n.
Proof.
  induction fuel as [|f IH]; intros n acc Hn.
  - cbn in Hn. replace n with 0 by lia. reflexivity.
  - cbn [dec_digits]. destruct (n <? 10) eqn:E.
    + unfold foldv. cbn [fold_left]. f_equal. lia.
    + rewrite IH.
      * unfold foldv. cbn [fold_left]. f_equal. lia.
      * rewrite Nat2Z.inj_succ, Z.pow_succ_r in Hn by lia. lia.
Qed.

Lemma dec_fuel_ok n : 0 <= n -> n < 10 ^ Z.of_nat (S (Z.to_nat (Z.log2 n))).
Proof.
  intros Hn. rewrite Nat2Z.inj_succ, Z2Nat.id by apply Z.log2_nonneg.
  destruct (Z.eq_dec n 0) as [->|Hz].
  - cbn. lia.
  - assert (Hl := Z.log2_spec n ltac:(lia)).
    assert (2 ^ Z.succ (Z.log2 n) <= 10 ^ Z.succ (Z.log2 n)).
    { apply Z.pow_le_mono_l. lia. }
    lia.
Qed.

Lemma digits_val_digits l : Forall digitp l -> forall acc pd,
  (l <> [] \/ pd = true) -> digits_val l acc pd = Some (foldv l acc).
Proof.
  induction 1 as [|b l Hb _ IH]; intros acc pd Hne.
  - destruct Hne as [Hne| ->]; [contradiction|reflexivity].
  - cbn [digits_val]. unfold is_digit, in_range.
    replace ((48 <=? b) && (b <=? 57)) with true by (unfold digitp in Hb; lia).
    rewrite IH by (right; reflexivity). reflexivity.
Qed.

Lemma lstrip_digits l : Forall digitp l -> lstrip l = l.
Proof.
  destruct 1 as [|b l Hb Hl]; [reflexivity|]. cbn. unfold is_space, in_range.
  replace ((9 <=? b) && (b <=? 13) || (b =? 32)) with false by (unfold digitp in Hb; lia).
  reflexivity.
Qed.

Lemma py_int_dec n : 0 <= n -> py_int (dec n) = Some n.
Proof.
  intros Hn. unfold py_int, strip.
  assert (Hd : Forall digitp (dec n)) by (apply dec_digits_digit; [exact Hn|constructor]).
  rewrite (lstrip_digits _ Hd).
  rewrite lstrip_digits by (apply Forall_rev; exact Hd).
  rewrite rev_involutive.
  destruct (dec n) as [|b r] eqn:E; [exfalso; exact (dec_digits_nonnil _ _ _ E)|].
  assert (Hb : digitp b) by (inversion Hd; assumption).
  replace (b =? 45) with false by (unfold digitp in Hb; lia).
  replace (b =? 43) with false by (unfold digitp in Hb; lia).
  rewrite digits_val_digits by (auto; left; discriminate).
  rewrite <- E. unfold dec. rewrite foldv_dec_digits; [reflexivity|].
  split; [exact Hn|apply dec_fuel_ok; exact Hn].
Qed.

Lemma dec_digitp n : 0 <= n -> Forall digitp (dec n).
Proof. intros. apply dec_digits_digit; [assumption|constructor]. Qed.

(* ------------------------------------------------------------------ xor *)
Lemma xor_involutive a : forall b, (List.length a <= List.length b)%nat -> xor_bytes (xor_bytes a b) b = a.
Proof.
  induction a as [|x a IH]; intros b Hl; [destruct b; reflexivity|].
  destruct b as [|y b]; [cbn in Hl; lia|].
  cbn. rewrite IH by (cbn in Hl; lia). f_equal.
  rewrite Z.lxor_assoc, Z.lxor_nilpotent, Z.lxor_0_r. reflexivity.
Qed.

Lemma xor_wfb a : forall b, wfb a -> wfb b -> wfb (xor_bytes a b).
Proof.
  induction a as [|x a IH]; intros b Ha Hb; [destruct b; constructor|].
  destruct b as [|y b]; [constructor|].
  inversion Ha; inversion Hb; subst. cbn. constructor; [|apply IH; assumption].
  unfold wfbyte in *. change 256 with (2 ^ 8). apply lxor_nonneg_lt; lia.
Qed.

(* ------------------------------------------------------------------ theorems over abstract primitives *)
Section Proofs.
  Variable H : bytes -> bytes.
  Variable HMAC : bytes -> bytes -> bytes.
  Variable Hi : bytes -> bytes -> Z -> bytes.
  Variable b64 : bytes -> bytes.
  Variable unb64 : bytes -> option bytes.

  Definition hyp_unb64_b64 : Prop := forall x, wfb x -> unb64 (b64 x) = Some x.
  Definition hyp_b64_alphabet : Prop := forall x, Forall b64char (b64 x).
  Definition hyp_hmac_len : Prop := exists hlen : nat, forall k m, List.length (HMAC k m) = hlen.
  Definition hyp_hmac_wfb : Prop := forall k m, wfb (HMAC k m).

  Notation step2' := (step2 H HMAC Hi b64 unb64).
  Notation step3' := (step3 unb64).
  Notation session' := (session H HMAC Hi b64 unb64).

  (* -------- what step2 returns, whenever it returns *)
  Definition server_nonce_of (sf : bytes) : option bytes :=
    if utf8_ok sf then match parse_attrs sf with Some attrs => lookup k_r attrs | None => None end
    else None.

  Lemma step2_ok_inv user pw cnonce sf cfin sig :
    step2' user pw cnonce sf = Ok (cfin, sig) ->
    exists attrs rn stxt salt itxt i,
      utf8_ok sf = true /\ parse_attrs sf = Some attrs /\
      lookup k_r attrs = Some rn /\ is_prefix cnonce rn = true /\
      lookup k_s attrs = Some stxt /\ unb64 stxt = Some salt /\
      lookup k_i attrs = Some itxt /\ py_int itxt = Some i /\ 1 <= i <= 2147483647 /\
      cfin = client_final rn (b64 (client_proof H HMAC (Hi pw salt i) (auth_message user cnonce sf rn))) /\
      sig = HMAC (HMAC (Hi pw salt i) s_server_key) (auth_message user cnonce sf rn).
  Proof.
    unfold step2. intros E.
    destruct (utf8_ok sf) eqn:Eu; cbn [negb] in E; [|discriminate].
    destruct (parse_attrs sf) as [attrs|] eqn:Ea; [|discriminate].
    destruct (lookup k_r attrs) as [rn|] eqn:Er; [|discriminate].
    destruct (is_prefix cnonce rn) eqn:Ep; cbn [negb] in E; [|discriminate].
    destruct (lookup k_s attrs) as [stxt|] eqn:Es; [|discriminate].
    destruct (unb64 stxt) as [salt|] eqn:Eb; [|discriminate].
    destruct (lookup k_i attrs) as [itxt|] eqn:Ei; [|discriminate].
    destruct (py_int itxt) as [i|] eqn:Ep2; [|discriminate].
    destruct ((i >? 2147483647) || (i <? -9223372036854775808)) eqn:Eo; [discriminate|].
    destruct (i <? 1) eqn:E1; [discriminate|].
    inversion E; subst. exists attrs, rn, stxt, salt, itxt, i.
    repeat split; try assumption; try reflexivity; lia.
  Qed.

  (* -------- nonce check *)
  Lemma nonce_check user pw cnonce sf sfinal :
    match server_nonce_of sf with
    | Some rn => is_prefix cnonce rn = false
    | None => True
    end ->
    exists e, session' user pw cnonce sf sfinal = [Emit (client_first user cnonce); Raised e].
  Proof.
    unfold server_nonce_of, session. intros Hn.
    destruct (step2' user pw cnonce sf) as [[cfin sig]|e] eqn:E2.
    - exfalso. apply step2_ok_inv in E2.
      destruct E2 as (attrs & rn & stxt & salt & itxt & i & Eu & Ea & Er & Ep & _).
      rewrite Eu, Ea, Er in Hn. congruence.
    - exists e. reflexivity.
  Qed.

  (* the converse reading: a client-final message is emitted only for an extending nonce *)
  Lemma final_only_if_nonce_extends user pw cnonce sf sfinal m rest :
    session' user pw cnonce sf sfinal = Emit (client_first user cnonce) :: Emit m :: rest ->
    exists rn t, server_nonce_of sf = Some rn /\ rn = cnonce ++ t.
  Proof.
    unfold session. intros E.
    destruct (step2' user pw cnonce sf) as [[cfin sig]|e] eqn:E2; [|discriminate].
    apply step2_ok_inv in E2.
    destruct E2 as (attrs & rn & stxt & salt & itxt & i & Eu & Ea & Er & Ep & _).
    apply is_prefix_spec in Ep. destruct Ep as [t Et].
    exists rn, t. unfold server_nonce_of. rewrite Eu, Ea, Er. auto.
  Qed.

  (* -------- server authentication *)
  Definition server_sig_of (sfinal : bytes) : option bytes :=
    if utf8_ok sfinal then
      match parse_attrs sfinal with
      | Some attrs => match lookup k_v attrs with Some vtxt => unb64 vtxt | None => None end
      | None => None
      end
    else None.

  Lemma step3_iff sig sfinal : step3' sig sfinal = Ok tt <-> server_sig_of sfinal = Some sig.
  Proof.
    unfold step3, server_sig_of.
    destruct (utf8_ok sfinal); cbn [negb]; [|split; discriminate].
    destruct (parse_attrs sfinal) as [attrs|]; [|split; discriminate].
    destruct (lookup k_v attrs) as [vtxt|]; [|split; discriminate].
    destruct (unb64 vtxt) as [v|]; [|split; discriminate].
    destruct (list_eqb sig v) eqn:E.
    - apply list_eqb_eq in E. subst. split; reflexivity.
    - apply list_eqb_neq in E. split; [discriminate|]. intros X. inversion X. congruence.
  Qed.

  Lemma step3_cases sig sfinal : step3' sig sfinal = Ok tt \/ exists e, step3' sig sfinal = Exn e.
  Proof. destruct (step3' sig sfinal) as [[]|e]; [left; reflexivity|right; exists e; reflexivity]. Qed.

  Lemma server_auth user pw cnonce sf sfinal cfin rest :
    session' user pw cnonce sf sfinal = Emit (client_first user cnonce) :: Emit cfin :: rest ->
    exists rn stxt salt itxt i attrs,
      parse_attrs sf = Some attrs /\ lookup k_r attrs = Some rn /\
      lookup k_s attrs = Some stxt /\ unb64 stxt = Some salt /\
      lookup k_i attrs = Some itxt /\ py_int itxt = Some i /\
      let expected := expected_server_sig HMAC Hi pw salt i (auth_message user cnonce sf rn) in
      (rest = [Complete] <-> server_sig_of sfinal = Some expected) /\
      (rest = [Complete] \/ exists e, rest = [Raised e]).
  Proof.
    unfold session. intros E.
    destruct (step2' user pw cnonce sf) as [[cfin' sig]|e] eqn:E2; [|discriminate].
    apply step2_ok_inv in E2.
    destruct E2 as (attrs & rn & stxt & salt & itxt & i & Eu & Ea & Er & Ep & Es & Eb & Ei & Ep2 & Hi' & Ec & Esig).
    exists rn, stxt, salt, itxt, i, attrs. repeat (split; [assumption|]).
    cbn zeta. unfold expected_server_sig, server_key, salted_password. rewrite <- Esig.
    inversion E as [[Ecf Er']]. clear E.
    split.
    - rewrite <- step3_iff. destruct (step3' sig sfinal) as [[]|e]; split; try reflexivity; try discriminate.
    - destruct (step3' sig sfinal) as [[]|e]; [left; reflexivity|right; exists e; reflexivity].
  Qed.

  (* -------- canonical server-final "v=" ++ b64 x *)
  Lemma b64_no_comma x : hyp_b64_alphabet -> ~ In 44 (b64 x).
  Proof.
    intros Ha I. specialize (Ha x). rewrite Forall_forall in Ha. specialize (Ha _ I).
    unfold b64char in Ha. lia.
  Qed.

  Lemma b64_ascii x : hyp_b64_alphabet -> Forall ascii (b64 x).
  Proof.
    intros Ha. specialize (Ha x). eapply Forall_impl; [|exact Ha].
    intros b Hb. unfold b64char in Hb. unfold ascii. lia.
  Qed.

  Lemma server_sig_of_canonical x :
    hyp_unb64_b64 -> hyp_b64_alphabet -> wfb x -> server_sig_of ([118; 61] ++ b64 x) = Some x.
  Proof.
    intros Hu Ha Hx. unfold server_sig_of.
    rewrite utf8_ok_ascii.
    2:{ apply Forall_app. split; [repeat constructor; unfold ascii; lia|apply b64_ascii; exact Ha]. }
    unfold parse_attrs. rewrite split_on_none.
    2:{ cbn. intros [I|[I|I]]; try lia. exact (b64_no_comma x Ha I). }
    cbn. rewrite (Hu x Hx). reflexivity.
  Qed.

  Lemma server_final_bits sig x :
    hyp_unb64_b64 -> hyp_b64_alphabet -> wfb x ->
    (step3' sig ([118; 61] ++ b64 x) = Ok tt <-> x = sig).
  Proof.
    intros Hu Ha Hx. rewrite step3_iff, server_sig_of_canonical by assumption.
    split; [intros E; inversion E; reflexivity|intros ->; reflexivity].
  Qed.

  (* -------- honest server *)
  Lemma printable_no_comma l : forallb printable l = true -> ~ In 44 l.
  Proof.
    intros Hp I. rewrite forallb_forall in Hp. specialize (Hp _ I). vm_compute in Hp. discriminate.
  Qed.

  Lemma printable_ascii l : forallb printable l = true -> Forall ascii l.
  Proof.
    intros Hp. rewrite forallb_forall in Hp. apply Forall_forall. intros b Hb.
    specialize (Hp _ Hb). unfold printable, in_range in Hp. unfold ascii. lia.
  Qed.

  Lemma digitp_no_comma l : Forall digitp l -> ~ In 44 l.
  Proof. intros Hd I. rewrite Forall_forall in Hd. specialize (Hd _ I). unfold digitp in Hd. lia. Qed.

  Lemma digitp_ascii l : Forall digitp l -> Forall ascii l.
  Proof. apply Forall_impl. unfold digitp, ascii. lia. Qed.

  Lemma honest_server_accepts user pw cnonce snonce salt i :
    hyp_unb64_b64 -> hyp_b64_alphabet -> hyp_hmac_len -> hyp_hmac_wfb ->
    forallb printable cnonce = true -> forallb printable snonce = true ->
    wfb salt -> 1 <= i <= 2147483647 ->
    let sf := srv_first b64 cnonce snonce salt i in
    let rn := cnonce ++ snonce in
    let bare := client_first_bare user cnonce in
    let auth := auth_message user cnonce sf rn in
    let cfin := client_final rn (b64 (client_proof H HMAC (Hi pw salt i) auth)) in
    strip_prefix s_gs2 (client_first user cnonce) = Some bare /\
    step2' user pw cnonce sf = Ok (cfin, expected_server_sig HMAC Hi pw salt i auth) /\
    srv_verify H HMAC unb64 (srv_stored_key H HMAC Hi pw salt i) bare sf rn cfin = true /\
    session' user pw cnonce sf (srv_final HMAC Hi b64 pw salt i auth) =
      [Emit (client_first user cnonce); Emit cfin; Complete].
  Proof.
    intros Hu Ha [hlen Hl] Hw Hpc Hps Hsalt Hi'. cbn zeta.
    set (sf := srv_first b64 cnonce snonce salt i).
    set (rn := cnonce ++ snonce).
    set (auth := auth_message user cnonce sf rn).
    assert (Hrn : ~ In 44 rn).
    { unfold rn. intros I. apply in_app_or in I.
      destruct I as [I|I]; [exact (printable_no_comma _ Hpc I)|exact (printable_no_comma _ Hps I)]. }
    (* the client accepts the server-first message *)
    assert (Hsf : sf = (s_r_eq ++ rn) ++ 44 :: ((115 :: 61 :: b64 salt) ++ 44 :: (105 :: 61 :: dec i))).
    { unfold sf, srv_first, rn. repeat rewrite <- app_assoc. reflexivity. }
    assert (Hparse : parse_attrs sf = Some [(k_r, rn); (k_s, b64 salt); (k_i, dec i)]).
    { unfold parse_attrs. rewrite Hsf.
      rewrite split_on_app.
      2:{ intros I. apply in_app_or in I. destruct I as [I|I]; [cbn in I; lia|exact (Hrn I)]. }
      rewrite split_on_app.
      2:{ cbn. intros [I|[I|I]]; try lia. exact (b64_no_comma _ Ha I). }
      rewrite split_on_none.
      2:{ cbn. intros [I|[I|I]]; try lia. exact (digitp_no_comma _ (dec_digitp i ltac:(lia)) I). }
      reflexivity. }
    assert (Hutf : utf8_ok sf = true).
    { apply utf8_ok_ascii. rewrite Hsf. unfold rn, s_r_eq.
      repeat first [apply Forall_app; split | apply Forall_cons; [unfold ascii; lia|] | apply Forall_nil].
      all: try (apply printable_ascii; assumption).
      - apply b64_ascii; exact Ha.
      - apply digitp_ascii, dec_digitp. lia. }
    assert (E2 : step2' user pw cnonce sf =
                 Ok (client_final rn (b64 (client_proof H HMAC (Hi pw salt i) auth)),
                     expected_server_sig HMAC Hi pw salt i auth)).
    { unfold step2. rewrite Hutf, Hparse. cbn [negb].
      change (lookup k_r [(k_r, rn); (k_s, b64 salt); (k_i, dec i)]) with (Some rn).
      change (lookup k_s [(k_r, rn); (k_s, b64 salt); (k_i, dec i)]) with (Some (b64 salt)).
      change (lookup k_i [(k_r, rn); (k_s, b64 salt); (k_i, dec i)]) with (Some (dec i)).
      cbn iota beta.
      unfold rn at 1. rewrite is_prefix_app. cbn [negb].
      rewrite (Hu salt Hsalt), py_int_dec by lia.
      replace ((i >? 2147483647) || (i <? -9223372036854775808)) with false by lia.
      replace (i <? 1) with false by lia.
      reflexivity. }
    split; [unfold client_first; apply strip_prefix_app|].
    split; [exact E2|].
    (* the server accepts the client-final message *)
    assert (Hproof_wfb : wfb (client_proof H HMAC (Hi pw salt i) auth)).
    { unfold client_proof. apply xor_wfb; apply Hw. }
    split.
    - unfold srv_verify, client_final.
      change (s_cbind ++ s_comma_r_eq ++ rn ++ s_comma_p_eq ++ b64 (client_proof H HMAC (Hi pw salt i) auth))
        with (s_cbind ++ 44 :: ((s_r_eq ++ rn) ++ 44 :: ([112; 61] ++ b64 (client_proof H HMAC (Hi pw salt i) auth)))) at 1.
      rewrite split1_app by (cbn; lia).
      rewrite split1_app.
      2:{ intros I. apply in_app_or in I. destruct I as [I|I]; [cbn in I; lia|exact (Hrn I)]. }
      rewrite strip_prefix_app, (Hu _ Hproof_wfb), !list_eqb_refl. cbn [andb].
      unfold srv_accepts, srv_stored_key.
      replace (client_first_bare user cnonce ++ [44] ++ sf ++ [44] ++ s_cbind ++ [44] ++ s_r_eq ++ rn)
        with auth by (unfold auth, auth_message; reflexivity).
      unfold client_proof, client_key. rewrite xor_involutive by (rewrite !Hl; lia).
      apply list_eqb_refl.
    - unfold session. rewrite E2.
      assert (E3 : step3' (expected_server_sig HMAC Hi pw salt i auth)
                     (srv_final HMAC Hi b64 pw salt i auth) = Ok tt).
      { unfold srv_final. apply server_final_bits; try assumption; [apply Hw|reflexivity]. }
      rewrite E3. reflexivity.
  Qed.
End Proofs.

(* ------------------------------------------------------------------ the hypotheses are satisfiable *)
Module Sat.
  (* a toy instance: 4-byte "digests", hex-like encoding over 'A'..'P' *)
  Definition H (x : bytes) : bytes := [0; 0; 0; 0].
  Definition HMAC (k m : bytes) : bytes := [1; 2; 3; 4].
  Definition Hi (p s : bytes) (i : Z) : bytes := [5; 6; 7; 8].
  Definition b64 (x : bytes) : bytes := flat_map (fun b => [65 + (b mod 256) / 16; 65 + b mod 16]) x.
  Fixpoint unb64 (s : bytes) : option bytes :=
    match s with
    | [] => Some []
    | a :: b :: r => option_map (cons ((a - 65) * 16 + (b - 65))) (unb64 r)
    | _ => None
    end.

  Lemma sat_unb64_b64 : hyp_unb64_b64 b64 unb64.
  Proof.
    intros x Hx. induction Hx as [|b x Hb _ IH]; [reflexivity|].
    cbn [b64 flat_map app unb64]. fold (b64 x). rewrite IH. cbn [option_map]. f_equal. f_equal.
    unfold wfbyte in Hb. lia.
  Qed.

  Lemma sat_b64_alphabet : hyp_b64_alphabet b64.
  Proof.
    intros x. induction x as [|b x IH]; [constructor|].
    cbn [b64 flat_map app]. repeat (constructor; [unfold b64char; lia|]). exact IH.
  Qed.

  Lemma sat_hmac_len : hyp_hmac_len HMAC.
  Proof. exists 4%nat. reflexivity. Qed.

  Lemma sat_hmac_wfb : hyp_hmac_wfb HMAC.
  Proof. intros k m. repeat constructor; unfold wfbyte; lia. Qed.
End Sat.
