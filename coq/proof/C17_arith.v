(* C17_arith.v — the 32-bit arithmetic core: Python's masked unsigned arithmetic equals
   Java's wrapped signed arithmetic modulo 2^32. *)
From Coq Require Import ZArith List Bool Lia ZifyBool.
From Verif Require Import Bits Murmur2Java.
Import ListNotations.
Open Scope Z_scope.
Ltac Zify.zify_post_hook ::= Z.to_euclidean_division_equations.

Definition wfbyte (b : Z) : Prop := 0 <= b < 256.
Definition wfb (l : list Z) : Prop := Forall wfbyte l.

Definition MASK : Z := 4294967295.
Definition PM : Z := 1540483477.

(* the Python loop body, as an expression of the previous h and the four bytes *)
Definition umix (h b0 b1 b2 b3 : Z) : Z :=
  let k := (Z.land b0 255) + (Z.shiftl (Z.land b1 255) 8) + (Z.shiftl (Z.land b2 255) 16)
           + (Z.shiftl (Z.land b3 255) 24) in
  let k := Z.land k MASK in
  let k := k * PM in
  let k := Z.land k MASK in
  let k := Z.lxor k (Z.shiftr (k mod 4294967296) 24) in
  let k := Z.land k MASK in
  let k := k * PM in
  let k := Z.land k MASK in
  let h := h * PM in
  let h := Z.land h MASK in
  let h := Z.lxor h k in
  Z.land h MASK.

Definition ufinal (h : Z) : Z :=
  let h := Z.lxor h (Z.shiftr (h mod 4294967296) 13) in
  let h := Z.land h MASK in
  let h := h * PM in
  let h := Z.land h MASK in
  let h := Z.lxor h (Z.shiftr (h mod 4294967296) 15) in
  Z.land h MASK.

Definition utail3 (h b2 : Z) : Z := Z.land (Z.lxor h (Z.shiftl (Z.land b2 255) 16)) MASK.
Definition utail2 (h b1 : Z) : Z := Z.land (Z.lxor h (Z.shiftl (Z.land b1 255) 8)) MASK.
Definition utail1 (h b0 : Z) : Z := Z.land (Z.land (Z.lxor h (Z.land b0 255)) MASK * PM) MASK.

Lemma u32_s32 x : u32 (s32 x) = u32 x.
Proof. unfold u32, s32. lia. Qed.

Lemma u32_idem x : u32 (u32 x) = u32 x.
Proof. unfold u32. lia. Qed.

Lemma u32_range x : 0 <= u32 x < 4294967296.
Proof. unfold u32. lia. Qed.

Lemma u32_small x : 0 <= x < 4294967296 -> u32 x = x.
Proof. unfold u32. lia. Qed.

Lemma u32_mul a b : u32 (a * b) = u32 (u32 a * u32 b).
Proof. unfold u32. rewrite Z.mul_mod by lia. reflexivity. Qed.

Lemma u32_add a b : u32 (a + b) = u32 (u32 a + u32 b).
Proof. unfold u32. rewrite Z.add_mod by lia. reflexivity. Qed.

Lemma u32_lxor a b : u32 (Z.lxor a b) = Z.lxor (u32 a) (u32 b).
Proof. unfold u32. apply lxor_mod32. Qed.

Lemma u32_jmul a b : u32 (jmul a b) = u32 (u32 a * u32 b).
Proof. unfold jmul. rewrite u32_s32. apply u32_mul. Qed.

Lemma u32_jxor a b : u32 (jxor a b) = Z.lxor (u32 a) (u32 b).
Proof. unfold jxor. rewrite u32_s32. apply u32_lxor. Qed.

Lemma u32_jushr a n : 0 < n < 32 -> u32 (jushr a n) = Z.shiftr (u32 a) n.
Proof.
  intros Hn. unfold jushr. rewrite u32_s32. apply u32_small.
  rewrite Z.shiftr_div_pow2 by lia.
  pose proof (u32_range a).
  assert (0 < 2 ^ n) by (apply Z.pow_pos_nonneg; lia).
  split; [apply Z.div_pos; lia|].
  apply Z.le_lt_trans with (u32 a); [|lia].
  apply Z.div_le_upper_bound; [lia|]. nia.
Qed.

Lemma jand_byte b : wfbyte b -> jand (to_signed_byte b) 255 = b.
Proof.
  unfold wfbyte, jand, to_signed_byte. intros H. rewrite land_255.
  destruct (b <? 128) eqn:E; unfold s32; lia.
Qed.

Lemma land_byte b : wfbyte b -> Z.land b 255 = b.
Proof. unfold wfbyte. intros H. rewrite land_255. lia. Qed.

Lemma u32_jshl a n : 0 <= n -> u32 (jshl a n) = u32 (a * 2 ^ n).
Proof. intros. unfold jshl. rewrite u32_s32, Z.shiftl_mul_pow2 by lia. reflexivity. Qed.

Lemma u32_jadd a b : u32 (jadd a b) = u32 (u32 a + u32 b).
Proof. unfold jadd. rewrite u32_s32. apply u32_add. Qed.

Lemma mask_u32 x : Z.land x MASK = u32 x.
Proof. unfold MASK, u32. apply land_ones32. Qed.

Lemma J_M_PM : J_M = PM. Proof. reflexivity. Qed.

(* --- the block step --------------------------------------------------------------- *)
Lemma u32_PM : u32 PM = PM. Proof. reflexivity. Qed.

Lemma u32_mulPM x : u32 (u32 x * u32 PM) = u32 (x * PM).
Proof. rewrite <- u32_mul. reflexivity. Qed.

Lemma xorshift_small x n : 0 < n < 32 -> 0 <= x < 4294967296 ->
  0 <= Z.lxor x (Z.shiftr x n) < 4294967296.
Proof.
  intros Hn Hx. apply (lxor_nonneg_lt _ _ 32); [lia|exact Hx|].
  rewrite Z.shiftr_div_pow2 by lia.
  assert (0 < 2 ^ n) by (apply Z.pow_pos_nonneg; lia).
  split; [apply Z.div_pos; lia|].
  apply Z.le_lt_trans with x; [|lia]. apply Z.div_le_upper_bound; [lia|nia].
Qed.

Lemma mix_eq hj b0 b1 b2 b3 :
  wfbyte b0 -> wfbyte b1 -> wfbyte b2 -> wfbyte b3 ->
  umix (u32 hj) b0 b1 b2 b3 =
  u32 (jmix hj (to_signed_byte b0) (to_signed_byte b1) (to_signed_byte b2) (to_signed_byte b3)).
Proof.
  intros H0 H1 H2 H3. unfold umix, jmix. cbv zeta.
  rewrite !jand_byte, !land_byte by assumption.
  rewrite !mask_u32, J_M_PM.
  rewrite !Z.shiftl_mul_pow2 by lia.
  set (kj := jadd _ _).
  set (kp := b0 + _ + _ + _).
  assert (Hkp : 0 <= kp < 4294967296) by (subst kp; unfold wfbyte in *; lia).
  assert (Hk : u32 kj = kp).
  { subst kj. rewrite !u32_jadd, !u32_jshl by lia. unfold wfbyte in *.
    subst kp. clear Hkp. unfold u32.
    change (2 ^ 8) with 256. change (2 ^ 16) with 65536. change (2 ^ 24) with 16777216. lia. }
  (* Java side *)
  rewrite u32_jxor, !u32_jmul, u32_jxor, u32_jushr, u32_jmul by lia.
  rewrite Hk, !u32_mulPM.
  rewrite !u32_PM.
  change (u32 (kp * PM) mod 4294967296) with (u32 (u32 (kp * PM))). rewrite u32_idem.
  apply u32_small. apply (lxor_nonneg_lt _ _ 32); [lia|apply u32_range|apply u32_range].
Qed.

Lemma final_eq hj : ufinal (u32 hj) = u32 (jfinal hj).
Proof.
  unfold ufinal, jfinal. cbv zeta.
  rewrite !mask_u32, J_M_PM.
  rewrite !u32_jxor, !u32_jushr, !u32_jmul, !u32_jxor, !u32_jushr by lia.
  change (u32 hj mod 4294967296) with (u32 (u32 hj)). rewrite !u32_idem.
  set (A := Z.lxor (u32 hj) (Z.shiftr (u32 hj) 13)).
  assert (HA : u32 A = A).
  { apply u32_small. subst A. pose proof (u32_range hj) as Hr.
    apply (lxor_nonneg_lt _ _ 32); [lia|exact Hr|].
    rewrite Z.shiftr_div_pow2 by lia. split; [apply Z.div_pos; lia|].
    apply Z.le_lt_trans with (u32 hj); [|lia]. apply Z.div_le_upper_bound; lia. }
  rewrite HA. rewrite (u32_small PM) by (unfold PM; lia).
  change (u32 (A * PM) mod 4294967296) with (u32 (u32 (A * PM))). rewrite !u32_idem.
  set (B := Z.lxor (u32 (A * PM)) (Z.shiftr (u32 (A * PM)) 15)).
  apply u32_small. subst B. pose proof (u32_range (A * PM)) as Hr.
  apply (lxor_nonneg_lt _ _ 32); [lia|exact Hr|].
  rewrite Z.shiftr_div_pow2 by lia. split; [apply Z.div_pos; lia|].
  apply Z.le_lt_trans with (u32 (A * PM)); [|lia]. apply Z.div_le_upper_bound; lia.
Qed.

Lemma tail3_eq hj b : wfbyte b ->
  utail3 (u32 hj) b = u32 (jxor hj (jshl (jand (to_signed_byte b) 255) 16)).
Proof.
  intros H. unfold utail3. rewrite jand_byte, land_byte, mask_u32 by assumption.
  rewrite u32_jxor, u32_jshl, u32_lxor, u32_idem by lia.
  rewrite Z.shiftl_mul_pow2 by lia. reflexivity.
Qed.

Lemma tail2_eq hj b : wfbyte b ->
  utail2 (u32 hj) b = u32 (jxor hj (jshl (jand (to_signed_byte b) 255) 8)).
Proof.
  intros H. unfold utail2. rewrite jand_byte, land_byte, mask_u32 by assumption.
  rewrite u32_jxor, u32_jshl, u32_lxor, u32_idem by lia.
  rewrite Z.shiftl_mul_pow2 by lia. reflexivity.
Qed.

Lemma tail1_eq hj b : wfbyte b ->
  utail1 (u32 hj) b = u32 (jmul (jxor hj (jand (to_signed_byte b) 255)) J_M).
Proof.
  intros H. unfold utail1. rewrite jand_byte, land_byte, !mask_u32, J_M_PM by assumption.
  rewrite u32_jmul, u32_jxor, u32_lxor, !u32_idem.
  rewrite (u32_mul (Z.lxor (u32 hj) (u32 b)) PM).
  rewrite u32_lxor, !u32_idem. reflexivity.
Qed.
