(* C02_proof.v *)
From Coq Require Import ZArith List Bool Lia ZifyBool.
From Verif Require Import Imp IncrSeq Producer C01_proof C02_Done.
Import ListNotations.
Open Scope Z_scope.

(* ---- done(): coordinates ------------------------------------------------------------------ *)
Lemma done_aux_spec base bts ls : forall fs i k r,
  In (k, r) (done_aux i base bts ls fs) <->
  exists j f, k = (i + j)%nat /\ nth_error fs j = Some f /\ f_done f = false /\
    r = RMeta (if base <? 0 then -1 else base + f_rel f) (if bts =? -1 then f_ts f else bts) (if bts =? -1 then 0 else 1) ls.
Proof.
  induction fs as [|f fs IH]; intros i k r; cbn [done_aux].
  - split; [intros []|]. intros (j & f & _ & H & _). destruct j; discriminate.
  - destruct (f_done f) eqn:Ed.
    + rewrite IH. split.
      * intros (j & g & -> & Hn & Hd & ->). exists (S j), g. repeat split; try assumption. lia.
      * intros (j & g & -> & Hn & Hd & ->). destruct j as [|j]; cbn in Hn.
        -- injection Hn as <-. congruence.
        -- exists j, g. repeat split; try assumption. lia.
    + cbn [In]. rewrite IH. split.
      * intros [H|(j & g & -> & Hn & Hd & ->)].
        -- injection H as <- <-. exists O, f. repeat split; try assumption. lia.
        -- exists (S j), g. repeat split; try assumption. lia.
      * intros (j & g & -> & Hn & Hd & ->). destruct j as [|j]; cbn in Hn.
        -- injection Hn as <-. left. f_equal. lia.
        -- right. exists j, g. repeat split; try assumption. lia.
Qed.

(* every unresolved future i gets offset = base + rel_i, its own timestamp when the broker
   reports -1 (CreateTime) else the broker's, the matching timestamp type; resolved futures are
   not touched; nothing else is emitted *)
Theorem done_coordinates base bts ls fs k r :
  In (k, r) (done base bts ls fs) <->
  exists f, nth_error fs k = Some f /\ f_done f = false /\
    r = RMeta (if base <? 0 then -1 else base + f_rel f) (if bts =? -1 then f_ts f else bts) (if bts =? -1 then 0 else 1) ls.
Proof.
  unfold done. rewrite done_aux_spec. split.
  - intros (j & f & -> & H). exists f. exact H.
  - intros (f & H). exists k, f. split; [reflexivity|exact H].
Qed.

Lemma done_aux_keys_incr base bts ls : forall fs i k r,
  In (k, r) (done_aux i base bts ls fs) -> (i <= k)%nat.
Proof. intros fs i k r H. apply done_aux_spec in H. destruct H as (j & _ & -> & _). lia. Qed.

Lemma done_aux_nodup base bts ls : forall fs i, NoDup (map fst (done_aux i base bts ls fs)).
Proof.
  induction fs as [|f fs IH]; intros i; cbn [done_aux]; [constructor|].
  destruct (f_done f); [apply IH|]. cbn [map fst]. constructor; [|apply IH].
  intros Hin. apply in_map_iff in Hin. destruct Hin as ((k & r) & Hk & Hin). cbn in Hk. subst k.
  apply done_aux_keys_incr in Hin. lia.
Qed.

(* each future is resolved at most once by one call *)
Theorem done_once base bts ls fs : NoDup (map fst (done base bts ls fs)).
Proof. apply done_aux_nodup. Qed.

Lemma all_aux_spec r0 : forall fs i k r,
  In (k, r) (all_aux i r0 fs) <->
  exists j f, k = (i + j)%nat /\ nth_error fs j = Some f /\ f_done f = false /\ r = r0.
Proof.
  induction fs as [|f fs IH]; intros i k r; cbn [all_aux].
  - split; [intros []|]. intros (j & f & _ & H & _). destruct j; discriminate.
  - destruct (f_done f) eqn:Ed.
    + rewrite IH. split.
      * intros (j & g & -> & Hn & Hd & ->). exists (S j), g. repeat split; try assumption. lia.
      * intros (j & g & -> & Hn & Hd & ->). destruct j as [|j]; cbn in Hn.
        -- injection Hn as <-. congruence.
        -- exists j, g. repeat split; try assumption. lia.
    + cbn [In]. rewrite IH. split.
      * intros [H|(j & g & -> & Hn & Hd & ->)].
        -- injection H as <- <-. exists O, f. repeat split; try assumption. lia.
        -- exists (S j), g. repeat split; try assumption. lia.
      * intros (j & g & -> & Hn & Hd & ->). destruct j as [|j]; cbn in Hn.
        -- injection Hn as <-. left. f_equal. lia.
        -- right. exists j, g. repeat split; try assumption. lia.
Qed.

(* acks = 0: every resolution carries no metadata *)
Theorem noack_no_metadata fs k r : In (k, r) (done_noack fs) -> r = RNone.
Proof. unfold done_noack. intros H. apply all_aux_spec in H. destruct H as (_ & _ & _ & _ & _ & ->). reflexivity. Qed.

(* ---- batch life cycle: resolved exactly once ---------------------------------------------- *)
Definition pend_recs (s : st) : list nat := match pend s with Some p => precs p | None => [] end.
Definition cnt (r : nat) (l : list nat) : nat := count_occ Nat.eq_dec l r.
Arguments cnt : simpl never.

Definition Bal (s : st) : Prop :=
  forall r, (cnt r (acked s) + cnt r (failed s) + cnt r (pend_recs s) + cnt r (concat (uq s)))%nat
            = cnt r (accepted s).

Lemma cnt_app r a b : cnt r (a ++ b) = (cnt r a + cnt r b)%nat.
Proof. apply count_occ_app. Qed.

Lemma bal_init0 : Bal init0. Proof. intros r. reflexivity. Qed.

Lemma step_bal s e s' ov : Bal s -> step s e = Some (s', ov) -> Bal s'.
Proof.
  intros B H r. specialize (B r). unfold pend_recs in *.
  destruct s as [q pd ns bl bs ak fl ac ba]. cbn [uq pend acked failed accepted] in *.
  assert (N : cnt r [] = O) by reflexivity.
  destruct e; cbn [step uq pend nseq blog bstate acked failed accepted base] in H.
  - destruct newb.
    + injection H as <- _. cbn [uq pend acked failed accepted precs]. rewrite concat_app, !cnt_app.
      cbn [concat]. rewrite app_nil_r. lia.
    + destruct (snoc_last q r0) as [q'|] eqn:E; [|discriminate]. injection H as <- _.
      cbn [uq pend acked failed accepted precs].
      destruct (snoc_last_spec _ _ _ E) as (Hc & _). rewrite Hc, !cnt_app. lia.
  - destruct pd as [p|].
    + destruct (ploc p); try discriminate. injection H as <- _. cbn [uq pend acked failed accepted precs]. exact B.
    + destruct q as [|b rest]; [discriminate|]. injection H as <- _.
      cbn [uq pend acked failed accepted precs concat] in *. rewrite cnt_app in B. lia.
  - destruct pd as [p|]; [|discriminate]. destruct (ploc p); try discriminate.
    destruct (broker_verdict _ _ _); injection H as <- _; cbn [uq pend acked failed accepted precs]; exact B.
  - destruct pd as [p|]; [|discriminate]. destruct (ploc p) as [| |v]; try discriminate.
    destruct v; try discriminate; injection H as <- _; cbn [uq pend acked failed accepted precs] in *;
      rewrite cnt_app; lia.
  - destruct pd as [p|]; [|discriminate].
    destruct (ploc p); try discriminate; injection H as <- _; cbn [uq pend acked failed accepted precs]; exact B.
  - destruct pd as [p|]; [|discriminate]. destruct (ploc p) as [| |v]; try discriminate.
    destruct v; try discriminate. injection H as <- _. cbn [uq pend acked failed accepted precs] in *.
    rewrite cnt_app. lia.
  - destruct pd; [discriminate|]. destruct q; [|discriminate]. injection H as <- _. exact B.
Qed.

Lemma run_bal : forall tr s s' vs, Bal s -> run s tr = Some (s', vs) -> Bal s'.
Proof.
  induction tr as [|e tr IH]; intros s s' vs B H; cbn [run] in H.
  - injection H as <- _. exact B.
  - destruct (step s e) as [[s1 ov]|] eqn:E; [|discriminate].
    destruct (run s1 tr) as [[s2 vs2]|] eqn:E2; [|discriminate]. injection H as <- _.
    eapply IH; [eapply step_bal; eassumption|exact E2].
Qed.

(* every accepted record is resolved at most once (acknowledged xor failed, once), and when
   flush()/stop() may return (FlushRet enabled) every accepted record is resolved exactly once *)
Theorem resolved_once tr s' vs r :
  run init0 tr = Some (s', vs) -> cnt r (accepted s') = 1%nat ->
  (cnt r (acked s') + cnt r (failed s') <= 1)%nat.
Proof.
  intros H H1. pose proof (run_bal tr init0 s' vs bal_init0 H r) as B. lia.
Qed.

Theorem flush_returns_when_all_resolved tr s' vs s'' o r :
  run init0 tr = Some (s', vs) -> step s' FlushRet = Some (s'', o) ->
  (cnt r (acked s') + cnt r (failed s'))%nat = cnt r (accepted s').
Proof.
  intros H HF. pose proof (run_bal tr init0 s' vs bal_init0 H r) as B.
  cbn [step] in HF. unfold pend_recs in B.
  destruct (pend s'); [discriminate|]. destruct (uq s'); [|discriminate].
  cbn [concat] in B. change (cnt r []) with O in B. lia.
Qed.

(* with idempotence and no wrap, retriable faults never fail an accepted record *)
Lemma step_failed s e s' ov : Inv s -> step s e = Some (s', ov) -> failed s' = failed s.
Proof.
  intros I H. destruct e; cbn [step] in H.
  - destruct newb; [injection H as <- _; reflexivity|].
    destruct (snoc_last (uq s) r); [|discriminate]. injection H as <- _; reflexivity.
  - destruct (pend s) as [p|]; [destruct (ploc p); try discriminate; injection H as <- _; reflexivity|].
    destruct (uq s); [discriminate|]. injection H as <- _; reflexivity.
  - destruct (pend s) as [p|]; [|discriminate]. destruct (ploc p); try discriminate.
    destruct (broker_verdict _ _ _); injection H as <- _; reflexivity.
  - destruct (pend s) as [p|]; [|discriminate]. destruct (ploc p) as [| |v]; try discriminate.
    destruct v; try discriminate; injection H as <- _; reflexivity.
  - destruct (pend s) as [p|]; [|discriminate]. destruct (ploc p); try discriminate; injection H as <- _; reflexivity.
  - destruct (pend s) as [p|] eqn:Ep; [|discriminate]. destruct (ploc p) as [| |v] eqn:El; try discriminate.
    destruct v; try discriminate.
    destruct (i_pend s I p Ep) as (_ & Hoo & _). congruence.
  - destruct (pend s); [discriminate|]. destruct (uq s); [|discriminate]. injection H as <- _; reflexivity.
Qed.

Theorem idem_no_failure : forall tr s' vs,
  count_accepts tr < 2147483648 -> run init0 tr = Some (s', vs) -> failed s' = [].
Proof.
  assert (G : forall tr s s' vs, Inv s -> base s + zlen' (accepted s) + count_accepts tr < 2147483648 ->
              run s tr = Some (s', vs) -> failed s' = failed s).
  { induction tr as [|e tr IH]; intros s s' vs I B H; cbn [run] in H.
    - injection H as <- _. reflexivity.
    - destruct (step s e) as [[s1 ov]|] eqn:E; [|discriminate].
      destruct (run s1 tr) as [[s2 vs2]|] eqn:E2; [|discriminate]. injection H as <- _.
      destruct (accepted_mono _ _ _ _ E) as (Hb1 & ext1 & Ha1 & Hl1).
      rewrite count_accepts_cons in B.
      assert (B1 : Bound s1).
      { unfold Bound. rewrite Hb1, Ha1, zlen'_app, Hl1. pose proof (count_accepts_nonneg tr). lia. }
      destruct (step_inv _ _ _ _ I B1 E) as (I1 & _).
      rewrite (IH s1 s2 vs2 I1); [apply (step_failed _ _ _ _ I E)| |exact E2].
      rewrite Hb1, Ha1, zlen'_app, Hl1. lia. }
  intros tr s' vs B H. rewrite (G tr init0 s' vs inv_init0); [reflexivity| |exact H]. cbn. lia.
Qed.

(* progress on a fault-free round: the head batch is sent, appended and acknowledged *)
Theorem fault_free_round s b rest :
  Inv s -> pend s = None -> uq s = b :: rest ->
  base s + zlen' (accepted s) < 2147483648 ->
  exists s', run s [Drain; Arrive; ReplyOk] = Some (s', [Appended]) /\
             uq s' = rest /\ pend s' = None /\ acked s' = acked s ++ b.
Proof.
  intros I Hp Hq B.
  assert (B0 : base s + zlen' (accepted s) + count_accepts [Drain; Arrive; ReplyOk] < 2147483648) by (cbn; lia).
  destruct s as [q pd ns bl bs ak fl ac ba]. cbn [pend uq] in Hp, Hq. subst pd q.
  destruct I as [Ib In Ie Ip Ir Ia Ine]. nm.
  cbn [run step pend uq ploc precs pseq inlog nseq blog bstate acked failed accepted base].
  unfold broker_verdict. rewrite Ie.
  change (zlen' []) with 0 in In. rewrite Z.add_0_r in In. rewrite <- In. rewrite Z.eqb_refl.
  cbn [pend uq ploc precs pseq inlog nseq blog bstate acked failed accepted base].
  eexists. split; [reflexivity|]. cbn. repeat split.
Qed.
