(* C02_gen_proof.v — the functions translated from MessageBatch.done / done_noack / failure on this run
   (gen/DoneGen.v) are the hand model of model/C02_Done.v, for every input. *)
From Coq Require Import ZArith List Bool.
From Verif Require Import C02_Done DoneGen.
Import ListNotations.
Open Scope Z_scope.

Lemma done_py_aux_eq base bts ls : forall fs i,
  for_pending_aux i (fun f : mfut => RMeta (if base <? 0 then -1 else base + f_rel f) (if bts =? -1 then f_ts f else bts)
                                           (if bts =? -1 then 0 else 1) ls) fs
  = done_aux i base bts ls fs.
Proof.
  induction fs as [|f fs IH]; intros i; cbn [for_pending_aux done_aux]; [reflexivity|].
  rewrite IH. reflexivity.
Qed.

Lemma done_py_eq base bts ls fs : DoneGen.done_py base bts ls fs = done base bts ls fs.
Proof. unfold DoneGen.done_py, for_pending, done. apply done_py_aux_eq. Qed.

Lemma all_py_aux_eq r : forall fs i, for_pending_aux i (fun _ : mfut => r) fs = all_aux i r fs.
Proof.
  induction fs as [|f fs IH]; intros i; cbn [for_pending_aux all_aux]; [reflexivity|].
  rewrite IH. reflexivity.
Qed.

Lemma done_noack_py_eq fs : DoneGen.done_noack_py fs = done_noack fs.
Proof. unfold DoneGen.done_noack_py, for_pending, done_noack. apply all_py_aux_eq. Qed.

Lemma failure_py_eq fs : DoneGen.failure_py fs = failure fs.
Proof. unfold DoneGen.failure_py, for_pending, failure. apply all_py_aux_eq. Qed.

(* the batch's own future (what send_batch() returns): base offset, the broker's timestamp as it is *)
Lemma done_main_py_eq base bts ls :
  DoneGen.done_main_py base bts ls = RMeta base bts (if bts =? -1 then 0 else 1) ls.
Proof. reflexivity. Qed.

Lemma main_noack_failure : DoneGen.done_noack_main_py = RNone /\ DoneGen.failure_main_py = RErr.
Proof. split; reflexivity. Qed.

(* a batch acknowledged without a base offset (DUPLICATE_SEQUENCE_NUMBER for a batch whose metadata the broker no
   longer retains) names no offset for any of its records - never a valid-looking offset of another record *)
From Verif Require Import C02_proof.
Lemma unknown_base_names_no_offset base bts ls fs k r :
  base < 0 -> In (k, r) (DoneGen.done_py base bts ls fs) -> exists ts ty, r = RMeta (-1) ts ty ls.
Proof.
  intros Hb H. rewrite done_py_eq in H. apply done_coordinates in H. destruct H as (f & _ & _ & ->).
  destruct (base <? 0) eqn:E; [eauto|]. apply Z.ltb_ge in E. exfalso. apply (Z.lt_irrefl 0).
  eapply Z.le_lt_trans; eassumption.
Qed.
