(* C07_client.v — invariants of one producer instance of model/C07_Txn.v that hold on every
   accepted trace, without any assumption on the environment:
     - READY / UNINITIALIZED  =>  nothing queued, nothing in flight;
     - every batch belongs to the current application transaction and holds accepted records;
     - what the brokers appended was accepted;
     - as long as no batch failed, every accepted item is appended, queued, in flight or a pending
       offset entry.
   Consequences: c07_no_write_outside_txn and c07_end_after_acks (props/C07.v). *)
From Coq Require Import ZArith List Bool Arith Lia.
From Verif Require Import Imp TxnTable C16_TxnApi C07_Txn.
Import ListNotations.

(* ---------- the translated table, as far as this file needs it ---------------------------------- *)
Lemma trans_target s t u : trans s t = Some u -> u = t.
Proof. unfold trans. destruct (table s t); intros H; inversion H; reflexivity. Qed.
Lemma trans_in_txn s u : trans s IN_TXN = Some u -> s = READY.
Proof. destruct s; vm_compute; intros H; try discriminate; reflexivity. Qed.
Lemma trans_ready s u : trans s READY = Some u -> s = UNINIT \/ s = COMMITTING \/ s = ABORTING.
Proof. destruct s; vm_compute; intros H; try discriminate; auto. Qed.
Lemma trans_committing s u : trans s COMMITTING = Some u -> s = IN_TXN.
Proof. destruct s; vm_compute; intros H; try discriminate; reflexivity. Qed.
Lemma trans_aborting s u : trans s ABORTING = Some u -> s = IN_TXN \/ s = ABORTABLE.
Proof. destruct s; vm_compute; intros H; try discriminate; auto. Qed.

(* ---------- list helpers -------------------------------------------------------------------------- *)
Lemma memn_In x l : memn x l = true <-> In x l.
Proof.
  unfold memn. rewrite existsb_exists. split.
  - intros (y & H & E). apply Nat.eqb_eq in E. subst. exact H.
  - intros H. exists x. split; [exact H | apply Nat.eqb_refl].
Qed.
Lemma remn_In x y l : In y (remn x l) <-> In y l /\ y <> x.
Proof.
  unfold remn. rewrite filter_In. split; intros [A B]; split; auto.
  - intros E. subst. rewrite Nat.eqb_refl in B. discriminate.
  - destruct (Nat.eqb x y) eqn:E; [apply Nat.eqb_eq in E; congruence | reflexivity].
Qed.
Lemma addn_In x y l : In y (addn x l) <-> In y l \/ y = x.
Proof.
  unfold addn. destruct (memn x l) eqn:E.
  - apply memn_In in E. split; [auto | intros [H|H]; subst; auto].
  - rewrite in_app_iff. simpl. split; intros [H|H]; auto. destruct H; [subst; auto | contradiction].
Qed.
Lemma unionn_In y m : forall l, In y (unionn l m) <-> In y l \/ In y m.
Proof.
  induction m as [|x m IH]; intros l; simpl.
  - tauto.
  - rewrite IH, addn_In. split; intros H; intuition.
Qed.
Lemma is_niln_nil {A} (l : list A) : is_niln l = true -> l = [].
Proof. destruct l; [reflexivity | discriminate]. Qed.
Lemma list_eqb_incl l m : list_eqb l m = true -> incl l m /\ incl m l.
Proof.
  unfold list_eqb. intros H. apply andb_prop in H. destruct H as [H H2].
  apply andb_prop in H. destruct H as [_ H1].
  rewrite forallb_forall in H1, H2. split; intros x Hx; apply memn_In; auto.
Qed.

Lemma nth_set_nth_eq {A} (l : list A) : forall i c c', nth_error l i = Some c -> nth_error (set_nth i c' l) i = Some c'.
Proof.
  induction l as [|y l IH]; intros [|i] c c' H; simpl in *; try discriminate; auto.
  eapply IH; eauto.
Qed.
Lemma nth_set_nth_neq {A} (l : list A) : forall i j c', i <> j -> nth_error (set_nth i c' l) j = nth_error l j.
Proof.
  induction l as [|y l IH]; intros [|i] [|j] c' H; simpl; auto; try congruence.
Qed.
Lemma Forall_set_nth {A} (P : A -> Prop) (l : list A) : forall i c', Forall P l -> P c' -> Forall P (set_nth i c' l).
Proof.
  induction l as [|y l IH]; intros [|i] c' H Hc; simpl; auto; inversion H; subst; constructor; auto.
Qed.
Lemma length_set_nth {A} (l : list A) : forall i c', length (set_nth i c' l) = length l.
Proof. induction l as [|y l IH]; intros [|i] c'; simpl; auto. Qed.

Lemma get_some s i c : get s i = Some c -> nth_error (clients s) i = Some c /\ alive c = true.
Proof.
  unfold get. destruct (nth_error (clients s) i) as [c0|]; [|discriminate].
  destruct (alive c0) eqn:A; intros H; inversion H; subst; auto.
Qed.

(* ---------- batches -------------------------------------------------------------------------------- *)
Lemma take_bid_some n q x r : take_bid n q = Some (x, r) ->
  In x q /\ bid x = n /\ (forall b, In b r -> In b q) /\ (forall b, In b q -> b = x \/ In b r).
Proof.
  revert x r. induction q as [|b q IH]; intros x r H; simpl in H; [discriminate|].
  destruct (Nat.eqb (bid b) n) eqn:E.
  - inversion H; subst. apply Nat.eqb_eq in E. repeat split; simpl; auto.
    intros b0 [H0|H0]; auto.
  - destruct (take_bid n q) as [[x0 r0]|] eqn:T; [|discriminate]. inversion H; subst.
    destruct (IH _ _ eq_refl) as (A & B & C & D). repeat split; simpl; auto.
    + intros b0 [H0|H0]; auto.
    + intros b0 [H0|H0]; auto. destruct (D _ H0); auto.
Qed.

Lemma take_bid_app n q d x r : take_bid n (q ++ d) = Some (x, r) ->
  (exists r1, take_bid n q = Some (x, r1)) \/ (take_bid n q = None /\ exists r2, take_bid n d = Some (x, r2)).
Proof.
  revert x r. induction q as [|b q IH]; intros x r H; simpl in *.
  - right. split; [reflexivity|]. eauto.
  - destruct (Nat.eqb (bid b) n) eqn:E.
    + inversion H; subst. left. eauto.
    + destruct (take_bid n (q ++ d)) as [[x0 r0]|] eqn:T; [|discriminate]. inversion H; subst.
      destruct (IH _ _ eq_refl) as [(r1 & A)|(A & r2 & B)].
      * left. rewrite A. eauto.
      * right. rewrite A. split; eauto.
Qed.

Definition same_batch (b b' : batch) : Prop :=
  bid b' = bid b /\ bpart b' = bpart b /\ btag b' = btag b /\ bitems b' = bitems b /\ bsent b' = bsent b.

Lemma mark_app_spec n q : forall b', In b' (mark_app n q) ->
  In b' q \/ (exists b0 r, take_bid n q = Some (b0, r) /\ same_batch b0 b' /\ bapp b' = true).
Proof.
  induction q as [|b q IH]; intros b' H; simpl in *; [contradiction|].
  destruct (Nat.eqb (bid b) n) eqn:E.
  - destruct H as [H|H]; [|auto]. right. exists b, q. subst b'. repeat split.
  - destruct H as [H|H]; [auto|]. destruct (IH _ H) as [A|(b0 & r & A & B & C)]; [auto|].
    right. rewrite A. exists b0, (b :: r). auto.
Qed.
Lemma mark_app_cover n q : forall b, In b q -> exists b', In b' (mark_app n q) /\ same_batch b b'.
Proof.
  induction q as [|b0 q IH]; intros b H; simpl in *; [contradiction|].
  destruct (Nat.eqb (bid b0) n) eqn:E.
  - destruct H as [H|H].
    + subst. eexists. split; [left; reflexivity|]. repeat split.
    + exists b. split; [right; exact H | repeat split].
  - destruct H as [H|H].
    + subst. exists b. split; [left; reflexivity | repeat split].
    + destruct (IH _ H) as (b' & A & B). exists b'. split; [right; exact A | exact B].
Qed.
Lemma mark_app_nil n q : mark_app n q = [] -> q = [].
Proof. destruct q; simpl; [auto|]. destruct (Nat.eqb (bid b) n); discriminate. Qed.

Lemma snoc_item_spec p n x q q' : snoc_item p n x q = Some q' ->
  (forall b', In b' q' -> In b' q \/ exists b, In b q /\ bid b' = bid b /\ bpart b' = bpart b /\ bpart b = p
                                      /\ btag b' = btag b /\ bapp b' = bapp b /\ bsent b = false
                                      /\ bsent b' = false /\ bitems b' = bitems b ++ [x]) /\
  (forall b, In b q -> exists b', In b' q' /\ bpart b' = bpart b /\ forall y, In y (bitems b) -> In y (bitems b')) /\
  (exists b', In b' q' /\ bpart b' = p /\ In x (bitems b')).
Proof.
  revert q'. induction q as [|b q IH]; intros q' H; simpl in H; [discriminate|].
  destruct (Nat.eqb (bpart b) p && negb (has_part_q p q)) eqn:E.
  - destruct (Nat.eqb (bid b) n && negb (bsent b)) eqn:E2; [|discriminate]. inversion H; subst; clear H.
    apply andb_prop in E. destruct E as [E _]. apply Nat.eqb_eq in E.
    apply andb_prop in E2. destruct E2 as [_ E2]. apply negb_true_iff in E2.
    split; [|split].
    + intros b' [H|H]; [|left; right; exact H]. right. exists b. subst b'. simpl.
      repeat split; auto.
    + intros b0 [H|H].
      * subst b0. eexists. split; [left; reflexivity|]. simpl. split; [reflexivity|].
        intros y Hy. apply in_or_app. auto.
      * exists b0. split; [right; exact H|]. split; auto.
    + eexists. split; [left; reflexivity|]. simpl. split; [exact E|]. apply in_or_app. right. left. reflexivity.
  - destruct (snoc_item p n x q) as [r|] eqn:S; [|discriminate]. inversion H; subst; clear H.
    destruct (IH _ eq_refl) as (A & B & (b1 & C1 & C2 & C3)). split; [|split].
    + intros b' [H|H]; [left; left; exact H|]. destruct (A _ H) as [H1|(b0 & H1 & H2)].
      * left; right; exact H1.
      * right. exists b0. split; [right; exact H1 | exact H2].
    + intros b0 [H|H].
      * subst. exists b0. split; [left; reflexivity|]. auto.
      * destruct (B _ H) as (b' & H1 & H2). exists b'. split; [right; exact H1 | exact H2].
    + exists b1. split; [right; exact C1|]. auto.
Qed.

(* ---------- the invariant of one instance ----------------------------------------------------------- *)
Definition bq (c : client) : list batch := queue c ++ inflight c ++ deadb c.

Record cinv (c : client) : Prop := {
  ci_idle : cst c = UNINIT \/ cst c = READY ->
            queue c = [] /\ inflight c = [] /\ deadb c = [] /\ pend_offs c = [];
  ci_tag : forall b, In b (bq c) ->
           btag b = kcur c /\ bpart b <> GROUPP /\ forall x, In x (bitems b) -> In (x, bpart b) (accepted c);
  ci_app : forall b, In b (queue c ++ inflight c) -> bapp b = true ->
           bsent b = true /\ forall x, In x (bitems b) -> In (x, bpart b) (capp c);
  ci_sent : forall b, In b (inflight c) -> bsent b = true;
  ci_capp : incl (capp c) (accepted c);
  ci_offs : forall l x, In l (pend_offs c) -> In x l -> In (x, GROUPP) (accepted c);
  ci_acc : lostb c = false -> forall x p, In (x, p) (accepted c) ->
           In (x, p) (capp c) \/
           (exists b, In b (queue c ++ inflight c) /\ bpart b = p /\ In x (bitems b)) \/
           (p = GROUPP /\ exists l, In l (pend_offs c) /\ In x l);
  ci_toc : forall x, In x (ctoc c) -> In (x, GROUPP) (capp c)
}.

Lemma cinv_fresh ep t : cinv (mkC true ep t [] [] false [] [] [] [] None 0 [] false [] false false [] false [] false).
Proof.
  constructor; simpl.
  - auto.
  - unfold bq. simpl. intros b [].
  - intros b [].
  - intros b [].
  - intros x [].
  - intros l x [].
  - intros _ x p [].
  - intros x [].
Qed.
Lemma cinv_client0 : cinv client0.
Proof. apply cinv_fresh. Qed.

Ltac inv_some :=
  repeat match goal with
         | H : Some _ = Some _ |- _ => inversion H; subst; clear H
         | H : None = Some _ |- _ => discriminate H
         | H : (if ?b then _ else _) = Some _ |- _ => let E := fresh "E" in destruct b eqn:E
         | H : match ?x with _ => _ end = Some _ |- _ => let E := fresh "E" in destruct x eqn:E
         end.

Lemma with_client_some s i f s' : with_client s i f = Some s' ->
  exists c c', get s i = Some c /\ f c = Some c' /\ s' = put s i c'.
Proof.
  unfold with_client. destruct (get s i) as [c|]; [|discriminate].
  destruct (f c) as [c'|] eqn:F; [|discriminate]. intros H. inversion H. eauto.
Qed.

Definition gcinv (s : gstate) : Prop := Forall cinv (clients s).

Lemma gcinv_put s i c' : gcinv s -> cinv c' -> gcinv (put s i c').
Proof. unfold gcinv, put. simpl. intros. apply Forall_set_nth; auto. Qed.
Lemma gcinv_get s i c : gcinv s -> nth_error (clients s) i = Some c -> cinv c.
Proof. unfold gcinv. intros F H. rewrite Forall_forall in F. apply F. eapply nth_error_In; eauto. Qed.

(* an update that touches none of the fields the invariant reads *)
Lemma cinv_only_other c c' :
  cinv c ->
  cst c' = cst c -> queue c' = queue c -> inflight c' = inflight c -> deadb c' = deadb c \/ deadb c' = [] ->
  kcur c' = kcur c -> accepted c' = accepted c -> capp c' = capp c -> pend_offs c' = pend_offs c ->
  lostb c' = lostb c -> ctoc c' = ctoc c -> cinv c'.
Proof.
  intros [A B C Cs D E F G] H1 H2 H3 H4 H5 H6 H7 H8 H9 H10.
  constructor; unfold bq; rewrite ?H1, ?H2, ?H3, ?H5, ?H6, ?H7, ?H8, ?H9, ?H10; auto.
  - intros K. destruct (A K) as (A1 & A2 & A3 & A4). destruct H4 as [H4|H4]; rewrite H4; auto.
  - intros b K. apply B. unfold bq. destruct H4 as [H4|H4]; rewrite H4 in K; [exact K|].
    rewrite app_nil_r in K. rewrite !in_app_iff in *. tauto.
Qed.

(* a change of the state alone, to a state that is neither READY nor UNINITIALIZED *)
Lemma cinv_set_cst c t : cinv c -> t <> UNINIT -> t <> READY -> cinv (set_cst c t).
Proof.
  intros [A B C Cs D E F G] N1 N2. constructor; auto.
  simpl. intros [H|H]; congruence.
Qed.

Lemma cinv_new_txn c : cinv c -> cst c = READY -> cinv (new_txn c IN_TXN).
Proof.
  intros [A B C Cs D E F G] R. destruct (A (or_intror R)) as (Q & I & Dd & Po).
  constructor; unfold bq; simpl; rewrite ?Q, ?I, ?Po; simpl.
  - intros [H|H]; discriminate.
  - intros b [].
  - intros b [].
  - intros b [].
  - intros x [].
  - intros l x [].
  - intros _ x p [].
  - intros x [].
Qed.

Lemma cinv_accept_new c x p b :
  cinv c -> cst c = IN_TXN -> p <> GROUPP ->
  cinv (set_queue (set_parts (set_accepted c (accepted c ++ [(x, p)])) (txn_parts c)
                             (if memn p (txn_parts c) || memn p (pend_parts c) then pend_parts c
                              else pend_parts c ++ [p]))
                  (queue c ++ [mkB b p (kcur c) [x] false false])).
Proof.
  intros [A B C Cs D E F G] S P.
  constructor; unfold bq; simpl.
  - rewrite S. intros [H|H]; discriminate.
  - intros b0 H. rewrite <- app_assoc in H. apply in_app_or in H. destruct H as [H|H].
    + destruct (B b0) as (B1 & B2 & B3); [unfold bq; apply in_or_app; auto|].
      repeat split; auto. intros y Hy. apply in_or_app. left. auto.
    + simpl in H. destruct H as [H|H].
      * subst b0. simpl. repeat split; auto. intros y [Hy|[]]. subst. apply in_or_app. right. left. reflexivity.
      * destruct (B b0) as (B1 & B2 & B3); [unfold bq; apply in_or_app; right; exact H|].
        repeat split; auto. intros y Hy. apply in_or_app. left. auto.
  - intros b0 H Hb. rewrite <- app_assoc in H. apply in_app_or in H. destruct H as [H|H].
    + apply (C b0); auto. apply in_or_app; auto.
    + simpl in H. destruct H as [H|H].
      * subst b0. simpl in Hb. discriminate.
      * apply (C b0); auto. apply in_or_app; auto.
  - exact Cs.
  - intros y Hy. apply in_or_app. left. auto.
  - intros l y Hl Hy. apply in_or_app. left. eauto.
  - intros L y q Hy. apply in_app_or in Hy. destruct Hy as [Hy|Hy].
    + destruct (F L _ _ Hy) as [H|[(b0 & H1 & H2 & H3)|H]]; auto.
      right. left. exists b0. split; [|auto]. rewrite <- app_assoc. apply in_app_or in H1.
      destruct H1 as [H1|H1]; apply in_or_app; auto. right. right. exact H1.
    + destruct Hy as [Hy|[]]. inversion Hy; subst. right. left. eexists. split.
      * rewrite <- app_assoc. apply in_or_app. right. left. reflexivity.
      * simpl. auto.
  - exact G.
Qed.

Lemma cinv_accept_old c x p n q :
  cinv c -> cst c = IN_TXN -> p <> GROUPP -> snoc_item p n x (queue c) = Some q ->
  cinv (set_queue (set_accepted c (accepted c ++ [(x, p)])) q).
Proof.
  intros [A B C Cs D E F G] S P SN.
  destruct (snoc_item_spec _ _ _ _ _ SN) as (S1 & S2 & (bx & S3 & S4 & S5)).
  constructor; unfold bq; simpl.
  - rewrite S. intros [H|H]; discriminate.
  - intros b0 H. apply in_app_or in H. destruct H as [H|H].
    + destruct (S1 _ H) as [H1|(b1 & H1 & Hid & Hp & Hpp & Ht & Ha & Hs & Hs' & Hi)].
      * destruct (B b0) as (B1 & B2 & B3); [unfold bq; apply in_or_app; auto|].
        repeat split; auto. intros y Hy. apply in_or_app. left. auto.
      * destruct (B b1) as (B1 & B2 & B3); [unfold bq; apply in_or_app; auto|].
        rewrite Ht, Hp. repeat split; auto. intros y Hy. rewrite Hi in Hy.
        apply in_app_or in Hy. apply in_or_app. destruct Hy as [Hy|[Hy|[]]]; [left; auto|].
        subst y. right. left. congruence.
    + destruct (B b0) as (B1 & B2 & B3); [unfold bq; apply in_or_app; right; exact H|].
      repeat split; auto. intros y Hy. apply in_or_app. left. auto.
  - intros b0 H Hb. apply in_app_or in H. destruct H as [H|H].
    + destruct (S1 _ H) as [H1|(b1 & H1 & Hid & Hp & Hpp & Ht & Ha & Hs & Hs' & Hi)].
      * apply (C b0); auto. apply in_or_app; auto.
      * (* the batch that took the record was never drained, hence never appended *)
        exfalso. destruct (C b1) as (C1 & _); [apply in_or_app; auto | congruence | congruence].
    + apply (C b0); auto. apply in_or_app; auto.
  - exact Cs.
  - intros y Hy. apply in_or_app. left. auto.
  - intros l y Hl Hy. apply in_or_app. left. eauto.
  - intros L y r Hy. apply in_app_or in Hy. destruct Hy as [Hy|Hy].
    + destruct (F L _ _ Hy) as [H|[(b0 & H1 & H2 & H3)|H]]; auto.
      right. left. apply in_app_or in H1. destruct H1 as [H1|H1].
      * destruct (S2 _ H1) as (b' & T1 & T2 & T3). exists b'. split; [apply in_or_app; auto|].
        split; [congruence | auto].
      * exists b0. split; [apply in_or_app; auto | auto].
    + destruct Hy as [Hy|[]]. inversion Hy; subst. right. left. exists bx.
      split; [apply in_or_app; auto | auto].
  - exact G.
Qed.

Lemma cinv_offsets c items :
  cinv c -> cst c = IN_TXN ->
  cinv (set_accepted (set_offs c (pend_offs c ++ [items])) (accepted c ++ pairs GROUPP items)).
Proof.
  intros [A B C Cs D E F G] S.
  constructor; unfold bq; simpl.
  - rewrite S. intros [H|H]; discriminate.
  - intros b0 H. destruct (B b0 H) as (B1 & B2 & B3). repeat split; auto.
    intros y Hy. apply in_or_app. left. auto.
  - exact C.
  - exact Cs.
  - intros y Hy. apply in_or_app. left. auto.
  - intros l y Hl Hy. apply in_app_or in Hl. apply in_or_app. destruct Hl as [Hl|[Hl|[]]].
    + left. eauto.
    + subst l. right. unfold pairs. apply in_map_iff. exists y. auto.
  - intros L y q Hy. apply in_app_or in Hy. destruct Hy as [Hy|Hy].
    + destruct (F L _ _ Hy) as [H|[H|(H1 & l & H2 & H3)]]; auto.
      right. right. split; auto. exists l. split; [apply in_or_app; auto | auto].
    + unfold pairs in Hy. apply in_map_iff in Hy. destruct Hy as (z & Hz & Hi). inversion Hz; subst.
      right. right. split; auto. exists items. split; [apply in_or_app; right; left; reflexivity | auto].
  - exact G.
Qed.

Lemma cinv_complete c :
  cinv c -> queue c = [] -> inflight c = [] -> pend_offs c = [] ->
  cinv (set_deadb (set_grp (set_parts (set_cst c READY) [] (pend_parts c)) false) []).
Proof.
  intros [A B C Cs D E F G] Q I Po.
  constructor; unfold bq; simpl; rewrite ?Q, ?I, ?Po; simpl.
  - auto.
  - intros b [].
  - intros b [].
  - intros b [].
  - exact D.
  - intros l x [].
  - intros L x p H. destruct (F L _ _ H) as [H1|[(b & H1 & _)|(_ & l & H1 & _)]]; auto.
    + rewrite Q, I in H1. destruct H1.
    + rewrite Po in H1. destruct H1.
  - exact G.
Qed.

Lemma cinv_clear c t : cinv c -> t <> UNINIT -> t <> READY -> cinv (c_clear c t).
Proof.
  intros [A B C Cs D E F G] N1 N2.
  constructor; unfold bq, c_clear; simpl; auto.
  - intros [H|H]; congruence.
  - intros l x [].
  - intros H; discriminate.
Qed.

Lemma cinv_err c t : cinv c -> t <> UNINIT -> t <> READY -> cinv (c_err c t).
Proof.
  intros [A B C Cs D E F G] N1 N2.
  constructor; unfold bq, c_err; simpl; auto.
  - intros [H|H]; congruence.
  - intros l x [].
  - intros H; discriminate.
Qed.

Lemma cinv_off_committed c x items rest :
  cinv c -> pend_offs c = items :: rest -> In x (ctoc c) ->
  cinv (set_offs c (if is_niln (remn x items) then rest else remn x items :: rest)).
Proof.
  intros [A B C Cs D E F G] P T.
  constructor; unfold bq; simpl; auto.
  - intros H. destruct (A H) as (_ & _ & _ & A4). rewrite P in A4. discriminate.
  - intros l y Hl Hy.
    destruct (is_niln (remn x items)) eqn:N.
    + apply (E l y); [rewrite P; right; exact Hl | exact Hy].
    + destruct Hl as [Hl|Hl].
      * subst l. apply remn_In in Hy. apply (E items y); [rewrite P; left; reflexivity | tauto].
      * apply (E l y); [rewrite P; right; exact Hl | exact Hy].
  - intros L y q Hy. destruct (F L _ _ Hy) as [H|[H|(H1 & l & H2 & H3)]]; auto.
    subst q. rewrite P in H2. destruct H2 as [H2|H2].
    + subst l. destruct (Nat.eq_dec y x) as [Eq|Ne].
      * subst y. left. apply G. exact T.
      * right. right. split; auto. exists (remn x items).
        assert (Hr : In y (remn x items)) by (apply remn_In; auto).
        destruct (is_niln (remn x items)) eqn:N.
        -- apply is_niln_nil in N. rewrite N in Hr. destruct Hr.
        -- split; [left; reflexivity | exact Hr].
    + right. right. split; auto. exists l. split; [|exact H3].
      destruct (is_niln (remn x items)); [exact H2 | right; exact H2].
Qed.

Lemma cinv_drain c n x q :
  cinv c -> take_bid n (queue c) = Some (x, q) ->
  cinv (set_inflight (set_queue c q) (inflight c ++ [mkB (bid x) (bpart x) (btag x) (bitems x) true (bapp x)])).
Proof.
  intros [A B C Cs D E F G] T. destruct (take_bid_some _ _ _ _ T) as (T1 & T2 & T3 & T4).
  set (x' := mkB (bid x) (bpart x) (btag x) (bitems x) true (bapp x)).
  constructor; unfold bq; simpl; auto.
  - intros H. destruct (A H) as (A1 & _). rewrite A1 in T1. destruct T1.
  - intros b0 H. rewrite !in_app_iff in H. simpl in H.
    assert (K : In b0 (bq c) \/ b0 = x').
    { unfold bq. rewrite !in_app_iff. destruct H as [H|[[H|[H|[]]]|H]]; auto. }
    destruct K as [K|K]; [apply B; exact K|]. subst b0. simpl.
    apply (B x). unfold bq. apply in_or_app. auto.
  - intros b0 H Hb. rewrite !in_app_iff in H. simpl in H. destruct H as [H|[H|[H|[]]]].
    + apply C; auto. apply in_or_app. auto.
    + apply C; auto. apply in_or_app. auto.
    + subst b0. simpl in *. split; [reflexivity|]. apply (C x); auto. apply in_or_app. auto.
  - intros b0 H. apply in_app_or in H. destruct H as [H|[H|[]]]; [auto | subst b0; reflexivity].
  - intros L y p Hy. destruct (F L _ _ Hy) as [H|[(b0 & H1 & H2 & H3)|H]]; auto.
    right. left. apply in_app_or in H1. destruct H1 as [H1|H1].
    + destruct (T4 _ H1) as [K|K].
      * subst b0. exists x'. split; [|auto]. rewrite !in_app_iff. simpl. auto.
      * exists b0. split; [|auto]. rewrite !in_app_iff. auto.
    + exists b0. split; [|auto]. rewrite !in_app_iff. auto.
Qed.

Lemma cinv_ok c n x f :
  cinv c -> take_bid n (inflight c) = Some (x, f) -> bapp x = true -> cinv (set_inflight c f).
Proof.
  intros [A B C Cs D E F G] T Ha. destruct (take_bid_some _ _ _ _ T) as (T1 & T2 & T3 & T4).
  constructor; unfold bq; simpl; auto.
  - intros H. destruct (A H) as (_ & A2 & _). rewrite A2 in T1. destruct T1.
  - intros b0 H. apply B. unfold bq. rewrite !in_app_iff in *. destruct H as [H|[H|H]]; auto.
  - intros b0 H. apply C. rewrite !in_app_iff in *. destruct H as [H|H]; auto.
  - intros L y p Hy. destruct (F L _ _ Hy) as [H|[(b0 & H1 & H2 & H3)|H]]; auto.
    apply in_app_or in H1. destruct H1 as [H1|H1].
    + right. left. exists b0. split; [apply in_or_app; auto | auto].
    + destruct (T4 _ H1) as [K|K].
      * subst b0. left. subst p. apply (C x); auto. apply in_or_app. auto.
      * right. left. exists b0. split; [apply in_or_app; auto | auto].
Qed.

Lemma cinv_retry c n x f :
  cinv c -> take_bid n (inflight c) = Some (x, f) -> cinv (set_queue (set_inflight c f) (x :: queue c)).
Proof.
  intros [A B C Cs D E F G] T. destruct (take_bid_some _ _ _ _ T) as (T1 & T2 & T3 & T4).
  constructor; unfold bq; simpl; auto.
  - intros H. destruct (A H) as (_ & A2 & _). rewrite A2 in T1. destruct T1.
  - intros b0 H. apply B. unfold bq. rewrite !in_app_iff in *. destruct H as [H|[H|[H|H]]]; auto.
    subst b0. auto.
  - intros b0 H. apply C. rewrite !in_app_iff in *. destruct H as [H|[H|H]]; auto. subst; auto.
  - intros L y p Hy. destruct (F L _ _ Hy) as [H|[(b0 & H1 & H2 & H3)|H]]; auto.
    right. left. exists b0. split; [|auto]. apply in_app_or in H1. destruct H1 as [H1|H1].
    + right. apply in_or_app. auto.
    + destruct (T4 _ H1) as [K|K]; [left; auto | right; apply in_or_app; auto].
Qed.

Lemma cinv_fail_inflight c n x f :
  cinv c -> take_bid n (inflight c) = Some (x, f) ->
  cinv (set_lostb (set_deadb (set_inflight c f) (deadb c ++ [x])) true).
Proof.
  intros [A B C Cs D E F G] T. destruct (take_bid_some _ _ _ _ T) as (T1 & T2 & T3 & T4).
  constructor; unfold bq; simpl; auto.
  - intros H. destruct (A H) as (_ & A2 & _). rewrite A2 in T1. destruct T1.
  - intros b0 H. apply B. unfold bq. rewrite !in_app_iff in *. simpl in H.
    destruct H as [H|[H|[H|[H|[]]]]]; auto. subst; auto.
  - intros b0 H. apply C. rewrite !in_app_iff in *. destruct H as [H|H]; auto.
  - intros H; discriminate.
Qed.

Lemma cinv_fail_queue c n x q :
  cinv c -> take_bid n (queue c) = Some (x, q) -> cinv (set_lostb (set_queue c q) true).
Proof.
  intros [A B C Cs D E F G] T. destruct (take_bid_some _ _ _ _ T) as (T1 & T2 & T3 & T4).
  constructor; unfold bq; simpl; auto.
  - intros H. destruct (A H) as (A1 & _). rewrite A1 in T1. destruct T1.
  - intros b0 H. apply B. unfold bq. rewrite !in_app_iff in *. destruct H as [H|[H|H]]; auto.
  - intros b0 H. apply C. rewrite !in_app_iff in *. destruct H as [H|H]; auto.
  - intros H; discriminate.
Qed.

Lemma cinv_toc c items hd rest sl :
  cinv c -> pend_offs c = hd :: rest -> list_eqb items hd = true ->
  cinv (set_ctoc (set_capp (set_slot c sl) (capp c ++ pairs GROUPP items)) items).
Proof.
  intros [A B C Cs D E F G] P L. destruct (list_eqb_incl _ _ L) as (L1 & L2).
  constructor; unfold bq; simpl; auto.
  - intros b0 H Hb. destruct (C b0 H Hb) as (C1 & C2). split; auto.
    intros y Hy. apply in_or_app. left. auto.
  - intros y Hy. apply in_app_or in Hy. destruct Hy as [Hy|Hy]; [auto|].
    unfold pairs in Hy. apply in_map_iff in Hy. destruct Hy as (z & Hz & Hi). subst y.
    apply (E hd z); [rewrite P; left; reflexivity | auto].
  - intros Lb y p Hy. destruct (F Lb _ _ Hy) as [H|[H|H]]; auto. left. apply in_or_app. auto.
  - intros y Hy. apply in_or_app. right. unfold pairs. apply in_map_iff. exists y. auto.
Qed.

Lemma cinv_produce c n x r :
  cinv c -> take_bid n (inflight c ++ (match cst c with FATAL => deadb c | _ => [] end)) = Some (x, r) ->
  cinv (set_capp (set_inflight c (mark_app n (inflight c))) (capp c ++ pairs (bpart x) (bitems x))).
Proof.
  intros [A B C Cs D E F G] T.
  assert (Xin : In x (bq c)).
  { destruct (take_bid_some _ _ _ _ T) as (T1 & _). unfold bq. rewrite !in_app_iff in *.
    destruct T1 as [T1|T1]; auto. destruct (cst c); simpl in T1; try contradiction; auto. }
  constructor; unfold bq; simpl; auto.
  - intros H. destruct (A H) as (A1 & A2 & A3 & A4). rewrite A2. simpl. auto.
  - intros b0 H. rewrite !in_app_iff in H. destruct H as [H|[H|H]].
    + destruct (B b0) as (B1 & B2 & B3); [unfold bq; rewrite !in_app_iff; auto|]. auto.
    + destruct (mark_app_spec _ _ _ H) as [K|(b1 & r1 & K1 & (K2 & K3 & K4 & K5 & K6) & K7)].
      * destruct (B b0) as (B1 & B2 & B3); [unfold bq; rewrite !in_app_iff; auto|]. auto.
      * destruct (take_bid_some _ _ _ _ K1) as (K8 & _).
        destruct (B b1) as (B1 & B2 & B3); [unfold bq; rewrite !in_app_iff; auto|].
        rewrite K3, K4, K5. auto.
    + destruct (B b0) as (B1 & B2 & B3); [unfold bq; rewrite !in_app_iff; auto|]. auto.
  - intros b0 H Hb. apply in_app_or in H. destruct H as [H|H].
    + destruct (C b0) as (C1 & C2); [apply in_or_app; auto | auto |]. split; auto.
      intros y Hy. apply in_or_app. left. auto.
    + destruct (mark_app_spec _ _ _ H) as [K|(b1 & r1 & K1 & (K2 & K3 & K4 & K5 & K6) & K7)].
      * destruct (C b0) as (C1 & C2); [apply in_or_app; auto | auto |]. split; auto.
        intros y Hy. apply in_or_app. left. auto.
      * destruct (take_bid_some _ _ _ _ K1) as (K8 & _).
        destruct (take_bid_app _ _ _ _ _ T) as [(r2 & T1)|(T1 & _)]; [|congruence].
        rewrite K1 in T1. inversion T1; subst b1.
        split; [rewrite K6; auto|]. intros y Hy. apply in_or_app. right.
        unfold pairs. apply in_map_iff. exists y. rewrite K3. split; [reflexivity|]. rewrite <- K5. exact Hy.
  - intros b0 H. destruct (mark_app_spec _ _ _ H) as [K|(b1 & r1 & K1 & (K2 & K3 & K4 & K5 & K6) & K7)]; auto.
    destruct (take_bid_some _ _ _ _ K1) as (K8 & _). rewrite K6. auto.
  - intros y Hy. apply in_app_or in Hy. destruct Hy as [Hy|Hy]; [auto|].
    unfold pairs in Hy. apply in_map_iff in Hy. destruct Hy as (z & Hz & Hi). subst y.
    destruct (B x Xin) as (_ & _ & B3). auto.
  - intros L y p Hy. destruct (F L _ _ Hy) as [H|[(b0 & H1 & H2 & H3)|H]]; auto.
    + left. apply in_or_app. auto.
    + right. left. apply in_app_or in H1. destruct H1 as [H1|H1].
      * exists b0. split; [apply in_or_app; auto | auto].
      * destruct (mark_app_cover n _ _ H1) as (b' & M1 & (M2 & M3 & M4 & M5 & M6)).
        exists b'. split; [apply in_or_app; auto|]. split; [congruence | rewrite M5; auto].
  - intros y Hy. apply in_or_app. left. auto.
Qed.

(* ---------- every step preserves the invariant of every instance --------------------------------- *)
Lemma gcinv_put_env s e : gcinv s -> gcinv (put_env s e).
Proof. exact (fun H => H). Qed.

Ltac wc H c c' Hg Hf :=
  apply with_client_some in H; destruct H as (c & c' & Hg & Hf & ->).

Ltac use_client G Hg Hn Ha Ci :=
  destruct (get_some _ _ _ Hg) as (Hn & Ha); pose proof (gcinv_get _ _ _ G Hn) as Ci.

Lemma step_gcinv s e s' : step s e = Some s' -> gcinv s -> gcinv s'.
Proof.
  intros H G. destruct e; unfold step in H; cbv beta iota zeta in H.
  - (* EFence *) destruct (est (genv s)); inv_some. exact G.
  - (* EMarkers *) destruct (est (genv s)); inv_some. exact G.
  - (* EInitOk *) destruct (est (genv s)); inv_some; exact G.
  - (* AStart *)
    destruct (get s i) as [c|] eqn:Hg; [|discriminate].
    destruct (cst c) eqn:E0; try discriminate. destruct (trans UNINIT READY); [|discriminate].
    destruct (memn ep (eissued (genv s))); [|discriminate]. inv_some.
    use_client G Hg Hn Ha Ci.
    unfold gcinv. simpl. apply Forall_set_nth; [exact G|].
    destruct Ci as [A B C Cs D E F Gt]. destruct (A (or_introl E0)) as (A1 & A2 & A3 & A4).
    constructor; unfold bq; simpl; auto.
  - (* ABegin *)
    wc H c c' Hg Hf. use_client G Hg Hn Ha Ci.
    destruct (slot c); [discriminate|].
    destruct (trans (cst c) IN_TXN) eqn:T; [|discriminate]. inv_some.
    pose proof (trans_target _ _ _ T). subst t. apply trans_in_txn in T.
    apply gcinv_put; auto. apply cinv_new_txn; auto.
  - (* AAccept *)
    wc H c c' Hg Hf. use_client G Hg Hn Ha Ci.
    destruct (cst c) eqn:S; try discriminate.
    destruct (Nat.eqb p GROUPP) eqn:P; [discriminate|]. apply Nat.eqb_neq in P.
    destruct newb.
    + destruct (has_part_q p (queue c) || has_bid b (queue c ++ inflight c ++ deadb c)); [discriminate|].
      inv_some. apply gcinv_put; auto. apply cinv_accept_new; auto.
    + destruct (snoc_item p b x (queue c)) eqn:SN; [|discriminate]. inv_some.
      apply gcinv_put; auto. eapply cinv_accept_old; eauto.
  - (* AOffsets *)
    wc H c c' Hg Hf. use_client G Hg Hn Ha Ci.
    destruct (cst c) eqn:S; try discriminate. inv_some.
    apply gcinv_put; auto. apply cinv_offsets; auto.
  - (* ACommitting *)
    wc H c c' Hg Hf. use_client G Hg Hn Ha Ci.
    destruct (trans (cst c) COMMITTING) eqn:T.
    + pose proof (trans_target _ _ _ T). subst t.
      destruct (cst c); inv_some; apply gcinv_put; auto; apply cinv_set_cst; auto; discriminate.
    + destruct (cst c); discriminate.
  - (* AAborting *)
    wc H c c' Hg Hf. use_client G Hg Hn Ha Ci.
    destruct (trans (cst c) ABORTING) eqn:T; [|discriminate]. inv_some.
    pose proof (trans_target _ _ _ T). subst t.
    apply gcinv_put; auto; apply cinv_set_cst; auto; discriminate.
  - (* AComplete *)
    destruct (get s i) as [c|] eqn:Hg; [|discriminate]. use_client G Hg Hn Ha Ci.
    destruct (is_niln (pend_parts c) && is_niln (pend_offs c) && is_niln (queue c) && is_niln (inflight c)
              && (slot_is c KEnd SApplied || slot_is c KEnd SPicked && is_empty_c c)) eqn:Gd; [|discriminate].
    apply andb_prop in Gd. destruct Gd as [Gd Ge]. apply andb_prop in Gd. destruct Gd as [Gd Gd0].
    apply andb_prop in Gd. destruct Gd as [Gd Gd1]. apply andb_prop in Gd. destruct Gd as [Gd3 Gd2].
    apply is_niln_nil in Gd2. apply is_niln_nil in Gd1. apply is_niln_nil in Gd0.
    assert (K : exists t, trans (cst c) READY = Some t /\
                          s' = mkG (set_nth i (set_deadb (set_grp (set_parts (set_cst c t) [] (pend_parts c)) false) [])
                                            (clients s)) (genv s)
                                   (ended s ++ [(tagof i c, match cst c with COMMITTING => OCommitted | _ => OAborted end,
                                                 accepted c)])).
    { destruct (cst c); try discriminate; destruct (trans _ READY) eqn:T; try discriminate;
        inversion H; eexists; split; reflexivity. }
    destruct K as (t & T & ->). pose proof (trans_target _ _ _ T). subst t.
    unfold gcinv. simpl. apply Forall_set_nth; [exact G|]. apply cinv_complete; auto.
  - (* AError *)
    wc H c c' Hg Hf. use_client G Hg Hn Ha Ci.
    assert (K : exists t, trans (cst c) ABORTABLE = Some t /\ c' = c_err c t).
    { destruct (slot c) as [[[] ?]|]; try discriminate; destruct (cst c); try discriminate;
        destruct (forallb _ (queue c)); try discriminate;
        match type of Hf with match ?t with _ => _ end = _ => destruct t eqn:T end; try discriminate;
        inversion Hf; eauto. }
    destruct K as (t & T & ->). pose proof (trans_target _ _ _ T). subst t.
    apply gcinv_put; auto. apply cinv_err; auto; discriminate.
  - (* AFatal *)
    wc H c c' Hg Hf. use_client G Hg Hn Ha Ci.
    destruct ((tcode (cst c) =? 1)%Z) eqn:Eu; [discriminate|].
    destruct (trans (cst c) FATAL) eqn:T; [|discriminate]. inv_some.
    pose proof (trans_target _ _ _ T). subst t.
    apply gcinv_put; auto. apply cinv_clear; auto; discriminate.
  - (* AKill *)
    destruct (nth_error (clients s) i) as [c|] eqn:Hn; [|discriminate]. inv_some.
    apply gcinv_put; auto. eapply cinv_only_other; [eapply gcinv_get; eauto | try reflexivity; auto ..].
  - (* TPick *)
    wc H c c' Hg Hf. use_client G Hg Hn Ha Ci.
    destruct (slot c); [discriminate|].
    destruct k as [k1|]; destruct (next_kind c) as [k2|]; try discriminate.
    + destruct (skind_eqb k1 k2); [|discriminate]. inv_some.
      apply gcinv_put; auto. eapply cinv_only_other; [exact Ci | try reflexivity; auto ..].
    + inv_some. apply gcinv_put; auto.
  - (* TDone *)
    wc H c c' Hg Hf. use_client G Hg Hn Ha Ci.
    destruct (slot c); [|discriminate]. inv_some.
    apply gcinv_put; auto. eapply cinv_only_other; [exact Ci | try reflexivity; auto ..].
  - (* CPartAdded *)
    wc H c c' Hg Hf. use_client G Hg Hn Ha Ci.
    destruct (slot_is c KParts SApplied && memn p (pend_parts c)); [|discriminate]. inv_some.
    apply gcinv_put; auto. eapply cinv_only_other; [exact Ci | try reflexivity; auto ..].
  - (* CGroupAdded *)
    wc H c c' Hg Hf. use_client G Hg Hn Ha Ci.
    destruct (slot_is c KOffs SApplied); [|discriminate]. inv_some.
    apply gcinv_put; auto. eapply cinv_only_other; [exact Ci | try reflexivity; auto ..].
  - (* COffCommitted *)
    wc H c c' Hg Hf. use_client G Hg Hn Ha Ci.
    destruct (slot_is c KToc SApplied && memn x (ctoc c)) eqn:Gd; [|discriminate].
    apply andb_prop in Gd. destruct Gd as [_ Gd]. apply memn_In in Gd.
    destruct (pend_offs c) as [|items rest] eqn:P; [discriminate|].
    destruct (memn x items); [|discriminate]. inv_some.
    apply gcinv_put; auto. eapply cinv_off_committed; eauto.
  - (* SDrain *)
    wc H c c' Hg Hf. use_client G Hg Hn Ha Ci.
    destruct (take_bid b (queue c)) as [[x q]|] eqn:T; [|discriminate].
    destruct (head_of (bpart x) (queue c)); [|discriminate].
    match type of Hf with (if ?g then _ else _) = _ => destruct g; [|discriminate] end. inv_some.
    apply gcinv_put; auto. eapply cinv_drain; eauto.
  - (* SOk *)
    wc H c c' Hg Hf. use_client G Hg Hn Ha Ci.
    destruct (take_bid b (inflight c)) as [[x f]|] eqn:T.
    + destruct (bapp x) eqn:Ba; [|discriminate]. inv_some.
      apply gcinv_put; auto. eapply cinv_ok; eauto.
    + destruct (cst c); try discriminate. destruct (has_bid b (deadb c)); [|discriminate]. inv_some.
      apply gcinv_put; auto.
  - (* SRetry *)
    wc H c c' Hg Hf. use_client G Hg Hn Ha Ci.
    destruct (take_bid b (inflight c)) as [[x f]|] eqn:T.
    + inv_some. apply gcinv_put; auto. eapply cinv_retry; eauto.
    + destruct (cst c); try discriminate. destruct (has_bid b (deadb c)); [|discriminate]. inv_some.
      apply gcinv_put; auto.
  - (* SFail *)
    wc H c c' Hg Hf. use_client G Hg Hn Ha Ci.
    destruct (take_bid b (inflight c)) as [[x f]|] eqn:T.
    + inv_some. apply gcinv_put; auto. eapply cinv_fail_inflight; eauto.
    + destruct (take_bid b (queue c)) as [[x q]|] eqn:T2.
      * inv_some. apply gcinv_put; auto. eapply cinv_fail_queue; eauto.
      * destruct (cst c); try discriminate. destruct (has_bid b (deadb c)); [|discriminate]. inv_some.
        apply gcinv_put; auto.
  - (* RAddParts *)
    destruct (get s i) as [c|] eqn:Hg; [|discriminate]. use_client G Hg Hn Ha Ci.
    destruct (slot_is c KParts SPicked && list_eqb ps (firstn (length ps) (pend_parts c)) && negb (is_niln ps)); [|discriminate].
    destruct v.
    + destruct (Nat.eqb (cep c) (eep (genv s)) && not_prep (genv s)); [|discriminate]. inv_some.
      apply gcinv_put_env. apply gcinv_put; auto. eapply cinv_only_other; [exact Ci | try reflexivity; auto ..].
    + inv_some. apply gcinv_put; auto. eapply cinv_only_other; [exact Ci | try reflexivity; auto ..].
  - (* RAddOffs *)
    destruct (get s i) as [c|] eqn:Hg; [|discriminate]. use_client G Hg Hn Ha Ci.
    destruct (slot_is c KOffs SPicked); [|discriminate].
    destruct v.
    + destruct (Nat.eqb (cep c) (eep (genv s)) && not_prep (genv s)); [|discriminate]. inv_some.
      apply gcinv_put_env. apply gcinv_put; auto. eapply cinv_only_other; [exact Ci | try reflexivity; auto ..].
    + inv_some. apply gcinv_put; auto. eapply cinv_only_other; [exact Ci | try reflexivity; auto ..].
  - (* RToc *)
    destruct (get s i) as [c|] eqn:Hg; [|discriminate]. use_client G Hg Hn Ha Ci.
    destruct (pend_offs c) as [|hd rest] eqn:P; [discriminate|].
    destruct (slot_is c KToc SPicked && list_eqb items hd) eqn:Gd; [|discriminate].
    apply andb_prop in Gd. destruct Gd as [_ Gd].
    destruct v.
    + destruct (Nat.eqb (cep c) (eep (genv s))); [|discriminate]. inv_some.
      apply gcinv_put_env. apply gcinv_put; auto. eapply cinv_toc; eauto.
    + inv_some. apply gcinv_put; auto. eapply cinv_only_other; [exact Ci | try reflexivity; auto ..].
  - (* REndTxn *)
    destruct (get s i) as [c|] eqn:Hg; [|discriminate]. use_client G Hg Hn Ha Ci.
    match type of H with (if ?g then _ else _) = _ => destruct g; [|discriminate] end.
    destruct v.
    + destruct (Nat.eqb (cep c) (eep (genv s))); [|discriminate].
      destruct (est (genv s)); try discriminate.
      * inv_some. apply gcinv_put_env. apply gcinv_put; auto.
        eapply cinv_only_other; [exact Ci | try reflexivity; auto ..].
      * destruct (Bool.eqb commit0 commit); [|discriminate]. inv_some. apply gcinv_put; auto.
        eapply cinv_only_other; [exact Ci | try reflexivity; auto ..].
    + inv_some. apply gcinv_put; auto. eapply cinv_only_other; [exact Ci | try reflexivity; auto ..].
  - (* RProduce *)
    destruct (nth_error (clients s) i) as [c|] eqn:Hn; [|discriminate].
    pose proof (gcinv_get _ _ _ G Hn) as Ci.
    destruct (take_bid b (inflight c ++ match cst c with FATAL => deadb c | _ => [] end)) as [[x r]|] eqn:T;
      [|discriminate].
    destruct v.
    + destruct (Nat.eqb (cep c) (eep (genv s))); [|discriminate]. inv_some.
      apply gcinv_put_env. apply gcinv_put; auto. eapply cinv_produce; eauto.
    + inv_some. exact G.
Qed.

Lemma gcinv_g0 n : gcinv (g0 n).
Proof. unfold gcinv, g0. simpl. apply Forall_forall. intros c H. apply repeat_spec in H. subst. apply cinv_client0. Qed.

Lemma run_gcinv : forall tr s s', run s tr = Some s' -> gcinv s -> gcinv s'.
Proof.
  induction tr as [|e tr IH]; intros s s' H G; simpl in H.
  - inversion H; subst; exact G.
  - destruct (step s e) as [s1|] eqn:S; [|discriminate]. eapply IH; eauto. eapply step_gcinv; eauto.
Qed.

(* ---------- consequences: what is written, and when EndTxn leaves ---------------------------------- *)
(* a batch that the leader appends belongs to the application transaction that is open in its
   producer: same transaction index, state neither READY nor UNINITIALIZED, records accepted in it *)
Lemma produce_in_txn s i b s' :
  gcinv s -> step s (RProduce i b VApplied) = Some s' ->
  exists c x, nth_error (clients s) i = Some c /\ bid x = b /\ In x (bq c) /\
              btag x = kcur c /\ cst c <> READY /\ cst c <> UNINIT /\
              (forall y, In y (bitems x) -> In (y, bpart x) (accepted c)) /\
              glog (genv s') = glog (genv s) ++ [(bpart x, Data (cep c) (i, kcur c) (bitems x))].
Proof.
  intros G H. unfold step in H.
  destruct (nth_error (clients s) i) as [c|] eqn:Hn; [|discriminate].
  destruct (take_bid b (inflight c ++ match cst c with FATAL => deadb c | _ => [] end)) as [[x r]|] eqn:T;
    [|discriminate].
  destruct (Nat.eqb (cep c) (eep (genv s))); [|discriminate]. inversion H; subst; clear H.
  pose proof (gcinv_get _ _ _ G Hn) as Ci.
  destruct (take_bid_some _ _ _ _ T) as (T1 & T2 & _).
  assert (Xin : In x (bq c)).
  { unfold bq. rewrite !in_app_iff in *. destruct T1 as [T1|T1]; auto.
    destruct (cst c); simpl in T1; try contradiction; auto. }
  destruct (ci_tag _ Ci x Xin) as (B1 & B2 & B3).
  exists c, x. repeat split; auto.
  - intros R. destruct (ci_idle _ Ci (or_intror R)) as (A1 & A2 & A3 & _).
    unfold bq in Xin. rewrite A1, A2, A3 in Xin. destruct Xin.
  - intros R. destruct (ci_idle _ Ci (or_introl R)) as (A1 & A2 & A3 & _).
    unfold bq in Xin. rewrite A1, A2, A3 in Xin. destruct Xin.
  - simpl. rewrite B1. reflexivity.
Qed.

(* EndTxn leaves only when nothing is queued, in flight or pending; and unless a batch failed,
   everything the transaction accepted has been appended by then *)
Lemma endtxn_after_acks s i commit v s' :
  gcinv s -> step s (REndTxn i commit v) = Some s' ->
  exists c, get s i = Some c /\ queue c = [] /\ inflight c = [] /\ pend_parts c = [] /\ pend_offs c = [] /\
            (lostb c = false -> incl (accepted c) (capp c)).
Proof.
  intros G H. unfold step in H.
  destruct (get s i) as [c|] eqn:Hg; [|discriminate]. destruct (get_some _ _ _ Hg) as (Hn & _).
  match type of H with (if ?g then _ else _) = _ => destruct g eqn:Gd; [|discriminate] end.
  apply andb_prop in Gd. destruct Gd as [Gd _].
  apply andb_prop in Gd. destruct Gd as [Gd _]. apply andb_prop in Gd. destruct Gd as [Gd Gpo].
  apply andb_prop in Gd. destruct Gd as [Gd Gpp]. apply andb_prop in Gd. destruct Gd as [Gd Gi].
  apply andb_prop in Gd. destruct Gd as [_ Gq].
  apply is_niln_nil in Gpo. apply is_niln_nil in Gi. apply is_niln_nil in Gq. apply is_niln_nil in Gpp.
  exists c. repeat split; auto.
  intros L [x p] A. pose proof (gcinv_get _ _ _ G Hn) as Ci.
  destruct (ci_acc _ Ci L _ _ A) as [K|[(b & K1 & _)|(_ & l & K1 & _)]]; auto.
  - rewrite Gq, Gi in K1. destruct K1.
  - rewrite Gpo in K1. destruct K1.
Qed.

(* ---------- partitions: muting and registration -------------------------------------------------------- *)
(* unless fatal_error has cleared the sets: every queued batch is for a partition that is registered
   (_txn_partitions) or waiting to be (_pending_txn_partitions), and every batch that was handed to
   the sender is for a registered partition *)
Definition pinv (c : client) : Prop :=
  cerr c = false ->
  (forall b, In b (queue c) -> In (bpart b) (txn_parts c) \/ In (bpart b) (pend_parts c)) /\
  (forall b, In b (inflight c ++ deadb c) -> In (bpart b) (txn_parts c)).

Definition gpinv (s : gstate) : Prop := Forall pinv (clients s).
Lemma gpinv_get s i c : gpinv s -> nth_error (clients s) i = Some c -> pinv c.
Proof. unfold gpinv. intros F H. rewrite Forall_forall in F. apply F. eapply nth_error_In; eauto. Qed.
Lemma gpinv_put s i c' : gpinv s -> pinv c' -> gpinv (put s i c').
Proof. unfold gpinv, put. simpl. intros. apply Forall_set_nth; auto. Qed.

Lemma pinv_same c c' : pinv c -> cerr c' = cerr c -> queue c' = queue c -> inflight c' = inflight c ->
  deadb c' = deadb c \/ deadb c' = [] ->
  txn_parts c' = txn_parts c -> pend_parts c' = pend_parts c -> pinv c'.
Proof.
  unfold pinv. intros P A B C D E F. rewrite A, B, C, E, F. intros K. destruct (P K) as (P1 & P2).
  split; [exact P1|]. intros b Hb. apply P2. destruct D as [D|D]; rewrite D in Hb; [exact Hb|].
  rewrite app_nil_r in Hb. apply in_or_app. auto.
Qed.

Lemma head_of_in p q h : head_of p q = Some h -> In h q /\ bpart h = p.
Proof.
  induction q as [|b q IH]; simpl; [discriminate|]. destruct (Nat.eqb (bpart b) p) eqn:E.
  - intros H. inversion H; subst. apply Nat.eqb_eq in E. auto.
  - intros H. destruct (IH H). auto.
Qed.

Ltac psame G Hn := eapply pinv_same; [eapply gpinv_get; eauto | try reflexivity; auto ..].

Lemma step_gpinv s e s' : step s e = Some s' -> gcinv s -> gpinv s -> gpinv s'.
Proof.
  intros H GC G. destruct e; unfold step in H; cbv beta iota zeta in H.
  - destruct (est (genv s)); inv_some. exact G.
  - destruct (est (genv s)); inv_some. exact G.
  - destruct (est (genv s)); inv_some; exact G.
  - (* AStart *)
    destruct (get s i) as [c|] eqn:Hg; [|discriminate]. destruct (get_some _ _ _ Hg) as (Hn & _).
    destruct (cst c) eqn:E0; try discriminate. destruct (trans UNINIT READY); [|discriminate].
    destruct (memn ep (eissued (genv s))); [|discriminate]. inv_some.
    unfold gpinv. simpl. apply Forall_set_nth; [exact G|]. psame G Hn.
  - (* ABegin *)
    wc H c c' Hg Hf. destruct (get_some _ _ _ Hg) as (Hn & _).
    destruct (slot c); [discriminate|]. destruct (trans (cst c) IN_TXN) eqn:T; [|discriminate]. inv_some.
    apply trans_in_txn in T. destruct (ci_idle _ (gcinv_get _ _ _ GC Hn) (or_intror T)) as (Q & I & _).
    apply gpinv_put; auto. unfold pinv. simpl. rewrite Q, I. intros _. split; intros b [].
  - (* AAccept *)
    wc H c c' Hg Hf. destruct (get_some _ _ _ Hg) as (Hn & _). pose proof (gpinv_get _ _ _ G Hn) as P.
    destruct (cst c) eqn:S; try discriminate. destruct (Nat.eqb p GROUPP); [discriminate|].
    destruct newb.
    + destruct (has_part_q p (queue c) || has_bid b (queue c ++ inflight c ++ deadb c)); [discriminate|].
      inv_some. apply gpinv_put; auto. unfold pinv. simpl. intros E. destruct (P E) as (P1 & P2).
      split; [|exact P2]. intros b0 Hb.
      assert (K : forall q, In q (txn_parts c) \/ In q (pend_parts c) ->
                  In q (txn_parts c) \/ In q (if memn p (txn_parts c) || memn p (pend_parts c)
                                             then pend_parts c else pend_parts c ++ [p])).
      { intros q [K|K]; auto. right. destruct (memn p (txn_parts c) || memn p (pend_parts c)); auto.
        apply in_or_app. auto. }
      apply in_app_or in Hb. destruct Hb as [Hb|[Hb|[]]]; [apply K; auto|].
      subst b0. simpl. destruct (memn p (txn_parts c)) eqn:M1; simpl.
      * left. apply memn_In. exact M1.
      * right. destruct (memn p (pend_parts c)) eqn:M2; [apply memn_In; exact M2|].
        apply in_or_app. right. left. reflexivity.
    + destruct (snoc_item p b x (queue c)) eqn:SN; [|discriminate]. inv_some.
      apply gpinv_put; auto. unfold pinv. simpl. intros E. destruct (P E) as (P1 & P2).
      split; [|exact P2]. intros b0 Hb.
      destruct (snoc_item_spec _ _ _ _ _ SN) as (S1 & _).
      destruct (S1 _ Hb) as [K|(b1 & K1 & _ & K2 & _)]; [auto|]. rewrite K2. auto.
  - (* AOffsets *)
    wc H c c' Hg Hf. destruct (get_some _ _ _ Hg) as (Hn & _).
    destruct (cst c); try discriminate. inv_some. apply gpinv_put; auto. psame G Hn.
  - (* ACommitting *)
    wc H c c' Hg Hf. destruct (get_some _ _ _ Hg) as (Hn & _).
    destruct (trans (cst c) COMMITTING) eqn:T.
    + destruct (cst c); inv_some; apply gpinv_put; auto; psame G Hn.
    + destruct (cst c); discriminate.
  - (* AAborting *)
    wc H c c' Hg Hf. destruct (get_some _ _ _ Hg) as (Hn & _).
    destruct (trans (cst c) ABORTING); [|discriminate]. inv_some. apply gpinv_put; auto. psame G Hn.
  - (* AComplete *)
    destruct (get s i) as [c|] eqn:Hg; [|discriminate]. destruct (get_some _ _ _ Hg) as (Hn & _).
    match type of H with (if ?g then _ else _) = _ => destruct g eqn:Gd; [|discriminate] end.
    apply andb_prop in Gd. destruct Gd as [Gd _]. apply andb_prop in Gd. destruct Gd as [Gd Gi].
    apply andb_prop in Gd. destruct Gd as [_ Gq]. apply is_niln_nil in Gi. apply is_niln_nil in Gq.
    assert (K : exists t, clients s' = set_nth i (set_deadb (set_grp (set_parts (set_cst c t) [] (pend_parts c)) false) [])
                                               (clients s)).
    { destruct (cst c); try discriminate; destruct (trans _ READY) eqn:T; try discriminate;
        inversion H; eexists; reflexivity. }
    destruct K as (t & K). unfold gpinv. rewrite K. apply Forall_set_nth; [exact G|].
    unfold pinv. simpl. rewrite Gq, Gi. intros _. split; intros b [].
  - (* AError *)
    wc H c c' Hg Hf. destruct (get_some _ _ _ Hg) as (Hn & _). pose proof (gpinv_get _ _ _ G Hn) as P.
    assert (K : exists t, c' = c_err c t /\
                forallb (fun b => negb (memn (bpart b) (pend_parts c))) (queue c) = true).
    { destruct (slot c) as [[[] ?]|]; try discriminate; destruct (cst c); try discriminate;
        destruct (forallb _ (queue c)) eqn:Fq; try discriminate;
        match type of Hf with match ?t with _ => _ end = _ => destruct t eqn:T end; try discriminate;
        inversion Hf; eauto. }
    destruct K as (t & -> & Fq). apply gpinv_put; auto. unfold pinv, c_err. simpl.
    intros E. destruct (P E) as (P1 & P2). split; [|exact P2].
    intros b Hb. left. destruct (P1 b Hb) as [K|K]; [exact K|].
    rewrite forallb_forall in Fq. specialize (Fq b Hb). apply memn_In in K. rewrite K in Fq. discriminate.
  - (* AFatal *)
    wc H c c' Hg Hf. destruct ((tcode (cst c) =? 1)%Z); [discriminate|].
    destruct (trans (cst c) FATAL); [|discriminate]. inv_some.
    apply gpinv_put; auto. unfold pinv, c_clear. simpl. discriminate.
  - (* AKill *)
    destruct (nth_error (clients s) i) as [c|] eqn:Hn; [|discriminate]. inv_some.
    apply gpinv_put; auto. psame G Hn.
  - (* TPick *)
    wc H c c' Hg Hf. destruct (get_some _ _ _ Hg) as (Hn & _).
    destruct (slot c); [discriminate|].
    destruct k as [k1|]; destruct (next_kind c) as [k2|]; try discriminate.
    + destruct (skind_eqb k1 k2); [|discriminate]. inv_some. apply gpinv_put; auto. psame G Hn.
    + inv_some. apply gpinv_put; auto. eapply gpinv_get; eauto.
  - (* TDone *)
    wc H c c' Hg Hf. destruct (get_some _ _ _ Hg) as (Hn & _).
    destruct (slot c); [|discriminate]. inv_some. apply gpinv_put; auto. psame G Hn.
  - (* CPartAdded *)
    wc H c c' Hg Hf. destruct (get_some _ _ _ Hg) as (Hn & _). pose proof (gpinv_get _ _ _ G Hn) as P.
    match type of Hf with (if ?g then _ else _) = _ => destruct g; [|discriminate] end. inv_some.
    apply gpinv_put; auto. unfold pinv. simpl. intros E. destruct (P E) as (P1 & P2). split.
    + intros b Hb. destruct (P1 b Hb) as [K|K].
      * left. apply addn_In. auto.
      * destruct (Nat.eq_dec (bpart b) p) as [->|N].
        -- left. apply addn_In. auto.
        -- right. apply remn_In. auto.
    + intros b Hb. apply addn_In. auto.
  - (* CGroupAdded *)
    wc H c c' Hg Hf. destruct (get_some _ _ _ Hg) as (Hn & _).
    destruct (slot_is c KOffs SApplied); [|discriminate]. inv_some. apply gpinv_put; auto. psame G Hn.
  - (* COffCommitted *)
    wc H c c' Hg Hf. destruct (get_some _ _ _ Hg) as (Hn & _).
    destruct (slot_is c KToc SApplied && memn x (ctoc c)); [|discriminate].
    destruct (pend_offs c) as [|items rest]; [discriminate|].
    destruct (memn x items); [|discriminate]. inv_some. apply gpinv_put; auto. psame G Hn.
  - (* SDrain *)
    wc H c c' Hg Hf. destruct (get_some _ _ _ Hg) as (Hn & _). pose proof (gpinv_get _ _ _ G Hn) as P.
    destruct (take_bid b (queue c)) as [[x q]|] eqn:T; [|discriminate].
    destruct (head_of (bpart x) (queue c)); [|discriminate].
    match type of Hf with (if ?g then _ else _) = _ => destruct g eqn:Gd; [|discriminate] end. inv_some.
    apply andb_prop in Gd. destruct Gd as [Gd _]. apply andb_prop in Gd. destruct Gd as [Gd _].
    apply andb_prop in Gd. destruct Gd as [_ Gm].
    destruct (take_bid_some _ _ _ _ T) as (T1 & _ & T3 & _).
    apply gpinv_put; auto. unfold pinv. simpl. intros E. destruct (P E) as (P1 & P2). split.
    + intros b1 Hb. auto.
    + intros b1 Hb. rewrite <- app_assoc in Hb. apply in_app_or in Hb. destruct Hb as [Hb|Hb].
      * apply P2. apply in_or_app. auto.
      * simpl in Hb. destruct Hb as [Hb|Hb].
        -- subst b1. simpl. destruct (P1 x T1) as [K|K]; [exact K|].
           apply memn_In in K. rewrite K in Gm. discriminate.
        -- apply P2. apply in_or_app. auto.
  - (* SOk *)
    wc H c c' Hg Hf. destruct (get_some _ _ _ Hg) as (Hn & _). pose proof (gpinv_get _ _ _ G Hn) as P.
    destruct (take_bid b (inflight c)) as [[x f]|] eqn:T.
    + destruct (bapp x); [|discriminate]. inv_some. destruct (take_bid_some _ _ _ _ T) as (_ & _ & T3 & _).
      apply gpinv_put; auto. unfold pinv. simpl. intros E. destruct (P E) as (P1 & P2). split; [exact P1|].
      intros b1 Hb. apply P2. rewrite !in_app_iff in *. destruct Hb; auto.
    + destruct (cst c); try discriminate. destruct (has_bid b (deadb c)); [|discriminate]. inv_some.
      apply gpinv_put; auto.
  - (* SRetry *)
    wc H c c' Hg Hf. destruct (get_some _ _ _ Hg) as (Hn & _). pose proof (gpinv_get _ _ _ G Hn) as P.
    destruct (take_bid b (inflight c)) as [[x f]|] eqn:T.
    + inv_some. destruct (take_bid_some _ _ _ _ T) as (T1 & _ & T3 & _).
      apply gpinv_put; auto. unfold pinv. simpl. intros E. destruct (P E) as (P1 & P2). split.
      * intros b1 [Hb|Hb]; [subst b1; left; apply P2; apply in_or_app; auto | auto].
      * intros b1 Hb. apply P2. rewrite !in_app_iff in *. destruct Hb; auto.
    + destruct (cst c); try discriminate. destruct (has_bid b (deadb c)); [|discriminate]. inv_some.
      apply gpinv_put; auto.
  - (* SFail *)
    wc H c c' Hg Hf. destruct (get_some _ _ _ Hg) as (Hn & _). pose proof (gpinv_get _ _ _ G Hn) as P.
    destruct (take_bid b (inflight c)) as [[x f]|] eqn:T.
    + inv_some. destruct (take_bid_some _ _ _ _ T) as (T1 & _ & T3 & _).
      apply gpinv_put; auto. unfold pinv. simpl. intros E. destruct (P E) as (P1 & P2). split; [exact P1|].
      intros b1 Hb. apply P2. rewrite !in_app_iff in *. simpl in Hb.
      destruct Hb as [Hb|[Hb|[Hb|[]]]]; auto. subst; auto.
    + destruct (take_bid b (queue c)) as [[x q]|] eqn:T2.
      * inv_some. destruct (take_bid_some _ _ _ _ T2) as (_ & _ & T3 & _).
        apply gpinv_put; auto. unfold pinv. simpl. intros E. destruct (P E) as (P1 & P2). split; [auto|exact P2].
      * destruct (cst c); try discriminate. destruct (has_bid b (deadb c)); [|discriminate]. inv_some.
        apply gpinv_put; auto.
  - (* RAddParts *)
    destruct (get s i) as [c|] eqn:Hg; [|discriminate]. destruct (get_some _ _ _ Hg) as (Hn & _).
    match type of H with (if ?g then _ else _) = _ => destruct g; [|discriminate] end.
    destruct v.
    + destruct (Nat.eqb (cep c) (eep (genv s)) && not_prep (genv s)); [|discriminate]. inv_some.
      apply (gpinv_put s i); auto. psame G Hn.
    + inv_some. apply gpinv_put; auto. psame G Hn.
  - (* RAddOffs *)
    destruct (get s i) as [c|] eqn:Hg; [|discriminate]. destruct (get_some _ _ _ Hg) as (Hn & _).
    destruct (slot_is c KOffs SPicked); [|discriminate].
    destruct v.
    + destruct (Nat.eqb (cep c) (eep (genv s)) && not_prep (genv s)); [|discriminate]. inv_some.
      apply (gpinv_put s i); auto. psame G Hn.
    + inv_some. apply gpinv_put; auto. psame G Hn.
  - (* RToc *)
    destruct (get s i) as [c|] eqn:Hg; [|discriminate]. destruct (get_some _ _ _ Hg) as (Hn & _).
    destruct (pend_offs c) as [|hd rest]; [discriminate|].
    destruct (slot_is c KToc SPicked && list_eqb items hd); [|discriminate].
    destruct v.
    + destruct (Nat.eqb (cep c) (eep (genv s))); [|discriminate]. inv_some.
      apply (gpinv_put s i); auto. psame G Hn.
    + inv_some. apply gpinv_put; auto. psame G Hn.
  - (* REndTxn *)
    destruct (get s i) as [c|] eqn:Hg; [|discriminate]. destruct (get_some _ _ _ Hg) as (Hn & _).
    match type of H with (if ?g then _ else _) = _ => destruct g; [|discriminate] end.
    destruct v.
    + destruct (Nat.eqb (cep c) (eep (genv s))); [|discriminate].
      destruct (est (genv s)); try discriminate.
      * inv_some. apply (gpinv_put s i); auto. psame G Hn.
      * destruct (Bool.eqb commit0 commit); [|discriminate]. inv_some. apply gpinv_put; auto. psame G Hn.
    + inv_some. apply gpinv_put; auto. psame G Hn.
  - (* RProduce *)
    destruct (nth_error (clients s) i) as [c|] eqn:Hn; [|discriminate].
    pose proof (gpinv_get _ _ _ G Hn) as P.
    destruct (take_bid b (inflight c ++ match cst c with FATAL => deadb c | _ => [] end)) as [[x r]|];
      [|discriminate].
    destruct v.
    + destruct (Nat.eqb (cep c) (eep (genv s))); [|discriminate]. inv_some.
      apply (gpinv_put s i); auto. unfold pinv. simpl. intros E. destruct (P E) as (P1 & P2).
      split; [exact P1|]. intros b1 Hb. apply in_app_or in Hb. destruct Hb as [Hb|Hb].
      * destruct (mark_app_spec _ _ _ Hb) as [K|(b2 & r2 & K1 & (_ & K3 & _) & _)].
        -- apply P2. apply in_or_app. auto.
        -- destruct (take_bid_some _ _ _ _ K1) as (K4 & _). rewrite K3. apply P2. apply in_or_app. auto.
      * apply P2. apply in_or_app. auto.
    + inv_some. exact G.
Qed.

Lemma gpinv_g0 n : gpinv (g0 n).
Proof.
  unfold gpinv, g0. simpl. apply Forall_forall. intros c H. apply repeat_spec in H. subst.
  unfold pinv. simpl. intros _. split; intros b [].
Qed.

Lemma run_gpinv : forall tr s s', run s tr = Some s' -> gcinv s -> gpinv s -> gcinv s' /\ gpinv s'.
Proof.
  induction tr as [|e tr IH]; intros s s' H G P; simpl in H.
  - inversion H; subst; auto.
  - destruct (step s e) as [s1|] eqn:S; [|discriminate]. eapply IH; eauto.
    + eapply step_gcinv; eauto.
    + eapply step_gpinv; eauto.
Qed.

(* a batch is handed to a Produce request only for a partition that is not waiting for
   AddPartitionsToTxn and whose AddPartitionsToTxn was acknowledged in this transaction (it is in
   _txn_partitions) — unless fatal_error has cleared the sets *)
Lemma drain_registered s i b s' :
  gpinv s -> step s (SDrain i b) = Some s' ->
  exists c x, get s i = Some c /\ In x (queue c) /\ bid x = b /\
              ~ In (bpart x) (pend_parts c) /\ (cerr c = false -> In (bpart x) (txn_parts c)).
Proof.
  intros G H. unfold step in H. wc H c c' Hg Hf. destruct (get_some _ _ _ Hg) as (Hn & _).
  destruct (take_bid b (queue c)) as [[x q]|] eqn:T; [|discriminate].
  destruct (head_of (bpart x) (queue c)); [|discriminate].
  match type of Hf with (if ?g then _ else _) = _ => destruct g eqn:Gd; [|discriminate] end.
  apply andb_prop in Gd. destruct Gd as [Gd _]. apply andb_prop in Gd. destruct Gd as [Gd _].
  apply andb_prop in Gd. destruct Gd as [_ Gm].
  destruct (take_bid_some _ _ _ _ T) as (T1 & T2 & _).
  assert (N : ~ In (bpart x) (pend_parts c)).
  { intros K. apply memn_In in K. rewrite K in Gm. discriminate. }
  exists c, x. repeat split; auto.
  intros E. destruct (gpinv_get _ _ _ G Hn E) as (P1 & _). destruct (P1 x T1) as [K|K]; [exact K | contradiction].
Qed.
