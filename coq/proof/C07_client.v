(* C07_client.v — invariants of one producer instance of model/C07_Txn.v that hold on every
   accepted trace, without any assumption on the environment:
     - READY / UNINITIALIZED  =>  nothing queued, nothing in flight;
     - every batch belongs to the current application transaction and holds accepted records;
     - what the brokers appended was accepted;
     - as long as no batch failed, every accepted item is appended, queued, in flight or a pending
       offset entry.
   Consequences: c07_no_write_outside_txn and c07_end_after_acks (props/C07.v). *)
From Coq Require Import ZArith List Bool Arith Lia.
From Verif Require Import Imp TxnTable C16_TxnApi C07_Txn.
Import ListNotations.

(* ---------- the translated table, as far as this file needs it ---------------------------------- *)
Lemma trans_target s t u : trans s t = Some u -> u = t.
Proof. unfold trans. destruct (table s t); intros H; inversion H; reflexivity. Qed.
Lemma trans_in_txn s u : trans s IN_TXN = Some u -> s = READY.
Proof. destruct s; vm_compute; intros H; try discriminate; reflexivity. Qed.
Lemma trans_ready s u : trans s READY = Some u -> s = UNINIT \/ s = COMMITTING \/ s = ABORTING.
Proof. destruct s; vm_compute; intros H; try discriminate; auto. Qed.
Lemma trans_committing s u : trans s COMMITTING = Some u -> s = IN_TXN.
Proof. destruct s; vm_compute; intros H; try discriminate; reflexivity. Qed.
Lemma trans_aborting s u : trans s ABORTING = Some u -> s = IN_TXN \/ s = ABORTABLE.
Proof. destruct s; vm_compute; intros H; try discriminate; auto. Qed.

(* ---------- list helpers -------------------------------------------------------------------------- *)
Lemma memn_In x l : memn x l = true <-> In x l.
Proof.
  unfold memn. rewrite existsb_exists. split.
  - intros (y & H & E). apply Nat.eqb_eq in E. subst. exact H.
  - intros H. exists x. split; [exact H | apply Nat.eqb_refl].
Qed.
Lemma remn_In x y l : In y (remn x l) <-> In y l /\ y <> x.
Proof.
  unfold remn. rewrite filter_In. split; intros [A B]; split; auto.
  - intros E. subst. rewrite Nat.eqb_refl in B. discriminate.
  - destruct (Nat.eqb x y) eqn:E; [apply Nat.eqb_eq in E; congruence | reflexivity].
Qed.
Lemma addn_In x y l : In y (addn x l) <-> In y l \/ y = x.
Proof.
  unfold addn. destruct (memn x l) eqn:E.
  - apply memn_In in E. split; [auto | intros [H|H]; subst; auto].
  - rewrite in_app_iff. simpl. split; intros [H|H]; auto. destruct H; [subst; auto | contradiction].
Qed.
Lemma unionn_In y m : forall l, In y (unionn l m) <-> In y l \/ In y m.
Proof.
  induction m as [|x m IH]; intros l; simpl.
  - tauto.
  - rewrite IH, addn_In. split; intros H; intuition.
Qed.
Lemma is_niln_nil {A} (l : list A) : is_niln l = true -> l = [].
Proof. destruct l; [reflexivity | discriminate]. Qed.
Lemma list_eqb_incl l m : list_eqb l m = true -> incl l m /\ incl m l.
Proof.
  unfold list_eqb. intros H. apply andb_prop in H. destruct H as [H H2].
  apply andb_prop in H. destruct H as [_ H1].
  rewrite forallb_forall in H1, H2. split; intros x Hx; apply memn_In; auto.
Qed.

Lemma nth_set_nth_eq {A} (l : list A) : forall i c c', nth_error l i = Some c -> nth_error (set_nth i c' l) i = Some c'.
Proof.
  induction l as [|y l IH]; intros [|i] c c' H; simpl in *; try discriminate; auto.
  eapply IH; eauto.
Qed.
Lemma nth_set_nth_neq {A} (l : list A) : forall i j c', i <> j -> nth_error (set_nth i c' l) j = nth_error l j.
Proof.
  induction l as [|y l IH]; intros [|i] [|j] c' H; simpl; auto; try congruence.
Qed.
Lemma Forall_set_nth {A} (P : A -> Prop) (l : list A) : forall i c', Forall P l -> P c' -> Forall P (set_nth i c' l).
Proof.
  induction l as [|y l IH]; intros [|i] c' H Hc; simpl; auto; inversion H; subst; constructor; auto.
Qed.
Lemma length_set_nth {A} (l : list A) : forall i c', length (set_nth i c' l) = length l.
Proof. induction l as [|y l IH]; intros [|i] c'; simpl; auto. Qed.

Lemma get_some s i c : get s i = Some c -> nth_error (clients s) i = Some c /\ alive c = true.
Proof.
  unfold get. destruct (nth_error (clients s) i) as [c0|]; [|discriminate].
  destruct (alive c0) eqn:A; intros H; inversion H; subst; auto.
Qed.

(* ---------- batches -------------------------------------------------------------------------------- *)
Lemma take_bid_some n q x r : take_bid n q = Some (x, r) ->
  In x q /\ bid x = n /\ (forall b, In b r -> In b q) /\ (forall b, In b q -> b = x \/ In b r).
Proof.
  revert x r. induction q as [|b q IH]; intros x r H; simpl in H; [discriminate|].
  destruct (Nat.eqb (bid b) n) eqn:E.
  - inversion H; subst. apply Nat.eqb_eq in E. repeat split; simpl; auto.
    intros b0 [H0|H0]; auto.
  - destruct (take_bid n q) as [[x0 r0]|] eqn:T; [|discriminate]. inversion H; subst.
    destruct (IH _ _ eq_refl) as (A & B & C & D). repeat split; simpl; auto.
    + intros b0 [H0|H0]; auto.
    + intros b0 [H0|H0]; auto. destruct (D _ H0); auto.
Qed.

Lemma take_bid_app n q d x r : take_bid n (q ++ d) = Some (x, r) ->
  (exists r1, take_bid n q = Some (x, r1)) \/ (take_bid n q = None /\ exists r2, take_bid n d = Some (x, r2)).
Proof.
  revert x r. induction q as [|b q IH]; intros x r H; simpl in *.
  - right. split; [reflexivity|]. eauto.
  - destruct (Nat.eqb (bid b) n) eqn:E.
    + inversion H; subst. left. eauto.
    + destruct (take_bid n (q ++ d)) as [[x0 r0]|] eqn:T; [|discriminate]. inversion H; subst.
      destruct (IH _ _ eq_refl) as [(r1 & A)|(A & r2 & B)].
      * left. rewrite A. eauto.
      * right. rewrite A. split; eauto.
Qed.

Definition same_batch (b b' : batch) : Prop :=
  bid b' = bid b /\ bpart b' = bpart b /\ btag b' = btag b /\ bitems b' = bitems b.

Lemma mark_app_spec n q : forall b', In b' (mark_app n q) ->
  In b' q \/ (exists b0 r, take_bid n q = Some (b0, r) /\ same_batch b0 b' /\ bapp b' = true).
Proof.
  induction q as [|b q IH]; intros b' H; simpl in *; [contradiction|].
  destruct (Nat.eqb (bid b) n) eqn:E.
  - destruct H as [H|H]; [|auto]. right. exists b, q. subst b'. repeat split.
  - destruct H as [H|H]; [auto|]. destruct (IH _ H) as [A|(b0 & r & A & B & C)]; [auto|].
    right. rewrite A. exists b0, (b :: r). auto.
Qed.
Lemma mark_app_cover n q : forall b, In b q -> exists b', In b' (mark_app n q) /\ same_batch b b'.
Proof.
  induction q as [|b0 q IH]; intros b H; simpl in *; [contradiction|].
  destruct (Nat.eqb (bid b0) n) eqn:E.
  - destruct H as [H|H].
    + subst. eexists. split; [left; reflexivity|]. repeat split.
    + exists b. split; [right; exact H | repeat split].
  - destruct H as [H|H].
    + subst. exists b. split; [left; reflexivity | repeat split].
    + destruct (IH _ H) as (b' & A & B). exists b'. split; [right; exact A | exact B].
Qed.
Lemma mark_app_nil n q : mark_app n q = [] -> q = [].
Proof. destruct q; simpl; [auto|]. destruct (Nat.eqb (bid b) n); discriminate. Qed.

Lemma snoc_item_spec p n x q q' : snoc_item p n x q = Some q' ->
  (forall b', In b' q' -> In b' q \/ exists b, In b q /\ bid b' = bid b /\ bpart b' = bpart b /\ bpart b = p
                                      /\ btag b' = btag b /\ bapp b' = bapp b /\ bsent b = false
                                      /\ bsent b' = false /\ bitems b' = bitems b ++ [x]) /\
  (forall b, In b q -> exists b', In b' q' /\ bpart b' = bpart b /\ forall y, In y (bitems b) -> In y (bitems b')) /\
  (exists b', In b' q' /\ bpart b' = p /\ In x (bitems b')).
Proof.
  revert q'. induction q as [|b q IH]; intros q' H; simpl in H; [discriminate|].
  destruct (Nat.eqb (bpart b) p && negb (has_part_q p q)) eqn:E.
  - destruct (Nat.eqb (bid b) n && negb (bsent b)) eqn:E2; [|discriminate]. inversion H; subst; clear H.
    apply andb_prop in E. destruct E as [E _]. apply Nat.eqb_eq in E.
    apply andb_prop in E2. destruct E2 as [_ E2]. apply negb_true_iff in E2.
    split; [|split].
    + intros b' [H|H]; [|left; right; exact H]. right. exists b. subst b'. simpl.
      repeat split; auto. left; auto.
    + intros b0 [H|H].
      * subst b0. eexists. split; [left; reflexivity|]. simpl. split; [reflexivity|].
        intros y Hy. apply in_or_app. auto.
      * exists b0. split; [right; exact H|]. split; auto.
    + eexists. split; [left; reflexivity|]. simpl. split; [exact E|]. apply in_or_app. right. left. reflexivity.
  - destruct (snoc_item p n x q) as [r|] eqn:S; [|discriminate]. inversion H; subst; clear H.
    destruct (IH _ eq_refl) as (A & B & (b1 & C1 & C2 & C3)). split; [|split].
    + intros b' [H|H]; [left; left; exact H|]. destruct (A _ H) as [H1|(b0 & H1 & H2)].
      * left; right; exact H1.
      * right. exists b0. split; [right; exact H1 | exact H2].
    + intros b0 [H|H].
      * subst. exists b0. split; [left; reflexivity|]. auto.
      * destruct (B _ H) as (b' & H1 & H2). exists b'. split; [right; exact H1 | exact H2].
    + exists b1. split; [right; exact C1|]. auto.
Qed.

(* ---------- the invariant of one instance ----------------------------------------------------------- *)
Definition bq (c : client) : list batch := queue c ++ inflight c ++ deadb c.

Record cinv (c : client) : Prop := {
  ci_idle : cst c = UNINIT \/ cst c = READY -> queue c = [] /\ inflight c = [] /\ deadb c = [];
  ci_tag : forall b, In b (bq c) ->
           btag b = kcur c /\ bpart b <> GROUPP /\ forall x, In x (bitems b) -> In (x, bpart b) (accepted c);
  ci_app : forall b, In b (queue c ++ inflight c) -> bapp b = true ->
           bsent b = true /\ forall x, In x (bitems b) -> In (x, bpart b) (capp c);
  ci_sent : forall b, In b (inflight c) -> bsent b = true;
  ci_capp : incl (capp c) (accepted c);
  ci_offs : forall l x, In l (pend_offs c) -> In x l -> In (x, GROUPP) (accepted c);
  ci_acc : lostb c = false -> forall x p, In (x, p) (accepted c) ->
           In (x, p) (capp c) \/
           (exists b, In b (queue c ++ inflight c) /\ bpart b = p /\ In x (bitems b)) \/
           (p = GROUPP /\ exists l, In l (pend_offs c) /\ In x l);
  ci_toc : forall x, In x (ctoc c) -> In (x, GROUPP) (capp c)
}.

Lemma cinv_fresh ep t : cinv (mkC true ep t [] [] false [] [] [] [] None 0 [] false [] false false []).
Proof.
  constructor; simpl; intros; try contradiction; auto.
  - unfold bq in H. simpl in H. contradiction.
  - intros x H; contradiction.
Qed.
Lemma cinv_client0 : cinv client0.
Proof. apply cinv_fresh. Qed.

Ltac inv_some :=
  repeat match goal with
         | H : Some _ = Some _ |- _ => inversion H; subst; clear H
         | H : None = Some _ |- _ => discriminate H
         | H : (if ?b then _ else _) = Some _ |- _ => let E := fresh "E" in destruct b eqn:E
         | H : match ?x with _ => _ end = Some _ |- _ => let E := fresh "E" in destruct x eqn:E
         end.

Lemma with_client_some s i f s' : with_client s i f = Some s' ->
  exists c c', get s i = Some c /\ f c = Some c' /\ s' = put s i c'.
Proof.
  unfold with_client. destruct (get s i) as [c|]; [|discriminate].
  destruct (f c) as [c'|] eqn:F; [|discriminate]. intros H. inversion H. eauto.
Qed.

Definition gcinv (s : gstate) : Prop := Forall cinv (clients s).

Lemma gcinv_put s i c' : gcinv s -> cinv c' -> gcinv (put s i c').
Proof. unfold gcinv, put. simpl. intros. apply Forall_set_nth; auto. Qed.
Lemma gcinv_get s i c : gcinv s -> nth_error (clients s) i = Some c -> cinv c.
Proof. unfold gcinv. intros F H. rewrite Forall_forall in F. apply F. eapply nth_error_In; eauto. Qed.

(* an update that touches none of the fields the invariant reads *)
Lemma cinv_only_other c c' :
  cinv c ->
  cst c' = cst c -> queue c' = queue c -> inflight c' = inflight c -> deadb c' = deadb c ->
  kcur c' = kcur c -> accepted c' = accepted c -> capp c' = capp c -> pend_offs c' = pend_offs c ->
  lostb c' = lostb c -> ctoc c' = ctoc c -> cinv c'.
Proof.
  intros [A B C Cs D E F G] H1 H2 H3 H4 H5 H6 H7 H8 H9 H10.
  constructor; unfold bq; rewrite ?H1, ?H2, ?H3, ?H4, ?H5, ?H6, ?H7, ?H8, ?H9, ?H10; auto.
Qed.

Lemma cinv_new_txn c t : cinv c -> cst c = READY -> t = IN_TXN -> cinv (new_txn c t).
Proof.
  intros [A B C Cs D E F G] R T. destruct (A (or_intror R)) as (Q & I & Dd).
  constructor; unfold bq; simpl; rewrite ?Q, ?I; simpl; intros; try contradiction; auto.
  - subst t. destruct H; discriminate.
  - intros x H; contradiction.
Qed.

Lemma cinv_accept_new c x p b :
  cinv c -> cst c = IN_TXN -> p <> GROUPP ->
  cinv (set_queue (set_parts (set_accepted c (accepted c ++ [(x, p)])) (txn_parts c)
                             (if memn p (txn_parts c) || memn p (pend_parts c) then pend_parts c
                              else pend_parts c ++ [p]))
                  (queue c ++ [mkB b p (kcur c) [x] false false])).
Proof.
  intros [A B C Cs D E F G] S P.
  constructor; unfold bq; simpl.
  - rewrite S. intros [H|H]; discriminate.
  - intros b0 H. rewrite <- app_assoc in H. apply in_app_or in H. destruct H as [H|H].
    + destruct (B b0) as (B1 & B2 & B3); [unfold bq; apply in_or_app; auto|].
      repeat split; auto. intros y Hy. apply in_or_app. left. auto.
    + simpl in H. destruct H as [H|H].
      * subst b0. simpl. repeat split; auto. intros y [Hy|[]]. subst. apply in_or_app. right. left. reflexivity.
      * destruct (B b0) as (B1 & B2 & B3); [unfold bq; apply in_or_app; right; exact H|].
        repeat split; auto. intros y Hy. apply in_or_app. left. auto.
  - intros b0 H Hb. rewrite <- app_assoc in H. apply in_app_or in H. destruct H as [H|H].
    + apply (C b0); auto. apply in_or_app; auto.
    + simpl in H. destruct H as [H|H].
      * subst b0. simpl in Hb. discriminate.
      * apply (C b0); auto. apply in_or_app; auto.
  - exact Cs.
  - intros y Hy. apply in_or_app. left. auto.
  - intros l y Hl Hy. apply in_or_app. left. eauto.
  - intros L y q Hy. apply in_app_or in Hy. destruct Hy as [Hy|Hy].
    + destruct (F L _ _ Hy) as [H|[(b0 & H1 & H2 & H3)|H]]; auto.
      right. left. exists b0. split; [|auto]. rewrite <- app_assoc. apply in_app_or in H1.
      destruct H1; apply in_or_app; auto. right. right. exact H.
    + destruct Hy as [Hy|[]]. inversion Hy; subst. right. left. eexists. split.
      * rewrite <- app_assoc. apply in_or_app. right. left. reflexivity.
      * simpl. auto.
  - exact G.
Qed.

Lemma cinv_accept_old c x p n q :
  cinv c -> cst c = IN_TXN -> p <> GROUPP -> snoc_item p n x (queue c) = Some q ->
  cinv (set_queue (set_accepted c (accepted c ++ [(x, p)])) q).
Proof.
  intros [A B C Cs D E F G] S P SN.
  destruct (snoc_item_spec _ _ _ _ _ SN) as (S1 & S2 & (bx & S3 & S4 & S5)).
  constructor; unfold bq; simpl.
  - rewrite S. intros [H|H]; discriminate.
  - intros b0 H. apply in_app_or in H. destruct H as [H|H].
    + destruct (S1 _ H) as [H1|(b1 & H1 & Hid & Hp & Hpp & Ht & Ha & Hs & Hs' & Hi)].
      * destruct (B b0) as (B1 & B2 & B3); [unfold bq; apply in_or_app; auto|].
        repeat split; auto. intros y Hy. apply in_or_app. left. auto.
      * destruct (B b1) as (B1 & B2 & B3); [unfold bq; apply in_or_app; auto|].
        rewrite Ht, Hp. repeat split; auto. intros y Hy. rewrite Hi in Hy.
        apply in_app_or in Hy. apply in_or_app. destruct Hy as [Hy|[Hy|[]]]; [left; auto|].
        subst y. right. left. congruence.
    + destruct (B b0) as (B1 & B2 & B3); [unfold bq; apply in_or_app; right; exact H|].
      repeat split; auto. intros y Hy. apply in_or_app. left. auto.
  - intros b0 H Hb. apply in_app_or in H. destruct H as [H|H].
    + destruct (S1 _ H) as [H1|(b1 & H1 & Hid & Hp & Hpp & Ht & Ha & Hs & Hs' & Hi)].
      * apply (C b0); auto. apply in_or_app; auto.
      * (* the batch that took the record was never drained, hence never appended *)
        exfalso. destruct (C b1) as (C1 & _); [apply in_or_app; auto | congruence | congruence].
    + apply (C b0); auto. apply in_or_app; auto.
  - exact Cs.
  - intros y Hy. apply in_or_app. left. auto.
  - intros l y Hl Hy. apply in_or_app. left. eauto.
  - intros L y r Hy. apply in_app_or in Hy. destruct Hy as [Hy|Hy].
    + destruct (F L _ _ Hy) as [H|[(b0 & H1 & H2 & H3)|H]]; auto.
      right. left. apply in_app_or in H1. destruct H1 as [H1|H1].
      * destruct (S2 _ H1) as (b' & T1 & T2 & T3). exists b'. split; [apply in_or_app; auto|].
        split; [congruence | auto].
      * exists b0. split; [apply in_or_app; auto | auto].
    + destruct Hy as [Hy|[]]. inversion Hy; subst. right. left. exists bx.
      split; [apply in_or_app; auto | auto].
  - exact G.
Qed.
