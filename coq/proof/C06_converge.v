(* C06, convergence clause on the quiet-period model (model/C06_Converge.v).
   Part 1: a converged state is closed under every quiet step, and every such step is a no-op heartbeat /
           commit exchange (no JoinGroup is ever emitted).
   Part 2: from the two per-step facts (the invariant is preserved; the variant [mu] strictly decreases on
           every step that is not a no-op and does not increase on a no-op) and the progress fact, every
           execution with at least [mu s] real steps ends converged. *)
From Coq Require Import ZArith List Bool Arith Lia.
From Verif Require Import DispatchActs HeartbeatDispatch JoinRetryDispatch JoinDispatch SyncDispatch CommitDispatch
  C06_Converge C06_conv_lib C06_conv_step C06_conv_final C06_conv_progress.
Import ListNotations.
Local Open Scope nat_scope.

(* ------------------------------------------------------------------------------------------ *)
(* Part 1                                                                                       *)

Lemma hb_ok_react : forall m, recv_hb 0 m = (if m_id m =? 0 then set_hb false (set_hbin None m) else set_hbin None m).
Proof. intros m. unfold recv_hb. reflexivity. Qed.

Lemma cm_ok_react : forall m, recv_cm 0 m = set_cmin None m.
Proof. intros m. reflexivity. Qed.

Definition a_core' (hbin cmin : option Z) (a : av) : av :=
  mkA (a_live a) (a_ph a) (a_rejoin a) (a_ck a) (a_hb a) (a_ib a) hbin cmin (a_st a) (a_G0 a)
      (a_idz a) (a_id_e a) (a_id_p a) (a_id_jp a) (a_id_sp a) (a_genz a) (a_gen_eq a) (a_gen_le a)
      (a_fz a) (a_f_e a) (a_f_p a) (a_f_jp a) (a_f_sp a) (a_f_id a) (a_gz a) (a_g_eq a) (a_g_le a).

Lemma settled_live : forall c m, settled c m = true -> m_live m = true ->
  m_ph m = PIdle /\ m_rejoin m = false /\ m_hb m = true /\ m_ck m = CkOk /\ m_inbox m = None
  /\ (m_id m =? 0) = false /\ memb (m_id m) (ids (c_ents c)) = true /\ (m_gen m =? c_gen c) = true
  /\ ok_or_none (m_hbin m) = true /\ ok_or_none (m_cmin m) = true.
Proof.
  intros c m H L. unfold settled, settled_a, absm in H. simpl in H. rewrite L in H. simpl in H. btrue.
  repeat split; try assumption.
  - destruct (m_ph m); simpl in *; congruence.
  - destruct (m_ck m); simpl in *; congruence.
  - unfold ib_of in *. destruct (m_inbox m) as [[?|?]|]; simpl in *; congruence.
Qed.

Lemma hb_code_settled : forall c m, (c_st c = CStable \/ c_st c = CEmpty) -> settled c m = true -> m_live m = true ->
  hb_code c m = 0%Z /\ cm_code c m = 0%Z.
Proof.
  intros c m Hst H L. destruct (settled_live c m H L) as (_ & _ & _ & Hck & _ & Hid & Hmem & Hgen & _).
  unfold hb_code, cm_code, validate. rewrite Hck, Hmem, Hid, Hgen. simpl.
  destruct Hst as [-> | ->]; split; reflexivity.
Qed.

Lemma bound_ext : forall m m' x, m_live m' = m_live m -> m_id m' = m_id m ->
  m_ph m' = m_ph m -> m_focus m' = m_focus m -> bound m' x = bound m x.
Proof. intros m m' x A B D E. unfold bound. rewrite A, B, D, E. reflexivity. Qed.

Lemma orphan_updm : forall i f ms e,
  (forall m x, bound (f m) x = bound m x) -> orphan (updm i f ms) e = orphan ms e.
Proof.
  intros i f ms e Hf. unfold orphan. f_equal. unfold updm. induction ms as [|a r IH]; simpl; [reflexivity|].
  rewrite IH. destruct (m_name a =? i); [rewrite Hf|]; reflexivity.
Qed.

Lemma inv_names : forall s, inv_b s = true -> NoDup (map m_name (s_ms s)).
Proof. intros s H. unfold inv_b in H. btrue. apply nodupb_NoDup. assumption. Qed.

(* the predicates read only these fields besides the two reply slots *)
Lemma absm_slots : forall c m m', m_live m' = m_live m -> m_id m' = m_id m -> m_gen m' = m_gen m -> m_ph m' = m_ph m ->
  m_rejoin m' = m_rejoin m -> m_ck m' = m_ck m -> m_hb m' = m_hb m -> m_focus m' = m_focus m -> m_inbox m' = m_inbox m ->
  absm c m' = a_core' (m_hbin m') (m_cmin m') (absm c m).
Proof.
  intros c m m' A B C D E F G H I. unfold absm, a_core', focus_of, rgen_of, ib_of. rewrite A, B, C, D, E, F, G, H, I. reflexivity.
Qed.

(* the four no-op updates keep a settled member settled, well-formed and coherent *)
Lemma noop_keeps : forall a, a_live a = true -> settled_a a = true -> wf_a a = true -> coh_a a = true ->
  forall hb' cm', (hb' = a_hbin a \/ hb' = None \/ hb' = Some 0%Z) -> (cm' = a_cmin a \/ cm' = None \/ cm' = Some 0%Z) ->
  settled_a (a_core' hb' cm' a) = true /\ wf_a (a_core' hb' cm' a) = true /\ coh_a (a_core' hb' cm' a) = true.
Proof.
  intros a L S W C hb' cm' Hh Hc.
  destruct a as [live ph rejoin ck hb ib hbin cmin st G0 idz id_e id_p id_jp id_sp genz gen_eq gen_le
                   fz f_e f_p f_jp f_sp f_id gz g_eq g_le].
  unfold settled_a, wf_a, coh_a, a_core', a_can_commit, a_waiting_join, a_waiting_sync in *. simpl in *. subst live. simpl in *.
  apply andb_true_iff in S. destruct S as [S Scm]. apply andb_true_iff in S. destruct S as [S Shb].
  apply andb_true_iff in S. destruct S as [S Sge]. apply andb_true_iff in S. destruct S as [S Sie].
  apply andb_true_iff in S. destruct S as [S Siz]. apply andb_true_iff in S. destruct S as [S Sib].
  apply andb_true_iff in S. destruct S as [S Sck]. apply andb_true_iff in S. destruct S as [S Sh].
  apply andb_true_iff in S. destruct S as [Sph Srj].
  destruct ph; try discriminate. destruct ib; try discriminate. destruct ck; try discriminate.
  destruct rejoin; try discriminate. destruct hb; try discriminate. destruct idz; try discriminate.
  destruct id_e; try discriminate. destruct gen_eq; try discriminate. simpl in *.
  assert (Hh' : ok_or_none hb' = true /\ opt_in hb' probe_codes = true).
  { destruct Hh as [->|[->| ->]]; [|split; reflexivity|split; reflexivity]. split; [exact Shb|].
    destruct hbin as [z|]; [|reflexivity]. simpl in Shb. apply Z.eqb_eq in Shb. subst z. reflexivity. }
  assert (Hc' : ok_or_none cm' = true /\ opt_in cm' probe_codes = true).
  { destruct Hc as [->|[->| ->]]; [|split; reflexivity|split; reflexivity]. split; [exact Scm|].
    destruct cmin as [z|]; [|reflexivity]. simpl in Scm. apply Z.eqb_eq in Scm. subst z. reflexivity. }
  destruct Hh' as [H1 H2]. destruct Hc' as [H3 H4]. rewrite H1, H2, H3, H4.
  repeat (apply andb_true_iff in W; destruct W as [W ?]).
  repeat (apply andb_true_iff in C; destruct C as [C ?]).
  destruct genz; simpl in *; try discriminate.
  repeat split; try reflexivity.
  repeat (apply andb_true_iff; split); try reflexivity; try assumption.
  rewrite orb_false_r in C. exact C.
Qed.

Lemma noop_member : forall c m m', m_live m = true -> settled c m = true -> wf_m c m = true -> coh c m = true ->
  m_live m' = m_live m -> m_id m' = m_id m -> m_gen m' = m_gen m -> m_ph m' = m_ph m ->
  m_rejoin m' = m_rejoin m -> m_ck m' = m_ck m -> m_hb m' = m_hb m -> m_focus m' = m_focus m -> m_inbox m' = m_inbox m ->
  (m_hbin m' = m_hbin m \/ m_hbin m' = None \/ m_hbin m' = Some 0%Z) ->
  (m_cmin m' = m_cmin m \/ m_cmin m' = None \/ m_cmin m' = Some 0%Z) ->
  settled c m' = true /\ wf_m c m' = true /\ coh c m' = true.
Proof.
  intros c m m' L S W C A1 A2 A3 A4 A5 A6 A7 A8 A9 Hh Hc.
  unfold settled, wf_m, coh. rewrite (absm_slots c m m' A1 A2 A3 A4 A5 A6 A7 A8 A9).
  apply noop_keeps; try assumption.
Qed.

Definition same_ids (m m' : member) : Prop :=
  m_live m' = m_live m /\ m_id m' = m_id m /\ m_ph m' = m_ph m /\ m_focus m' = m_focus m.

Lemma disjoint_ext : forall a a' b b', same_ids a a' -> same_ids b b' -> disjoint_m a' b' = disjoint_m a b.
Proof.
  intros a a' b b' (A1 & A2 & A3 & A4) (B1 & B2 & B3 & B4). unfold disjoint_m, bound, focus_of.
  rewrite A1, A2, A3, A4, B1, B2, B3, B4. reflexivity.
Qed.

Lemma pairwise_map_ext : forall (g : member -> member) ms, (forall m, same_ids m (g m)) ->
  pairwise disjoint_m (map g ms) = pairwise disjoint_m ms.
Proof.
  intros g ms Hg. induction ms as [|a r IH]; simpl; [reflexivity|]. rewrite IH. f_equal.
  clear IH. induction r as [|b r IH]; simpl; [reflexivity|]. rewrite IH. f_equal. apply disjoint_ext; apply Hg.
Qed.

Definition is_send_join (l : label) : bool := match l with LSendJoin _ _ _ => true | _ => false end.

Lemma converged_closed : forall s l s',
  inv_b s = true -> converged_b s = true -> step s l = Some s' ->
  converged_b s' = true /\ inv_b s' = true /\ is_send_join l = false /\ noop_b s l = true.
Proof.
  intros [c ms] l s' Hinv Hc Hs.
  pose proof (inv_names _ Hinv) as ND. simpl in ND.
  unfold converged_b in Hc. simpl in Hc. apply andb_true_iff in Hc. destruct Hc as [Hc Hents].
  apply andb_true_iff in Hc. destruct Hc as [Hst Hset].
  assert (Hst' : c_st c = CStable \/ c_st c = CEmpty).
  { apply orb_true_iff in Hst. destruct Hst as [E|E]; destruct (c_st c); simpl in E; try discriminate; auto. }
  unfold inv_b in Hinv. simpl in Hinv. apply andb_true_iff in Hinv. destruct Hinv as [Hinv Hpw].
  apply andb_true_iff in Hinv. destruct Hinv as [Hinv Hnd].
  apply andb_true_iff in Hinv. destruct Hinv as [Hinv Hcoh]. apply andb_true_iff in Hinv. destruct Hinv as [Hwc Hwm].
  assert (Hget : forall i m, getm i ms = Some m -> m_live m = true ->
            settled c m = true /\ wf_m c m = true /\ coh c m = true).
  { intros i m G L. apply getm_In in G. destruct G as [Hin _]. rewrite forallb_forall in Hset, Hwm, Hcoh. auto. }
  (* the generic conclusion for an update of member [i] by a function that keeps everything the predicates read *)
  assert (Hgen : forall i m f, getm i ms = Some m -> m_live m = true ->
            (forall m0, m_name (f m0) = m_name m0) -> (forall m0, same_ids m0 (f m0)) ->
            settled c (f m) = true -> wf_m c (f m) = true -> coh c (f m) = true ->
            converged_b (mkS c (updm i f ms)) = true /\ inv_b (mkS c (updm i f ms)) = true).
  { intros i m f G L Hn Hsame Hs' Hw' Hc'.
    assert (Hb : forall m0 x, bound (f m0) x = bound m0 x).
    { intros m0 x. destruct (Hsame m0) as (B1 & B2 & B3 & B4). apply bound_ext; assumption. }
    split.
    - unfold converged_b. simpl. rewrite Hst. simpl. apply andb_true_iff. split.
      + apply (forallb_updm _ i f ms m ND G Hset Hs').
      + rewrite forallb_forall in Hents |- *. intros e He. rewrite (orphan_updm i f ms e Hb). apply Hents. exact He.
    - unfold inv_b. simpl. rewrite Hwc. simpl. repeat (apply andb_true_iff; split).
      + apply (forallb_updm _ i f ms m ND G Hwm Hw').
      + apply (forallb_updm _ i f ms m ND G Hcoh Hc').
      + rewrite (updm_names i f ms Hn). exact Hnd.
      + unfold updm. rewrite pairwise_map_ext; [exact Hpw|]. intros m0. destruct (m_name m0 =? i); [apply Hsame|].
        repeat split; reflexivity. }
  destruct l as [i|i v4 y|i|i|i|i|i|i|x rt]; simpl in Hs.
  - (* LFind *) destruct (getm i ms) as [m|] eqn:G; [|discriminate].
    destruct (m_live m) eqn:L; simpl in Hs; [|discriminate].
    destruct (Hget i m G L) as [S _]. destruct (settled_live c m S L) as (_ & _ & _ & Hck & _). rewrite Hck in Hs. discriminate.
  - (* LSendJoin *) destruct (getm i ms) as [m|] eqn:G; [|discriminate].
    destruct (m_live m) eqn:L; simpl in Hs; [|discriminate].
    destruct (Hget i m G L) as [S _]. destruct (settled_live c m S L) as (Hp & Hr & _).
    rewrite Hr in Hs. repeat rewrite andb_false_r in Hs. simpl in Hs. discriminate.
  - (* LRecv *) destruct (getm i ms) as [m|] eqn:G; [|discriminate].
    destruct (m_live m) eqn:L; [|discriminate].
    destruct (Hget i m G L) as [S _]. destruct (settled_live c m S L) as (Hp & _). rewrite Hp in Hs. discriminate.
  - (* LSendSync *) destruct (getm i ms) as [m|] eqn:G; [|discriminate].
    destruct (m_live m) eqn:L; simpl in Hs; [|discriminate].
    destruct (Hget i m G L) as [S _]. destruct (settled_live c m S L) as (Hp & _). rewrite Hp in Hs. discriminate.
  - (* LHbSend *) destruct (getm i ms) as [m|] eqn:G; [|discriminate].
    destruct (m_live m) eqn:L; simpl in Hs; [|discriminate].
    destruct (Hget i m G L) as (S & W & C). destruct (settled_live c m S L) as (Hp & Hr & Hhb & Hck & Hib & Hid & _).
    destruct (hb_code_settled c m Hst' S L) as [Hcode _].
    destruct (m_hb m && is_none (m_hbin m) && ck_known (m_ck m)) eqn:Gd; [|discriminate].
    inversion Hs; subst s'. rewrite Hcode.
    destruct (noop_member c m (set_hbin (Some 0%Z) m) L S W C) as (S1 & W1 & C1); try reflexivity; auto.
    destruct (Hgen i m (set_hbin (Some 0%Z)) G L (fun _ => eq_refl) (fun _ => conj eq_refl (conj eq_refl (conj eq_refl eq_refl))) S1 W1 C1) as [A B].
    repeat split; try assumption.
    unfold noop_b, with_m. simpl. rewrite G, Hcode. unfold hb_silent_a, absm. simpl. rewrite Hid. reflexivity.
  - (* LHbRecv *) destruct (getm i ms) as [m|] eqn:G; [|discriminate].
    destruct (m_live m) eqn:L; [|discriminate].
    destruct (m_hbin m) as [code|] eqn:Hh; [|discriminate].
    destruct (Hget i m G L) as (S & W & C). destruct (settled_live c m S L) as (Hp & Hr & Hhb & Hck & Hib & Hid & _ & _ & Hok & _).
    rewrite Hh in Hok. simpl in Hok. apply Z.eqb_eq in Hok. subst code.
    inversion Hs; subst s'.
    assert (Hf : forall m0, m_name (recv_hb 0 m0) = m_name m0).
    { intros m0. rewrite hb_ok_react. destruct (m_id m0 =? 0); reflexivity. }
    assert (Hm : recv_hb 0 m = set_hbin None m) by (rewrite hb_ok_react, Hid; reflexivity).
    destruct (noop_member c m (set_hbin None m) L S W C) as (S1 & W1 & C1); try reflexivity; auto.
    assert (Hb : forall m0, same_ids m0 (recv_hb 0 m0)).
    { intros m0. rewrite hb_ok_react. destruct (m_id m0 =? 0); repeat split; reflexivity. }
    rewrite <- Hm in S1, W1, C1.
    destruct (Hgen i m (recv_hb 0) G L Hf Hb S1 W1 C1) as [A B].
    repeat split; try assumption.
    unfold noop_b, with_m. simpl. rewrite G, Hh. unfold hb_silent_a, absm. simpl. rewrite Hid. reflexivity.
  - (* LCmSend *) destruct (getm i ms) as [m|] eqn:G; [|discriminate].
    destruct (m_live m) eqn:L; simpl in Hs; [|discriminate].
    destruct (Hget i m G L) as (S & W & C). destruct (settled_live c m S L) as (Hp & Hr & Hhb & Hck & Hib & Hid & _).
    destruct (hb_code_settled c m Hst' S L) as [_ Hcode].
    match type of Hs with (if ?g then _ else _) = _ => destruct g eqn:Gd; [|discriminate] end.
    inversion Hs; subst s'. rewrite Hcode.
    destruct (noop_member c m (set_cmin (Some 0%Z) m) L S W C) as (S1 & W1 & C1); try reflexivity; auto.
    destruct (Hgen i m (set_cmin (Some 0%Z)) G L (fun _ => eq_refl) (fun _ => conj eq_refl (conj eq_refl (conj eq_refl eq_refl))) S1 W1 C1) as [A B].
    repeat split; try assumption.
    unfold noop_b, with_m. simpl. rewrite G, Hcode. reflexivity.
  - (* LCmRecv *) destruct (getm i ms) as [m|] eqn:G; [|discriminate].
    destruct (m_live m) eqn:L; [|discriminate].
    destruct (m_cmin m) as [code|] eqn:Hh; [|discriminate].
    destruct (Hget i m G L) as (S & W & C). destruct (settled_live c m S L) as (Hp & Hr & Hhb & Hck & Hib & Hid & _ & _ & _ & Hok).
    rewrite Hh in Hok. simpl in Hok. apply Z.eqb_eq in Hok. subst code.
    inversion Hs; subst s'.
    destruct (noop_member c m (recv_cm 0 m) L S W C) as (S1 & W1 & C1); try reflexivity; auto.
    destruct (Hgen i m (recv_cm 0) G L (fun _ => eq_refl) (fun _ => conj eq_refl (conj eq_refl (conj eq_refl eq_refl))) S1 W1 C1) as [A B].
    repeat split; try assumption.
    unfold noop_b, with_m. simpl. rewrite G, Hh. reflexivity.
  - (* LExpire *) destruct (find_ent x (c_ents c)) as [e|] eqn:F; [|discriminate].
    unfold find_ent in F. apply find_some in F. destruct F as [Hin _].
    rewrite forallb_forall in Hents. specialize (Hents e Hin). btrue. rewrite H in Hs. simpl in Hs. discriminate.
Qed.

(* ------------------------------------------------------------------------------------------ *)
(* Part 2: from the per-step facts to convergence of every execution                             *)

Definition step_inv_P : Prop := forall s l s', inv_b s = true -> step s l = Some s' -> inv_b s' = true.
Definition step_mu_P : Prop := forall s l s', inv_b s = true -> step s l = Some s' ->
  (noop_b s l = false -> mu s' < mu s) /\ (noop_b s l = true -> mu s' <= mu s).
(* a real step is enabled, at the latest after one no-op (a silent reply still on the wire is consumed first) *)
Definition progress_P : Prop := forall s, inv_b s = true -> converged_b s = false ->
  exists l s', step s l = Some s' /\
    (noop_b s l = false \/ (exists l2 s2, step s' l2 = Some s2 /\ noop_b s' l2 = false)).

Section Generic.
  Hypothesis step_inv : step_inv_P.
  Hypothesis step_mu : step_mu_P.
  Hypothesis progress : progress_P.

  Lemma run_bound : forall ls s s', inv_b s = true -> run s ls = Some s' ->
    inv_b s' = true /\ mu s' + count_real s ls <= mu s.
  Proof.
    induction ls as [|l r IH]; intros s s' Hi Hr; simpl in *.
    - inversion Hr; subst. split; [assumption | lia].
    - destruct (step s l) as [s1|] eqn:E; [|discriminate].
      pose proof (step_inv s l s1 Hi E) as Hi1. destruct (step_mu s l s1 Hi E) as [A B].
      destruct (IH s1 s' Hi1 Hr) as [C D]. split; [exact C|].
      destruct (noop_b s l) eqn:N.
      + specialize (B eq_refl). lia.
      + specialize (A eq_refl). lia.
  Qed.

  Lemma mu_zero_converged : forall s, inv_b s = true -> mu s = 0 -> converged_b s = true.
  Proof.
    intros s Hi Hm. destruct (converged_b s) eqn:C; [reflexivity|]. exfalso.
    destruct (progress s Hi C) as (l & s1 & E & [N | (l2 & s2 & E2 & N2)]).
    - destruct (step_mu s l s1 Hi E) as [A _]. specialize (A N). lia.
    - pose proof (step_inv s l s1 Hi E) as Hi1.
      destruct (step_mu s l s1 Hi E) as [A B]. destruct (step_mu s1 l2 s2 Hi1 E2) as [A2 _]. specialize (A2 N2).
      destruct (noop_b s l); [specialize (B eq_refl) | specialize (A eq_refl)]; lia.
  Qed.

  (* every execution contains at most [mu s] real steps, and one that contains that many ends converged *)
  Theorem quiet_converges_generic : forall s ls s', inv_b s = true -> run s ls = Some s' ->
    count_real s ls <= mu s /\ (mu s <= count_real s ls -> converged_b s' = true).
  Proof.
    intros s ls s' Hi Hr. destruct (run_bound ls s s' Hi Hr) as [Hi' Hb]. split; [lia|].
    intros Hge. apply mu_zero_converged; [exact Hi' | lia].
  Qed.
End Generic.

(* what "converged" says about every live member *)
Lemma converged_members : forall s, inv_b s = true -> converged_b s = true ->
  forall m, In m (s_ms s) -> m_live m = true ->
    m_gen m = c_gen (s_c s) /\ m_hb m = true /\ m_rejoin m = false /\ m_ph m = PIdle
    /\ In (m_id m) (ids (c_ents (s_c s))) /\ c_st (s_c s) = CStable.
Proof.
  intros s Hi H m Hin L. unfold converged_b in H.
  apply andb_true_iff in H. destruct H as [H _]. apply andb_true_iff in H. destruct H as [Hst Hset].
  rewrite forallb_forall in Hset. specialize (Hset m Hin).
  destruct (settled_live _ m Hset L) as (Hp & Hr & Hhb & _ & _ & _ & Hmem & Hg & _).
  apply Nat.eqb_eq in Hg. pose proof Hmem as Hmem'. apply memb_In in Hmem. repeat split; try assumption.
  apply orb_true_iff in Hst. destruct Hst as [E|E]; destruct (c_st (s_c s)) eqn:S; simpl in E; try discriminate; try reflexivity.
  exfalso. unfold inv_b in Hi. apply andb_true_iff in Hi. destruct Hi as [Hi _]. apply andb_true_iff in Hi. destruct Hi as [Hi _].
  apply andb_true_iff in Hi. destruct Hi as [Hwc _]. unfold wf_c in Hwc. rewrite S in Hwc. simpl in Hwc.
  destruct (c_ents (s_c s)) eqn:Ee; [inversion Hmem|]. simpl in Hwc.
  repeat (apply andb_true_iff in Hwc; destruct Hwc as [Hwc ?]). discriminate.
Qed.

(* ------------------------------------------------------------------------------------------ *)
(* Part 3: the per-step facts (proof/C06_conv_final.v, C06_conv_progress.v) instantiate Part 2      *)

Lemma step_inv_holds : step_inv_P.
Proof. intros s l s' Hi Hs. exact (proj1 (step_facts s l s' Hi Hs)). Qed.

Lemma step_mu_holds : step_mu_P.
Proof.
  intros s l s' Hi Hs. pose proof (proj2 (step_facts s l s' Hi Hs)) as H. unfold mu_behaves in H.
  split; intros N; rewrite N in H; exact H.
Qed.

Lemma progress_holds : progress_P.
Proof. intros s Hi Hc. exact (progress_all s Hi Hc). Qed.

(* every quiet step preserves the invariant; a step that is not a no-op heartbeat / commit exchange strictly
   decreases the variant, a no-op does not increase it; and while the state is not converged a real step is enabled
   (after at most one no-op that consumes a silent reply still on the wire) *)
Theorem quiet_progress : forall s, inv_b s = true ->
  (forall l s', step s l = Some s' ->
     inv_b s' = true /\ (noop_b s l = false -> mu s' < mu s) /\ (noop_b s l = true -> mu s' <= mu s))
  /\ (converged_b s = false ->
      exists l s', step s l = Some s' /\
        (noop_b s l = false \/ (exists l2 s2, step s' l2 = Some s2 /\ noop_b s' l2 = false))).
Proof.
  intros s Hi. split.
  - intros l s' Hs. split; [exact (step_inv_holds s l s' Hi Hs) | exact (step_mu_holds s l s' Hi Hs)].
  - intros Hc. exact (progress_holds s Hi Hc).
Qed.

(* every quiet execution from a state satisfying the invariant contains at most [mu s] real steps; one that contains
   that many ends converged: every live member in the coordinator's generation, heartbeat task running *)
Theorem quiet_converges : forall s ls s', inv_b s = true -> run s ls = Some s' ->
  inv_b s' = true /\ count_real s ls <= mu s /\
  (mu s <= count_real s ls ->
     converged_b s' = true /\
     forall m, In m (s_ms s') -> m_live m = true ->
       m_gen m = c_gen (s_c s') /\ m_hb m = true /\ m_rejoin m = false /\ m_ph m = PIdle
       /\ In (m_id m) (ids (c_ents (s_c s'))) /\ c_st (s_c s') = CStable).
Proof.
  intros s ls s' Hi Hr.
  destruct (run_bound step_inv_holds step_mu_holds ls s s' Hi Hr) as [Hi' Hb].
  destruct (quiet_converges_generic step_inv_holds step_mu_holds progress_holds s ls s' Hi Hr) as [A B].
  split; [exact Hi'|]. split; [exact A|]. intros Hge. specialize (B Hge). split; [exact B|].
  intros m Hin L. exact (converged_members s' Hi' B m Hin L).
Qed.

(* a not yet converged state is never the end: the execution can be extended by real steps until it is converged *)
Theorem quiet_schedule_exists : forall n s, inv_b s = true -> mu s <= n ->
  exists ls s', run s ls = Some s' /\ converged_b s' = true /\ inv_b s' = true.
Proof.
  induction n as [|n IH]; intros s Hi Hm.
  - exists [], s. split; [reflexivity|]. split; [apply (mu_zero_converged step_inv_holds step_mu_holds progress_holds s Hi); lia | exact Hi].
  - destruct (converged_b s) eqn:C; [exists [], s; auto|].
    destruct (progress_holds s Hi C) as (l & s1 & E & [N | (l2 & s2 & E2 & N2)]).
    + pose proof (step_inv_holds s l s1 Hi E) as Hi1. destruct (step_mu_holds s l s1 Hi E) as [A _]. specialize (A N).
      destruct (IH s1 Hi1 ltac:(lia)) as (ls & s' & R & Cv & Iv). exists (l :: ls), s'. cbn [run]. rewrite E. auto.
    + pose proof (step_inv_holds s l s1 Hi E) as Hi1. pose proof (step_inv_holds s1 l2 s2 Hi1 E2) as Hi2.
      destruct (step_mu_holds s l s1 Hi E) as [A B]. destruct (step_mu_holds s1 l2 s2 Hi1 E2) as [A2 _]. specialize (A2 N2).
      assert (mu s1 <= mu s) by (destruct (noop_b s l); [apply B; reflexivity | specialize (A eq_refl); lia]).
      destruct (IH s2 Hi2 ltac:(lia)) as (ls & s' & R & Cv & Iv). exists (l :: l2 :: ls), s'. cbn [run]. rewrite E, E2. auto.
Qed.
