(* C06, convergence clause on the quiet-period model (model/C06_Converge.v).
   Part 1: a converged state is closed under every quiet step, and every such step is a no-op heartbeat /
           commit exchange (no JoinGroup is ever emitted).
   Part 2: from the two per-step facts (the invariant is preserved; the variant [mu] strictly decreases on
           every step that is not a no-op and does not increase on a no-op) and the progress fact, every
           execution with at least [mu s] real steps ends converged. *)
From Coq Require Import ZArith List Bool Arith Lia.
From Verif Require Import DispatchActs HeartbeatDispatch JoinRetryDispatch JoinDispatch SyncDispatch CommitDispatch
  C06_Converge C06_conv_lib.
Import ListNotations.
Local Open Scope nat_scope.

(* ------------------------------------------------------------------------------------------ *)
(* Part 1                                                                                       *)

Lemma hb_ok_react : forall m, recv_hb 0 m = (if m_id m =? 0 then set_hb false (set_hbin None m) else set_hbin None m).
Proof. intros m. unfold recv_hb. reflexivity. Qed.

Lemma cm_ok_react : forall m, recv_cm 0 m = set_cmin None m.
Proof. intros m. reflexivity. Qed.

Lemma settled_live : forall c m, settled c m = true -> m_live m = true ->
  m_ph m = PIdle /\ m_rejoin m = false /\ m_hb m = true /\ m_ck m = CkOk /\ m_inbox m = None
  /\ (m_id m =? 0) = false /\ memb (m_id m) (ids (c_ents c)) = true /\ (m_gen m =? c_gen c) = true
  /\ ok_or_none (m_hbin m) = true /\ ok_or_none (m_cmin m) = true.
Proof.
  intros c m H L. unfold settled in H. rewrite L in H. simpl in H. btrue.
  repeat split; try assumption.
  - destruct (m_ph m); simpl in *; congruence.
  - destruct (m_ck m); simpl in *; congruence.
  - destruct (m_inbox m); simpl in *; congruence.
Qed.

Lemma hb_code_settled : forall c m, (c_st c = CStable \/ c_st c = CEmpty) -> settled c m = true -> m_live m = true ->
  hb_code c m = 0%Z /\ cm_code c m = 0%Z.
Proof.
  intros c m Hst H L. destruct (settled_live c m H L) as (_ & _ & _ & Hck & _ & Hid & Hmem & Hgen & _).
  unfold hb_code, cm_code, validate. rewrite Hck, Hmem, Hid, Hgen. simpl.
  destruct Hst as [-> | ->]; split; reflexivity.
Qed.

Lemma bound_ext : forall m m' x, m_live m' = m_live m -> m_id m' = m_id m -> m_inbox m' = m_inbox m ->
  m_ph m' = m_ph m -> m_wait m' = m_wait m -> bound m' x = bound m x.
Proof. intros m m' x A B C D E. unfold bound, waiting_join. rewrite A, B, C, D, E. reflexivity. Qed.

Lemma orphan_updm : forall i f ms e,
  (forall m x, bound (f m) x = bound m x) -> orphan (updm i f ms) e = orphan ms e.
Proof.
  intros i f ms e Hf. unfold orphan. f_equal. unfold updm. induction ms as [|a r IH]; simpl; [reflexivity|].
  rewrite IH. destruct (m_name a =? i); [rewrite Hf|]; reflexivity.
Qed.

Lemma inv_names : forall s, inv_b s = true -> NoDup (map m_name (s_ms s)).
Proof. intros s H. unfold inv_b in H. btrue. apply nodupb_NoDup. assumption. Qed.

Ltac dbool :=
  repeat match goal with
         | |- context [?a =? ?b] => let E := fresh "E" in destruct (a =? b) eqn:E
         | H : context [?a =? ?b] |- _ => let E := fresh "E" in destruct (a =? b) eqn:E
         end.

(* the four no-op updates keep a settled member well-formed and coherent *)
Lemma wf_m_noop : forall m, wf_m m = true -> m_live m = true -> m_ph m = PIdle -> m_inbox m = None ->
  m_hb m = true -> m_ck m = CkOk -> (m_id m =? 0) = false ->
  wf_m (set_hbin (Some 0%Z) m) = true /\ wf_m (set_hbin None m) = true
  /\ wf_m (set_cmin (Some 0%Z) m) = true /\ wf_m (set_cmin None m) = true.
Proof.
  intros m H L P I Hb Ck Id. destruct m as [nm lv id gn ph rj ck hb wt ib hbi cmi]. simpl in *. subst.
  unfold wf_m, can_commit in *. simpl in *. rewrite Id in *. simpl in *.
  destruct rj, (gn =? 0), hbi as [z|], cmi as [z'|]; simpl in *; btrue; repeat split;
    repeat (apply andb_true_iff; split); try assumption; try reflexivity; try discriminate.
Qed.

Lemma coh_ext : forall c m m', m_live m' = m_live m -> m_ph m' = m_ph m -> m_inbox m' = m_inbox m ->
  m_wait m' = m_wait m -> m_id m' = m_id m -> m_gen m' = m_gen m -> coh c m' = coh c m.
Proof. intros c m m' A B C D E F. unfold coh, waiting_join, waiting_sync. rewrite A, B, C, D, E, F. reflexivity. Qed.

Lemma settled_noop : forall c m, settled c m = true -> m_live m = true ->
  settled c (set_hbin (Some 0%Z) m) = true /\ settled c (set_hbin None m) = true
  /\ settled c (set_cmin (Some 0%Z) m) = true /\ settled c (set_cmin None m) = true.
Proof.
  intros c m H L. destruct m as [nm lv id gn ph rj ck hb wt ib hbi cmi]. unfold settled in *. simpl in *. subst.
  simpl in *. btrue. subst. rewrite H, H6, H5, H4, H3, H2. simpl.
  destruct hbi, cmi; simpl in *; rewrite ?H1, ?H0; repeat split; reflexivity.
Qed.

Definition is_send_join (l : label) : bool := match l with LSendJoin _ _ _ => true | _ => false end.

Lemma converged_closed : forall s l s',
  inv_b s = true -> converged_b s = true -> step s l = Some s' ->
  converged_b s' = true /\ inv_b s' = true /\ is_send_join l = false /\ noop_b s l = true.
Proof.
  intros [c ms] l s' Hinv Hc Hs.
  pose proof (inv_names _ Hinv) as ND. simpl in ND.
  unfold converged_b in Hc. simpl in Hc. apply andb_true_iff in Hc. destruct Hc as [Hc Hents].
  apply andb_true_iff in Hc. destruct Hc as [Hst Hset].
  assert (Hst' : c_st c = CStable \/ c_st c = CEmpty).
  { apply orb_true_iff in Hst. destruct Hst as [E|E]; destruct (c_st c); simpl in E; try discriminate; auto. }
  unfold inv_b in Hinv. simpl in Hinv. apply andb_true_iff in Hinv. destruct Hinv as [Hinv Hnd].
  apply andb_true_iff in Hinv. destruct Hinv as [Hinv Hcoh]. apply andb_true_iff in Hinv. destruct Hinv as [Hwc Hwm].
  assert (Hget : forall i m, getm i ms = Some m -> m_live m = true ->
            settled c m = true /\ wf_m m = true /\ coh c m = true).
  { intros i m G L. apply getm_In in G. destruct G as [Hin _]. rewrite forallb_forall in Hset, Hwm, Hcoh. auto. }
  (* the generic conclusion for an update of member [i] by a function that keeps everything the predicates read *)
  assert (Hgen : forall i m f, getm i ms = Some m -> m_live m = true ->
            (forall m0, m_name (f m0) = m_name m0) -> (forall m0 x, bound (f m0) x = bound m0 x) ->
            settled c (f m) = true -> wf_m (f m) = true -> coh c (f m) = true ->
            converged_b (mkS c (updm i f ms)) = true /\ inv_b (mkS c (updm i f ms)) = true).
  { intros i m f G L Hn Hb Hs' Hw' Hc'. split.
    - unfold converged_b. simpl. rewrite Hst. simpl. apply andb_true_iff. split.
      + apply (forallb_updm _ i f ms m ND G Hset Hs').
      + rewrite forallb_forall in Hents |- *. intros e He. rewrite (orphan_updm i f ms e Hb). apply Hents. exact He.
    - unfold inv_b. simpl. rewrite Hwc. simpl. repeat (apply andb_true_iff; split).
      + apply (forallb_updm _ i f ms m ND G Hwm Hw').
      + apply (forallb_updm _ i f ms m ND G Hcoh Hc').
      + rewrite (updm_names i f ms Hn). exact Hnd. }
  destruct l as [i|i v4 y|i|i|i|i|i|i|x rt]; simpl in Hs.
  - (* LFind *) destruct (getm i ms) as [m|] eqn:G; [|discriminate].
    destruct (m_live m) eqn:L; simpl in Hs; [|discriminate].
    destruct (Hget i m G L) as [S _]. destruct (settled_live c m S L) as (_ & _ & _ & Hck & _). rewrite Hck in Hs. discriminate.
  - (* LSendJoin *) destruct (getm i ms) as [m|] eqn:G; [|discriminate].
    destruct (m_live m) eqn:L; simpl in Hs; [|discriminate].
    destruct (Hget i m G L) as [S _]. destruct (settled_live c m S L) as (Hp & Hr & _).
    rewrite Hr in Hs. repeat rewrite andb_false_r in Hs. simpl in Hs. discriminate.
  - (* LRecv *) destruct (getm i ms) as [m|] eqn:G; [|discriminate].
    destruct (m_live m) eqn:L; [|discriminate].
    destruct (Hget i m G L) as [S _]. destruct (settled_live c m S L) as (Hp & _). rewrite Hp in Hs. discriminate.
  - (* LSendSync *) destruct (getm i ms) as [m|] eqn:G; [|discriminate].
    destruct (m_live m) eqn:L; simpl in Hs; [|discriminate].
    destruct (Hget i m G L) as [S _]. destruct (settled_live c m S L) as (Hp & _). rewrite Hp in Hs. discriminate.
  - (* LHbSend *) destruct (getm i ms) as [m|] eqn:G; [|discriminate].
    destruct (m_live m) eqn:L; simpl in Hs; [|discriminate].
    destruct (Hget i m G L) as (S & W & C). destruct (settled_live c m S L) as (Hp & Hr & Hhb & Hck & Hib & Hid & _).
    destruct (hb_code_settled c m Hst' S L) as [Hcode _].
    destruct (m_hb m && is_none (m_hbin m) && ck_known (m_ck m)) eqn:Gd; [|discriminate].
    inversion Hs; subst s'. rewrite Hcode.
    destruct (wf_m_noop m W L Hp Hib Hhb Hck Hid) as (W1 & _). destruct (settled_noop c m S L) as (S1 & _).
    assert (C1 : coh c (set_hbin (Some 0%Z) m) = true) by (rewrite (coh_ext c m (set_hbin (Some 0%Z) m)); try reflexivity; exact C).
    destruct (Hgen i m (set_hbin (Some 0%Z)) G L (fun _ => eq_refl) (fun _ _ => eq_refl) S1 W1 C1) as [A B].
    repeat split; try assumption.
    unfold noop_b, with_m. simpl. rewrite G, Hcode. unfold hb_silent. rewrite hb_ok_react. simpl. rewrite Hid.
    destruct m; simpl. unfold member_eqb. simpl. rewrite !Nat.eqb_refl. simpl.
    destruct m_live, m_ph, m_rejoin, m_ck, m_hb, m_inbox as [[?|?]|], m_cmin; simpl; try rewrite ?Z.eqb_refl, ?Nat.eqb_refl; reflexivity.
  - (* LHbRecv *) destruct (getm i ms) as [m|] eqn:G; [|discriminate].
    destruct (m_live m) eqn:L; [|discriminate].
    destruct (m_hbin m) as [code|] eqn:Hh; [|discriminate].
    destruct (Hget i m G L) as (S & W & C). destruct (settled_live c m S L) as (Hp & Hr & Hhb & Hck & Hib & Hid & _ & _ & Hok & _).
    rewrite Hh in Hok. simpl in Hok. apply Z.eqb_eq in Hok. subst code.
    inversion Hs; subst s'.
    assert (Hf : forall m0, m_name (recv_hb 0 m0) = m_name m0).
    { intros m0. rewrite hb_ok_react. destruct (m_id m0 =? 0); reflexivity. }
    assert (Hm : recv_hb 0 m = set_hbin None m) by (rewrite hb_ok_react, Hid; reflexivity).
    destruct (wf_m_noop m W L Hp Hib Hhb Hck Hid) as (_ & W1 & _). destruct (settled_noop c m S L) as (_ & S1 & _).
    assert (C1 : coh c (recv_hb 0 m) = true) by (rewrite Hm, (coh_ext c m (set_hbin None m)); try reflexivity; exact C).
    assert (Hb : forall m0 x, bound (recv_hb 0 m0) x = bound m0 x).
    { intros m0 x. rewrite hb_ok_react. destruct (m_id m0 =? 0); apply bound_ext; reflexivity. }
    rewrite <- Hm in S1, W1.
    destruct (Hgen i m (recv_hb 0) G L Hf Hb S1 W1 C1) as [A B].
    repeat split; try assumption.
    unfold noop_b, with_m. simpl. rewrite G, Hh. unfold hb_silent. rewrite Hm.
    destruct m; simpl. unfold member_eqb. simpl. rewrite !Nat.eqb_refl. simpl.
    destruct m_live, m_ph, m_rejoin, m_ck, m_hb, m_inbox as [[?|?]|], m_cmin; simpl; try rewrite ?Z.eqb_refl, ?Nat.eqb_refl; reflexivity.
  - (* LCmSend *) destruct (getm i ms) as [m|] eqn:G; [|discriminate].
    destruct (m_live m) eqn:L; simpl in Hs; [|discriminate].
    destruct (Hget i m G L) as (S & W & C). destruct (settled_live c m S L) as (Hp & Hr & Hhb & Hck & Hib & Hid & _).
    destruct (hb_code_settled c m Hst' S L) as [_ Hcode].
    match type of Hs with (if ?g then _ else _) = _ => destruct g eqn:Gd; [|discriminate] end.
    inversion Hs; subst s'. rewrite Hcode.
    destruct (wf_m_noop m W L Hp Hib Hhb Hck Hid) as (_ & _ & W1 & _). destruct (settled_noop c m S L) as (_ & _ & S1 & _).
    assert (C1 : coh c (set_cmin (Some 0%Z) m) = true) by (rewrite (coh_ext c m (set_cmin (Some 0%Z) m)); try reflexivity; exact C).
    destruct (Hgen i m (set_cmin (Some 0%Z)) G L (fun _ => eq_refl) (fun _ _ => eq_refl) S1 W1 C1) as [A B].
    repeat split; try assumption.
    unfold noop_b, with_m. simpl. rewrite G, Hcode. unfold cm_silent. rewrite cm_ok_react.
    destruct m; simpl. unfold member_eqb. simpl. rewrite !Nat.eqb_refl. simpl.
    destruct m_live, m_ph, m_rejoin, m_ck, m_hb, m_inbox as [[?|?]|], m_hbin; simpl; try rewrite ?Z.eqb_refl, ?Nat.eqb_refl; reflexivity.
  - (* LCmRecv *) destruct (getm i ms) as [m|] eqn:G; [|discriminate].
    destruct (m_live m) eqn:L; [|discriminate].
    destruct (m_cmin m) as [code|] eqn:Hh; [|discriminate].
    destruct (Hget i m G L) as (S & W & C). destruct (settled_live c m S L) as (Hp & Hr & Hhb & Hck & Hib & Hid & _ & _ & _ & Hok).
    rewrite Hh in Hok. simpl in Hok. apply Z.eqb_eq in Hok. subst code.
    inversion Hs; subst s'.
    destruct (wf_m_noop m W L Hp Hib Hhb Hck Hid) as (_ & _ & _ & W1). destruct (settled_noop c m S L) as (_ & _ & _ & S1).
    assert (C1 : coh c (recv_cm 0 m) = true) by (rewrite (coh_ext c m (recv_cm 0 m)); try reflexivity; exact C).
    destruct (Hgen i m (recv_cm 0) G L (fun _ => eq_refl) (fun _ _ => eq_refl) S1 W1 C1) as [A B].
    repeat split; try assumption.
    unfold noop_b, with_m. simpl. rewrite G, Hh. unfold cm_silent. rewrite cm_ok_react.
    destruct m; simpl. unfold member_eqb. simpl. rewrite !Nat.eqb_refl. simpl.
    destruct m_live, m_ph, m_rejoin, m_ck, m_hb, m_inbox as [[?|?]|], m_hbin; simpl; try rewrite ?Z.eqb_refl, ?Nat.eqb_refl; reflexivity.
  - (* LExpire *) destruct (find_ent x (c_ents c)) as [e|] eqn:F; [|discriminate].
    unfold find_ent in F. apply find_some in F. destruct F as [Hin _].
    rewrite forallb_forall in Hents. specialize (Hents e Hin). btrue. rewrite H in Hs. simpl in Hs. discriminate.
Qed.

(* ------------------------------------------------------------------------------------------ *)
(* Part 2: from the per-step facts to convergence of every execution                             *)

Definition step_inv_P : Prop := forall s l s', inv_b s = true -> step s l = Some s' -> inv_b s' = true.
Definition step_mu_P : Prop := forall s l s', inv_b s = true -> step s l = Some s' ->
  (noop_b s l = false -> mu s' < mu s) /\ (noop_b s l = true -> mu s' <= mu s).
(* a real step is enabled, at the latest after one no-op (a silent reply still on the wire is consumed first) *)
Definition progress_P : Prop := forall s, inv_b s = true -> converged_b s = false ->
  exists l s', step s l = Some s' /\
    (noop_b s l = false \/ (exists l2 s2, step s' l2 = Some s2 /\ noop_b s' l2 = false)).

Section Generic.
  Hypothesis step_inv : step_inv_P.
  Hypothesis step_mu : step_mu_P.
  Hypothesis progress : progress_P.

  Lemma run_bound : forall ls s s', inv_b s = true -> run s ls = Some s' ->
    inv_b s' = true /\ mu s' + count_real s ls <= mu s.
  Proof.
    induction ls as [|l r IH]; intros s s' Hi Hr; simpl in *.
    - inversion Hr; subst. split; [assumption | lia].
    - destruct (step s l) as [s1|] eqn:E; [|discriminate].
      pose proof (step_inv s l s1 Hi E) as Hi1. destruct (step_mu s l s1 Hi E) as [A B].
      destruct (IH s1 s' Hi1 Hr) as [C D]. split; [exact C|].
      destruct (noop_b s l) eqn:N.
      + specialize (B eq_refl). lia.
      + specialize (A eq_refl). lia.
  Qed.

  Lemma mu_zero_converged : forall s, inv_b s = true -> mu s = 0 -> converged_b s = true.
  Proof.
    intros s Hi Hm. destruct (converged_b s) eqn:C; [reflexivity|]. exfalso.
    destruct (progress s Hi C) as (l & s1 & E & [N | (l2 & s2 & E2 & N2)]).
    - destruct (step_mu s l s1 Hi E) as [A _]. specialize (A N). lia.
    - pose proof (step_inv s l s1 Hi E) as Hi1.
      destruct (step_mu s l s1 Hi E) as [A B]. destruct (step_mu s1 l2 s2 Hi1 E2) as [A2 _]. specialize (A2 N2).
      destruct (noop_b s l); [specialize (B eq_refl) | specialize (A eq_refl)]; lia.
  Qed.

  (* every execution contains at most [mu s] real steps, and one that contains that many ends converged *)
  Theorem quiet_converges_generic : forall s ls s', inv_b s = true -> run s ls = Some s' ->
    count_real s ls <= mu s /\ (mu s <= count_real s ls -> converged_b s' = true).
  Proof.
    intros s ls s' Hi Hr. destruct (run_bound ls s s' Hi Hr) as [Hi' Hb]. split; [lia|].
    intros Hge. apply mu_zero_converged; [exact Hi' | lia].
  Qed.
End Generic.

(* what "converged" says about every live member *)
Lemma converged_members : forall s, inv_b s = true -> converged_b s = true ->
  forall m, In m (s_ms s) -> m_live m = true ->
    m_gen m = c_gen (s_c s) /\ m_hb m = true /\ m_rejoin m = false /\ m_ph m = PIdle
    /\ In (m_id m) (ids (c_ents (s_c s))) /\ c_st (s_c s) = CStable.
Proof.
  intros s Hi H m Hin L. unfold converged_b in H.
  apply andb_true_iff in H. destruct H as [H _]. apply andb_true_iff in H. destruct H as [Hst Hset].
  rewrite forallb_forall in Hset. specialize (Hset m Hin).
  destruct (settled_live _ m Hset L) as (Hp & Hr & Hhb & _ & _ & _ & Hmem & Hg & _).
  apply Nat.eqb_eq in Hg. pose proof Hmem as Hmem'. apply memb_In in Hmem. repeat split; try assumption.
  apply orb_true_iff in Hst. destruct Hst as [E|E]; destruct (c_st (s_c s)) eqn:S; simpl in E; try discriminate; try reflexivity.
  exfalso. unfold inv_b in Hi. apply andb_true_iff in Hi. destruct Hi as [Hi _]. apply andb_true_iff in Hi. destruct Hi as [Hi _].
  apply andb_true_iff in Hi. destruct Hi as [Hwc _]. unfold wf_c in Hwc. rewrite S in Hwc. simpl in Hwc.
  destruct (c_ents (s_c s)) eqn:Ee; [inversion Hmem|]. simpl in Hwc.
  repeat (apply andb_true_iff in Hwc; destruct Hwc as [Hwc ?]). discriminate.
Qed.
