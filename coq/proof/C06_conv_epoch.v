(* Per-step facts, part 3: the steps that change the coordinator. *)
From Coq Require Import ZArith List Bool Arith Lia.
From Verif Require Import DispatchActs HeartbeatDispatch JoinRetryDispatch JoinDispatch SyncDispatch CommitDispatch
  C06_Converge C06_conv_lib C06_conv_refl C06_conv_abs C06_conv_checks C06_conv_step C06_conv_cases C06_conv_coord.
Import ListNotations.
Local Open Scope nat_scope.

Definition join_out (o : outcome) (m : member) : member := apply_outcome o (sent_join m).

Lemma fresh_facts : forall c ms y, fresh (mkS c ms) y = true ->
  y <> 0 /\ memb y (ids (c_ents c)) = false /\ memb y (c_pend c) = false
  /\ forall m0, In m0 ms -> ~ has_id m0 y.
Proof.
  intros c ms y H. unfold fresh in H. cbn [s_c s_ms] in H.
  apply andb_true_iff in H; destruct H as [H H4]. apply andb_true_iff in H; destruct H as [H H3].
  apply andb_true_iff in H; destruct H as [H1 H2]. apply negb_true_iff in H1, H2, H3. apply Nat.eqb_neq in H1.
  repeat split; try assumption. intros m0 H0 [_ Hh]. rewrite forallb_forall in H4. specialize (H4 m0 H0).
  apply andb_true_iff in H4. destruct H4 as [A B]. apply negb_true_iff in A, B. apply Nat.eqb_neq in A, B.
  destruct Hh as [Hh|Hh]; [congruence|]. unfold focus_of in Hh. destruct (ph_eqb (m_ph m0) PJoinSent); congruence.
Qed.

Lemma others_not_x : forall c ms i m x, inv_facts c ms -> getm i ms = Some m -> m_live m = true -> has_id m x ->
  forall m0, In m0 ms -> m_name m0 <> i -> m_live m0 = true -> ~ has_id m0 x.
Proof.
  intros c ms i m x Hinv G L Hx m0 H0 Hn L0 Hx0. destruct (getm_In i ms m G) as [Hin Hnm].
  assert (D : disj m m0) by (apply (pairwise_all ms (iv_disj _ _ Hinv) (iv_names _ _ Hinv)); [exact Hin | exact H0 | congruence]).
  exact (D L L0 x Hx Hx0).
Qed.

(* ---- JoinGroup with an empty member id, v4+: MEMBER_ID_REQUIRED and a new pending id ---- *)
Lemma case_join_79 : forall c ms i m y, inv_facts c ms -> getm i ms = Some m -> m_live m = true ->
  m_ph m = PIdle -> m_inbox m = None -> m_cmin m = None -> m_rejoin m = true -> ck_known (m_ck m) = true -> ck_stale (m_ck m) = false ->
  m_id m = 0 -> fresh (mkS c ms) y = true ->
  let c' := mkC (c_gen c) (c_st c) (c_ents c) (y :: c_pend c) (c_leader c) in
  let F := join_out (Immediate y (RpJoin 79 0)) in
  inv_facts c' (updm i F ms) /\ mu_behaves true (mkS c ms) (mkS c' (updm i F ms)).
Proof.
  intros c ms i m y Hinv G L Hp Hib Hcm Hrj Hk Hns Hid Hfr c' F. get_facts Hinv G.
  destruct (fresh_facts c ms y Hfr) as (Hy0 & Hye & Hyp & Hyo). pose proof (wf_c_parts c Hwc) as W.
  assert (Hwc' : wf_c c' = true).
  { apply wf_c_of_parts. constructor; unfold c'; cbn [c_gen c_st c_ents c_pend c_leader];
      try (first [exact (wc_nodup c W) | exact (wc_0e c W) | exact (wc_nonempty c W) | exact (wc_empty c W) | exact (wc_jp c W)
                 | exact (wc_sp c W) | exact (wc_notall c W) | exact (wc_leader c W) | exact (wc_lsp c W)]).
    - unfold memb. cbn [existsb]. destruct (Nat.eqb_spec 0 y); [congruence|]. exact (wc_0p c W).
    - cbn [forallb]. rewrite Hye. exact (wc_pend c W). }
  assert (Hframe : forall m0, (forall x, has_id m0 x -> x <> y) -> absm c' m0 = absm c m0).
  { intros m0 Hx. apply absm_frame; try reflexivity; [apply wf_c_zfacts; exact Hwc | apply wf_c_zfacts; exact Hwc'|].
    intros x Hh. repeat split; try reflexivity. unfold c'. cbn [c_pend]. unfold memb. cbn [existsb].
    destruct (Nat.eqb_spec x y) as [E|E]; [exfalso; exact (Hx x Hh E) | reflexivity]. }
  pose proof (use_check pre_sendjoin chk_join_79 c m ok_join_79 Hwc L Hwm (sendjoin_pre c m L Hwm Hp Hib Hcm Hk Hrj)) as H.
  unfold chk_join_79 in H. rewrite Hia in H.
  assert (E1 : ck_stale (a_ck (absm c m)) = false) by exact Hns.
  assert (E2 : a_idz (absm c m) = true) by (unfold absm; pcbn; rewrite Hid; reflexivity).
  rewrite E1, E2 in H. cbn [negb andb orb] in H.
  assert (EA : absm c' (F m) = a_join_79 (absm c m)).
  { unfold F, join_out, apply_outcome, sent_join, a_join_79, a_enter_join, absm, focus_of, rgen_of, ib_of. pcbn. cbn [ph_eqb].
    rewrite Hid. unfold c'. cbn [c_gen c_st c_ents c_pend]. rewrite Hye.
    assert (X1 : memb y (y :: c_pend c) = true) by (unfold memb; cbn [existsb]; rewrite Nat.eqb_refl; reflexivity).
    assert (X2 : memb 0 (y :: c_pend c) = memb 0 (c_pend c)) by (unfold memb; cbn [existsb]; destruct (Nat.eqb_spec 0 y); [congruence | reflexivity]).
    rewrite X1, X2. unfold ent_jp, ent_sp. cbn [c_ents]. rewrite (find_ent_none y _ Hye).
    destruct (Nat.eqb_spec y 0); [congruence|]. rewrite (Nat.eqb_sym 0 (c_gen c)). reflexivity. }
  rewrite <- EA in H.
  apply (local_step c c' ms i m F 0 true Hinv G L (fun _ => eq_refl) Hwc' eq_refl); try assumption.
  - intros m0 H0 Hn0 L0. apply Hframe. intros x Hh E. subst x. exact (Hyo m0 H0 Hh).
  - intros x [Hx Hh]. unfold F, join_out, apply_outcome, sent_join, focus_of in Hh. pcbn_in Hh. cbn [ph_eqb] in Hh.
    destruct Hh as [Hh|Hh]; [left; split; [exact Hx | left; exact Hh]|]. right. intros m0 H0 _. subst x. exact (Hyo m0 H0).
  - pose proof (orphans_same_ids c c' ms i m F (iv_names _ _ Hinv) G eq_refl) as HK.
    rewrite (dkc_zero c m (F m)) in HK; [lia|]. intros x Hb. unfold bound in *. unfold F, join_out, apply_outcome, sent_join. pcbn.
    apply andb_true_iff in Hb. destruct Hb as [Hl Hb]. rewrite Hl. rewrite Hp in Hb. cbn [ph_eqb andb orb] in Hb. rewrite orb_false_r in Hb.
    rewrite Hb. reflexivity.
Qed.

(* ---- a JoinGroup accepted for the id x (the member's id, or a new one for an empty id) ---- *)
Definition c1_of (c : coord) (x : nat) : coord :=
  mkC (c_gen c) (c_st c) (ents1 (c_ents c) x) (remove_id x (c_pend c)) (c_leader c).
Definition join_target (m : member) (y : nat) : nat := if m_id m =? 0 then y else m_id m.
Definition join_accepts (c : coord) (ms : list member) (m : member) (y : nat) : Prop :=
  (m_id m = 0 /\ fresh (mkS c ms) y = true)
  \/ (m_id m <> 0 /\ (memb (m_id m) (ids (c_ents c)) = true \/ memb (m_id m) (c_pend c) = true)).

Lemma target_nz : forall c ms m y, wf_c c = true -> join_accepts c ms m y -> join_target m y <> 0.
Proof.
  intros c ms m y Hc [[E Hf]|[E _]]; unfold join_target.
  - rewrite E. cbn. destruct (fresh_facts c ms y Hf) as (H & _). exact H.
  - destruct (Nat.eqb_spec (m_id m) 0); [contradiction | assumption].
Qed.

Lemma c1_frame : forall c x m0, wf_c c = true -> x <> 0 -> (forall z, has_id m0 z -> z <> x) -> absm (c1_of c x) m0 = absm c m0.
Proof.
  intros c x m0 Hc Hx Hn. pose proof (wf_c_zfacts c Hc) as (Z1 & Z2 & Z3 & Z4).
  apply absm_frame; try reflexivity; [repeat split; assumption | |].
  - unfold zfacts, c1_of, ent_jp, ent_sp. cbn [c_ents c_pend]. destruct (flags_ents1 (c_ents c) x 0) as [A B].
    fold (flag_of e_jp 0 (ents1 (c_ents c) x)) (flag_of e_sp 0 (ents1 (c_ents c) x)). rewrite A, B, memb_ents1.
    destruct (Nat.eqb_spec 0 x); [congruence|]. rewrite Z1. rewrite (memb_remove_other 0 x) by congruence.
    repeat split; assumption.
  - intros z Hz. specialize (Hn z Hz). unfold c1_of, ent_jp, ent_sp. cbn [c_ents c_pend].
    destruct (flags_ents1 (c_ents c) x z) as [A B].
    fold (flag_of e_jp z (ents1 (c_ents c) x)) (flag_of e_sp z (ents1 (c_ents c) x)). rewrite A, B, memb_ents1.
    destruct (Nat.eqb_spec z x); [contradiction|]. rewrite orb_false_r, (memb_remove_other z x) by assumption.
    repeat split; reflexivity.
Qed.

Lemma absm_join_parked : forall c ms m y, wf_c c = true -> join_accepts c ms m y -> m_ph m = PIdle -> m_inbox m = None ->
  let x := join_target m y in
  absm (c1_of c x) (join_out (Parked x) m) = a_join_parked (absm c m).
Proof.
  intros c ms m y Hc Ha Hp Hib x. pose proof (wf_c_zfacts c Hc) as (Z1 & Z2 & Z3 & Z4).
  pose proof (target_nz c ms m y Hc Ha) as Hx. fold x in Hx.
  unfold absm, a_join_parked, join_out, apply_outcome, sent_join, focus_of, rgen_of, ib_of. pcbn. cbn [ph_eqb].
  unfold c1_of, ent_jp, ent_sp. cbn [c_gen c_st c_ents c_pend].
  fold (flag_of e_jp (m_id m) (ents1 (c_ents c) x)) (flag_of e_sp (m_id m) (ents1 (c_ents c) x))
       (flag_of e_jp x (ents1 (c_ents c) x)) (flag_of e_sp x (ents1 (c_ents c) x)).
  destruct (flags_ents1 (c_ents c) x (m_id m)) as [A1 B1]. destruct (flags_ents1 (c_ents c) x x) as [A2 B2].
  rewrite A1, B1, A2, B2, !memb_ents1, Nat.eqb_refl, orb_true_r, memb_remove_same.
  fold (flag_of e_sp (m_id m) (c_ents c)) (flag_of e_sp x (c_ents c)).
  assert (Hx0 : (x =? 0) = false) by (apply Nat.eqb_neq; exact Hx). rewrite Hx0.
  rewrite (Nat.eqb_sym 0 (c_gen c)).
  destruct Ha as [[E Hf]|[E Hm]].
  - assert (Ex : x = y) by (unfold x, join_target; rewrite E; reflexivity).
    destruct (fresh_facts c ms y Hf) as (_ & Hye & _).
    assert (S0 : flag_of e_sp 0 (c_ents c) = false) by exact Z4.
    assert (S3 : flag_of e_jp 0 (c_ents c) = false) by exact Z3.
    assert (Sx : flag_of e_sp x (c_ents c) = false) by (rewrite Ex; unfold flag_of; rewrite (find_ent_none y _ Hye); reflexivity).
    assert (P0 : memb 0 (remove_id x (c_pend c)) = false) by (rewrite (memb_remove_other 0 x) by congruence; exact Z2).
    rewrite E, Z1, S0, S3, Sx, P0. clearbody x. destruct x as [|x']; [congruence|]. reflexivity.
  - assert (Ex : x = m_id m) by (unfold x, join_target; destruct (Nat.eqb_spec (m_id m) 0); [contradiction | reflexivity]).
    rewrite Ex. rewrite Nat.eqb_refl. destruct (Nat.eqb_spec (m_id m) 0); [contradiction|]. cbn [negb].
    rewrite orb_true_r, memb_remove_same. reflexivity.
Qed.

Lemma target_cases : forall c ms i m y, inv_facts c ms -> getm i ms = Some m -> m_live m = true -> m_ph m = PIdle ->
  join_accepts c ms m y ->
  let x := join_target m y in
  (forall m0, In m0 ms -> m_name m0 <> i -> m_live m0 = true -> forall z, has_id m0 z -> z <> x)
  /\ (forall z, has_id (join_out (Parked x) m) z -> has_id m z \/ (forall m0, In m0 ms -> m_name m0 <> i -> ~ has_id m0 z))
  /\ bound (join_out (Parked x) m) x = true
  /\ (forall z, bound m z = true -> bound (join_out (Parked x) m) z = true).
Proof.
  intros c ms i m y Hinv G L Hp Ha x. pose proof (target_nz c ms m y (iv_wfc _ _ Hinv) Ha) as Hx. fold x in Hx.
  assert (Hfm : focus_of (join_out (Parked x) m) = x) by reflexivity.
  assert (Hidm : m_id (join_out (Parked x) m) = m_id m) by reflexivity.
  assert (Hlm : m_live (join_out (Parked x) m) = m_live m) by reflexivity.
  assert (Hbx : bound (join_out (Parked x) m) x = true).
  { unfold bound. rewrite Hlm, L. cbn. rewrite Nat.eqb_refl, orb_true_r. reflexivity. }
  assert (Hbz : forall z, bound m z = true -> bound (join_out (Parked x) m) z = true).
  { intros z Hb. unfold bound in *. rewrite Hlm, Hidm. rewrite Hp in Hb. cbn [ph_eqb andb orb] in Hb. rewrite orb_false_r in Hb.
    apply andb_true_iff in Hb. destruct Hb as [Hl Hb]. rewrite Hl, Hb. reflexivity. }
  destruct Ha as [[E Hf]|[E Hm]].
  - assert (Ex : x = y) by (unfold x, join_target; rewrite E; reflexivity).
    destruct (fresh_facts c ms y Hf) as (_ & _ & _ & Hyo). repeat split; try assumption.
    + intros m0 H0 _ _ z Hz Ezx. rewrite Ex in Ezx. subst z. exact (Hyo m0 H0 Hz).
    + intros z [Hz Hh]. rewrite Hfm, Hidm in Hh. destruct Hh as [Hh|Hh]; [left; split; [exact Hz | left; exact Hh]|].
      right. intros m0 H0 _. rewrite <- Hh, Ex. exact (Hyo m0 H0).
  - assert (Ex : x = m_id m) by (unfold x, join_target; destruct (Nat.eqb_spec (m_id m) 0); [contradiction | reflexivity]).
    assert (Hhm : has_id m x) by (split; [exact Hx | left; symmetry; exact Ex]).
    repeat split; try assumption.
    + intros m0 H0 Hn0 L0 z Hz Ezx. subst z. exact (others_not_x c ms i m x Hinv G L Hhm m0 H0 Hn0 L0 Hz).
    + intros z [Hz Hh]. rewrite Hfm, Hidm in Hh. left. split; [exact Hz|]. left. destruct Hh as [Hh|Hh]; congruence.
Qed.

(* ... in PreparingRebalance, not the last one to join *)
Lemma wfc_c1_preparing : forall c x, wf_c_facts c -> c_st c = CPreparing -> x <> 0 -> all_joined (ents1 (c_ents c) x) = false ->
  wf_c (c1_of c x) = true.
Proof.
  intros c x W Hst Hx Hnj. destruct (tbl_ents1 (c_ents c) (c_pend c) x (tbl_of_wf c W) Hx) as (T1 & T2 & T3 & T4).
  pose proof (wc_sp c W) as Hsp. rewrite Hst in Hsp. cbn [cstate_eqb orb] in Hsp.
  apply wf_c_of_parts. constructor; unfold c1_of; cbn [c_gen c_st c_ents c_pend c_leader]; rewrite ?Hst; cbn [cstate_eqb negb orb]; try assumption; try reflexivity.
  - pose proof (ents1_nonempty (c_ents c) x). destruct (ents1 (c_ents c) x); [congruence | reflexivity].
  - apply sp_ents1. exact Hsp.
  - rewrite Hnj. reflexivity.
  - unfold ent_sp. cbn [c_ents]. fold (flag_of e_sp (c_leader c) (ents1 (c_ents c) x)).
    destruct (flags_ents1 (c_ents c) x (c_leader c)) as [_ B]. rewrite B. exact (wc_lsp c W).
Qed.

Lemma case_join_parked : forall c ms i m y, inv_facts c ms -> getm i ms = Some m -> m_live m = true ->
  m_ph m = PIdle -> m_inbox m = None -> m_cmin m = None -> m_rejoin m = true -> ck_known (m_ck m) = true -> ck_stale (m_ck m) = false ->
  join_accepts c ms m y -> c_st c = CPreparing ->
  let x := join_target m y in
  all_joined (ents1 (c_ents c) x) = false ->
  let F := join_out (Parked x) in
  inv_facts (c1_of c x) (updm i F ms) /\ mu_behaves true (mkS c ms) (mkS (c1_of c x) (updm i F ms)).
Proof.
  intros c ms i m y Hinv G L Hp Hib Hcm Hrj Hk Hns Ha Hst x Hnj F. get_facts Hinv G. pose proof (wf_c_parts c Hwc) as W.
  pose proof (target_nz c ms m y Hwc Ha) as Hx. fold x in Hx.
  destruct (target_cases c ms i m y Hinv G L Hp Ha) as (Hoth & Hids & Hbx & Hbz). fold x in Hoth, Hids, Hbx, Hbz.
  pose proof (wfc_c1_preparing c x W Hst Hx Hnj) as Hwc'.
  pose proof (use_check pre_sendjoin chk_join_parked c m ok_join_parked Hwc L Hwm (sendjoin_pre c m L Hwm Hp Hib Hcm Hk Hrj)) as H.
  unfold chk_join_parked, join_ok_pre in H. rewrite Hia in H.
  assert (E1 : ck_stale (a_ck (absm c m)) = false) by exact Hns.
  assert (E2 : a_idz (absm c m) || a_id_e (absm c m) || a_id_p (absm c m) = true).
  { unfold absm. pcbn. destruct Ha as [[E _]|[_ [E|E]]]; [rewrite E; reflexivity | rewrite E; apply orb_true_iff; left; apply orb_true_r | rewrite E; apply orb_true_r]. }
  assert (E3 : cstate_eqb (a_st (absm c m)) CPreparing = true) by (unfold absm; pcbn; rewrite Hst; reflexivity).
  rewrite E1, E2, E3 in H. cbn [negb andb orb] in H.
  rewrite <- (absm_join_parked c ms m y Hwc Ha Hp Hib) in H. fold x in H.
  apply (local_step c (c1_of c x) ms i m F 0 true Hinv G L (fun _ => eq_refl) Hwc'); try assumption.
  - unfold erank, c1_of. reflexivity.
  - intros m0 H0 Hn0 L0. apply c1_frame; [exact Hwc | exact Hx | exact (Hoth m0 H0 Hn0 L0)].
  - assert (HK : count_orphans (mkS (c1_of c x) (updm i F ms)) <= count_orphans (mkS c ms) + dkc c m (F m)).
    { destruct (memb x (ids (c_ents c))) eqn:Ex.
      - apply orphans_same_ids; [exact (iv_names _ _ Hinv) | exact G|]. unfold c1_of. cbn [c_ents]. rewrite ids_ents1, Ex. reflexivity.
      - apply (orphans_new_entry c (c1_of c x) ms i m F x); [exact (iv_names _ _ Hinv) | exact G | | exact Hbx].
        unfold c1_of. cbn [c_ents]. rewrite ids_ents1, Ex. reflexivity. }
    rewrite (dkc_zero c m (F m) Hbz) in HK. lia.
Qed.

(* ---- a known member joining while nothing is being prepared: answered at once, the coordinator is unchanged ---- *)
Lemma set_jp_roundtrip : forall x es, forallb (fun e => negb (e_jp e)) es = true -> set_jp x false (set_jp x true es) = es.
Proof.
  intros x es H. unfold set_jp. rewrite map_map. rewrite <- (map_id es) at 2. apply map_ext_in. intros e He.
  rewrite forallb_forall in H. specialize (H e He). apply negb_true_iff in H.
  destruct (e_id e =? x) eqn:E; cbn [e_id]; rewrite E; [|reflexivity]. destruct e as [a b d]. cbn in *. subst b. reflexivity.
Qed.
Lemma remove_absent : forall x l, memb x l = false -> remove_id x l = l.
Proof.
  intros x l H. unfold remove_id. induction l as [|a r IH]; [reflexivity|]. unfold memb in H. cbn [existsb] in H.
  apply orb_false_iff in H. destruct H as [H1 H2]. cbn [filter]. rewrite (Nat.eqb_sym a x), H1. cbn [negb]. rewrite (IH H2). reflexivity.
Qed.
Lemma coord_eta : forall c, mkC (c_gen c) (c_st c) (c_ents c) (c_pend c) (c_leader c) = c.
Proof. destruct c; reflexivity. Qed.

Lemma join_known_immediate : forall c x, wf_c c = true -> memb x (ids (c_ents c)) = true ->
  (c_st c = CCompleting \/ (c_st c = CStable /\ (x =? c_leader c) = false)) ->
  join_known c x = (c, Immediate x (RpJoin 0 (c_gen c)), []).
Proof.
  intros c x Hc Hx Hst. pose proof (wf_c_parts c Hc) as W. unfold join_known. rewrite Hx. cbn [negb].
  assert (Hjp : forallb (fun e => negb (e_jp e)) (c_ents c) = true).
  { pose proof (wc_jp c W) as H. destruct Hst as [E|[E _]]; rewrite E in H; exact H. }
  assert (Hp : remove_id x (c_pend c) = c_pend c) by (apply remove_absent; apply (pend_not_ent c x Hc Hx)).
  cbn [c_pend]. rewrite (set_jp_roundtrip x _ Hjp), Hp, coord_eta.
  destruct Hst as [E|[E El]]; rewrite E; [reflexivity|]. cbn [orb]. rewrite El. reflexivity.
Qed.

Lemma case_join_immediate : forall c ms i m, inv_facts c ms -> getm i ms = Some m -> m_live m = true ->
  m_ph m = PIdle -> m_inbox m = None -> m_cmin m = None -> m_rejoin m = true -> ck_known (m_ck m) = true -> ck_stale (m_ck m) = false ->
  m_id m <> 0 -> memb (m_id m) (ids (c_ents c)) = true -> (c_st c = CCompleting \/ c_st c = CStable) ->
  let F := join_imm 0 (c_gen c) in
  inv_facts c (updm i F ms) /\ mu_behaves true (mkS c ms) (mkS c (updm i F ms)).
Proof.
  intros c ms i m Hinv G L Hp Hib Hcm Hrj Hk Hns Hid He Hst F. get_facts Hinv G. pose proof (wf_c_parts c Hwc) as W.
  pose proof (use_check pre_sendjoin chk_join_immediate c m ok_join_immediate Hwc L Hwm (sendjoin_pre c m L Hwm Hp Hib Hcm Hk Hrj)) as H.
  assert (Hg0 : (c_gen c =? 0) = false).
  { pose proof (wc_leader c W) as Hl. destruct Hst as [E|E]; rewrite E in Hl; apply andb_true_iff in Hl; destruct Hl as [_ Hl]; apply negb_true_iff in Hl; exact Hl. }
  assert (Hjp : ent_jp c (m_id m) = false).
  { pose proof (wc_jp c W) as Hj. unfold ent_jp. apply (find_ent_flag e_jp). destruct Hst as [E|E]; rewrite E in Hj; exact Hj. }
  assert (Hz : (m_id m =? 0) = false) by (apply Nat.eqb_neq; exact Hid).
  unfold chk_join_immediate, join_ok_pre in H. rewrite Hia in H.
  assert (E1 : ck_stale (a_ck (absm c m)) = false) by exact Hns. assert (E2 : a_idz (absm c m) = false) by exact Hz.
  assert (E3 : a_id_e (absm c m) = true) by exact He. assert (E4 : a_G0 (absm c m) = false) by exact Hg0.
  assert (E5 : a_id_jp (absm c m) = false) by exact Hjp.
  assert (E6 : cstate_eqb (a_st (absm c m)) CStable || cstate_eqb (a_st (absm c m)) CCompleting = true).
  { unfold absm. pcbn. destruct Hst as [E|E]; rewrite E; reflexivity. }
  rewrite E1, E2, E3, E4, E5, E6 in H. cbn [negb andb orb] in H.
  assert (EA : absm c (F m) = a_join_immediate (absm c m)).
  { unfold F. rewrite (absm_join_imm c m 0 (c_gen c) Hp Hib). unfold a_join_immediate.
    rewrite E2, E3, E5, Hg0, Nat.eqb_refl, Nat.leb_refl. assert (E7 : a_id_p (absm c m) = false) by exact (pend_not_ent c _ Hwc He).
    rewrite E7. reflexivity. }
  rewrite <- EA in H.
  destruct (keep_id_ids c m (F m)) as [Hids Hdk]; try reflexivity. { rewrite Hp; discriminate. } { right; reflexivity. }
  apply (local_same c ms i m F 0 true Hinv G L (fun _ => eq_refl) H Hids). lia.
Qed.

(* ---- a follower's SyncGroup in CompletingRebalance: parked ---- *)
Definition sync_park (m : member) : member := set_inbox None (set_ph PSyncSent (set_rejoin false m)).
Lemma case_sync_park : forall c ms i m, inv_facts c ms -> getm i ms = Some m -> m_live m = true ->
  m_ph m = PJoined -> m_inbox m = None -> ck_known (m_ck m) = true -> ck_stale (m_ck m) = false ->
  c_st c = CCompleting -> validate c (m_id m) (m_gen m) = 0%Z -> (m_id m =? c_leader c) = false ->
  let c' := mkC (c_gen c) (c_st c) (set_sp (m_id m) true (c_ents c)) (c_pend c) (c_leader c) in
  inv_facts c' (updm i sync_park ms) /\ mu_behaves true (mkS c ms) (mkS c' (updm i sync_park ms)).
Proof.
  intros c ms i m Hinv G L Hp Hib Hk Hns Hst Hv Hnl c'. get_facts Hinv G. pose proof (wf_c_parts c Hwc) as W.
  assert (Hval : memb (m_id m) (ids (c_ents c)) = true /\ (m_id m =? 0) = false /\ (m_gen m =? c_gen c) = true).
  { unfold validate in Hv. destruct (memb (m_id m) (ids (c_ents c))); [|discriminate]. destruct (m_id m =? 0); [discriminate|].
    cbn [negb orb] in Hv. destruct (m_gen m =? c_gen c); [auto | discriminate]. }
  destruct Hval as (He & Hz & Hg).
  assert (Hwc' : wf_c c' = true).
  { pose proof (wc_nonempty c W) as N1. pose proof (wc_jp c W) as N2. pose proof (wc_leader c W) as N3. rewrite Hst in N1, N2, N3.
    cbn [cstate_eqb orb] in N1, N2.
    apply wf_c_of_parts. constructor; unfold c'; cbn [c_gen c_st c_ents c_pend c_leader]; rewrite ?ids_set_sp, ?Hst; cbn [cstate_eqb negb orb];
      try (first [exact (wc_nodup c W) | exact (wc_0e c W) | exact (wc_0p c W) | exact (wc_pend c W) | exact N3 | reflexivity]).
    - destruct (c_ents c); [exact N1 | reflexivity].
    - rewrite forallb_forall in N2 |- *.
      intros e Hin'. unfold set_sp in Hin'. apply in_map_iff in Hin'. destruct Hin' as [e0 [<- H0]]. destruct (e_id e0 =? m_id m); [cbn [e_jp]|]; apply N2; exact H0.
    - unfold ent_sp. cbn [c_ents]. fold (flag_of e_sp (c_leader c) (set_sp (m_id m) true (c_ents c))).
      destruct (flag_set_sp (m_id m) true (c_leader c) (c_ents c)) as [A _]. rewrite A.
      rewrite (Nat.eqb_sym (c_leader c) (m_id m)), Hnl. cbn [andb]. exact (wc_lsp c W). }
  assert (P : fin_of pre_sendsync (absm c m) = true).
  { unfold fin_of, pre_sendsync. fold (fin_of pre_wf (absm c m)). rewrite (wf_pre_m _ _ L Hwm). unfold absm, ib_of. pcbn.
    rewrite Hp, Hib, Hk. reflexivity. }
  pose proof (use_check pre_sendsync chk_sendsync c m ok_sendsync Hwc L Hwm P) as H.
  unfold chk_sendsync in H. rewrite Hia in H. cbn [negb orb] in H.
  assert (Hrep : sync_reply (absm c m) = None).
  { unfold sync_reply, validate_a, absm. pcbn. rewrite Hns, He, Hz, Hg, Hst. reflexivity. }
  rewrite Hrep in H.
  assert (EA : absm c' (sync_park m) = a_send_sync INone true (absm c m)).
  { unfold absm, a_send_sync, sync_park, focus_of, rgen_of, ib_of, c', ent_jp, ent_sp. pcbn. rewrite Hp, Hib. cbn [ph_eqb c_gen c_st c_ents c_pend].
    rewrite ids_set_sp.
    fold (flag_of e_jp (m_id m) (set_sp (m_id m) true (c_ents c))) (flag_of e_sp (m_id m) (set_sp (m_id m) true (c_ents c)))
         (flag_of e_jp 0 (set_sp (m_id m) true (c_ents c))) (flag_of e_sp 0 (set_sp (m_id m) true (c_ents c))).
    destruct (flag_set_sp (m_id m) true (m_id m) (c_ents c)) as [A1 B1]. destruct (flag_set_sp (m_id m) true 0 (c_ents c)) as [A2 B2].
    rewrite A1, B1, A2, B2, Nat.eqb_refl, He. rewrite (Nat.eqb_sym 0 (m_id m)), Hz. cbn [andb]. reflexivity. }
  rewrite <- EA in H.
  apply (local_step c c' ms i m sync_park 0 true Hinv G L (fun _ => eq_refl) Hwc'); try assumption.
  - reflexivity.
  - intros m0 H0 Hn0 L0. apply absm_frame; try reflexivity; [apply wf_c_zfacts; exact Hwc | apply wf_c_zfacts; exact Hwc'|].
    intros z Hz0. assert (Hne : z <> m_id m).
    { intros E. subst z. apply (others_not_x c ms i m (m_id m) Hinv G L) with (m0 := m0); try assumption.
      split; [apply Nat.eqb_neq; exact Hz | left; reflexivity]. }
    unfold c', ent_jp, ent_sp. cbn [c_ents c_pend]. rewrite ids_set_sp.
    fold (flag_of e_jp z (set_sp (m_id m) true (c_ents c))) (flag_of e_sp z (set_sp (m_id m) true (c_ents c))).
    destruct (flag_set_sp (m_id m) true z (c_ents c)) as [A B]. rewrite A, B.
    destruct (Nat.eqb_spec z (m_id m)); [contradiction|]. repeat split; reflexivity.
  - intros z [Hz0 Hh]. left. split; [exact Hz0|]. left. destruct Hh as [Hh|Hh]; [exact Hh | unfold focus_of, sync_park in Hh; cbn in Hh; congruence].
  - pose proof (orphans_same_ids c c' ms i m sync_park (iv_names _ _ Hinv) G) as HK.
    rewrite (dkc_zero c m (sync_park m)) in HK.
    + assert (ids (c_ents c') = ids (c_ents c)) by (unfold c'; cbn [c_ents]; apply ids_set_sp). specialize (HK H0). lia.
    + intros z Hb. unfold bound in *. unfold sync_park. pcbn. rewrite Hp in Hb. cbn [ph_eqb andb orb] in *. rewrite orb_false_r in *. exact Hb.
Qed.

(* ================= steps that change the coordinator's state ================= *)
Lemma gen_le_of : forall c m, m_live m = true -> coh c m = true -> m_gen m <= c_gen c.
Proof.
  intros c m L C. unfold coh, coh_a, absm in C. pcbn_in C. rewrite L in C. cbn [negb orb] in C.
  apply andb_true_iff in C. destruct C as [_ C]. apply Nat.leb_le. exact C.
Qed.
Lemma rgen_le_of : forall c m, m_live m = true -> wf_m c m = true -> coh c m = true -> rgen_of m <= c_gen c.
Proof.
  intros c m L W C. unfold rgen_of. destruct (m_inbox m) as [[code g|code]|] eqn:I; try lia.
  unfold coh, coh_a, wf_m, wf_a, absm in *. pcbn_in C. pcbn_in W. rewrite L in C, W. cbn [negb orb] in C, W.
  unfold ib_of, rgen_of in *. rewrite I in C, W.
  destruct (Z.eqb_spec code 0) as [->|Hn].
  - apply andb_true_iff in C. destruct C as [C _]. apply andb_true_iff in C. destruct C as [C _].
    apply andb_true_iff in C. destruct C as [_ C]. apply andb_true_iff in C. destruct C as [C _]. apply Nat.leb_le. exact C.
  - repeat (apply andb_true_iff in W; destruct W as [W ?]).
    destruct (m_ph m); try discriminate.
    repeat (apply andb_true_iff in W; destruct W as [W ?]).
    destruct (code =? 0)%Z eqn:E; [apply Z.eqb_eq in E; contradiction|]. cbn [orb] in *.
    match goal with H : (g =? 0) = true |- _ => apply Nat.eqb_eq in H; lia end.
Qed.

Lemma all_joined_flag : forall es x, all_joined es = true -> memb x (ids es) = true -> flag_of e_jp x es = true.
Proof.
  intros es x Ha Hm. unfold flag_of. destruct (find_ent x es) as [e|] eqn:F.
  - unfold find_ent in F. apply find_some in F. destruct F as [Hin _]. unfold all_joined in Ha. rewrite forallb_forall in Ha. apply Ha. exact Hin.
  - exfalso. apply memb_In in Hm. unfold ids in Hm. apply in_map_iff in Hm. destruct Hm as [e [Ee Hin]].
    unfold find_ent in F. apply (find_none _ _ F) in Hin. rewrite Ee, Nat.eqb_refl in Hin. discriminate.
Qed.

Lemma inv_a_split : forall a, inv_a a = true -> wf_a a = true /\ coh_a a = true.
Proof. intros a H. unfold inv_a in H. apply andb_true_iff in H. exact H. Qed.
Lemma keeps_parts : forall a a', keeps a a' = true -> a_live a' = true /\ wf_a a' = true /\ coh_a a' = true /\ tw_a a' <= tw_a a.
Proof.
  intros a a' H. unfold keeps in H. apply andb_true_iff in H; destruct H as [H H3]. apply andb_true_iff in H; destruct H as [H1 H2].
  destruct (inv_a_split _ H2) as [A B]. apply Nat.leb_le in H3. repeat split; assumption.
Qed.

(* any live member across _complete_join *)
Lemma member_barrier : forall cP c3 mP, wf_cw cP -> c_st cP = CPreparing -> all_joined (c_ents cP) = true ->
  c_st c3 = CCompleting -> c_gen c3 = S (c_gen cP) -> c_pend c3 = c_pend cP -> c_ents c3 = clear_jp (c_ents cP) ->
  m_live mP = true -> wf_m cP mP = true -> coh cP mP = true ->
  let m3 := bcast [EvJoinDone (S (c_gen cP))] mP in
  m_live m3 = true /\ wf_m c3 m3 = true /\ coh c3 m3 = true /\ tw c3 m3 <= tw cP mP.
Proof.
  intros cP c3 mP W Hst Haj H1 H2 H3 H4 L Wm Cm m3.
  assert (EA : absm c3 m3 = T_barrier (absm cP mP)).
  { apply absm_T_barrier; try assumption; [apply gen_le_of; assumption | apply rgen_le_of; assumption]. }
  pose proof (use_check_w pre_any chk_T_barrier cP mP ok_T_barrier W L Wm (wf_pre_m _ _ L Wm)) as H.
  unfold chk_T_barrier in H.
  assert (E1 : inv_a (absm cP mP) = true) by (unfold inv_a; fold (wf_m cP mP) (coh cP mP); rewrite Wm, Cm; reflexivity).
  assert (E2 : cstate_eqb (a_st (absm cP mP)) CPreparing = true) by (unfold absm; pcbn; rewrite Hst; reflexivity).
  assert (E3 : negb (a_id_e (absm cP mP)) || a_id_jp (absm cP mP) = true).
  { unfold absm. pcbn. destruct (memb (m_id mP) (ids (c_ents cP))) eqn:E; [|reflexivity]. cbn [negb orb].
    exact (all_joined_flag _ _ Haj E). }
  assert (E4 : negb (a_f_e (absm cP mP)) || a_f_jp (absm cP mP) = true).
  { unfold absm. pcbn. destruct (memb (focus_of mP) (ids (c_ents cP))) eqn:E; [|reflexivity]. cbn [negb orb].
    exact (all_joined_flag _ _ Haj E). }
  rewrite E1, E2, E3, E4 in H. cbn [negb andb orb] in H. rewrite <- EA in H.
  destruct (keeps_parts _ _ H) as (A & B & C & D). repeat split; assumption.
Qed.

(* any live member across _prepare_rebalance; [c]: the coordinator before the request, whose table the member sees
   unchanged in the intermediate coordinator *)
Lemma member_prepare : forall c c2 m0, wf_c c = true -> c_st c <> CPreparing ->
  m_live m0 = true -> wf_m c m0 = true -> coh c m0 = true ->
  absm c2 (bcast [EvPrepare] m0) = T_prep (absm c m0) ->
  let m2 := bcast [EvPrepare] m0 in
  m_live m2 = true /\ wf_m c2 m2 = true /\ coh c2 m2 = true /\ tw c2 m2 <= tw c m0.
Proof.
  intros c c2 m0 Hc Hst L Wm Cm EA m2.
  pose proof (use_check pre_any chk_T_prep c m0 ok_T_prep Hc L Wm (wf_pre_m _ _ L Wm)) as H.
  unfold chk_T_prep in H.
  assert (E1 : inv_a (absm c m0) = true) by (unfold inv_a; fold (wf_m c m0) (coh c m0); rewrite Wm, Cm; reflexivity).
  assert (E2 : cstate_eqb (a_st (absm c m0)) CPreparing = false) by (unfold absm; pcbn; destruct (c_st c); try reflexivity; congruence).
  rewrite E1, E2 in H. cbn [negb andb orb] in H. rewrite <- EA in H.
  destruct (keeps_parts _ _ H) as (A & B & C & D). repeat split; assumption.
Qed.

Lemma bcast_dead : forall evs c m0, m_live m0 = false ->
  wf_m c (bcast evs m0) = true /\ coh c (bcast evs m0) = true /\ tw c (bcast evs m0) = 0.
Proof.
  intros evs c m0 L. destruct (bcast_fields evs m0) as (A & _). rewrite <- A in L.
  destruct (dead_trivial c (bcast evs m0) L) as (W & C & T & _). repeat split; assumption.
Qed.

Definition c2_of (c : coord) (x : nat) : coord :=
  mkC (c_gen c) CPreparing (clear_sp (ents1 (c_ents c) x)) (remove_id x (c_pend c)) (c_leader c).

Lemma joiner_pre : forall c ms m y, inv_a (absm c m) = true -> ck_stale (m_ck m) = false -> join_accepts c ms m y ->
  join_ok_pre (absm c m) = true.
Proof.
  intros c ms m y Hia Hns Ha. unfold join_ok_pre. rewrite Hia. assert (E1 : ck_stale (a_ck (absm c m)) = false) by exact Hns. rewrite E1.
  cbn [negb andb]. unfold absm. pcbn. destruct Ha as [[E _]|[_ [E|E]]]; [rewrite E; reflexivity | rewrite E; apply orb_true_iff; left; apply orb_true_r | rewrite E; apply orb_true_r].
Qed.

(* the requester and everybody else after a JoinGroup that starts a rebalance (before a possible _complete_join) *)
Lemma join_prepare_members : forall c ms i m y, inv_facts c ms -> getm i ms = Some m -> m_live m = true ->
  m_ph m = PIdle -> m_inbox m = None -> m_cmin m = None -> m_rejoin m = true -> ck_known (m_ck m) = true -> ck_stale (m_ck m) = false ->
  join_accepts c ms m y -> c_st c <> CPreparing ->
  let x := join_target m y in
  (memb x (ids (c_ents c)) = false \/ c_st c = CStable) ->
  let F := join_out (Parked x) in
  let g := fun m0 => bcast [EvPrepare] (if m_name m0 =? i then F m0 else m0) in
  (forall m0, In m0 ms -> m_live (g m0) = m_live m0 /\ wf_m (c2_of c x) (g m0) = true /\ coh (c2_of c x) (g m0) = true)
  /\ sum (map (tw (c2_of c x)) (map g ms)) + 1 <= sum (map (tw c) ms).
Proof.
  intros c ms i m y Hinv G L Hp Hib Hcm Hrj Hk Hns Ha Hst x Htr F g. get_facts Hinv G.
  pose proof (target_nz c ms m y Hwc Ha) as Hx. fold x in Hx.
  destruct (target_cases c ms i m y Hinv G L Hp Ha) as (Hoth & _). fold x in Hoth.
  assert (Hc12 : forall m1, absm (c2_of c x) (bcast [EvPrepare] m1) = T_prep (absm (c1_of c x) m1)).
  { intros m1. apply absm_T_prep; reflexivity. }
  (* the requester *)
  assert (Hown : m_live (g m) = true /\ wf_m (c2_of c x) (g m) = true /\ coh (c2_of c x) (g m) = true /\ tw (c2_of c x) (g m) + 1 <= tw c m).
  { unfold g. rewrite Hnm, Nat.eqb_refl.
    pose proof (use_check pre_sendjoin chk_join_trigger c m ok_join_trigger Hwc L Hwm (sendjoin_pre c m L Hwm Hp Hib Hcm Hk Hrj)) as H.
    unfold chk_join_trigger in H. rewrite (joiner_pre c ms m y Hia Hns Ha) in H.
    assert (E2 : cstate_eqb (a_st (absm c m)) CPreparing = false) by (unfold absm; pcbn; destruct (c_st c); try reflexivity; congruence).
    assert (E3 : negb (a_id_e (absm c m)) || cstate_eqb (a_st (absm c m)) CStable = true).
    { unfold absm. pcbn. destruct Htr as [E|E].
      - assert (Em : memb (m_id m) (ids (c_ents c)) = false).
        { unfold x, join_target in E. destruct (Nat.eqb_spec (m_id m) 0) as [Ez|Ez]; [rewrite Ez; exact (wc_0e c (wf_c_parts c Hwc)) | exact E]. }
        rewrite Em. reflexivity.
      - rewrite E. apply orb_true_r. }
    rewrite E2, E3 in H. cbn [negb andb orb] in H.
    rewrite <- (absm_join_parked c ms m y Hwc Ha Hp Hib) in H. fold x in H. rewrite <- Hc12 in H.
    apply andb_true_iff in H. destruct H as [H1 H2]. destruct (inv_a_split _ H1) as [A B]. apply Nat.leb_le in H2.
    destruct (bcast_fields [EvPrepare] (F m)) as (Lf & _). split; [rewrite Lf; exact L | repeat split; assumption]. }
  (* the others *)
  assert (Hothers : forall m0, In m0 ms -> m_name m0 <> i ->
            m_live (g m0) = m_live m0 /\ wf_m (c2_of c x) (g m0) = true /\ coh (c2_of c x) (g m0) = true /\ tw (c2_of c x) (g m0) <= tw c m0).
  { intros m0 H0 Hn0. unfold g. apply Nat.eqb_neq in Hn0. rewrite Hn0. apply Nat.eqb_neq in Hn0.
    destruct (bcast_fields [EvPrepare] m0) as (Lf & _). destruct (m_live m0) eqn:L0.
    - assert (EA : absm (c2_of c x) (bcast [EvPrepare] m0) = T_prep (absm c m0)).
      { rewrite Hc12. f_equal. apply c1_frame; [exact Hwc | exact Hx | exact (Hoth m0 H0 Hn0 L0)]. }
      destruct (member_prepare c (c2_of c x) m0 Hwc Hst L0 (iv_wfm _ _ Hinv m0 H0) (iv_coh _ _ Hinv m0 H0) EA) as (A & B & C & D).
      repeat split; assumption.
    - destruct (bcast_dead [EvPrepare] (c2_of c x) m0 L0) as (A & B & T). rewrite T. repeat split; try assumption. lia. }
  split.
  - intros m0 H0. destruct (Nat.eq_dec (m_name m0) i) as [E|E].
    + rewrite (getm_unique i ms m (iv_names _ _ Hinv) G m0 H0 E). destruct Hown as (A & B & C & _). rewrite A, L. auto.
    + destruct (Hothers m0 H0 E) as (A & B & C & _). auto.
  - apply (sum_map_updm (tw c) (tw (c2_of c x)) i g ms m 1 (iv_names _ _ Hinv) G).
    + intros m0 H0 Hn0. apply (Hothers m0 H0 Hn0).
    + apply Hown.
Qed.

Lemma all_barrier : forall cP c3 msP, wf_cw cP -> c_st cP = CPreparing -> all_joined (c_ents cP) = true ->
  c_st c3 = CCompleting -> c_gen c3 = S (c_gen cP) -> c_pend c3 = c_pend cP -> c_ents c3 = clear_jp (c_ents cP) ->
  (forall mP, In mP msP -> wf_m cP mP = true /\ coh cP mP = true) ->
  let g3 := bcast [EvJoinDone (S (c_gen cP))] in
  (forall mP, In mP msP -> wf_m c3 (g3 mP) = true /\ coh c3 (g3 mP) = true)
  /\ sum (map (tw c3) (map g3 msP)) <= sum (map (tw cP) msP).
Proof.
  intros cP c3 msP W Hst Haj H1 H2 H3 H4 Hall g3.
  assert (Hm : forall mP, In mP msP -> wf_m c3 (g3 mP) = true /\ coh c3 (g3 mP) = true /\ tw c3 (g3 mP) <= tw cP mP).
  { intros mP Hin. destruct (Hall mP Hin) as [Wm Cm]. destruct (m_live mP) eqn:L.
    - destruct (member_barrier cP c3 mP W Hst Haj H1 H2 H3 H4 L Wm Cm) as (_ & A & B & C). auto.
    - destruct (bcast_dead [EvJoinDone (S (c_gen cP))] c3 mP L) as (A & B & T). unfold g3. rewrite T. repeat split; try assumption. lia. }
  split.
  - intros mP Hin. destruct (Hm mP Hin) as (A & B & _). auto.
  - rewrite map_map. apply sum_map_le. intros mP Hin. apply (Hm mP Hin).
Qed.

Lemma bcast_app : forall a b m, bcast (a ++ b) m = bcast b (bcast a m).
Proof. intros a b m. unfold bcast. apply fold_left_app. Qed.

Lemma bcast_bound : forall evs m0 x, bound (bcast evs m0) x = bound m0 x.
Proof. intros evs m0 x. destruct (bcast_fields evs m0) as (A & B & C & D & _). unfold bound. rewrite A, B, C, D. reflexivity. Qed.
Lemma bcast_same : forall evs m0, m_live (bcast evs m0) = m_live m0 /\ m_id (bcast evs m0) = m_id m0 /\ m_ph (bcast evs m0) = m_ph m0 /\ m_focus (bcast evs m0) = m_focus m0.
Proof. intros evs m0. destruct (bcast_fields evs m0) as (A & B & C & D & _). auto. Qed.

Lemma wcw_preparing : forall G es pend ldr, tbl_ok es pend -> forallb (fun e => negb (e_sp e)) es = true -> wf_cw (mkC G CPreparing es pend ldr).
Proof. intros G es pend ldr (T1 & T2 & T3 & T4) Hs. constructor; cbn [c_st c_ents c_pend c_gen cstate_eqb negb orb]; try assumption; try reflexivity. Qed.

(* common to the three JoinGroup cases that change the coordinator's state: orphans, disjointness *)
Lemma join_epoch_common : forall c c' ms i m y evs, inv_facts c ms -> getm i ms = Some m -> m_live m = true -> m_ph m = PIdle ->
  join_accepts c ms m y ->
  let x := join_target m y in
  ids (c_ents c') = ids (ents1 (c_ents c) x) ->
  let F := join_out (Parked x) in
  let g := fun m0 => bcast evs (if m_name m0 =? i then F m0 else m0) in
  pairwise disjoint_m (map g ms) = true /\ count_orphans (mkS c' (map g ms)) <= count_orphans (mkS c ms)
  /\ (forall m0, m_name (g m0) = m_name m0).
Proof.
  intros c c' ms i m y evs Hinv G L Hp Ha x Hids F g. destruct (getm_In i ms m G) as [Hin Hnm].
  destruct (target_cases c ms i m y Hinv G L Hp Ha) as (_ & Hid & Hbx & Hbz). fold x in Hid, Hbx, Hbz.
  assert (Eg : map g ms = map (bcast evs) (updm i F ms)) by (unfold updm; rewrite map_map; reflexivity).
  split; [|split].
  - rewrite Eg. rewrite (pairwise_map_same (bcast evs)); [|apply bcast_same].
    apply (disj_updm c ms i m F Hinv G L (fun _ => eq_refl) Hid).
  - assert (Hb : forall m0 z, In m0 ms -> bound m0 z = true -> bound (g m0) z = true).
    { intros m0 z H0 B. unfold g. rewrite bcast_bound. destruct (Nat.eqb_spec (m_name m0) i) as [E|E]; [|exact B].
      rewrite (getm_unique i ms m (iv_names _ _ Hinv) G m0 H0 E) in *. apply Hbz. exact B. }
    rewrite ids_ents1 in Hids. destruct (memb x (ids (c_ents c))) eqn:Ex.
    + apply (orphans_mono c c' ms g []); [rewrite app_nil_r; exact Hids | intros z [] | exact Hb].
    + apply (orphans_mono c c' ms g [x]); [exact Hids | | exact Hb]. intros z [<-|[]]. exists m. split; [exact Hin|].
      unfold g. rewrite bcast_bound, Hnm, Nat.eqb_refl. exact Hbx.
  - intros m0. unfold g. destruct (bcast_fields evs (if m_name m0 =? i then F m0 else m0)) as (_ & _ & _ & _ & N & _). rewrite N.
    destruct (m_name m0 =? i); reflexivity.
Qed.

Definition c3_of (cP : coord) : coord :=
  mkC (S (c_gen cP)) CCompleting (clear_jp (c_ents cP)) (c_pend cP)
      (if memb (c_leader cP) (ids (c_ents cP)) then c_leader cP else min_id (c_ents cP)).

Lemma erank_le2 : forall c, erank c <= 2.
Proof. intros c. unfold erank. destruct (c_st c); lia. Qed.

(* JoinGroup that starts a rebalance, not completed at once *)
Lemma case_join_prepare : forall c ms i m y, inv_facts c ms -> getm i ms = Some m -> m_live m = true ->
  m_ph m = PIdle -> m_inbox m = None -> m_cmin m = None -> m_rejoin m = true -> ck_known (m_ck m) = true -> ck_stale (m_ck m) = false ->
  join_accepts c ms m y -> c_st c <> CPreparing ->
  let x := join_target m y in
  (memb x (ids (c_ents c)) = false \/ c_st c = CStable) -> all_joined (ents1 (c_ents c) x) = false ->
  let g := fun m0 => bcast [EvPrepare] (if m_name m0 =? i then join_out (Parked x) m0 else m0) in
  inv_facts (c2_of c x) (map g ms) /\ mu (mkS (c2_of c x) (map g ms)) < mu (mkS c ms).
Proof.
  intros c ms i m y Hinv G L Hp Hib Hcm Hrj Hk Hns Ha Hst x Htr Hnj g. pose proof (iv_wfc _ _ Hinv) as Hwc.
  pose proof (target_nz c ms m y Hwc Ha) as Hx. fold x in Hx.
  destruct (join_prepare_members c ms i m y Hinv G L Hp Hib Hcm Hrj Hk Hns Ha Hst Htr) as [Hall Hsum]. fold x g in Hall, Hsum.
  destruct (join_epoch_common c (c2_of c x) ms i m y [EvPrepare] Hinv G L Hp Ha) as (Hpw & HK & Hnm).
  { unfold c2_of. cbn [c_ents]. apply ids_clear_sp. }
  fold x g in Hpw, HK, Hnm.
  apply epoch_general; try assumption.
  - unfold c2_of. apply wfc_prepare; [apply tbl_ents1; [apply tbl_of_wf; apply wf_c_parts; exact Hwc | exact Hx] | apply ents1_nonempty | exact Hnj].
  - intros m0 H0. destruct (Hall m0 H0) as (_ & A & B). auto.
  - unfold trig. cbn [s_c s_ms]. pose proof (erank_le2 c). assert (erank (c2_of c x) = 2) by reflexivity. lia.
Qed.

(* ... completed at once (the requester is the only member) *)
Lemma case_join_prepare_complete : forall c ms i m y, inv_facts c ms -> getm i ms = Some m -> m_live m = true ->
  m_ph m = PIdle -> m_inbox m = None -> m_cmin m = None -> m_rejoin m = true -> ck_known (m_ck m) = true -> ck_stale (m_ck m) = false ->
  join_accepts c ms m y -> c_st c <> CPreparing ->
  let x := join_target m y in
  (memb x (ids (c_ents c)) = false \/ c_st c = CStable) -> all_joined (ents1 (c_ents c) x) = true ->
  let g := fun m0 => bcast ([EvPrepare] ++ [EvJoinDone (S (c_gen c))]) (if m_name m0 =? i then join_out (Parked x) m0 else m0) in
  inv_facts (c3_of (c2_of c x)) (map g ms) /\ mu (mkS (c3_of (c2_of c x)) (map g ms)) < mu (mkS c ms).
Proof.
  intros c ms i m y Hinv G L Hp Hib Hcm Hrj Hk Hns Ha Hst x Htr Haj g. pose proof (iv_wfc _ _ Hinv) as Hwc.
  pose proof (target_nz c ms m y Hwc Ha) as Hx. fold x in Hx. pose proof (wf_c_parts c Hwc) as W.
  set (g2 := fun m0 => bcast [EvPrepare] (if m_name m0 =? i then join_out (Parked x) m0 else m0)).
  destruct (join_prepare_members c ms i m y Hinv G L Hp Hib Hcm Hrj Hk Hns Ha Hst Htr) as [Hall Hsum]. fold x g2 in Hall, Hsum.
  assert (Htbl : tbl_ok (ents1 (c_ents c) x) (remove_id x (c_pend c))) by (apply tbl_ents1; [apply tbl_of_wf; exact W | exact Hx]).
  assert (Htbl2 : tbl_ok (clear_sp (ents1 (c_ents c) x)) (remove_id x (c_pend c))).
  { destruct Htbl as (T1 & T2 & T3 & T4). unfold tbl_ok. rewrite ids_clear_sp. auto. }
  assert (W2 : wf_cw (c2_of c x)) by (unfold c2_of; apply wcw_preparing; [exact Htbl2 | apply forallb_clear_sp]).
  assert (Haj2 : all_joined (c_ents (c2_of c x)) = true) by (unfold c2_of; cbn [c_ents]; rewrite all_joined_clear_sp; exact Haj).
  destruct (all_barrier (c2_of c x) (c3_of (c2_of c x)) (map g2 ms) W2 eq_refl Haj2 eq_refl eq_refl eq_refl eq_refl) as [Hall3 Hsum3].
  { intros mP HP. apply in_map_iff in HP. destruct HP as [m0 [<- H0]]. destruct (Hall m0 H0) as (_ & A & B). auto. }
  assert (Eg : forall m0, g m0 = bcast [EvJoinDone (S (c_gen (c2_of c x)))] (g2 m0)).
  { intros m0. unfold g, g2. rewrite bcast_app. reflexivity. }
  assert (Emap : map g ms = map (bcast [EvJoinDone (S (c_gen (c2_of c x)))]) (map g2 ms)).
  { rewrite map_map. apply map_ext. exact Eg. }
  destruct (join_epoch_common c (c3_of (c2_of c x)) ms i m y ([EvPrepare] ++ [EvJoinDone (S (c_gen c))]) Hinv G L Hp Ha) as (Hpw & HK & Hnm).
  { unfold c3_of, c2_of. cbn [c_ents]. rewrite ids_clear_jp. apply ids_clear_sp. }
  fold x g in Hpw, HK, Hnm.
  apply epoch_general; try assumption.
  - unfold c3_of. apply wfc_complete; [exact Htbl2 | | apply forallb_clear_sp].
    unfold c2_of. cbn [c_ents]. pose proof (ents1_nonempty (c_ents c) x). destruct (ents1 (c_ents c) x); [congruence | discriminate].
  - intros m0 H0. rewrite Eg. apply Hall3. apply in_map. exact H0.
  - rewrite Emap. unfold trig. cbn [s_c s_ms]. rewrite Emap in HK. assert (erank (c3_of (c2_of c x)) = 1) by reflexivity. lia.
Qed.

(* JoinGroup of the last missing member in PreparingRebalance *)
Lemma case_join_complete : forall c ms i m y, inv_facts c ms -> getm i ms = Some m -> m_live m = true ->
  m_ph m = PIdle -> m_inbox m = None -> m_cmin m = None -> m_rejoin m = true -> ck_known (m_ck m) = true -> ck_stale (m_ck m) = false ->
  join_accepts c ms m y -> c_st c = CPreparing ->
  let x := join_target m y in
  all_joined (ents1 (c_ents c) x) = true ->
  let g := fun m0 => bcast [EvJoinDone (S (c_gen c))] (if m_name m0 =? i then join_out (Parked x) m0 else m0) in
  inv_facts (c3_of (c1_of c x)) (map g ms) /\ mu (mkS (c3_of (c1_of c x)) (map g ms)) < mu (mkS c ms).
Proof.
  intros c ms i m y Hinv G L Hp Hib Hcm Hrj Hk Hns Ha Hst x Haj g. get_facts Hinv G. pose proof (wf_c_parts c Hwc) as W.
  pose proof (target_nz c ms m y Hwc Ha) as Hx. fold x in Hx.
  destruct (target_cases c ms i m y Hinv G L Hp Ha) as (Hoth & _). fold x in Hoth.
  set (F := join_out (Parked x)).
  assert (Htbl : tbl_ok (ents1 (c_ents c) x) (remove_id x (c_pend c))) by (apply tbl_ents1; [apply tbl_of_wf; exact W | exact Hx]).
  assert (Hsp : forallb (fun e => negb (e_sp e)) (ents1 (c_ents c) x) = true).
  { apply sp_ents1. pose proof (wc_sp c W) as H. rewrite Hst in H. exact H. }
  assert (W1 : wf_cw (c1_of c x)) by (unfold c1_of; rewrite Hst; apply wcw_preparing; assumption).
  (* every member in the intermediate coordinator c1 *)
  pose proof (use_check pre_sendjoin chk_join_parked c m ok_join_parked Hwc L Hwm (sendjoin_pre c m L Hwm Hp Hib Hcm Hk Hrj)) as H.
  unfold chk_join_parked in H. rewrite (joiner_pre c ms m y Hia Hns Ha) in H.
  assert (E3 : cstate_eqb (a_st (absm c m)) CPreparing = true) by (unfold absm; pcbn; rewrite Hst; reflexivity).
  rewrite E3 in H. cbn [negb andb orb] in H. rewrite <- (absm_join_parked c ms m y Hwc Ha Hp Hib) in H. fold x F in H.
  destruct (good_parts _ _ _ _ H) as (_ & Wown & Cown & Town & _).
  assert (Hm1 : forall m0, In m0 ms -> let m1 := (if m_name m0 =? i then F m0 else m0) in
            wf_m (c1_of c x) m1 = true /\ coh (c1_of c x) m1 = true /\ tw (c1_of c x) m1 <= tw c m0).
  { intros m0 H0. cbv zeta. destruct (Nat.eqb_spec (m_name m0) i) as [E|E].
    - rewrite (getm_unique i ms m (iv_names _ _ Hinv) G m0 H0 E). repeat split; try assumption. unfold tw. lia.
    - destruct (m_live m0) eqn:L0.
      + unfold wf_m, coh, tw. rewrite (c1_frame c x m0 Hwc Hx (Hoth m0 H0 E L0)).
        repeat split; [apply (iv_wfm _ _ Hinv m0 H0) | apply (iv_coh _ _ Hinv m0 H0) | lia].
      + destruct (dead_trivial (c1_of c x) m0 L0) as (A & B & T & _). rewrite T. repeat split; try assumption. lia. }
  assert (Haj1 : all_joined (c_ents (c1_of c x)) = true) by exact Haj.
  destruct (all_barrier (c1_of c x) (c3_of (c1_of c x)) (updm i F ms) W1 Hst Haj1 eq_refl eq_refl eq_refl eq_refl) as [Hall3 Hsum3].
  { intros mP HP. unfold updm in HP. apply in_map_iff in HP. destruct HP as [m0 [<- H0]]. destruct (Hm1 m0 H0) as (A & B & _). auto. }
  assert (Emap : map g ms = map (bcast [EvJoinDone (S (c_gen (c1_of c x)))]) (updm i F ms)).
  { unfold updm. rewrite map_map. reflexivity. }
  destruct (join_epoch_common c (c3_of (c1_of c x)) ms i m y [EvJoinDone (S (c_gen c))] Hinv G L Hp Ha) as (Hpw & HK & Hnm').
  { unfold c3_of, c1_of. cbn [c_ents]. apply ids_clear_jp. }
  fold x g in Hpw, HK, Hnm'.
  apply epoch_general; try assumption.
  - unfold c3_of. apply wfc_complete; [exact Htbl | apply ents1_nonempty | exact Hsp].
  - intros m0 H0. assert (Eg : g m0 = bcast [EvJoinDone (S (c_gen (c1_of c x)))] (if m_name m0 =? i then F m0 else m0)) by reflexivity.
    rewrite Eg. apply Hall3. unfold updm. apply in_map_iff. exists m0. split; [reflexivity | exact H0].
  - rewrite Emap. rewrite Emap in HK. unfold trig. cbn [s_c s_ms].
    assert (S1 : sum (map (tw (c1_of c x)) (updm i F ms)) <= sum (map (tw c) ms)).
    { unfold updm. rewrite map_map. apply sum_map_le. intros m0 H0. apply (Hm1 m0 H0). }
    assert (E1 : erank (c3_of (c1_of c x)) = 1) by reflexivity. assert (E2 : erank c = 2) by (unfold erank; rewrite Hst; reflexivity). lia.
Qed.

(* ---- the leader's SyncGroup in CompletingRebalance ---- *)
Lemma case_sync_leader : forall c ms i m, inv_facts c ms -> getm i ms = Some m -> m_live m = true ->
  m_ph m = PJoined -> m_inbox m = None -> ck_known (m_ck m) = true -> ck_stale (m_ck m) = false ->
  c_st c = CCompleting -> validate c (m_id m) (m_gen m) = 0%Z ->
  let c' := mkC (c_gen c) CStable (clear_sp (c_ents c)) (c_pend c) (c_leader c) in
  let g := fun m0 => bcast [EvSyncDone] (if m_name m0 =? i then sync_park m0 else m0) in
  inv_facts c' (map g ms) /\ mu (mkS c' (map g ms)) < mu (mkS c ms).
Proof.
  intros c ms i m Hinv G L Hp Hib Hk Hns Hst Hv c' g. get_facts Hinv G. pose proof (wf_c_parts c Hwc) as W.
  assert (HT : forall m1, absm c' (bcast [EvSyncDone] m1) = T_syncdone (absm c m1)) by (intros m1; apply absm_T_syncdone; reflexivity).
  assert (Hm : forall m0, In m0 ms -> wf_m c' (g m0) = true /\ coh c' (g m0) = true /\ tw c' (g m0) <= tw c m0).
  { intros m0 H0. unfold g. destruct (Nat.eqb_spec (m_name m0) i) as [E|E].
    - rewrite (getm_unique i ms m (iv_names _ _ Hinv) G m0 H0 E).
      assert (P : fin_of pre_sendsync (absm c m) = true).
      { unfold fin_of, pre_sendsync. fold (fin_of pre_wf (absm c m)). rewrite (wf_pre_m _ _ L Hwm). unfold absm, ib_of. pcbn. rewrite Hp, Hib, Hk. reflexivity. }
      pose proof (use_check pre_sendsync chk_sync_leader c m ok_sync_leader Hwc L Hwm P) as H.
      unfold chk_sync_leader in H. rewrite Hia in H.
      assert (E1 : cstate_eqb (a_st (absm c m)) CCompleting = true) by (unfold absm; pcbn; rewrite Hst; reflexivity).
      assert (E2 : ck_stale (a_ck (absm c m)) = false) by exact Hns.
      assert (E3 : (validate_a (a_idz (absm c m)) (a_id_e (absm c m)) (a_gen_eq (absm c m)) =? 0)%Z = true).
      { unfold validate in Hv. unfold validate_a, absm. pcbn. rewrite Hv. reflexivity. }
      rewrite E1, E2, E3 in H. cbn [negb andb orb] in H.
      assert (EA : absm c (sync_park m) = a_send_sync INone (a_id_sp (absm c m)) (absm c m)).
      { unfold absm, a_send_sync, sync_park, focus_of, rgen_of, ib_of. pcbn. rewrite Hp, Hib. reflexivity. }
      rewrite <- EA, <- HT in H. destruct (keeps_parts _ _ H) as (_ & A & B & C). repeat split; assumption.
    - destruct (m_live m0) eqn:L0.
      + pose proof (use_check pre_any chk_T_syncdone c m0 ok_T_syncdone Hwc L0 (iv_wfm _ _ Hinv m0 H0) (wf_pre_m _ _ L0 (iv_wfm _ _ Hinv m0 H0))) as H.
        unfold chk_T_syncdone in H. rewrite (inv_a_of c ms m0 Hinv H0) in H.
        assert (E1 : cstate_eqb (a_st (absm c m0)) CCompleting = true) by (unfold absm; pcbn; rewrite Hst; reflexivity).
        rewrite E1 in H. cbn [negb andb orb] in H. rewrite <- HT in H. destruct (keeps_parts _ _ H) as (_ & A & B & C). repeat split; assumption.
      + destruct (bcast_dead [EvSyncDone] c' m0 L0) as (A & B & T). rewrite T. repeat split; try assumption. lia. }
  assert (Eg : map g ms = map (bcast [EvSyncDone]) (updm i sync_park ms)) by (unfold updm; rewrite map_map; reflexivity).
  apply epoch_general; try assumption.
  - intros m0. unfold g. destruct (bcast_fields [EvSyncDone] (if m_name m0 =? i then sync_park m0 else m0)) as (_ & _ & _ & _ & N & _). rewrite N.
    destruct (m_name m0 =? i); reflexivity.
  - apply wfc_syncdone; assumption.
  - intros m0 H0. destruct (Hm m0 H0) as (A & B & _). auto.
  - rewrite Eg. rewrite (pairwise_map_same (bcast [EvSyncDone])); [|apply bcast_same].
    apply (disj_updm c ms i m sync_park Hinv G L (fun _ => eq_refl)).
    intros z [Hz Hh]. left. split; [exact Hz|]. left. destruct Hh as [Hh|Hh]; [exact Hh | unfold focus_of, sync_park in Hh; cbn in Hh; congruence].
  - assert (HK : count_orphans (mkS c' (map g ms)) <= count_orphans (mkS c ms)).
    { apply (orphans_mono c c' ms g []); [unfold c'; cbn [c_ents]; rewrite ids_clear_sp, app_nil_r; reflexivity | intros z [] |].
      intros m0 z H0 B. unfold g. rewrite bcast_bound. destruct (Nat.eqb_spec (m_name m0) i) as [E|E]; [|exact B].
      rewrite (getm_unique i ms m (iv_names _ _ Hinv) G m0 H0 E) in *.
      unfold bound in *. unfold sync_park. pcbn. rewrite Hp in B. cbn [ph_eqb andb orb] in *. rewrite orb_false_r in *. exact B. }
    assert (S1 : sum (map (tw c') (map g ms)) <= sum (map (tw c) ms)) by (rewrite map_map; apply sum_map_le; intros m0 H0; apply (Hm m0 H0)).
    unfold trig. cbn [s_c s_ms]. assert (E1 : erank c' = 0) by reflexivity. assert (E2 : erank c = 1) by (unfold erank; rewrite Hst; reflexivity). lia.
Qed.

(* ---- an orphan id leaves the table ---- *)
Definition drop (x : nat) (es : list entry) : list entry := filter (fun e => negb (e_id e =? x)) es.
Lemma memb_drop : forall x z es, memb z (ids (drop x es)) = memb z (ids es) && negb (z =? x).
Proof.
  intros x z es. induction es as [|e r IH]; [reflexivity|]. unfold drop, memb, ids in *. cbn [filter map existsb].
  destruct (Nat.eqb_spec (e_id e) x) as [E|E]; cbn [negb].
  - rewrite IH. destruct (Nat.eqb_spec z (e_id e)) as [E2|E2]; [|reflexivity]. rewrite E2, E, Nat.eqb_refl. cbn. rewrite andb_false_r. reflexivity.
  - cbn [map existsb]. rewrite IH. destruct (Nat.eqb_spec z (e_id e)) as [E2|E2]; [|reflexivity]. subst z.
    destruct (Nat.eqb_spec (e_id e) x); [contradiction|]. reflexivity.
Qed.
Lemma flag_drop : forall (fl : entry -> bool) x z es, z <> x -> flag_of fl z (drop x es) = flag_of fl z es.
Proof.
  intros fl x z es Hz. unfold flag_of, find_ent, drop. induction es as [|e r IH]; [reflexivity|]. cbn [filter find].
  destruct (Nat.eqb_spec (e_id e) x) as [E|E]; cbn [negb].
  - destruct (Nat.eqb_spec (e_id e) z); [congruence | exact IH].
  - cbn [find]. destruct (e_id e =? z); [reflexivity | exact IH].
Qed.
Lemma nodupb_filter : forall (p : nat -> bool) l, nodupb l = true -> nodupb (filter p l) = true.
Proof. intros p l H. apply nodupb_NoDup. apply NoDup_filter. apply nodupb_NoDup. exact H. Qed.
Lemma ids_drop : forall x es, ids (drop x es) = filter (fun y => negb (y =? x)) (ids es).
Proof. intros x es. unfold drop, ids. induction es as [|e r IH]; [reflexivity|]. cbn [filter map]. destruct (negb (e_id e =? x)); cbn [map]; rewrite IH; reflexivity. Qed.
Lemma tbl_drop : forall es pend x, tbl_ok es pend -> tbl_ok (drop x es) pend.
Proof.
  intros es pend x (T1 & T2 & T3 & T4). unfold tbl_ok. repeat split.
  - rewrite ids_drop. apply nodupb_filter. exact T1.
  - rewrite memb_drop, T2. reflexivity.
  - exact T3.
  - rewrite forallb_forall in T4 |- *. intros p Hp. specialize (T4 p Hp). apply negb_true_iff in T4. rewrite memb_drop, T4. reflexivity.
Qed.
Lemma forallb_drop : forall (p : entry -> bool) x es, forallb p es = true -> forallb p (drop x es) = true.
Proof. intros p x es H. rewrite forallb_forall in H |- *. intros e He. unfold drop in He. apply filter_In in He. apply H. apply He. Qed.

Lemma count_drop : forall (P : nat -> bool) x l, In x l -> P x = true ->
  length (filter P (filter (fun y => negb (y =? x)) l)) + 1 <= length (filter P l).
Proof.
  intros P x l. induction l as [|a r IH]; intros Hin Hp; [inversion Hin|]. cbn [filter].
  destruct (Nat.eqb_spec a x) as [E|E]; cbn [negb].
  - subst a. rewrite Hp. cbn [length].
    assert (length (filter P (filter (fun y => negb (y =? x)) r)) <= length (filter P r)); [|lia].
    clear. induction r as [|b r IH]; [reflexivity|]. cbn [filter]. destruct (negb (b =? x)); cbn [filter]; destruct (P b); cbn [length]; lia.
  - cbn [filter]. destruct Hin as [Hin|Hin]; [congruence|]. specialize (IH Hin Hp). destruct (P a); cbn [length]; lia.
Qed.

Definition c1x (c : coord) (x : nat) : coord :=
  mkC (c_gen c) (c_st c) (drop x (c_ents c)) (c_pend c) (if c_leader c =? x then 0 else c_leader c).

Lemma c1x_frame : forall c x m0, wf_c c = true -> x <> 0 -> (forall z, has_id m0 z -> z <> x) -> absm (c1x c x) m0 = absm c m0.
Proof.
  intros c x m0 Hc Hx Hn. pose proof (wf_c_zfacts c Hc) as (Z1 & Z2 & Z3 & Z4).
  apply absm_frame; try reflexivity; [repeat split; assumption | |].
  - unfold zfacts, c1x, ent_jp, ent_sp. cbn [c_ents c_pend].
    fold (flag_of e_jp 0 (drop x (c_ents c))) (flag_of e_sp 0 (drop x (c_ents c))).
    rewrite memb_drop, Z1, !flag_drop by congruence. repeat split; assumption.
  - intros z Hz. specialize (Hn z Hz). unfold c1x, ent_jp, ent_sp. cbn [c_ents c_pend].
    fold (flag_of e_jp z (drop x (c_ents c))) (flag_of e_sp z (drop x (c_ents c))).
    rewrite memb_drop, !flag_drop by assumption. destruct (Nat.eqb_spec z x); [contradiction|]. rewrite andb_true_r. repeat split; reflexivity.
Qed.

Lemma orphan_not_has : forall ms e m0, orphan ms e = true -> In m0 ms -> m_live m0 = true -> e_id e <> 0 ->
  forall z, has_id m0 z -> z <> e_id e.
Proof.
  intros ms e m0 Ho H0 L0 Hx z Hz E. subst z. unfold orphan in Ho. apply negb_true_iff in Ho.
  assert (existsb (fun m1 => bound m1 (e_id e)) ms = true); [|congruence].
  apply existsb_exists. exists m0. split; [exact H0|]. apply bound_has_id; [exact Hx | split; assumption].
Qed.

Lemma expire_orphans : forall c c' ms x evs, In x (ids (c_ents c)) -> orph ms x = true ->
  ids (c_ents c') = ids (drop x (c_ents c)) ->
  count_orphans (mkS c' (map (bcast evs) ms)) + 1 <= count_orphans (mkS c ms).
Proof.
  intros c c' ms x evs Hin Ho Hids. rewrite !count_orphans_ids. cbn [s_c s_ms]. rewrite Hids, ids_drop.
  assert (E : forall z, orph (map (bcast evs) ms) z = orph ms z).
  { intros z. unfold orph. f_equal. clear Ho. induction ms as [|a r IH]; [reflexivity|]. cbn [map existsb]. rewrite bcast_bound, IH. reflexivity. }
  rewrite (filter_ext _ _ E). apply count_drop; assumption.
Qed.

Lemma absm_T_empty : forall c c' m0 (bump : bool), zfacts c ->
  c_st c' = CEmpty -> c_ents c' = [] -> c_pend c' = c_pend c -> c_gen c' = (if bump then S (c_gen c) else c_gen c) ->
  memb (m_id m0) (ids (c_ents c)) = false -> memb (focus_of m0) (ids (c_ents c)) = false ->
  m_gen m0 <= c_gen c -> rgen_of m0 <= c_gen c ->
  absm c' m0 = T_empty bump (absm c m0).
Proof.
  intros c c' m0 bump (Z1 & Z2 & Z3 & Z4) Hst He Hp Hg Hi Hf Hgen Hrg.
  unfold absm, T_empty, ent_jp, ent_sp. pcbn. rewrite Hst, He, Hp, Hg, Hi, Hf. cbn [ids map memb existsb find_ent find].
  rewrite (find_ent_none _ _ Hi), (find_ent_none _ _ Hf).
  destruct bump.
  - assert (G1 : (m_gen m0 =? S (c_gen c)) = false) by (apply Nat.eqb_neq; lia).
    assert (G2 : (m_gen m0 <=? S (c_gen c)) = true) by (apply Nat.leb_le; lia).
    assert (R1 : (rgen_of m0 =? S (c_gen c)) = false) by (apply Nat.eqb_neq; lia).
    assert (R2 : (rgen_of m0 <=? S (c_gen c)) = true) by (apply Nat.leb_le; lia).
    rewrite G1, G2, R1, R2. reflexivity.
  - reflexivity.
Qed.

Section Expire.
  Variables (c : coord) (ms : list member) (x : nat) (e : entry).
  Hypothesis Hinv : inv_facts c ms.
  Hypothesis Hfind : find_ent x (c_ents c) = Some e.
  Hypothesis Horph : orphan ms e = true.

  Let Hwc := iv_wfc _ _ Hinv.
  Lemma exp_x : e_id e = x /\ In x (ids (c_ents c)) /\ x <> 0 /\ orph ms x = true.
  Proof.
    pose proof (find_ent_id _ _ _ Hfind) as Ei. assert (Hin : In x (ids (c_ents c))).
    { unfold find_ent in Hfind. apply find_some in Hfind. destruct Hfind as [H _]. rewrite <- Ei. apply in_map. exact H. }
    repeat split; try assumption.
    - intros E. rewrite E in Hin. apply memb_In in Hin. rewrite (wc_0e c (wf_c_parts c Hwc)) in Hin. discriminate.
    - unfold orphan in Horph. rewrite Ei in Horph. exact Horph.
  Qed.

  Lemma exp_no_x : forall m0, In m0 ms -> m_live m0 = true -> forall z, has_id m0 z -> z <> x.
  Proof.
    intros m0 H0 L0 z Hz. destruct exp_x as (Ei & _ & Hx & _). rewrite <- Ei. apply (orphan_not_has ms e m0 Horph H0 L0); [rewrite Ei; exact Hx | exact Hz].
  Qed.

  (* every member against the table without x *)
  Lemma exp_members1 : forall m0, In m0 ms -> wf_m (c1x c x) m0 = true /\ coh (c1x c x) m0 = true /\ tw (c1x c x) m0 = tw c m0.
  Proof.
    intros m0 H0. destruct exp_x as (_ & _ & Hx & _). destruct (m_live m0) eqn:L0.
    - unfold wf_m, coh, tw. rewrite (c1x_frame c x m0 Hwc Hx (exp_no_x m0 H0 L0)).
      repeat split; [apply (iv_wfm _ _ Hinv m0 H0) | apply (iv_coh _ _ Hinv m0 H0)].
    - destruct (dead_trivial (c1x c x) m0 L0) as (A & B & T & _). destruct (dead_trivial c m0 L0) as (_ & _ & T' & _). rewrite T, T'. auto.
  Qed.

  (* ... to an empty table *)
  Lemma case_expire_empty : forall rt, drop x (c_ents c) = [] ->
    let c' := mkC (if rt || cstate_eqb (c_st c) CEmpty then c_gen c else S (c_gen c)) CEmpty [] (c_pend c) (if c_leader c =? x then 0 else c_leader c) in
    inv_facts c' (map (bcast []) ms) /\ mu (mkS c' (map (bcast []) ms)) < mu (mkS c ms).
  Proof.
    intros rt Hd c'. destruct exp_x as (Ei & Hin & Hx & Ho). pose proof (wf_c_parts c Hwc) as W.
    assert (Hall : forall z, memb z (ids (c_ents c)) = true -> z = x).
    { intros z Hz. destruct (Nat.eq_dec z x) as [E|E]; [exact E|]. exfalso.
      assert (memb z (ids (drop x (c_ents c))) = true) by (rewrite memb_drop, Hz; destruct (Nat.eqb_spec z x); [contradiction | reflexivity]).
      rewrite Hd in H. discriminate. }
    assert (Hm : forall m0, In m0 ms -> wf_m c' (bcast [] m0) = true /\ coh c' (bcast [] m0) = true /\ tw c' (bcast [] m0) <= tw c m0).
    { intros m0 H0. change (bcast [] m0) with m0. destruct (m_live m0) eqn:L0.
      - assert (Hi : memb (m_id m0) (ids (c_ents c)) = false).
        { destruct (memb (m_id m0) (ids (c_ents c))) eqn:E; [|reflexivity]. exfalso. apply (exp_no_x m0 H0 L0 (m_id m0)).
          - split; [|left; reflexivity]. intros Ez. rewrite Ez, (wc_0e c W) in E. discriminate.
          - apply Hall. exact E. }
        assert (Hf : memb (focus_of m0) (ids (c_ents c)) = false).
        { destruct (memb (focus_of m0) (ids (c_ents c))) eqn:E; [|reflexivity]. exfalso. apply (exp_no_x m0 H0 L0 (focus_of m0)).
          - split; [|right; reflexivity]. intros Ez. rewrite Ez, (wc_0e c W) in E. discriminate.
          - apply Hall. exact E. }
        pose proof (iv_wfm _ _ Hinv m0 H0) as Wm. pose proof (iv_coh _ _ Hinv m0 H0) as Cm.
        set (bump := negb (rt || cstate_eqb (c_st c) CEmpty)).
        assert (EA : absm c' m0 = T_empty bump (absm c m0)).
        { assert (Hg : c_gen c' = (if bump then S (c_gen c) else c_gen c)).
          { unfold c', bump. cbn [c_gen]. destruct (rt || cstate_eqb (c_st c) CEmpty); reflexivity. }
          exact (absm_T_empty c c' m0 bump (wf_c_zfacts c Hwc) eq_refl eq_refl eq_refl Hg Hi Hf (gen_le_of c m0 L0 Cm) (rgen_le_of c m0 L0 Wm Cm)). }
        pose proof (use_check pre_any chk_T_empty c m0 ok_T_empty Hwc L0 Wm (wf_pre_m _ _ L0 Wm)) as H.
        unfold chk_T_empty in H. rewrite (inv_a_of c ms m0 Hinv H0) in H.
        assert (E1 : a_id_e (absm c m0) = false) by exact Hi. assert (E2 : a_f_e (absm c m0) = false) by exact Hf.
        rewrite E1, E2 in H. cbn [negb andb orb] in H. apply andb_true_iff in H. destruct H as [Ht Hf'].
        assert (K : keeps (absm c m0) (T_empty bump (absm c m0)) = true) by (destruct bump; assumption).
        rewrite <- EA in K. destruct (keeps_parts _ _ K) as (_ & A & B & C). repeat split; assumption.
      - destruct (dead_trivial c' m0 L0) as (A & B & T & _). rewrite T. repeat split; try assumption. lia. }
    apply epoch_general; try assumption.
    - intros m0. reflexivity.
    - apply wf_c_of_parts. constructor; unfold c'; cbn [c_gen c_st c_ents c_pend c_leader ids map nodupb memb existsb cstate_eqb negb orb hd_error is_none forallb];
        try reflexivity; try exact (wc_0p c W).
      apply forallb_forall. intros; reflexivity.
    - intros m0 H0. destruct (Hm m0 H0) as (A & B & _). auto.
    - rewrite (pairwise_map_same (bcast [])); [exact (iv_disj _ _ Hinv) | intros; repeat split; reflexivity].
    - assert (HK : count_orphans (mkS c' (map (bcast []) ms)) + 1 <= count_orphans (mkS c ms)).
      { apply (expire_orphans c c' ms x []); [exact Hin | exact Ho | unfold c'; cbn [c_ents]; rewrite Hd; reflexivity]. }
      assert (S1 : sum (map (tw c') (map (bcast []) ms)) <= sum (map (tw c) ms)) by (rewrite map_map; apply sum_map_le; intros m0 H0; apply (Hm m0 H0)).
      unfold trig. cbn [s_c s_ms]. assert (E1 : erank c' = 0) by reflexivity. lia.
  Qed.
End Expire.

Lemma drop_nonempty_notjoined : forall es x, forallb (fun e => negb (e_jp e)) es = true -> drop x es <> [] -> all_joined (drop x es) = false.
Proof.
  intros es x H Hne. destruct (drop x es) as [|e r] eqn:E; [congruence|]. unfold all_joined. cbn [forallb].
  assert (Hin : In e (drop x es)) by (rewrite E; left; reflexivity). unfold drop in Hin. apply filter_In in Hin. destruct Hin as [Hin _].
  rewrite forallb_forall in H. specialize (H e Hin). apply negb_true_iff in H. rewrite H. reflexivity.
Qed.

(* ... from Stable / CompletingRebalance: a rebalance starts *)
Lemma case_expire_prepare : forall c ms x e, inv_facts c ms -> find_ent x (c_ents c) = Some e -> orphan ms e = true ->
  (c_st c = CStable \/ c_st c = CCompleting) -> drop x (c_ents c) <> [] ->
  let c' := mkC (c_gen c) CPreparing (clear_sp (drop x (c_ents c))) (c_pend c) (if c_leader c =? x then 0 else c_leader c) in
  inv_facts c' (map (bcast [EvPrepare]) ms) /\ mu (mkS c' (map (bcast [EvPrepare]) ms)) < mu (mkS c ms).
Proof.
  intros c ms x e Hinv Hfind Horph Hst Hne c'. pose proof (iv_wfc _ _ Hinv) as Hwc. pose proof (wf_c_parts c Hwc) as W.
  destruct (exp_x c ms x e Hinv Hfind Horph) as (Ei & Hin & Hx & Ho).
  assert (Hnp : c_st c <> CPreparing) by (destruct Hst as [E|E]; rewrite E; discriminate).
  assert (Hjp : forallb (fun e0 => negb (e_jp e0)) (c_ents c) = true).
  { pose proof (wc_jp c W) as H. destruct Hst as [E|E]; rewrite E in H; exact H. }
  assert (Hm : forall m0, In m0 ms -> wf_m c' (bcast [EvPrepare] m0) = true /\ coh c' (bcast [EvPrepare] m0) = true /\ tw c' (bcast [EvPrepare] m0) <= tw c m0).
  { intros m0 H0. destruct (m_live m0) eqn:L0.
    - assert (EA : absm c' (bcast [EvPrepare] m0) = T_prep (absm c m0)).
      { rewrite (absm_T_prep (c1x c x) c' m0); try reflexivity. f_equal. apply (c1x_frame c x m0 Hwc Hx (exp_no_x c ms x e Hinv Hfind Horph m0 H0 L0)). }
      destruct (member_prepare c c' m0 Hwc Hnp L0 (iv_wfm _ _ Hinv m0 H0) (iv_coh _ _ Hinv m0 H0) EA) as (_ & A & B & C). auto.
    - destruct (bcast_dead [EvPrepare] c' m0 L0) as (A & B & T). rewrite T. repeat split; try assumption. lia. }
  apply epoch_general; try assumption.
  - intros m0. destruct (bcast_fields [EvPrepare] m0) as (_ & _ & _ & _ & N & _). exact N.
  - unfold c'. apply wfc_prepare; [apply tbl_drop; apply tbl_of_wf; exact W | exact Hne | apply drop_nonempty_notjoined; assumption].
  - intros m0 H0. destruct (Hm m0 H0) as (A & B & _). auto.
  - rewrite (pairwise_map_same (bcast [EvPrepare])); [exact (iv_disj _ _ Hinv) | apply bcast_same].
  - assert (HK : count_orphans (mkS c' (map (bcast [EvPrepare]) ms)) + 1 <= count_orphans (mkS c ms)).
    { apply (expire_orphans c c' ms x [EvPrepare]); [exact Hin | exact Ho | unfold c'; cbn [c_ents]; apply ids_clear_sp]. }
    assert (S1 : sum (map (tw c') (map (bcast [EvPrepare]) ms)) <= sum (map (tw c) ms)) by (rewrite map_map; apply sum_map_le; intros m0 H0; apply (Hm m0 H0)).
    unfold trig. cbn [s_c s_ms]. assert (E1 : erank c' = 2) by reflexivity. pose proof (erank_le2 c). lia.
Qed.

(* ... in PreparingRebalance, others still missing *)
Lemma case_expire_waiting : forall c ms x e, inv_facts c ms -> find_ent x (c_ents c) = Some e -> orphan ms e = true ->
  c_st c = CPreparing -> drop x (c_ents c) <> [] -> all_joined (drop x (c_ents c)) = false ->
  inv_facts (c1x c x) (map (bcast []) ms) /\ mu (mkS (c1x c x) (map (bcast []) ms)) < mu (mkS c ms).
Proof.
  intros c ms x e Hinv Hfind Horph Hst Hne Hnj. pose proof (iv_wfc _ _ Hinv) as Hwc. pose proof (wf_c_parts c Hwc) as W.
  destruct (exp_x c ms x e Hinv Hfind Horph) as (Ei & Hin & Hx & Ho).
  pose proof (wc_sp c W) as Hsp. rewrite Hst in Hsp. cbn [cstate_eqb orb] in Hsp.
  apply epoch_general; try assumption.
  - intros m0. reflexivity.
  - destruct (tbl_drop (c_ents c) (c_pend c) x (tbl_of_wf c W)) as (T1 & T2 & T3 & T4).
    apply wf_c_of_parts. constructor; unfold c1x; cbn [c_gen c_st c_ents c_pend c_leader]; rewrite ?Hst; cbn [cstate_eqb negb orb]; try assumption; try reflexivity.
    + destruct (drop x (c_ents c)); [congruence | reflexivity].
    + apply forallb_drop. exact Hsp.
    + rewrite Hnj. reflexivity.
    + unfold ent_sp. cbn [c_ents]. apply (find_ent_flag e_sp). apply forallb_drop. exact Hsp.
  - intros m0 H0. change (bcast [] m0) with m0. destruct (exp_members1 c ms x e Hinv Hfind Horph m0 H0) as (A & B & _). auto.
  - rewrite (pairwise_map_same (bcast [])); [exact (iv_disj _ _ Hinv) | intros; repeat split; reflexivity].
  - assert (HK : count_orphans (mkS (c1x c x) (map (bcast []) ms)) + 1 <= count_orphans (mkS c ms)).
    { apply (expire_orphans c (c1x c x) ms x []); [exact Hin | exact Ho | reflexivity]. }
    assert (S1 : sum (map (tw (c1x c x)) (map (bcast []) ms)) <= sum (map (tw c) ms)).
    { rewrite map_map. apply sum_map_le. intros m0 H0. change (bcast [] m0) with m0. destruct (exp_members1 c ms x e Hinv Hfind Horph m0 H0) as (_ & _ & T). lia. }
    unfold trig. cbn [s_c s_ms]. assert (E1 : erank (c1x c x) = erank c) by reflexivity. lia.
Qed.

(* ... in PreparingRebalance, it was the last one missing: _complete_join *)
Lemma case_expire_complete : forall c ms x e, inv_facts c ms -> find_ent x (c_ents c) = Some e -> orphan ms e = true ->
  c_st c = CPreparing -> drop x (c_ents c) <> [] -> all_joined (drop x (c_ents c)) = true ->
  let g := bcast [EvJoinDone (S (c_gen c))] in
  inv_facts (c3_of (c1x c x)) (map g ms) /\ mu (mkS (c3_of (c1x c x)) (map g ms)) < mu (mkS c ms).
Proof.
  intros c ms x e Hinv Hfind Horph Hst Hne Haj g. pose proof (iv_wfc _ _ Hinv) as Hwc. pose proof (wf_c_parts c Hwc) as W.
  destruct (exp_x c ms x e Hinv Hfind Horph) as (Ei & Hin & Hx & Ho).
  pose proof (wc_sp c W) as Hsp. rewrite Hst in Hsp. cbn [cstate_eqb orb] in Hsp.
  pose proof (tbl_drop (c_ents c) (c_pend c) x (tbl_of_wf c W)) as Htbl.
  assert (W1 : wf_cw (c1x c x)) by (unfold c1x; rewrite Hst; apply wcw_preparing; [exact Htbl | apply forallb_drop; exact Hsp]).
  destruct (all_barrier (c1x c x) (c3_of (c1x c x)) ms W1 Hst Haj eq_refl eq_refl eq_refl eq_refl) as [Hall3 Hsum3].
  { intros mP HP. destruct (exp_members1 c ms x e Hinv Hfind Horph mP HP) as (A & B & _). auto. }
  apply epoch_general; [exact Hinv | | | | |].
  - intros m0. unfold g. destruct (bcast_fields [EvJoinDone (S (c_gen c))] m0) as (_ & _ & _ & _ & N & _). exact N.
  - unfold c3_of. apply wfc_complete; [exact Htbl | exact Hne | apply forallb_drop; exact Hsp].
  - exact Hall3.
  - unfold g. rewrite (pairwise_map_same (bcast [EvJoinDone (S (c_gen c))])); [exact (iv_disj _ _ Hinv) | apply bcast_same].
  - assert (HK : count_orphans (mkS (c3_of (c1x c x)) (map g ms)) + 1 <= count_orphans (mkS c ms)).
    { apply (expire_orphans c (c3_of (c1x c x)) ms x [EvJoinDone (S (c_gen c))]); [exact Hin | exact Ho | unfold c3_of, c1x; cbn [c_ents]; apply ids_clear_jp]. }
    assert (S1 : sum (map (tw (c1x c x)) ms) <= sum (map (tw c) ms)).
    { apply sum_map_le. intros m0 H0. destruct (exp_members1 c ms x e Hinv Hfind Horph m0 H0) as (_ & _ & T). lia. }
    unfold trig. cbn [s_c s_ms]. assert (E1 : erank (c3_of (c1x c x)) = 1) by reflexivity. change (c_gen (c1x c x)) with (c_gen c) in Hsum3. fold g in Hsum3. lia.
Qed.
