(* Per-step facts, part 3: the steps that change the coordinator. *)
From Coq Require Import ZArith List Bool Arith Lia.
From Verif Require Import DispatchActs HeartbeatDispatch JoinRetryDispatch JoinDispatch SyncDispatch CommitDispatch
  C06_Converge C06_conv_lib C06_conv_refl C06_conv_abs C06_conv_checks C06_conv_step C06_conv_cases C06_conv_coord.
Import ListNotations.
Local Open Scope nat_scope.

Definition join_out (o : outcome) (m : member) : member := apply_outcome o (sent_join m).

Lemma fresh_facts : forall c ms y, fresh (mkS c ms) y = true ->
  y <> 0 /\ memb y (ids (c_ents c)) = false /\ memb y (c_pend c) = false
  /\ forall m0, In m0 ms -> ~ has_id m0 y.
Proof.
  intros c ms y H. unfold fresh in H. cbn [s_c s_ms] in H.
  apply andb_true_iff in H; destruct H as [H H4]. apply andb_true_iff in H; destruct H as [H H3].
  apply andb_true_iff in H; destruct H as [H1 H2]. apply negb_true_iff in H1, H2, H3. apply Nat.eqb_neq in H1.
  repeat split; try assumption. intros m0 H0 [_ Hh]. rewrite forallb_forall in H4. specialize (H4 m0 H0).
  apply andb_true_iff in H4. destruct H4 as [A B]. apply negb_true_iff in A, B. apply Nat.eqb_neq in A, B.
  destruct Hh as [Hh|Hh]; [congruence|]. unfold focus_of in Hh. destruct (ph_eqb (m_ph m0) PJoinSent); congruence.
Qed.

Lemma others_not_x : forall c ms i m x, inv_facts c ms -> getm i ms = Some m -> m_live m = true -> has_id m x ->
  forall m0, In m0 ms -> m_name m0 <> i -> m_live m0 = true -> ~ has_id m0 x.
Proof.
  intros c ms i m x Hinv G L Hx m0 H0 Hn L0 Hx0. destruct (getm_In i ms m G) as [Hin Hnm].
  assert (D : disj m m0) by (apply (pairwise_all ms (iv_disj _ _ Hinv) (iv_names _ _ Hinv)); [exact Hin | exact H0 | congruence]).
  exact (D L L0 x Hx Hx0).
Qed.

(* ---- JoinGroup with an empty member id, v4+: MEMBER_ID_REQUIRED and a new pending id ---- *)
Lemma case_join_79 : forall c ms i m y, inv_facts c ms -> getm i ms = Some m -> m_live m = true ->
  m_ph m = PIdle -> m_inbox m = None -> m_cmin m = None -> m_rejoin m = true -> ck_known (m_ck m) = true -> ck_stale (m_ck m) = false ->
  m_id m = 0 -> fresh (mkS c ms) y = true ->
  let c' := mkC (c_gen c) (c_st c) (c_ents c) (y :: c_pend c) (c_leader c) in
  let F := join_out (Immediate y (RpJoin 79 0)) in
  inv_facts c' (updm i F ms) /\ mu_behaves true (mkS c ms) (mkS c' (updm i F ms)).
Proof.
  intros c ms i m y Hinv G L Hp Hib Hcm Hrj Hk Hns Hid Hfr c' F. get_facts Hinv G.
  destruct (fresh_facts c ms y Hfr) as (Hy0 & Hye & Hyp & Hyo). pose proof (wf_c_parts c Hwc) as W.
  assert (Hwc' : wf_c c' = true).
  { apply wf_c_of_parts. constructor; unfold c'; cbn [c_gen c_st c_ents c_pend c_leader];
      try (first [exact (wc_nodup c W) | exact (wc_0e c W) | exact (wc_nonempty c W) | exact (wc_empty c W) | exact (wc_jp c W)
                 | exact (wc_sp c W) | exact (wc_notall c W) | exact (wc_leader c W) | exact (wc_lsp c W)]).
    - unfold memb. cbn [existsb]. destruct (Nat.eqb_spec 0 y); [congruence|]. exact (wc_0p c W).
    - cbn [forallb]. rewrite Hye. exact (wc_pend c W). }
  assert (Hframe : forall m0, (forall x, has_id m0 x -> x <> y) -> absm c' m0 = absm c m0).
  { intros m0 Hx. apply absm_frame; try reflexivity; [apply wf_c_zfacts; exact Hwc | apply wf_c_zfacts; exact Hwc'|].
    intros x Hh. repeat split; try reflexivity. unfold c'. cbn [c_pend]. unfold memb. cbn [existsb].
    destruct (Nat.eqb_spec x y) as [E|E]; [exfalso; exact (Hx x Hh E) | reflexivity]. }
  pose proof (use_check pre_sendjoin chk_join_79 c m ok_join_79 Hwc L Hwm (sendjoin_pre c m L Hwm Hp Hib Hcm Hk Hrj)) as H.
  unfold chk_join_79 in H. rewrite Hia in H.
  assert (E1 : ck_stale (a_ck (absm c m)) = false) by exact Hns.
  assert (E2 : a_idz (absm c m) = true) by (unfold absm; pcbn; rewrite Hid; reflexivity).
  rewrite E1, E2 in H. cbn [negb andb orb] in H.
  assert (EA : absm c' (F m) = a_join_79 (absm c m)).
  { unfold F, join_out, apply_outcome, sent_join, a_join_79, a_enter_join, absm, focus_of, rgen_of, ib_of. pcbn. cbn [ph_eqb].
    rewrite Hid. unfold c'. cbn [c_gen c_st c_ents c_pend]. rewrite Hye.
    assert (X1 : memb y (y :: c_pend c) = true) by (unfold memb; cbn [existsb]; rewrite Nat.eqb_refl; reflexivity).
    assert (X2 : memb 0 (y :: c_pend c) = memb 0 (c_pend c)) by (unfold memb; cbn [existsb]; destruct (Nat.eqb_spec 0 y); [congruence | reflexivity]).
    rewrite X1, X2. unfold ent_jp, ent_sp. cbn [c_ents]. rewrite (find_ent_none y _ Hye).
    destruct (Nat.eqb_spec y 0); [congruence|]. rewrite (Nat.eqb_sym 0 (c_gen c)). reflexivity. }
  rewrite <- EA in H.
  apply (local_step c c' ms i m F 0 true Hinv G L (fun _ => eq_refl) Hwc' eq_refl); try assumption.
  - intros m0 H0 Hn0 L0. apply Hframe. intros x Hh E. subst x. exact (Hyo m0 H0 Hh).
  - intros x [Hx Hh]. unfold F, join_out, apply_outcome, sent_join, focus_of in Hh. pcbn_in Hh. cbn [ph_eqb] in Hh.
    destruct Hh as [Hh|Hh]; [left; split; [exact Hx | left; exact Hh]|]. right. intros m0 H0 _. subst x. exact (Hyo m0 H0).
  - pose proof (orphans_same_ids c c' ms i m F (iv_names _ _ Hinv) G eq_refl) as HK.
    rewrite (dkc_zero c m (F m)) in HK; [lia|]. intros x Hb. unfold bound in *. unfold F, join_out, apply_outcome, sent_join. pcbn.
    apply andb_true_iff in Hb. destruct Hb as [Hl Hb]. rewrite Hl. rewrite Hp in Hb. cbn [ph_eqb andb orb] in Hb. rewrite orb_false_r in Hb.
    rewrite Hb. reflexivity.
Qed.

(* ---- a JoinGroup accepted for the id x (the member's id, or a new one for an empty id) ---- *)
Definition c1_of (c : coord) (x : nat) : coord :=
  mkC (c_gen c) (c_st c) (ents1 (c_ents c) x) (remove_id x (c_pend c)) (c_leader c).
Definition join_target (m : member) (y : nat) : nat := if m_id m =? 0 then y else m_id m.
Definition join_accepts (c : coord) (ms : list member) (m : member) (y : nat) : Prop :=
  (m_id m = 0 /\ fresh (mkS c ms) y = true)
  \/ (m_id m <> 0 /\ (memb (m_id m) (ids (c_ents c)) = true \/ memb (m_id m) (c_pend c) = true)).

Lemma target_nz : forall c ms m y, wf_c c = true -> join_accepts c ms m y -> join_target m y <> 0.
Proof.
  intros c ms m y Hc [[E Hf]|[E _]]; unfold join_target.
  - rewrite E. cbn. destruct (fresh_facts c ms y Hf) as (H & _). exact H.
  - destruct (Nat.eqb_spec (m_id m) 0); [contradiction | assumption].
Qed.

Lemma c1_frame : forall c x m0, wf_c c = true -> x <> 0 -> (forall z, has_id m0 z -> z <> x) -> absm (c1_of c x) m0 = absm c m0.
Proof.
  intros c x m0 Hc Hx Hn. pose proof (wf_c_zfacts c Hc) as (Z1 & Z2 & Z3 & Z4).
  apply absm_frame; try reflexivity; [repeat split; assumption | |].
  - unfold zfacts, c1_of, ent_jp, ent_sp. cbn [c_ents c_pend]. destruct (flags_ents1 (c_ents c) x 0) as [A B].
    fold (flag_of e_jp 0 (ents1 (c_ents c) x)) (flag_of e_sp 0 (ents1 (c_ents c) x)). rewrite A, B, memb_ents1.
    destruct (Nat.eqb_spec 0 x); [congruence|]. rewrite Z1. rewrite (memb_remove_other 0 x) by congruence.
    repeat split; assumption.
  - intros z Hz. specialize (Hn z Hz). unfold c1_of, ent_jp, ent_sp. cbn [c_ents c_pend].
    destruct (flags_ents1 (c_ents c) x z) as [A B].
    fold (flag_of e_jp z (ents1 (c_ents c) x)) (flag_of e_sp z (ents1 (c_ents c) x)). rewrite A, B, memb_ents1.
    destruct (Nat.eqb_spec z x); [contradiction|]. rewrite orb_false_r, (memb_remove_other z x) by assumption.
    repeat split; reflexivity.
Qed.

Lemma absm_join_parked : forall c ms m y, wf_c c = true -> join_accepts c ms m y -> m_ph m = PIdle -> m_inbox m = None ->
  let x := join_target m y in
  absm (c1_of c x) (join_out (Parked x) m) = a_join_parked (absm c m).
Proof.
  intros c ms m y Hc Ha Hp Hib x. pose proof (wf_c_zfacts c Hc) as (Z1 & Z2 & Z3 & Z4).
  pose proof (target_nz c ms m y Hc Ha) as Hx. fold x in Hx.
  unfold absm, a_join_parked, join_out, apply_outcome, sent_join, focus_of, rgen_of, ib_of. pcbn. cbn [ph_eqb].
  unfold c1_of, ent_jp, ent_sp. cbn [c_gen c_st c_ents c_pend].
  fold (flag_of e_jp (m_id m) (ents1 (c_ents c) x)) (flag_of e_sp (m_id m) (ents1 (c_ents c) x))
       (flag_of e_jp x (ents1 (c_ents c) x)) (flag_of e_sp x (ents1 (c_ents c) x)).
  destruct (flags_ents1 (c_ents c) x (m_id m)) as [A1 B1]. destruct (flags_ents1 (c_ents c) x x) as [A2 B2].
  rewrite A1, B1, A2, B2, !memb_ents1, Nat.eqb_refl, orb_true_r, memb_remove_same.
  fold (flag_of e_sp (m_id m) (c_ents c)) (flag_of e_sp x (c_ents c)).
  assert (Hx0 : (x =? 0) = false) by (apply Nat.eqb_neq; exact Hx). rewrite Hx0.
  rewrite (Nat.eqb_sym 0 (c_gen c)).
  destruct Ha as [[E Hf]|[E Hm]].
  - assert (Ex : x = y) by (unfold x, join_target; rewrite E; reflexivity).
    destruct (fresh_facts c ms y Hf) as (_ & Hye & _).
    assert (S0 : flag_of e_sp 0 (c_ents c) = false) by exact Z4.
    assert (S3 : flag_of e_jp 0 (c_ents c) = false) by exact Z3.
    assert (Sx : flag_of e_sp x (c_ents c) = false) by (rewrite Ex; unfold flag_of; rewrite (find_ent_none y _ Hye); reflexivity).
    assert (P0 : memb 0 (remove_id x (c_pend c)) = false) by (rewrite (memb_remove_other 0 x) by congruence; exact Z2).
    rewrite E, Z1, S0, S3, Sx, P0. clearbody x. destruct x as [|x']; [congruence|]. reflexivity.
  - assert (Ex : x = m_id m) by (unfold x, join_target; destruct (Nat.eqb_spec (m_id m) 0); [contradiction | reflexivity]).
    rewrite Ex. rewrite Nat.eqb_refl. destruct (Nat.eqb_spec (m_id m) 0); [contradiction|]. cbn [negb].
    rewrite orb_true_r, memb_remove_same. reflexivity.
Qed.

Lemma target_cases : forall c ms i m y, inv_facts c ms -> getm i ms = Some m -> m_live m = true -> m_ph m = PIdle ->
  join_accepts c ms m y ->
  let x := join_target m y in
  (forall m0, In m0 ms -> m_name m0 <> i -> m_live m0 = true -> forall z, has_id m0 z -> z <> x)
  /\ (forall z, has_id (join_out (Parked x) m) z -> has_id m z \/ (forall m0, In m0 ms -> m_name m0 <> i -> ~ has_id m0 z))
  /\ bound (join_out (Parked x) m) x = true
  /\ (forall z, bound m z = true -> bound (join_out (Parked x) m) z = true).
Proof.
  intros c ms i m y Hinv G L Hp Ha x. pose proof (target_nz c ms m y (iv_wfc _ _ Hinv) Ha) as Hx. fold x in Hx.
  assert (Hfm : focus_of (join_out (Parked x) m) = x) by reflexivity.
  assert (Hidm : m_id (join_out (Parked x) m) = m_id m) by reflexivity.
  assert (Hlm : m_live (join_out (Parked x) m) = m_live m) by reflexivity.
  assert (Hbx : bound (join_out (Parked x) m) x = true).
  { unfold bound. rewrite Hlm, L. cbn. rewrite Nat.eqb_refl, orb_true_r. reflexivity. }
  assert (Hbz : forall z, bound m z = true -> bound (join_out (Parked x) m) z = true).
  { intros z Hb. unfold bound in *. rewrite Hlm, Hidm. rewrite Hp in Hb. cbn [ph_eqb andb orb] in Hb. rewrite orb_false_r in Hb.
    apply andb_true_iff in Hb. destruct Hb as [Hl Hb]. rewrite Hl, Hb. reflexivity. }
  destruct Ha as [[E Hf]|[E Hm]].
  - assert (Ex : x = y) by (unfold x, join_target; rewrite E; reflexivity).
    destruct (fresh_facts c ms y Hf) as (_ & _ & _ & Hyo). repeat split; try assumption.
    + intros m0 H0 _ _ z Hz Ezx. rewrite Ex in Ezx. subst z. exact (Hyo m0 H0 Hz).
    + intros z [Hz Hh]. rewrite Hfm, Hidm in Hh. destruct Hh as [Hh|Hh]; [left; split; [exact Hz | left; exact Hh]|].
      right. intros m0 H0 _. rewrite <- Hh, Ex. exact (Hyo m0 H0).
  - assert (Ex : x = m_id m) by (unfold x, join_target; destruct (Nat.eqb_spec (m_id m) 0); [contradiction | reflexivity]).
    assert (Hhm : has_id m x) by (split; [exact Hx | left; symmetry; exact Ex]).
    repeat split; try assumption.
    + intros m0 H0 Hn0 L0 z Hz Ezx. subst z. exact (others_not_x c ms i m x Hinv G L Hhm m0 H0 Hn0 L0 Hz).
    + intros z [Hz Hh]. rewrite Hfm, Hidm in Hh. left. split; [exact Hz|]. left. destruct Hh as [Hh|Hh]; congruence.
Qed.

(* ... in PreparingRebalance, not the last one to join *)
Lemma wfc_c1_preparing : forall c x, wf_c_facts c -> c_st c = CPreparing -> x <> 0 -> all_joined (ents1 (c_ents c) x) = false ->
  wf_c (c1_of c x) = true.
Proof.
  intros c x W Hst Hx Hnj. destruct (tbl_ents1 (c_ents c) (c_pend c) x (tbl_of_wf c W) Hx) as (T1 & T2 & T3 & T4).
  pose proof (wc_sp c W) as Hsp. rewrite Hst in Hsp. cbn [cstate_eqb orb] in Hsp.
  apply wf_c_of_parts. constructor; unfold c1_of; cbn [c_gen c_st c_ents c_pend c_leader]; rewrite ?Hst; cbn [cstate_eqb negb orb]; try assumption; try reflexivity.
  - pose proof (ents1_nonempty (c_ents c) x). destruct (ents1 (c_ents c) x); [congruence | reflexivity].
  - apply sp_ents1. exact Hsp.
  - rewrite Hnj. reflexivity.
  - unfold ent_sp. cbn [c_ents]. fold (flag_of e_sp (c_leader c) (ents1 (c_ents c) x)).
    destruct (flags_ents1 (c_ents c) x (c_leader c)) as [_ B]. rewrite B. exact (wc_lsp c W).
Qed.

Lemma case_join_parked : forall c ms i m y, inv_facts c ms -> getm i ms = Some m -> m_live m = true ->
  m_ph m = PIdle -> m_inbox m = None -> m_cmin m = None -> m_rejoin m = true -> ck_known (m_ck m) = true -> ck_stale (m_ck m) = false ->
  join_accepts c ms m y -> c_st c = CPreparing ->
  let x := join_target m y in
  all_joined (ents1 (c_ents c) x) = false ->
  let F := join_out (Parked x) in
  inv_facts (c1_of c x) (updm i F ms) /\ mu_behaves true (mkS c ms) (mkS (c1_of c x) (updm i F ms)).
Proof.
  intros c ms i m y Hinv G L Hp Hib Hcm Hrj Hk Hns Ha Hst x Hnj F. get_facts Hinv G. pose proof (wf_c_parts c Hwc) as W.
  pose proof (target_nz c ms m y Hwc Ha) as Hx. fold x in Hx.
  destruct (target_cases c ms i m y Hinv G L Hp Ha) as (Hoth & Hids & Hbx & Hbz). fold x in Hoth, Hids, Hbx, Hbz.
  pose proof (wfc_c1_preparing c x W Hst Hx Hnj) as Hwc'.
  pose proof (use_check pre_sendjoin chk_join_parked c m ok_join_parked Hwc L Hwm (sendjoin_pre c m L Hwm Hp Hib Hcm Hk Hrj)) as H.
  unfold chk_join_parked, join_ok_pre in H. rewrite Hia in H.
  assert (E1 : ck_stale (a_ck (absm c m)) = false) by exact Hns.
  assert (E2 : a_idz (absm c m) || a_id_e (absm c m) || a_id_p (absm c m) = true).
  { unfold absm. pcbn. destruct Ha as [[E _]|[_ [E|E]]]; [rewrite E; reflexivity | rewrite E; apply orb_true_iff; left; apply orb_true_r | rewrite E; apply orb_true_r]. }
  assert (E3 : cstate_eqb (a_st (absm c m)) CPreparing = true) by (unfold absm; pcbn; rewrite Hst; reflexivity).
  rewrite E1, E2, E3 in H. cbn [negb andb orb] in H.
  rewrite <- (absm_join_parked c ms m y Hwc Ha Hp Hib) in H. fold x in H.
  apply (local_step c (c1_of c x) ms i m F 0 true Hinv G L (fun _ => eq_refl) Hwc'); try assumption.
  - unfold erank, c1_of. reflexivity.
  - intros m0 H0 Hn0 L0. apply c1_frame; [exact Hwc | exact Hx | exact (Hoth m0 H0 Hn0 L0)].
  - assert (HK : count_orphans (mkS (c1_of c x) (updm i F ms)) <= count_orphans (mkS c ms) + dkc c m (F m)).
    { destruct (memb x (ids (c_ents c))) eqn:Ex.
      - apply orphans_same_ids; [exact (iv_names _ _ Hinv) | exact G|]. unfold c1_of. cbn [c_ents]. rewrite ids_ents1, Ex. reflexivity.
      - apply (orphans_new_entry c (c1_of c x) ms i m F x); [exact (iv_names _ _ Hinv) | exact G | | exact Hbx].
        unfold c1_of. cbn [c_ents]. rewrite ids_ents1, Ex. reflexivity. }
    rewrite (dkc_zero c m (F m) Hbz) in HK. lia.
Qed.

(* ---- a known member joining while nothing is being prepared: answered at once, the coordinator is unchanged ---- *)
Lemma set_jp_roundtrip : forall x es, forallb (fun e => negb (e_jp e)) es = true -> set_jp x false (set_jp x true es) = es.
Proof.
  intros x es H. unfold set_jp. rewrite map_map. rewrite <- (map_id es) at 2. apply map_ext_in. intros e He.
  rewrite forallb_forall in H. specialize (H e He). apply negb_true_iff in H.
  destruct (e_id e =? x) eqn:E; cbn [e_id]; rewrite E; [|reflexivity]. destruct e as [a b d]. cbn in *. subst b. reflexivity.
Qed.
Lemma remove_absent : forall x l, memb x l = false -> remove_id x l = l.
Proof.
  intros x l H. unfold remove_id. induction l as [|a r IH]; [reflexivity|]. unfold memb in H. cbn [existsb] in H.
  apply orb_false_iff in H. destruct H as [H1 H2]. cbn [filter]. rewrite (Nat.eqb_sym a x), H1. cbn [negb]. rewrite (IH H2). reflexivity.
Qed.
Lemma coord_eta : forall c, mkC (c_gen c) (c_st c) (c_ents c) (c_pend c) (c_leader c) = c.
Proof. destruct c; reflexivity. Qed.

Lemma join_known_immediate : forall c x, wf_c c = true -> memb x (ids (c_ents c)) = true ->
  (c_st c = CCompleting \/ (c_st c = CStable /\ (x =? c_leader c) = false)) ->
  join_known c x = (c, Immediate x (RpJoin 0 (c_gen c)), []).
Proof.
  intros c x Hc Hx Hst. pose proof (wf_c_parts c Hc) as W. unfold join_known. rewrite Hx. cbn [negb].
  assert (Hjp : forallb (fun e => negb (e_jp e)) (c_ents c) = true).
  { pose proof (wc_jp c W) as H. destruct Hst as [E|[E _]]; rewrite E in H; exact H. }
  assert (Hp : remove_id x (c_pend c) = c_pend c) by (apply remove_absent; apply (pend_not_ent c x Hc Hx)).
  cbn [c_pend]. rewrite (set_jp_roundtrip x _ Hjp), Hp, coord_eta.
  destruct Hst as [E|[E El]]; rewrite E; [reflexivity|]. cbn [orb]. rewrite El. reflexivity.
Qed.

Lemma case_join_immediate : forall c ms i m, inv_facts c ms -> getm i ms = Some m -> m_live m = true ->
  m_ph m = PIdle -> m_inbox m = None -> m_cmin m = None -> m_rejoin m = true -> ck_known (m_ck m) = true -> ck_stale (m_ck m) = false ->
  m_id m <> 0 -> memb (m_id m) (ids (c_ents c)) = true -> (c_st c = CCompleting \/ c_st c = CStable) ->
  let F := join_imm 0 (c_gen c) in
  inv_facts c (updm i F ms) /\ mu_behaves true (mkS c ms) (mkS c (updm i F ms)).
Proof.
  intros c ms i m Hinv G L Hp Hib Hcm Hrj Hk Hns Hid He Hst F. get_facts Hinv G. pose proof (wf_c_parts c Hwc) as W.
  pose proof (use_check pre_sendjoin chk_join_immediate c m ok_join_immediate Hwc L Hwm (sendjoin_pre c m L Hwm Hp Hib Hcm Hk Hrj)) as H.
  assert (Hg0 : (c_gen c =? 0) = false).
  { pose proof (wc_leader c W) as Hl. destruct Hst as [E|E]; rewrite E in Hl; apply andb_true_iff in Hl; destruct Hl as [_ Hl]; apply negb_true_iff in Hl; exact Hl. }
  assert (Hjp : ent_jp c (m_id m) = false).
  { pose proof (wc_jp c W) as Hj. unfold ent_jp. apply (find_ent_flag e_jp). destruct Hst as [E|E]; rewrite E in Hj; exact Hj. }
  assert (Hz : (m_id m =? 0) = false) by (apply Nat.eqb_neq; exact Hid).
  unfold chk_join_immediate, join_ok_pre in H. rewrite Hia in H.
  assert (E1 : ck_stale (a_ck (absm c m)) = false) by exact Hns. assert (E2 : a_idz (absm c m) = false) by exact Hz.
  assert (E3 : a_id_e (absm c m) = true) by exact He. assert (E4 : a_G0 (absm c m) = false) by exact Hg0.
  assert (E5 : a_id_jp (absm c m) = false) by exact Hjp.
  assert (E6 : cstate_eqb (a_st (absm c m)) CStable || cstate_eqb (a_st (absm c m)) CCompleting = true).
  { unfold absm. pcbn. destruct Hst as [E|E]; rewrite E; reflexivity. }
  rewrite E1, E2, E3, E4, E5, E6 in H. cbn [negb andb orb] in H.
  assert (EA : absm c (F m) = a_join_immediate (absm c m)).
  { unfold F. rewrite (absm_join_imm c m 0 (c_gen c) Hp Hib). unfold a_join_immediate.
    rewrite E2, E3, E5, Hg0, Nat.eqb_refl, Nat.leb_refl. assert (E7 : a_id_p (absm c m) = false) by exact (pend_not_ent c _ Hwc He).
    rewrite E7. reflexivity. }
  rewrite <- EA in H.
  destruct (keep_id_ids c m (F m)) as [Hids Hdk]; try reflexivity. { rewrite Hp; discriminate. } { right; reflexivity. }
  apply (local_same c ms i m F 0 true Hinv G L (fun _ => eq_refl) H Hids). lia.
Qed.

(* ---- a follower's SyncGroup in CompletingRebalance: parked ---- *)
Definition sync_park (m : member) : member := set_inbox None (set_ph PSyncSent (set_rejoin false m)).
Lemma case_sync_park : forall c ms i m, inv_facts c ms -> getm i ms = Some m -> m_live m = true ->
  m_ph m = PJoined -> m_inbox m = None -> ck_known (m_ck m) = true -> ck_stale (m_ck m) = false ->
  c_st c = CCompleting -> validate c (m_id m) (m_gen m) = 0%Z -> (m_id m =? c_leader c) = false ->
  let c' := mkC (c_gen c) (c_st c) (set_sp (m_id m) true (c_ents c)) (c_pend c) (c_leader c) in
  inv_facts c' (updm i sync_park ms) /\ mu_behaves true (mkS c ms) (mkS c' (updm i sync_park ms)).
Proof.
  intros c ms i m Hinv G L Hp Hib Hk Hns Hst Hv Hnl c'. get_facts Hinv G. pose proof (wf_c_parts c Hwc) as W.
  assert (Hval : memb (m_id m) (ids (c_ents c)) = true /\ (m_id m =? 0) = false /\ (m_gen m =? c_gen c) = true).
  { unfold validate in Hv. destruct (memb (m_id m) (ids (c_ents c))); [|discriminate]. destruct (m_id m =? 0); [discriminate|].
    cbn [negb orb] in Hv. destruct (m_gen m =? c_gen c); [auto | discriminate]. }
  destruct Hval as (He & Hz & Hg).
  assert (Hwc' : wf_c c' = true).
  { pose proof (wc_nonempty c W) as N1. pose proof (wc_jp c W) as N2. pose proof (wc_leader c W) as N3. rewrite Hst in N1, N2, N3.
    cbn [cstate_eqb orb] in N1, N2.
    apply wf_c_of_parts. constructor; unfold c'; cbn [c_gen c_st c_ents c_pend c_leader]; rewrite ?ids_set_sp, ?Hst; cbn [cstate_eqb negb orb];
      try (first [exact (wc_nodup c W) | exact (wc_0e c W) | exact (wc_0p c W) | exact (wc_pend c W) | exact N3 | reflexivity]).
    - destruct (c_ents c); [exact N1 | reflexivity].
    - rewrite forallb_forall in N2 |- *.
      intros e Hin'. unfold set_sp in Hin'. apply in_map_iff in Hin'. destruct Hin' as [e0 [<- H0]]. destruct (e_id e0 =? m_id m); [cbn [e_jp]|]; apply N2; exact H0.
    - unfold ent_sp. cbn [c_ents]. fold (flag_of e_sp (c_leader c) (set_sp (m_id m) true (c_ents c))).
      destruct (flag_set_sp (m_id m) true (c_leader c) (c_ents c)) as [A _]. rewrite A.
      rewrite (Nat.eqb_sym (c_leader c) (m_id m)), Hnl. cbn [andb]. exact (wc_lsp c W). }
  assert (P : fin_of pre_sendsync (absm c m) = true).
  { unfold fin_of, pre_sendsync. fold (fin_of pre_wf (absm c m)). rewrite (wf_pre_m _ _ L Hwm). unfold absm, ib_of. pcbn.
    rewrite Hp, Hib, Hk. reflexivity. }
  pose proof (use_check pre_sendsync chk_sendsync c m ok_sendsync Hwc L Hwm P) as H.
  unfold chk_sendsync in H. rewrite Hia in H. cbn [negb orb] in H.
  assert (Hrep : sync_reply (absm c m) = None).
  { unfold sync_reply, validate_a, absm. pcbn. rewrite Hns, He, Hz, Hg, Hst. reflexivity. }
  rewrite Hrep in H.
  assert (EA : absm c' (sync_park m) = a_send_sync INone true (absm c m)).
  { unfold absm, a_send_sync, sync_park, focus_of, rgen_of, ib_of, c', ent_jp, ent_sp. pcbn. rewrite Hp, Hib. cbn [ph_eqb c_gen c_st c_ents c_pend].
    rewrite ids_set_sp.
    fold (flag_of e_jp (m_id m) (set_sp (m_id m) true (c_ents c))) (flag_of e_sp (m_id m) (set_sp (m_id m) true (c_ents c)))
         (flag_of e_jp 0 (set_sp (m_id m) true (c_ents c))) (flag_of e_sp 0 (set_sp (m_id m) true (c_ents c))).
    destruct (flag_set_sp (m_id m) true (m_id m) (c_ents c)) as [A1 B1]. destruct (flag_set_sp (m_id m) true 0 (c_ents c)) as [A2 B2].
    rewrite A1, B1, A2, B2, Nat.eqb_refl, He. rewrite (Nat.eqb_sym 0 (m_id m)), Hz. cbn [andb]. reflexivity. }
  rewrite <- EA in H.
  apply (local_step c c' ms i m sync_park 0 true Hinv G L (fun _ => eq_refl) Hwc'); try assumption.
  - reflexivity.
  - intros m0 H0 Hn0 L0. apply absm_frame; try reflexivity; [apply wf_c_zfacts; exact Hwc | apply wf_c_zfacts; exact Hwc'|].
    intros z Hz0. assert (Hne : z <> m_id m).
    { intros E. subst z. apply (others_not_x c ms i m (m_id m) Hinv G L) with (m0 := m0); try assumption.
      split; [apply Nat.eqb_neq; exact Hz | left; reflexivity]. }
    unfold c', ent_jp, ent_sp. cbn [c_ents c_pend]. rewrite ids_set_sp.
    fold (flag_of e_jp z (set_sp (m_id m) true (c_ents c))) (flag_of e_sp z (set_sp (m_id m) true (c_ents c))).
    destruct (flag_set_sp (m_id m) true z (c_ents c)) as [A B]. rewrite A, B.
    destruct (Nat.eqb_spec z (m_id m)); [contradiction|]. repeat split; reflexivity.
  - intros z [Hz0 Hh]. left. split; [exact Hz0|]. left. destruct Hh as [Hh|Hh]; [exact Hh | unfold focus_of, sync_park in Hh; cbn in Hh; congruence].
  - pose proof (orphans_same_ids c c' ms i m sync_park (iv_names _ _ Hinv) G) as HK.
    rewrite (dkc_zero c m (sync_park m)) in HK.
    + assert (ids (c_ents c') = ids (c_ents c)) by (unfold c'; cbn [c_ents]; apply ids_set_sp). specialize (HK H0). lia.
    + intros z Hb. unfold bound in *. unfold sync_park. pcbn. rewrite Hp in Hb. cbn [ph_eqb andb orb] in *. rewrite orb_false_r in *. exact Hb.
Qed.
