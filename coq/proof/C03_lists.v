(* C03_lists.v — sorted offset lists, [between], the log lemmas (visible is strictly increasing,
   what [unpack] yields on an answer of the leader) for model/C03_Fetcher.v *)
From Coq Require Import ZArith List Bool Lia ZifyBool.
From Verif Require Import C03_Fetcher.
Import ListNotations.
Open Scope Z_scope.

(* strictly increasing and all >= lo *)
Fixpoint ssorted (lo : Z) (l : list Z) : Prop :=
  match l with [] => True | x :: l' => lo <= x /\ ssorted (x + 1) l' end.

Lemma ssorted_weaken lo lo' l : lo' <= lo -> ssorted lo l -> ssorted lo' l.
Proof. destruct l; simpl; intuition lia. Qed.

Lemma ssorted_ge l : forall lo x, ssorted lo l -> In x l -> lo <= x.
Proof.
  induction l as [|y l IH]; simpl; intros lo x H I; [contradiction|].
  destruct H as (H1 & H2). destruct I as [->|I]; [lia|]. specialize (IH _ _ H2 I). lia.
Qed.

Lemma ssorted_app l1 : forall lo hi l2,
  ssorted lo l1 -> (forall x, In x l1 -> x < hi) -> lo <= hi -> ssorted hi l2 -> ssorted lo (l1 ++ l2).
Proof.
  induction l1 as [|y l1 IH]; simpl; intros lo hi l2 H B Hle H2.
  - eapply ssorted_weaken; eauto.
  - destruct H as (H1 & H3). split; [exact H1|].
    apply IH with hi; auto. specialize (B y (or_introl eq_refl)). lia.
Qed.

Lemma ssorted_NoDup l : forall lo, ssorted lo l -> NoDup l.
Proof.
  induction l as [|y l IH]; simpl; intros lo H; constructor.
  - intros I. destruct H as (_ & H). pose proof (ssorted_ge _ _ _ H I). lia.
  - destruct H as (_ & H). eauto.
Qed.

Lemma ssorted_lt_pairs l : forall lo, ssorted lo l ->
  forall i j, (i < j < length l)%nat -> nth i l 0 < nth j l 0.
Proof.
  induction l as [|y l IH]; simpl; intros lo H i j Hij; [lia|].
  destruct H as (H1 & H2). destruct j as [|j]; [lia|]. destruct i as [|i].
  - assert (In (nth j l 0) l) by (apply nth_In; lia).
    pose proof (ssorted_ge _ _ _ H2 H). lia.
  - eapply IH; eauto. lia.
Qed.

(* ---- between ----------------------------------------------------------------------------- *)
Lemma between_app a b l1 l2 : between a b (l1 ++ l2) = between a b l1 ++ between a b l2.
Proof. unfold between. apply filter_app. Qed.

Lemma between_In a b l x : In x (between a b l) <-> In x l /\ a <= x < b.
Proof. unfold between. rewrite filter_In. intuition lia. Qed.

Lemma between_ext a b a' b' l :
  (forall x, In x l -> (a <= x < b <-> a' <= x < b')) -> between a b l = between a' b' l.
Proof.
  intros H. unfold between. apply filter_ext_in. intros x I. specialize (H x I).
  destruct ((a <=? x) && (x <? b)) eqn:E1, ((a' <=? x) && (x <? b')) eqn:E2; try reflexivity; lia.
Qed.

Lemma between_all a b l : (forall x, In x l -> a <= x < b) -> between a b l = l.
Proof.
  induction l as [|y l IH]; simpl; intros H; [reflexivity|].
  pose proof (H y (or_introl eq_refl)).
  replace ((a <=? y) && (y <? b)) with true by lia. f_equal. apply IH. intros; apply H; auto.
Qed.

Lemma between_none a b l : (forall x, In x l -> x < a \/ b <= x) -> between a b l = [].
Proof.
  induction l as [|y l IH]; simpl; intros H; [reflexivity|].
  pose proof (H y (or_introl eq_refl)).
  replace ((a <=? y) && (y <? b)) with false by lia. apply IH. intros; apply H; auto.
Qed.

Lemma between_empty_range a b l : b <= a -> between a b l = [].
Proof. intros. apply between_none. intros. lia. Qed.

Lemma between_sorted a b l : forall lo, ssorted lo l -> ssorted (Z.max lo a) (between a b l).
Proof.
  induction l as [|y l IH]; simpl; intros lo H; [exact I|].
  destruct H as (H1 & H2). destruct ((a <=? y) && (y <? b)) eqn:E.
  - simpl. split; [lia|]. eapply ssorted_weaken; [|apply IH; exact H2]. lia.
  - eapply ssorted_weaken; [|apply IH; exact H2]. lia.
Qed.

Lemma between_split l : forall lo a b c, ssorted lo l -> a <= b <= c ->
  between a c l = between a b l ++ between b c l.
Proof.
  induction l as [|y l IH]; simpl; intros lo a b c H Habc; [reflexivity|].
  destruct H as (H1 & H2). specialize (IH _ a b c H2 Habc).
  destruct ((a <=? y) && (y <? b)) eqn:E1.
  - replace ((a <=? y) && (y <? c)) with true by lia.
    replace ((b <=? y) && (y <? c)) with false by lia. simpl. f_equal. exact IH.
  - destruct ((b <=? y) && (y <? c)) eqn:E2.
    + replace ((a <=? y) && (y <? c)) with true by lia.
      assert (between a b l = []) as Z0.
      { apply between_none. intros x I. pose proof (ssorted_ge _ _ _ H2 I). lia. }
      rewrite Z0 in *. simpl in *. f_equal. exact IH.
    + replace ((a <=? y) && (y <? c)) with false by lia. exact IH.
Qed.

(* the first element of a slice of a sorted list *)
Lemma between_first l : forall lo a b r t, ssorted lo l -> between a b l = r :: t ->
  a <= r < b /\ between a (r + 1) l = [r] /\ between (r + 1) b l = t.
Proof.
  induction l as [|y l IH]; simpl; intros lo a b r t H E; [discriminate|].
  destruct H as (H1 & H2). destruct ((a <=? y) && (y <? b)) eqn:E1.
  - inversion E; subst y t. split; [lia|].
    replace ((a <=? r) && (r <? r + 1)) with true by lia.
    replace ((r + 1 <=? r) && (r <? b)) with false by lia. split.
    + f_equal. apply between_none. intros x I. pose proof (ssorted_ge _ _ _ H2 I). lia.
    + apply between_ext. intros x I. pose proof (ssorted_ge _ _ _ H2 I). lia.
  - destruct (IH _ _ _ _ _ H2 E) as (Hr & Hs & Ht). split; [exact Hr|].
    replace ((a <=? y) && (y <? r + 1)) with false.
    2:{ assert (In r (between a b l)) as I by (rewrite E; left; reflexivity).
        apply between_In in I. pose proof (ssorted_ge _ _ _ H2 (proj1 I)). lia. }
    replace ((r + 1 <=? y) && (y <? b)) with false.
    2:{ assert (In r (between a b l)) as I by (rewrite E; left; reflexivity).
        apply between_In in I. pose proof (ssorted_ge _ _ _ H2 (proj1 I)). lia. }
    split; assumption.
Qed.

(* nothing visible in [a, b): moving the lower end over it changes nothing *)
Lemma between_skip l : forall lo a b c, ssorted lo l -> a <= b <= c -> between a b l = [] ->
  between a c l = between b c l.
Proof. intros lo a b c H Habc E. rewrite (between_split l lo a b c H Habc), E. reflexivity. Qed.

(* a slice of a sorted list is a contiguous block of it *)
Lemma filter_lt_nil l : forall lo a, ssorted lo l -> a <= lo -> filter (fun r => r <? a) l = [].
Proof.
  induction l as [|y l IH]; simpl; intros lo a H Hle; [reflexivity|].
  destruct H as (H1 & H2). replace (y <? a) with false by lia. apply IH with (y + 1); [exact H2|lia].
Qed.

Lemma between_block l : forall lo a e, ssorted lo l -> a <= e ->
  l = filter (fun r => r <? a) l ++ between a e l ++ filter (fun r => e <=? r) l.
Proof.
  induction l as [|y l IH]; simpl; intros lo a e H Hae; [reflexivity|].
  destruct H as (H1 & H2). specialize (IH _ a e H2 Hae).
  destruct (y <? a) eqn:E1.
  - replace ((a <=? y) && (y <? e)) with false by lia. replace (e <=? y) with false by lia.
    simpl. f_equal. exact IH.
  - rewrite (filter_lt_nil l (y + 1) a H2 ltac:(lia)) in *. simpl in *.
    destruct ((a <=? y) && (y <? e)) eqn:E2.
    + replace (e <=? y) with false by lia. simpl. f_equal. exact IH.
    + replace (e <=? y) with true by lia.
      assert (between a e l = []) as B0.
      { apply between_none. intros x I. pose proof (ssorted_ge _ _ _ H2 I). lia. }
      rewrite B0 in *. simpl in *. f_equal. exact IH.
Qed.

Lemma zlist_eqb_eq a : forall b, zlist_eqb a b = true <-> a = b.
Proof.
  induction a as [|x a IH]; destruct b as [|y b]; simpl; split; intros H; try reflexivity; try discriminate.
  - apply andb_true_iff in H. destruct H as (H1 & H2). apply IH in H2. f_equal; [lia|exact H2].
  - inversion H; subst. apply andb_true_iff. split; [lia|]. apply IH. reflexivity.
Qed.

Lemma zlist_eqb_refl a : zlist_eqb a a = true.
Proof. apply zlist_eqb_eq. reflexivity. Qed.

(* ---- the log ------------------------------------------------------------------------------ *)
Lemma incr_in_sorted l : forall lo hi, incr_in lo hi l = true ->
  ssorted lo l /\ (forall x, In x l -> x <= hi).
Proof.
  induction l as [|y l IH]; simpl; intros lo hi H; [split; [exact I|contradiction]|].
  apply andb_true_iff in H. destruct H as (H1 & H2). apply andb_true_iff in H1.
  destruct (IH _ _ H2) as (S1 & S2). split; [split; [lia|exact S1]|].
  intros x [->|I]; [lia|auto].
Qed.

Definition visible_app A B : visible (A ++ B) = visible A ++ visible B.
Proof. unfold visible. apply flat_map_app. Qed.

(* end of a list of batches starting at lo *)
Definition lend (lo : Z) (A : list batch) : Z := fold_left (fun _ b => b_next b) A lo.

Lemma lend_app lo A B : lend lo (A ++ B) = lend (lend lo A) B.
Proof. unfold lend. apply fold_left_app. Qed.

Lemma wf_from_app A : forall lo B,
  wf_from lo (A ++ B) = true <-> wf_from lo A = true /\ wf_from (lend lo A) B = true.
Proof.
  induction A as [|a A IH]; simpl; intros lo B.
  - unfold lend; simpl. tauto.
  - rewrite !andb_true_iff, IH. unfold lend; simpl. unfold b_next. tauto.
Qed.

Lemma wf_from_weaken L lo lo' : lo' <= lo -> wf_from lo L = true -> wf_from lo' L = true.
Proof. destruct L; simpl; intros; [reflexivity|]. rewrite !andb_true_iff in *. intuition lia. Qed.

Lemma wf_lend_le A : forall lo, wf_from lo A = true -> lo <= lend lo A.
Proof.
  induction A as [|a A IH]; unfold lend; simpl; intros lo H; [lia|].
  rewrite !andb_true_iff in H. destruct H as (((H1 & H2) & _) & H4).
  specialize (IH _ H4). unfold lend, b_next in *. lia.
Qed.

Lemma wf_visible_sorted L : forall lo, wf_from lo L = true ->
  ssorted lo (visible L) /\ (forall x, In x (visible L) -> x < lend lo L).
Proof.
  induction L as [|b L IH]; intros lo H.
  - split; [exact I|intros x []].
  - simpl in H. rewrite !andb_true_iff in H. destruct H as (((H1 & H2) & H3) & H4).
    destruct (incr_in_sorted _ _ _ H3) as (S1 & S2). destruct (IH _ H4) as (S3 & S4).
    pose proof (wf_lend_le _ _ H4) as Hle.
    change (visible (b :: L)) with (b_vis b ++ visible L).
    change (lend lo (b :: L)) with (lend (b_next b) L). unfold b_next in *. split.
    + apply ssorted_app with (b_last b + 1); auto.
      * eapply ssorted_weaken; [|exact S1]. lia.
      * intros x I. specialize (S2 x I). lia.
      * lia.
    + intros x I. apply in_app_or in I. destruct I as [I|I]; [specialize (S2 x I); lia|auto].
Qed.

Lemma wf_last_lt L : forall lo b, wf_from lo L = true -> In b L -> lo <= b_last b /\ b_next b <= lend lo L.
Proof.
  induction L as [|a L IH]; intros lo b H I; [contradiction|].
  simpl in H. rewrite !andb_true_iff in H. destruct H as (((H1 & H2) & H3) & H4).
  change (lend lo (a :: L)) with (lend (b_next a) L). pose proof (wf_lend_le _ _ H4).
  destruct I as [->|I]; unfold b_next in *; [lia|].
  destruct (IH _ _ H4 I). unfold b_next in *. lia.
Qed.

Lemma from_off_all L : forall lo o, wf_from lo L = true -> o <= lo -> from_off o L = L.
Proof.
  intros lo o H Hle. unfold from_off. induction L as [|a L IH] in lo, H, Hle |- *; [reflexivity|].
  simpl in *. rewrite !andb_true_iff in H. destruct H as (((H1 & H2) & H3) & H4).
  replace (o <=? b_last a) with true by lia. f_equal. apply IH with (b_last a + 1); [exact H4|lia].
Qed.

Lemma batch_eqb_eq a b : batch_eqb a b = true -> a = b.
Proof.
  unfold batch_eqb. rewrite !andb_true_iff. intros ((H1 & H2) & H3). apply zlist_eqb_eq in H3.
  destruct a, b; simpl in *. f_equal; [lia|lia|exact H3].
Qed.

Lemma batch_eqb_refl a : batch_eqb a a = true.
Proof. unfold batch_eqb. rewrite !andb_true_iff, zlist_eqb_refl. repeat split; lia. Qed.

Lemma prefix_b_app p : forall l, prefix_b p l = true -> exists rest, l = p ++ rest.
Proof.
  induction p as [|x p IH]; simpl; intros l H; [exists l; reflexivity|].
  destruct l as [|y l]; [discriminate|]. apply andb_true_iff in H. destruct H as (H1 & H2).
  apply batch_eqb_eq in H1. subst y. destruct (IH _ H2) as (rest & ->). exists rest. reflexivity.
Qed.

Lemma prefix_b_firstn l : forall k, prefix_b (firstn k l) l = true.
Proof.
  induction l as [|x l IH]; intros [|k]; simpl; try reflexivity.
  rewrite batch_eqb_refl. apply IH.
Qed.

(* the iterator on a sorted batch: exactly the records at or after next_fetch_offset *)
Lemma take_recs_sorted l : forall lo nfo, ssorted lo l ->
  take_recs nfo l = filter (fun x => nfo <=? x) l.
Proof.
  induction l as [|y l IH]; simpl; intros lo nfo H; [reflexivity|].
  destruct H as (H1 & H2). destruct (y <? nfo) eqn:E.
  - replace (nfo <=? y) with false by lia. eapply IH; eauto.
  - replace (nfo <=? y) with true by lia. f_equal. rewrite (IH _ _ H2).
    apply filter_ext_in. intros x I. pose proof (ssorted_ge _ _ _ H2 I). lia.
Qed.

(* batches wholly at or after next_fetch_offset are delivered entirely *)
Lemma unpack_all A : forall lo nfo, wf_from lo A = true -> nfo <= lo ->
  unpack nfo A = (visible A, lend nfo A).
Proof.
  induction A as [|a A IH]; intros lo nfo H Hle; [reflexivity|].
  simpl in H. rewrite !andb_true_iff in H. destruct H as (((H1 & H2) & H3) & H4).
  destruct (incr_in_sorted _ _ _ H3) as (S1 & S2).
  simpl. rewrite (IH (b_last a + 1) (b_next a) H4) by (unfold b_next; lia). simpl.
  change (lend nfo (a :: A)) with (lend (b_next a) A). f_equal.
  change (visible (a :: A)) with (b_vis a ++ visible A). f_equal.
  rewrite (take_recs_sorted _ _ _ S1).
  assert (forall l, (forall x, In x l -> nfo <= x) -> filter (fun x => nfo <=? x) l = l) as FA.
  { induction l as [|y l IHl]; simpl; intros Hl; [reflexivity|].
    replace (nfo <=? y) with true by (specialize (Hl y (or_introl eq_refl)); lia).
    f_equal. apply IHl. intros; apply Hl; auto. }
  apply FA. intros x I. pose proof (ssorted_ge _ _ _ S1 I). lia.
Qed.

Lemma lend_nonempty A : forall lo lo', A <> [] -> lend lo A = lend lo' A.
Proof. destruct A as [|a A]; intros; [congruence|]. reflexivity. Qed.

(* THE log lemma: on any answer the leader can give to Fetch(o) — a non-empty prefix of the
   batches ending at or after o — the iterator yields exactly the visible records of the log in
   [o, fin) and stops with next_fetch_offset = fin > o, fin = end of the last batch returned *)
Lemma unpack_valid L : forall lo o bs, wf_from lo L = true -> valid_resp L o bs = true -> bs <> [] ->
  fst (unpack o bs) = vis_between L o (snd (unpack o bs)) /\ o < snd (unpack o bs) /\
  snd (unpack o bs) = lend o bs /\ (exists b, In b L /\ snd (unpack o bs) = b_next b).
Proof.
  unfold valid_resp, vis_between.
  induction L as [|a L IH]; intros lo o bs H V NE.
  - simpl in V. destruct bs; [congruence|discriminate].
  - simpl in H. rewrite !andb_true_iff in H. destruct H as (((H1 & H2) & H3) & H4).
    destruct (incr_in_sorted _ _ _ H3) as (S1 & S2).
    destruct (wf_visible_sorted _ _ H4) as (S3 & S4).
    change (visible (a :: L)) with (b_vis a ++ visible L). rewrite between_app.
    unfold from_off in V. simpl in V. destruct (o <=? b_last a) eqn:E.
    + fold (from_off o L) in V. rewrite (from_off_all _ _ _ H4) in V by lia.
      destruct bs as [|b bs]; [congruence|]. simpl in V. apply andb_true_iff in V.
      destruct V as (V1 & V2). apply batch_eqb_eq in V1. subst b.
      destruct (prefix_b_app _ _ V2) as (rest & ->).
      apply wf_from_app in H4. destruct H4 as (W1 & W2).
      simpl. rewrite (unpack_all bs (b_last a + 1) (b_next a) W1) by (unfold b_next; lia). simpl.
      pose proof (wf_lend_le _ _ W1) as Hle1. pose proof (wf_lend_le _ _ W2) as Hle2.
      destruct (wf_visible_sorted _ _ W1) as (T1 & T2). destruct (wf_visible_sorted _ _ W2) as (T3 & T4).
      assert (lend (b_next a) bs = lend (b_last a + 1) bs) as EL by reflexivity.
      split; [|split; [|split]].
      * rewrite (take_recs_sorted _ _ _ S1). rewrite visible_app, between_app. f_equal; [|].
        -- unfold between. apply filter_ext_in. intros x I. specialize (S2 x I). unfold b_next in *. lia.
        -- rewrite (between_all _ _ (visible bs)).
           2:{ intros x I. pose proof (ssorted_ge _ _ _ T1 I). specialize (T2 x I). rewrite EL. lia. }
           rewrite (between_none _ _ (visible rest)); [rewrite app_nil_r; reflexivity|].
           intros x I. pose proof (ssorted_ge _ _ _ T3 I). right. rewrite EL. lia.
      * rewrite EL. unfold b_next. lia.
      * change (lend o (a :: bs)) with (lend (b_next a) bs). reflexivity.
      * destruct bs as [|b' bs'] eqn:EB.
        -- exists a. split; [left; reflexivity|reflexivity].
        -- assert (exists z, In z (b' :: bs') /\ lend (b_next a) (b' :: bs') = b_next z) as (z & Iz & Ez).
           { clear. generalize (b_next a) as st. revert b'. induction bs' as [|c bs'' IHb]; intros b' st.
             - exists b'. split; [left; reflexivity|reflexivity].
             - destruct (IHb c (b_next b')) as (z & Iz & Ez). exists z. split; [right; exact Iz|exact Ez]. }
           exists z. split; [right; apply in_or_app; left; exact Iz|exact Ez].
    + fold (from_off o L) in V. destruct (IH _ _ _ H4 V NE) as (E1 & E2 & E3 & (z & Iz & Ez)).
      split; [|split; [|split]]; auto.
      * rewrite E1. rewrite (between_none _ _ (b_vis a)); [reflexivity|].
        intros x I. specialize (S2 x I). left. lia.
      * exists z. split; [right; exact Iz|exact Ez].
Qed.
