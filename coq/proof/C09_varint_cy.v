(* C09_varint_cy.v — the models of the compiled varint functions (_crecords/cutil.pyx, uint64
   arithmetic) agree with the specification, hence with the translated Python functions. *)
From Coq Require Import ZArith List Bool Lia ZifyBool.
From Verif Require Import Imp Bits C09Bytes C09_Varint VarintEnc VarintSize VarintDec C09_varint.
Import ListNotations.
Open Scope Z_scope.
Ltac Zify.zify_post_hook ::= Z.to_euclidean_division_equations.

Lemma lxor_ones_r x n : 0 <= n -> 0 <= x < 2 ^ n -> Z.lxor x (2 ^ n - 1) = 2 ^ n - 1 - x.
Proof.
  intros Hn Hx.
  assert (Hp : 0 < 2 ^ n) by (apply Z.pow_pos_nonneg; lia).
  pose proof (lxor_mod_pow2 x (-1) n Hn) as H.
  rewrite Z.lxor_m1_r in H. unfold Z.lnot in H.
  rewrite (Z.mod_small x) in H by lia.
  replace ((-1) mod 2 ^ n) with (2 ^ n - 1) in H.
  2:{ symmetry. rewrite <- (Z.mod_add _ 1) by lia. rewrite Z.mod_small by lia. lia. }
  rewrite <- H.
  rewrite <- (Z.mod_add _ 1) by lia. rewrite Z.mod_small by lia. lia.
Qed.

Lemma cy_zigzag_spec v : int64 v -> cy_zigzag v = zigzag v.
Proof.
  unfold int64, INT64_MIN, INT64_MAX, cy_zigzag, zigzag, u64, TWO64. intros H.
  rewrite shiftl_mul, shiftr_div by lia. change (2 ^ 1) with 2. change (2 ^ 63) with 9223372036854775808.
  destruct (v <? 0) eqn:E.
  - replace (v / 9223372036854775808) with (-1) by lia.
    replace ((-1) mod 18446744073709551616) with (2 ^ 64 - 1) by reflexivity.
    rewrite lxor_ones_r by (try lia; change (2 ^ 64) with 18446744073709551616; lia).
    change (2 ^ 64) with 18446744073709551616. lia.
  - replace (v / 9223372036854775808) with 0 by lia.
    rewrite Z.mod_0_l by lia. rewrite Z.lxor_0_r. rewrite Z.mod_small by lia. lia.
Qed.

(* v & 0xffffffffffffff80 : the bits above the low seven *)
Lemma land_high u : 0 <= u < TWO64 -> Z.land u 18446744073709551488 = u / 128 * 128.
Proof.
  unfold TWO64. intros Hu.
  change 18446744073709551488 with (Z.land (Z.ones 64) (Z.lnot (Z.ones 7))).
  rewrite Z.land_assoc. rewrite Z.land_ones by lia. rewrite Z.mod_small by (change (2 ^ 64) with 18446744073709551616; lia).
  rewrite <- Z.ldiff_land. rewrite Z.ldiff_ones_r by lia.
  rewrite shiftr_div, shiftl_mul by lia. reflexivity.
Qed.

Lemma land_high_test u : 0 <= u < TWO64 -> negb (Z.land u 18446744073709551488 =? 0) = negb (u <? 128).
Proof. intros H. rewrite land_high by exact H. unfold TWO64 in H. f_equal. lia. Qed.

Lemma lor_128 r : 0 <= r < 128 -> Z.lor r 128 = 128 + r.
Proof. intros H. rewrite Z.lor_comm. apply lor128. exact H. Qed.

Lemma cy_enc_loop_spec f : forall u, 0 <= u < TWO64 -> cy_enc_loop f u = leb_enc f u.
Proof.
  induction f as [|f IH]; intros u Hu; [reflexivity|].
  cbn [cy_enc_loop leb_enc]. rewrite land_high_test by exact Hu.
  destruct (u <? 128) eqn:E; cbn [negb].
  - rewrite land_127. rewrite Z.mod_small by lia. reflexivity.
  - rewrite land_127, lor_128 by lia. rewrite shiftr7. rewrite IH by (unfold TWO64 in *; lia). reflexivity.
Qed.

Lemma leb_enc_fuel f : forall g u, 0 <= u < 128 ^ Z.of_nat f -> (f <= g)%nat -> (0 < f)%nat ->
  leb_enc g u = leb_enc f u.
Proof.
  induction f as [|f IH]; intros g u Hu Hg Hf; [lia|].
  destruct g as [|g]; [lia|]. cbn [leb_enc]. destruct (u <? 128) eqn:E; [reflexivity|].
  rewrite pow128_succ in Hu. destruct f as [|f'].
  { change (128 ^ Z.of_nat 0) with 1 in Hu. lia. }
  rewrite (IH g) by lia. reflexivity.
Qed.

Lemma pow128_10 : 128 ^ Z.of_nat 10 = 1180591620717411303424.
Proof. reflexivity. Qed.

Theorem cy_encode_spec v : int64 v -> cy_encode_varint64 v = varint_enc v.
Proof.
  intros H. unfold cy_encode_varint64, varint_enc. rewrite cy_zigzag_spec by exact H.
  pose proof (zigzag_range v H) as Hr.
  rewrite cy_enc_loop_spec by exact Hr.
  apply leb_enc_fuel; try lia. rewrite pow128_10. unfold TWO64 in Hr. lia.
Qed.

Lemma cy_size_loop_spec f : forall u n, 0 <= u < 128 ^ Z.of_nat f -> u < TWO64 -> (0 < f)%nat ->
  cy_size_loop f u n = n + leb_size f u - 1.
Proof.
  induction f as [|f IH]; intros u n Hu Hu64 Hf; [lia|].
  cbn [cy_size_loop leb_size]. rewrite land_high_test by lia.
  destruct (u <? 128) eqn:E; cbn [negb]; [lia|].
  rewrite pow128_succ in Hu. destruct f as [|f'].
  { change (128 ^ Z.of_nat 0) with 1 in Hu. lia. }
  rewrite shiftr7. rewrite IH by (unfold TWO64 in *; lia). lia.
Qed.

Lemma leb_size_fuel f g u : 0 <= u < 128 ^ Z.of_nat f -> (f <= g)%nat -> (0 < f)%nat ->
  leb_size g u = leb_size f u.
Proof. intros. rewrite !leb_size_len. f_equal. apply leb_enc_fuel; assumption. Qed.

Theorem cy_size_spec v : int64 v -> cy_size_of_varint64 v = varint_size v.
Proof.
  intros H. unfold cy_size_of_varint64, varint_size. rewrite cy_zigzag_spec by exact H.
  pose proof (zigzag_range v H) as Hr. unfold TWO64 in Hr.
  rewrite (cy_size_loop_spec 11) by (unfold TWO64; try lia; change (128 ^ Z.of_nat 11) with 151115727451828646838272; lia).
  rewrite (leb_size_fuel 10 11) by (try lia; rewrite pow128_10; lia). lia.
Qed.

(* ---- decoding ---------------------------------------------------------------------------------------- *)
Lemma schar_bit7 b : 0 <= b < 256 -> (Z.land (schar b) 128 =? 0) = (b <? 128).
Proof.
  intros Hb.
  apply (byte_cases (fun b => Bool.eqb (Z.land (schar b) 128 =? 0) (b <? 128))) in Hb;
    [|vm_compute; reflexivity].
  apply eqb_prop in Hb. exact Hb.
Qed.

Lemma cy_dec_loop_spec f : forall u rest shift acc fuel,
  0 <= u < 128 ^ Z.of_nat f -> (0 < f)%nat -> (f <= fuel)%nat ->
  0 <= shift -> shift + 7 * Z.of_nat f <= 70 -> 0 <= acc < 2 ^ shift -> acc + u * 2 ^ shift < TWO64 ->
  cy_dec_loop fuel (leb_enc f u ++ rest) shift acc = Some (acc + u * 2 ^ shift, rest).
Proof.
  induction f as [|f IH]; intros u rest shift acc fuel Hu Hf Hfuel Hs Hs70 Hacc Htot; [lia|].
  destruct fuel as [|fuel]; [lia|].
  assert (HM : 0 < 2 ^ shift) by (apply Z.pow_pos_nonneg; lia).
  cbn [leb_enc]. destruct (u <? 128) eqn:E.
  - cbn [app cy_dec_loop]. rewrite schar_bit7 by lia. rewrite E. cbn [negb].
    unfold schar. rewrite E. unfold u64.
    rewrite (Z.mod_small u) by (unfold TWO64; lia).
    rewrite shiftl_mul by lia. rewrite Z.mod_small by (unfold TWO64 in *; nia).
    rewrite lor_low_high by lia. reflexivity.
  - rewrite pow128_succ in Hu. destruct f as [|f'].
    { change (128 ^ Z.of_nat 0) with 1 in Hu. lia. }
    cbn [app cy_dec_loop]. rewrite schar_bit7 by lia.
    replace (128 + u mod 128 <? 128) with false by lia. cbn [negb].
    replace (63 <? shift + 7) with false by lia.
    unfold schar. replace (128 + u mod 128 <? 128) with false by lia.
    rewrite land_127. replace ((128 + u mod 128 - 256) mod 128) with (u mod 128) by lia.
    unfold u64. rewrite (Z.mod_small (u mod 128)) by (unfold TWO64; lia).
    rewrite shiftl_mul by lia.
    rewrite Z.mod_small by (unfold TWO64 in *; nia).
    rewrite lor_low_high by lia.
    rewrite IH; try lia.
    + f_equal. f_equal. rewrite Z.pow_add_r by lia. change (2 ^ 7) with 128. nia.
    + rewrite Z.pow_add_r by lia. change (2 ^ 7) with 128. nia.
    + rewrite Z.pow_add_r by lia. change (2 ^ 7) with 128. nia.
Qed.

Lemma s64_small x : 0 <= x < 9223372036854775808 -> s64 x = x.
Proof. unfold s64, TWO64. intros H. rewrite Z.mod_small by lia. lia. Qed.

Theorem cy_decode_spec v rest : int64 v -> cy_decode_varint64 (varint_enc v ++ rest) = Some (v, rest).
Proof.
  intros H. pose proof (zigzag_range v H) as Hr. unfold TWO64 in Hr.
  unfold cy_decode_varint64, varint_enc.
  rewrite (cy_dec_loop_spec 10) by (unfold TWO64; try lia; rewrite ?pow128_10; change (2 ^ 0) with 1; lia).
  change (2 ^ 0) with 1. rewrite Z.add_0_l, Z.mul_1_r.
  set (u := zigzag v) in *.
  assert (Hl : Z.land u 1 = u mod 2).
  { change (Z.land u 1) with (Z.land u (Z.ones 1)). rewrite Z.land_ones by lia. reflexivity. }
  assert (Hsr : Z.shiftr u 1 = u / 2) by (rewrite shiftr_div by lia; reflexivity).
  rewrite (s64_small (Z.shiftr u 1)) by (rewrite Hsr; lia).
  rewrite (s64_small (Z.land u 1)) by (rewrite Hl; lia).
  rewrite unzigzag_bits by lia. subst u. rewrite unzigzag_zigzag. reflexivity.
Qed.

Theorem cy_varint_agree v : int64 v ->
  cy_encode_varint64 v = VarintEnc.post v
  /\ Ok (cy_size_of_varint64 v) = VarintSize.py v
  /\ forall rest, cy_decode_varint64 (cy_encode_varint64 v ++ rest) = Some (v, rest).
Proof.
  intros H. split; [|split].
  - rewrite cy_encode_spec, enc_py_spec by exact H. reflexivity.
  - rewrite cy_size_spec, size_py_spec by exact H. reflexivity.
  - intros rest. rewrite cy_encode_spec by exact H. apply cy_decode_spec. exact H.
Qed.
