(* C05_proof.v — invariants of the membership model (model/Group.v) *)
From Coq Require Import List Bool Arith Lia.
From Verif Require Import Group.
Import ListNotations.

Lemma lookup_update_eq {A} k (v : A) l : lookup k (update k v l) = Some v.
Proof.
  induction l as [|[k' v'] tl IH]; cbn.
  - rewrite Nat.eqb_refl. reflexivity.
  - destruct (Nat.eqb k k') eqn:E; cbn; rewrite ?Nat.eqb_refl; [reflexivity|]. rewrite E. exact IH.
Qed.

Lemma lookup_update_neq {A} k k2 (v : A) l : k2 <> k -> lookup k2 (update k v l) = lookup k2 l.
Proof.
  intros Hne. induction l as [|[k' v'] tl IH]; cbn.
  - destruct (Nat.eqb k2 k) eqn:E; [apply Nat.eqb_eq in E; congruence|reflexivity].
  - destruct (Nat.eqb k k') eqn:E; cbn.
    + apply Nat.eqb_eq in E. subst k'.
      destruct (Nat.eqb k2 k) eqn:E2; [apply Nat.eqb_eq in E2; congruence|reflexivity].
    + destruct (Nat.eqb k2 k'); [reflexivity|exact IH].
Qed.

Definition getm (l : list (mid * member)) (m : mid) : member :=
  match lookup m l with Some x => x | None => fresh end.

Lemma get_put_eq s m x : get (put s m x) m = x.
Proof. unfold get, put. cbn. rewrite lookup_update_eq. reflexivity. Qed.

Lemma get_put_neq s m m2 x : m2 <> m -> get (put s m x) m2 = get s m2.
Proof. intros H. unfold get, put. cbn. rewrite lookup_update_neq by exact H. reflexivity. Qed.

(* the fold of JoinComplete *)
Lemma fold_join_get s g : forall ms acc m,
  getm (fold_left (fun acc m => let x := get s m in update m (mkM (PJoined g) true (owned x) (rev_end x)) acc) ms acc) m
  = if existsb (Nat.eqb m) ms
    then mkM (PJoined g) true (owned (get s m)) (rev_end (get s m))
    else getm acc m.
Proof.
  induction ms as [|m0 ms IH]; intros acc m; cbn [fold_left existsb]; [reflexivity|].
  rewrite IH. destruct (existsb (Nat.eqb m) ms) eqn:E.
  - rewrite orb_true_r. reflexivity.
  - rewrite orb_false_r. unfold getm. destruct (Nat.eqb m m0) eqn:E0.
    + apply Nat.eqb_eq in E0. subst m0. rewrite lookup_update_eq. reflexivity.
    + rewrite lookup_update_neq; [reflexivity|]. apply Nat.eqb_neq. exact E0.
Qed.

(* ---- invariant -------------------------------------------------------------------------------- *)
Definition in_rebalance (p : phase) : bool :=
  match p with PStable | PAssigning _ => false | _ => true end.

Fixpoint ids_desc (h : list genrec) : Prop :=
  match h with
  | [] => True
  | r :: tl => (match tl with r2 :: _ => g_id r2 < g_id r | [] => True end) /\ ids_desc tl
  end.

Record Inv (s : st) : Prop := {
  i_rev : forall m, rev_end (get s m) <= clock s;
  i_gate : forall m, in_rebalance (ph (get s m)) = true -> gate (get s m) = true;
  i_hist : forall r, In r (hist s) -> g_jc r <= clock s /\ (forall m t, In (m, t) (g_rev r) -> t < g_jc r)
                                      /\ g_id r <= latest_gen s;
  i_desc : ids_desc (hist s);
  i_alog : forall g m t, In (g, m, t) (assign_log s) ->
             exists r, find_gen g (hist s) = Some r /\ g_jc r < t /\ t <= clock s
}.

Lemma inv_init : Inv init.
Proof.
  constructor; cbn.
  - intros m. unfold get. cbn. lia.
  - intros m. unfold get. cbn. discriminate.
  - intros r [].
  - exact I.
  - intros g m t [].
Qed.

Lemma find_gen_in g h r : find_gen g h = Some r -> In r h /\ g_id r = g.
Proof.
  induction h as [|r0 tl IH]; cbn; [discriminate|].
  destruct (Nat.eqb (g_id r0) g) eqn:E.
  - intros H. injection H as <-. split; [left; reflexivity|apply Nat.eqb_eq; exact E].
  - intros H. destruct (IH H) as (Hi & Hg). split; [right; exact Hi|exact Hg].
Qed.

Lemma find_gen_set_dist g d : forall h g2 r, find_gen g2 (set_dist g d h) = Some r ->
  exists r0, find_gen g2 h = Some r0 /\ g_id r = g_id r0 /\ g_jc r = g_jc r0 /\ g_rev r = g_rev r0 /\
             g_members r = g_members r0.
Proof.
  induction h as [|r0 tl IH]; intros g2 r; cbn; [discriminate|].
  destruct (Nat.eqb (g_id r0) g) eqn:E; cbn.
  - destruct (Nat.eqb (g_id r0) g2) eqn:E2.
    + intros H. injection H as <-. exists r0. repeat split; reflexivity.
    + intros H. exists r. repeat split; try reflexivity. exact H.
  - destruct (Nat.eqb (g_id r0) g2) eqn:E2.
    + intros H. injection H as <-. exists r0. repeat split; reflexivity.
    + apply IH.
Qed.

Lemma set_dist_find g d : forall h g2 r0, find_gen g2 h = Some r0 ->
  exists r, find_gen g2 (set_dist g d h) = Some r /\ g_jc r = g_jc r0 /\ g_id r = g_id r0.
Proof.
  induction h as [|r1 tl IH]; intros g2 r0; cbn; [discriminate|].
  destruct (Nat.eqb (g_id r1) g) eqn:E; cbn.
  - destruct (Nat.eqb (g_id r1) g2) eqn:E2.
    + intros H. injection H as <-. eexists. split; [reflexivity|]. split; reflexivity.
    + intros H. exists r0. repeat split; try reflexivity. exact H.
  - destruct (Nat.eqb (g_id r1) g2) eqn:E2.
    + intros H. injection H as <-. eexists. split; [reflexivity|]. split; reflexivity.
    + apply IH.
Qed.

Lemma set_dist_in g d : forall h r, In r (set_dist g d h) ->
  exists r0, In r0 h /\ g_id r = g_id r0 /\ g_jc r = g_jc r0 /\ g_rev r = g_rev r0.
Proof.
  induction h as [|r1 tl IH]; intros r; cbn; [tauto|].
  destruct (Nat.eqb (g_id r1) g); cbn.
  - intros [<-|H]; [exists r1; cbn; tauto|exists r; tauto].
  - intros [<-|H]; [exists r1; tauto|]. destruct (IH r H) as (r0 & Hi & He). exists r0. tauto.
Qed.

Lemma set_dist_head g d h : match set_dist g d h with r :: _ => g_id r | [] => 0 end
                           = match h with r :: _ => g_id r | [] => 0 end.
Proof. destruct h as [|r tl]; cbn; [reflexivity|]. destruct (Nat.eqb (g_id r) g); reflexivity. Qed.

Lemma set_dist_desc g d : forall h, ids_desc h -> ids_desc (set_dist g d h).
Proof.
  induction h as [|r tl IH]; cbn; [tauto|]. intros (H1 & H2).
  destruct (Nat.eqb (g_id r) g); cbn.
  - split; [exact H1|exact H2].
  - split; [|apply IH; exact H2].
    pose proof (set_dist_head g d tl) as Hh.
    destruct tl as [|r3 tl3]; [cbn; trivial|].
    destruct (set_dist g d (r3 :: tl3)) as [|r2 tl2]; [trivial|].
    cbn in Hh. rewrite Hh. exact H1.
Qed.

Lemma find_gen_lt g h : ids_desc h -> (forall r, In r h -> g_id r < g) -> find_gen g h = None.
Proof.
  induction h as [|r tl IH]; cbn; [reflexivity|]. intros (_ & Hd) Hlt.
  destruct (Nat.eqb (g_id r) g) eqn:E.
  - apply Nat.eqb_eq in E. specialize (Hlt r (or_introl eq_refl)). lia.
  - apply IH; [exact Hd|]. intros r0 Hr0. apply Hlt. right. exact Hr0.
Qed.

Lemma step_inv s e s' : Inv s -> step s e = Some s' -> Inv s'.
Proof.
  intros [Ir Ig Ih Id Ia] H.
  assert (PUT : forall m x, rev_end x <= S (clock s) ->
            (in_rebalance (ph x) = true -> gate x = true) -> Inv (put s m x)).
  { intros m x Hx Hgx. constructor; cbn [put hist clock assign_log].
    - intros m2. destruct (Nat.eq_dec m2 m) as [->|Hne].
      + rewrite get_put_eq. exact Hx.
      + rewrite get_put_neq by exact Hne. specialize (Ir m2). lia.
    - intros m2. destruct (Nat.eq_dec m2 m) as [->|Hne].
      + rewrite get_put_eq. exact Hgx.
      + rewrite get_put_neq by exact Hne. apply Ig.
    - intros r Hr. destruct (Ih r Hr) as (H1 & H2 & H3). repeat split; [lia|exact H2|exact H3].
    - exact Id.
    - intros g m2 t Hin. destruct (Ia g m2 t Hin) as (r & Hf & Hl & Hc). exists r. repeat split; [exact Hf|exact Hl|lia]. }
  destruct e; cbn [step] in H.
  - destruct (ph (get s m)) eqn:Ep; try discriminate. injection H as <-.
    apply PUT; cbn; [specialize (Ir m); lia|reflexivity].
  - destruct (ph (get s m)) eqn:Ep; try discriminate. injection H as <-.
    apply PUT; cbn; [lia|reflexivity].
  - destruct (ph (get s m)) eqn:Ep; try discriminate; injection H as <-;
      apply PUT; cbn; try (specialize (Ir m); lia); reflexivity.
  - destruct ((latest_gen s <? g) && all_joining s ms && negb match ms with [] => true | _ => false end) eqn:Ec;
      [|discriminate].
    injection H as <-.
    apply andb_true_iff in Ec. destruct Ec as (Ec & _). apply andb_true_iff in Ec. destruct Ec as (Hlt & Haj).
    apply Nat.ltb_lt in Hlt.
    set (F := fold_left (fun acc m => let x := get s m in update m (mkM (PJoined g) true (owned x) (rev_end x)) acc) ms (mem s)).
    assert (G : forall m, get (mkS F (mkG g ms None (S (clock s)) (map (fun m0 => (m0, rev_end (get s m0))) ms) :: hist s)
                               (S (clock s)) (assign_log s)) m
              = if existsb (Nat.eqb m) ms then mkM (PJoined g) true (owned (get s m)) (rev_end (get s m))
                else get s m).
    { intros m. unfold get at 1. cbn [mem]. change (match lookup m F with Some x => x | None => fresh end) with (getm F m).
      subst F. rewrite fold_join_get. reflexivity. }
    constructor; cbn [hist clock assign_log].
    + intros m. rewrite G. destruct (existsb (Nat.eqb m) ms); cbn; specialize (Ir m); lia.
    + intros m. rewrite G. destruct (existsb (Nat.eqb m) ms); cbn; [reflexivity|apply Ig].
    + intros r [<-|Hr]; cbn.
      * repeat split; [lia| |unfold latest_gen; cbn; lia].
        intros m t Hin. apply in_map_iff in Hin. destruct Hin as (m0 & Heq & _). injection Heq as <- <-.
        specialize (Ir m0). lia.
      * destruct (Ih r Hr) as (H1 & H2 & H3). repeat split; [lia|exact H2|].
        unfold latest_gen in *. cbn. lia.
    + cbn [ids_desc g_id]. split; [|exact Id]. unfold latest_gen in Hlt.
      destruct (hist s) as [|r2 tl]; [trivial|]. exact Hlt.
    + intros g0 m t Hin. destruct (Ia g0 m t Hin) as (r & Hf & Hl & Hc).
      exists r. repeat split; [|exact Hl|lia].
      cbn [find_gen g_id]. destruct (Nat.eqb g g0) eqn:E; [|exact Hf].
      apply Nat.eqb_eq in E. subst g0. destruct (find_gen_in _ _ _ Hf) as (Hi & Hg).
      destruct (Ih r Hi) as (_ & _ & H3). lia.
  - destruct (find_gen g (hist s)) as [r|] eqn:Ef; [|discriminate].
    destruct (g_dist r); [discriminate|]. injection H as <-.
    constructor; cbn [hist clock assign_log mem].
    + intros m. unfold get in *. cbn [mem]. specialize (Ir m). lia.
    + intros m. unfold get in *. cbn [mem]. apply Ig.
    + intros r1 Hr1. destruct (set_dist_in _ _ _ _ Hr1) as (r0 & Hi & Hid & Hjc & Hrev).
      destruct (Ih r0 Hi) as (H1 & H2 & H3). rewrite Hjc, Hrev, Hid. repeat split; [lia|exact H2|].
      unfold latest_gen in *. cbn [hist]. rewrite set_dist_head. exact H3.
    + apply set_dist_desc. exact Id.
    + intros g0 m t Hin. destruct (Ia g0 m t Hin) as (r0 & Hf & Hl & Hc).
      destruct (set_dist_find g d _ _ _ Hf) as (r1 & Hf1 & Hjc & _).
      exists r1. rewrite Hjc. repeat split; [exact Hf1|exact Hl|lia].
  - destruct (find_gen g (hist s)) as [r|] eqn:Ef; [|discriminate].
    destruct (assign_ok s m g) eqn:Eg; [|discriminate].
    destruct (g_dist r) as [d|]; [|discriminate].
    destruct (list_eqb a _); [|discriminate]. injection H as <-.
    destruct (find_gen_in _ _ _ Ef) as (Hi & _). destruct (Ih r Hi) as (Hjc & _).
    constructor; cbn [hist clock assign_log mem].
    + intros m2. unfold get. cbn [mem]. destruct (Nat.eq_dec m2 m) as [->|Hne].
      * rewrite lookup_update_eq. cbn [rev_end]. specialize (Ir m). unfold get in *. lia.
      * rewrite lookup_update_neq by exact Hne. specialize (Ir m2). unfold get in Ir. lia.
    + intros m2. unfold get. cbn [mem]. destruct (Nat.eq_dec m2 m) as [->|Hne].
      * rewrite lookup_update_eq. cbn. discriminate.
      * rewrite lookup_update_neq by exact Hne. apply Ig.
    + intros r1 Hr1. destruct (Ih r1 Hr1) as (H1 & H2 & H3). repeat split; [lia|exact H2|exact H3].
    + exact Id.
    + intros g1 m1 t [Heq|Hin].
      * injection Heq as <- <- <-. exists r. repeat split; [exact Ef|lia|lia].
      * destruct (Ia g1 m1 t Hin) as (r0 & Hf & Hl & Hc). exists r0. repeat split; [exact Hf|exact Hl|lia].
  - destruct (ph (get s m)) eqn:Ep; try discriminate. injection H as <-.
    apply PUT; cbn; [specialize (Ir m); lia|discriminate].
  - destruct (negb (gate (get s m)) && existsb (Nat.eqb p) (owned (get s m))); [|discriminate].
    injection H as <-. constructor; cbn [hist clock assign_log mem].
    + intros m2. unfold get in *. cbn [mem]. specialize (Ir m2). lia.
    + intros m2. unfold get in *. cbn [mem]. apply Ig.
    + intros r Hr. destruct (Ih r Hr) as (H1 & H2 & H3). repeat split; [lia|exact H2|exact H3].
    + exact Id.
    + intros g m2 t Hin. destruct (Ia g m2 t Hin) as (r & Hf & Hl & Hc). exists r. repeat split; [exact Hf|exact Hl|lia].
  - injection H as <-. apply PUT; cbn; [specialize (Ir m); lia|reflexivity].
Qed.

Lemma run_inv : forall tr s s', Inv s -> run s tr = Some s' -> Inv s'.
Proof.
  induction tr as [|e tr IH]; intros s s' I H; cbn [run] in H.
  - injection H as <-. exact I.
  - destruct (step s e) as [s1|] eqn:E; [|discriminate]. eapply IH; [eapply step_inv; eassumption|exact H].
Qed.

(* ---- the theorems ----------------------------------------------------------------------------- *)
(* Barrier: whenever member m' started on_partitions_assigned for generation g (at clock t),
   the JoinGroup barrier of g completed earlier, and at that barrier every member m of the
   generation had already finished its on_partitions_revoked (its completion clock is recorded
   in the generation record and is earlier than the barrier). *)
Theorem barrier tr s g m' t :
  run init tr = Some s -> In (g, m', t) (assign_log s) ->
  exists r, find_gen g (hist s) = Some r /\ g_jc r < t /\
            forall m tr_end, In (m, tr_end) (g_rev r) -> tr_end < g_jc r.
Proof.
  intros H Hin. pose proof (run_inv tr init s inv_init H) as [Ir Ig Ih Id Ia].
  destruct (Ia g m' t Hin) as (r & Hf & Hl & _). exists r. repeat split; [exact Hf|exact Hl|].
  destruct (find_gen_in _ _ _ Hf) as (Hi & _). destruct (Ih r Hi) as (_ & H2 & _). exact H2.
Qed.

Lemma list_eqb_eq : forall a b, list_eqb a b = true -> a = b.
Proof.
  unfold list_eqb. induction a as [|x a IH]; intros [|y b] H; cbn in *; try reflexivity; try discriminate.
  apply andb_true_iff in H. destruct H as (Hl & Hf). apply andb_true_iff in Hf. destruct Hf as (Hxy & Hf).
  apply Nat.eqb_eq in Hxy. subst y. f_equal. apply IH. apply andb_true_iff. split; [|exact Hf].
  apply Nat.eqb_eq in Hl. apply Nat.eqb_eq. lia.
Qed.

(* what a member adopts is what SyncGroup distributed to it for that generation *)
Theorem adopted_is_distributed s m g a s' :
  step s (AssignBegin m g a) = Some s' ->
  exists r d, find_gen g (hist s) = Some r /\ g_dist r = Some d /\
              a = match lookup m d with Some l => l | None => [] end /\
              owned (get s' m) = a /\
              (ph (get s m) = PJoined g \/
               (ph (get s m) = PJoining /\ g = latest_gen s /\ In m (g_members r))).
Proof.
  cbn [step].
  destruct (find_gen g (hist s)) as [r|] eqn:Ef; [|discriminate].
  destruct (assign_ok s m g) eqn:Eg; [|discriminate].
  destruct (g_dist r) as [d|] eqn:Ed; [|discriminate].
  destruct (list_eqb a _) eqn:El; [|discriminate]. intros H. injection H as <-.
  exists r, d. split; [reflexivity|]. split; [exact Ed|]. split; [apply list_eqb_eq; exact El|].
  split; [unfold get; cbn [mem]; rewrite lookup_update_eq; reflexivity|].
  unfold assign_ok in Eg. rewrite Ef in Eg. destruct (ph (get s m)) eqn:Ep; try discriminate.
  - right. apply andb_true_iff in Eg. destruct Eg as [E1 E2]. apply Nat.eqb_eq in E1.
    split; [reflexivity|]. split; [exact E1|].
    apply existsb_exists in E2. destruct E2 as (x & Hx & Hxe). apply Nat.eqb_eq in Hxe. subst x. exact Hx.
  - left. apply Nat.eqb_eq in Eg. subst. reflexivity.
Qed.

Lemma disjoint_lookup : forall d m1 m2 l1 l2 p,
  disjoint_b d = true -> NoDup (map fst d) ->
  lookup m1 d = Some l1 -> lookup m2 d = Some l2 -> m1 <> m2 -> In p l1 -> ~ In p l2.
Proof.
  induction d as [|[m l] tl IH]; intros m1 m2 l1 l2 p Hd Hnd H1 H2 Hne Hp1 Hp2; cbn in *; [discriminate|].
  apply andb_true_iff in Hd. destruct Hd as (Hhead & Htl).
  inversion Hnd as [|? ? Hnotin Hnd']; subst.
  assert (INL : forall k v, lookup k tl = Some v -> In (k, v) tl).
  { clear. induction tl as [|[k' v'] tl IH]; intros k v H; cbn in *; [discriminate|].
    destruct (Nat.eqb k k') eqn:E; [apply Nat.eqb_eq in E; subst; injection H as <-; left; reflexivity|right; apply IH; exact H]. }
  rewrite forallb_forall in Hhead.
  destruct (Nat.eqb m1 m) eqn:E1; destruct (Nat.eqb m2 m) eqn:E2.
  - apply Nat.eqb_eq in E1, E2. congruence.
  - injection H1 as <-. specialize (Hhead p Hp1). rewrite forallb_forall in Hhead.
    specialize (Hhead (m2, l2) (INL _ _ H2)). cbn in Hhead. apply negb_true_iff in Hhead.
    assert (existsb (Nat.eqb p) l2 = true) by (apply existsb_exists; exists p; split; [exact Hp2|apply Nat.eqb_refl]).
    congruence.
  - injection H2 as <-. specialize (Hhead p Hp2). rewrite forallb_forall in Hhead.
    specialize (Hhead (m1, l1) (INL _ _ H1)). cbn in Hhead. apply negb_true_iff in Hhead.
    assert (existsb (Nat.eqb p) l1 = true) by (apply existsb_exists; exists p; split; [exact Hp1|apply Nat.eqb_refl]).
    congruence.
  - exact (IH m1 m2 l1 l2 p Htl Hnd' H1 H2 Hne Hp1 Hp2).
Qed.

(* two members adopting the same generation's (pairwise disjoint) distribution own disjoint sets *)
Theorem adopted_disjoint d m1 m2 p :
  disjoint_b d = true -> NoDup (map fst d) -> m1 <> m2 ->
  In p (match lookup m1 d with Some l => l | None => [] end) ->
  ~ In p (match lookup m2 d with Some l => l | None => [] end).
Proof.
  intros Hd Hnd Hne. destruct (lookup m1 d) as [l1|] eqn:E1; [|intros []].
  destruct (lookup m2 d) as [l2|] eqn:E2; [|intros _ []].
  intros Hp. exact (disjoint_lookup d m1 m2 l1 l2 p Hd Hnd E1 E2 Hne Hp).
Qed.

(* silence: a record is handed out only outside every rebalance phase and only from the adopted
   assignment; in particular nothing is delivered between the start of on_partitions_revoked
   and the end of the next on_partitions_assigned *)
Theorem silent_during_rebalance tr s m p s' :
  run init tr = Some s -> step s (Deliver m p) = Some s' ->
  in_rebalance (ph (get s m)) = false /\ gate (get s m) = false /\ In p (owned (get s m)).
Proof.
  intros H Hs. pose proof (run_inv tr init s inv_init H) as [Ir Ig Ih Id Ia].
  cbn [step] in Hs.
  destruct (negb (gate (get s m)) && existsb (Nat.eqb p) (owned (get s m))) eqn:E; [|discriminate].
  apply andb_true_iff in E. destruct E as (Hg & Hp). apply negb_true_iff in Hg.
  repeat split; [|exact Hg|].
  - specialize (Ig m). destruct (in_rebalance (ph (get s m))); [|reflexivity]. rewrite Ig in Hg by reflexivity. discriminate.
  - apply existsb_exists in Hp. destruct Hp as (x & Hx & Hxe). apply Nat.eqb_eq in Hxe. subst x. exact Hx.
Qed.
