(* C19_tasks_proof.v — the static condition [step_safe] is sufficient and necessary for a close
   procedure to run to its end from every task state of the model's state space. *)
From Coq Require Import List Bool Arith Lia.
From Verif Require Import C19_Tasks.
Import ListNotations.

Lemma forallb_nth_error {A} (p : A -> bool) l i x :
  forallb p l = true -> nth_error l i = Some x -> p x = true.
Proof.
  intros H Hn. rewrite forallb_forall in H. apply H. eapply nth_error_In; eauto.
Qed.

Lemma forallb_false_witness {A} (p : A -> bool) l :
  forallb p l = false -> exists i x, nth_error l i = Some x /\ p x = false /\ i < length l.
Proof.
  induction l as [|a l IH]; cbn [forallb]; intros H; [discriminate|].
  destruct (p a) eqn:Hp.
  - cbn in H. destruct (IH H) as (i & x & Hn & Hx & Hl). exists (S i), x. cbn. repeat split; auto; lia.
  - exists 0, a. cbn. repeat split; auto; lia.
Qed.

(* ---- sufficiency -------------------------------------------------------------------------- *)
Lemma member_safe slots stp t s :
  step_safe slots stp = true -> step_slot stp = Some t ->
  state_ok (nth t slots default_slot) s = true ->
  exec_member (s_routine (nth t slots default_slot)) stp s = Continue.
Proof.
  intros Hs Ht Hok.
  destruct stp as [t' g st|t' g st|tag|tag]; cbn in Ht; try discriminate;
    injection Ht as ->; cbn [step_safe] in Hs;
    destruct (nth t slots default_slot) as [[pts ca] mu mc mf];
    unfold all_points in *;
    cbn [s_routine r_points r_catch_all s_may_unstarted s_may_cancelled s_may_fail] in *;
    apply andb_prop in Hs as [Hs Hst].
  - apply andb_prop in Hs as [_ Hns].
    cbn [exec_member]. destruct (g && is_done s) eqn:Hg; [reflexivity|].
    destruct s as [|i fails| | |];
      cbn [after_cancel state_ok is_done s_routine r_points r_catch_all s_may_unstarted s_may_cancelled s_may_fail] in *.
    + (* unstarted *) subst mu. destruct st; cbn; try reflexivity.
      destruct (forallb is_normal pts); cbn in Hst; discriminate.
    + apply andb_prop in Hok as [Hi _]. apply Nat.ltb_lt in Hi.
      destruct (nth_error pts i) as [c|] eqn:Hn; [|apply nth_error_None in Hn; lia].
      pose proof (forallb_nth_error _ _ _ _ Hns Hn) as Hc.
      destruct c; cbn in Hc; try discriminate; [reflexivity|].
      destruct st; cbn; try reflexivity.
      destruct (forallb is_normal pts) eqn:Hnm; [|discriminate].
      pose proof (forallb_nth_error _ _ _ _ Hnm Hn) as Hc'. discriminate.
    + reflexivity.
    + (* done with an exception *) rewrite andb_true_r in Hg. subst g.
      subst mf.
      destruct st; cbn; try reflexivity; cbn in Hst; rewrite ?andb_false_r in Hst; discriminate.
    + rewrite andb_true_r in Hg. subst g. subst mc.
      destruct st; cbn; try reflexivity. cbn in Hst. rewrite andb_false_r in Hst. discriminate.
  - cbn [exec_member]. destruct (g && is_done s) eqn:Hg; [reflexivity|].
    destruct s as [|i fails| | |];
      cbn [left_alone state_ok is_done s_routine r_points r_catch_all s_may_unstarted s_may_cancelled s_may_fail] in *.
    + reflexivity.
    + destruct fails; [|reflexivity].
      apply andb_prop in Hok as [_ Hf]. cbn in Hf. subst mf.
      destruct st; cbn; try reflexivity; cbn in Hst; discriminate.
    + reflexivity.
    + rewrite andb_true_r in Hg. subst g. subst mf.
      destruct st; cbn; try reflexivity; cbn in Hst; discriminate.
    + rewrite andb_true_r in Hg. subst g. subst mc.
      destruct st; cbn; try reflexivity. cbn in Hst. rewrite andb_false_r in Hst. discriminate.
Qed.

Lemma members_safe slots stp t ms :
  step_safe slots stp = true -> step_slot stp = Some t ->
  forallb (state_ok (nth t slots default_slot)) ms = true ->
  exec_members (s_routine (nth t slots default_slot)) stp ms = Continue.
Proof.
  intros Hs Ht. induction ms as [|s ms IH]; cbn [exec_members forallb]; intros H; [reflexivity|].
  apply andb_prop in H as [H1 H2]. rewrite (member_safe _ _ _ _ Hs Ht H1). auto.
Qed.

Lemma env_ok_nth slots : forall env t, env_ok slots env = true -> t < length slots ->
  forallb (state_ok (nth t slots default_slot)) (nth t env []) = true.
Proof.
  induction slots as [|sl slots IH]; intros env t H Hl; [cbn in Hl; lia|].
  destruct env as [|ms env]; [discriminate|]. cbn [env_ok] in H. apply andb_prop in H as [H1 H2].
  destruct t; cbn [nth]; [exact H1|]. apply IH; [exact H2|cbn in Hl; lia].
Qed.

Lemma step_safe_slot_lt slots stp t :
  step_safe slots stp = true -> step_slot stp = Some t -> t < length slots.
Proof.
  destruct stp as [t' g st|t' g st|tag|tag]; cbn [step_slot]; intros Hs Ht; try discriminate;
    injection Ht as ->; cbn [step_safe] in Hs.
  - apply andb_prop in Hs as [Hs _]. apply andb_prop in Hs as [Hs _]. now apply Nat.ltb_lt.
  - apply andb_prop in Hs as [Hs _]. now apply Nat.ltb_lt.
Qed.

Lemma step_safe_continue slots env stp :
  step_safe slots stp = true -> env_ok slots env = true -> exec_step slots env stp = Continue.
Proof.
  intros Hs He. unfold exec_step. destruct (step_slot stp) as [t|] eqn:Ht; [|reflexivity].
  apply members_safe; auto. apply env_ok_nth; auto. eapply step_safe_slot_lt; eauto.
Qed.

Theorem safe_completes slots env prog :
  prog_safe slots prog = true -> env_ok slots env = true -> run slots env prog = Completed.
Proof.
  unfold run, prog_safe. generalize 0 as k.
  induction prog as [|stp prog IH]; intros k Hs He; [reflexivity|].
  cbn [forallb] in Hs. apply andb_prop in Hs as [H1 H2].
  cbn [run_from]. rewrite (step_safe_continue _ _ _ H1 He). apply IH; auto.
Qed.

(* ---- necessity: an unsafe step over an existing slot has a task state, inside the state space,
        at which the procedure does not get past it --------------------------------------------- *)
Fixpoint env_with (n t : nat) (ms : list tstate) : list (list tstate) :=
  match n with
  | O => []
  | S n' => match t with
            | O => ms :: env_with n' (S n') []    (* S n' is out of range: the rest stays empty *)
            | S t' => [] :: env_with n' t' ms
            end
  end.

Lemma env_with_empty_ok slots : forall t, length slots <= t -> env_ok slots (env_with (length slots) t []) = true.
Proof.
  induction slots as [|sl slots IH]; intros t Hl; [reflexivity|].
  cbn [length env_with]. destruct t; [cbn in Hl; lia|]. cbn [env_ok forallb andb]. apply IH. cbn in Hl; lia.
Qed.

Lemma env_with_ok slots : forall t ms, t < length slots ->
  forallb (state_ok (nth t slots default_slot)) ms = true ->
  env_ok slots (env_with (length slots) t ms) = true.
Proof.
  induction slots as [|sl slots IH]; intros t ms Hl Hm; [cbn in Hl; lia|].
  cbn [length env_with]. destruct t.
  - cbn [env_ok nth] in *. rewrite Hm. apply env_with_empty_ok. lia.
  - cbn [env_ok forallb andb]. apply IH; [cbn in Hl; lia|exact Hm].
Qed.

Lemma env_with_nth n : forall t ms, t < n -> nth t (env_with n t ms) [] = ms.
Proof.
  induction n as [|n IH]; intros t ms Hl; [lia|].
  cbn [env_with]. destruct t; [reflexivity|]. cbn [nth]. apply IH. lia.
Qed.

Theorem unsafe_cancel_await_has_witness slots t g st :
  t < length slots -> step_safe slots (CancelAwait t g st) = false ->
  exists s, state_ok (nth t slots default_slot) s = true /\
            exec_step slots (env_with (length slots) t [s]) (CancelAwait t g st) <> Continue /\
            env_ok slots (env_with (length slots) t [s]) = true.
Proof.
  intros Hl Hs.
  assert (W : exists s, state_ok (nth t slots default_slot) s = true /\
                        exec_member (s_routine (nth t slots default_slot)) (CancelAwait t g st) s <> Continue).
  { cbn [step_safe] in Hs.
    assert (Hlt : (t <? length slots) = true) by now apply Nat.ltb_lt.
    rewrite Hlt in Hs. cbn [andb] in Hs.
    destruct (nth t slots default_slot) as [[pts ca] mu mc mf].
    unfold all_points in *.
    cbn [s_routine r_points r_catch_all s_may_unstarted s_may_cancelled s_may_fail] in *.
    destruct (forallb not_swallow pts) eqn:Hns; cbn [andb] in Hs.
    - destruct st.
      + (* bare *)
        destruct (forallb is_normal pts) eqn:Hn; cbn [andb] in Hs.
        * destruct mu; cbn [negb andb] in Hs.
          -- exists TUnstarted. cbn. rewrite andb_false_r. split; [reflexivity|discriminate].
          -- destruct g.
             ++ cbn in Hs. discriminate.
             ++ cbn in Hs. destruct mc; cbn in Hs.
                ** exists TDoneCancelled. cbn. split; [reflexivity|discriminate].
                ** apply negb_false_iff in Hs. subst mf. exists TDoneExc. cbn. split; [reflexivity|discriminate].
        * destruct (forallb_false_witness _ _ Hn) as (i & c & Hi & Hc & Hil).
          exists (TParked i false).
          cbn [state_ok exec_member is_done after_cancel s_routine r_points r_catch_all].
          rewrite andb_false_r, Hi. apply Nat.ltb_lt in Hil. rewrite Hil. cbn.
          split; [reflexivity|]. destruct c; cbn in Hc; try discriminate; cbn; discriminate.
      + (* catch *) destruct g; [discriminate|]. cbn in Hs. apply negb_false_iff in Hs. subst mf.
        exists TDoneExc. cbn. split; [reflexivity|discriminate].
      + discriminate.
    - destruct (forallb_false_witness _ _ Hns) as (i & c & Hi & Hc & Hil).
      exists (TParked i false).
      cbn [state_ok exec_member is_done after_cancel s_routine r_points r_catch_all].
      rewrite andb_false_r, Hi. apply Nat.ltb_lt in Hil. rewrite Hil. cbn.
      split; [reflexivity|]. destruct c; cbn in Hc; try discriminate; try (destruct st; cbn; discriminate). }
  destruct W as (s & Hok & Hex). exists s. split; [exact Hok|]. split.
  - unfold exec_step. cbn [step_slot]. rewrite env_with_nth by exact Hl. cbn [exec_members].
    destruct (exec_member _ (CancelAwait t g st) s); congruence.
  - apply env_with_ok; [exact Hl|]. cbn [forallb]. now rewrite Hok.
Qed.

(* ---- the ledger: a procedure that completed has left no task of a joined slot running ------------------ *)
Lemma continue_means_ended r stp t s :
  step_slot stp = Some t -> exec_member r stp s = Continue -> ended (task_after r stp s) = true.
Proof.
  intros Ht H. destruct stp as [t' g st|t' g st|tag|tag]; cbn in Ht; try discriminate.
  - cbn [exec_member task_after] in *. destruct (is_done s) eqn:Hd; [reflexivity|].
    rewrite andb_false_r in H. destruct (after_cancel r s); try reflexivity.
    destruct st; discriminate.
  - cbn [task_after]. destruct (is_done s); reflexivity.
Qed.

Lemma members_continue_all_ended r stp t : step_slot stp = Some t -> forall ms,
  exec_members r stp ms = Continue -> forallb (fun s => ended (task_after r stp s)) ms = true.
Proof.
  intros Ht. induction ms as [|s ms IH]; cbn [exec_members forallb]; intros H; [reflexivity|].
  destruct (exec_member r stp s) eqn:E; try discriminate.
  rewrite (continue_means_ended _ _ _ _ Ht E). cbn. auto.
Qed.

Theorem completed_leaves_joined_tasks_ended slots env : forall prog k,
  run_from k slots env prog = Completed ->
  forall stp t, In stp prog -> step_slot stp = Some t ->
    forallb (fun s => ended (task_after (s_routine (nth t slots default_slot)) stp s)) (nth t env []) = true.
Proof.
  induction prog as [|stp0 prog IH]; intros k H stp t Hin Ht; [destruct Hin|].
  cbn [run_from] in H. destruct (exec_step slots env stp0) eqn:E; try discriminate.
  destruct Hin as [->|Hin].
  - unfold exec_step in E. rewrite Ht in E. eapply members_continue_all_ended; eauto.
  - eapply IH; eauto.
Qed.

(* ---- which rewrites of a join are harmless: a more absorbing await style, or an added done() guard, keeps a safe
        join safe (so e.g. turning a bare `await t` into try/except CancelledError can never break stop()) ------- *)
Definition style_le (a b : style) : bool :=
  match a, b with
  | SBare, _ => true
  | SCatch, SCatch | SCatch, SGather => true
  | SGather, SGather => true
  | _, _ => false
  end.

Lemma safe_join_monotone slots t g g' st st' :
  style_le st st' = true -> (g = true -> g' = true) ->
  step_safe slots (CancelAwait t g st) = true -> step_safe slots (CancelAwait t g' st') = true.
Proof.
  intros Hs Hg H. cbn [step_safe] in *.
  destruct (nth t slots default_slot) as [[pts ca] mu mc mf]. unfold all_points in *.
  cbn [s_routine r_points s_may_unstarted s_may_cancelled s_may_fail] in *.
  apply andb_prop in H as [H Hst]. rewrite H. cbn [andb].
  destruct st, st'; cbn in Hs; try discriminate; try reflexivity.
  - (* bare -> bare *)
    repeat (apply andb_prop in Hst as [Hst ?]).
    destruct g; [rewrite (Hg eq_refl); cbn; rewrite Hst; cbn;
                 match goal with H1 : negb mu = true |- _ => rewrite H1 end; reflexivity|].
    cbn in *. rewrite Hst. cbn.
    repeat match goal with H1 : _ = true |- _ => rewrite H1 end. rewrite !orb_true_r. reflexivity.
  - (* bare -> catch *)
    repeat (apply andb_prop in Hst as [Hst ?]).
    destruct g; [rewrite (Hg eq_refl); reflexivity|]. cbn in *.
    match goal with H1 : negb mf = true |- _ => rewrite H1 end. apply orb_true_r.
  - (* catch -> catch *)
    destruct g; [rewrite (Hg eq_refl); reflexivity|]. cbn in Hst. rewrite Hst. apply orb_true_r.
Qed.
