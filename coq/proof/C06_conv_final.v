(* Per-step facts, part 4: every quiet step preserves the invariant and makes the variant behave. *)
From Coq Require Import ZArith List Bool Arith Lia.
From Verif Require Import DispatchActs HeartbeatDispatch JoinRetryDispatch JoinDispatch SyncDispatch CommitDispatch
  C06_Converge C06_conv_lib C06_conv_refl C06_conv_abs C06_conv_checks C06_conv_step C06_conv_cases C06_conv_coord C06_conv_epoch.
Import ListNotations.
Local Open Scope nat_scope.

Lemma map_bcast_nil : forall ms, map (bcast []) ms = ms.
Proof. intros ms. rewrite <- (map_id ms) at 2. apply map_ext. intros; reflexivity. Qed.

Lemma updm_ext_on : forall i (F1 F2 : member -> member) ms m, NoDup (map m_name ms) -> getm i ms = Some m -> F1 m = F2 m ->
  updm i F1 ms = updm i F2 ms.
Proof.
  intros i F1 F2 ms m ND G E. unfold updm. apply map_ext_in. intros m0 H0. destruct (Nat.eqb_spec (m_name m0) i) as [En|En]; [|reflexivity].
  rewrite (getm_unique i ms m ND G m0 H0 En). exact E.
Qed.

Lemma behaves_of_lt_pair : forall c ms c' ms', inv_facts c' ms' /\ mu (mkS c' ms') < mu (mkS c ms) ->
  inv_facts c' ms' /\ mu_behaves true (mkS c ms) (mkS c' ms').
Proof. intros c ms c' ms' H. exact H. Qed.

Lemma maybe_complete_spec : forall cP, c_st cP = CPreparing -> c_ents cP <> [] ->
  maybe_complete cP = if all_joined (c_ents cP) then (c3_of cP, [EvJoinDone (S (c_gen cP))]) else (cP, []).
Proof.
  intros cP Hst Hne. unfold maybe_complete. rewrite Hst. destruct (c_ents cP) eqn:E; [congruence|]. rewrite <- E.
  destruct (all_joined (c_ents cP)); [|reflexivity]. unfold c3_of. rewrite E. reflexivity.
Qed.

Lemma join_known_c1 : forall c x,
  join_known c x =
  (let isnew := negb (memb x (ids (c_ents c))) in
   match c_st c with
   | CEmpty => let (c2, o) := prepare_complete (c1_of c x) in (c2, Parked x, o)
   | CStable => if isnew || (x =? c_leader c) then let (c2, o) := prepare_complete (c1_of c x) in (c2, Parked x, o)
                else (mkC (c_gen c) (c_st c) (set_jp x false (ents1 (c_ents c) x)) (remove_id x (c_pend c)) (c_leader c),
                      Immediate x (RpJoin 0 (c_gen c)), [])
   | CCompleting => if isnew then let (c2, o) := prepare_complete (c1_of c x) in (c2, Parked x, o)
                    else (mkC (c_gen c) (c_st c) (set_jp x false (ents1 (c_ents c) x)) (remove_id x (c_pend c)) (c_leader c),
                          Immediate x (RpJoin 0 (c_gen c)), [])
   | CPreparing => let (c2, o) := maybe_complete (c1_of c x) in (c2, Parked x, o)
   end).
Proof. intros c x. unfold join_known, c1_of, ents1. reflexivity. Qed.

Lemma prepare_complete_spec : forall c x,
  prepare_complete (c1_of c x) =
  if all_joined (ents1 (c_ents c) x) then (c3_of (c2_of c x), [EvPrepare] ++ [EvJoinDone (S (c_gen c))]) else (c2_of c x, [EvPrepare] ++ []).
Proof.
  intros c x. unfold prepare_complete, prepare.
  change (mkC (c_gen (c1_of c x)) CPreparing (clear_sp (c_ents (c1_of c x))) (c_pend (c1_of c x)) (c_leader (c1_of c x))) with (c2_of c x).
  assert (Hne : c_ents (c2_of c x) <> []).
  { unfold c2_of. cbn [c_ents]. pose proof (ents1_nonempty (c_ents c) x). destruct (ents1 (c_ents c) x); [congruence | discriminate]. }
  rewrite (maybe_complete_spec (c2_of c x) eq_refl Hne). unfold c2_of at 1. cbn [c_ents]. rewrite all_joined_clear_sp.
  destruct (all_joined (ents1 (c_ents c) x)); reflexivity.
Qed.

Ltac split_guard H :=
  repeat match type of H with
         | _ && _ = true => let H1 := fresh "Gd" in apply andb_true_iff in H; destruct H as [H H1]
         end.

Lemma ph_of_eqb : forall p q, ph_eqb p q = true -> p = q.
Proof. intros p q H. destruct p, q; try discriminate; reflexivity. Qed.
Lemma none_of_is_none : forall {A} (o : option A), is_none o = true -> o = None.
Proof. intros A o H. destruct o; [discriminate | reflexivity]. Qed.

Lemma finish : forall c' ms' s s' real, Some (mkS c' ms') = Some s' ->
  inv_facts c' ms' /\ mu_behaves real s (mkS c' ms') -> inv_b s' = true /\ mu_behaves real s s'.
Proof. intros c' ms' s s' real E [A B]. inversion E; subst s'. split; [apply inv_pack; exact A | exact B]. Qed.

Lemma step_find : forall c ms i s', inv_facts c ms -> step (mkS c ms) (LFind i) = Some s' ->
  inv_b s' = true /\ mu_behaves true (mkS c ms) s'.
Proof.
  intros c ms i s' Hinv Hs. cbn [step s_c s_ms] in Hs. destruct (getm i ms) as [m|] eqn:G; [|discriminate].
  destruct (m_live m && negb (ck_known (m_ck m))) eqn:Gd; [|discriminate]. apply andb_true_iff in Gd. destruct Gd as [L K]. apply negb_true_iff in K.
  apply (finish _ _ _ _ _ Hs). apply (case_find c ms i m Hinv G L K).
Qed.

Lemma step_hbsend : forall c ms i s', inv_facts c ms -> step (mkS c ms) (LHbSend i) = Some s' ->
  inv_b s' = true /\ mu_behaves (negb (noop_b (mkS c ms) (LHbSend i))) (mkS c ms) s'.
Proof.
  intros c ms i s' Hinv Hs. cbn [step s_c s_ms] in Hs. unfold noop_b, with_m. cbn [s_c s_ms]. destruct (getm i ms) as [m|] eqn:G; [|discriminate].
  destruct (m_live m && m_hb m && is_none (m_hbin m) && ck_known (m_ck m)) eqn:Gd; [|discriminate]. split_guard Gd.
  apply (finish _ _ _ _ _ Hs). apply (case_hbsend c ms i m Hinv G Gd Gd2 (none_of_is_none _ Gd1) Gd0).
Qed.

Lemma step_hbrecv : forall c ms i s', inv_facts c ms -> step (mkS c ms) (LHbRecv i) = Some s' ->
  inv_b s' = true /\ mu_behaves (negb (noop_b (mkS c ms) (LHbRecv i))) (mkS c ms) s'.
Proof.
  intros c ms i s' Hinv Hs. cbn [step s_c s_ms] in Hs. unfold noop_b, with_m. cbn [s_c s_ms]. destruct (getm i ms) as [m|] eqn:G; [|discriminate].
  destruct (m_live m) eqn:L; [|discriminate]. destruct (m_hbin m) as [code|] eqn:Hh; [|discriminate].
  apply (finish _ _ _ _ _ Hs). apply (case_hbrecv c ms i m code Hinv G L Hh).
Qed.

Lemma step_cmsend : forall c ms i s', inv_facts c ms -> step (mkS c ms) (LCmSend i) = Some s' ->
  inv_b s' = true /\ mu_behaves (negb (noop_b (mkS c ms) (LCmSend i))) (mkS c ms) s'.
Proof.
  intros c ms i s' Hinv Hs. cbn [step s_c s_ms] in Hs. unfold noop_b, with_m. cbn [s_c s_ms]. destruct (getm i ms) as [m|] eqn:G; [|discriminate].
  match type of Hs with (if ?g then _ else _) = _ => destruct g eqn:Gd; [|discriminate] end. split_guard Gd.
  apply (finish _ _ _ _ _ Hs).
  apply (case_cmsend c ms i m Hinv G Gd (ph_of_eqb _ _ Gd4) (none_of_is_none _ Gd3) (none_of_is_none _ Gd2) Gd1 Gd0).
Qed.

Lemma step_cmrecv : forall c ms i s', inv_facts c ms -> step (mkS c ms) (LCmRecv i) = Some s' ->
  inv_b s' = true /\ mu_behaves (negb (noop_b (mkS c ms) (LCmRecv i))) (mkS c ms) s'.
Proof.
  intros c ms i s' Hinv Hs. cbn [step s_c s_ms] in Hs. unfold noop_b, with_m. cbn [s_c s_ms]. destruct (getm i ms) as [m|] eqn:G; [|discriminate].
  destruct (m_live m) eqn:L; [|discriminate]. destruct (m_cmin m) as [code|] eqn:Hh; [|discriminate].
  apply (finish _ _ _ _ _ Hs). apply (case_cmrecv c ms i m code Hinv G L Hh).
Qed.

Lemma step_recv : forall c ms i s', inv_facts c ms -> step (mkS c ms) (LRecv i) = Some s' ->
  inv_b s' = true /\ mu_behaves true (mkS c ms) s'.
Proof.
  intros c ms i s' Hinv Hs. cbn [step s_c s_ms] in Hs. destruct (getm i ms) as [m|] eqn:G; [|discriminate].
  destruct (m_live m) eqn:L; [|discriminate].
  destruct (m_ph m) eqn:P; try discriminate; destruct (m_inbox m) as [[code g|code]|] eqn:I; try discriminate; apply (finish _ _ _ _ _ Hs).
  - apply (case_recvjoin c ms i m code g Hinv G L P I).
  - apply (case_recvsync c ms i m code Hinv G L P I).
Qed.

Lemma validate_abs : forall c m, validate c (m_id m) (m_gen m) = validate_a (a_idz (absm c m)) (a_id_e (absm c m)) (a_gen_eq (absm c m)).
Proof. intros c m. unfold validate, validate_a, absm. pcbn. reflexivity. Qed.

Lemma map_bcast_updm : forall evs i F ms,
  map (bcast evs) (updm i F ms) = map (fun m0 => bcast evs (if m_name m0 =? i then F m0 else m0)) ms.
Proof. intros. unfold updm. apply map_map. Qed.

Lemma step_sendsync : forall c ms i s', inv_facts c ms -> step (mkS c ms) (LSendSync i) = Some s' ->
  inv_b s' = true /\ mu_behaves true (mkS c ms) s'.
Proof.
  intros c ms i s' Hinv Hs. cbn [step s_c s_ms] in Hs. destruct (getm i ms) as [m|] eqn:G; [|discriminate].
  match type of Hs with (if ?g then _ else _) = _ => destruct g eqn:Gd; [|discriminate] end. split_guard Gd.
  pose proof (ph_of_eqb _ _ Gd2) as P. pose proof (none_of_is_none _ Gd1) as I.
  destruct (ck_stale (m_ck m)) eqn:St.
  - apply (finish _ _ _ _ _ Hs). apply (case_sync_imm c ms i m 16 Hinv G Gd P I Gd0).
    unfold sync_reply. assert (E : ck_stale (a_ck (absm c m)) = true) by exact St. rewrite E. reflexivity.
  - unfold csync in Hs. rewrite (validate_abs c m) in Hs.
    set (v := validate_a (a_idz (absm c m)) (a_id_e (absm c m)) (a_gen_eq (absm c m))) in *.
    assert (Hrep : forall code, sync_reply (absm c m) = Some code ->
              Some (mkS c (map (bcast []) (updm i (fun m0 => set_inbox (Some (RpSync code)) (set_ph PSyncSent (set_rejoin false m0))) ms))) = Some s' ->
              inv_b s' = true /\ mu_behaves true (mkS c ms) s').
    { intros code Hr E. rewrite map_bcast_nil in E. apply (finish _ _ _ _ _ E). apply (case_sync_imm c ms i m code Hinv G Gd P I Gd0 Hr). }
    assert (Es : ck_stale (a_ck (absm c m)) = false) by exact St.
    destruct (negb (v =? 0)%Z) eqn:Ev.
    + apply (Hrep v); [|exact Hs]. unfold sync_reply. rewrite Es. fold v. rewrite Ev. reflexivity.
    + assert (Ev0 : v = 0%Z) by (apply negb_false_iff in Ev; apply Z.eqb_eq; exact Ev).
      assert (Hval : validate c (m_id m) (m_gen m) = 0%Z) by (rewrite validate_abs; exact Ev0).
      assert (Est : a_st (absm c m) = c_st c) by reflexivity.
      destruct (c_st c) eqn:Hst.
      * apply (Hrep 25%Z); [|exact Hs]. unfold sync_reply. rewrite Es. fold v. rewrite Ev, Est. reflexivity.
      * apply (Hrep 27%Z); [|exact Hs]. unfold sync_reply. rewrite Es. fold v. rewrite Ev, Est. reflexivity.
      * destruct (m_id m =? c_leader c) eqn:El.
        -- rewrite map_bcast_updm in Hs. apply (finish _ _ _ _ _ Hs). apply behaves_of_lt_pair.
           apply (case_sync_leader c ms i m Hinv G Gd P I Gd0 St Hst Hval).
        -- rewrite map_bcast_nil in Hs. apply (finish _ _ _ _ _ Hs).
           pose proof (case_sync_park c ms i m Hinv G Gd P I Gd0 St Hst Hval El) as H. rewrite Hst in H. exact H.
      * apply (Hrep 0%Z); [|exact Hs]. unfold sync_reply. rewrite Es. fold v. rewrite Ev, Est. reflexivity.
Qed.

Lemma step_sendjoin : forall c ms i v4 y s', inv_facts c ms -> step (mkS c ms) (LSendJoin i v4 y) = Some s' ->
  inv_b s' = true /\ mu_behaves true (mkS c ms) s'.
Proof.
  intros c ms i v4 y s' Hinv Hs. cbn [step s_c s_ms] in Hs. destruct (getm i ms) as [m|] eqn:G; [|discriminate].
  match type of Hs with (if ?g then _ else _) = _ => destruct g eqn:Gd; [|discriminate] end. split_guard Gd.
  pose proof (ph_of_eqb _ _ Gd5) as P. pose proof (none_of_is_none _ Gd4) as I. pose proof (none_of_is_none _ Gd3) as Cm.
  pose proof (iv_wfc _ _ Hinv) as Hwc. pose proof (iv_names _ _ Hinv) as ND.
  destruct (ck_stale (m_ck m)) eqn:St.
  - apply (finish _ _ _ _ _ Hs). apply (case_join_stale c ms i m Hinv G Gd P I Cm Gd1).
    destruct (m_ck m); try discriminate; reflexivity.
  - unfold cjoin in Hs.
    (* the generic treatment of join_known *)
    assert (Hknown : forall x, join_accepts c ms m y -> x = join_target m y ->
              (let '(c', o, evs) := join_known c x in
               Some (mkS c' (map (bcast evs) (updm i (fun m0 => apply_outcome o (set_ph PJoinSent (set_hbin None (set_hb false m0)))) ms)))) = Some s' ->
              inv_b s' = true /\ mu_behaves true (mkS c ms) s').
    { intros x Ha Ex E. rewrite join_known_c1 in E. cbv zeta in E.
      assert (Hprep : c_st c <> CPreparing -> (memb x (ids (c_ents c)) = false \/ c_st c = CStable) ->
                (let '(c', o, evs) := (let (c2, o) := prepare_complete (c1_of c x) in (c2, Parked x, o)) in
                 Some (mkS c' (map (bcast evs) (updm i (fun m0 => apply_outcome o (set_ph PJoinSent (set_hbin None (set_hb false m0)))) ms)))) = Some s' ->
                inv_b s' = true /\ mu_behaves true (mkS c ms) s').
      { intros Hnp Htr E2. rewrite prepare_complete_spec in E2. rewrite Ex in *. destruct (all_joined (ents1 (c_ents c) (join_target m y))) eqn:Aj.
        - rewrite map_bcast_updm in E2. apply (finish _ _ _ _ _ E2). apply behaves_of_lt_pair.
          apply (case_join_prepare_complete c ms i m y Hinv G Gd P I Cm Gd1 Gd2 St Ha Hnp Htr Aj).
        - rewrite map_bcast_updm in E2. apply (finish _ _ _ _ _ E2). apply behaves_of_lt_pair.
          apply (case_join_prepare c ms i m y Hinv G Gd P I Cm Gd1 Gd2 St Ha Hnp Htr Aj). }
      assert (Himm : memb x (ids (c_ents c)) = true -> (c_st c = CCompleting \/ c_st c = CStable) ->
                Some (mkS (mkC (c_gen c) (c_st c) (set_jp x false (ents1 (c_ents c) x)) (remove_id x (c_pend c)) (c_leader c))
                       (map (bcast []) (updm i (fun m0 => apply_outcome (Immediate x (RpJoin 0 (c_gen c))) (set_ph PJoinSent (set_hbin None (set_hb false m0)))) ms))) = Some s' ->
                inv_b s' = true /\ mu_behaves true (mkS c ms) s').
      { intros He Hst E2. rewrite map_bcast_nil in E2.
        assert (Hid : m_id m <> 0 /\ x = m_id m).
        { unfold join_target in Ex. destruct (Nat.eqb_spec (m_id m) 0) as [Ez|Ez]; [|auto]. exfalso.
          destruct Ha as [[_ Hf]|[Hn _]]; [|contradiction]. destruct (fresh_facts c ms y Hf) as (_ & Hye & _). rewrite Ex in He. congruence. }
        destruct Hid as [Hid Exm]. pose proof (wf_c_parts c Hwc) as W.
        assert (Hjp : forallb (fun e => negb (e_jp e)) (c_ents c) = true).
        { pose proof (wc_jp c W) as H. destruct Hst as [E3|E3]; rewrite E3 in H; exact H. }
        assert (Ec : mkC (c_gen c) (c_st c) (set_jp x false (ents1 (c_ents c) x)) (remove_id x (c_pend c)) (c_leader c) = c).
        { unfold ents1. rewrite He. cbn [negb]. rewrite (set_jp_roundtrip x _ Hjp), (remove_absent x _ (pend_not_ent c x Hwc He)). apply coord_eta. }
        rewrite Ec in E2.
        rewrite (updm_ext_on i _ (join_imm 0 (c_gen c)) ms m ND G) in E2; [|unfold join_imm, apply_outcome, sent_join; rewrite Exm; reflexivity].
        apply (finish _ _ _ _ _ E2). rewrite Exm in He. apply (case_join_immediate c ms i m Hinv G Gd P I Cm Gd1 Gd2 St Hid He Hst). }
      destruct (c_st c) eqn:Hst.
      - (* Empty: the table is empty, x is new *)
        apply Hprep; [discriminate | | exact E]. left. pose proof (wc_empty c (wf_c_parts c Hwc)) as He. rewrite Hst in He. cbn in He.
        destruct (c_ents c); [reflexivity | discriminate].
      - (* Preparing *)
        rewrite (maybe_complete_spec (c1_of c x) Hst (ents1_nonempty _ _)) in E. unfold c1_of at 1 in E. cbn [c_ents] in E. rewrite Ex in *.
        destruct (all_joined (ents1 (c_ents c) (join_target m y))) eqn:Aj.
        + rewrite map_bcast_updm in E. apply (finish _ _ _ _ _ E). apply behaves_of_lt_pair.
          apply (case_join_complete c ms i m y Hinv G Gd P I Cm Gd1 Gd2 St Ha Hst Aj).
        + rewrite map_bcast_nil in E. apply (finish _ _ _ _ _ E).
          apply (case_join_parked c ms i m y Hinv G Gd P I Cm Gd1 Gd2 St Ha Hst Aj).
      - (* Completing *)
        destruct (memb x (ids (c_ents c))) eqn:He; cbn [negb] in E.
        + apply Himm; [reflexivity | left; reflexivity | exact E].
        + apply Hprep; [discriminate | left; reflexivity | exact E].
      - (* Stable *)
        destruct (memb x (ids (c_ents c))) eqn:He; cbn [negb orb] in E.
        + destruct (x =? c_leader c) eqn:El.
          * apply Hprep; [discriminate | right; reflexivity | exact E].
          * apply Himm; [reflexivity | right; reflexivity | exact E].
        + apply Hprep; [discriminate | left; reflexivity | exact E]. }
    destruct (m_id m =? 0) eqn:Ez.
    + apply Nat.eqb_eq in Ez. cbn [negb orb] in Gd0. assert (Hfr : fresh (mkS c ms) y = true) by exact Gd0.
      assert (Ha : join_accepts c ms m y) by (left; split; assumption).
      destruct v4.
      * rewrite map_bcast_nil in Hs. apply (finish _ _ _ _ _ Hs). apply (case_join_79 c ms i m y Hinv G Gd P I Cm Gd1 Gd2 St Ez Hfr).
      * apply (Hknown y Ha); [unfold join_target; rewrite Ez; reflexivity | exact Hs].
    + destruct (negb (memb (m_id m) (ids (c_ents c))) && negb (memb (m_id m) (c_pend c))) eqn:Eu.
      * apply andb_true_iff in Eu. destruct Eu as [E1 E2]. apply negb_true_iff in E1, E2.
        rewrite map_bcast_nil in Hs.
        rewrite (updm_ext_on i _ (join_imm 25 0) ms m ND G) in Hs; [|reflexivity].
        apply (finish _ _ _ _ _ Hs). apply (case_join_25 c ms i m Hinv G Gd P I Cm Gd1 Gd2 St Ez E1 E2).
      * assert (Ha : join_accepts c ms m y).
        { right. split; [apply Nat.eqb_neq; exact Ez|]. destruct (memb (m_id m) (ids (c_ents c))); [left; reflexivity|].
          destruct (memb (m_id m) (c_pend c)); [right; reflexivity | discriminate]. }
        apply (Hknown (m_id m) Ha); [unfold join_target; rewrite Ez; reflexivity | exact Hs].
Qed.

Lemma step_expire : forall c ms x rt s', inv_facts c ms -> step (mkS c ms) (LExpire x rt) = Some s' ->
  inv_b s' = true /\ mu_behaves true (mkS c ms) s'.
Proof.
  intros c ms x rt s' Hinv Hs. cbn [step s_c s_ms] in Hs. destruct (find_ent x (c_ents c)) as [e|] eqn:F; [|discriminate].
  match type of Hs with (if ?g then _ else _) = _ => destruct g eqn:Gd; [|discriminate] end. split_guard Gd.
  pose proof (iv_wfc _ _ Hinv) as Hwc. pose proof (wf_c_parts c Hwc) as W.
  unfold cexpire in Hs. fold (drop x (c_ents c)) in Hs.
  destruct (drop x (c_ents c)) as [|e0 r] eqn:Ed.
  - apply (finish _ _ _ _ _ Hs). apply behaves_of_lt_pair. apply (case_expire_empty c ms x e Hinv F Gd rt Ed).
  - assert (Hne : drop x (c_ents c) <> []) by (rewrite Ed; discriminate). rewrite <- Ed in Hs.
    change (mkC (c_gen c) (c_st c) (drop x (c_ents c)) (c_pend c) (if c_leader c =? x then 0 else c_leader c)) with (c1x c x) in Hs.
    destruct (c_st c) eqn:Hst.
    + exfalso. pose proof (wc_empty c W) as He. rewrite Hst in He. cbn in He. unfold find_ent in F. destruct (c_ents c); discriminate.
    + rewrite (maybe_complete_spec (c1x c x) Hst Hne) in Hs. unfold c1x at 1 in Hs. cbn [c_ents] in Hs.
      destruct (all_joined (drop x (c_ents c))) eqn:Aj.
      * apply (finish _ _ _ _ _ Hs). apply behaves_of_lt_pair. apply (case_expire_complete c ms x e Hinv F Gd Hst Hne Aj).
      * apply (finish _ _ _ _ _ Hs). apply behaves_of_lt_pair. apply (case_expire_waiting c ms x e Hinv F Gd Hst Hne Aj).
    + apply (finish _ _ _ _ _ Hs). apply behaves_of_lt_pair. apply (case_expire_prepare c ms x e Hinv F Gd (or_intror Hst) Hne).
    + apply (finish _ _ _ _ _ Hs). apply behaves_of_lt_pair. apply (case_expire_prepare c ms x e Hinv F Gd (or_introl Hst) Hne).
Qed.

Theorem step_facts : forall s l s', inv_b s = true -> step s l = Some s' ->
  inv_b s' = true /\ mu_behaves (negb (noop_b s l)) s s'.
Proof.
  intros [c ms] l s' Hi Hs. pose proof (inv_unpack c ms Hi) as Hinv. destruct l.
  - apply (step_find c ms i s' Hinv Hs).
  - apply (step_sendjoin c ms i v4 y s' Hinv Hs).
  - apply (step_recv c ms i s' Hinv Hs).
  - apply (step_sendsync c ms i s' Hinv Hs).
  - apply (step_hbsend c ms i s' Hinv Hs).
  - apply (step_hbrecv c ms i s' Hinv Hs).
  - apply (step_cmsend c ms i s' Hinv Hs).
  - apply (step_cmrecv c ms i s' Hinv Hs).
  - apply (step_expire c ms x rt s' Hinv Hs).
Qed.
