(* Lock-step shedding: along a heaviest-first one-per-turn order, every member that has already given up a
   partition stays within one of the current maximum.  This is what makes the partitions shed by old members go to
   the new (least loaded) members rather than to another old member. *)
From Coq Require Import Arith List Bool Lia.
From Verif Require Import C15_Order.
Import ListNotations.

Lemma maxl_ge : forall l c x, nth_error l c = Some x -> x <= maxl l.
Proof.
  induction l as [|y l IH]; intros c x H.
  - destruct c; discriminate.
  - destruct c as [|c]; cbn [nth_error] in H; cbn [maxl fold_right].
    + injection H as ->. apply Nat.le_max_l.
    + specialize (IH c x H). fold (maxl l). lia.
Qed.

Lemma maxl_dec_le : forall l c, maxl (dec l c) <= maxl l.
Proof.
  induction l as [|y l IH]; intros c.
  - destruct c; cbn; lia.
  - destruct c as [|c]; cbn [dec maxl fold_right]; fold (maxl l).
    + lia.
    + fold (maxl (dec l c)). specialize (IH c). lia.
Qed.

Lemma nth_dec_same : forall l c x, nth_error l c = Some x -> nth_error (dec l c) c = Some (pred x).
Proof.
  induction l as [|y l IH]; intros c x H.
  - destruct c; discriminate.
  - destruct c as [|c]; cbn [nth_error dec] in *.
    + injection H as ->. reflexivity.
    + apply IH; exact H.
Qed.

Lemma nth_dec_other : forall l c d, c <> d -> nth_error (dec l c) d = nth_error l d.
Proof.
  induction l as [|y l IH]; intros c d Hne.
  - destruct c; reflexivity.
  - destruct c as [|c], d as [|d]; cbn [nth_error dec]; try reflexivity.
    + congruence.
    + apply IH. congruence.
Qed.

(* members of S are within one of the maximum *)
Definition near_max (Sh : list nat) (l : list nat) : Prop :=
  forall c x, In c Sh -> nth_error l c = Some x -> maxl l <= S x.

Lemma step_keeps_near_max : forall Sh l c,
  near_max Sh l -> step_ok l c = true -> near_max (c :: Sh) (dec l c).
Proof.
  intros Sh l c Hinv Hstep d x Hin Hnth.
  unfold step_ok in Hstep.
  destruct (nth_error l c) as [xc|] eqn:Hc; [|discriminate].
  apply andb_prop in Hstep as [Hpos Hmax].
  apply Nat.ltb_lt in Hpos. apply Nat.eqb_eq in Hmax.
  pose proof (maxl_dec_le l c) as Hle.
  destruct (Nat.eq_dec c d) as [->|Hne].
  - rewrite (nth_dec_same l d xc Hc) in Hnth. injection Hnth as <-. lia.
  - rewrite (nth_dec_other l c d Hne) in Hnth.
    destruct Hin as [Heq|Hin]; [congruence|].
    specialize (Hinv d x Hin Hnth). lia.
Qed.

Lemma order_keeps_near_max : forall o Sh l,
  near_max Sh l -> order_ok l o = true -> near_max (rev o ++ Sh) (run l o).
Proof.
  induction o as [|c o IH]; intros Sh l Hinv Hok; cbn [order_ok run rev app] in *.
  - exact Hinv.
  - apply andb_prop in Hok as [Hstep Hok].
    rewrite <- app_assoc. cbn [app].
    apply IH; [apply step_keeps_near_max; assumption | exact Hok].
Qed.

Theorem heaviest_first_lockstep : forall l o c x,
  order_ok l o = true -> In c o -> nth_error (run l o) c = Some x -> maxl (run l o) <= S x.
Proof.
  intros l o c x Hok Hin Hnth.
  assert (H : near_max (rev o ++ []) (run l o)).
  { apply order_keeps_near_max; [intros d y [] | exact Hok]. }
  apply (H c x); [|exact Hnth].
  rewrite app_nil_r. apply in_rev in Hin. exact Hin.
Qed.

(* and at every intermediate point: any prefix of an accepted order is accepted *)
Lemma order_ok_prefix : forall o1 o2 l, order_ok l (o1 ++ o2) = true -> order_ok l o1 = true.
Proof.
  induction o1 as [|c o1 IH]; intros o2 l H; cbn [order_ok app] in *; [reflexivity|].
  apply andb_prop in H as [H1 H2]. rewrite H1. cbn. eapply IH; exact H2.
Qed.

Theorem heaviest_first_lockstep_prefix : forall l o1 o2 c x,
  order_ok l (o1 ++ o2) = true -> In c o1 -> nth_error (run l o1) c = Some x -> maxl (run l o1) <= S x.
Proof.
  intros l o1 o2 c x Hok. apply heaviest_first_lockstep. eapply order_ok_prefix; exact Hok.
Qed.

(* non-vacuity: the order of the unchanged code on a = 4, b = 3 partitions (a, a|b, ...) is accepted;
   listing three of a's partitions at once is not *)
Example order_example_ok : order_ok [4; 3] [0; 0; 1; 0; 1; 0; 1] = true.
Proof. vm_compute. reflexivity. Qed.
Example order_example_bad : order_ok [4; 3] [0; 0; 0; 1; 1; 0; 1] = false.
Proof. vm_compute. reflexivity. Qed.
