(* C14 — the boolean checkers decide the Prop statements of the property. *)
From Coq Require Import Arith List Bool Lia PeanoNat.
From Verif Require Import C14_Assignors C14_lists C14_Sticky.
Import ListNotations.

Lemma tp_eqb_eq : forall a b : nat * nat, tp_eqb a b = true <-> a = b.
Proof.
  intros [a1 a2] [b1 b2]. unfold tp_eqb. simpl. rewrite andb_true_iff, !Nat.eqb_eq. split.
  - intros [-> ->]. reflexivity.
  - intros E. inversion E. auto.
Qed.

Lemma tp_eqb_refl : forall a, tp_eqb a a = true.
Proof. intros. apply tp_eqb_eq. reflexivity. Qed.

Lemma tp_eqb_neq : forall a b : nat * nat, tp_eqb a b = false <-> a <> b.
Proof.
  intros. rewrite <- tp_eqb_eq. destruct (tp_eqb a b); split; intros; try congruence; auto.
Qed.

Lemma mem_tp_In : forall x l, mem_tp x l = true <-> In x l.
Proof.
  intros. unfold mem_tp. rewrite existsb_exists. split.
  - intros [y [Hy E]]. apply tp_eqb_eq in E. subst. auto.
  - intros H. exists x. split; auto. apply tp_eqb_refl.
Qed.

Lemma nodup_tp_b_spec : forall l, nodup_tp_b l = true <-> NoDup l.
Proof.
  induction l as [|x l IH]; simpl.
  - split; auto. constructor.
  - rewrite andb_true_iff, negb_true_iff, IH. split.
    + intros [H1 H2]. constructor; auto. rewrite <- mem_tp_In. congruence.
    + intros H. inversion H; subst. split; auto.
      destruct (mem_tp x l) eqn:E; auto. apply mem_tp_In in E. tauto.
Qed.

(* ---- owner *)
Lemma owner_some_In : forall st x m, owner st x = Some m -> In (m, x) st.
Proof.
  induction st as [|[m' y] r IH]; simpl; intros x m H; [discriminate|].
  destruct (tp_eqb y x) eqn:E.
  - apply tp_eqb_eq in E. inversion H; subst. auto.
  - auto.
Qed.

Lemma owner_none_iff : forall st x, owner st x = None <-> ~ In x (map snd st).
Proof.
  induction st as [|[m' y] r IH]; simpl; intros x.
  - tauto.
  - destruct (tp_eqb y x) eqn:E.
    + apply tp_eqb_eq in E. subst. split; [discriminate|tauto].
    + apply tp_eqb_neq in E. rewrite IH. tauto.
Qed.

Lemma owner_In_nodup : forall st x m, NoDup (map snd st) -> In (m, x) st -> owner st x = Some m.
Proof.
  induction st as [|[m' y] r IH]; simpl; intros x m Hn Hin; [tauto|].
  inversion Hn; subst. destruct Hin as [E|Hin].
  - inversion E; subst. rewrite tp_eqb_refl. reflexivity.
  - destruct (tp_eqb y x) eqn:E.
    + apply tp_eqb_eq in E. subst. exfalso. apply H1. apply in_map_iff. exists (m, x). auto.
    + auto.
Qed.

Lemma owner_exists : forall st x, In x (map snd st) -> exists m, owner st x = Some m.
Proof.
  intros st x H. destruct (owner st x) eqn:E; eauto.
  apply owner_none_iff in E. tauto.
Qed.

(* ---- has_partition / potential *)
Lemma has_partition_b_spec : forall ppt x, has_partition_b ppt x = true <-> has_partition ppt x.
Proof.
  intros. unfold has_partition_b, has_partition. destruct (lookup_parts ppt (fst x)) as [n|].
  - rewrite Nat.ltb_lt. split; eauto. intros [n' [E H]]. inversion E; subst; auto.
  - split; [discriminate|]. intros [n [E _]]. discriminate.
Qed.

Lemma potential_b_spec : forall ppt ms c x, ids_nodup ms ->
  (potential_b ppt ms c x = true <-> subscribed ms c (fst x) /\ has_partition ppt x).
Proof.
  intros ppt ms c x Hi. unfold potential_b, is_member_b.
  rewrite !andb_true_iff, !mem_nat_In, has_partition_b_spec. split.
  - intros [[_ Hs] Hp]. split; auto. apply subs_of_subscribed; auto.
  - intros [Hs Hp]. split; auto. split.
    + destruct Hs as [s [Hin _]]. apply in_map_iff. exists (c, s). auto.
    + apply subscribed_subs_of; auto.
Qed.

Lemma potentials_In : forall ppt ms x c,
  In c (potentials ppt ms x) <-> In c (map fst ms) /\ potential_b ppt ms c x = true.
Proof. intros. unfold potentials. apply filter_In. Qed.

Lemma potentials_nonempty : forall ppt ms x, ids_nodup ms ->
  (potentials ppt ms x <> [] <-> assignable ppt ms x).
Proof.
  intros ppt ms x Hi. unfold assignable. split.
  - intros H. destruct (potentials ppt ms x) as [|c r] eqn:E; [congruence|].
    assert (Hc : In c (potentials ppt ms x)) by (rewrite E; simpl; auto).
    apply potentials_In in Hc. destruct Hc as [_ Hc]. apply potential_b_spec in Hc; auto.
    destruct Hc. split; eauto.
  - intros [Hp [m Hs]] E.
    assert (Hc : In m (potentials ppt ms x)).
    { apply potentials_In. split.
      - destruct Hs as [s [Hin _]]. apply in_map_iff. exists (m, s). auto.
      - apply potential_b_spec; auto. }
    rewrite E in Hc. destruct Hc.
Qed.

Lemma all_parts_In : forall ppt x, In x (all_parts ppt) <-> has_partition ppt x.
Proof.
  intros ppt [t p]. unfold all_parts, has_partition. simpl. rewrite in_flat_map. split.
  - intros [t' [_ H]]. destruct (lookup_parts ppt t') as [n|] eqn:L; [|simpl in H; tauto].
    apply in_map_iff in H. destruct H as [p' [E Hp]]. inversion E; subst.
    apply in_seq in Hp. exists n. split; auto. lia.
  - intros [n [L Hp]]. exists t. split.
    + apply nodup_In.
      assert (G : forall l, lookup_parts l t = Some n -> In t (map fst l)).
      { induction l as [|[t' n'] l IH]; simpl; [discriminate|].
        destruct (Nat.eqb_spec t t'); auto. }
      apply G; auto.
    + rewrite L. apply in_map_iff. exists p. split; auto. apply in_seq. lia.
Qed.

(* ---- complete_b *)
Definition complete (ppt : layout) (ms : members_t) (st : triples) : Prop :=
  forall x, assignable ppt ms x -> exists m, In (m, x) st.

Lemma complete_b_spec : forall ppt ms st, ids_nodup ms ->
  (complete_b ppt ms st = true <-> complete ppt ms st).
Proof.
  intros ppt ms st Hi. unfold complete_b, complete. rewrite forallb_forall. split.
  - intros H x Ha. pose proof Ha as [Hp _]. apply all_parts_In in Hp. specialize (H x Hp).
    apply potentials_nonempty in Ha; auto.
    destruct (potentials ppt ms x); [congruence|].
    destruct (owner st x) as [m|] eqn:E; [|discriminate]. exists m. apply owner_some_In; auto.
  - intros H x Hx. destruct (potentials ppt ms x) eqn:E; auto.
    assert (Ha : assignable ppt ms x) by (apply potentials_nonempty; auto; congruence).
    destruct (H x Ha) as [m Hm].
    destruct (owner st x) eqn:Eo; auto. apply owner_none_iff in Eo. exfalso. apply Eo.
    apply in_map_iff. exists (m, x). auto.
Qed.

(* ---- the three checkers *)
Theorem valid_b_spec : forall ppt ms tr, ids_nodup ms ->
  (valid_b ppt ms tr = true <-> valid ppt ms tr).
Proof.
  intros ppt ms tr Hi. unfold valid_b, valid.
  rewrite !andb_true_iff, nodup_tp_b_spec.
  change (forallb _ (all_parts ppt) = true) with (complete_b ppt ms tr = true).
  rewrite complete_b_spec by auto. rewrite forallb_forall. unfold complete. split.
  - intros [[H1 H2] H3]. split; auto. split; auto.
    intros m x Hin. apply (potential_b_spec ppt ms m x Hi). apply (H2 (m, x)); auto.
  - intros [H1 [H2 H3]]. split; auto. split; auto.
    intros [m x] Hin. simpl. apply potential_b_spec; auto.
Qed.

Theorem within_one_b_spec : forall ms tr, within_one_b ms tr = true <-> within_one ms tr.
Proof.
  intros. unfold within_one_b, within_one. rewrite forallb_forall. split.
  - intros H m1 m2 H1 H2. specialize (H m1 H1). rewrite forallb_forall in H.
    apply Nat.leb_le. apply H; auto.
  - intros H m1 H1. apply forallb_forall. intros m2 H2. apply Nat.leb_le. auto.
Qed.

Theorem kip54_balanced_b_spec : forall ms tr, ids_nodup ms ->
  (kip54_balanced_b ms tr = true <-> kip54_balanced ms tr).
Proof.
  intros ms tr Hi. unfold kip54_balanced_b, kip54_balanced. rewrite forallb_forall. split.
  - intros H m x o Hin Ho Hs. specialize (H (m, x) Hin). rewrite forallb_forall in H.
    specialize (H o Ho). simpl in H. apply orb_true_iff in H. destruct H as [H|H].
    + apply negb_true_iff in H. apply mem_nat_false in H. exfalso. apply H.
      apply subscribed_subs_of; auto.
    + apply Nat.ltb_lt; auto.
  - intros H [m x] Hin. apply forallb_forall. intros o Ho. simpl.
    destruct (mem_nat (fst x) (subs_of ms o)) eqn:E; simpl; auto.
    apply Nat.ltb_lt. apply (H m x o); auto. apply subs_of_subscribed. apply mem_nat_In; auto.
Qed.
