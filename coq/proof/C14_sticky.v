(* C14 — sticky assignor: every StickyAbs run preserves single ownership by potential
   consumers; StickyCtl runs (the checked skeleton of the real executor) are StickyAbs runs;
   their results are valid. *)
From Coq Require Import Arith List Bool Lia PeanoNat.
From Verif Require Import C14_Assignors C14_lists C14_Sticky C14_checkers.
Import ListNotations.

(* single ownership by potential consumers *)
Definition sound (ppt : layout) (ms : members_t) (st : triples) : Prop :=
  NoDup (map snd st) /\ forall e, In e st -> potential_b ppt ms (fst e) (snd e) = true.

Lemma NoDup_map_filter : forall (A B : Type) (f : A -> B) (g : A -> bool) (l : list A),
  NoDup (map f l) -> NoDup (map f (filter g l)).
Proof.
  induction l as [|a l IH]; simpl; intros H; [constructor|].
  inversion H; subst. destruct (g a); simpl; auto.
  constructor; auto. rewrite in_map_iff in *. intros [y [E Hy]]. apply H2.
  exists y. split; auto. apply filter_In in Hy. tauto.
Qed.

Lemma drop_sound : forall ppt ms st, NoDup (map snd st) -> sound ppt ms (drop ppt ms st).
Proof.
  intros. split.
  - apply NoDup_map_filter; auto.
  - intros e He. apply filter_In in He. tauto.
Qed.

Lemma assign_sound : forall ppt ms st x c,
  sound ppt ms st -> owner st x = None -> potential_b ppt ms c x = true ->
  sound ppt ms (st ++ [(c, x)]).
Proof.
  intros ppt ms st x c [Hn Hp] Ho Hc. split.
  - rewrite map_app. simpl. apply NoDup_app_intro; auto.
    + constructor; [simpl; tauto|constructor].
    + intros y Hy [E|[]]. subst. apply owner_none_iff in Ho. tauto.
  - intros e He. apply in_app_iff in He. destruct He as [He|[E|[]]]; auto. subst. auto.
Qed.

Lemma set_owner_snd : forall st x c, map snd (set_owner st x c) = map snd st.
Proof.
  intros. unfold set_owner. rewrite map_map. apply map_ext. intros e.
  destruct (tp_eqb (snd e) x) eqn:E; auto. apply tp_eqb_eq in E. auto.
Qed.

Lemma set_owner_In : forall st x c e, In e (set_owner st x c) ->
  e = (c, x) \/ (In e st /\ snd e <> x).
Proof.
  intros st x c e H. unfold set_owner in H. apply in_map_iff in H. destruct H as [e' [E Hin]].
  destruct (tp_eqb (snd e') x) eqn:E'.
  - left; auto.
  - right. subst. split; auto. apply tp_eqb_neq; auto.
Qed.

Lemma move_sound : forall ppt ms st x c,
  sound ppt ms st -> potential_b ppt ms c x = true -> sound ppt ms (set_owner st x c).
Proof.
  intros ppt ms st x c [Hn Hp] Hc. split.
  - rewrite set_owner_snd. auto.
  - intros e He. apply set_owner_In in He. destruct He as [->|[He _]]; auto.
Qed.

(* ---- invariant of a StickyAbs run after the initial Drop *)
Definition abs_inv (ppt : layout) (ms : members_t) (s : triples * option triples) : Prop :=
  sound ppt ms (fst s) /\ forall sn, snd s = Some sn -> sound ppt ms sn.

Lemma abs_step_inv : forall ppt ms s o s',
  abs_inv ppt ms s -> abs_step ppt ms s o = Some s' -> abs_inv ppt ms s'.
Proof.
  intros ppt ms [st sn] o s' [H1 H2] H. simpl in *. destruct o as [|x c| |x c|]; simpl in H.
  - inversion H; subst. split; simpl; auto. apply drop_sound. apply H1.
  - destruct (owner st x) eqn:Eo; [discriminate|].
    destruct (potential_b ppt ms c x) eqn:Ep; [|discriminate]. inversion H; subst.
    split; simpl; auto. apply assign_sound; auto.
  - inversion H; subst. split; simpl; auto. intros sn' E. inversion E; subst; auto.
  - destruct (owner st x) eqn:Eo; [|discriminate].
    destruct (potential_b ppt ms c x) eqn:Ep; [|discriminate]. inversion H; subst.
    split; simpl; auto. apply move_sound; auto.
  - destruct sn as [sn0|]; [|discriminate]. inversion H; subst. split; simpl; auto.
Qed.

Lemma abs_run_inv : forall ppt ms ops s s',
  abs_inv ppt ms s -> abs_run ppt ms s ops = Some s' -> abs_inv ppt ms s'.
Proof.
  induction ops as [|o r IH]; simpl; intros s s' Hi H.
  - inversion H; subst; auto.
  - destruct (abs_step ppt ms s o) as [s1|] eqn:E; [|discriminate].
    apply (IH s1 s'); auto. eapply abs_step_inv; eauto.
Qed.

(* c14_sticky_valid, part 1: whatever the executor starts from (one owner per partition,
   which _init_current_assignments guarantees by construction), after the Drop every state of
   every StickyAbs run has one owner per partition and that owner is a potential consumer *)
Theorem abs_run_sound : forall ppt ms st0 ops st sn,
  NoDup (map snd st0) ->
  abs_run ppt ms (st0, None) (ADrop :: ops) = Some (st, sn) -> sound ppt ms st.
Proof.
  intros ppt ms st0 ops st sn Hn H. simpl in H.
  assert (Hi : abs_inv ppt ms (drop ppt ms st0, None)).
  { split; simpl; [apply drop_sound; auto | discriminate]. }
  apply (proj1 (abs_run_inv _ _ _ _ _ Hi H)).
Qed.

(* ---- completeness is preserved by everything but Drop *)
Definition abs_cinv (ppt : layout) (ms : members_t) (s : triples * option triples) : Prop :=
  complete ppt ms (fst s) /\ forall sn, snd s = Some sn -> complete ppt ms sn.

Lemma set_owner_complete : forall ppt ms st x c,
  complete ppt ms st -> complete ppt ms (set_owner st x c).
Proof.
  intros ppt ms st x c H y Hy. destruct (H y Hy) as [m Hm].
  assert (Hin : In y (map snd (set_owner st x c))).
  { rewrite set_owner_snd. apply in_map_iff. exists (m, y). auto. }
  apply in_map_iff in Hin. destruct Hin as [[m' y'] [E Hin]]. simpl in E. subst. eauto.
Qed.

Definition no_drop (o : aop) : Prop := match o with ADrop => False | _ => True end.

Lemma abs_step_cinv : forall ppt ms s o s', no_drop o ->
  abs_cinv ppt ms s -> abs_step ppt ms s o = Some s' -> abs_cinv ppt ms s'.
Proof.
  intros ppt ms [st sn] o s' Hnd [H1 H2] H. simpl in *. destruct o as [|x c| |x c|]; simpl in H, Hnd; [tauto| | | |].
  - destruct (owner st x); [discriminate|].
    destruct (potential_b ppt ms c x); [|discriminate]. inversion H; subst.
    split; simpl; auto. intros y Hy. destruct (H1 y Hy) as [m Hm]. exists m.
    apply in_app_iff; auto.
  - inversion H; subst. split; simpl; auto. intros sn' E. inversion E; subst; auto.
  - destruct (owner st x); [|discriminate].
    destruct (potential_b ppt ms c x); [|discriminate]. inversion H; subst.
    split; simpl; auto. apply set_owner_complete; auto.
  - destruct sn as [sn0|]; [|discriminate]. inversion H; subst. split; simpl; auto.
Qed.

Lemma abs_run_cinv : forall ppt ms ops s s', Forall no_drop ops ->
  abs_cinv ppt ms s -> abs_run ppt ms s ops = Some s' -> abs_cinv ppt ms s'.
Proof.
  induction ops as [|o r IH]; simpl; intros s s' Hf Hi H.
  - inversion H; subst; auto.
  - inversion Hf; subst.
    destruct (abs_step ppt ms s o) as [s1|] eqn:E; [|discriminate].
    apply (IH s1 s'); auto. eapply abs_step_cinv; eauto.
Qed.

Lemma sound_complete_valid : forall ppt ms st, ids_nodup ms ->
  sound ppt ms st -> complete ppt ms st -> valid ppt ms st.
Proof.
  intros ppt ms st Hi [Hn Hp] Hc. split; auto. split; auto.
  intros m x Hin. apply (potential_b_spec ppt ms m x Hi). apply (Hp (m, x)); auto.
Qed.

(* ------------------------------------------------------------------ StickyCtl refines StickyAbs *)
Lemma least_loaded_In : forall st cs c, least_loaded st cs = Some c -> In c cs.
Proof.
  induction cs as [|a r IH]; simpl; intros c H; [discriminate|].
  destruct (least_loaded st r) as [b|] eqn:E.
  - destruct (less_loaded st b a); inversion H; subst; auto.
  - inversion H; auto.
Qed.

Lemma opt_nat_eqb_eq : forall a b, opt_nat_eqb a b = true -> a = Some b.
Proof. intros [a|] b H; simpl in H; [apply Nat.eqb_eq in H; subst; auto | discriminate]. Qed.

Lemma ctl_assign_abs : forall ppt ms st a st' sn,
  ctl_assign ppt ms st a = Some st' ->
  abs_step ppt ms (st, sn) (AAssign (fst a) (snd a)) = Some (st', sn).
Proof.
  intros ppt ms st [x c] st' sn H. unfold ctl_assign in H. simpl.
  destruct (owner st x); [discriminate|].
  destruct (opt_nat_eqb (least_loaded st (potentials ppt ms x)) c) eqn:E; [|discriminate].
  apply opt_nat_eqb_eq in E. apply least_loaded_In in E. apply potentials_In in E.
  destruct E as [_ E]. rewrite E. inversion H; subst. reflexivity.
Qed.

Lemma abs_run_cons : forall ppt ms s o r,
  abs_run ppt ms s (o :: r) =
  match abs_step ppt ms s o with Some s' => abs_run ppt ms s' r | None => None end.
Proof. reflexivity. Qed.

Lemma ctl_assigns_abs : forall ppt ms l st st' sn,
  ctl_assigns ppt ms st l = Some st' ->
  abs_run ppt ms (st, sn) (map (fun a => AAssign (fst a) (snd a)) l) = Some (st', sn).
Proof.
  induction l as [|a r IH]; intros st st' sn H; simpl in H.
  - inversion H; auto.
  - destruct (ctl_assign ppt ms st a) as [st1|] eqn:E; [|discriminate].
    cbn [map]. rewrite abs_run_cons, (ctl_assign_abs _ _ _ _ _ sn E). apply IH; auto.
Qed.

Lemma candidates_topic : forall mv x c c' q,
  mem_tp q (candidates mv x c c') = true -> fst q = fst x.
Proof.
  intros mv x c c' q H. unfold candidates in H.
  set (old := match mv_get mv x with Some (s, _) => s | None => c end) in *.
  destruct (map fst (filter _ mv)) as [|q0 qs] eqn:E.
  - apply mem_tp_In in H. destruct H as [H|[]]. subst. reflexivity.
  - apply mem_tp_In in H. rewrite <- E in H. apply in_map_iff in H.
    destruct H as [e [Eq He]]. apply filter_In in He. destruct He as [_ He].
    apply andb_true_iff in He. destruct He as [He _]. apply andb_true_iff in He.
    destruct He as [He _]. apply Nat.eqb_eq in He. subst. auto.
Qed.

Lemma potential_same_topic : forall ppt ms c x q,
  potential_b ppt ms c x = true -> fst q = fst x -> has_partition_b ppt q = true ->
  potential_b ppt ms c q = true.
Proof.
  unfold potential_b. intros ppt ms c x q H E Hq. rewrite E, Hq.
  apply andb_true_iff in H. destruct H as [H _]. rewrite H. reflexivity.
Qed.

Lemma ctl_reassign_abs : forall ppt ms prev sc st mv r st' mv' sn,
  sound ppt ms st ->
  ctl_reassign ppt ms prev sc (st, mv) r = Some (st', mv') ->
  abs_step ppt ms (st, sn) (AMove (snd r) (snd (fst r))) = Some (st', sn).
Proof.
  intros ppt ms prev sc st mv [[x c'] q] st' mv' sn [Hn Hp] H.
  unfold ctl_reassign in H. simpl.
  destruct (is_balanced_b ppt ms st sc); [discriminate|].
  destruct (negb (movable_b ppt ms x)); [discriminate|].
  destruct (owner st x) as [c|] eqn:Eo; [|discriminate].
  match type of H with (if ?g then _ else _) = _ => destruct g eqn:G; [|discriminate] end.
  apply andb_true_iff in G. destruct G as [G _]. apply andb_true_iff in G. destruct G as [Gt Gq].
  destruct (owner st q) as [oq|] eqn:Eq; [|discriminate].
  inversion H; subst.
  assert (Hx : potential_b ppt ms c' x = true).
  { unfold prev_trigger in Gt. destruct (prev_get prev x) as [pc|] eqn:Epv.
    - destruct (mem_nat pc (potentials ppt ms x) && (load_sc st sc pc + 1 <? load st c)) eqn:Ept.
      + apply Nat.eqb_eq in Gt. subst. apply andb_true_iff in Ept. destruct Ept as [Ept _].
        apply mem_nat_In in Ept. apply potentials_In in Ept. tauto.
      + apply andb_true_iff in Gt. destruct Gt as [_ Gt]. apply opt_nat_eqb_eq in Gt.
        apply least_loaded_In in Gt. apply filter_In in Gt. tauto.
    - apply andb_true_iff in Gt. destruct Gt as [_ Gt]. apply opt_nat_eqb_eq in Gt.
      apply least_loaded_In in Gt. apply filter_In in Gt. tauto. }
  assert (Hq : potential_b ppt ms c' q = true).
  { apply (potential_same_topic ppt ms c' x q Hx).
    - eapply candidates_topic; eauto.
    - apply owner_some_In in Eq. specialize (Hp _ Eq). simpl in Hp.
      unfold potential_b in Hp. apply andb_true_iff in Hp. tauto. }
  rewrite Hq. reflexivity.
Qed.

Lemma ctl_reassign_sound : forall ppt ms prev sc st mv r st' mv',
  sound ppt ms st ->
  ctl_reassign ppt ms prev sc (st, mv) r = Some (st', mv') -> sound ppt ms st'.
Proof.
  intros. pose proof (ctl_reassign_abs _ _ _ _ _ _ _ _ _ None H H0) as A.
  assert (I : abs_inv ppt ms (st, None)) by (split; simpl; auto; discriminate).
  apply (proj1 (abs_step_inv _ _ _ _ _ I A)).
Qed.

Lemma ctl_reassigns_cons : forall ppt ms prev sc s r rest,
  ctl_reassigns ppt ms prev sc s (r :: rest) =
  match ctl_reassign ppt ms prev sc s r with
  | Some s' => ctl_reassigns ppt ms prev sc s' rest
  | None => None
  end.
Proof. reflexivity. Qed.

Lemma ctl_reassigns_abs : forall ppt ms prev sc rs st mv st' mv' sn,
  sound ppt ms st ->
  ctl_reassigns ppt ms prev sc (st, mv) rs = Some (st', mv') ->
  abs_run ppt ms (st, sn) (map (fun r => AMove (snd r) (snd (fst r))) rs) = Some (st', sn).
Proof.
  induction rs as [|r rest IH]; intros st mv st' mv' sn Hs H.
  - simpl in H. inversion H; auto.
  - rewrite ctl_reassigns_cons in H.
    destruct (ctl_reassign ppt ms prev sc (st, mv) r) as [[st1 mv1]|] eqn:E; [|discriminate].
    cbn [map]. rewrite abs_run_cons, (ctl_reassign_abs _ _ _ _ _ _ _ _ _ sn Hs E).
    eapply IH; eauto. eapply ctl_reassign_sound; eauto.
Qed.

Lemma abs_run_app : forall ppt ms a b s s1,
  abs_run ppt ms s a = Some s1 -> abs_run ppt ms s (a ++ b) = abs_run ppt ms s1 b.
Proof.
  induction a as [|o r IH]; simpl; intros b s s1 H.
  - inversion H; auto.
  - destruct (abs_step ppt ms s o); [|discriminate]. apply IH; auto.
Qed.

(* what an accepted log establishes *)
Lemma ctl_run_inv : forall ppt ms prev st0 assigns reassigns obs r,
  ctl_run ppt ms prev st0 assigns reassigns obs = Some r ->
  exists st3 mv,
    ctl_assigns ppt ms (drop ppt ms st0) assigns = Some (cr_prebalance r) /\
    complete_b ppt ms (cr_prebalance r) = true /\
    ctl_reassigns ppt ms prev (scope ppt ms (cr_prebalance r)) (cr_prebalance r, []) reassigns
      = Some (st3, mv) /\
    end_ok ppt ms prev (scope ppt ms (cr_prebalance r)) st3 = true /\
    cr_balanced r = st3 /\ cr_reverted r = obs /\
    cr_final r = (if obs then cr_prebalance r else st3).
Proof.
  intros ppt ms prev st0 assigns reassigns obs r H. unfold ctl_run in H.
  destruct (ctl_assigns ppt ms (drop ppt ms st0) assigns) as [st2|] eqn:E2; [|discriminate].
  destruct (complete_b ppt ms st2) eqn:Ec; simpl in H; [|discriminate].
  destruct (ctl_reassigns ppt ms prev (scope ppt ms st2) (st2, []) reassigns) as [[st3 mv]|] eqn:E3;
    [|discriminate].
  destruct (end_ok ppt ms prev (scope ppt ms st2) st3) eqn:Ee; simpl in H; [|discriminate].
  match type of H with (if ?g then _ else _) = _ => destruct g; [|discriminate] end.
  inversion H; subst; simpl. exists st3, mv. repeat split; auto.
Qed.

(* an accepted log is a StickyAbs run ending in the final state *)
Theorem ctl_run_is_abs_run : forall ppt ms prev st0 assigns reassigns obs r,
  NoDup (map snd st0) ->
  ctl_run ppt ms prev st0 assigns reassigns obs = Some r ->
  abs_run ppt ms (st0, None) (ctl_aops assigns reassigns (cr_reverted r))
  = Some (cr_final r, Some (cr_prebalance r)).
Proof.
  intros ppt ms prev st0 assigns reassigns obs r Hn H.
  destruct (ctl_run_inv _ _ _ _ _ _ _ _ H) as [st3 [mv [E2 [Ec [E3 [Ee [Eb [Er Ef]]]]]]]].
  unfold ctl_aops. simpl.
  rewrite (abs_run_app _ _ _ _ _ _ (ctl_assigns_abs _ _ _ _ _ None E2)). simpl.
  assert (Hs2 : sound ppt ms (cr_prebalance r)).
  { assert (I : abs_inv ppt ms (drop ppt ms st0, None))
      by (split; simpl; [apply drop_sound; auto | discriminate]).
    apply (proj1 (abs_run_inv _ _ _ _ _ I (ctl_assigns_abs _ _ _ _ _ None E2))). }
  rewrite (abs_run_app _ _ _ _ _ _
             (ctl_reassigns_abs _ _ _ _ _ _ _ _ _ (Some (cr_prebalance r)) Hs2 E3)).
  rewrite Er, Ef. destruct obs; reflexivity.
Qed.

(* c14_sticky_valid, part 2: the result of an accepted log is a valid assignment *)
Theorem ctl_run_valid : forall ppt ms prev st0 assigns reassigns obs r,
  ids_nodup ms -> NoDup (map snd st0) ->
  ctl_run ppt ms prev st0 assigns reassigns obs = Some r ->
  valid ppt ms (cr_final r) /\ valid ppt ms (cr_prebalance r) /\ valid ppt ms (cr_balanced r).
Proof.
  intros ppt ms prev st0 assigns reassigns obs r Hi Hn H.
  destruct (ctl_run_inv _ _ _ _ _ _ _ _ H) as [st3 [mv [E2 [Ec [E3 [Ee [Eb [Er Ef]]]]]]]].
  assert (I : abs_inv ppt ms (drop ppt ms st0, None))
    by (split; simpl; [apply drop_sound; auto | discriminate]).
  assert (Hs2 : sound ppt ms (cr_prebalance r))
    by apply (proj1 (abs_run_inv _ _ _ _ _ I (ctl_assigns_abs _ _ _ _ _ None E2))).
  assert (Hc2 : complete ppt ms (cr_prebalance r)) by (apply complete_b_spec; auto).
  pose proof (ctl_reassigns_abs _ _ _ _ _ _ _ _ _ None Hs2 E3) as A3.
  assert (Hs3 : sound ppt ms st3).
  { assert (I2 : abs_inv ppt ms (cr_prebalance r, None)) by (split; simpl; auto; discriminate).
    apply (proj1 (abs_run_inv _ _ _ _ _ I2 A3)). }
  assert (Hc3 : complete ppt ms st3).
  { assert (I2 : abs_cinv ppt ms (cr_prebalance r, None)) by (split; simpl; auto; discriminate).
    refine (proj1 (abs_run_cinv _ _ _ _ _ _ I2 A3)).
    apply Forall_forall. intros o Ho. apply in_map_iff in Ho. destruct Ho as [? [<- _]]. simpl. exact Logic.I. }
  assert (V2 : valid ppt ms (cr_prebalance r)) by (apply sound_complete_valid; auto).
  assert (V3 : valid ppt ms st3) by (apply sound_complete_valid; auto).
  rewrite Ef, Eb. destruct obs; auto.
Qed.

(* ------------------------------------------------------------------ the assign loop *)
Lemma least_loaded_some : forall st cs, cs <> [] -> exists c, least_loaded st cs = Some c.
Proof.
  intros st [|a r] H; [congruence|]. simpl.
  destruct (least_loaded st r) as [b|]; [destruct (less_loaded st b a)|]; eauto.
Qed.

(* c14_sticky_valid, part 3: if the list handed to the assign loop contains every assignable
   partition that has no owner yet, no assignable partition is left without an owner *)
Theorem assign_loop_complete : forall ppt ms xs st, ids_nodup ms ->
  (forall x, assignable ppt ms x -> (exists m, In (m, x) st) \/ In x xs) ->
  complete ppt ms (assign_loop ppt ms st xs).
Proof.
  induction xs as [|x r IH]; simpl; intros st Hi H.
  - intros y Hy. destruct (H y Hy) as [Ho|[]]. auto.
  - destruct (owner st x) as [m|] eqn:Eo.
    + apply IH; auto. intros y Hy. destruct (H y Hy) as [Ho|[->|Hin]]; auto.
      left. exists m. apply owner_some_In; auto.
    + destruct (least_loaded st (potentials ppt ms x)) as [c|] eqn:El.
      * apply IH; auto. intros y Hy. destruct (H y Hy) as [[m Hm]|[->|Hin]]; auto.
        -- left. exists m. apply in_app_iff; auto.
        -- left. exists c. apply in_app_iff. right. simpl; auto.
      * apply IH; auto. intros y Hy. destruct (H y Hy) as [Ho|[->|Hin]]; auto.
        exfalso. apply potentials_nonempty in Hy; auto.
        destruct (least_loaded_some st _ Hy) as [c Hc]. congruence.
Qed.

(* the loop is a sequence of StickyCtl-accepted (hence StickyAbs) Assign steps *)
Lemma assign_loop_is_ctl : forall ppt ms xs st,
  exists l, ctl_assigns ppt ms st l = Some (assign_loop ppt ms st xs).
Proof.
  induction xs as [|x r IH]; simpl; intros st.
  - exists []. reflexivity.
  - destruct (owner st x) as [m|] eqn:Eo; [apply IH|].
    destruct (least_loaded st (potentials ppt ms x)) as [c|] eqn:El; [|apply IH].
    destruct (IH (st ++ [(c, x)])) as [l Hl]. exists ((x, c) :: l). simpl.
    rewrite Eo, El. simpl. rewrite Nat.eqb_refl. exact Hl.
Qed.
