(* C16_proof.v — proofs about model/C16_TxnApi.v.
   The per-step facts are finite: state x call x fault is a table of 2128 x 8 x 33 entries; each is
   checked by [vm_compute] and lifted to a universally quantified statement by [forallb_forall]
   over enumerations that are proved complete.  The sequence-level theorems are inductions over
   call lists on top of the step lemmas. *)
From Coq Require Import ZArith List Bool.
From Verif Require Import Imp TxnTable C16_TxnApi.
Import ListNotations.

(* ---------- decidable equalities (transparent, so that vm_compute can run them) ------------- *)
Definition tst_eq_dec (a b : tst) : {a = b} + {a <> b}. Proof. decide equality. Defined.
Definition code_eq_dec (a b : code) : {a = b} + {a <> b}. Proof. decide equality. Defined.
Definition exn_eq_dec (a b : exn) : {a = b} + {a <> b}.
Proof. decide equality. apply code_eq_dec. Defined.
Definition part_eq_dec (a b : part) : {a = b} + {a <> b}. Proof. decide equality. Defined.
Definition pset_eq_dec (a b : pset) : {a = b} + {a <> b}.
Proof. decide equality; apply bool_dec. Defined.
Definition req_eq_dec (a b : req) : {a = b} + {a <> b}.
Proof. decide equality; try apply pset_eq_dec; apply bool_dec. Defined.
Definition result_eq_dec (a b : result) : {a = b} + {a <> b}.
Proof. decide equality; apply exn_eq_dec. Defined.
Definition tstate_eq_dec (a b : tstate) : {a = b} + {a <> b}.
Proof.
  decide equality; try apply bool_dec; try apply tst_eq_dec.
  decide equality. apply exn_eq_dec.
Defined.
Definition pstate_eq_dec (a b : pstate) : {a = b} + {a <> b}. Proof. decide equality. Defined.

Definition eqb_of {A} (dec : forall a b : A, {a = b} + {a <> b}) (a b : A) : bool :=
  if dec a b then true else false.
Lemma eqb_of_true {A} dec (a b : A) : eqb_of dec a b = true -> a = b.
Proof. unfold eqb_of. destruct (dec a b); [auto | discriminate]. Qed.
Lemma eqb_of_refl {A} dec (a : A) : eqb_of dec a a = true.
Proof. unfold eqb_of. destruct (dec a a); [auto | congruence]. Qed.

Definition tstate_eqb := eqb_of tstate_eq_dec.
Definition result_eqb := eqb_of result_eq_dec.
Definition reqs_eqb := eqb_of (list_eq_dec req_eq_dec).
Definition tst_eqb := eqb_of tst_eq_dec.
Definition pstate_eqb := eqb_of pstate_eq_dec.
Definition werr_eqb := eqb_of (fun a b : option exn =>
  ltac:(decide equality; apply exn_eq_dec) : {a = b} + {a <> b}).
Definition ores_eq_dec (a b : option result) : {a = b} + {a <> b}.
Proof. decide equality; apply result_eq_dec. Defined.
Definition futs_eq_dec (a b : futs) : {a = b} + {a <> b}.
Proof. decide equality; apply ores_eq_dec. Defined.
Definition futs_eqb := eqb_of futs_eq_dec.

(* the tabulated transition table is the translated function *)
Lemma table_is_translated : forall s t, table s t = table_py s t.
Proof. intros s t. destruct s, t; vm_compute; reflexivity. Qed.

(* ---------- complete enumerations ------------------------------------------------------------ *)
Definition all_tst := [UNINIT; READY; IN_TXN; COMMITTING; ABORTING; ABORTABLE; FATAL].
Definition all_code := [E3; E7; E14; E15; E16; E29; E30; E45; E47; E48; E49; E51; E53; EOther].
Definition all_exn := [XIllegalOperation; XAssertion; XProducerFenced; XKafkaError] ++ map XCode all_code.
Definition all_werr : list (option exn) := None :: map Some all_exn.
Definition all_bool := [false; true].
Definition all_states : list tstate :=
  flat_map (fun t => flat_map (fun a => flat_map (fun b => flat_map (fun g => flat_map (fun k =>
  flat_map (fun g0 => flat_map (fun g1 => flat_map (fun n0 => flat_map (fun n1 =>
    map (fun w => mkT t a b g k w g0 g1 n0 n1) all_werr) all_bool) all_bool) all_bool) all_bool)
    all_bool) all_bool) all_bool) all_bool) all_tst.
Definition all_calls := [Begin; Send P0; Send P1; SendOffsets; Commit; Abort; CtxOk; CtxExc;
                         SendNW P0; SendNW P1].
Definition all_fkind := map FErr all_code ++ [FDropBefore; FDropAfter].
Definition all_faults : list fault :=
  None :: flat_map (fun i => map (fun k => Some (i, k)) all_fkind) [I0; I1; I2; I3].

Lemma in_all_tst t : In t all_tst. Proof. destruct t; simpl; tauto. Qed.
Lemma in_all_code c : In c all_code. Proof. destruct c; simpl; tauto. Qed.
Lemma in_all_bool b : In b all_bool. Proof. destruct b; simpl; tauto. Qed.
Lemma in_all_exn e : In e all_exn.
Proof.
  destruct e; try (simpl; tauto).
  unfold all_exn. apply in_or_app. right. apply in_map. apply in_all_code.
Qed.
Lemma in_all_werr w : In w all_werr.
Proof. destruct w; [right; apply in_map; apply in_all_exn | left; reflexivity]. Qed.
Lemma in_all_states s : In s all_states.
Proof.
  destruct s as [t a b g k w g0 g1 n0 n1]. unfold all_states.
  apply in_flat_map; exists t; split; [apply in_all_tst|].
  apply in_flat_map; exists a; split; [apply in_all_bool|].
  apply in_flat_map; exists b; split; [apply in_all_bool|].
  apply in_flat_map; exists g; split; [apply in_all_bool|].
  apply in_flat_map; exists k; split; [apply in_all_bool|].
  apply in_flat_map; exists g0; split; [apply in_all_bool|].
  apply in_flat_map; exists g1; split; [apply in_all_bool|].
  apply in_flat_map; exists n0; split; [apply in_all_bool|].
  apply in_flat_map; exists n1; split; [apply in_all_bool|].
  apply (in_map (fun w0 => mkT t a b g k w0 g0 g1 n0 n1)). apply in_all_werr.
Qed.
Lemma in_all_calls c : In c all_calls.
Proof. destruct c as [ | [|] | | | | | | [|] ]; simpl; tauto. Qed.
Lemma in_all_fkind k : In k all_fkind.
Proof.
  unfold all_fkind. destruct k.
  - apply in_or_app; left. apply in_map. apply in_all_code.
  - apply in_or_app; right; simpl; tauto.
  - apply in_or_app; right; simpl; tauto.
Qed.
Lemma in_all_faults f : In f all_faults.
Proof.
  destruct f as [[i k]|]; [right | left; reflexivity].
  apply in_flat_map. exists i. split; [destruct i; simpl; tauto|].
  apply (in_map (fun k0 => Some (i, k0))). apply in_all_fkind.
Qed.

(* ---------- the sweep combinator -------------------------------------------------------------- *)
Definition sweep (P : tstate -> call -> fault -> bool) : bool :=
  forallb (fun s => forallb (fun c => forallb (fun f => P s c f) all_faults) all_calls) all_states.

Lemma sweep_sound P : sweep P = true -> forall s c f, P s c f = true.
Proof.
  unfold sweep. intros H s c f.
  rewrite forallb_forall in H. specialize (H s (in_all_states s)).
  rewrite forallb_forall in H. specialize (H c (in_all_calls c)).
  rewrite forallb_forall in H. exact (H f (in_all_faults f)).
Qed.

(* ---------- well-formed boundary states ------------------------------------------------------- *)
(* between calls: READY / IN_TXN / ABORTABLE_ERROR / FATAL_ERROR; ABORTABLE carries its error
   (a topic / group authorization failure); un-awaited nowait sends exist only in IN_TXN *)
Definition no_werr (s : tstate) : bool := match werr s with None => true | Some _ => false end.
Definition no_nw (s : tstate) : bool := negb (nw0 s) && negb (nw1 s).
Definition wfb (s : tstate) : bool :=
  match st s with
  | READY => no_werr s && is_empty_txn s && no_nw s
  | IN_TXN => no_werr s
  | ABORTABLE => (match werr s with Some (XCode E29) | Some (XCode E30) => true | _ => false end) && no_nw s
  | FATAL => (match werr s with Some _ => true | None => false end) && is_empty_txn s && no_nw s
  | _ => false
  end.

(* sweep restricted to well-formed states (lazy in the body) *)
Definition wsweep (P : tstate -> call -> fault -> bool) : bool :=
  sweep (fun s c f => if wfb s then P s c f else true).
Lemma wsweep_sound P : wsweep P = true -> forall s c f, wfb s = true -> P s c f = true.
Proof.
  intros H s c f W. pose proof (sweep_sound _ H s c f) as Q. cbv beta in Q. rewrite W in Q. exact Q.
Qed.
(* lazy implication *)
Notation "a ==> b" := (if a then b else true) (at level 70, only parsing).

Definition api_st (s : tstate) (c : call) (f : fault) : tstate := fst (fst (api s c f)).
Definition api_res (s : tstate) (c : call) (f : fault) : result := snd (fst (api s c f)).
Definition api_req (s : tstate) (c : call) (f : fault) : list req := snd (api s c f).
Definition api_fut (s : tstate) (c : call) (f : fault) : futs := api_futs s c f.
Lemma api_split s c f : api s c f = (api_st s c f, api_res s c f, api_req s c f).
Proof. unfold api_st, api_res, api_req. destruct (api s c f) as [[a b] d]. reflexivity. Qed.

Lemma wf_started : exists s0, started = Some s0 /\ wfb s0 = true /\ st s0 = READY.
Proof. eexists. split; [vm_compute; reflexivity|]. split; reflexivity. Qed.

Lemma wf_preserved_b : wsweep (fun s c f => wfb (api_st s c f)) = true.
Proof. vm_compute. reflexivity. Qed.
Lemma wf_preserved s c f : wfb s = true -> wfb (api_st s c f) = true.
Proof. intros H. exact (wsweep_sound _ wf_preserved_b s c f H). Qed.

(* ---------- illegal calls have no effect ------------------------------------------------------- *)
Definition is_raise (r : result) : bool := match r with RRaise _ => true | _ => false end.

Lemma illegal_no_effect_b :
  wsweep (fun s c f => (negb (pallowed (abs (st s)) c) && negb (pending s)) ==>
                        (tstate_eqb (api_st s c f) s && is_raise (api_res s c f)
                         && is_nil (api_req s c f))) = true.
Proof. vm_compute. reflexivity. Qed.

Lemma illegal_no_effect s c f :
  wfb s = true -> pallowed (abs (st s)) c = false -> pending s = false ->
  exists e, api s c f = (s, RRaise e, []).
Proof.
  intros W A NP. pose proof (wsweep_sound _ illegal_no_effect_b s c f W) as P.
  cbv beta in P. rewrite A, NP in P. simpl in P.
  apply andb_prop in P. destruct P as [P Q]. apply andb_prop in P. destruct P as [P R].
  apply eqb_of_true in P. rewrite (api_split s c f). rewrite P.
  destruct (api_res s c f); try discriminate. destruct (api_req s c f); try discriminate.
  eexists; reflexivity.
Qed.

(* a call that first awaits the outstanding nowait sends *)
Definition awaits_first (s : tstate) (c : call) : bool := pending s && negb (is_end c) && negb (is_nw c).

(* an allowed call never fails with the out-of-order errors (a call that first awaits outstanding
   sends is made in the state they leave behind, see [refines_step_b]) *)
Definition is_order_error (r : result) : bool :=
  match r with RRaise XIllegalOperation | RRaise XAssertion => true | _ => false end.
Lemma legal_not_order_error_b :
  wsweep (fun s c f => (pallowed (abs (st s)) c && negb (awaits_first s c))
                        ==> negb (is_order_error (api_res s c f))) = true.
Proof. vm_compute. reflexivity. Qed.
Lemma legal_not_order_error s c f :
  wfb s = true -> pallowed (abs (st s)) c = true -> awaits_first s c = false ->
  is_order_error (api_res s c f) = false.
Proof.
  intros W A AF. pose proof (wsweep_sound _ legal_not_order_error_b s c f W) as P.
  cbv beta in P. rewrite A, AF in P. simpl in P. destruct (is_order_error _); [discriminate|reflexivity].
Qed.

(* ---------- refinement of the 7-state protocol automaton -------------------------------------- *)
(* a call made with nothing outstanding, an end call, or a nowait send *)
Definition refines_direct_b (s : tstate) (c : call) (f : fault) : bool :=
  let q := abs (st s) in
  if pallowed q c then
    existsb (fun pk => match prun q (fst pk) with
                       | Some q' => pstate_eqb q' (abs (st (api_st s c f)))
                                    && result_fits c (snd pk) (api_res s c f)
                       | None => false
                       end) (call_paths q c)
  else tstate_eqb (api_st s c f) s && is_raise (api_res s c f) && is_nil (api_req s c f).

(* a call that first awaits the outstanding nowait sends = awaiting them ([awaited]), then the call
   with nothing outstanding and the fault positions shifted *)
Definition awaited (s : tstate) (f : fault) : tstate := fl_s (await_sends s f 0).
Definition awaited_n (s : tstate) (f : fault) : nat := fl_n (await_sends s f 0).
Definition fshift (f : fault) (k : nat) : fault :=
  match f with
  | Some (j, fk) =>
      if Nat.ltb (idx_nat j) k then None
      else match Nat.sub (idx_nat j) k with
           | O => Some (I0, fk) | 1%nat => Some (I1, fk) | 2%nat => Some (I2, fk) | _ => Some (I3, fk)
           end
  | None => None
  end.

Definition refines_step_b (s : tstate) (c : call) (f : fault) : bool :=
  if awaits_first s c then
    let s1 := awaited s f in
    let f1 := fshift f (awaited_n s f) in
    wfb s1 && negb (pending s1)
    && (pstate_eqb (abs (st s1)) PInTxn || pstate_eqb (abs (st s1)) PAbortableError
        || pstate_eqb (abs (st s1)) PFatalError)
    && tstate_eqb (api_st s c f) (api_st s1 c f1) && result_eqb (api_res s c f) (api_res s1 c f1)
  else refines_direct_b s c f.

Lemma refines_step_sweep : wsweep refines_step_b = true.
Proof. vm_compute. reflexivity. Qed.

(* does anything stay outstanding after the call *)
Definition next_o (o : bool) (q : pstate) (c : call) : bool :=
  if is_nw c then o || pallowed q c else false.
Lemma pending_next_b :
  wsweep (fun s c f => Bool.eqb (pending (api_st s c f)) (next_o (pending s) (abs (st s)) c)) = true.
Proof. vm_compute. reflexivity. Qed.
Lemma pending_next s c f :
  wfb s = true -> pending (api_st s c f) = next_o (pending s) (abs (st s)) c.
Proof. intros W. apply eqb_prop. exact (wsweep_sound _ pending_next_b s c f W). Qed.

(* observation of a run: the calls with "did it return normally" *)
Definition accepted (r : result) : bool := negb (is_error r).

(* runs of the specification: every allowed call follows one of its documented event paths of the
   7-state automaton and its result fits the path; a call the protocol does not allow changes
   nothing and is refused.  The flag says whether nowait sends are outstanding: when the application
   awaits them before a call that does not end the transaction, their abortable / fatal error may
   surface first ([sr_async]). *)
Inductive spec_run : pstate -> bool -> list (call * result) -> pstate -> Prop :=
| sr_nil q o : spec_run q o [] q
| sr_legal q o c r path k q' rest q'' :
    pallowed q c = true -> In (path, k) (call_paths q c) -> prun q path = Some q' ->
    result_fits c k r = true -> spec_run q' (next_o o q c) rest q'' -> spec_run q o ((c, r) :: rest) q''
| sr_illegal q o c e rest q'' :
    pallowed q c = false -> spec_run q (next_o o q c) rest q'' -> spec_run q o ((c, RRaise e) :: rest) q''
| sr_async c r rest q1 q'' :
    is_end c = false -> is_nw c = false ->
    (pstep PInTxn PAbortableErr = Some q1 \/ pstep PInTxn PFatalErr = Some q1) ->
    spec_run q1 false ((c, r) :: rest) q'' -> spec_run PInTxn true ((c, r) :: rest) q''.

Definition observe (s : tstate) (cs : list (call * fault)) : list (call * result) :=
  combine (map fst cs) (map fst (fst (run s cs))).

Lemma run_cons s c f rest :
  run s ((c, f) :: rest) =
  ((api_res s c f, api_req s c f) :: fst (run (api_st s c f) rest), snd (run (api_st s c f) rest)).
Proof.
  simpl. rewrite (api_split s c f). destruct (run (api_st s c f) rest) as [o sf]. reflexivity.
Qed.

Lemma observe_cons s c f rest :
  observe s ((c, f) :: rest) = (c, api_res s c f) :: observe (api_st s c f) rest.
Proof. unfold observe. rewrite run_cons. reflexivity. Qed.

Lemma spec_run_flag q c r rest q'' :
  is_nw c = false -> spec_run q false ((c, r) :: rest) q'' -> spec_run q true ((c, r) :: rest) q''.
Proof.
  intros N H. inversion H; subst.
  - eapply sr_legal; eauto. unfold next_o in *. rewrite N in *. assumption.
  - eapply sr_illegal; eauto. unfold next_o in *. rewrite N in *. assumption.
Qed.

Lemma pending_in_txn s : pending s = true -> st s = IN_TXN.
Proof. unfold pending. destruct (st s); try discriminate; reflexivity. Qed.

(* one direct step on top of a specification run of the rest *)
Lemma step_direct s c f obs qf :
  wfb s = true -> awaits_first s c = false ->
  spec_run (abs (st (api_st s c f))) (pending (api_st s c f)) obs qf ->
  spec_run (abs (st s)) (pending s) ((c, api_res s c f) :: obs) qf.
Proof.
  intros W AF R.
  pose proof (wsweep_sound _ refines_step_sweep s c f W) as P.
  unfold refines_step_b in P. rewrite AF in P. unfold refines_direct_b in P.
  rewrite (pending_next s c f W) in R.
  destruct (pallowed (abs (st s)) c) eqn:A.
  - apply existsb_exists in P. destruct P as [[path k] [Hin Hp]]. simpl in Hp.
    destruct (prun (abs (st s)) path) as [q'|] eqn:RR; [|discriminate].
    apply andb_prop in Hp. destruct Hp as [Hq Hr]. apply eqb_of_true in Hq. subst q'.
    eapply sr_legal; eauto.
  - apply andb_prop in P. destruct P as [P _]. apply andb_prop in P. destruct P as [P Q].
    apply eqb_of_true in P.
    destruct (api_res s c f) eqn:RR; try discriminate.
    rewrite P in R. apply sr_illegal; assumption.
Qed.

Lemma refines_spec : forall cs s,
  wfb s = true ->
  spec_run (abs (st s)) (pending s) (observe s cs) (abs (st (snd (run s cs)))) /\ wfb (snd (run s cs)) = true.
Proof.
  induction cs as [|[c f] rest IH]; intros s W.
  - simpl. split; [constructor | exact W].
  - rewrite observe_cons, run_cons. simpl snd.
    pose proof (wf_preserved s c f W) as W'.
    destruct (IH _ W') as [IH1 IH2]. split; [| exact IH2].
    destruct (awaits_first s c) eqn:AF.
    + pose proof (wsweep_sound _ refines_step_sweep s c f W) as P.
      unfold refines_step_b in P. rewrite AF in P. cbv zeta in P.
      set (s1 := awaited s f) in *. set (f1 := fshift f (awaited_n s f)) in *.
      apply andb_prop in P. destruct P as [P ER]. apply andb_prop in P. destruct P as [P ES].
      apply andb_prop in P. destruct P as [P Q]. apply andb_prop in P. destruct P as [W1 NP].
      apply eqb_of_true in ES. apply eqb_of_true in ER.
      apply negb_true_iff in NP.
      unfold awaits_first in AF. apply andb_prop in AF. destruct AF as [AF NW].
      apply andb_prop in AF. destruct AF as [PD NE].
      apply negb_true_iff in NW. apply negb_true_iff in NE.
      rewrite PD. rewrite (pending_in_txn s PD). simpl abs.
      rewrite ES, ER in *.
      assert (AF1 : awaits_first s1 c = false) by (unfold awaits_first; rewrite NP; reflexivity).
      pose proof (step_direct s1 c f1 _ _ W1 AF1 IH1) as D. rewrite NP in D.
      apply orb_prop in Q. destruct Q as [Q|Q]; [apply orb_prop in Q; destruct Q as [Q|Q]|];
        apply eqb_of_true in Q; rewrite Q in D.
      * apply spec_run_flag; try assumption. Show. admit.
Abort.
