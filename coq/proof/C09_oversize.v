(* C09_oversize.v — with the Python limit predicate an uncompressed batch exceeds batch_size only
   when it holds a single record. *)
From Coq Require Import ZArith List Bool Lia ZifyBool.
From Verif Require Import C09Bytes C09_Varint C09_RecordV2 C09_Valid C09_v2.
Import ListNotations.
Open Scope Z_scope.

Definition fits (c : cfg) (acc : list record) : Prop :=
  (2 <= List.length acc)%nat -> HEADER_SIZE + blen (region_of acc) <= c_batch_size c.

Lemma run_spec_fits c : forall rs acc, fits c acc -> fits c (snd (run_spec Py c acc rs)).
Proof.
  induction rs as [|r rs IH]; intros acc Hinv; [exact Hinv|].
  cbn [run_spec]. destruct (refuses Py c acc r) eqn:E.
  - specialize (IH acc Hinv). destruct (run_spec Py c acc rs). exact IH.
  - assert (Hinv' : fits c (acc ++ [r])).
    { unfold fits. intros Hlen. rewrite region_snoc, blen_app.
      unfold refuses in E. destruct acc as [|r0 acc].
      - cbn in Hlen. lia.
      - cbn [nonempty andb] in E. lia. }
    specialize (IH (acc ++ [r]) Hinv'). destruct (run_spec Py c (acc ++ [r]) rs). exact IH.
Qed.

Theorem py_oversize_single c rs : Forall valid_rec rs ->
  let st := fst (appends Py c b_init rs) in
  let acc := accepted rs (snd (appends Py c b_init rs)) in
  c_batch_size c < size Py st -> (List.length acc <= 1)%nat.
Proof.
  intros Hrs st acc Hbig.
  destruct (appends_run Py c rs b_init [] repr_init (Forall_nil _) Hrs) as (st' & Happ & Hrep & Hv & Hacc).
  assert (Hst : st = st') by (subst st; rewrite Happ; reflexivity).
  assert (Hacc' : acc = snd (run_spec Py c [] rs)).
  { subst acc. rewrite Happ. cbn [snd]. rewrite Hacc. reflexivity. }
  assert (Hf : fits c acc).
  { rewrite Hacc'. apply run_spec_fits. unfold fits. cbn [List.length]. lia. }
  rewrite <- Hacc' in Hrep. rewrite <- Hst in Hrep.
  destruct Hrep as [Hbuf _ _ _ _ _].
  unfold size in Hbig. rewrite Hbuf in Hbig.
  destruct (le_lt_dec (List.length acc) 1) as [Hle|Hgt]; [exact Hle|].
  specialize (Hf ltac:(lia)). lia.
Qed.

(* the compiled predicate (offset != 0 and pos + size >= batch_size): when only the first record
   offered has offset 0 (offsets 0..n-1), a batch that reaches batch_size holds a single record *)
Definition fits_cy (c : cfg) (acc : list record) : Prop :=
  (2 <= List.length acc)%nat -> HEADER_SIZE + blen (region_of acc) < c_batch_size c.

Lemma run_spec_fits_cy c : forall rs acc,
  Forall (fun r => r_offset r <> 0) rs -> fits_cy c acc -> fits_cy c (snd (run_spec Cy c acc rs)).
Proof.
  induction rs as [|r rs IH]; intros acc Hoff Hinv; [exact Hinv|].
  inversion Hoff as [|r' rs' Hr Hrs]; subst.
  cbn [run_spec]. destruct (refuses Cy c acc r) eqn:E.
  - specialize (IH acc Hrs Hinv). destruct (run_spec Cy c acc rs). exact IH.
  - assert (Hinv' : fits_cy c (acc ++ [r])).
    { unfold fits_cy. intros Hlen. rewrite region_snoc, blen_app.
      unfold refuses in E. replace (r_offset r =? 0) with false in E by lia. cbn [negb andb] in E. lia. }
    specialize (IH (acc ++ [r]) Hrs Hinv'). destruct (run_spec Cy c (acc ++ [r]) rs). exact IH.
Qed.

Theorem cy_oversize_single c r0 rs : Forall valid_rec (r0 :: rs) ->
  Forall (fun r => r_offset r <> 0) rs ->
  let st := fst (appends Cy c b_init (r0 :: rs)) in
  let acc := accepted (r0 :: rs) (snd (appends Cy c b_init (r0 :: rs))) in
  c_batch_size c <= size Cy st -> (List.length acc <= 1)%nat.
Proof.
  intros Hrs Hoff st acc Hbig.
  destruct (appends_run Cy c (r0 :: rs) b_init [] repr_init (Forall_nil _) Hrs) as (st' & Happ & Hrep & Hv & Hacc).
  assert (Hst : st = st') by (subst st; rewrite Happ; reflexivity).
  assert (Hacc' : acc = snd (run_spec Cy c [] (r0 :: rs))).
  { subst acc. rewrite Happ. cbn [snd]. rewrite Hacc. reflexivity. }
  assert (Hf : fits_cy c acc).
  { rewrite Hacc'. cbn [run_spec]. destruct (refuses Cy c [] r0).
    - pose proof (run_spec_fits_cy c rs [] Hoff) as H. destruct (run_spec Cy c [] rs). apply H.
      unfold fits_cy. cbn [List.length]. lia.
    - pose proof (run_spec_fits_cy c rs ([] ++ [r0]) Hoff) as H. destruct (run_spec Cy c ([] ++ [r0]) rs). apply H.
      unfold fits_cy. cbn [List.length app]. lia. }
  rewrite <- Hacc' in Hrep. rewrite <- Hst in Hrep.
  destruct Hrep as [Hbuf Hpos _ _ _ _].
  unfold size in Hbig. rewrite Hpos, Hbuf in Hbig.
  destruct (le_lt_dec (List.length acc) 1) as [Hle|Hgt]; [exact Hle|].
  specialize (Hf ltac:(lia)). lia.
Qed.
