(* C10_refute.v — the faithful models of the readers AS PINNED violate the universal statements:
   concrete witnesses, closed by vm_compute.  Each witness is replayed on the real extension
   (AddressSanitizer build) and on the real pure-Python classes by harness/c10.py (corpus/C10). *)
From Coq Require Import ZArith List String Bool.
From Verif Require Import C10_Base C10_DecodeSafeCy C10_DecodeSafePy.
Import ListNotations.
Open Scope Z_scope.
Open Scope string_scope.

Definition C := crc32c_cast.
Definition C2 := crc32_ieee.
(* no codec is needed for the first witnesses *)
Definition D0 : Z -> list Z -> dres := fun _ _ => DRaise "no-codec".

(* a 26-byte magic-2 frame (length field 14): _read_header reads up to byte 61 *)
Definition w_hdr := of_hex "00000000000000000000000e0000000002000000000000000000".
(* a 61-byte v2 header announcing one record, followed by the single byte 0x80 *)
Definition w_varint := of_hex "00000000000000000000003200000000020000000000000000000000000000000000000000000000000000ffffffffffffffffffffffffffff0000000180".
(* one record whose key length is 2^63-20 / 2^63-59: pos + size wraps in _check_bounds *)
Definition w_ovf := of_hex "00000000000000000000003f00000000020000000000000000000000000000000000000000000000000000ffffffffffffffffffffffffffff0000000100000000d8ffffffffffffffff01616263".
Definition w_mem := of_hex "00000000000000000000003f00000000020000000000000000000000000000000000000000000000000000ffffffffffffffffffffffffffff00000001000000008affffffffffffffff01616263".
(* a v0 message whose key length is -2 *)
Definition w_neg := of_hex "00000000000000000000000e000000000000fffffffe00000000".
(* a 26-byte v0 message whose 4-byte key ends the buffer: the value length is read past the end *)
Definition w_vlen := of_hex "00000000000000000000000e0000000000000000000461626364".
(* a v1 wrapper message marked gzip; the codec is abstract: what it returns is chosen below *)
Definition w_wrap := of_hex "0000000000000007000000180000000001010000000000000005ffffffff000000021f8b".
Definition D5 : Z -> list Z -> dres := fun _ _ => DOk [49; 50; 51; 52; 53].      (* 5-byte payload *)
Definition DE : Z -> list Z -> dres := fun _ _ => DOk [].                        (* empty payload *)
Definition DH : Z -> list Z -> dres :=                                           (* inner length -12 *)
  fun _ _ => DOk (of_hex "0000000000000000fffffff400000000000000000000000000000000000000000000").

Lemma w_hdr_cur : cy_decode C C2 D0 fx_current false w_hdr = ([], SFail (FOOB "default_records._read_header" 0 23 4 26)).
Proof. vm_compute. reflexivity. Qed.
Lemma w_varint_cur : cy_decode C C2 D0 fx_current false w_varint = ([], SFail (FOOB "cutil.decode_varint64" 0 62 1 62)).
Proof. vm_compute. reflexivity. Qed.
Lemma w_ovf_cur : cy_decode C C2 D0 fx_current false w_ovf = ([], SFail (FInternal "default_records._read_msg" "OverflowError")).
Proof. vm_compute. reflexivity. Qed.
Lemma w_mem_cur : cy_decode C C2 D0 fx_current false w_mem = ([], SFail (FInternal "default_records._read_msg" "MemoryError")).
Proof. vm_compute. reflexivity. Qed.
Lemma w_neg_cur : cy_decode C C2 D0 fx_current false w_neg = ([], SFail (FInternal "legacy_records._read_record" "SystemError")).
Proof. vm_compute. reflexivity. Qed.
Lemma w_vlen_cur : cy_decode C C2 D0 fx_current false w_vlen = ([], SFail (FOOB "legacy_records._read_record" 0 26 4 26)).
Proof. vm_compute. reflexivity. Qed.
Lemma w_last5_cur : cy_decode C C2 D5 fx_current false w_wrap = ([], SFail (FOOB "legacy_records._read_last_offset" 1 8 4 5)).
Proof. vm_compute. reflexivity. Qed.
Lemma w_last0_cur : cy_decode C C2 DE fx_current false w_wrap = ([], SFail (FOOB "legacy_records._read_last_offset" 1 (-12) 8 0)).
Proof. vm_compute. reflexivity. Qed.
Lemma w_hang_cy_cur : cy_decode C C2 DH fx_current false w_wrap = ([], SFail (FFuel "legacy_records._read_last_offset")).
Proof. vm_compute. reflexivity. Qed.
Lemma w_hang_py_cur : py_decode C C2 DH fx_current false w_wrap = ([], SFail (FFuel "legacy_records.py._read_all_headers")).
Proof. vm_compute. reflexivity. Qed.

(* the same inputs on the repaired readers: CorruptRecordException *)
Lemma witnesses_repaired :
  map (fun b => snd (cy_decode C C2 D0 fx_repaired false b)) [w_hdr; w_varint; w_ovf; w_mem; w_neg; w_vlen]
  = repeat (SFail (FRaise Corrupt)) 6
  /\ map (fun d => snd (cy_decode C C2 d fx_repaired false w_wrap)) [D5; DE; DH] = repeat (SFail (FRaise Corrupt)) 3
  /\ snd (py_decode C C2 DH fx_repaired false w_wrap) = SFail (FRaise Corrupt).
Proof. vm_compute. repeat split; reflexivity. Qed.

(* every proposed patch is necessary: with all flags on except one, its witness still fails *)
Definition fx_but_hdr := Build_fixes false true true true true true.
Definition fx_but_varint := Build_fixes true false true true true true.
Definition fx_but_bounds := Build_fixes true true false true true true.
Definition fx_but_vlen := Build_fixes true true true false true true.
Definition fx_but_lastoff := Build_fixes true true true true false true.
Definition fx_but_pyhdrs := Build_fixes true true true true true false.

Lemma each_fix_needed :
  snd (cy_decode C C2 D0 fx_but_hdr false w_hdr) = SFail (FOOB "default_records._read_header" 0 23 4 26)
  /\ snd (cy_decode C C2 D0 fx_but_varint false w_varint) = SFail (FOOB "cutil.decode_varint64" 0 62 1 62)
  /\ snd (cy_decode C C2 D0 fx_but_bounds false w_ovf) = SFail (FInternal "default_records._read_msg" "OverflowError")
  /\ snd (cy_decode C C2 D0 fx_but_bounds false w_neg) = SFail (FInternal "legacy_records._read_record" "SystemError")
  /\ snd (cy_decode C C2 D0 fx_but_vlen false w_vlen) = SFail (FOOB "legacy_records._read_record" 0 26 4 26)
  /\ snd (cy_decode C C2 D5 fx_but_lastoff false w_wrap) = SFail (FOOB "legacy_records._read_last_offset" 1 8 4 5)
  /\ snd (cy_decode C C2 DH fx_but_lastoff false w_wrap) = SFail (FFuel "legacy_records._read_last_offset")
  /\ snd (py_decode C C2 DH fx_but_pyhdrs false w_wrap) = SFail (FFuel "legacy_records.py._read_all_headers").
Proof. vm_compute. repeat split; reflexivity. Qed.
