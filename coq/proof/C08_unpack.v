(* C08_unpack.v — the isolation filter is exact on every answer a broker can give for a
   well-formed log.  Loop invariant of the read_committed proof (lemma loop_rc):
     aborted_producers = producers having an aborted transaction of the index that started at or
     before the last batch handled and whose abort marker has not been passed,
     the queue = the index entries that start after that batch, sorted. *)
From Coq Require Import ZArith List Bool Lia ZifyBool Sorted.
From Verif Require Import Imp ConsumeAborted C08_Log C08_consume C08_wf.
Import ListNotations.
Open Scope Z_scope.
Ltac Zify.zify_post_hook ::= Z.to_euclidean_division_equations.

(* ------------------------------------------------------------------------------------------ *)
(** * sorted(aborted_transactions, key=first_offset) *)

Lemma insert_in : forall e l x, In x (insert_by_first e l) <-> x = e \/ In x l.
Proof.
  induction l as [|y l IH]; intros x; cbn.
  - intuition.
  - destruct (snd e <? snd y); cbn; [intuition|]. rewrite IH. intuition.
Qed.

Lemma insert_sorted : forall e l, q_sorted l -> q_sorted (insert_by_first e l).
Proof.
  unfold q_sorted. induction l as [|y l IH]; intros S; cbn.
  - constructor; constructor.
  - inversion S as [|? ? Sl Fy]; subst. destruct (snd e <? snd y) eqn:E.
    + constructor; [exact S|]. constructor; [unfold le_first; lia|].
      eapply Forall_impl; [|exact Fy]. unfold le_first. intros; lia.
    + constructor; [auto|]. apply Forall_forall. intros x I. apply insert_in in I.
      destruct I as [->|I]; [unfold le_first; lia|]. rewrite Forall_forall in Fy. auto.
Qed.

Lemma sort_fold : forall l acc, q_sorted acc ->
  q_sorted (fold_left (fun a e => insert_by_first e a) l acc) /\
  (forall x, In x (fold_left (fun a e => insert_by_first e a) l acc) <-> In x l \/ In x acc).
Proof.
  induction l as [|e l IH]; intros acc S; cbn.
  - split; [exact S|]. intuition.
  - destruct (IH (insert_by_first e acc) (insert_sorted _ _ S)) as (S' & I'). split; [exact S'|].
    intros x. rewrite I', insert_in. intuition.
Qed.

Lemma sort_sorted : forall l, q_sorted (sort_by_first l).
Proof. intros. apply sort_fold. constructor. Qed.

Lemma sort_in : forall l x, In x (sort_by_first l) <-> In x l.
Proof. intros. unfold sort_by_first. rewrite (proj2 (sort_fold l [] ltac:(constructor))). cbn. tauto. Qed.

(* ------------------------------------------------------------------------------------------ *)
(** * Lists *)

Lemma ss_app_r {A} (R : A -> A -> Prop) : forall l1 l2, StronglySorted R (l1 ++ l2) -> StronglySorted R l2.
Proof. induction l1; cbn; intros l2 H; [exact H|]. inversion H; subst. auto. Qed.

Lemma ss_app_l {A} (R : A -> A -> Prop) : forall l1 l2, StronglySorted R (l1 ++ l2) -> StronglySorted R l1.
Proof.
  induction l1; cbn; intros l2 H; [constructor|]. inversion H as [|? ? S F]; subst.
  constructor; [eauto|]. apply Forall_app in F. tauto.
Qed.

Lemma ss_app_cross {A} (R : A -> A -> Prop) : forall l1 l2 a b,
  StronglySorted R (l1 ++ l2) -> In a l1 -> In b l2 -> R a b.
Proof.
  induction l1; cbn; intros l2 x y H Ia Ib; [contradiction|].
  inversion H as [|? ? S F]; subst. destruct Ia as [->|Ia]; [|eauto].
  rewrite Forall_forall in F. apply F. apply in_or_app. auto.
Qed.

Lemma ss_filter {A} (R : A -> A -> Prop) (p : A -> bool) : forall l,
  StronglySorted R l -> StronglySorted R (filter p l).
Proof.
  induction l; cbn; intros H; [constructor|]. inversion H as [|? ? S F]; subst.
  destruct (p a); [|auto]. constructor; [auto|]. rewrite Forall_forall in *.
  intros x I. apply filter_In in I. apply F. tauto.
Qed.

Lemma filter_all {A} (p : A -> bool) : forall l, (forall x, In x l -> p x = true) -> filter p l = l.
Proof.
  induction l; cbn; intros H; [reflexivity|]. rewrite (H a (or_introl eq_refl)). f_equal.
  apply IHl. auto.
Qed.

Lemma filter_none {A} (p : A -> bool) : forall l, (forall x, In x l -> p x = false) -> filter p l = [].
Proof.
  induction l; cbn; intros H; [reflexivity|]. rewrite (H a (or_introl eq_refl)). apply IHl. auto.
Qed.

(* ------------------------------------------------------------------------------------------ *)
(** * Records of one batch *)

Lemma recs_ok_in : forall rs lo hi r, recs_ok lo hi rs -> In r rs -> lo <= r_off r <= hi.
Proof.
  induction rs as [|x rs IH]; cbn; intros lo hi r H I; [contradiction|].
  destruct H as (B & R). destruct I as [->|I]; [lia|]. specialize (IH _ _ _ R I). lia.
Qed.

Lemma take_recs_all : forall rs lo hi nfo, recs_ok lo hi rs -> nfo <= lo -> fst (take_recs nfo rs) = rs.
Proof.
  induction rs as [|x rs IH]; cbn; intros lo hi nfo H L; [reflexivity|].
  destruct H as (B & R). replace (r_off x <? nfo) with false by lia. cbn [fst]. f_equal.
  eapply IH; [exact R|lia].
Qed.

Lemma take_recs_filter : forall rs lo hi nfo, recs_ok lo hi rs ->
  fst (take_recs nfo rs) = filter (fun r => nfo <=? r_off r) rs.
Proof.
  induction rs as [|x rs IH]; cbn; intros lo hi nfo H; [reflexivity|].
  destruct H as (B & R). destruct (r_off x <? nfo) eqn:E.
  - replace (nfo <=? r_off x) with false by lia. eapply IH; exact R.
  - replace (nfo <=? r_off x) with true by lia. cbn [fst]. f_equal.
    rewrite (take_recs_all rs (r_off x + 1) hi (r_off x + 1) R ltac:(lia)). symmetry. apply filter_all.
    intros r I. pose proof (recs_ok_in _ _ _ _ R I). lia.
Qed.

Lemma take_recs_sub : forall rs nfo r, In r (fst (take_recs nfo rs)) -> In r rs.
Proof.
  induction rs as [|x rs IH]; cbn; intros nfo r I; [contradiction|].
  destruct (r_off x <? nfo); [right; eauto|]. cbn in I. destruct I as [->|I]; [auto|right; eauto].
Qed.

(* ------------------------------------------------------------------------------------------ *)
(** * One turn of the loop *)

Lemma decide_rc : forall b q ap,
  decide RC b q ap =
  let q1 := q_drop (b_base b) q in
  let ap1 := q_take (b_base b) q ++ ap in
  if b_ctl b then
    match b_recs b with
    | [] => (q1, ap1, Skip)
    | r :: _ => (q1, (if r_tag r =? 0 then ap_discard (b_pid b) ap1 else ap1), Skip)
    end
  else if b_txn b && ap_mem (b_pid b) ap1 then (q1, ap1, Skip) else (q1, ap1, Deliver).
Proof.
  intros. unfold decide, rc_block. rewrite (proj1 (consume_spec _ _)). cbn [fst snd].
  unfold contains_abort_marker, ABORT_TAG.
  destruct (b_ctl b) eqn:C.
  - destruct (b_recs b) as [|r rs].
    { destruct (b_txn b && ap_mem (b_pid b) (q_take (b_base b) q ++ ap)); cbn; rewrite ?C; reflexivity. }
    destruct (b_txn b && ap_mem (b_pid b)
               (if r_tag r =? 0 then ap_discard (b_pid b) (q_take (b_base b) q ++ ap)
                else q_take (b_base b) q ++ ap)); cbn; rewrite ?C; reflexivity.
  - destruct (b_txn b && ap_mem (b_pid b) (q_take (b_base b) q ++ ap)); cbn; rewrite ?C; reflexivity.
Qed.

Lemma decide_ru : forall b q ap,
  decide RU b q ap = if b_ctl b then (q, ap, Skip) else (q, ap, Deliver).
Proof. intros. unfold decide. cbn. destruct (b_ctl b); reflexivity. Qed.

Lemma loop_skip : forall i b bs q ap nfo q' ap',
  decide i b q ap = (q', ap', Skip) ->
  unpack_loop i (b :: bs) q ap nfo = unpack_loop i bs q' ap' (b_next b).
Proof. intros. cbn [unpack_loop]. rewrite H. reflexivity. Qed.

Lemma loop_deliver : forall i b bs q ap nfo q' ap',
  decide i b q ap = (q', ap', Deliver) ->
  unpack_loop i (b :: bs) q ap nfo =
  (fst (take_recs nfo (b_recs b)) ++ delivered (unpack_loop i bs q' ap' (b_next b)),
   position (unpack_loop i bs q' ap' (b_next b)), raised (unpack_loop i bs q' ap' (b_next b))).
Proof. intros. cbn [unpack_loop]. rewrite H. reflexivity. Qed.

Lemma ap_mem_in : forall p ap, ap_mem p ap = true <-> In p ap.
Proof.
  intros. unfold ap_mem. rewrite existsb_exists. split.
  - intros (x & I & E). assert (p = x) by lia. subst. exact I.
  - intros I. exists p. split; [exact I|lia].
Qed.

Lemma ap_mem_app : forall p a b, ap_mem p (a ++ b) = true <-> In p a \/ ap_mem p b = true.
Proof. intros. rewrite !ap_mem_in, in_app_iff. tauto. Qed.

Lemma ap_mem_discard : forall p x ap,
  ap_mem p (ap_discard x ap) = true <-> ap_mem p ap = true /\ p <> x.
Proof.
  intros. rewrite !ap_mem_in. unfold ap_discard. rewrite filter_In. split.
  - intros (I & N). split; [exact I|lia].
  - intros (I & N). split; [exact I|lia].
Qed.

(* ------------------------------------------------------------------------------------------ *)
(** * Statements that need no well-formedness at all *)

(* every delivered record comes out of a batch that is not a control batch *)
Lemma loop_no_markers : forall i bs q ap nfo r,
  In r (delivered (unpack_loop i bs q ap nfo)) ->
  exists b, In b bs /\ b_ctl b = false /\ In r (b_recs b).
Proof.
  induction bs as [|b bs IH]; intros q ap nfo r I; [cbn in I; contradiction|].
  destruct (decide i b q ap) as [[q' ap'] d] eqn:D. destruct d.
  - rewrite (loop_skip _ _ _ _ _ _ _ _ D) in I. destruct (IH _ _ _ _ I) as (x & Ix & R).
    exists x. split; [right; exact Ix|exact R].
  - rewrite (loop_deliver _ _ _ _ _ _ _ _ D) in I. unfold delivered at 1 in I. cbn [fst] in I.
    apply in_app_or in I. destruct I as [I|I].
    + exists b. split; [left; reflexivity|]. split; [|eapply take_recs_sub; exact I].
      destruct i.
      * rewrite decide_ru in D. destruct (b_ctl b); [discriminate|reflexivity].
      * rewrite decide_rc in D. cbv zeta in D. destruct (b_ctl b); [|reflexivity].
        destruct (b_recs b); discriminate.
    + destruct (IH _ _ _ _ I) as (x & Ix & R). exists x. split; [right; exact Ix|exact R].
  - cbn [unpack_loop] in I. rewrite D in I. cbn in I. contradiction.
Qed.

(* when the iterator stops normally the position is the end of the last batch handed to it *)
Lemma loop_position : forall i bs q ap nfo,
  raised (unpack_loop i bs q ap nfo) = false ->
  position (unpack_loop i bs q ap nfo) = match bs with [] => nfo | _ => b_next (last bs (mkbatch 0 0 0 false false [])) end.
Proof.
  induction bs as [|b bs IH]; intros q ap nfo R; [reflexivity|].
  destruct (decide i b q ap) as [[q' ap'] d] eqn:D. destruct d.
  - rewrite (loop_skip _ _ _ _ _ _ _ _ D) in *. rewrite (IH _ _ _ R). destruct bs; reflexivity.
  - rewrite (loop_deliver _ _ _ _ _ _ _ _ D) in *. unfold position at 1. unfold raised at 1 in R.
    cbn [fst snd] in *. rewrite (IH _ _ _ R). destruct bs; reflexivity.
  - cbn [unpack_loop] in R. rewrite D in R. cbn in R. discriminate.
Qed.

(* the only way to raise: a control batch without a record, at read_committed *)
Lemma loop_raised : forall i bs q ap nfo,
  raised (unpack_loop i bs q ap nfo) = true ->
  i = RC /\ exists b, In b bs /\ b_ctl b = true /\ b_recs b = [].
Proof.
  induction bs as [|b bs IH]; intros q ap nfo R; [cbn in R; discriminate|].
  destruct (decide i b q ap) as [[q' ap'] d] eqn:D. destruct d.
  - rewrite (loop_skip _ _ _ _ _ _ _ _ D) in R. destruct (IH _ _ _ R) as (E & x & I & C).
    split; [exact E|]. exists x. split; [right; exact I|exact C].
  - rewrite (loop_deliver _ _ _ _ _ _ _ _ D) in R. unfold raised at 1 in R. cbn [snd] in R.
    destruct (IH _ _ _ R) as (E & x & I & C).
    split; [exact E|]. exists x. split; [right; exact I|exact C].
  - destruct i.
    + rewrite decide_ru in D. destruct (b_ctl b); discriminate.
    + split; [reflexivity|]. exists b. split; [left; reflexivity|].
      rewrite decide_rc in D. cbv zeta in D. destruct (b_ctl b).
      * destruct (b_recs b); [auto|discriminate].
      * destruct (b_txn b && _); discriminate.
Qed.

(* ------------------------------------------------------------------------------------------ *)
(** * The response is a contiguous run of the log *)

Definition in_range (f bnd : Z) (b : batch) : bool := (f <=? b_last b) && (b_last b <? bnd).

Lemma filter_range_split : forall f bnd l,
  StronglySorted before l -> (forall b, In b l -> b_base b <= b_last b) ->
  exists pre post, l = pre ++ filter (in_range f bnd) l ++ post /\
                   (forall b, In b pre -> b_last b < f).
Proof.
  intros f bnd. induction l as [|x l IH]; intros S Ok.
  - exists [], []. split; [reflexivity|]. intros b [].
  - inversion S as [|? ? Sl Fx]; subst. rewrite Forall_forall in Fx.
    destruct (IH Sl ltac:(intros; apply Ok; right; auto)) as (pre & post & E & P).
    cbn [filter]. unfold in_range at 1.
    destruct (f <=? b_last x) eqn:E1; cbn [andb].
    + (* nothing after x ends below f *)
      assert (pre = []).
      { destruct pre as [|y pre]; [reflexivity|]. exfalso.
        assert (Iy : In y l) by (rewrite E; left; reflexivity).
        specialize (Fx _ Iy). unfold before in Fx. specialize (P y (or_introl eq_refl)).
        specialize (Ok y (or_intror Iy)). lia. }
      subst pre. cbn [app] in E. destruct (b_last x <? bnd) eqn:E2.
      * exists [], post. split; [cbn; f_equal; exact E|]. intros b [].
      * exists [], (x :: l). split; [|intros b []]. cbn [app].
        rewrite (filter_none (in_range f bnd) l); [reflexivity|].
        intros y Iy. specialize (Fx _ Iy). unfold before in Fx. specialize (Ok y (or_intror Iy)).
        unfold in_range. lia.
    + exists (x :: pre), post. split; [cbn; f_equal; exact E|].
      intros b [<-|I]; [lia|auto].
Qed.

Lemma response_split : forall s bnd f k, inv s ->
  exists pre post, batches s = pre ++ response s bnd f k ++ post /\
                   (forall b, In b pre -> b_last b < f) /\
                   (forall b, In b (response s bnd f k) -> f <= b_last b /\ b_last b < bnd).
Proof.
  intros s bnd f k H. unfold response. fold (in_range f bnd).
  destruct (filter_range_split f bnd (batches s) (batches_sorted s H)) as (pre & post & E & P).
  { intros b I. destruct (batch_in_ok s H b I) as (((? & ?) & _) & _). lia. }
  exists pre, (skipn k (filter (in_range f bnd) (batches s)) ++ post).
  split; [|split; [exact P|]].
  - rewrite (app_assoc (firstn k (filter (in_range f bnd) (batches s)))), firstn_skipn. exact E.
  - intros b I. assert (I' : In b (filter (in_range f bnd) (batches s))).
    { rewrite <- (firstn_skipn k). apply in_or_app. auto. }
    apply filter_In in I'. unfold in_range in I'. lia.
Qed.

(* ------------------------------------------------------------------------------------------ *)
(** * read_committed *)

Section RCProof.
  Variable s : lstate.
  Hypothesis Hinv : inv s.
  Variables (f : Z) (idx : list (Z * Z)) (pre resp post : list batch).
  Hypothesis Hsplit : batches s = pre ++ resp ++ post.
  Hypothesis Hpre : forall b, In b pre -> b_last b < f.
  Hypothesis Hresp : forall b, In b resp -> f <= b_last b /\ b_last b < lso s.
  Hypothesis Hidx : index_ok s f resp idx.

  (* producer p has an aborted transaction of the index that contains offset g *)
  Definition apf (g p : Z) : Prop :=
    exists t, In t (dne s) /\ In (t_pid t, t_first t) idx /\ t_pid t = p /\
              t_first t <= g < t_last t.

  Lemma idx_txn : forall t, In t (dne s) -> In (t_pid t, t_first t) idx ->
    t_commit t = false /\ f <= t_last t.
  Proof.
    intros t I J. destruct (proj1 Hidx _ J) as (t' & I' & C & E & L).
    injection E as P F. rewrite (txn_key_unique s Hinv t t' I I' P F). auto.
  Qed.

  Lemma idx_entry : forall e, In e idx -> exists t, In t (dne s) /\ e = (t_pid t, t_first t).
  Proof. intros e J. destruct (proj1 Hidx _ J) as (t & I & _ & E & _). eauto. Qed.

  Lemma resp_in_log : forall b, In b resp -> In b (batches s).
  Proof. intros. rewrite Hsplit. apply in_or_app. right. apply in_or_app. auto. Qed.

  Lemma marker_in_log : forall t, In t (dne s) ->
    In (marker_batch (t_last t) (t_pid t) (t_commit t)) (batches s).
  Proof. intros. apply batches_in. apply (i_done_marker s Hinv). assumption. Qed.

  Lemma loop_rc : forall todo done g q ap nfo,
    resp = done ++ todo ->
    (forall b, In b done -> b_base b <= g) ->
    (forall b, In b todo -> g < b_base b) ->
    q_sorted q ->
    (forall e, In e q <-> In e idx /\ g < snd e) ->
    (forall p, ap_mem p ap = true <-> apf g p) ->
    (forall b r, In b todo -> In r (b_recs b) -> (nfo <= r_off r <-> f <= r_off r)) ->
    delivered (unpack_loop RC todo q ap nfo) = view_of s RC f (lso s) todo /\
    raised (unpack_loop RC todo q ap nfo) = false.
  Proof.
    induction todo as [|b todo IH]; intros done g q ap nfo Hr Hd Ht Hqs Hq Hap Hn.
    - split; reflexivity.
    - assert (Ib : In b resp) by (rewrite Hr; apply in_or_app; right; left; reflexivity).
      pose proof (resp_in_log b Ib) as Ilog.
      destruct (batch_in_ok s Hinv b Ilog) as (((B0 & B1) & Brecs & Bctl) & _).
      destruct (Hresp b Ib) as (Bf & Blso).
      pose proof (Ht b (or_introl eq_refl)) as Hgb.
      pose proof (batches_sorted s Hinv) as Sorted.
      assert (Hsplit' : batches s = (pre ++ done) ++ b :: (todo ++ post)).
      { rewrite Hsplit, Hr, <- !app_assoc. reflexivity. }
      (* later batches start after b *)
      assert (Hafter : forall x, In x (todo ++ post) -> b_last b < b_base x).
      { intros x Ix. rewrite Hsplit' in Sorted. apply ss_app_r in Sorted.
        inversion Sorted as [|? ? _ F]; subst. rewrite Forall_forall in F. exact (F _ Ix). }
      (* contiguity: an index transaction not yet finished at the fence ends at or after b *)
      assert (Hcont : forall t, In t (dne s) -> In (t_pid t, t_first t) idx -> g < t_last t ->
                      b_base b <= t_last t).
      { intros t It Jt Lg. destruct (idx_txn t It Jt) as (_ & Lf).
        destruct (Z_lt_le_dec (t_last t) (b_base b)) as [Lt|]; [exfalso|assumption].
        pose proof (marker_in_log t It) as Im. rewrite Hsplit' in Im.
        apply in_app_or in Im. destruct Im as [Im|[Im|Im]].
        - apply in_app_or in Im. destruct Im as [Im|Im].
          + specialize (Hpre _ Im). unfold marker_batch in Hpre. cbn in Hpre. lia.
          + specialize (Hd _ Im). unfold marker_batch in Hd. cbn in Hd. lia.
        - rewrite Im in Lt. unfold marker_batch in Lt. cbn in Lt. lia.
        - specialize (Hafter _ Im). unfold marker_batch in Hafter. cbn in Hafter. lia. }
      (* the marker of an index transaction that ends exactly at b is b itself *)
      assert (Hmark : forall t, In t (dne s) -> In (t_pid t, t_first t) idx -> t_last t = b_base b ->
                      b = marker_batch (t_last t) (t_pid t) false).
      { intros t It Jt E. destruct (idx_txn t It Jt) as (C & _). rewrite <- C.
        apply (same_base_same_batch s Hinv); [exact Ilog|apply marker_in_log; exact It|].
        unfold marker_batch. cbn. lia. }
      (* the producer set after _consume_aborted_up_to(b.base_offset) *)
      set (ap1 := q_take (b_base b) q ++ ap).
      assert (Hap1 : forall p, ap_mem p ap1 = true <->
                     exists t, In t (dne s) /\ In (t_pid t, t_first t) idx /\ t_pid t = p /\
                               t_first t <= b_base b <= t_last t).
      { intros p. unfold ap1. rewrite ap_mem_app, (q_take_sorted _ _ _ Hqs), Hap. split.
        - intros [(e & Ie & Fe & Se)|(t & It & Jt & Pt & Rt)].
          + apply Hq in Ie. destruct Ie as (Je & Ge).
            destruct (idx_entry e Je) as (t & It & ->). cbn in *.
            exists t. repeat split; auto. apply Hcont; auto.
            pose proof (i_done_range s Hinv t It). lia.
          + exists t. repeat split; auto; [lia|]. apply Hcont; auto. lia.
        - intros (t & It & Jt & Pt & Rt).
          destruct (Z_le_gt_dec (t_first t) g) as [Le|Gt].
          + right. exists t. repeat split; auto. lia.
          + left. exists (t_pid t, t_first t). cbn. repeat split; auto; [|lia].
            apply Hq. cbn. split; [exact Jt|lia]. }
      (* the state handed to the rest of the loop satisfies the invariant at fence b.base *)
      assert (Hnext : forall ap2,
                (forall p, ap_mem p ap2 = true <-> apf (b_base b) p) ->
                delivered (unpack_loop RC todo (q_drop (b_base b) q) ap2 (b_next b)) =
                  view_of s RC f (lso s) todo /\
                raised (unpack_loop RC todo (q_drop (b_base b) q) ap2 (b_next b)) = false).
      { intros ap2 Hap2. apply (IH (done ++ [b]) (b_base b)).
        - rewrite Hr, <- app_assoc. reflexivity.
        - intros x Ix. apply in_app_or in Ix. destruct Ix as [Ix|[<-|[]]]; [|lia].
          specialize (Hd _ Ix). lia.
        - intros x Ix. specialize (Hafter x (in_or_app _ _ _ (or_introl Ix))). lia.
        - apply q_drop_keeps_sorted. exact Hqs.
        - intros e. rewrite (q_drop_sorted _ _ _ Hqs), Hq. intuition lia.
        - exact Hap2.
        - intros x r Ix Ir. specialize (Hafter x (in_or_app _ _ _ (or_introl Ix))).
          assert (Ixr : In x resp) by (rewrite Hr; apply in_or_app; right; right; exact Ix).
          destruct (batch_in_ok s Hinv x (resp_in_log x Ixr)) as ((_ & Rx & _) & _).
          pose proof (recs_ok_in _ _ _ _ Rx Ir). unfold b_next. lia. }
      (* no index transaction ends exactly at a batch that is not its abort marker *)
      assert (Hplain : (b_ctl b = false \/ exists r rs, b_recs b = r :: rs /\ r_tag r <> 0) ->
                       forall p, ap_mem p ap1 = true <-> apf (b_base b) p).
      { intros Hnm p. rewrite Hap1. unfold apf. split.
        - intros (t & It & Jt & Pt & Rt). exists t. repeat split; auto; [lia|].
          destruct (Z.eq_dec (t_last t) (b_base b)) as [E|]; [exfalso|lia].
          pose proof (Hmark t It Jt E) as Eb. destruct Hnm as [C|(r & rs & Er & Nr)].
          + rewrite Eb in C. cbn in C. discriminate.
          + rewrite Eb in Er. cbn in Er. injection Er as <- _. cbn in Nr. unfold ABORT_TAG in Nr. lia.
        - intros (t & It & Jt & Pt & Rt). exists t. repeat split; auto; lia. }
      cbn [view_of flat_map]. fold (view_of s RC f (lso s) todo).
      destruct (b_ctl b) eqn:C.
      + (* control batch: never delivered; an abort marker ends the producer's aborted state *)
        destruct (Bctl eq_refl) as (El & tag & Er).
        assert (Dl : deliverable s RC b = false) by (unfold deliverable; rewrite C; reflexivity).
        rewrite Dl. cbn [app].
        assert (D : decide RC b q ap =
                    (q_drop (b_base b) q,
                     (if tag =? 0 then ap_discard (b_pid b) ap1 else ap1), Skip)).
        { rewrite decide_rc. cbv zeta. rewrite C, Er. reflexivity. }
        rewrite (loop_skip _ _ _ _ _ _ _ _ D). apply Hnext.
        destruct (tag =? 0) eqn:T.
        * intros p. rewrite ap_mem_discard, Hap1. unfold apf. split.
          -- intros ((t & It & Jt & Pt & Rt) & Np). exists t. repeat split; auto; [lia|].
             destruct (Z.eq_dec (t_last t) (b_base b)) as [E|]; [exfalso|lia].
             pose proof (Hmark t It Jt E) as Eb. apply Np. rewrite Eb. cbn. auto.
          -- intros (t & It & Jt & Pt & Rt). split.
             ++ exists t. repeat split; auto; lia.
             ++ intros ->. pose proof (proj1 (i_ctl s Hinv b (proj1 (batches_in s b) Ilog) C) t It Pt).
                lia.
        * apply Hplain. right. exists (mkrec (b_base b) tag), []. split; [exact Er|]. cbn. lia.
      + (* data batch *)
        pose proof (Hplain (or_introl eq_refl)) as Hap1'.
        assert (Hrecs : fst (take_recs nfo (b_recs b)) =
                        filter (fun r => (f <=? r_off r) && (r_off r <? lso s)) (b_recs b)).
        { rewrite (take_recs_filter _ _ _ _ Brecs). apply filter_ext_in. intros r Ir.
          pose proof (recs_ok_in _ _ _ _ Brecs Ir).
          pose proof (Hn b r (or_introl eq_refl) Ir). lia. }
        destruct (b_txn b && ap_mem (b_pid b) ap1) eqn:Sk.
        * (* skipped as aborted *)
          assert (D : decide RC b q ap = (q_drop (b_base b) q, ap1, Skip)).
          { rewrite decide_rc. cbv zeta. rewrite C. fold ap1. rewrite Sk. reflexivity. }
          apply andb_prop in Sk. destruct Sk as (Tx & Mem).
          assert (Dt : is_data_txn b = true) by (unfold is_data_txn; rewrite Tx, C; reflexivity).
          assert (Ab : aborted s b = true).
          { apply Hap1' in Mem. destruct Mem as (t & It & Jt & Pt & Rt).
            destruct (idx_txn t It Jt) as (Ct & _).
            unfold aborted. rewrite Dt. cbn [andb]. apply existsb_exists. exists t.
            split; [exact It|]. rewrite Ct. unfold spans. lia. }
          assert (Dl : deliverable s RC b = false).
          { unfold deliverable. rewrite C, Tx. cbn.
            rewrite (below_lso_committed s Hinv b Ilog Blso Dt), Ab. reflexivity. }
          rewrite Dl. cbn [app]. rewrite (loop_skip _ _ _ _ _ _ _ _ D). apply Hnext. exact Hap1'.
        * (* delivered *)
          assert (D : decide RC b q ap = (q_drop (b_base b) q, ap1, Deliver)).
          { rewrite decide_rc. cbv zeta. rewrite C. fold ap1. rewrite Sk. reflexivity. }
          assert (Dl : deliverable s RC b = true).
          { unfold deliverable. rewrite C. cbn [negb andb].
            destruct (b_txn b) eqn:Tx; [|reflexivity]. cbn [negb orb]. cbn [andb] in Sk.
            assert (Dt : is_data_txn b = true) by (unfold is_data_txn; rewrite Tx, C; reflexivity).
            rewrite (below_lso_committed s Hinv b Ilog Blso Dt).
            destruct (aborted s b) eqn:Ab; [exfalso|reflexivity].
            unfold aborted in Ab. rewrite Dt in Ab. cbn [andb] in Ab.
            apply existsb_exists in Ab. destruct Ab as (t & It & Ct).
            apply andb_prop in Ct. destruct Ct as (Sp & Nc).
            assert (Jt : In (t_pid t, t_first t) idx).
            { apply (proj2 Hidx t b); auto. destruct (t_commit t); [discriminate|reflexivity]. }
            assert (Mem : ap_mem (b_pid b) ap1 = true).
            { apply Hap1'. exists t. unfold spans in Sp. repeat split; auto; lia. }
            congruence. }
          rewrite Dl. rewrite (loop_deliver _ _ _ _ _ _ _ _ D).
          unfold delivered at 1, raised at 1. cbn [fst snd].
          destruct (Hnext ap1 Hap1') as (Hd' & Hr'). rewrite Hd', Hr', Hrecs. split; reflexivity.
  Qed.

  Lemma rc_exact_split :
    delivered (unpack RC f idx resp) = view_of s RC f (lso s) resp /\
    raised (unpack RC f idx resp) = false.
  Proof.
    unfold unpack. apply (loop_rc resp [] (-1)).
    - reflexivity.
    - intros b [].
    - intros b I. destruct (batch_in_ok s Hinv b (resp_in_log b I)) as (((? & ?) & _) & _). lia.
    - apply sort_sorted.
    - intros e. rewrite sort_in. split; [|tauto]. intros J. split; [exact J|].
      destruct (idx_entry e J) as (t & It & ->). cbn. pose proof (i_done_range s Hinv t It). lia.
    - intros p. cbn. split; [discriminate|]. intros (t & It & _ & _ & R).
      pose proof (i_done_range s Hinv t It). lia.
    - tauto.
  Qed.
End RCProof.

(* ------------------------------------------------------------------------------------------ *)
(** * read_uncommitted *)

Section RUProof.
  Variable s : lstate.
  Hypothesis Hinv : inv s.
  Variables (f : Z) (resp : list batch).
  Hypothesis Hresp : forall b, In b resp -> In b (batches s) /\ f <= b_last b /\ b_last b < hw s.

  Lemma loop_ru : forall todo q ap nfo,
    StronglySorted before todo ->
    (forall b, In b todo -> In b resp) ->
    (forall b r, In b todo -> In r (b_recs b) -> (nfo <= r_off r <-> f <= r_off r)) ->
    delivered (unpack_loop RU todo q ap nfo) = view_of s RU f (hw s) todo /\
    raised (unpack_loop RU todo q ap nfo) = false.
  Proof.
    induction todo as [|b todo IH]; intros q ap nfo St Hin Hn.
    - split; reflexivity.
    - inversion St as [|? ? St' Fb]; subst. rewrite Forall_forall in Fb.
      destruct (Hresp b (Hin b (or_introl eq_refl))) as (Ilog & Bf & Bhw).
      destruct (batch_in_ok s Hinv b Ilog) as (((B0 & B1) & Brecs & Bctl) & _).
      assert (Hnext : delivered (unpack_loop RU todo q ap (b_next b)) = view_of s RU f (hw s) todo /\
                      raised (unpack_loop RU todo q ap (b_next b)) = false).
      { apply IH; [exact St'|intros; apply Hin; right; assumption|].
        intros x r Ix Ir. specialize (Fb _ Ix). unfold before in Fb.
        destruct (Hresp x (Hin x (or_intror Ix))) as (Ixlog & _).
        destruct (batch_in_ok s Hinv x Ixlog) as ((_ & Rx & _) & _).
        pose proof (recs_ok_in _ _ _ _ Rx Ir). unfold b_next. lia. }
      cbn [view_of flat_map]. fold (view_of s RU f (hw s) todo). unfold deliverable.
      pose proof (decide_ru b q ap) as D. destruct (b_ctl b) eqn:C.
      + rewrite (loop_skip _ _ _ _ _ _ _ _ D). cbn [negb andb app]. exact Hnext.
      + rewrite (loop_deliver _ _ _ _ _ _ _ _ D). unfold delivered at 1, raised at 1.
        cbn [fst snd negb andb]. destruct Hnext as (Hd & Hr). rewrite Hd, Hr.
        split; [|reflexivity]. f_equal.
        rewrite (take_recs_filter _ _ _ _ Brecs). apply filter_ext_in. intros r Ir.
        pose proof (recs_ok_in _ _ _ _ Brecs Ir).
        pose proof (Hn b r (or_introl eq_refl) Ir). unfold hw in *. lia.
  Qed.

  Lemma ru_exact_sorted : forall idx, StronglySorted before resp ->
    delivered (unpack RU f idx resp) = view_of s RU f (hw s) resp /\
    raised (unpack RU f idx resp) = false.
  Proof. intros idx St. unfold unpack. apply loop_ru; [exact St|auto|tauto]. Qed.
End RUProof.
