(* C09_split.v — the MemoryRecords splitter on concatenations of well-formed batches. *)
From Coq Require Import ZArith List Bool Lia ZifyBool.
From Verif Require Import C09Bytes C09_RecordV2 C09_MemRecords.
Import ListNotations.
Open Scope Z_scope.

(* a batch as far as the splitter is concerned: at least the 26 bytes of the smallest
   message, and a Length field (bytes 8..12) that says "everything after these 12 bytes" *)
Definition wf_batch (b : bytes) : Prop :=
  26 <= blen b /\ signed_be (slice 8 12 b) = blen b - 12.

(* what may follow the last complete batch: fewer than 12 bytes, or the beginning of a
   batch whose declared length (>= 14) exceeds what is there *)
Definition partial_ok (p : bytes) : Prop :=
  blen p < 12 \/ (14 <= signed_be (slice 8 12 p) /\ blen p < 12 + signed_be (slice 8 12 p)).

Definition tag (i : impl) (b : bytes) : Z * bytes := (magic_seen i (nth 16 b 0), b).

Lemma slice_app_l a b (x y : bytes) : 0 <= a -> b <= blen x -> slice a b (x ++ y) = slice a b x.
Proof.
  intros Ha Hb. unfold slice, blen in *.
  rewrite skipn_app. rewrite firstn_app.
  replace (Z.to_nat (b - a) - List.length (skipn (Z.to_nat a) x))%nat with 0%nat.
  - cbn [firstn]. apply app_nil_r.
  - rewrite skipn_length. lia.
Qed.

Lemma split_fuel_concat i p : partial_ok p -> forall bs fuel,
  Forall wf_batch bs -> (List.length bs < fuel)%nat ->
  split_fuel fuel i (concat bs ++ p) = (map (tag i) bs, Some p).
Proof.
  intros Hp. induction bs as [|b bs IH]; intros fuel Hwf Hfuel.
  - destruct fuel as [|fuel]; [cbn in Hfuel; lia|]. cbn [concat app map split_fuel].
    destruct Hp as [Hp|[Hp1 Hp2]].
    + replace (blen p <? 12) with true by lia. reflexivity.
    + destruct (blen p <? 12); [reflexivity|].
      replace (signed_be (slice 8 12 p) <? 14) with false by lia.
      replace (blen p <? 12 + signed_be (slice 8 12 p)) with true by lia.
      destruct i; reflexivity.
  - destruct fuel as [|fuel]; [cbn in Hfuel; lia|].
    inversion Hwf as [|b' bs' [Hb1 Hb2] Hbs]; subst.
    cbn [concat]. rewrite <- app_assoc. cbn [split_fuel].
    set (rest := concat bs ++ p).
    pose proof (blen_nonneg rest) as Hrest.
    rewrite blen_app.
    replace (blen b + blen rest <? 12) with false by lia.
    rewrite slice_app_l by lia. rewrite Hb2.
    replace (blen b - 12 <? 14) with false by lia.
    replace (12 + (blen b - 12)) with (blen b) by lia.
    replace (blen b + blen rest <? blen b) with false by lia.
    replace (blen b <? MIN_SLICE) with false by (unfold MIN_SLICE; lia).
    replace (Z.to_nat (blen b)) with (List.length b) by (unfold blen; lia).
    rewrite firstn_app_exact, skipn_app_exact.
    subst rest. rewrite IH by (cbn [List.length] in Hfuel; try assumption; lia).
    cbn [map]. unfold tag at 2. destruct i; reflexivity.
Qed.

Lemma concat_length_ge (bs : list bytes) : Forall wf_batch bs ->
  (List.length bs <= List.length (concat bs))%nat.
Proof.
  induction 1 as [|b bs [Hb _] _ IH]; [cbn; lia|].
  cbn [concat List.length]. rewrite app_length. unfold blen in Hb. lia.
Qed.

Theorem split_concat i bs p : Forall wf_batch bs -> partial_ok p ->
  split i (concat bs ++ p) = (map (tag i) bs, Some p).
Proof.
  intros Hwf Hp. unfold split. apply split_fuel_concat; try assumption.
  rewrite app_length. pose proof (concat_length_ge bs Hwf). lia.
Qed.

(* a proper prefix of a well-formed batch is an admissible trailing part *)
Lemma slice_firstn a b k (x : bytes) : 0 <= a -> b <= k -> slice a b (firstn (Z.to_nat k) x) = slice a b x.
Proof.
  intros Ha Hb.
  rewrite <- (firstn_skipn (Z.to_nat k) x) at 2.
  destruct (Z_lt_le_dec (blen x) k) as [Hlt|Hle].
  - rewrite firstn_all2 by (unfold blen in Hlt; lia).
    rewrite skipn_all2 by (unfold blen in Hlt; lia). rewrite app_nil_r. reflexivity.
  - symmetry. apply slice_app_l; [exact Ha|].
    unfold blen in *. rewrite firstn_length. lia.
Qed.

Theorem prefix_partial_ok b k : wf_batch b -> 0 <= k < blen b -> partial_ok (firstn (Z.to_nat k) b).
Proof.
  intros [Hb1 Hb2] Hk. unfold partial_ok.
  assert (Hl : blen (firstn (Z.to_nat k) b) = k).
  { unfold blen in *. rewrite firstn_length. lia. }
  rewrite Hl. destruct (Z_lt_le_dec k 12) as [Hlt|Hge]; [left; exact Hlt|right].
  rewrite slice_firstn by lia. rewrite Hb2. lia.
Qed.

(* ---- the original splitter (fixed buffer offset for the magic byte) ----------------------------- *)
From Verif Require Import C09_Legacy.

Definition witness_v2 : bytes :=
  build_records no_compress Py (mkCfg 2 0 false (-1) (-1) (-1) 16384) [mkRec 0 1000 (Some [107]) (Some [118]) []].
Definition witness_v1 : bytes := encode_msg 1 0 1001 (Some [107; 50]) (Some [118; 50]) 0.

Theorem split_fixed_refuted : exists bs,
  Forall wf_batch bs /\ split_fixed (concat bs ++ []) <> (map (tag Cy) bs, Some []).
Proof.
  exists [witness_v2; witness_v1]. split.
  - repeat constructor; vm_compute; try reflexivity; discriminate.
  - intro H. vm_compute in H. discriminate H.
Qed.

(* the faithful splitters do split this buffer correctly (instance of split_concat) *)
Example split_witness_ok : forall i,
  split i (concat [witness_v2; witness_v1] ++ []) = ([tag i witness_v2; tag i witness_v1], Some []).
Proof. intros i. destruct i; vm_compute; reflexivity. Qed.
