(* Reflection helpers: a closed boolean function of finitely many finite-type arguments is checked for all
   arguments by evaluation (vm_compute). *)
From Coq Require Import ZArith List Bool Arith Lia.
From Verif Require Import DispatchActs C06_Converge.
Import ListNotations.
Local Open Scope nat_scope.

Definition fb (f : bool -> bool) : bool := f true && f false.
Lemma fb_spec : forall f, fb f = true -> forall b, f b = true.
Proof. intros f H b. unfold fb in H. apply andb_true_iff in H. destruct H. destruct b; assumption. Qed.

Definition fst4 (f : cstate -> bool) : bool := f CEmpty && f CPreparing && f CCompleting && f CStable.
Lemma fst4_spec : forall f, fst4 f = true -> forall x, f x = true.
Proof. intros f H x. unfold fst4 in H. repeat (apply andb_true_iff in H; destruct H as [H ?]). destruct x; assumption. Qed.

Definition fph (f : phase -> bool) : bool := f PIdle && f PJoinSent && f PJoined && f PSyncSent.
Lemma fph_spec : forall f, fph f = true -> forall x, f x = true.
Proof. intros f H x. unfold fph in H. repeat (apply andb_true_iff in H; destruct H as [H ?]). destruct x; assumption. Qed.

Definition fck (f : ckst -> bool) : bool := f CkNone && f CkStale && f CkOk.
Lemma fck_spec : forall f, fck f = true -> forall x, f x = true.
Proof. intros f H x. unfold fck in H. repeat (apply andb_true_iff in H; destruct H as [H ?]). destruct x; assumption. Qed.

(* optional reply code from a finite list; any other code satisfies [f] because the premise [opt_in] fails *)
Definition fcode (l : list Z) (f : option Z -> bool) : bool := f None && forallb (fun z => f (Some z)) l.
Lemma fcode_spec : forall l f, fcode l f = true -> forall o, opt_in o l = true -> f o = true.
Proof.
  intros l f H o Ho. unfold fcode in H. apply andb_true_iff in H. destruct H as [Hn Hl].
  destruct o as [z|]; [|exact Hn]. simpl in Ho. unfold zmem in Ho. apply existsb_exists in Ho.
  destruct Ho as [y [Hy E]]. apply Z.eqb_eq in E. subst y. rewrite forallb_forall in Hl. apply Hl. exact Hy.
Qed.

Ltac reflect_finite :=
  repeat first [ apply fb_spec | apply fst4_spec | apply fph_spec | apply fck_spec ];
  vm_compute; reflexivity.
