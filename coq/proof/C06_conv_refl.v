(* Reflection helpers: a closed boolean function of finitely many finite-type arguments is checked for all
   arguments by evaluation (vm_compute). *)
From Coq Require Import ZArith List Bool Arith Lia.
From Verif Require Import DispatchActs C06_Converge.
Import ListNotations.
Local Open Scope nat_scope.

Definition fb (f : bool -> bool) : bool := f true && f false.
Lemma fb_spec : forall f, fb f = true -> forall b, f b = true.
Proof. intros f H b. unfold fb in H. apply andb_true_iff in H. destruct H. destruct b; assumption. Qed.

Definition fst4 (f : cstate -> bool) : bool := f CEmpty && f CPreparing && f CCompleting && f CStable.
Lemma fst4_spec : forall f, fst4 f = true -> forall x, f x = true.
Proof. intros f H x. unfold fst4 in H. repeat (apply andb_true_iff in H; destruct H as [H ?]). destruct x; assumption. Qed.

Definition fph (f : phase -> bool) : bool := f PIdle && f PJoinSent && f PJoined && f PSyncSent.
Lemma fph_spec : forall f, fph f = true -> forall x, f x = true.
Proof. intros f H x. unfold fph in H. repeat (apply andb_true_iff in H; destruct H as [H ?]). destruct x; assumption. Qed.

Definition fck (f : ckst -> bool) : bool := f CkNone && f CkStale && f CkOk.
Lemma fck_spec : forall f, fck f = true -> forall x, f x = true.
Proof. intros f H x. unfold fck in H. repeat (apply andb_true_iff in H; destruct H as [H ?]). destruct x; assumption. Qed.

(* optional reply code from a finite list; any other code satisfies [f] because the premise [opt_in] fails *)
Definition fcode (l : list Z) (f : option Z -> bool) : bool := f None && forallb (fun z => f (Some z)) l.
Lemma fcode_spec : forall l f, fcode l f = true -> forall o, opt_in o l = true -> f o = true.
Proof.
  intros l f H o Ho. unfold fcode in H. apply andb_true_iff in H. destruct H as [Hn Hl].
  destruct o as [z|]; [|exact Hn]. simpl in Ho. unfold zmem in Ho. apply existsb_exists in Ho.
  destruct Ho as [y [Hy E]]. apply Z.eqb_eq in E. subst y. rewrite forallb_forall in Hl. apply Hl. exact Hy.
Qed.

Ltac reflect_finite :=
  repeat first [ apply fb_spec | apply fst4_spec | apply fph_spec | apply fck_spec ];
  vm_compute; reflexivity.

(* ------------------------------------------------------------------------------------------ *)
(* enumeration of the finite view [av] of a member, pruned by the consistency facts that hold of every
   [absm c m] when the coordinator is well-formed *)
Definition fcodes (l : list Z) (f : option Z -> bool) : bool := f None && forallb (fun z => f (Some z)) l.
Lemma fcodes_spec : forall l f, fcodes l f = true -> forall o, opt_in o l = true -> f o = true.
Proof. exact fcode_spec. Qed.

Definition ib_ok (i : ibk) : bool :=
  match i with INone => true | IJ c => zmem c join_codes | IS c => zmem c probe_codes end.
Definition fib (f : ibk -> bool) : bool :=
  f INone && forallb (fun z => f (IJ z)) join_codes && forallb (fun z => f (IS z)) probe_codes.
Lemma fib_spec : forall f, fib f = true -> forall i, ib_ok i = true -> f i = true.
Proof.
  intros f H i Hi. unfold fib in H. apply andb_true_iff in H. destruct H as [H HS]. apply andb_true_iff in H. destruct H as [HN HJ].
  destruct i as [|c|c]; unfold ib_ok in Hi; [exact HN| |].
  - unfold zmem in Hi. apply existsb_exists in Hi. destruct Hi as [y [Hy E]]. apply Z.eqb_eq in E. subst y.
    rewrite forallb_forall in HJ. apply HJ. exact Hy.
  - unfold zmem in Hi. apply existsb_exists in Hi. destruct Hi as [y [Hy E]]. apply Z.eqb_eq in E. subst y.
    rewrite forallb_forall in HS. apply HS. exact Hy.
Qed.

(* an id against the coordinator's table: = 0, in the table, pending, parked-join flag, parked-sync flag *)
Definition cons_id (z e p jp sp : bool) : bool :=
  (negb z || (negb e && negb p)) && (negb e || negb p) && (e || (negb jp && negb sp)).
(* a generation against the coordinator's: = 0, equal, less or equal; [G0]: the coordinator's is 0 *)
Definition cons_gen (G0 z eq le : bool) : bool :=
  (negb eq || le) && (negb z || le) && (negb G0 || Bool.eqb z eq) && (G0 || negb (z && eq)) && (negb (G0 && le) || z).

(* what the coordinator's state says about an id of the table: flags only in the matching state *)
Definition cons_st (st : cstate) (G0 e jp sp : bool) : bool :=
  (negb (cstate_eqb st CEmpty) || negb e) && (cstate_eqb st CPreparing || negb jp) && (cstate_eqb st CCompleting || negb sp)
  && (match st with CCompleting | CStable => negb G0 | _ => true end).

Definition cons_focus (ph : phase) (idz id_e id_p id_jp id_sp fz f_e f_p f_jp f_sp f_id : bool) : bool :=
  if ph_eqb ph PJoinSent then
    cons_id fz f_e f_p f_jp f_sp
    && (negb f_id || (Bool.eqb fz idz && Bool.eqb f_e id_e && Bool.eqb f_p id_p && Bool.eqb f_jp id_jp && Bool.eqb f_sp id_sp))
    && (negb (fz && idz) || f_id)
  else fz && negb f_e && negb f_p && negb f_jp && negb f_sp && Bool.eqb f_id idz.
Definition cons_g (ib : ibk) (G0 gz g_eq g_le : bool) : bool :=
  match ib with IJ _ => cons_gen G0 gz g_eq g_le | _ => gz && Bool.eqb g_eq G0 && g_le end.

Definition cons_a (a : av) : bool :=
  cons_id (a_idz a) (a_id_e a) (a_id_p a) (a_id_jp a) (a_id_sp a)
  && cons_st (a_st a) (a_G0 a) (a_id_e a) (a_id_jp a) (a_id_sp a)
  && cons_st (a_st a) (a_G0 a) (a_f_e a) (a_f_jp a) (a_f_sp a)
  && cons_gen (a_G0 a) (a_genz a) (a_gen_eq a) (a_gen_le a)
  && cons_focus (a_ph a) (a_idz a) (a_id_e a) (a_id_p a) (a_id_jp a) (a_id_sp a)
                (a_fz a) (a_f_e a) (a_f_p a) (a_f_jp a) (a_f_sp a) (a_f_id a)
  && cons_g (a_ib a) (a_G0 a) (a_gz a) (a_g_eq a) (a_g_le a)
  && ib_ok (a_ib a) && opt_in (a_hbin a) probe_codes && opt_in (a_cmin a) probe_codes.

Definition fin_t := bool -> phase -> ibk -> bool -> ckst -> bool -> option Z -> option Z -> cstate -> bool.
Definition fin_of (p : fin_t) (a : av) : bool :=
  p (a_live a) (a_ph a) (a_ib a) (a_rejoin a) (a_ck a) (a_hb a) (a_hbin a) (a_cmin a) (a_st a).

Definition forall_av (pre : fin_t) (P : av -> bool) : bool :=
  fb (fun live => fph (fun ph => fib (fun ib => fb (fun rejoin => fck (fun ck => fb (fun hb =>
  fcodes probe_codes (fun hbin => fcodes probe_codes (fun cmin => fst4 (fun st =>
    if pre live ph ib rejoin ck hb hbin cmin st then
      fb (fun G0 =>
      fb (fun idz => fb (fun id_e => fb (fun id_p => fb (fun id_jp => fb (fun id_sp =>
        if cons_id idz id_e id_p id_jp id_sp && cons_st st G0 id_e id_jp id_sp then
      fb (fun genz => fb (fun gen_eq => fb (fun gen_le =>
        if cons_gen G0 genz gen_eq gen_le then
      fb (fun fz => fb (fun f_e => fb (fun f_p => fb (fun f_jp => fb (fun f_sp => fb (fun f_id =>
        if cons_focus ph idz id_e id_p id_jp id_sp fz f_e f_p f_jp f_sp f_id && cons_st st G0 f_e f_jp f_sp then
      fb (fun gz => fb (fun g_eq => fb (fun g_le =>
        if cons_g ib G0 gz g_eq g_le then
          P (mkA live ph rejoin ck hb ib hbin cmin st G0 idz id_e id_p id_jp id_sp genz gen_eq gen_le
                 fz f_e f_p f_jp f_sp f_id gz g_eq g_le)
        else true)))
        else true))))))
        else true)))
        else true))))))
    else true))))))))).

Lemma forall_av_spec : forall pre P, forall_av pre P = true ->
  forall a, cons_a a = true -> fin_of pre a = true -> P a = true.
Proof.
  intros pre P H a Hc Hp. destruct a as [live ph rejoin ck hb ib hbin cmin st G0 idz id_e id_p id_jp id_sp genz gen_eq gen_le
                                            fz f_e f_p f_jp f_sp f_id gz g_eq g_le].
  unfold cons_a in Hc. simpl in Hc. unfold fin_of in Hp. simpl in Hp.
  apply andb_true_iff in Hc; destruct Hc as [Hc Ccm]. apply andb_true_iff in Hc; destruct Hc as [Hc Chb].
  apply andb_true_iff in Hc; destruct Hc as [Hc Cib]. apply andb_true_iff in Hc; destruct Hc as [Hc Cg].
  apply andb_true_iff in Hc; destruct Hc as [Hc Cf]. apply andb_true_iff in Hc; destruct Hc as [Hc Cgen].
  apply andb_true_iff in Hc; destruct Hc as [Hc Cst2]. apply andb_true_iff in Hc; destruct Hc as [Cid Cst1].
  unfold forall_av in H.
  apply fb_spec with (b := live) in H. apply fph_spec with (x := ph) in H. apply fib_spec with (i := ib) in H; [|assumption].
  apply fb_spec with (b := rejoin) in H. apply fck_spec with (x := ck) in H. apply fb_spec with (b := hb) in H.
  apply fcodes_spec with (o := hbin) in H; [|assumption]. apply fcodes_spec with (o := cmin) in H; [|assumption].
  apply fst4_spec with (x := st) in H. rewrite Hp in H.
  apply fb_spec with (b := G0) in H.
  apply fb_spec with (b := idz) in H. apply fb_spec with (b := id_e) in H. apply fb_spec with (b := id_p) in H.
  apply fb_spec with (b := id_jp) in H. apply fb_spec with (b := id_sp) in H. rewrite Cid, Cst1 in H. cbn [andb] in H.
  apply fb_spec with (b := genz) in H. apply fb_spec with (b := gen_eq) in H. apply fb_spec with (b := gen_le) in H.
  rewrite Cgen in H.
  apply fb_spec with (b := fz) in H. apply fb_spec with (b := f_e) in H. apply fb_spec with (b := f_p) in H.
  apply fb_spec with (b := f_jp) in H. apply fb_spec with (b := f_sp) in H. apply fb_spec with (b := f_id) in H.
  rewrite Cf, Cst2 in H. cbn [andb] in H.
  apply fb_spec with (b := gz) in H. apply fb_spec with (b := g_eq) in H. apply fb_spec with (b := g_le) in H.
  rewrite Cg in H. exact H.
Qed.
