(* C16_proof.v — proofs about model/C16_TxnApi.v.
   The per-step facts are finite: state x call x fault is a table of 2128 x 8 x 33 entries; each is
   checked by [vm_compute] and lifted to a universally quantified statement by [forallb_forall]
   over enumerations that are proved complete.  The sequence-level theorems are inductions over
   call lists on top of the step lemmas. *)
From Coq Require Import ZArith List Bool.
From Verif Require Import Imp TxnTable C16_TxnApi.
Import ListNotations.

(* ---------- decidable equalities (transparent, so that vm_compute can run them) ------------- *)
Definition tst_eq_dec (a b : tst) : {a = b} + {a <> b}. Proof. decide equality. Defined.
Definition code_eq_dec (a b : code) : {a = b} + {a <> b}. Proof. decide equality. Defined.
Definition exn_eq_dec (a b : exn) : {a = b} + {a <> b}.
Proof. decide equality. apply code_eq_dec. Defined.
Definition part_eq_dec (a b : part) : {a = b} + {a <> b}. Proof. decide equality. Defined.
Definition pset_eq_dec (a b : pset) : {a = b} + {a <> b}.
Proof. decide equality; apply bool_dec. Defined.
Definition req_eq_dec (a b : req) : {a = b} + {a <> b}.
Proof. decide equality; try apply pset_eq_dec; apply bool_dec. Defined.
Definition result_eq_dec (a b : result) : {a = b} + {a <> b}.
Proof. decide equality; apply exn_eq_dec. Defined.
Definition tstate_eq_dec (a b : tstate) : {a = b} + {a <> b}.
Proof.
  decide equality; try apply bool_dec; try apply tst_eq_dec.
  decide equality. apply exn_eq_dec.
Defined.
Definition pstate_eq_dec (a b : pstate) : {a = b} + {a <> b}. Proof. decide equality. Defined.

Definition eqb_of {A} (dec : forall a b : A, {a = b} + {a <> b}) (a b : A) : bool :=
  if dec a b then true else false.
Lemma eqb_of_true {A} dec (a b : A) : eqb_of dec a b = true -> a = b.
Proof. unfold eqb_of. destruct (dec a b); [auto | discriminate]. Qed.
Lemma eqb_of_refl {A} dec (a : A) : eqb_of dec a a = true.
Proof. unfold eqb_of. destruct (dec a a); [auto | congruence]. Qed.

Definition tstate_eqb := eqb_of tstate_eq_dec.
Definition result_eqb := eqb_of result_eq_dec.
Definition reqs_eqb := eqb_of (list_eq_dec req_eq_dec).
Definition tst_eqb := eqb_of tst_eq_dec.
Definition pstate_eqb := eqb_of pstate_eq_dec.
Definition werr_eqb := eqb_of (fun a b : option exn =>
  ltac:(decide equality; apply exn_eq_dec) : {a = b} + {a <> b}).
Definition ores_eq_dec (a b : option result) : {a = b} + {a <> b}.
Proof. decide equality; apply result_eq_dec. Defined.
Definition futs_eq_dec (a b : futs) : {a = b} + {a <> b}.
Proof. decide equality; apply ores_eq_dec. Defined.
Definition futs_eqb := eqb_of futs_eq_dec.

(* the tabulated transition table is the translated function *)
Lemma table_is_translated : forall s t, table s t = table_py s t.
Proof. intros s t. destruct s, t; vm_compute; reflexivity. Qed.

(* ---------- complete enumerations ------------------------------------------------------------ *)
Definition all_tst := [UNINIT; READY; IN_TXN; COMMITTING; ABORTING; ABORTABLE; FATAL].
Definition all_code := [E3; E7; E14; E15; E16; E29; E30; E45; E47; E48; E49; E51; E53; EOther].
Definition all_exn := [XIllegalOperation; XAssertion; XProducerFenced; XKafkaError] ++ map XCode all_code.
Definition all_werr : list (option exn) := None :: map Some all_exn.
Definition all_bool := [false; true].
Definition all_states : list tstate :=
  flat_map (fun t => flat_map (fun a => flat_map (fun b => flat_map (fun g => flat_map (fun k =>
  flat_map (fun g0 => flat_map (fun g1 => flat_map (fun n0 => flat_map (fun n1 =>
    map (fun w => mkT t a b g k w g0 g1 n0 n1) all_werr) all_bool) all_bool) all_bool) all_bool)
    all_bool) all_bool) all_bool) all_bool) all_tst.
Definition all_calls := [Begin; Send P0; Send P1; SendOffsets; Commit; Abort; CtxOk; CtxExc;
                         SendNW P0; SendNW P1].
Definition all_fkind := map FErr all_code ++ [FDropBefore; FDropAfter].
Definition all_faults : list fault :=
  None :: flat_map (fun i => map (fun k => Some (i, k)) all_fkind) [I0; I1; I2; I3].

Lemma in_all_tst t : In t all_tst. Proof. destruct t; simpl; tauto. Qed.
Lemma in_all_code c : In c all_code. Proof. destruct c; simpl; tauto. Qed.
Lemma in_all_bool b : In b all_bool. Proof. destruct b; simpl; tauto. Qed.
Lemma in_all_exn e : In e all_exn.
Proof.
  destruct e; try (simpl; tauto).
  unfold all_exn. apply in_or_app. right. apply in_map. apply in_all_code.
Qed.
Lemma in_all_werr w : In w all_werr.
Proof. destruct w; [right; apply in_map; apply in_all_exn | left; reflexivity]. Qed.
Lemma in_all_states s : In s all_states.
Proof.
  destruct s as [t a b g k w g0 g1 n0 n1]. unfold all_states.
  apply in_flat_map; exists t; split; [apply in_all_tst|].
  apply in_flat_map; exists a; split; [apply in_all_bool|].
  apply in_flat_map; exists b; split; [apply in_all_bool|].
  apply in_flat_map; exists g; split; [apply in_all_bool|].
  apply in_flat_map; exists k; split; [apply in_all_bool|].
  apply in_flat_map; exists g0; split; [apply in_all_bool|].
  apply in_flat_map; exists g1; split; [apply in_all_bool|].
  apply in_flat_map; exists n0; split; [apply in_all_bool|].
  apply in_flat_map; exists n1; split; [apply in_all_bool|].
  apply (in_map (fun w0 => mkT t a b g k w0 g0 g1 n0 n1)). apply in_all_werr.
Qed.
Lemma in_all_calls c : In c all_calls.
Proof. destruct c as [ | [|] | | | | | | [|] ]; simpl; tauto. Qed.
Lemma in_all_fkind k : In k all_fkind.
Proof.
  unfold all_fkind. destruct k.
  - apply in_or_app; left. apply in_map. apply in_all_code.
  - apply in_or_app; right; simpl; tauto.
  - apply in_or_app; right; simpl; tauto.
Qed.
Lemma in_all_faults f : In f all_faults.
Proof.
  destruct f as [[i k]|]; [right | left; reflexivity].
  apply in_flat_map. exists i. split; [destruct i; simpl; tauto|].
  apply (in_map (fun k0 => Some (i, k0))). apply in_all_fkind.
Qed.

(* ---------- the sweep combinator -------------------------------------------------------------- *)
Definition sweep (P : tstate -> call -> fault -> bool) : bool :=
  forallb (fun s => forallb (fun c => forallb (fun f => P s c f) all_faults) all_calls) all_states.

Lemma sweep_sound P : sweep P = true -> forall s c f, P s c f = true.
Proof.
  unfold sweep. intros H s c f.
  rewrite forallb_forall in H. specialize (H s (in_all_states s)).
  rewrite forallb_forall in H. specialize (H c (in_all_calls c)).
  rewrite forallb_forall in H. exact (H f (in_all_faults f)).
Qed.

(* ---------- well-formed boundary states ------------------------------------------------------- *)
(* between calls: READY / IN_TXN / ABORTABLE_ERROR / FATAL_ERROR; ABORTABLE carries its error
   (a topic / group authorization failure); un-awaited nowait sends exist only in IN_TXN *)
Definition no_werr (s : tstate) : bool := match werr s with None => true | Some _ => false end.
Definition no_nw (s : tstate) : bool := negb (nw0 s) && negb (nw1 s).
Definition wfb (s : tstate) : bool :=
  match st s with
  | READY => no_werr s && is_empty_txn s && no_nw s
  | IN_TXN => no_werr s
  | ABORTABLE => (match werr s with Some (XCode E29) | Some (XCode E30) => true | _ => false end) && no_nw s
  | FATAL => (match werr s with Some _ => true | None => false end) && is_empty_txn s && no_nw s
  | _ => false
  end.

(* sweep restricted to well-formed states (the test is made once per state) *)
Definition wsweep (P : tstate -> call -> fault -> bool) : bool :=
  forallb (fun s => if wfb s then forallb (fun c => forallb (fun f => P s c f) all_faults) all_calls
                    else true) all_states.
Lemma wsweep_sound P : wsweep P = true -> forall s c f, wfb s = true -> P s c f = true.
Proof.
  unfold wsweep. intros H s c f W.
  rewrite forallb_forall in H. specialize (H s (in_all_states s)). rewrite W in H.
  rewrite forallb_forall in H. specialize (H c (in_all_calls c)).
  rewrite forallb_forall in H. exact (H f (in_all_faults f)).
Qed.
(* lazy implication *)
Notation "a ==> b" := (if a then b else true) (at level 70, only parsing).

Definition api_st (s : tstate) (c : call) (f : fault) : tstate := fst (fst (api s c f)).
Definition api_res (s : tstate) (c : call) (f : fault) : result := snd (fst (api s c f)).
Definition api_req (s : tstate) (c : call) (f : fault) : list req := snd (api s c f).
Definition api_fut (s : tstate) (c : call) (f : fault) : futs := api_futs s c f.
Lemma api_split s c f : api s c f = (api_st s c f, api_res s c f, api_req s c f).
Proof. unfold api_st, api_res, api_req. destruct (api s c f) as [[a b] d]. reflexivity. Qed.

Lemma wf_started : exists s0, started = Some s0 /\ wfb s0 = true /\ st s0 = READY.
Proof. eexists. split; [vm_compute; reflexivity|]. split; reflexivity. Qed.

Lemma wf_preserved_b : wsweep (fun s c f => wfb (api_st s c f)) = true.
Proof. vm_compute. reflexivity. Qed.
Lemma wf_preserved s c f : wfb s = true -> wfb (api_st s c f) = true.
Proof. intros H. exact (wsweep_sound _ wf_preserved_b s c f H). Qed.

(* ---------- illegal calls have no effect ------------------------------------------------------- *)
Definition is_raise (r : result) : bool := match r with RRaise _ => true | _ => false end.

Lemma illegal_no_effect_b :
  wsweep (fun s c f => (negb (pallowed (abs (st s)) c) && negb (pending s)) ==>
                        (tstate_eqb (api_st s c f) s && is_raise (api_res s c f)
                         && is_nil (api_req s c f))) = true.
Proof. vm_compute. reflexivity. Qed.

Lemma illegal_no_effect s c f :
  wfb s = true -> pallowed (abs (st s)) c = false -> pending s = false ->
  exists e, api s c f = (s, RRaise e, []).
Proof.
  intros W A NP. pose proof (wsweep_sound _ illegal_no_effect_b s c f W) as P.
  cbv beta in P. rewrite A, NP in P. simpl in P.
  apply andb_prop in P. destruct P as [P Q]. apply andb_prop in P. destruct P as [P R].
  apply eqb_of_true in P. rewrite (api_split s c f). rewrite P.
  destruct (api_res s c f); try discriminate. destruct (api_req s c f); try discriminate.
  eexists; reflexivity.
Qed.

(* a call that first awaits the outstanding nowait sends *)
Definition awaits_first (s : tstate) (c : call) : bool := pending s && negb (is_end c) && negb (is_nw c).

(* an allowed call never fails with the out-of-order errors (a call that first awaits outstanding
   sends is made in the state they leave behind, see [refines_step_b]) *)
Definition is_order_error (r : result) : bool :=
  match r with RRaise XIllegalOperation | RRaise XAssertion => true | _ => false end.
Lemma legal_not_order_error_b :
  wsweep (fun s c f => (pallowed (abs (st s)) c && negb (awaits_first s c))
                        ==> negb (is_order_error (api_res s c f))) = true.
Proof. vm_compute. reflexivity. Qed.
Lemma legal_not_order_error s c f :
  wfb s = true -> pallowed (abs (st s)) c = true -> awaits_first s c = false ->
  is_order_error (api_res s c f) = false.
Proof.
  intros W A AF. pose proof (wsweep_sound _ legal_not_order_error_b s c f W) as P.
  cbv beta in P. rewrite A, AF in P. simpl in P. destruct (is_order_error _); [discriminate|reflexivity].
Qed.

(* ---------- refinement of the 7-state protocol automaton -------------------------------------- *)
(* a call made with nothing outstanding, an end call, or a nowait send *)
Definition refines_direct_b (s : tstate) (c : call) (f : fault) : bool :=
  let q := abs (st s) in
  if pallowed q c then
    existsb (fun pk => match prun q (fst pk) with
                       | Some q' => pstate_eqb q' (abs (st (api_st s c f)))
                                    && result_fits c (snd pk) (api_res s c f)
                       | None => false
                       end) (call_paths q c)
  else tstate_eqb (api_st s c f) s && is_raise (api_res s c f) && is_nil (api_req s c f).

(* a call that first awaits the outstanding nowait sends = awaiting them ([awaited]), then the call
   with nothing outstanding and the fault positions shifted *)
Definition awaited (s : tstate) (f : fault) : tstate := fl_s (await_sends s f 0).
Definition awaited_n (s : tstate) (f : fault) : nat := fl_n (await_sends s f 0).
Definition fshift (f : fault) (k : nat) : fault :=
  match f with
  | Some (j, fk) =>
      if Nat.ltb (idx_nat j) k then None
      else match Nat.sub (idx_nat j) k with
           | O => Some (I0, fk) | 1%nat => Some (I1, fk) | 2%nat => Some (I2, fk) | _ => Some (I3, fk)
           end
  | None => None
  end.

Definition refines_step_b (s : tstate) (c : call) (f : fault) : bool :=
  if awaits_first s c then
    let s1 := awaited s f in
    let f1 := fshift f (awaited_n s f) in
    wfb s1 && negb (pending s1)
    && (pstate_eqb (abs (st s1)) PInTxn || pstate_eqb (abs (st s1)) PAbortableError
        || pstate_eqb (abs (st s1)) PFatalError)
    && tstate_eqb (api_st s c f) (api_st s1 c f1) && result_eqb (api_res s c f) (api_res s1 c f1)
  else refines_direct_b s c f.

Lemma refines_step_sweep : wsweep refines_step_b = true.
Proof. vm_compute. reflexivity. Qed.

(* does anything stay outstanding after the call *)
Definition next_o (o : bool) (q : pstate) (c : call) : bool :=
  if is_nw c then o || pallowed q c else false.
Lemma pending_next_b :
  wsweep (fun s c f => Bool.eqb (pending (api_st s c f)) (next_o (pending s) (abs (st s)) c)) = true.
Proof. vm_compute. reflexivity. Qed.
Lemma pending_next s c f :
  wfb s = true -> pending (api_st s c f) = next_o (pending s) (abs (st s)) c.
Proof. intros W. apply eqb_prop. exact (wsweep_sound _ pending_next_b s c f W). Qed.

(* observation of a run: the calls with "did it return normally" *)
Definition accepted (r : result) : bool := negb (is_error r).

(* runs of the specification: every allowed call follows one of its documented event paths of the
   7-state automaton and its result fits the path; a call the protocol does not allow changes
   nothing and is refused.  The flag says whether nowait sends are outstanding: when the application
   awaits them before a call that does not end the transaction, their abortable / fatal error may
   surface first ([sr_async]). *)
Inductive spec_run : pstate -> bool -> list (call * result) -> pstate -> Prop :=
| sr_nil q o : spec_run q o [] q
| sr_legal q o c r path k q' rest q'' :
    pallowed q c = true -> In (path, k) (call_paths q c) -> prun q path = Some q' ->
    result_fits c k r = true -> spec_run q' (next_o o q c) rest q'' -> spec_run q o ((c, r) :: rest) q''
| sr_illegal q o c e rest q'' :
    pallowed q c = false -> spec_run q (next_o o q c) rest q'' -> spec_run q o ((c, RRaise e) :: rest) q''
| sr_async c r rest q1 q'' :
    is_end c = false -> is_nw c = false ->
    (pstep PInTxn PAbortableErr = Some q1 \/ pstep PInTxn PFatalErr = Some q1) ->
    spec_run q1 false ((c, r) :: rest) q'' -> spec_run PInTxn true ((c, r) :: rest) q''.

Definition observe (s : tstate) (cs : list (call * fault)) : list (call * result) :=
  combine (map fst cs) (map fst (fst (run s cs))).

Lemma run_cons s c f rest :
  run s ((c, f) :: rest) =
  ((api_res s c f, api_req s c f) :: fst (run (api_st s c f) rest), snd (run (api_st s c f) rest)).
Proof.
  simpl. rewrite (api_split s c f). destruct (run (api_st s c f) rest) as [o sf]. reflexivity.
Qed.

Lemma observe_cons s c f rest :
  observe s ((c, f) :: rest) = (c, api_res s c f) :: observe (api_st s c f) rest.
Proof. unfold observe. rewrite run_cons. reflexivity. Qed.

Lemma spec_run_flag q c r rest q'' :
  is_nw c = false -> spec_run q false ((c, r) :: rest) q'' -> spec_run q true ((c, r) :: rest) q''.
Proof.
  intros N H. inversion H; subst.
  - eapply sr_legal; eauto. unfold next_o in *. rewrite N in *. assumption.
  - eapply sr_illegal; eauto. unfold next_o in *. rewrite N in *. assumption.
Qed.

Lemma pending_in_txn s : pending s = true -> st s = IN_TXN.
Proof. unfold pending. destruct (st s); try discriminate; reflexivity. Qed.

(* one direct step on top of a specification run of the rest *)
Lemma step_direct s c f obs qf :
  wfb s = true -> awaits_first s c = false ->
  spec_run (abs (st (api_st s c f))) (pending (api_st s c f)) obs qf ->
  spec_run (abs (st s)) (pending s) ((c, api_res s c f) :: obs) qf.
Proof.
  intros W AF R.
  pose proof (wsweep_sound _ refines_step_sweep s c f W) as P.
  unfold refines_step_b in P. rewrite AF in P. unfold refines_direct_b in P.
  rewrite (pending_next s c f W) in R.
  destruct (pallowed (abs (st s)) c) eqn:A.
  - apply existsb_exists in P. destruct P as [[path k] [Hin Hp]]. simpl in Hp.
    destruct (prun (abs (st s)) path) as [q'|] eqn:RR; [|discriminate].
    apply andb_prop in Hp. destruct Hp as [Hq Hr]. apply eqb_of_true in Hq. subst q'.
    eapply sr_legal; eauto.
  - apply andb_prop in P. destruct P as [P _]. apply andb_prop in P. destruct P as [P Q].
    apply eqb_of_true in P.
    destruct (api_res s c f) eqn:RR; try discriminate.
    rewrite P in R. apply sr_illegal; assumption.
Qed.

Lemma refines_spec : forall cs s,
  wfb s = true ->
  spec_run (abs (st s)) (pending s) (observe s cs) (abs (st (snd (run s cs)))) /\ wfb (snd (run s cs)) = true.
Proof.
  induction cs as [|[c f] rest IH]; intros s W.
  - simpl. split; [constructor | exact W].
  - rewrite observe_cons, run_cons. simpl snd.
    pose proof (wf_preserved s c f W) as W'.
    destruct (IH _ W') as [IH1 IH2]. split; [| exact IH2].
    destruct (awaits_first s c) eqn:AF.
    + pose proof (wsweep_sound _ refines_step_sweep s c f W) as P.
      unfold refines_step_b in P. rewrite AF in P. cbv zeta in P.
      set (s1 := awaited s f) in *. set (f1 := fshift f (awaited_n s f)) in *.
      apply andb_prop in P. destruct P as [P ER]. apply andb_prop in P. destruct P as [P ES].
      apply andb_prop in P. destruct P as [P Q]. apply andb_prop in P. destruct P as [W1 NP].
      apply eqb_of_true in ES. apply eqb_of_true in ER.
      apply negb_true_iff in NP.
      unfold awaits_first in AF. apply andb_prop in AF. destruct AF as [AF NW].
      apply andb_prop in AF. destruct AF as [PD NE].
      apply negb_true_iff in NW. apply negb_true_iff in NE.
      rewrite PD. rewrite (pending_in_txn s PD). simpl abs.
      rewrite ES, ER in *.
      assert (AF1 : awaits_first s1 c = false) by (unfold awaits_first; rewrite NP; reflexivity).
      pose proof (step_direct s1 c f1 _ _ W1 AF1 IH1) as D. rewrite NP in D.
      apply orb_prop in Q. destruct Q as [Q|Q]; [apply orb_prop in Q; destruct Q as [Q|Q]|];
        apply eqb_of_true in Q; rewrite Q in D.
      * apply spec_run_flag; assumption.
      * apply sr_async with (q1 := PAbortableError); [exact NE | exact NW | left; reflexivity | exact D].
      * apply sr_async with (q1 := PFatalError); [exact NE | exact NW | right; reflexivity | exact D].
    + apply step_direct; assumption.
Qed.

(* ---------- the accepted language ------------------------------------------------------------- *)
(* faults that every handler answers by re-sending: connection drops and the coordinator-moved /
   loading codes *)
Definition benign (f : fault) : bool :=
  match f with
  | None => true
  | Some (_, FDropBefore) | Some (_, FDropAfter) => true
  | Some (_, FErr c) => match c with E14 | E15 | E16 => true | _ => false end
  end.

Definition dfa_next (inside : bool) (c : call) : option bool :=
  match c, inside with
  | Begin, false => Some true
  | Send _, true | SendOffsets, true | SendNW _, true => Some true
  | Commit, true | Abort, true | CtxOk, true | CtxExc, true => Some false
  | _, _ => None
  end.

(* READY / IN_TRANSACTION with no sequence gap at a partition leader *)
Definition inside_of (s : tstate) : option bool :=
  if gap0 s || gap1 s then None
  else match st s with READY => Some false | IN_TXN => Some true | _ => None end.

(* no awaited nowait future failed *)
Definition fut_ok (o : option result) : bool := match o with Some r => negb (is_error r) | None => true end.
Definition futs_ok (fu : futs) : bool := fut_ok (fst fu) && fut_ok (snd fu).

Definition lang_step_b (s : tstate) (c : call) (f : fault) : bool :=
  match inside_of s with
  | Some i =>
      benign f ==>
        (match dfa_next i c with
         | Some i' => result_eqb (api_res s c f) ROk && futs_ok (api_fut s c f)
                      && eqb_of (fun a b : option bool => ltac:(decide equality; apply bool_dec) : {a = b} + {a <> b})
                           (inside_of (api_st s c f)) (Some i')
         | None => is_error (api_res s c f)
         end)
  | None => true
  end.
Lemma lang_step_sweep : wsweep lang_step_b = true.
Proof. vm_compute. reflexivity. Qed.

Definition all_accepted (o : list (result * list req)) : bool :=
  forallb (fun x => accepted (fst x)) o.

Lemma in_protocol_order_step i c rest :
  in_protocol_order i (c :: rest) =
  match dfa_next i c with Some i' => in_protocol_order i' rest | None => false end.
Proof. destruct c as [ | ? | | | | | | ? ], i; reflexivity. Qed.

Lemma accepts_protocol_order_gen : forall cs s i,
  wfb s = true -> inside_of s = Some i ->
  forallb (fun cf => benign (snd cf)) cs = true ->
  all_accepted (fst (run s cs)) = in_protocol_order i (map fst cs).
Proof.
  induction cs as [|[c f] rest IH]; intros s i W I B.
  - reflexivity.
  - simpl in B. apply andb_prop in B. destruct B as [Bf Br].
    rewrite run_cons. simpl map. rewrite in_protocol_order_step.
    unfold all_accepted. simpl forallb. fold (all_accepted (fst (run (api_st s c f) rest))).
    pose proof (wsweep_sound _ lang_step_sweep s c f W) as P. unfold lang_step_b in P.
    rewrite I, Bf in P.
    destruct (dfa_next i c) as [i'|].
    + apply andb_prop in P. destruct P as [P1 P2]. apply andb_prop in P1. destruct P1 as [P1 _].
      apply eqb_of_true in P1. apply eqb_of_true in P2. rewrite P1. simpl.
      apply IH; auto. apply wf_preserved; assumption.
    + unfold accepted. rewrite P. reflexivity.
Qed.

Lemma accepts_protocol_order : forall cs s0,
  started = Some s0 ->
  forallb (fun cf => benign (snd cf)) cs = true ->
  all_accepted (fst (run s0 cs)) = in_protocol_order false (map fst cs).
Proof.
  intros cs s0 H B. vm_compute in H. inversion H; subst s0.
  apply accepts_protocol_order_gen; auto.
Qed.

(* ---------- abortable errors ------------------------------------------------------------------- *)
Definition healthy_txn : list (call * fault) := [(Begin, None); (Send P0, None); (Commit, None)].
Definition healthy_txn1 : list (call * fault) := [(Begin, None); (Send P1, None); (Commit, None)].

(* in ABORTABLE_ERROR commit (and a clean context exit) raise exactly the stored error and nothing
   is sent, whatever fault is pending *)
Definition abortable_commit_b (s1 : tstate) (c : call) (f' : fault) : bool :=
  tst_eqb (st s1) ABORTABLE ==>
  match c with
  | Commit | CtxOk =>
      match werr s1 with
      | Some e => tstate_eqb (api_st s1 c f') s1 && result_eqb (api_res s1 c f') (RRaise e)
                  && is_nil (api_req s1 c f')
      | None => false
      end
  | _ => true
  end.
Lemma abortable_commit_sweep : wsweep abortable_commit_b = true.
Proof. vm_compute. reflexivity. Qed.

(* entering ABORTABLE_ERROR: the stored error is the topic / group authorization failure; abort
   succeeds and leads to READY, and a new transaction then goes through *)
Definition abortable_b (s : tstate) (c : call) (f : fault) : bool :=
  let s1 := api_st s c f in
  (tst_eqb (st s1) ABORTABLE && negb (tst_eqb (st s) ABORTABLE)) ==>
    (match werr s1 with
     | Some e =>
         (eqb_of exn_eq_dec e (XCode E29) || eqb_of exn_eq_dec e (XCode E30))
         && result_eqb (api_res s1 Abort None) ROk && tst_eqb (st (api_st s1 Abort None)) READY
         && result_eqb (api_res s1 CtxExc None) ROk && tst_eqb (st (api_st s1 CtxExc None)) READY
         && (negb (gap0 s) ==> all_accepted (fst (run (api_st s1 Abort None) healthy_txn)))
         && (negb (gap1 s) ==> all_accepted (fst (run (api_st s1 Abort None) healthy_txn1)))
         && tst_eqb (st (snd (run (api_st s1 Abort None) healthy_txn))) READY
     | None => false
     end).
Lemma abortable_sweep : wsweep abortable_b = true.
Proof. vm_compute. reflexivity. Qed.

(* the abortable state is entered exactly by the authorization failures on the requests that
   register a partition / a group / commit offsets *)
Definition abortable_cause_b (s : tstate) (c : call) (f : fault) : bool :=
  (negb (tst_eqb (st s) ABORTABLE) && tst_eqb (st (api_st s c f)) ABORTABLE) ==>
    (match f with
     | Some (_, FErr E29) => pending s || match c with Send _ => true | _ => false end
     | Some (_, FErr E30) => match c with SendOffsets => true | _ => false end
     | _ => false
     end).
Lemma abortable_cause_sweep : wsweep abortable_cause_b = true.
Proof. vm_compute. reflexivity. Qed.

(* ---------- fatal errors ------------------------------------------------------------------------ *)
Lemma fatal_absorbing_step s c f :
  st s = FATAL ->
  api_st s c f = s /\ api_req s c f = [] /\ (is_error (api_res s c f) = true \/ c = CtxExc).
Proof.
  destruct s as [t a b g k w g0 g1 n0 n1]. simpl. intros F. subst t.
  destruct c as [ | [|] | | | | | | [|] ]; vm_compute; repeat split; auto.
Qed.

Lemma fatal_absorbing_run : forall cs s,
  st s = FATAL ->
  snd (run s cs) = s /\
  Forall (fun o => snd o = [] ) (fst (run s cs)) /\
  Forall2 (fun cf o => is_error (fst o) = true \/ fst cf = CtxExc) cs (fst (run s cs)).
Proof.
  induction cs as [|[c f] rest IH]; intros s F.
  - simpl. repeat split; constructor.
  - rewrite run_cons. destruct (fatal_absorbing_step s c f F) as (E1 & E2 & E3).
    rewrite E1. destruct (IH s F) as (I1 & I2 & I3). simpl. repeat split.
    + exact I1.
    + constructor; [exact E2 | exact I2].
    + constructor; [exact E3 | exact I3].
Qed.

(* entering FATAL: the call in which it happens fails with the error that is stored; in particular
   the pending send (the one being awaited) fails *)
Definition exn_of (r : result) : option exn :=
  match r with ROk => None | RRaise e | RFutFail e => Some e end.
(* one of the awaited nowait futures failed with this error *)
Definition ofut_exn (o : option result) : option exn := match o with Some r => exn_of r | None => None end.
Definition fut_is (w : option exn) (fu : futs) : bool :=
  match w with
  | Some _ => werr_eqb w (ofut_exn (fst fu)) || werr_eqb w (ofut_exn (snd fu))
  | None => false
  end.
Definition fatal_entry_b (s : tstate) (c : call) (f : fault) : bool :=
  (negb (tst_eqb (st s) FATAL) && tst_eqb (st (api_st s c f)) FATAL) ==>
    (is_error (api_res s c f)
     && (werr_eqb (werr (api_st s c f)) (exn_of (api_res s c f))
         || (awaits_first s c && fut_is (werr (api_st s c f)) (api_fut s c f)))
     && is_empty_txn (api_st s c f)).
Lemma fatal_entry_sweep : wsweep fatal_entry_b = true.
Proof. vm_compute. reflexivity. Qed.

(* which errors are fatal on the coordinator requests *)
Definition coord_kind (k : rkind) : bool := match k with KProduce => false | _ => true end.
Lemma fatal_classes_coord k :
  coord_kind k = true ->
  classify k (FErr E47) = AFatal XProducerFenced /\
  classify k (FErr E53) = AFatal (XCode E53) /\
  classify k (FErr E45) = AFatal (XCode E45).
Proof. destruct k; intros H; try discriminate; repeat split. Qed.

(* a fencing / txn-id authorization / sequence error delivered to a coordinator request during an
   allowed call always ends in FATAL *)
Definition fatal_code (c : code) : bool := match c with E45 | E47 | E53 => true | _ => false end.
Definition fatal_exn (e : exn) : bool :=
  match e with XProducerFenced | XCode E45 | XCode E53 => true | _ => false end.
Definition fatal_class_result (r : result) : bool :=
  match exn_of r with Some e => fatal_exn e | None => false end.

Definition fatal_raise_b (s : tstate) (c : call) (f : fault) : bool :=
  (* if an awaited API call (not a send future) raises a fatal-class exception, the state is FATAL *)
  match api_res s c f with RRaise e => fatal_exn e | _ => false end ==>
        tst_eqb (st (api_st s c f)) FATAL.
Lemma fatal_raise_sweep : wsweep fatal_raise_b = true.
Proof. vm_compute. reflexivity. Qed.

(* ---------- the full fatal clause is false of the code ------------------------------------------ *)
(* property text: "after a fatal error (fencing, sequence violation, transactional-id authorization)
   every later transactional call and every pending send fails".  Stated on the model: whenever a
   call fails with a fatal-class exception the producer is in FATAL afterwards. *)
Definition fatal_full_prop : Prop :=
  forall s c f, wfb s = true -> fatal_class_result (api_res s c f) = true ->
                st (api_st s c f) = FATAL.

Definition in_txn_p0 : tstate := mkT IN_TXN false false false false None false false false false.
Lemma fatal_full_witness :
  wfb in_txn_p0 = true /\
  api in_txn_p0 (Send P0) (Some (I1, FErr E45)) =
    (mkT IN_TXN true false false false None true false false false, RFutFail (XCode E45),
     [RAddPartitions (one P0); RProduce (one P0)]) /\
  api (mkT IN_TXN true false false false None true false false false) Commit None =
    (mkT READY false false false false None true false false false, ROk, [REndTxn true]).
Proof. repeat split. Qed.

Lemma fatal_full_refuted : ~ fatal_full_prop.
Proof.
  intros H. specialize (H in_txn_p0 (Send P0) (Some (I1, FErr E45)) eq_refl eq_refl).
  vm_compute in H. discriminate.
Qed.

(* ---------- Prop-level forms of the abortable / fatal step facts -------------------------------- *)
Lemma tst_eqb_true a b : tst_eqb a b = true -> a = b. Proof. apply eqb_of_true. Qed.
Lemma tst_eqb_eq a : tst_eqb a a = true. Proof. apply eqb_of_refl. Qed.
Lemma tst_eqb_neq a b : a <> b -> tst_eqb a b = false.
Proof. intros H. unfold tst_eqb, eqb_of. destruct (tst_eq_dec a b); congruence. Qed.

Lemma abortable_commit_raises s1 c f' :
  wfb s1 = true -> st s1 = ABORTABLE -> c = Commit \/ c = CtxOk ->
  exists e, werr s1 = Some e /\ api s1 c f' = (s1, RRaise e, []).
Proof.
  intros W A C. pose proof (wsweep_sound _ abortable_commit_sweep s1 c f' W) as P.
  unfold abortable_commit_b in P. rewrite A, tst_eqb_eq in P.
  assert (Q : match werr s1 with
              | Some e => tstate_eqb (api_st s1 c f') s1 && result_eqb (api_res s1 c f') (RRaise e)
                          && is_nil (api_req s1 c f')
              | None => false end = true) by (destruct C; subst c; exact P).
  destruct (werr s1) as [e|]; [|discriminate]. exists e. split; [reflexivity|].
  apply andb_prop in Q. destruct Q as [Q R]. apply andb_prop in Q. destruct Q as [Q1 Q2].
  apply eqb_of_true in Q1. apply eqb_of_true in Q2. rewrite (api_split s1 c f'), Q1, Q2.
  destruct (api_req s1 c f'); [reflexivity|discriminate].
Qed.

Lemma abortable_recovers s c f :
  wfb s = true -> st s <> ABORTABLE -> st (api_st s c f) = ABORTABLE ->
  let s1 := api_st s c f in
  exists e, werr s1 = Some e /\ (e = XCode E29 \/ e = XCode E30) /\
    (forall f', api s1 Commit f' = (s1, RRaise e, [])) /\
    (forall f', api s1 CtxOk f' = (s1, RRaise e, [])) /\
    api_res s1 Abort None = ROk /\ st (api_st s1 Abort None) = READY /\
    api_res s1 CtxExc None = ROk /\ st (api_st s1 CtxExc None) = READY /\
    (gap0 s = false -> all_accepted (fst (run (api_st s1 Abort None) healthy_txn)) = true) /\
    (gap1 s = false -> all_accepted (fst (run (api_st s1 Abort None) healthy_txn1)) = true) /\
    st (snd (run (api_st s1 Abort None) healthy_txn)) = READY.
Proof.
  intros W N A s1. pose proof (wsweep_sound _ abortable_sweep s c f W) as P.
  assert (A1 : st s1 = ABORTABLE) by exact A.
  unfold abortable_b in P. cbv zeta in P. fold s1 in P.
  rewrite A1, tst_eqb_eq, (tst_eqb_neq _ _ N) in P.
  change (true && negb false) with true in P. cbv iota in P.
  pose proof (wf_preserved s c f W) as W1. fold s1 in W1.
  destruct (werr s1) as [e|] eqn:We; [|discriminate]. exists e. split; [reflexivity|].
  repeat (apply andb_prop in P; let Q := fresh "Q" in destruct P as [P Q]).
  split.
  { apply orb_prop in P. destruct P as [P|P]; apply eqb_of_true in P; auto. }
  split.
  { intros f'. destruct (abortable_commit_raises s1 Commit f' W1 A1 (or_introl eq_refl)) as (e' & E1 & E2).
    rewrite We in E1. inversion E1; subst e'. exact E2. }
  split.
  { intros f'. destruct (abortable_commit_raises s1 CtxOk f' W1 A1 (or_intror eq_refl)) as (e' & E1 & E2).
    rewrite We in E1. inversion E1; subst e'. exact E2. }
  split; [exact (eqb_of_true _ _ _ Q5)|]. split; [exact (eqb_of_true _ _ _ Q4)|].
  split; [exact (eqb_of_true _ _ _ Q3)|]. split; [exact (eqb_of_true _ _ _ Q2)|].
  split; [intros G; rewrite G in Q1; exact Q1|]. split; [intros G; rewrite G in Q0; exact Q0|].
  exact (eqb_of_true _ _ _ Q).
Qed.

Lemma abortable_cause s c f :
  wfb s = true -> st s <> ABORTABLE -> st (api_st s c f) = ABORTABLE ->
  (exists i, f = Some (i, FErr E29) /\ (pending s = true \/ exists p, c = Send p)) \/
  (exists i, f = Some (i, FErr E30) /\ c = SendOffsets).
Proof.
  intros W N A. pose proof (wsweep_sound _ abortable_cause_sweep s c f W) as P.
  unfold abortable_cause_b in P. rewrite A, tst_eqb_eq, (tst_eqb_neq _ _ N) in P.
  change (negb false && true) with true in P. cbv iota in P.
  destruct f as [[i [k| |]]|]; try discriminate.
  destruct k; try discriminate.
  - left. exists i. split; [reflexivity|].
    destruct (pending s); [left; reflexivity|]. right.
    destruct c; try discriminate. eexists; reflexivity.
  - right. exists i. split; [reflexivity|]. destruct c; try discriminate; reflexivity.
Qed.

Lemma fatal_entry s c f :
  wfb s = true -> st s <> FATAL -> st (api_st s c f) = FATAL ->
  is_error (api_res s c f) = true /\
  (werr (api_st s c f) = exn_of (api_res s c f) \/
   (awaits_first s c = true /\ fut_is (werr (api_st s c f)) (api_fut s c f) = true)) /\
  is_empty_txn (api_st s c f) = true.
Proof.
  intros W N A. pose proof (wsweep_sound _ fatal_entry_sweep s c f W) as P.
  unfold fatal_entry_b in P. rewrite A, tst_eqb_eq, (tst_eqb_neq _ _ N) in P.
  change (negb false && true) with true in P. cbv iota in P.
  apply andb_prop in P. destruct P as [P R]. apply andb_prop in P. destruct P as [P Q].
  split; [exact P|]. split; [|exact R].
  apply orb_prop in Q. destruct Q as [Q|Q].
  - left. apply eqb_of_true in Q. exact Q.
  - right. apply andb_prop in Q. exact Q.
Qed.

Lemma fatal_raise s c f e :
  wfb s = true -> api_res s c f = RRaise e -> fatal_exn e = true -> st (api_st s c f) = FATAL.
Proof.
  intros W R F. pose proof (wsweep_sound _ fatal_raise_sweep s c f W) as P.
  unfold fatal_raise_b in P. rewrite R, F in P. apply tst_eqb_true in P. exact P.
Qed.

(* abort after an abortable error ends the transaction at the coordinator whenever anything had
   been registered there (partitions or the consumer group) *)
Definition abort_sends_endtxn_b (s : tstate) (c : call) (f : fault) : bool :=
  tst_eqb (st s) ABORTABLE ==>
  reqs_eqb (api_req s Abort None) (if is_empty_txn s then [] else [REndTxn false])
  && reqs_eqb (api_req s CtxExc None) (if is_empty_txn s then [] else [REndTxn false]).
Lemma abort_sends_endtxn_sweep : wsweep abort_sends_endtxn_b = true.
Proof. vm_compute. reflexivity. Qed.
Lemma abort_sends_endtxn s :
  wfb s = true -> st s = ABORTABLE ->
  api_req s Abort None = (if is_empty_txn s then [] else [REndTxn false]) /\
  api_req s CtxExc None = (if is_empty_txn s then [] else [REndTxn false]).
Proof.
  intros W A. pose proof (wsweep_sound _ abort_sends_endtxn_sweep s Begin None W) as P.
  unfold abort_sends_endtxn_b in P. rewrite A, tst_eqb_eq in P.
  apply andb_prop in P. destruct P as [P Q]. split; apply eqb_of_true in P; apply eqb_of_true in Q; auto.
Qed.

(* entering ABORTABLE_ERROR keeps the registered partitions and group *)
Definition abortable_keeps_b (s : tstate) (c : call) (f : fault) : bool :=
  (tst_eqb (st (api_st s c f)) ABORTABLE && negb (tst_eqb (st s) ABORTABLE)) ==>
  (implb (p0 s) (p0 (api_st s c f)) && implb (p1 s) (p1 (api_st s c f))
   && implb (grp s) (grp (api_st s c f)) && is_error (api_res s c f)
   && (negb (pending s) ==> (Bool.eqb (p0 (api_st s c f)) (p0 s) && Bool.eqb (p1 (api_st s c f)) (p1 s)))).
Lemma abortable_keeps_sweep : wsweep abortable_keeps_b = true.
Proof. vm_compute. reflexivity. Qed.
Lemma abortable_keeps s c f :
  wfb s = true -> st s <> ABORTABLE -> st (api_st s c f) = ABORTABLE ->
  (p0 s = true -> p0 (api_st s c f) = true) /\ (p1 s = true -> p1 (api_st s c f) = true) /\
  (grp s = true -> grp (api_st s c f) = true) /\
  is_error (api_res s c f) = true /\
  (pending s = false -> p0 (api_st s c f) = p0 s /\ p1 (api_st s c f) = p1 s).
Proof.
  intros W N A. pose proof (wsweep_sound _ abortable_keeps_sweep s c f W) as P.
  unfold abortable_keeps_b in P. rewrite A, tst_eqb_eq, (tst_eqb_neq _ _ N) in P.
  change (true && negb false) with true in P. cbv iota in P.
  apply andb_prop in P. destruct P as [P E]. apply andb_prop in P. destruct P as [P R].
  apply andb_prop in P. destruct P as [P G]. apply andb_prop in P. destruct P as [P0 P1].
  split; [intros K; rewrite K in P0; exact P0|]. split; [intros K; rewrite K in P1; exact P1|].
  split; [intros K; rewrite K in G; exact G|]. split; [exact R|].
  intros K. rewrite K in E. simpl in E. apply andb_prop in E. destruct E as [E0 E1].
  split; apply eqb_prop; assumption.
Qed.

(* ---------- the transition table against the hand-written specification ----------------------- *)
Lemma table_meets_spec : forall s t,
  (spec_must s t = true -> table s t = true) /\ (table s t = true -> spec_may s t = true).
Proof. intros s t. destruct s, t; vm_compute; split; intros H; try reflexivity; try discriminate H. Qed.

(* ---------- an abortable error that arrives while the transaction is being ended --------------- *)
(* nowait sends to a partition the transaction does not have yet, then commit / abort / context exit
   at once: the AddPartitionsToTxn is sent while the manager is COMMITTING / ABORTING.  If it is
   refused with TOPIC_AUTHORIZATION_FAILED the call raises that error, the producer is in
   ABORTABLE_ERROR with what was registered before, the waiting batches are failed with the error and
   never produced, no EndTxn is sent. *)
Definition unregistered (s : tstate) : pset := (nw0 s && negb (p0 s), nw1 s && negb (p1 s)).
Definition registered_nw (s : tstate) : pset := (nw0 s && p0 s, nw1 s && p1 s).
Definition fut_failed_for (B : pset) (e : exn) (fu : futs) : bool :=
  (fst B ==> eqb_of ores_eq_dec (fst fu) (Some (RFutFail e)))
  && (snd B ==> eqb_of ores_eq_dec (snd fu) (Some (RFutFail e))).
Definition ending_error_b (s : tstate) (c : call) (f : fault) : bool :=
  (tst_eqb (st s) IN_TXN && is_end c && negb (is_none (unregistered s))) ==>
    (let f29 := Some (I0, FErr E29) in
     tst_eqb (st (api_st s c f29)) ABORTABLE
     && result_eqb (api_res s c f29) (RRaise (XCode E29))
     && werr_eqb (werr (api_st s c f29)) (Some (XCode E29))
     && reqs_eqb (api_req s c f29)
          (RAddPartitions (unregistered s)
           :: (if is_none (registered_nw s) then [] else [RProduce (registered_nw s)]))
     && fut_failed_for (unregistered s) (XCode E29) (api_fut s c f29)
     && Bool.eqb (p0 (api_st s c f29)) (p0 s) && Bool.eqb (p1 (api_st s c f29)) (p1 s)
     && Bool.eqb (grp (api_st s c f29)) (grp s)).
Lemma ending_error_sweep : wsweep ending_error_b = true.
Proof. vm_compute. reflexivity. Qed.

Lemma ending_error s c :
  wfb s = true -> st s = IN_TXN -> is_end c = true -> is_none (unregistered s) = false ->
  let f29 := Some (I0, FErr E29) in
  st (api_st s c f29) = ABORTABLE /\ api_res s c f29 = RRaise (XCode E29) /\
  werr (api_st s c f29) = Some (XCode E29) /\
  api_req s c f29 = RAddPartitions (unregistered s)
                    :: (if is_none (registered_nw s) then [] else [RProduce (registered_nw s)]) /\
  fut_failed_for (unregistered s) (XCode E29) (api_fut s c f29) = true /\
  p0 (api_st s c f29) = p0 s /\ p1 (api_st s c f29) = p1 s /\ grp (api_st s c f29) = grp s.
Proof.
  intros W I E U f29. pose proof (wsweep_sound _ ending_error_sweep s c None W) as P.
  unfold ending_error_b in P. rewrite I, tst_eqb_eq, E, U in P.
  change (true && true && negb false) with true in P. cbv iota zeta in P. fold f29 in P.
  repeat (apply andb_prop in P; let Q := fresh "Q" in destruct P as [P Q]).
  split; [exact (eqb_of_true _ _ _ P)|]. split; [exact (eqb_of_true _ _ _ Q5)|].
  split; [exact (eqb_of_true _ _ _ Q4)|]. split; [exact (eqb_of_true _ _ _ Q3)|].
  split; [exact Q2|]. split; [apply eqb_prop; exact Q1|]. split; apply eqb_prop; assumption.
Qed.

(* with no fault, or faults every handler retries, and no sequence gap, the awaited futures of the
   nowait sends succeed *)
Lemma nowait_futures_ok s c f i :
  wfb s = true -> inside_of s = Some i -> benign f = true -> dfa_next i c <> None ->
  futs_ok (api_fut s c f) = true.
Proof.
  intros W I B D. pose proof (wsweep_sound _ lang_step_sweep s c f W) as P.
  unfold lang_step_b in P. rewrite I, B in P.
  destruct (dfa_next i c); [|congruence].
  apply andb_prop in P. destruct P as [P _]. apply andb_prop in P. destruct P as [_ P]. exact P.
Qed.
