(* Per-step facts of the quiet-period model: the invariant is preserved and the variant behaves.
   Infrastructure: dead members, disjointness, frames, orphan counts, the "local step" master lemma. *)
From Coq Require Import ZArith List Bool Arith Lia.
From Verif Require Import DispatchActs HeartbeatDispatch JoinRetryDispatch JoinDispatch SyncDispatch CommitDispatch
  C06_Converge C06_conv_lib C06_conv_refl C06_conv_abs C06_conv_checks.
Import ListNotations.
Local Open Scope nat_scope.

(* ---- dead members are invisible ---- *)
Lemma dead_trivial : forall c m, m_live m = false ->
  wf_m c m = true /\ coh c m = true /\ tw c m = 0 /\ mp c m = 0 /\ settled c m = true.
Proof.
  intros c m L. unfold wf_m, coh, tw, mp, settled, wf_a, coh_a, tw_a, mp_a, settled_a, cls_a, absm. pcbn. rewrite L.
  repeat split; reflexivity.
Qed.

(* ---- invariant, unpacked ---- *)
Record inv_facts (c : coord) (ms : list member) : Prop := {
  iv_wfc : wf_c c = true;
  iv_wfm : forall m, In m ms -> wf_m c m = true;
  iv_coh : forall m, In m ms -> coh c m = true;
  iv_names : NoDup (map m_name ms);
  iv_disj : pairwise disjoint_m ms = true }.
Lemma inv_unpack : forall c ms, inv_b (mkS c ms) = true -> inv_facts c ms.
Proof.
  intros c ms H. unfold inv_b in H. cbn [s_c s_ms] in H.
  apply andb_true_iff in H; destruct H as [H A5]. apply andb_true_iff in H; destruct H as [H A4].
  apply andb_true_iff in H; destruct H as [H A3]. apply andb_true_iff in H; destruct H as [A1 A2].
  rewrite forallb_forall in A2, A3. apply nodupb_NoDup in A4. constructor; assumption.
Qed.
Lemma inv_pack : forall c ms, inv_facts c ms -> inv_b (mkS c ms) = true.
Proof.
  intros c ms [A1 A2 A3 A4 A5]. unfold inv_b. cbn [s_c s_ms]. rewrite A1, A5.
  assert (forallb (wf_m c) ms = true) as -> by (apply forallb_forall; exact A2).
  assert (forallb (coh c) ms = true) as -> by (apply forallb_forall; exact A3).
  apply nodupb_NoDup in A4. rewrite A4. reflexivity.
Qed.

(* ---- the ids a member is bound to ---- *)
Definition has_id (m : member) (x : nat) : Prop := x <> 0 /\ (m_id m = x \/ focus_of m = x).
Definition disj (a b : member) : Prop :=
  m_live a = true -> m_live b = true -> forall x, has_id a x -> has_id b x -> False.

Lemma bound_has_id : forall m x, x <> 0 -> (bound m x = true <-> (m_live m = true /\ has_id m x)).
Proof.
  intros m x Hx. unfold bound, has_id, focus_of. split.
  - intros H. apply andb_true_iff in H. destruct H as [L H]. split; [exact L|]. split; [exact Hx|].
    apply orb_true_iff in H. destruct H as [H|H]; [left; apply Nat.eqb_eq; exact H|].
    apply andb_true_iff in H. destruct H as [P F]. right. rewrite P. apply Nat.eqb_eq. exact F.
  - intros [L [_ [H|H]]]; rewrite L; cbn [andb].
    + apply orb_true_iff. left. apply Nat.eqb_eq. exact H.
    + apply orb_true_iff. right. destruct (ph_eqb (m_ph m) PJoinSent); [apply Nat.eqb_eq; exact H | congruence].
Qed.

Lemma disjoint_m_disj : forall a b, disjoint_m a b = true -> disj a b.
Proof.
  intros a b H La Lb x [Hx Ha] Hb. unfold disjoint_m in H. rewrite La in H. cbn [negb orb] in H.
  rewrite orb_false_r in H. apply andb_true_iff in H. destruct H as [H1 H2].
  assert (Bb : bound b x = true) by (apply bound_has_id; [exact Hx | split; assumption]).
  destruct Ha as [Ha|Ha]; subst x.
  - rewrite Bb in H1. cbn [andb] in H1. apply negb_true_iff in H1. apply negb_false_iff in H1. apply Nat.eqb_eq in H1. congruence.
  - rewrite Bb in H2. cbn [andb] in H2. apply negb_true_iff in H2. apply negb_false_iff in H2. apply Nat.eqb_eq in H2. congruence.
Qed.

Lemma disj_disjoint_m : forall a b, disj a b -> disjoint_m a b = true.
Proof.
  intros a b H. unfold disjoint_m. destruct (m_live a) eqn:La; [|rewrite orb_true_r; reflexivity]. cbn [negb orb andb].
  rewrite orb_false_r. destruct (m_live b) eqn:Lb; [|unfold bound; rewrite Lb; reflexivity].
  apply andb_true_iff. split.
  - destruct (Nat.eqb_spec (m_id a) 0) as [E|E]; [rewrite andb_false_r; reflexivity|]. cbn [negb]. rewrite andb_true_r.
    destruct (bound b (m_id a)) eqn:B; [|reflexivity]. exfalso.
    apply bound_has_id in B; [|exact E]. destruct B as [_ B]. apply (H La Lb (m_id a)); [split; auto | exact B].
  - destruct (Nat.eqb_spec (focus_of a) 0) as [E|E]; [rewrite andb_false_r; reflexivity|]. cbn [negb]. rewrite andb_true_r.
    destruct (bound b (focus_of a)) eqn:B; [|reflexivity]. exfalso.
    apply bound_has_id in B; [|exact E]. destruct B as [_ B]. apply (H La Lb (focus_of a)); [split; auto | exact B].
Qed.

Lemma disj_sym : forall a b, disj a b -> disj b a.
Proof. intros a b H Lb La x Hb Ha. exact (H La Lb x Ha Hb). Qed.

Lemma pairwise_all : forall ms, pairwise disjoint_m ms = true -> NoDup (map m_name ms) ->
  forall a b, In a ms -> In b ms -> m_name a <> m_name b -> disj a b.
Proof.
  induction ms as [|h r IH]; intros H ND a b Ha Hb Hn; [inversion Ha|].
  cbn [pairwise] in H. apply andb_true_iff in H. destruct H as [H1 H2]. rewrite forallb_forall in H1.
  cbn [map] in ND. inversion ND as [|? ? _ ND']; subst.
  destruct Ha as [<-|Ha], Hb as [<-|Hb].
  - congruence.
  - apply disjoint_m_disj. apply H1. exact Hb.
  - apply disj_sym. apply disjoint_m_disj. apply H1. exact Ha.
  - apply (IH H2 ND' a b Ha Hb Hn).
Qed.

Lemma pairwise_of_all : forall ms, (forall a b, In a ms -> In b ms -> m_name a <> m_name b -> disj a b) ->
  NoDup (map m_name ms) -> pairwise disjoint_m ms = true.
Proof.
  induction ms as [|h r IH]; intros H ND; [reflexivity|]. cbn [pairwise]. cbn [map] in ND. inversion ND as [|? ? Hnot ND']; subst.
  apply andb_true_iff. split.
  - apply forallb_forall. intros b Hb. apply disj_disjoint_m. apply H; [left; reflexivity | right; exact Hb|].
    intro E. apply Hnot. rewrite E. apply in_map. exact Hb.
  - apply IH; [|exact ND']. intros a b Ha Hb Hn. apply H; [right; exact Ha | right; exact Hb | exact Hn].
Qed.

(* ---- frames: a coordinator change about the id x0 is invisible to a member that does not have x0 ---- *)
Lemma absm_frame : forall c c' m, c_st c' = c_st c -> c_gen c' = c_gen c -> zfacts c -> zfacts c' ->
  (forall x, has_id m x -> memb x (ids (c_ents c')) = memb x (ids (c_ents c)) /\ memb x (c_pend c') = memb x (c_pend c)
                           /\ ent_jp c' x = ent_jp c x /\ ent_sp c' x = ent_sp c x) ->
  absm c' m = absm c m.
Proof.
  intros c c' m Hst Hg (Z1 & Z2 & Z3 & Z4) (Z1' & Z2' & Z3' & Z4') H. unfold absm. rewrite Hst, Hg.
  assert (Hid : memb (m_id m) (ids (c_ents c')) = memb (m_id m) (ids (c_ents c)) /\ memb (m_id m) (c_pend c') = memb (m_id m) (c_pend c)
                /\ ent_jp c' (m_id m) = ent_jp c (m_id m) /\ ent_sp c' (m_id m) = ent_sp c (m_id m)).
  { destruct (Nat.eq_dec (m_id m) 0) as [E|E]; [rewrite E, Z1, Z2, Z3, Z4, Z1', Z2', Z3', Z4'; auto|].
    apply H. split; [exact E | left; reflexivity]. }
  assert (Hf : memb (focus_of m) (ids (c_ents c')) = memb (focus_of m) (ids (c_ents c)) /\ memb (focus_of m) (c_pend c') = memb (focus_of m) (c_pend c)
                /\ ent_jp c' (focus_of m) = ent_jp c (focus_of m) /\ ent_sp c' (focus_of m) = ent_sp c (focus_of m)).
  { destruct (Nat.eq_dec (focus_of m) 0) as [E|E]; [rewrite E, Z1, Z2, Z3, Z4, Z1', Z2', Z3', Z4'; auto|].
    apply H. split; [exact E | right; reflexivity]. }
  destruct Hid as (A1 & A2 & A3 & A4). destruct Hf as (B1 & B2 & B3 & B4).
  cbv zeta. rewrite A1, A2, A3, A4, B1, B2, B3, B4. reflexivity.
Qed.

(* list facts about the coordinator's table *)
Lemma ids_set_jp : forall x v es, ids (set_jp x v es) = ids es.
Proof. intros. unfold ids, set_jp. rewrite map_map. apply map_ext. intros e. destruct (e_id e =? x); reflexivity. Qed.
Lemma ids_set_sp : forall x v es, ids (set_sp x v es) = ids es.
Proof. intros. unfold ids, set_sp. rewrite map_map. apply map_ext. intros e. destruct (e_id e =? x); reflexivity. Qed.
Lemma ids_clear_jp : forall es, ids (clear_jp es) = ids es.
Proof. intros. unfold ids, clear_jp. rewrite map_map. reflexivity. Qed.
Lemma ids_clear_sp : forall es, ids (clear_sp es) = ids es.
Proof. intros. unfold ids, clear_sp. rewrite map_map. reflexivity. Qed.
Lemma ids_app : forall a b, ids (a ++ b) = ids a ++ ids b.
Proof. intros. unfold ids. apply map_app. Qed.

Lemma memb_app : forall x a b, memb x (a ++ b) = memb x a || memb x b.
Proof. intros. unfold memb. apply existsb_app. Qed.
Lemma memb_remove_other : forall x y l, x <> y -> memb x (remove_id y l) = memb x l.
Proof.
  intros x y l H. induction l as [|a r IH]; [reflexivity|]. unfold remove_id, memb in *. cbn [filter].
  destruct (Nat.eqb_spec a y) as [E|E]; cbn [negb existsb].
  - rewrite IH. subst a. destruct (Nat.eqb_spec x y); [contradiction | reflexivity].
  - cbn [existsb]. rewrite IH. reflexivity.
Qed.
Lemma memb_remove_same : forall y l, memb y (remove_id y l) = false.
Proof.
  intros y l. induction l as [|a r IH]; [reflexivity|]. unfold remove_id, memb in *. cbn [filter].
  destruct (Nat.eqb_spec a y) as [E|E]; cbn [negb existsb]; [exact IH|].
  cbn [existsb]. rewrite IH. destruct (Nat.eqb_spec y a); [congruence | reflexivity].
Qed.

Definition flag_of (fl : entry -> bool) (x : nat) (es : list entry) : bool :=
  match find_ent x es with Some e => fl e | None => false end.
Lemma ent_jp_flag : forall c x, ent_jp c x = flag_of e_jp x (c_ents c). Proof. reflexivity. Qed.
Lemma ent_sp_flag : forall c x, ent_sp c x = flag_of e_sp x (c_ents c). Proof. reflexivity. Qed.

Lemma find_ent_map : forall (g : entry -> entry) x es, (forall e, e_id (g e) = e_id e) ->
  find_ent x (map g es) = option_map g (find_ent x es).
Proof.
  intros g x es Hg. induction es as [|e r IH]; [reflexivity|]. unfold find_ent in *. cbn [map find]. rewrite Hg.
  destruct (e_id e =? x); [reflexivity | exact IH].
Qed.
Lemma find_ent_id : forall x es e, find_ent x es = Some e -> e_id e = x.
Proof. intros x es e H. unfold find_ent in H. apply find_some in H. destruct H as [_ H]. apply Nat.eqb_eq. exact H. Qed.

Lemma flag_set_jp : forall x v y es,
  flag_of e_jp y (set_jp x v es) = (if (y =? x) && memb y (ids es) then v else flag_of e_jp y es)
  /\ flag_of e_sp y (set_jp x v es) = flag_of e_sp y es.
Proof.
  intros x v y es. unfold flag_of, set_jp. rewrite find_ent_map; [|intros e; destruct (e_id e =? x); reflexivity].
  destruct (find_ent y es) as [e|] eqn:F; cbn [option_map].
  - pose proof (find_ent_id _ _ _ F) as Ei. assert (M : memb y (ids es) = true).
    { apply memb_In. unfold find_ent in F. apply find_some in F. destruct F as [Hin _]. rewrite <- Ei. apply in_map. exact Hin. }
    rewrite M, andb_true_r. rewrite Ei. destruct (y =? x); split; reflexivity.
  - assert (M : memb y (ids es) = false).
    { destruct (memb y (ids es)) eqn:M; [|reflexivity]. exfalso. apply memb_In in M. unfold ids in M. apply in_map_iff in M.
      destruct M as [e [Ee Hin]]. unfold find_ent in F. apply (find_none _ _ F) in Hin. rewrite Ee, Nat.eqb_refl in Hin. discriminate. }
    rewrite M, andb_false_r. split; reflexivity.
Qed.
Lemma flag_set_sp : forall x v y es,
  flag_of e_sp y (set_sp x v es) = (if (y =? x) && memb y (ids es) then v else flag_of e_sp y es)
  /\ flag_of e_jp y (set_sp x v es) = flag_of e_jp y es.
Proof.
  intros x v y es. unfold flag_of, set_sp. rewrite find_ent_map; [|intros e; destruct (e_id e =? x); reflexivity].
  destruct (find_ent y es) as [e|] eqn:F; cbn [option_map].
  - pose proof (find_ent_id _ _ _ F) as Ei. assert (M : memb y (ids es) = true).
    { apply memb_In. unfold find_ent in F. apply find_some in F. destruct F as [Hin _]. rewrite <- Ei. apply in_map. exact Hin. }
    rewrite M, andb_true_r. rewrite Ei. destruct (y =? x); split; reflexivity.
  - assert (M : memb y (ids es) = false).
    { destruct (memb y (ids es)) eqn:M; [|reflexivity]. exfalso. apply memb_In in M. unfold ids in M. apply in_map_iff in M.
      destruct M as [e [Ee Hin]]. unfold find_ent in F. apply (find_none _ _ F) in Hin. rewrite Ee, Nat.eqb_refl in Hin. discriminate. }
    rewrite M, andb_false_r. split; reflexivity.
Qed.
Lemma flag_clear : forall y es,
  flag_of e_jp y (clear_jp es) = false /\ flag_of e_sp y (clear_jp es) = flag_of e_sp y es
  /\ flag_of e_sp y (clear_sp es) = false /\ flag_of e_jp y (clear_sp es) = flag_of e_jp y es.
Proof.
  intros y es. unfold flag_of, clear_jp, clear_sp. rewrite !find_ent_map; try (intros; reflexivity).
  destruct (find_ent y es); repeat split; reflexivity.
Qed.
Lemma find_ent_app : forall x a b, find_ent x (a ++ b) = match find_ent x a with Some e => Some e | None => find_ent x b end.
Proof.
  intros x a b. unfold find_ent. induction a as [|e r IH]; [reflexivity|]. cbn [app find]. destruct (e_id e =? x); [reflexivity | exact IH].
Qed.
Lemma flag_app_new : forall (fl : entry -> bool) y es e, memb (e_id e) (ids es) = false ->
  flag_of fl y (es ++ [e]) = if y =? e_id e then fl e else flag_of fl y es.
Proof.
  intros fl y es e H. unfold flag_of. rewrite find_ent_app. destruct (find_ent y es) as [e0|] eqn:F.
  - pose proof (find_ent_id _ _ _ F) as Ei. destruct (Nat.eqb_spec y (e_id e)) as [E|E]; [|reflexivity].
    exfalso. apply memb_false_In in H. apply H. rewrite <- E, <- Ei. unfold find_ent in F. apply find_some in F.
    destruct F as [Hin _]. apply in_map. exact Hin.
  - unfold find_ent. cbn [find]. rewrite (Nat.eqb_sym (e_id e) y). destruct (y =? e_id e); reflexivity.
Qed.

(* ---- orphan counts ---- *)
Definition orph (ms : list member) (x : nat) : bool := negb (existsb (fun m => bound m x) ms).
Lemma count_orphans_ids : forall c ms, count_orphans (mkS c ms) = length (filter (orph ms) (ids (c_ents c))).
Proof.
  intros c ms. unfold count_orphans. cbn [s_c s_ms]. induction (c_ents c) as [|e r IH]; [reflexivity|].
  cbn [filter ids map]. unfold orphan at 1. fold (orph ms (e_id e)). destruct (orph ms (e_id e)); cbn [length]; unfold ids in IH; rewrite IH; reflexivity.
Qed.

Lemma count_le_lost : forall (P P' Q : nat -> bool) l,
  (forall x, In x l -> P' x = true -> P x = true \/ Q x = true) ->
  length (filter P' l) <= length (filter P l) + length (filter Q l).
Proof.
  intros P P' Q l. induction l as [|a r IH]; intros H; [cbn; lia|].
  assert (IH' : length (filter P' r) <= length (filter P r) + length (filter Q r)) by (apply IH; intros; apply H; [right|]; assumption).
  cbn [filter]. destruct (P' a) eqn:Ea.
  - destruct (H a (or_introl eq_refl) Ea) as [E|E]; rewrite E; cbn [length]; destruct (P a), (Q a); cbn [length]; lia.
  - destruct (P a), (Q a); cbn [length]; lia.
Qed.

Lemma count_two : forall (Q : nat -> bool) l y z, NoDup l -> (forall x, In x l -> Q x = true -> x = y \/ x = z) ->
  length (filter Q l) <= (if Q y && memb y l then 1 else 0) + (if Q z && memb z l && negb (z =? y) then 1 else 0).
Proof.
  intros Q l y z ND H.
  set (L := (if Q y && memb y l then [y] else []) ++ (if Q z && memb z l && negb (z =? y) then [z] else [])).
  assert (HL : length L = (if Q y && memb y l then 1 else 0) + (if Q z && memb z l && negb (z =? y) then 1 else 0)).
  { unfold L. rewrite app_length. destruct (Q y && memb y l), (Q z && memb z l && negb (z =? y)); reflexivity. }
  rewrite <- HL. apply NoDup_incl_length; [apply NoDup_filter; exact ND|].
  intros x Hx. apply filter_In in Hx. destruct Hx as [Hin Qx]. unfold L. apply in_or_app.
  assert (Mx : memb x l = true) by (apply memb_In; exact Hin).
  destruct (H x Hin Qx) as [E|E]; subst x.
  - left. rewrite Qx, Mx. left. reflexivity.
  - destruct (Nat.eqb_spec z y) as [E|E].
    + subst z. left. rewrite Qx, Mx. left. reflexivity.
    + right. rewrite Qx, Mx. left. reflexivity.
Qed.

Lemma orph_step : forall ms g i m x, NoDup (map m_name ms) -> getm i ms = Some m ->
  (forall m0, In m0 ms -> m_name m0 <> i -> bound (g m0) x = bound m0 x) ->
  orph (map g ms) x = true -> orph ms x = true \/ (bound m x = true /\ bound (g m) x = false).
Proof.
  intros ms g i m x ND G Ho H. unfold orph in *. apply negb_true_iff in H.
  destruct (existsb (fun m0 => bound m0 x) ms) eqn:E; [|left; reflexivity]. right.
  apply existsb_exists in E. destruct E as [m0 [Hin Hb]].
  assert (Hall : forall m1, In m1 ms -> bound (g m1) x = false).
  { intros m1 H1. destruct (bound (g m1) x) eqn:B; [|reflexivity]. exfalso.
    assert (existsb (fun m0 => bound m0 x) (map g ms) = true); [|congruence].
    apply existsb_exists. exists (g m1). split; [apply in_map; exact H1 | exact B]. }
  destruct (Nat.eq_dec (m_name m0) i) as [En|En].
  - pose proof (getm_unique i ms m ND G m0 Hin En) as Em. subst m0. split; [exact Hb | apply Hall; exact Hin].
  - exfalso. pose proof (Hall m0 Hin) as B. rewrite (Ho m0 Hin En) in B. congruence.
Qed.

(* ---- arithmetic of the variant ---- *)
Lemma mu_cmp : forall t t' e e' B S S', S' < B -> t' * 4 + e' < t * 4 + e -> (t' * 4 + e') * B + S' < (t * 4 + e) * B + S.
Proof.
  intros t t' e e' B S S' HS H. assert ((t' * 4 + e' + 1) * B <= (t * 4 + e) * B) by (apply Nat.mul_le_mono_r; lia). lia.
Qed.
Lemma mu_cmp_eq : forall t t' e B S S', S' < B -> t' <= t -> S' < S -> (t' * 4 + e) * B + S' < (t * 4 + e) * B + S.
Proof.
  intros t t' e B S S' HB Ht HS. destruct (Nat.eq_dec t' t) as [->|Hn]; [lia|]. apply mu_cmp; [exact HB | lia].
Qed.
Lemma mu_cmp_le : forall t t' e B S S', S' < B -> t' <= t -> S' <= S -> (t' * 4 + e) * B + S' <= (t * 4 + e) * B + S.
Proof.
  intros t t' e B S S' HB Ht HS. destruct (Nat.eq_dec t' t) as [->|Hn]; [lia|].
  assert ((t' * 4 + e) * B + S' < (t * 4 + e) * B + S) by (apply mu_cmp; [exact HB | lia]). lia.
Qed.

(* ---- using the evaluated checks on a concrete member ---- *)
Lemma use_check_w : forall pre chk c m, forall_av pre chk = true -> wf_cw c -> m_live m = true -> wf_m c m = true ->
  fin_of pre (absm c m) = true -> chk (absm c m) = true.
Proof. intros pre chk c m H Hc L W P. apply (forall_av_spec pre chk H); [apply cons_absm_w; assumption | exact P]. Qed.
Lemma use_check : forall pre chk c m, forall_av pre chk = true -> wf_c c = true -> m_live m = true -> wf_m c m = true ->
  fin_of pre (absm c m) = true -> chk (absm c m) = true.
Proof. intros pre chk c m H Hc. apply use_check_w; [exact H | apply wf_cw_of_wf; exact Hc]. Qed.

Lemma wf_pre : forall a, a_live a = true -> wf_a a = true -> fin_of pre_wf a = true.
Proof.
  intros a L W. destruct a as [live ph rejoin ck hb ib hbin cmin st G0 idz id_e id_p id_jp id_sp genz gen_eq gen_le
                                 fz f_e f_p f_jp f_sp f_id gz g_eq g_le].
  unfold wf_a, fin_of, pre_wf in *. cbn [a_live a_ph a_ib a_rejoin a_ck a_hb a_hbin a_cmin a_st a_idz a_genz a_fz a_f_id a_gz] in *.
  subst live. cbn [negb orb andb] in *.
  apply andb_true_iff in W; destruct W as [W W10]. apply andb_true_iff in W; destruct W as [W W9].
  apply andb_true_iff in W; destruct W as [W W8]. apply andb_true_iff in W; destruct W as [W W7].
  apply andb_true_iff in W; destruct W as [W W6]. apply andb_true_iff in W; destruct W as [W W5].
  apply andb_true_iff in W; destruct W as [W W4]. apply andb_true_iff in W; destruct W as [W W3].
  apply andb_true_iff in W; destruct W as [W1 W2].
  rewrite W2, W4. rewrite !andb_true_r.
  apply andb_true_iff. split.
  - destruct ph, ib; try discriminate; try reflexivity.
    apply andb_true_iff in W1. destruct W1 as [W1 _]. apply andb_true_iff in W1. destruct W1 as [W1 _]. exact W1.
  - destruct (ck_stale ck); [|reflexivity]. cbn [negb orb] in *. apply andb_true_iff in W8. destruct W8 as [W8 _]. exact W8.
Qed.

Lemma mp_le_1023 : forall c m, wf_c c = true -> wf_m c m = true -> mp c m <= 1023.
Proof.
  intros c m Hc W. destruct (m_live m) eqn:L; [|destruct (dead_trivial c m L) as (_ & _ & _ & E & _); rewrite E; lia].
  pose proof (use_check pre_wf chk_bounds c m ok_bounds Hc L W (wf_pre (absm c m) L W)) as H.
  unfold chk_bounds in H. unfold wf_m in W. rewrite W in H. cbn [negb orb] in H. apply andb_true_iff in H. destruct H as [H _].
  apply Nat.leb_le in H. exact H.
Qed.
Lemma tw_le_2 : forall c m, wf_c c = true -> wf_m c m = true -> tw c m <= 2.
Proof.
  intros c m Hc W. destruct (m_live m) eqn:L; [|destruct (dead_trivial c m L) as (_ & _ & E & _); rewrite E; lia].
  pose proof (use_check pre_wf chk_bounds c m ok_bounds Hc L W (wf_pre (absm c m) L W)) as H.
  unfold chk_bounds in H. unfold wf_m in W. rewrite W in H. cbn [negb orb] in H. apply andb_true_iff in H. destruct H as [_ H].
  apply Nat.leb_le in H. exact H.
Qed.
Lemma sum_mp_bound : forall c ms, wf_c c = true -> (forall m, In m ms -> wf_m c m = true) ->
  sum (map (mp c) ms) < 1024 * S (length ms).
Proof.
  intros c ms Hc H. assert (sum (map (mp c) ms) <= 1023 * length ms).
  { apply sum_map_bound. intros m Hm. apply mp_le_1023; [exact Hc | apply H; exact Hm]. }
  lia.
Qed.

(* ---- the master lemma for a step of member [i] that only this member can see ---- *)
Definition mu_behaves (real : bool) (s s' : state) : Prop := if real then mu s' < mu s else mu s' <= mu s.

Lemma good_parts : forall a a' dk real, good a a' dk real = true ->
  a_live a' = true /\ wf_a a' = true /\ coh_a a' = true /\ tw_a a' + dk <= tw_a a
  /\ (if real then mp_a a' < mp_a a else mp_a a' <= mp_a a).
Proof.
  intros a a' dk real H. unfold good, inv_a in H.
  apply andb_true_iff in H; destruct H as [H H4]. apply andb_true_iff in H; destruct H as [H H3].
  apply andb_true_iff in H; destruct H as [H1 H2]. apply andb_true_iff in H2; destruct H2 as [H2 H2'].
  apply Nat.leb_le in H3. repeat split; try assumption.
  destruct real; [apply Nat.ltb_lt | apply Nat.leb_le]; exact H4.
Qed.

Lemma local_step : forall c c' ms i m F dk real,
  inv_facts c ms -> getm i ms = Some m -> m_live m = true ->
  (forall m0, m_name (F m0) = m_name m0) ->
  wf_c c' = true -> erank c' = erank c ->
  (forall m0, In m0 ms -> m_name m0 <> i -> m_live m0 = true -> absm c' m0 = absm c m0) ->
  good (absm c m) (absm c' (F m)) dk real = true ->
  (forall x, has_id (F m) x -> has_id m x \/ (forall m0, In m0 ms -> m_name m0 <> i -> ~ has_id m0 x)) ->
  count_orphans (mkS c' (updm i F ms)) <= count_orphans (mkS c ms) + dk ->
  inv_facts c' (updm i F ms) /\ mu_behaves real (mkS c ms) (mkS c' (updm i F ms)).
Proof.
  intros c c' ms i m F dk real [Hwc Hwm Hcoh Hnd Hdj] G L Hn Hwc' Her Hfr Hgood Hids HK.
  destruct (good_parts _ _ _ _ Hgood) as (L' & W' & C' & Htw & Hmp).
  destruct (getm_In i ms m G) as [Hin Hname].
  assert (Hoth : forall m0, In m0 ms -> m_name m0 <> i -> wf_m c' m0 = true /\ coh c' m0 = true /\ tw c' m0 = tw c m0 /\ mp c' m0 = mp c m0).
  { intros m0 H0 Hn0. destruct (m_live m0) eqn:L0.
    - unfold wf_m, coh, tw, mp. rewrite (Hfr m0 H0 Hn0 L0). repeat split; [apply Hwm | apply Hcoh]; exact H0.
    - destruct (dead_trivial c m0 L0) as (_ & _ & T & M & _). destruct (dead_trivial c' m0 L0) as (A & B & T' & M' & _).
      rewrite T, M, T', M'. repeat split; assumption. }
  assert (Hinv : inv_facts c' (updm i F ms)).
  { constructor.
    - exact Hwc'.
    - intros m' H'. apply in_updm in H'. destruct H' as [m0 [H0 [[En ->]|[En ->]]]].
      + rewrite (getm_unique i ms m Hnd G m0 H0 En). exact W'.
      + apply (Hoth m0 H0 En).
    - intros m' H'. apply in_updm in H'. destruct H' as [m0 [H0 [[En ->]|[En ->]]]].
      + rewrite (getm_unique i ms m Hnd G m0 H0 En). exact C'.
      + apply (Hoth m0 H0 En).
    - rewrite (updm_names i F ms Hn). exact Hnd.
    - apply pairwise_of_all; [|rewrite (updm_names i F ms Hn); exact Hnd].
      intros a b Ha Hb Hab. apply in_updm in Ha. apply in_updm in Hb.
      destruct Ha as [a0 [Ha0 [[Ena ->]|[Ena ->]]]], Hb as [b0 [Hb0 [[Enb ->]|[Enb ->]]]].
      + exfalso. apply Hab. rewrite !Hn. congruence.
      + rewrite (getm_unique i ms m Hnd G a0 Ha0 Ena). intros _ Lb x Hx Hxb.
        destruct (Hids x Hx) as [Hm|Hfresh].
        * assert (D : disj m b0) by (apply (pairwise_all ms Hdj Hnd); [exact Hin | exact Hb0 | congruence]).
          exact (D L Lb x Hm Hxb).
        * exact (Hfresh b0 Hb0 Enb Hxb).
      + rewrite (getm_unique i ms m Hnd G b0 Hb0 Enb). intros La _ x Hxa Hx.
        destruct (Hids x Hx) as [Hm|Hfresh].
        * assert (D : disj a0 m) by (apply (pairwise_all ms Hdj Hnd); [exact Ha0 | exact Hin | congruence]).
          exact (D La L x Hxa Hm).
        * exact (Hfresh a0 Ha0 Ena Hxa).
      + apply (pairwise_all ms Hdj Hnd); [exact Ha0 | exact Hb0 | exact Hab]. }
  split; [exact Hinv|].
  (* the variant *)
  assert (Htrig : trig (mkS c' (updm i F ms)) <= trig (mkS c ms)).
  { unfold trig. cbn [s_c s_ms].
    assert (sum (map (tw c') (updm i F ms)) + dk <= sum (map (tw c) ms)).
    { unfold updm. apply (sum_map_updm (tw c) (tw c') i _ ms m dk Hnd G).
      - intros m0 H0 Hn0. apply Nat.eqb_neq in Hn0. rewrite Hn0. destruct (Hoth m0 H0) as (_ & _ & T & _); [apply Nat.eqb_neq; exact Hn0|]. lia.
      - rewrite Hname, Nat.eqb_refl. exact Htw. }
    lia. }
  assert (HB : sum (map (mp c') (updm i F ms)) < 1024 * S (length ms)).
  { rewrite <- (updm_length i F ms). apply sum_mp_bound; [exact Hwc' | apply (iv_wfm _ _ Hinv)]. }
  unfold mu_behaves, mu. cbn [s_c s_ms]. rewrite (updm_length i F ms), Her.
  destruct real.
  - apply mu_cmp_eq; [exact HB | exact Htrig|].
    assert (sum (map (mp c') (updm i F ms)) + 1 <= sum (map (mp c) ms)); [|lia].
    unfold updm. apply (sum_map_updm (mp c) (mp c') i _ ms m 1 Hnd G).
    + intros m0 H0 Hn0. apply Nat.eqb_neq in Hn0. rewrite Hn0. destruct (Hoth m0 H0) as (_ & _ & _ & M); [apply Nat.eqb_neq; exact Hn0|]. lia.
    + rewrite Hname, Nat.eqb_refl. unfold mp. lia.
  - apply mu_cmp_le; [exact HB | exact Htrig|].
    assert (sum (map (mp c') (updm i F ms)) + 0 <= sum (map (mp c) ms)); [|lia].
    unfold updm. apply (sum_map_updm (mp c) (mp c') i _ ms m 0 Hnd G).
    + intros m0 H0 Hn0. apply Nat.eqb_neq in Hn0. rewrite Hn0. destruct (Hoth m0 H0) as (_ & _ & _ & M); [apply Nat.eqb_neq; exact Hn0|]. lia.
    + rewrite Hname, Nat.eqb_refl. unfold mp. lia.
Qed.

(* ---- orphans after a local step ---- *)
Definition dkc (c : coord) (m m' : member) : nat :=
  length (filter (fun x => bound m x && negb (bound m' x)) (ids (c_ents c))).

Lemma bound_updm_other : forall i F m0 x, m_name m0 <> i -> bound ((fun m => if m_name m =? i then F m else m) m0) x = bound m0 x.
Proof. intros i F m0 x H. apply Nat.eqb_neq in H. cbv beta. rewrite H. reflexivity. Qed.

Lemma orphans_same_ids : forall c c' ms i m F, NoDup (map m_name ms) -> getm i ms = Some m ->
  ids (c_ents c') = ids (c_ents c) ->
  count_orphans (mkS c' (updm i F ms)) <= count_orphans (mkS c ms) + dkc c m (F m).
Proof.
  intros c c' ms i m F ND G Hids. rewrite !count_orphans_ids. cbn [s_c s_ms]. rewrite Hids. unfold dkc.
  apply count_le_lost. intros x Hx Ho. unfold updm in Ho.
  destruct (orph_step ms _ i m x ND G (fun m0 _ Hn => bound_updm_other i F m0 x Hn) Ho) as [A|[A B]]; [left; exact A|].
  right. destruct (getm_In i ms m G) as [_ Hn]. rewrite Hn, Nat.eqb_refl in B. rewrite A, B. reflexivity.
Qed.

Lemma orphans_new_entry : forall c c' ms i m F x0, NoDup (map m_name ms) -> getm i ms = Some m ->
  ids (c_ents c') = ids (c_ents c) ++ [x0] -> bound (F m) x0 = true ->
  count_orphans (mkS c' (updm i F ms)) <= count_orphans (mkS c ms) + dkc c m (F m).
Proof.
  intros c c' ms i m F x0 ND G Hids Hb. rewrite !count_orphans_ids. cbn [s_c s_ms]. rewrite Hids. unfold dkc.
  rewrite filter_app, app_length.
  assert (E : filter (orph (updm i F ms)) [x0] = []).
  { cbn [filter]. unfold orph. assert (existsb (fun m0 => bound m0 x0) (updm i F ms) = true) as ->; [|reflexivity].
    apply existsb_exists. exists (F m). split; [|exact Hb]. unfold updm. apply in_map_iff. exists m.
    destruct (getm_In i ms m G) as [Hin Hn]. rewrite Hn, Nat.eqb_refl. split; [reflexivity | exact Hin]. }
  rewrite E. cbn [length]. rewrite Nat.add_0_r.
  apply count_le_lost. intros x Hx Ho. unfold updm in Ho.
  destruct (orph_step ms _ i m x ND G (fun m0 _ Hn => bound_updm_other i F m0 x Hn) Ho) as [A|[A B]]; [left; exact A|].
  right. destruct (getm_In i ms m G) as [_ Hn]. rewrite Hn, Nat.eqb_refl in B. rewrite A, B. reflexivity.
Qed.

Lemma dkc_le : forall c m m' li lf, wf_c c = true -> m_live m = true ->
  (bound m' (m_id m) = false -> li = true) -> (m_ph m = PJoinSent -> bound m' (m_focus m) = false -> lf = true) ->
  dkc c m m' <= dk_of (absm c m) li lf.
Proof.
  intros c m m' li lf Hc L Hli Hlf. pose proof (wf_c_parts c Hc) as Wc. unfold dkc.
  set (Q := fun x => bound m x && negb (bound m' x)).
  assert (H0 : forall x, In x (ids (c_ents c)) -> x <> 0).
  { intros x Hx E. subst x. apply memb_In in Hx. rewrite (wc_0e c Wc) in Hx. discriminate. }
  pose proof (count_two Q (ids (c_ents c)) (m_id m) (focus_of m) (proj1 (nodupb_NoDup _) (wc_nodup c Wc))) as H.
  assert (Hq : forall x, In x (ids (c_ents c)) -> Q x = true -> x = m_id m \/ x = focus_of m).
  { intros x Hx Hq. unfold Q in Hq. apply andb_true_iff in Hq. destruct Hq as [Hb _].
    apply (bound_has_id m x (H0 x Hx)) in Hb. destruct Hb as [_ [_ [E|E]]]; [left | right]; congruence. }
  specialize (H Hq). unfold dk_of, absm. pcbn.
  assert (T1 : (if Q (m_id m) && memb (m_id m) (ids (c_ents c)) then 1 else 0)
               <= (if li && negb (m_id m =? 0) && memb (m_id m) (ids (c_ents c)) then 1 else 0)).
  { destruct (Q (m_id m) && memb (m_id m) (ids (c_ents c))) eqn:E; [|lia]. apply andb_true_iff in E. destruct E as [E1 E2].
    unfold Q in E1. apply andb_true_iff in E1. destruct E1 as [_ E1]. apply negb_true_iff in E1. rewrite (Hli E1), E2.
    destruct (Nat.eqb_spec (m_id m) 0) as [Ez|Ez]; [rewrite Ez, (wc_0e c Wc) in E2; discriminate | cbn; lia]. }
  assert (T2 : (if Q (focus_of m) && memb (focus_of m) (ids (c_ents c)) && negb (focus_of m =? m_id m) then 1 else 0)
               <= (if lf && ph_eqb (m_ph m) PJoinSent && memb (focus_of m) (ids (c_ents c)) && negb (focus_of m =? m_id m) then 1 else 0)).
  { destruct (Q (focus_of m) && memb (focus_of m) (ids (c_ents c)) && negb (focus_of m =? m_id m)) eqn:E; [|lia].
    apply andb_true_iff in E. destruct E as [E E3]. apply andb_true_iff in E. destruct E as [E1 E2].
    unfold Q in E1. apply andb_true_iff in E1. destruct E1 as [_ E1]. apply negb_true_iff in E1.
    assert (P : ph_eqb (m_ph m) PJoinSent = true).
    { unfold focus_of in E2. destruct (ph_eqb (m_ph m) PJoinSent); [reflexivity | rewrite (wc_0e c Wc) in E2; discriminate]. }
    assert (P' : m_ph m = PJoinSent) by (destruct (m_ph m); try discriminate; reflexivity).
    assert (Ef : focus_of m = m_focus m) by (unfold focus_of; rewrite P; reflexivity).
    rewrite Ef in E1. rewrite (Hlf P' E1), E2, E3, P. cbn. lia. }
  lia.
Qed.

(* a step of member [i] that leaves the coordinator alone *)
Lemma local_same : forall c ms i m F dk real,
  inv_facts c ms -> getm i ms = Some m -> m_live m = true ->
  (forall m0, m_name (F m0) = m_name m0) ->
  good (absm c m) (absm c (F m)) dk real = true ->
  (forall x, has_id (F m) x -> has_id m x) ->
  dkc c m (F m) <= dk ->
  inv_facts c (updm i F ms) /\ mu_behaves real (mkS c ms) (mkS c (updm i F ms)).
Proof.
  intros c ms i m F dk real Hinv G L Hn Hgood Hids Hdk.
  apply (local_step c c ms i m F dk real Hinv G L Hn (iv_wfc _ _ Hinv) eq_refl); try assumption.
  - intros; reflexivity.
  - intros x Hx. left. apply Hids. exact Hx.
  - pose proof (orphans_same_ids c c ms i m F (iv_names _ _ Hinv) G eq_refl). lia.
Qed.

(* ---- pieces for the steps that change the coordinator's state ---- *)
Lemma disj_updm : forall c ms i m F, inv_facts c ms -> getm i ms = Some m -> m_live m = true ->
  (forall m0, m_name (F m0) = m_name m0) ->
  (forall x, has_id (F m) x -> has_id m x \/ (forall m0, In m0 ms -> m_name m0 <> i -> ~ has_id m0 x)) ->
  pairwise disjoint_m (updm i F ms) = true.
Proof.
  intros c ms i m F [Hwc Hwm Hcoh Hnd Hdj] G L Hn Hids. destruct (getm_In i ms m G) as [Hin Hname].
  apply pairwise_of_all; [|rewrite (updm_names i F ms Hn); exact Hnd].
  intros a b Ha Hb Hab. apply in_updm in Ha. apply in_updm in Hb.
  destruct Ha as [a0 [Ha0 [[Ena ->]|[Ena ->]]]], Hb as [b0 [Hb0 [[Enb ->]|[Enb ->]]]].
  - exfalso. apply Hab. rewrite !Hn. congruence.
  - rewrite (getm_unique i ms m Hnd G a0 Ha0 Ena). intros _ Lb x Hx Hxb.
    destruct (Hids x Hx) as [Hm|Hfresh].
    + assert (D : disj m b0) by (apply (pairwise_all ms Hdj Hnd); [exact Hin | exact Hb0 | congruence]). exact (D L Lb x Hm Hxb).
    + exact (Hfresh b0 Hb0 Enb Hxb).
  - rewrite (getm_unique i ms m Hnd G b0 Hb0 Enb). intros La _ x Hxa Hx.
    destruct (Hids x Hx) as [Hm|Hfresh].
    + assert (D : disj a0 m) by (apply (pairwise_all ms Hdj Hnd); [exact Ha0 | exact Hin | congruence]). exact (D La L x Hxa Hm).
    + exact (Hfresh a0 Ha0 Ena Hxa).
  - apply (pairwise_all ms Hdj Hnd); [exact Ha0 | exact Hb0 | exact Hab].
Qed.

Lemma pairwise_map_same : forall (g : member -> member) ms,
  (forall m, m_live (g m) = m_live m /\ m_id (g m) = m_id m /\ m_ph (g m) = m_ph m /\ m_focus (g m) = m_focus m) ->
  pairwise disjoint_m (map g ms) = pairwise disjoint_m ms.
Proof.
  intros g ms Hg.
  assert (Hd : forall a b, disjoint_m (g a) (g b) = disjoint_m a b).
  { intros a b. destruct (Hg a) as (A1 & A2 & A3 & A4). destruct (Hg b) as (B1 & B2 & B3 & B4).
    unfold disjoint_m, bound, focus_of. rewrite A1, A2, A3, A4, B1, B2, B3, B4. reflexivity. }
  induction ms as [|a r IH]; [reflexivity|]. cbn [map pairwise]. rewrite IH. f_equal.
  clear IH. induction r as [|b r IH]; [reflexivity|]. cbn [map forallb]. rewrite IH, Hd. reflexivity.
Qed.

Lemma epoch_general : forall c c' ms (g : member -> member),
  inv_facts c ms -> (forall m0, m_name (g m0) = m_name m0) -> wf_c c' = true ->
  (forall m0, In m0 ms -> wf_m c' (g m0) = true /\ coh c' (g m0) = true) ->
  pairwise disjoint_m (map g ms) = true ->
  (sum (map (tw c') (map g ms)) + count_orphans (mkS c' (map g ms))) * 4 + erank c' < trig (mkS c ms) * 4 + erank c ->
  inv_facts c' (map g ms) /\ mu (mkS c' (map g ms)) < mu (mkS c ms).
Proof.
  intros c c' ms g Hinv Hn Hwc' Hall Hpw Htr.
  assert (Hinv' : inv_facts c' (map g ms)).
  { constructor; [exact Hwc' | | | |exact Hpw].
    - intros m' H'. apply in_map_iff in H'. destruct H' as [m0 [<- H0]]. apply (Hall m0 H0).
    - intros m' H'. apply in_map_iff in H'. destruct H' as [m0 [<- H0]]. apply (Hall m0 H0).
    - rewrite map_map. rewrite (map_ext (fun x => m_name (g x)) m_name Hn). exact (iv_names _ _ Hinv). }
  split; [exact Hinv'|]. unfold mu, trig. cbn [s_c s_ms]. rewrite map_length.
  apply mu_cmp; [|exact Htr].
  rewrite <- (map_length g ms). apply sum_mp_bound; [exact Hwc' | apply (iv_wfm _ _ Hinv')].
Qed.

(* orphans when the ids of the table stay (or one bound id is added) and nobody loses a binding *)
Lemma orphans_mono : forall c c' ms (g : member -> member) extra,
  ids (c_ents c') = ids (c_ents c) ++ extra ->
  (forall x, In x extra -> exists m0, In m0 ms /\ bound (g m0) x = true) ->
  (forall m0 x, In m0 ms -> bound m0 x = true -> bound (g m0) x = true) ->
  count_orphans (mkS c' (map g ms)) <= count_orphans (mkS c ms).
Proof.
  intros c c' ms g extra Hids Hex Hb. rewrite !count_orphans_ids. cbn [s_c s_ms]. rewrite Hids, filter_app, app_length.
  assert (E : forall ex, (forall x, In x ex -> exists m0, In m0 ms /\ bound (g m0) x = true) -> filter (orph (map g ms)) ex = []).
  { induction ex as [|x r IH]; intros Hx; [reflexivity|]. cbn [filter]. destruct (Hx x (or_introl eq_refl)) as [m0 [H0 B]].
    unfold orph at 1. assert (existsb (fun m1 => bound m1 x) (map g ms) = true) as ->.
    { apply existsb_exists. exists (g m0). split; [apply in_map; exact H0 | exact B]. }
    cbn [negb]. apply IH. intros z Hz. apply Hx. right. exact Hz. }
  rewrite (E extra Hex). clear E. cbn [length]. rewrite Nat.add_0_r.
  assert (H : length (filter (orph (map g ms)) (ids (c_ents c))) <= length (filter (orph ms) (ids (c_ents c))) + length (filter (fun _ => false) (ids (c_ents c)))).
  { apply count_le_lost. intros x _ Ho. left. unfold orph in *. apply negb_true_iff in Ho. apply negb_true_iff.
    destruct (existsb (fun m0 => bound m0 x) ms) eqn:Ex; [|reflexivity]. exfalso.
    apply existsb_exists in Ex. destruct Ex as [m0 [H0 B]].
    assert (existsb (fun m1 => bound m1 x) (map g ms) = true); [|congruence].
    apply existsb_exists. exists (g m0). split; [apply in_map; exact H0 | apply Hb; assumption]. }
  assert (Z : forall l : list nat, length (filter (fun _ : nat => false) l) = 0) by (induction l; [reflexivity | assumption]).
  rewrite Z in H. lia.
Qed.
