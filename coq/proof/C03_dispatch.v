(* Proofs about the per-partition error dispatch of a Fetch response, translated from
   Fetcher._proc_fetch_request on every run (gen/FetchDispatch.v). *)
From Coq Require Import ZArith List Bool Lia.
From Verif Require Import DispatchActs FetchDispatch.
Import ListNotations.
Open Scope Z_scope.

Definition OFFSET_OUT_OF_RANGE : Z := 1.
Definition TOPIC_AUTHORIZATION_FAILED : Z := 29.

(* for EVERY integer code: only OFFSET_OUT_OF_RANGE can make the consumer give up its position *)
Lemma only_out_of_range_moves_position : forall c p,
  has AAwaitReset (fetchDispatch c p) = true -> c = OFFSET_OUT_OF_RANGE /\ p = true.
Proof.
  intros c p. unfold fetchDispatch.
  destruct (Z.eqb_spec c 0); [discriminate|].
  destruct ((c =? 6) || (c =? 3)); [discriminate|].
  destruct (Z.eqb_spec c 1) as [->|?].
  - destruct p; [intros _; split; reflexivity | discriminate].
  - destruct (c =? 29); discriminate.
Qed.

(* ... and an error is surfaced to the application only for an out-of-range position without a
   reset policy, or for a topic the consumer may not read *)
Lemma errors_surfaced_only_for : forall c p,
  has ASetError (fetchDispatch c p) = true ->
  (c = OFFSET_OUT_OF_RANGE /\ p = false) \/ c = TOPIC_AUTHORIZATION_FAILED.
Proof.
  intros c p. unfold fetchDispatch.
  destruct (Z.eqb_spec c 0); [discriminate|].
  destruct ((c =? 6) || (c =? 3)); [discriminate|].
  destruct (Z.eqb_spec c 1) as [->|?].
  - destruct p; [discriminate | intros _; left; split; reflexivity].
  - destruct (Z.eqb_spec c 29) as [->|?]; [intros _; right; reflexivity | discriminate].
Qed.

Lemma out_of_range_follows_policy :
  fetchDispatch OFFSET_OUT_OF_RANGE true = [AAwaitReset] /\ fetchDispatch OFFSET_OUT_OF_RANGE false = [ASetError].
Proof. split; vm_compute; reflexivity. Qed.

(* leadership errors refresh the metadata and touch nothing else *)
Lemma leader_errors_refresh_metadata : forall c p, In c [3; 6] -> fetchDispatch c p = [AMetadataUpdate].
Proof. intros c p Hc. simpl in Hc. destruct Hc as [<-|[<-|[]]]; destruct p; vm_compute; reflexivity. Qed.

(* every other error code - for every integer - leaves the partition exactly as it was (the fetch is
   simply repeated): nothing is skipped, nothing is raised *)
Lemma other_errors_change_nothing : forall c p, ~ In c fetchDispatch_named_codes -> fetchDispatch c p = [].
Proof.
  intros c p Hn. unfold fetchDispatch_named_codes in Hn. unfold fetchDispatch.
  repeat match goal with
         | |- context [?x =? ?k] => destruct (Z.eqb_spec x k) as [->|?]; [exfalso; apply Hn; simpl; tauto|]
         end.
  reflexivity.
Qed.
