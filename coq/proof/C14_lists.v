(* C14 — list lemmas shared by the assignor proofs. *)
From Coq Require Import Arith List Bool Lia PeanoNat Permutation.
From Verif Require Import C14_Assignors.
Import ListNotations.

Lemma insert_perm : forall x l, Permutation (insert x l) (x :: l).
Proof.
  induction l as [|y r IH]; simpl; auto.
  destruct (x <=? y); auto.
  eapply perm_trans; [apply perm_skip, IH | apply perm_swap].
Qed.

Lemma sort_perm : forall l, Permutation (sort l) l.
Proof.
  induction l as [|x r IH]; simpl; auto.
  eapply perm_trans; [apply insert_perm | apply perm_skip, IH].
Qed.

Lemma sort_In : forall x l, In x (sort l) <-> In x l.
Proof.
  intros; split; apply Permutation_in; [apply sort_perm | apply Permutation_sym, sort_perm].
Qed.

Lemma sort_NoDup : forall l, NoDup l -> NoDup (sort l).
Proof. intros l H. eapply Permutation_NoDup; [apply Permutation_sym, sort_perm | exact H]. Qed.

Lemma sort_length : forall l, length (sort l) = length l.
Proof. intros. apply Permutation_length, sort_perm. Qed.

Lemma mem_nat_In : forall x l, mem_nat x l = true <-> In x l.
Proof.
  intros. unfold mem_nat. rewrite existsb_exists. split.
  - intros [y [Hy He]]. apply Nat.eqb_eq in He. subst; auto.
  - intros H. exists x. split; auto. apply Nat.eqb_refl.
Qed.

Lemma mem_nat_false : forall x l, mem_nat x l = false <-> ~ In x l.
Proof.
  intros. rewrite <- mem_nat_In. destruct (mem_nat x l); split; intros; try congruence; auto.
Qed.

(* NoDup of a flat_map from NoDup pieces that are pairwise disjoint *)
Lemma NoDup_app_intro : forall (A : Type) (l1 l2 : list A),
  NoDup l1 -> NoDup l2 -> (forall x, In x l1 -> In x l2 -> False) -> NoDup (l1 ++ l2).
Proof.
  induction l1 as [|a l1 IH]; simpl; intros l2 H1 H2 Hd; auto.
  inversion H1; subst. constructor.
  - rewrite in_app_iff. intros [H|H]; auto. eapply Hd; eauto.
  - apply IH; auto. intros x Hx Hx2. eapply Hd; eauto.
Qed.

Lemma NoDup_flat_map : forall (A B : Type) (f : A -> list B) (l : list A),
  NoDup l ->
  (forall a, In a l -> NoDup (f a)) ->
  (forall a b x, In a l -> In b l -> a <> b -> In x (f a) -> In x (f b) -> False) ->
  NoDup (flat_map f l).
Proof.
  induction l as [|a l IH]; simpl; intros Hn Hf Hd; [constructor|].
  inversion Hn; subst.
  apply NoDup_app_intro.
  - apply Hf; auto.
  - apply IH; auto. intros; eapply (Hd a0 b); eauto.
  - intros x Hx Hy. apply in_flat_map in Hy. destruct Hy as [b [Hb Hxb]].
    eapply (Hd a b); eauto. intros ->. auto.
Qed.

Lemma NoDup_map_inj : forall (A B : Type) (f : A -> B) (l : list A),
  (forall x y, In x l -> In y l -> f x = f y -> x = y) -> NoDup l -> NoDup (map f l).
Proof.
  induction l as [|a l IH]; simpl; intros Hi Hn; [constructor|].
  inversion Hn; subst. constructor.
  - rewrite in_map_iff. intros [y [Hy Hin]]. apply Hi in Hy; auto. subst; auto.
  - apply IH; auto.
Qed.

Lemma NoDup_filter : forall (A : Type) (f : A -> bool) (l : list A), NoDup l -> NoDup (filter f l).
Proof.
  induction l as [|a l IH]; simpl; intros Hn; [constructor|].
  inversion Hn; subst. destruct (f a); auto.
  constructor; auto. rewrite filter_In. tauto.
Qed.

Lemma firstn_skipn_seq : forall n s l, s + l <= n -> firstn l (skipn s (seq 0 n)) = seq s l.
Proof.
  intros n s l H.
  replace n with (s + (l + (n - s - l))) by lia.
  rewrite seq_app, skipn_app, seq_length, Nat.sub_diag. simpl.
  rewrite skipn_all2 by (rewrite seq_length; lia). simpl.
  rewrite seq_app, firstn_app, seq_length, Nat.sub_diag. simpl.
  rewrite firstn_all2 by (rewrite seq_length; lia).
  rewrite app_nil_r. reflexivity.
Qed.

(* all members' ids distinct (dict keys) *)
Definition ids_nodup (ms : members_t) : Prop := NoDup (map fst ms).
(* each subscription lists a topic at most once *)
Definition subs_nodup (ms : members_t) : Prop := forall m s, In (m, s) ms -> NoDup s.

Lemma subs_of_In : forall ms m s, ids_nodup ms -> In (m, s) ms -> subs_of ms m = s.
Proof.
  induction ms as [|[m' s'] r IH]; simpl; intros m s Hn Hin; [tauto|].
  inversion Hn; subst.
  destruct Hin as [E|Hin].
  - inversion E; subst. rewrite Nat.eqb_refl. reflexivity.
  - destruct (Nat.eqb_spec m m') as [->|Hne].
    + exfalso. apply H1. apply in_map_iff. exists (m', s). auto.
    + apply IH; auto.
Qed.

Lemma subs_of_subscribed : forall ms m t, In t (subs_of ms m) -> subscribed ms m t.
Proof.
  induction ms as [|[m' s'] r IH]; simpl; intros m t H; [tauto|].
  destruct (Nat.eqb_spec m m') as [->|Hne].
  - exists s'. simpl; auto.
  - destruct (IH _ _ H) as [s [Hs Ht]]. exists s. simpl; auto.
Qed.

Lemma subscribed_subs_of : forall ms m t, ids_nodup ms -> subscribed ms m t -> In t (subs_of ms m).
Proof. intros ms m t Hn [s [Hs Ht]]. rewrite (subs_of_In ms m s); auto. Qed.

Lemma all_topics_In : forall ms t, In t (all_topics ms) <-> exists m, subscribed ms m t.
Proof.
  intros. unfold all_topics. rewrite sort_In, nodup_In, in_flat_map. split.
  - intros [[m s] [Hin Ht]]. exists m, s. auto.
  - intros [m [s [Hin Ht]]]. exists (m, s). auto.
Qed.

Lemma all_topics_NoDup : forall ms, NoDup (all_topics ms).
Proof. intros. apply sort_NoDup, NoDup_nodup. Qed.

Lemma in_triples_of : forall out m x,
  In (m, x) (triples_of out) <->
  exists a ps, In (m, a) out /\ In (fst x, ps) a /\ In (snd x) ps.
Proof.
  intros out m [t p]. unfold triples_of, triples_of_massign. simpl. rewrite in_flat_map. split.
  - intros [[m' a] [Hin H]]. apply in_flat_map in H. destruct H as [[t' ps] [Ha H]].
    apply in_map_iff in H. destruct H as [p' [E Hp]]. inversion E; subst.
    exists a, ps. auto.
  - intros [a [ps [Hin [Ha Hp]]]]. exists (m, a). split; auto.
    apply in_flat_map. exists (t, ps). split; auto. apply in_map_iff. exists p. auto.
Qed.

Lemma NoDup_map_eq : forall (A B : Type) (f : A -> B) (l : list A) a b,
  NoDup (map f l) -> In a l -> In b l -> f a = f b -> a = b.
Proof.
  induction l as [|x l IH]; simpl; intros a b Hn Ha Hb E; [tauto|].
  inversion Hn; subst.
  destruct Ha as [->|Ha], Hb as [->|Hb]; auto.
  - exfalso. apply H1. rewrite E. apply in_map; auto.
  - exfalso. apply H1. rewrite <- E. apply in_map; auto.
Qed.

(* ---- assignments of "grid" shape: per member, per topic (in a fixed topic order), an
   optional entry (t, P m t).  Both range_assign and roundrobin_assign have this shape. *)
Definition grid_member (P : member -> topic -> option (list nat)) (topics : list topic) (m : member)
  : massign :=
  flat_map (fun t => match P m t with None => [] | Some ps => [(t, ps)] end) topics.
Definition grid_assign (P : member -> topic -> option (list nat)) (topics : list topic)
  (ms : members_t) : assignment :=
  map (fun e => (fst e, grid_member P topics (fst e))) ms.

Lemma grid_member_In : forall P topics m t ps,
  In (t, ps) (grid_member P topics m) <-> In t topics /\ P m t = Some ps.
Proof.
  intros. unfold grid_member. rewrite in_flat_map. split.
  - intros [t' [Ht H]]. destruct (P m t') eqn:E; simpl in H; [|tauto].
    destruct H as [H|[]]. inversion H; subst. auto.
  - intros [Ht E]. exists t. rewrite E. simpl; auto.
Qed.

Lemma grid_In : forall P topics ms m x,
  In (m, x) (triples_of (grid_assign P topics ms)) <->
  In m (map fst ms) /\ In (fst x) topics /\ exists ps, P m (fst x) = Some ps /\ In (snd x) ps.
Proof.
  intros. rewrite in_triples_of. unfold grid_assign. split.
  - intros [a [ps [Hin [Ha Hp]]]]. apply in_map_iff in Hin. destruct Hin as [e [E He]].
    inversion E; subst. apply grid_member_In in Ha. destruct Ha as [Ht HP].
    split; [apply in_map; auto|]. split; auto. exists ps; auto.
  - intros [Hm [Ht [ps [HP Hp]]]]. apply in_map_iff in Hm. destruct Hm as [e [E He]]. subst.
    exists (grid_member P topics (fst e)), ps. split; [|split; auto].
    + apply in_map_iff. exists e; auto.
    + apply grid_member_In; auto.
Qed.

Lemma grid_parts : forall P topics ms,
  map snd (triples_of (grid_assign P topics ms)) =
  flat_map (fun e => flat_map (fun t => match P (fst e) t with None => []
                                         | Some ps => map (pair t) ps end) topics) ms.
Proof.
  intros. unfold triples_of, grid_assign.
  induction ms as [|e ms IH]; simpl; auto.
  rewrite map_app, IH. f_equal.
  unfold triples_of_massign, grid_member. clear IH.
  induction topics as [|t topics IH]; simpl; auto.
  rewrite flat_map_app, map_app. f_equal; [|exact IH].
  destruct (P (fst e) t); simpl; auto.
  rewrite app_nil_r, map_map. reflexivity.
Qed.

Lemma grid_NoDup : forall P topics ms,
  NoDup (map fst ms) -> NoDup topics ->
  (forall m t ps, P m t = Some ps -> NoDup ps) ->
  (forall m m' t ps ps' p, m <> m' -> P m t = Some ps -> P m' t = Some ps' ->
                           In p ps -> In p ps' -> False) ->
  NoDup (map snd (triples_of (grid_assign P topics ms))).
Proof.
  intros P topics ms Hm Ht Hnd Hdis. rewrite grid_parts.
  apply NoDup_flat_map.
  - eapply NoDup_map_inv; eauto.
  - intros e He. apply NoDup_flat_map; auto.
    + intros t _. destruct (P (fst e) t) eqn:E; [|constructor].
      apply NoDup_map_inj; [|eapply Hnd; eauto]. intros x y _ _ H. inversion H; auto.
    + intros t t' x _ _ Hne H1 H2.
      destruct (P (fst e) t); [|simpl in H1; tauto].
      destruct (P (fst e) t'); [|simpl in H2; tauto].
      apply in_map_iff in H1, H2. destruct H1 as [p [E1 _]], H2 as [p' [E2 _]].
      subst. inversion E2. auto.
  - intros a b x Ha Hb Hne H1 H2.
    assert (fst a <> fst b) by (intros E; apply Hne; eapply NoDup_map_eq; eauto).
    apply in_flat_map in H1, H2. destruct H1 as [t [_ H1]], H2 as [t' [_ H2]].
    destruct (P (fst a) t) eqn:E1; [|simpl in H1; tauto].
    destruct (P (fst b) t') eqn:E2; [|simpl in H2; tauto].
    apply in_map_iff in H1, H2. destruct H1 as [p [<- Hp]], H2 as [p' [E Hp']].
    inversion E; subst. eapply (Hdis (fst a) (fst b)); eauto.
Qed.
