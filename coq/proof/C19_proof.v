From Coq Require Import List Bool Arith Lia.
From Verif Require Import Shutdown.
Import ListNotations.

(* while closing the final commit makes exactly one attempt, whatever the coordinator answers *)
Theorem commit_one_attempt_when_closing : forall outs, outs <> [] ->
  fst (commit_loop true outs) = 1 /\ snd (commit_loop true outs) <> CFuel.
Proof.
  intros outs H. destruct outs as [|a rest]; [congruence|]. destruct a; cbn; split; congruence.
Qed.

(* not closing: the loop ends exactly at the first non-retriable outcome *)
Theorem commit_loop_retries_until_non_retriable : forall pre a rest,
  Forall (fun x => x = ARetriable) pre -> a <> ARetriable ->
  fst (commit_loop false (pre ++ a :: rest)) = S (length pre).
Proof.
  induction pre as [|x pre IH]; intros a rest Hp Ha; cbn [app].
  - destruct a; cbn; congruence.
  - inversion Hp; subst. cbn [commit_loop]. specialize (IH a rest H2 Ha).
    destruct (commit_loop false (pre ++ a :: rest)) as [n r]. cbn in *. lia.
Qed.

(* the unfixed loop (closing ignored) never ends on an all-retriable oracle: it exhausts every script *)
Theorem commit_loop_unbounded_if_not_closing : forall outs,
  Forall (fun x => x = ARetriable) outs -> snd (commit_loop false outs) = CFuel.
Proof.
  induction outs as [|x outs IH]; intros H; [reflexivity|]. inversion H; subst. cbn [commit_loop].
  specialize (IH H3). destruct (commit_loop false outs) as [n r]. cbn in *. exact IH.
Qed.

Lemma fold_add_acc l a : fold_left Nat.add l a = a + fold_left Nat.add l 0.
Proof. revert a. induction l as [|x l IH]; intros a; cbn; [lia|]. rewrite IH, (IH x). lia. Qed.

Lemma attempts_time_closing_le T l : forallb (fun ad => snd ad <=? T) l = true -> attempts_time true l <= T.
Proof.
  unfold attempts_time. destruct l as [|[a d] rest]; cbn [map fst commit_loop]; [cbn; lia|].
  intros H. cbn [forallb snd] in H. apply andb_true_iff in H. destruct H as (Hd & _). apply Nat.leb_le in Hd.
  destruct a; cbn; lia.
Qed.

(* every path of stop() whose awaits are each bounded by T takes at most 4*T *)
Theorem stop_bounded : forall T p, bounded T p = true -> stop_time p <= 4 * T.
Proof.
  intros T [r c l] Hb. unfold bounded in Hb.
  apply andb_true_iff in Hb. destruct Hb as (Hb & Hl). apply andb_true_iff in Hb. destruct Hb as (Hr & Hc).
  assert (R : match r with Some d => d | None => 0 end <= 2 * T).
  { destruct r as [d|]; cbn in Hr; [apply Nat.leb_le in Hr; exact Hr|lia]. }
  assert (C : match c with Some a => attempts_time true a | None => 0 end <= T).
  { destruct c as [a|]; [apply attempts_time_closing_le; exact Hc|lia]. }
  assert (L : match l with Some d => d | None => 0 end <= T).
  { destruct l as [d|]; cbn in Hl; [apply Nat.leb_le in Hl; exact Hl|lia]. }
  unfold stop_time, points.
  destruct r as [dr|]; destruct c as [a|]; destruct l as [dl|];
    cbn [app map point_time fold_left Nat.add]; lia.
Qed.
