(* C10_crc_proof.v — a batch whose checksum field differs from the checksum of its content is
   reported invalid (driver with validate_crc: CorruptRecordException, no record delivered),
   by the compiled and by the pure-Python model, for ANY setting of the fix flags and any
   checksum function. *)
From Coq Require Import ZArith List Bool Lia ZifyBool.
From Verif Require Import C10_Base C10_DecodeSafeCy C10_DecodeSafePy C10_wp C10_cy_proof.
Import ListNotations.
Open Scope Z_scope.
Ltac Zify.zify_post_hook ::= Z.to_euclidean_division_equations.

Lemma bind_ok_inv {A B} (m : res A) (k : A -> res B) b :
  bind m k = Ok b -> exists a, m = Ok a /\ k a = Ok b.
Proof. destruct m; cbn; [eauto|discriminate]. Qed.

Lemma sub_prefix (l : list Z) m p n :
  0 <= p -> 0 <= n -> p + n <= m -> sub (sub l 0 m) p n = sub l p n.
Proof.
  intros. unfold sub. change (Z.to_nat 0) with O. rewrite skipn_O.
  rewrite skipn_firstn_comm, firstn_firstn. f_equal. lia.
Qed.

Lemma rd_inv site sp buf pos n l :
  rd site sp buf pos n = Ok l -> 0 <= pos /\ pos + n <= zlen buf /\ l = sub buf pos n.
Proof.
  unfold rd. destruct ((0 <=? pos) && (pos + n <=? zlen buf)) eqn:E; [|discriminate].
  intros H. injection H as <-. repeat split; lia.
Qed.

(* ------------------------------------------------------------------ compiled, v2 *)
Theorem cy_v2_crc_detects crc32c dec f buf h :
  cy_v2_read_header f buf = Ok h ->
  v2_crc_field buf <> crc32c (v2_crc_content buf) ->
  cy_v2_run crc32c dec f true buf = ([], SFail (FRaise Corrupt)).
Proof.
  intros Hh Hne. unfold cy_v2_run. rewrite Hh.
  destruct (cy_v2_read_header_inv f buf h Hh) as [Hl Hc].
  rewrite cy_v2_validate_eq by assumption. rewrite Hc.
  destruct (v2_crc_field buf =? crc32c (v2_crc_content buf)) eqn:E; [lia|reflexivity].
Qed.

(* ------------------------------------------------------------------ compiled, legacy *)
Lemma cy_chk_26 f len : cy_chk f len 0 26 = Ok tt -> 26 <= len.
Proof.
  unfold cy_chk. destruct (fx_bounds f).
  - destruct ((26 <? 0) || (len - 0 <? 26)) eqn:E; [discriminate|]. lia.
  - change (wrap64 (0 + 26)) with 26. destruct (len <? 26) eqn:E; [discriminate|]. lia.
Qed.

Lemma cy_l_read_record_inv f buf m p :
  cy_l_read_record f 0 buf 0 = Ok (m, p) -> 26 <= zlen buf /\ m_crc m = l_crc_field buf.
Proof.
  unfold cy_l_read_record. cbv zeta. intros H.
  apply bind_ok_inv in H. destruct H as [[] [Hchk H]].
  apply cy_chk_26 in Hchk.
  apply bind_ok_inv in H. destruct H as [offset [_ H]].
  apply bind_ok_inv in H. destruct H as [crc [Hcrc H]].
  unfold rd_u in Hcrc. apply bind_ok_inv in Hcrc. destruct Hcrc as [l [Hl Hcrc]].
  apply rd_inv in Hl. destruct Hl as [_ [_ ->]]. injection Hcrc as <-.
  apply bind_ok_inv in H. destruct H as [magic [_ H]].
  apply bind_ok_inv in H. destruct H as [attrs [_ H]].
  apply bind_ok_inv in H. destruct H as [[ts p0] [_ H]].
  apply bind_ok_inv in H. destruct H as [ksz [_ H]].
  apply bind_ok_inv in H. destruct H as [[key p1] [_ H]].
  apply bind_ok_inv in H. destruct H as [[] [_ H]].
  apply bind_ok_inv in H. destruct H as [vsz [_ H]].
  apply bind_ok_inv in H. destruct H as [[value p2] [_ H]].
  injection H as <- _. cbn [m_crc]. split; [assumption|reflexivity].
Qed.

Theorem cy_l_crc_detects crc32 dec f magic buf m p :
  cy_l_read_record f 0 buf 0 = Ok (m, p) ->
  l_crc_field buf <> crc32 (l_crc_content buf) ->
  cy_l_run crc32 dec f true magic buf = ([], SFail (FRaise Corrupt)).
Proof.
  intros Hm Hne. unfold cy_l_run. rewrite Hm.
  destruct (cy_l_read_record_inv f buf m p Hm) as [Hl Hc].
  rewrite cy_l_validate_eq by assumption. rewrite Hc.
  destruct (l_crc_field buf =? crc32 (l_crc_content buf)) eqn:E; [lia|reflexivity].
Qed.

(* ------------------------------------------------------------------ Python *)
Lemma py_unpack_from_0_inv l size x :
  0 <= size -> py_unpack_from l 0 size = Ok x -> size <= zlen l /\ x = sub l 0 size.
Proof.
  unfold py_unpack_from. change (0 <? 0) with false. cbv iota.
  intros Hs. destruct (zlen l - 0 <? size) eqn:E; [discriminate|].
  intros H. injection H as <-. split; [lia|reflexivity].
Qed.

Lemma py_slice_from_eq l a : 0 <= a <= zlen l -> py_slice_from l a = sub l a (zlen l - a).
Proof.
  intros Ha. unfold py_slice_from, py_slice, py_norm.
  replace (a <? 0) with false by lia. replace (zlen l <? 0) with false by lia.
  replace (Z.min a (zlen l)) with a by lia. replace (Z.min (zlen l) (zlen l)) with (zlen l) by lia.
  destruct (a <? zlen l) eqn:E; [reflexivity|].
  replace (zlen l - a) with 0 by lia. reflexivity.
Qed.

Theorem py_v2_crc_detects crc32c dec buf h :
  py_v2_new buf = Ok h ->
  v2_crc_field buf <> crc32c (v2_crc_content buf) ->
  py_v2_run crc32c dec true buf = ([], SFail (FRaise Corrupt)).
Proof.
  intros Hh Hne. unfold py_v2_run. rewrite Hh.
  unfold py_v2_new in Hh. apply bind_ok_inv in Hh. destruct Hh as [l [Hl Hh]].
  apply py_unpack_from_0_inv in Hl; [|lia]. destruct Hl as [Hlen ->].
  injection Hh as <-.
  unfold py_v2_validate. cbn [ph_crc].
  rewrite sub_prefix by lia. rewrite py_slice_from_eq by lia.
  fold (v2_crc_field buf). fold (v2_crc_content buf).
  destruct (v2_crc_field buf =? crc32c (v2_crc_content buf)) eqn:E; [lia|reflexivity].
Qed.

Theorem py_l_crc_detects crc32 dec f magic buf h :
  py_l_new magic buf = Ok h ->
  l_crc_field buf <> crc32 (l_crc_content buf) ->
  py_l_run crc32 dec f true magic buf = ([], SFail (FRaise Corrupt)).
Proof.
  intros Hh Hne. unfold py_l_run. rewrite Hh.
  unfold py_l_new in Hh. apply bind_ok_inv in Hh. destruct Hh as [h0 [Hr Hh]].
  assert (h = h0) as ->.
  { destruct (negb (l_length h0 =? zlen buf - 12)); [discriminate|].
    destruct (negb (magic =? l_magic h0)); [discriminate|]. injection Hh as ->. reflexivity. }
  unfold py_l_read_header in Hr. apply bind_ok_inv in Hr. destruct Hr as [l [Hl Hr]].
  apply py_unpack_from_0_inv in Hl; [|destruct (magic =? 0); lia]. destruct Hl as [Hlen ->].
  injection Hr as <-.
  unfold py_l_validate. cbn [l_crc].
  rewrite sub_prefix by (destruct (magic =? 0); lia).
  rewrite py_slice_from_eq by (destruct (magic =? 0); lia).
  fold (l_crc_field buf). fold (l_crc_content buf).
  destruct (l_crc_field buf =? crc32 (l_crc_content buf)) eqn:E; [lia|reflexivity].
Qed.
